(* Layer 4a: internal/rfmt/format.go.  Pure functions from the flag record and
   an operand to the list of buffer writes the Go code performs.  Calls that
   leave the repository (strconv) are look-ups in an oracle table shipped with
   each case. *)
From Redact Require Export Bytes Utf8.

Open Scope Z_scope.

(* ---------- write requests ---------- *)
Inductive wop :=
| WB (c : N)          (* buf.writeByte / WriteByte *)
| WS (s : bytes)      (* buf.write / writeString / WriteString *)
| WR (r : Z)          (* buf.writeRune *)
| WG (n : Z).         (* buf.Grow *)

Record flags := mkFlags {
  widPresent : bool; precPresent : bool;
  minus : bool; plus : bool; sharp : bool; space : bool; zero : bool;
  plusV : bool; sharpV : bool
}.
Definition noflags : flags := mkFlags false false false false false false false false false.

Record fst_ := mkF { fl : flags; wid : Z; prec : Z }.

Definition set_zero (f : fst_) (z : bool) : fst_ :=
  let x := fl f in
  mkF (mkFlags (widPresent x) (precPresent x) (minus x) (plus x) (sharp x) (space x) z (plusV x) (sharpV x))
      (wid f) (prec f).
Definition set_sharp (f : fst_) (z : bool) : fst_ :=
  let x := fl f in
  mkF (mkFlags (widPresent x) (precPresent x) (minus x) (plus x) z (space x) (zero x) (plusV x) (sharpV x))
      (wid f) (prec f).
Definition set_plus (f : fst_) (z : bool) : fst_ :=
  let x := fl f in
  mkF (mkFlags (widPresent x) (precPresent x) (minus x) z (sharp x) (space x) (zero x) (plusV x) (sharpV x))
      (wid f) (prec f).

(* ---------- oracle ---------- *)
Inductive okey :=
| KFloat (bits : Z) (fmtc : Z) (prec : Z) (size : Z)   (* strconv.AppendFloat *)
| KQuote (s : bytes) | KQuoteAscii (s : bytes) | KBackquote (s : bytes)
| KQuoteRune (r : Z) | KQuoteRuneAscii (r : Z) | KIsPrint (r : Z).

Definition okey_eqb (a b : okey) : bool :=
  match a, b with
  | KFloat a1 a2 a3 a4, KFloat b1 b2 b3 b4 => (a1 =? b1) && (a2 =? b2) && (a3 =? b3) && (a4 =? b4)
  | KQuote x, KQuote y | KQuoteAscii x, KQuoteAscii y | KBackquote x, KBackquote y => beq x y
  | KQuoteRune x, KQuoteRune y | KQuoteRuneAscii x, KQuoteRuneAscii y | KIsPrint x, KIsPrint y => x =? y
  | _, _ => false
  end.

Definition oracle := list (okey * bytes).
Fixpoint olookup (o : oracle) (k : okey) : option bytes :=
  match o with
  | [] => None
  | (k', v) :: r => if okey_eqb k k' then Some v else olookup r k
  end.

(* ---------- helpers ---------- *)
Definition zlen (s : bytes) : Z := Z.of_nat (length s).
Definition zrunes (s : bytes) : Z := Z.of_nat (rune_count s).
Definition ch (c : Z) : N := Z.to_N c.

Fixpoint repeat_wb (n : nat) (c : N) : list wop :=
  match n with O => [] | S k => WB c :: repeat_wb k c end.

(* writePadding *)
Definition write_padding (f : fst_) (n : Z) : list wop :=
  if n <=? 0 then []
  else WG n :: repeat_wb (Z.to_nat n) (if zero (fl f) then 48%N else 32%N).

(* pad / padString *)
Definition pad (f : fst_) (b : bytes) : list wop :=
  if negb (widPresent (fl f)) || (wid f =? 0) then [WS b]
  else
    let width := wid f - zrunes b in
    if negb (minus (fl f)) then write_padding f width ++ [WS b]
    else WS b :: write_padding f width.

(* fmtBoolean *)
Definition fmt_boolean (f : fst_) (v : bool) : list wop :=
  pad f (if v then [116;114;117;101]%N else [102;97;108;115;101]%N).

Definition digit_char (upper : bool) (d : Z) : N :=
  if d <? 10 then ch (48 + d) else if upper then ch (55 + d) else ch (87 + d).

(* digits of u in the given base, most significant first, at least one digit *)
Fixpoint to_base (fuel : nat) (upper : bool) (base u : Z) (acc : bytes) : bytes :=
  match fuel with
  | O => acc
  | S k =>
    if u <? base then digit_char upper u :: acc
    else to_base k upper base (u / base) (digit_char upper (u mod base) :: acc)
  end.

Fixpoint zeros (n : nat) : bytes := match n with O => [] | S k => 48%N :: zeros k end.

Definition two64 : Z := 18446744073709551616.
Definition two63 : Z := 9223372036854775808.

(* fmtInteger(u, base, isSigned, verb, digits) ; upper = digits is udigits *)
Definition fmt_integer (f : fst_) (u0 : Z) (base : Z) (isSigned : bool) (verb : Z) (upper : bool) : list wop :=
  let negative := isSigned && (two63 <=? u0) in
  let u := if negative then two64 - u0 else u0 in
  let x := fl f in
  let go (prec : Z) :=
    let ds := to_base 70 upper base u [] in
    let ds := zeros (Z.to_nat (prec - zlen ds)) ++ ds in
    let ds :=
      if sharp x then
        if base =? 2 then 48%N :: 98%N :: ds
        else if base =? 8 then (match ds with 48%N :: _ => ds | _ => 48%N :: ds end)
        else if base =? 16 then 48%N :: (if upper then 88%N else 120%N) :: ds
        else ds
      else ds in
    let ds := if verb =? 79 then 48%N :: 111%N :: ds else ds in
    let ds := if negative then 45%N :: ds else if plus x then 43%N :: ds else if space x then 32%N :: ds else ds in
    pad (set_zero f false) ds in
  if precPresent x then
    if (prec f =? 0) && (u =? 0) then write_padding (set_zero f false) (wid f)
    else go (prec f)
  else if zero x && widPresent x then
    go (if negative || plus x || space x then wid f - 1 else wid f)
  else go 0.

(* truncateString / truncate: keep at most prec runes *)
Fixpoint take_runes (fuel : nat) (n : Z) (s : bytes) : bytes :=
  match fuel with
  | O => []
  | S k =>
    match s with
    | [] => []
    | _ =>
      if n <=? 0 then []
      else let '(_, w) := decode_rune s in
           firstn w s ++ take_runes k (n - 1) (skipn w s)
    end
  end.
Definition truncate (f : fst_) (s : bytes) : bytes :=
  if precPresent (fl f) then take_runes (length s) (prec f) s else s.

(* fmtS / fmtBs *)
Definition fmt_s (f : fst_) (s : bytes) : list wop := pad f (truncate f s).

(* fmtSbx *)
Fixpoint sbx_body (x : flags) (upper : bool) (first : bool) (s : bytes) : list wop :=
  match s with
  | [] => []
  | c :: r =>
    (if space x && negb first
     then WB 32%N :: (if sharp x then [WB 48%N; WB (if upper then 88%N else 120%N)] else [])
     else [])
    ++ [WB (digit_char upper (Z.of_N c / 16)); WB (digit_char upper (Z.of_N c mod 16))]
    ++ sbx_body x upper false r
  end.

Definition fmt_sbx (f : fst_) (s : bytes) (upper : bool) : list wop :=
  let x := fl f in
  let length0 := zlen s in
  let len := if precPresent x && (prec f <? length0) then prec f else length0 in
  let width0 := 2 * len in
  if 0 <? width0 then
    let width :=
      if space x then (if sharp x then width0 * 2 else width0) + len - 1
      else if sharp x then width0 + 2 else width0 in
    (if widPresent x && (width <? wid f) && negb (minus x) then write_padding f (wid f - width) else [])
    ++ (if sharp x then [WB 48%N; WB (if upper then 88%N else 120%N)] else [])
    ++ sbx_body x upper true (firstn (Z.to_nat len) s)
    ++ (if widPresent x && (width <? wid f) && minus x then write_padding f (wid f - width) else [])
  else
    if widPresent x then write_padding f (wid f) else [].

(* fmtQ *)
Definition fmt_q (o : oracle) (f : fst_) (s0 : bytes) : option (list wop) :=
  let s := truncate f s0 in
  let x := fl f in
  let quoted :=
    if plus x then olookup o (KQuoteAscii s) else olookup o (KQuote s) in
  if sharp x then
    match olookup o (KBackquote s) with
    | None => None
    | Some [49%N] => Some (pad f ((96%N :: s) ++ [96%N]))
    | Some _ => match quoted with Some qs => Some (pad f qs) | None => None end
    end
  else match quoted with Some qs => Some (pad f qs) | None => None end.

(* fmtC *)
Definition fmt_c (f : fst_) (c : Z) : list wop :=
  let r := if MaxRune <? c then RuneError else c in
  pad f (encode_rune r).

(* fmtQc *)
Definition fmt_qc (o : oracle) (f : fst_) (c : Z) : option (list wop) :=
  let r := if MaxRune <? c then RuneError else c in
  match (if plus (fl f) then olookup o (KQuoteRuneAscii r) else olookup o (KQuoteRune r)) with
  | Some qs => Some (pad f qs)
  | None => None
  end.

(* fmtUnicode *)
Definition fmt_unicode (o : oracle) (f : fst_) (u : Z) : option (list wop) :=
  let x := fl f in
  let prec := if precPresent x && (4 <? prec f) then prec f else 4 in
  let ds := to_base 70 true 16 u [] in
  let ds := zeros (Z.to_nat (prec - zlen ds)) ++ ds in
  let body := 85%N :: 43%N :: ds in
  let tail :=
    if sharp x && (u <=? MaxRune) then
      match olookup o (KIsPrint u) with
      | None => None
      | Some [49%N] => Some ((32%N :: 39%N :: encode_rune u) ++ [39%N])
      | Some _ => Some []
      end
    else Some [] in
  match tail with
  | None => None
  | Some t => Some (pad (set_zero f false) (body ++ t))
  end.

(* fmtFloat(v, size, verb, prec): the part after strconv.AppendFloat *)
Definition is_digit_nz (c : N) : bool := negb (c =? 48)%N.

(* the %# post-processing loop: returns (num', tail, hasDecimalPoint, digits) *)
Fixpoint float_sharp_loop (verb : Z) (num : bytes) (acc : bytes) (hasDot sawNZ : bool) (digits : Z)
  : bytes * bytes * bool * Z :=
  match num with
  | [] => (rev acc, [], hasDot, digits)
  | c :: r =>
    if (c =? 46)%N then float_sharp_loop verb r (c :: acc) true sawNZ digits
    else if ((c =? 112) || (c =? 80))%N then (rev acc, num, hasDot, digits)
    else if (((c =? 101) || (c =? 69))%N && negb ((verb =? 120) || (verb =? 88))) then (rev acc, num, hasDot, digits)
    else
      let sawNZ := sawNZ || is_digit_nz c in
      float_sharp_loop verb r (c :: acc) hasDot sawNZ (if sawNZ then digits - 1 else digits)
  end.

Definition fmt_float (o : oracle) (f : fst_) (bits : Z) (size : Z) (verb : Z) (prec0 : Z) : option (list wop) :=
  let x := fl f in
  let prec := if precPresent x then prec f else prec0 in
  match olookup o (KFloat bits verb prec size) with
  | None => None
  | Some raw =>
    (* num := "+" ++ raw unless raw starts with a sign *)
    let num := match raw with
               | c :: _ => if ((c =? 45) || (c =? 43))%N then raw else 43%N :: raw
               | [] => [43%N]
               end in
    let num := match num with
               | 43%N :: r => if space x && negb (plus x) then 32%N :: r else num
               | _ => num
               end in
    match num with
    | s :: c1 :: _ =>
      if ((c1 =? 73) || (c1 =? 78))%N then
        (* Inf / NaN *)
        let num := if (c1 =? 78)%N && negb (space x) && negb (plus x) then tl num else num in
        Some (pad (set_zero f false) num)
      else
        let num :=
          if sharp x && negb (verb =? 98) then
            let digits0 :=
              if (verb =? 118) || (verb =? 103) || (verb =? 71) || (verb =? 120)
              then (if prec =? -1 then 6 else prec) else 0 in
            let '(body, tail, hasDot, digits) := float_sharp_loop verb (tl num) [] false false digits0 in
            let num1 := s :: body in
            let '(num1, digits) :=
              if hasDot then (num1, digits)
              else ((num1 ++ [46%N]),
                    match num1 with [_; 48%N] => digits - 1 | _ => digits end) in
            (num1 ++ zeros (Z.to_nat digits)) ++ tail
          else num in
        match num with
        | s :: rest =>
          if plus x || negb (s =? 43)%N then
            if zero x && widPresent x && (zlen num <? wid f) then
              Some (WB s :: write_padding f (wid f - zlen num) ++ [WS rest])
            else Some (pad f num)
          else Some (pad f rest)
        | [] => Some []
        end
    | _ => Some (pad f num)
    end
  end.
