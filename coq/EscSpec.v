(* Layer 1: the list-level specification of InternalEscapeBytes (no strip),
   as a fold over the tokens of the not-yet-escaped suffix. *)
From Redact Require Export Tokens Utf8 Escape.
Open Scope N_scope.

(* "Either add an end marker, or elide a start marker immediately prior." *)
Definition close_or_elide (acc : bytes) : bytes :=
  if has_suffix acc startB then drop_last 3 acc else acc ++ endB.

(* One line feed in unsafe data: close (or elide), copy it, reopen.  Applying
   this to each line feed of a run gives the same bytes as the code's
   run-at-once treatment (the reopened marker is elided again). *)
Definition nl_step (acc : bytes) : bytes := (close_or_elide acc ++ [LF]) ++ startB.

Fixpoint esc_toks (bnl : bool) (acc : bytes) (ts : list tok) : bytes :=
  match ts with
  | [] => acc
  | TB b :: r => if bnl && (b =? LF) then esc_toks bnl (nl_step acc) r
                 else esc_toks bnl (acc ++ [b]) r
  | _ :: r => esc_toks bnl (acc ++ escB) r
  end.

(* v: already validated prefix (b[:startLoc]); p: the suffix to escape. *)
Definition esc_spec (bnl : bool) (v p : bytes) : bytes :=
  esc_toks bnl v (lex p) ++ (if last_invalid (v ++ p) then escB else []).
