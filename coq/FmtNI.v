(* Layer 4 proofs: what the leaf formatters of format.go write for two operands that differ in
   unsafe content only is related by [useg]: only writes, the same "anything written at all",
   payloads with the same skeleton (line feeds at the same places, stretches between them empty
   or not).  Numbers never render a line feed and never render as nothing except under a zero
   precision; strings related position by position (equal bytes, or ASCII bytes other than LF on
   both sides) keep their rune structure under truncation and padding. *)
From Redact Require Import Bytes Tokens Utf8 Escape EscSpec Markers Buffer Ops BufInv BufContent.
From Redact Require Import TokensP MarkersP EscapeP Utf8P BufInvP BufContentP ComposeP RedactNI SegNI.
From Redact Require Import Fmt.
From Coq Require Import Lia ZArith ZifyBool ZifyN.
Import List ListNotations.
Open Scope Z_scope.
Open Scope list_scope.

(* the Buffer calls of a list of write requests (oldest first) *)
Definition op_of (w : wop) : op :=
  match w with
  | WB c => OWriteByte c
  | WS s => OWrite s
  | WR r => OWriteRune r
  | WG n => OGrow (Z.to_nat n)
  end.
Definition ops_of (ws : list wop) : list op := map op_of ws.

Lemma ops_of_wr ws : forallb is_wr (ops_of ws) = true.
Proof. unfold ops_of. induction ws as [|w r IH]; [reflexivity|]. cbn [map forallb]. rewrite IH. destruct w; reflexivity. Qed.

Definition usegw (w1 w2 : list wop) : Prop := useg (ops_of w1) (ops_of w2).

Definition pay (ws : list wop) : bytes := wpay MUnsafe (ops_of ws).
Definition hasreal (ws : list wop) : bool := existsb is_real (ops_of ws).

Lemma pay_app a b : pay (a ++ b) = (pay a ++ pay b)%list.
Proof. unfold pay, ops_of. rewrite map_app. apply wpay_app. Qed.
Lemma hasreal_app a b : hasreal (a ++ b) = hasreal a || hasreal b.
Proof. unfold hasreal, ops_of. rewrite map_app. apply existsb_app. Qed.

Lemma usegw_intro w1 w2 : hasreal w1 = hasreal w2 -> skel (kinds_b (pay w1)) = skel (kinds_b (pay w2)) -> usegw w1 w2.
Proof. intros H1 H2. repeat split; try apply ops_of_wr; assumption. Qed.

Lemma usegw_refl w : usegw w w.
Proof. apply usegw_intro; reflexivity. Qed.

(* ---------- payloads without line feeds ---------- *)
Definition lf_free (p : bytes) : Prop := Forall (fun c => c <> LF) p.

Lemma lf_free_app a b : lf_free a -> lf_free b -> lf_free (a ++ b).
Proof. intros. apply Forall_app. split; assumption. Qed.
Lemma lf_free_cons c p : c <> LF -> lf_free p -> lf_free (c :: p).
Proof. intros. constructor; assumption. Qed.
Lemma lf_free_nil : lf_free []. Proof. constructor. Qed.

Lemma skel_lf_free p : lf_free p -> skel (kinds_b p) = match p with [] => [] | _ => [false] end.
Proof.
  induction 1 as [|c r Hc Hr IH]; [reflexivity|].
  unfold kinds_b in *. cbn [map]. assert ((c =? LF)%N = false) as -> by (apply N.eqb_neq; exact Hc).
  cbn [skel]. destruct r as [|c' r']; [reflexivity|].
  cbn [map] in *. inversion Hr as [|? ? Hc' _]; subst.
  assert ((c' =? LF)%N = false) as E by (apply N.eqb_neq; exact Hc'). rewrite E in *. exact IH.
Qed.

Lemma usegw_plain w1 w2 :
  lf_free (pay w1) -> lf_free (pay w2) -> (pay w1 = [] <-> pay w2 = []) -> hasreal w1 = hasreal w2 -> usegw w1 w2.
Proof.
  intros L1 L2 E H. apply usegw_intro; [exact H|]. rewrite (skel_lf_free _ L1), (skel_lf_free _ L2).
  destruct (pay w1), (pay w2); try reflexivity; exfalso; destruct E as [E1 E2];
    [specialize (E1 eq_refl) | specialize (E2 eq_refl)]; discriminate.
Qed.

(* ---------- padding ---------- *)
Lemma pay_repeat_wb n c : pay (repeat_wb n c) =
  repeat (if ((128 <=? c) || (c =? 226))%N then 63%N else c) n.
Proof.
  induction n as [|k IH]; [reflexivity|]. cbn [repeat_wb repeat]. change (WB c :: repeat_wb k c) with ([WB c] ++ repeat_wb k c)%list.
  rewrite pay_app, IH. unfold pay at 1. cbn. destruct ((128 <=? c) || (c =? 226))%N; reflexivity.
Qed.

Definition padc (f : fst_) : N := if zero (fl f) then 48%N else 32%N.

Lemma pay_write_padding f n : pay (write_padding f n) = repeat (padc f) (Z.to_nat n).
Proof.
  unfold write_padding. destruct (n <=? 0) eqn:E.
  - assert (Z.to_nat n = 0%nat) as -> by lia. reflexivity.
  - change (WG n :: repeat_wb (Z.to_nat n) (if zero (fl f) then 48%N else 32%N))
      with ([WG n] ++ repeat_wb (Z.to_nat n) (if zero (fl f) then 48%N else 32%N))%list.
    rewrite pay_app, pay_repeat_wb. unfold padc. destruct (zero (fl f)); reflexivity.
Qed.

Lemma hasreal_write_padding f n : hasreal (write_padding f n) = (0 <? n).
Proof.
  unfold write_padding. destruct (n <=? 0) eqn:E; [cbn; lia|].
  assert (0 <? n = true) as -> by lia. unfold hasreal. cbn [ops_of map op_of existsb is_real orb].
  destruct (Z.to_nat n) as [|k] eqn:E2; [lia|]. reflexivity.
Qed.

Lemma lf_free_repeat c n : c <> LF -> lf_free (repeat c n).
Proof. intros H. induction n; cbn; constructor; auto. Qed.

Lemma padc_nolf f : padc f <> LF.
Proof. unfold padc. destruct (zero (fl f)); discriminate. Qed.

Lemma pay_pad f b : exists n, (pay (pad f b) = repeat (padc f) n ++ b \/ pay (pad f b) = b ++ repeat (padc f) n)%list /\
  n = (if negb (widPresent (fl f)) || (wid f =? 0) then 0%nat else Z.to_nat (wid f - zrunes b)).
Proof.
  unfold pad. destruct (negb (widPresent (fl f)) || (wid f =? 0)).
  - exists 0%nat. split; [|reflexivity]. left. unfold pay. cbn. now rewrite app_nil_r.
  - exists (Z.to_nat (wid f - zrunes b)). split; [|reflexivity].
    destruct (negb (minus (fl f))).
    + left. rewrite pay_app, pay_write_padding. unfold pay at 1. cbn. now rewrite app_nil_r.
    + right. change (WS b :: write_padding f (wid f - zrunes b)) with ([WS b] ++ write_padding f (wid f - zrunes b))%list.
      rewrite pay_app, pay_write_padding. unfold pay at 1. cbn. now rewrite app_nil_r.
Qed.

Lemma hasreal_pad f b : hasreal (pad f b) = true.
Proof.
  unfold pad. destruct (negb (widPresent (fl f)) || (wid f =? 0)); [reflexivity|].
  destruct (negb (minus (fl f))).
  - rewrite hasreal_app. apply Bool.orb_true_r.
  - reflexivity.
Qed.

(* padding two payloads that render no line feed and are empty together *)
Lemma pad_plain f b1 b2 : lf_free b1 -> lf_free b2 -> (b1 = [] <-> b2 = []) -> usegw (pad f b1) (pad f b2).
Proof.
  intros L1 L2 E.
  destruct (pay_pad f b1) as (n1 & P1 & N1). destruct (pay_pad f b2) as (n2 & P2 & N2).
  assert (lf_free (pay (pad f b1))) as F1 by (destruct P1 as [-> | ->]; apply lf_free_app; try assumption; apply lf_free_repeat, padc_nolf).
  assert (lf_free (pay (pad f b2))) as F2 by (destruct P2 as [-> | ->]; apply lf_free_app; try assumption; apply lf_free_repeat, padc_nolf).
  apply usegw_plain; try assumption; [|now rewrite !hasreal_pad].
  assert (forall (b : bytes) n x, (x = repeat (padc f) n ++ b \/ x = b ++ repeat (padc f) n)%list -> (x = [] <-> b = [] /\ n = 0%nat)) as Hnil.
  { intros b n x [-> | ->]; (split; [intros H; apply app_eq_nil in H; destruct H as [Ha Hb]; (split; [assumption|]); destruct n; [reflexivity | discriminate]
                                   | intros [-> ->]; reflexivity]). }
  rewrite (Hnil b1 n1 _ P1), (Hnil b2 n2 _ P2).
  split; intros [Hb Hn].
  - pose proof (proj1 E Hb) as Hb2. split; [exact Hb2|]. subst b1 b2. rewrite N2, <- N1. exact Hn.
  - pose proof (proj2 E Hb) as Hb1. split; [exact Hb1|]. subst b1 b2. rewrite N1, <- N2. exact Hn.
Qed.

(* fmtBoolean *)
Lemma fmt_boolean_rel f b1 b2 : usegw (fmt_boolean f b1) (fmt_boolean f b2).
Proof.
  unfold fmt_boolean. apply pad_plain.
  - destruct b1; repeat constructor; discriminate.
  - destruct b2; repeat constructor; discriminate.
  - destruct b1, b2; split; intros; discriminate || reflexivity.
Qed.

(* ---------- integers ---------- *)
Lemma digit_char_nolf up d : 0 <= d < 36 -> digit_char up d <> LF.
Proof.
  intros H. unfold digit_char, ch, LF. destruct (d <? 10) eqn:E; [|destruct up]; intros X; apply (f_equal Z.of_N) in X; rewrite Z2N.id in X by lia; change (Z.of_N 10) with 10 in X; lia.
Qed.

Lemma to_base_nolf fuel up base : 2 <= base <= 36 -> forall u acc, 0 <= u -> lf_free acc -> lf_free (to_base fuel up base u acc).
Proof.
  intros Hb. induction fuel as [|k IH]; intros u acc Hu Ha; [exact Ha|].
  cbn [to_base]. destruct (u <? base) eqn:E.
  - apply lf_free_cons; [apply digit_char_nolf; lia | exact Ha].
  - apply IH; [apply Z.div_pos; lia|]. apply lf_free_cons; [|exact Ha].
    apply digit_char_nolf. pose proof (Z.mod_pos_bound u base). lia.
Qed.

Lemma to_base_nonempty fuel up base u acc : (0 < fuel)%nat \/ acc <> [] -> to_base fuel up base u acc <> [].
Proof.
  revert u acc. induction fuel as [|k IH]; intros u acc H; cbn [to_base].
  - destruct H; [lia | assumption].
  - destruct (u <? base); [discriminate|]. apply IH. right. discriminate.
Qed.

Lemma lf_free_zeros n : lf_free (zeros n).
Proof. induction n; cbn; constructor; [discriminate | assumption]. Qed.

Definition base_ok (base : Z) : Prop := base = 2 \/ base = 8 \/ base = 10 \/ base = 16.

(* the digits, prefixes and sign of an integer rendering *)
Definition int_digits (f : fst_) (u base verb : Z) (up negative : bool) (prec0 : Z) : bytes :=
  let x := fl f in
  let ds := to_base 70 up base u [] in
  let ds := (zeros (Z.to_nat (prec0 - zlen ds)) ++ ds)%list in
  let ds :=
      if sharp x then
        if base =? 2 then 48%N :: 98%N :: ds
        else if base =? 8 then (match ds with 48%N :: _ => ds | _ => 48%N :: ds end)
        else if base =? 16 then 48%N :: (if up then 88%N else 120%N) :: ds
        else ds
      else ds in
  let ds := if verb =? 79 then 48%N :: 111%N :: ds else ds in
  if negative then 45%N :: ds else if plus x then 43%N :: ds else if space x then 32%N :: ds else ds.

Definition iabs (sg : bool) (u0 : Z) : Z := if sg && (two63 <=? u0) then two64 - u0 else u0.

Lemma fmt_integer_unfold f u0 base sg verb up :
  fmt_integer f u0 base sg verb up =
  let negative := sg && (two63 <=? u0) in
  let u := iabs sg u0 in
  let x := fl f in
  if precPresent x then
    if (prec f =? 0) && (u =? 0) then write_padding (set_zero f false) (wid f)
    else pad (set_zero f false) (int_digits f u base verb up negative (prec f))
  else if zero x && widPresent x then
    pad (set_zero f false) (int_digits f u base verb up negative (if negative || plus x || space x then wid f - 1 else wid f))
  else pad (set_zero f false) (int_digits f u base verb up negative 0).
Proof. reflexivity. Qed.


(* no line feed, never empty *)
Lemma int_digits_plain f u base verb up negative prec0 : base_ok base -> 0 <= u ->
  lf_free (int_digits f u base verb up negative prec0) /\ int_digits f u base verb up negative prec0 <> [].
Proof.
  intros Hb Hu. unfold int_digits. cbn zeta.
  assert (2 <= base <= 36) as Hb' by (destruct Hb as [->|[->|[->| ->]]]; lia).
  set (d0 := to_base 70 up base u []).
  assert (lf_free d0 /\ d0 <> []) as [L0 N0] by (split; [apply to_base_nolf; try assumption; constructor | apply to_base_nonempty; left; lia]).
  set (d1 := (zeros (Z.to_nat (prec0 - zlen d0)) ++ d0)%list).
  assert (lf_free d1 /\ d1 <> []) as [L1 N1].
  { split; [apply lf_free_app; [apply lf_free_zeros | exact L0]|]. unfold d1. destruct (zeros _); [exact N0 | discriminate]. }
  set (d2 := if sharp (fl f) then if base =? 2 then 48%N :: 98%N :: d1 else if base =? 8 then match d1 with 48%N :: _ => d1 | _ => 48%N :: d1 end
             else if base =? 16 then 48%N :: (if up then 88%N else 120%N) :: d1 else d1 else d1).
  assert (lf_free d2 /\ d2 <> []) as [L2 N2].
  { unfold d2. destruct (sharp (fl f)); [|split; assumption].
    destruct (base =? 2); [split; [repeat apply lf_free_cons; try discriminate; assumption | discriminate]|].
    destruct (base =? 8).
    { destruct d1 as [|c r]; [congruence|]. destruct (N.eq_dec c 48) as [->|Hn].
      - split; assumption.
      - assert ((match c with 48%N => c :: r | _ => 48%N :: c :: r end) = 48%N :: c :: r) as ->.
        { destruct c as [|p]; [reflexivity|]. do 6 (destruct p as [p|p|]; try reflexivity). congruence. }
        split; [apply lf_free_cons; [discriminate | assumption] | discriminate]. }
    destruct (base =? 16); [|split; assumption].
    split; [|discriminate]. apply lf_free_cons; [discriminate|]. apply lf_free_cons; [destruct up; discriminate | assumption]. }
  set (d3 := if verb =? 79 then 48%N :: 111%N :: d2 else d2).
  assert (lf_free d3 /\ d3 <> []) as [L3 N3].
  { unfold d3. destruct (verb =? 79); [|split; assumption]. split; [repeat apply lf_free_cons; try discriminate; assumption | discriminate]. }
  destruct negative; [split; [apply lf_free_cons; [discriminate | assumption] | discriminate]|].
  destruct (plus (fl f)); [split; [apply lf_free_cons; [discriminate | assumption] | discriminate]|].
  destruct (space (fl f)); [split; [apply lf_free_cons; [discriminate | assumption] | discriminate]|].
  split; assumption.
Qed.

(* two integers that are zero together render related texts, in every base and under every flag *)
Lemma fmt_integer_rel f u1 u2 base sg verb up : base_ok base ->
  0 <= u1 < two64 -> 0 <= u2 < two64 -> (u1 = 0 <-> u2 = 0) ->
  usegw (fmt_integer f u1 base sg verb up) (fmt_integer f u2 base sg verb up).
Proof.
  intros Hb H1 H2 Hz. rewrite !fmt_integer_unfold. cbn zeta.
  assert (0 <= iabs sg u1 /\ 0 <= iabs sg u2) as [A1 A2].
  { unfold iabs, two63, two64 in *. split; [destruct (sg && (9223372036854775808 <=? u1)) | destruct (sg && (9223372036854775808 <=? u2))]; lia. }
  assert ((iabs sg u1 =? 0) = (iabs sg u2 =? 0)) as Ez.
  { unfold iabs, two63, two64 in *.
    destruct (sg && (9223372036854775808 <=? u1)) eqn:E1; destruct (sg && (9223372036854775808 <=? u2)) eqn:E2; lia. }
  assert (forall n1 n2 p1 p2, usegw (pad (set_zero f false) (int_digits f (iabs sg u1) base verb up n1 p1))
                                    (pad (set_zero f false) (int_digits f (iabs sg u2) base verb up n2 p2))) as Hgo.
  { intros. destruct (int_digits_plain f (iabs sg u1) base verb up n1 p1 Hb A1) as [L1 N1].
    destruct (int_digits_plain f (iabs sg u2) base verb up n2 p2 Hb A2) as [L2 N2].
    apply pad_plain; try assumption. split; intros; contradiction. }
  destruct (precPresent (fl f)).
  - rewrite <- Ez. destruct ((prec f =? 0) && (iabs sg u1 =? 0)); [apply usegw_refl | apply Hgo].
  - destruct (zero (fl f) && widPresent (fl f)); apply Hgo.
Qed.

(* fmtC: a rune that is not a line feed *)
Lemma encode_rune_nonempty r : encode_rune r <> [].
Proof. unfold encode_rune. repeat match goal with |- context [if ?c then _ else _] => destruct c end; discriminate. Qed.

Lemma fmt_c_unfold f c : fmt_c f c = pad f (encode_rune (if MaxRune <? c then RuneError else c)).
Proof. reflexivity. Qed.

Ltac Zify.zify_post_hook ::= Z.div_mod_to_equations.

Lemma nz_nolf z : 10 < z -> nz z <> LF.
Proof. intros H X. unfold nz, LF in X. apply (f_equal Z.of_N) in X. rewrite Z2N.id in X by lia. change (Z.of_N 10) with 10 in X. lia. Qed.

Lemma encode_rune_nolf r : r <> 10 -> lf_free (encode_rune r).
Proof.
  intros Hr. unfold encode_rune.
  destruct ((0 <=? r) && (r <=? 127)) eqn:E1.
  { constructor; [|constructor]. intros X. unfold nz, LF in X. apply (f_equal Z.of_N) in X. rewrite Z2N.id in X by lia. change (Z.of_N 10) with 10 in X. lia. }
  destruct ((0 <=? r) && (r <=? 2047)) eqn:E2.
  { repeat apply lf_free_cons; try apply lf_free_nil; apply nz_nolf; lia. }
  destruct (negb (valid_rune r)) eqn:Ev; [repeat constructor; discriminate|].
  assert (0 <= r <= 1114111) as Hv by (unfold valid_rune, MaxRune in Ev; lia).
  destruct (r <=? 65535) eqn:E3.
  - repeat apply lf_free_cons; try apply lf_free_nil; apply nz_nolf; lia.
  - repeat apply lf_free_cons; try apply lf_free_nil; apply nz_nolf; lia.
Qed.

Lemma fmt_c_rel f c1 c2 : c1 <> 10 -> c2 <> 10 -> usegw (fmt_c f c1) (fmt_c f c2).
Proof.
  intros H1 H2. rewrite !fmt_c_unfold. apply pad_plain.
  - apply encode_rune_nolf. unfold RuneError. destruct (MaxRune <? c1); [discriminate | exact H1].
  - apply encode_rune_nolf. unfold RuneError. destruct (MaxRune <? c2); [discriminate | exact H2].
  - split; intros H; exfalso; eapply encode_rune_nonempty; exact H.
Qed.

(* ---------- the oracle tables (strconv) ---------- *)
Definition osane (o : oracle) : Prop := forall k v, olookup o k = Some v ->
  v <> [] /\ lf_free v /\
  (forall s, k = KBackquote s -> v = [49%N] -> lf_free s) /\
  (forall u, k = KIsPrint u -> v = [49%N] -> u <> 10).

Lemma fmt_qc_rel o f c1 c2 w1 w2 : osane o ->
  fmt_qc o f c1 = Some w1 -> fmt_qc o f c2 = Some w2 -> usegw w1 w2.
Proof.
  intros Ho H1 H2. unfold fmt_qc in *.
  destruct (if plus (fl f) then olookup o (KQuoteRuneAscii (if MaxRune <? c1 then RuneError else c1)) else olookup o (KQuoteRune (if MaxRune <? c1 then RuneError else c1))) as [q1|] eqn:E1; [|discriminate].
  destruct (if plus (fl f) then olookup o (KQuoteRuneAscii (if MaxRune <? c2 then RuneError else c2)) else olookup o (KQuoteRune (if MaxRune <? c2 then RuneError else c2))) as [q2|] eqn:E2; [|discriminate].
  injection H1 as <-. injection H2 as <-.
  assert (q1 <> [] /\ lf_free q1) as [N1 L1] by (destruct (plus (fl f)); destruct (Ho _ _ E1) as (? & ? & _); auto).
  assert (q2 <> [] /\ lf_free q2) as [N2 L2] by (destruct (plus (fl f)); destruct (Ho _ _ E2) as (? & ? & _); auto).
  apply pad_plain; try assumption. split; intros; contradiction.
Qed.

Lemma some_inj {A} (a b : A) : Some a = Some b -> a = b.
Proof. intros H. now injection H. Qed.

Lemma isprint_match (v X t : bytes) :
  (match v with [49%N] => Some X | _ => Some [] end) = Some t -> (v = [49%N] /\ t = X) \/ t = [].
Proof.
  intros H. destruct v as [|c r]; [right; now injection H|].
  destruct (N.eq_dec c 49) as [->|Hc].
  - destruct r; [left; split; [reflexivity | now injection H] | right; now injection H].
  - right. assert ((match c :: r with [49%N] => Some X | _ => Some [] end) = Some []) as E.
    { destruct c as [|p]; [reflexivity|].
      destruct p as [p|p|]; try reflexivity. destruct p as [p|p|]; try reflexivity.
      destruct p as [p|p|]; try reflexivity. destruct p as [p|p|]; try reflexivity.
      destruct p as [p|p|]; try reflexivity. destruct p as [p|p|]; try reflexivity. congruence. }
    rewrite E in H. now injection H.
Qed.

Lemma fmt_unicode_rel o f u1 u2 w1 w2 : osane o -> 0 <= u1 -> 0 <= u2 ->
  fmt_unicode o f u1 = Some w1 -> fmt_unicode o f u2 = Some w2 -> usegw w1 w2.
Proof.
  intros Ho P1 P2 H1 H2. unfold fmt_unicode in *.
  set (pr := if precPresent (fl f) && (4 <? prec f) then prec f else 4) in *.
  assert (forall u t, 0 <= u -> lf_free t ->
            lf_free ((85%N :: 43%N :: (zeros (Z.to_nat (pr - zlen (to_base 70 true 16 u []))) ++ to_base 70 true 16 u [])%list) ++ t)%list /\
            ((85%N :: 43%N :: (zeros (Z.to_nat (pr - zlen (to_base 70 true 16 u []))) ++ to_base 70 true 16 u [])%list) ++ t)%list <> []) as Hb.
  { intros u t Hu Ht. split; [|discriminate]. apply lf_free_app; [|exact Ht].
    repeat apply lf_free_cons; try discriminate. apply lf_free_app; [apply lf_free_zeros|]. apply to_base_nolf; [lia | exact Hu | constructor]. }
  assert (forall u t, 0 <= u -> (if sharp (fl f) && (u <=? MaxRune) then
             match olookup o (KIsPrint u) with None => None | Some [49%N] => Some ((32%N :: 39%N :: encode_rune u) ++ [39%N])%list | Some _ => Some [] end
           else Some []) = Some t -> lf_free t) as Ht.
  { intros u t Hu H. destruct (sharp (fl f) && (u <=? MaxRune)); [|injection H as <-; constructor].
    destruct (olookup o (KIsPrint u)) as [v|] eqn:E; [|discriminate].
    destruct (Ho _ _ E) as (_ & _ & _ & Hp).
    destruct (isprint_match _ _ _ H) as [[-> ->] | ->]; [|constructor].
    apply lf_free_app; [|repeat constructor; discriminate].
    repeat apply lf_free_cons; try discriminate. apply encode_rune_nolf. apply (Hp u eq_refl eq_refl). }
  destruct (if sharp (fl f) && (u1 <=? MaxRune) then _ else Some []) as [t1|] eqn:T1; [|discriminate].
  destruct (if sharp (fl f) && (u2 <=? MaxRune) then _ else Some []) as [t2|] eqn:T2; [|discriminate].
  apply some_inj in H1, H2. subst w1 w2.
  destruct (Hb u1 t1 P1 (Ht u1 t1 P1 T1)) as [L1 N1]. destruct (Hb u2 t2 P2 (Ht u2 t2 P2 T2)) as [L2 N2].
  apply pad_plain; try assumption. split; intros; contradiction.
Qed.

(* fmtQ: whichever quoting the two strings get, the texts are related *)
Lemma fmt_q_rel o f s1 s2 w1 w2 : osane o -> fmt_q o f s1 = Some w1 -> fmt_q o f s2 = Some w2 -> usegw w1 w2.
Proof.
  intros Ho H1 H2.
  assert (forall s w, fmt_q o f s = Some w -> exists b, w = pad f b /\ lf_free b /\ b <> []) as Hq.
  { intros s w H. unfold fmt_q in H.
    set (t := truncate f s) in *.
    set (quoted := if plus (fl f) then olookup o (KQuoteAscii t) else olookup o (KQuote t)) in *.
    assert (forall qs, quoted = Some qs -> lf_free qs /\ qs <> []) as Hqs.
    { intros qs E. unfold quoted in E. destruct (plus (fl f)); destruct (Ho _ _ E) as (? & ? & _); auto. }
    destruct (sharp (fl f)).
    - destruct (olookup o (KBackquote t)) as [v|] eqn:Eb; [|discriminate].
      destruct (Ho _ _ Eb) as (_ & _ & Hbq & _).
      destruct (N.eq_dec (hd 0%N v) 49) as [Hh|Hh]; destruct v as [|c r]; cbn [hd] in Hh.
      + discriminate.
      + subst c. destruct r.
        * injection H as <-. exists ((96%N :: t) ++ [96%N]). split; [reflexivity|]. split; [|discriminate].
          apply lf_free_app; [apply lf_free_cons; [discriminate|]; apply (Hbq t eq_refl eq_refl) | repeat constructor; discriminate].
        * destruct quoted as [qs|] eqn:Eq; [|discriminate]. injection H as <-. destruct (Hqs qs eq_refl). eauto.
      + destruct quoted as [qs|] eqn:Eq; [|discriminate]. injection H as <-. destruct (Hqs qs eq_refl). eauto.
      + assert ((match c :: r with [49%N] => Some (pad f ((96%N :: t) ++ [96%N])) | _ => match quoted with Some qs => Some (pad f qs) | None => None end end)
                = match quoted with Some qs => Some (pad f qs) | None => None end) as E.
        { destruct c as [|p]; [reflexivity|].
          destruct p as [p|p|]; try reflexivity. destruct p as [p|p|]; try reflexivity.
          destruct p as [p|p|]; try reflexivity. destruct p as [p|p|]; try reflexivity.
          destruct p as [p|p|]; try reflexivity. destruct p as [p|p|]; try reflexivity. congruence. }
        rewrite E in H. destruct quoted as [qs|] eqn:Eq; [|discriminate]. injection H as <-. destruct (Hqs qs eq_refl). eauto.
    - destruct quoted as [qs|] eqn:Eq; [|discriminate]. injection H as <-. destruct (Hqs qs eq_refl). eauto. }
  destruct (Hq _ _ H1) as (b1 & -> & L1 & N1). destruct (Hq _ _ H2) as (b2 & -> & L2 & N2).
  apply pad_plain; try assumption. split; intros; contradiction.
Qed.

(* ---------- strings that differ in ASCII content only ---------- *)
Fixpoint srel (s1 s2 : bytes) : Prop :=
  match s1, s2 with
  | [], [] => True
  | a :: r1, b :: r2 => (a = b \/ ((a < 128)%N /\ (b < 128)%N /\ a <> LF /\ b <> LF)) /\ srel r1 r2
  | _, _ => False
  end.

Lemma srel_refl s : srel s s.
Proof. induction s; cbn; auto. Qed.
Lemma srel_length s1 : forall s2, srel s1 s2 -> length s1 = length s2.
Proof. induction s1 as [|a r IH]; intros [|b r2] H; cbn in *; try contradiction; [reflexivity|]. f_equal. apply IH, H. Qed.
Lemma srel_kinds s1 : forall s2, srel s1 s2 -> kinds_b s1 = kinds_b s2.
Proof.
  induction s1 as [|a r IH]; intros [|b r2] H; cbn in *; try contradiction; [reflexivity|].
  destruct H as [Hab Hr]. unfold kinds_b in *. cbn [map]. rewrite (IH _ Hr). f_equal.
  destruct Hab as [->|(_ & _ & Ha & Hb)]; [reflexivity|].
  apply N.eqb_neq in Ha, Hb. now rewrite Ha, Hb.
Qed.
Lemma srel_app a1 : forall a2 b1 b2, srel a1 a2 -> srel b1 b2 -> srel (a1 ++ b1) (a2 ++ b2).
Proof. induction a1 as [|x r IH]; intros [|y r2] b1 b2 Ha Hb; cbn in *; try contradiction; [exact Hb|]. destruct Ha; split; auto. Qed.
Lemma srel_firstn n : forall s1 s2, srel s1 s2 -> srel (firstn n s1) (firstn n s2).
Proof. induction n as [|k IH]; intros [|a r] [|b r2] H; cbn in *; try contradiction; auto. destruct H; split; auto. Qed.
Lemma srel_skipn n : forall s1 s2, srel s1 s2 -> srel (skipn n s1) (skipn n s2).
Proof. induction n as [|k IH]; intros [|a r] [|b r2] H; cbn in *; try contradiction; auto. destruct H; auto. Qed.

(* tests on bytes that single out values >= 128 agree on related bytes *)
Definition brel (a b : N) : Prop := a = b \/ ((a < 128)%N /\ (b < 128)%N /\ a <> LF /\ b <> LF).
Lemma brel_rng lo hi a b : (128 <= lo)%N -> brel a b -> in_rng lo hi a = in_rng lo hi b.
Proof. intros Hl [->|(Ha & Hb & _)]; [reflexivity|]. unfold in_rng. lia. Qed.
Lemma brel_lt a b : brel a b -> (a <? 128)%N = (b <? 128)%N.
Proof. intros [->|(Ha & Hb & _)]; [reflexivity|]. lia. Qed.
Lemma brel_hi a b : brel a b -> (a <? 128)%N = false -> a = b.
Proof. intros [->|(Ha & _)] H; [reflexivity|]. lia. Qed.

Lemma srel_decode_width s1 s2 : srel s1 s2 -> snd (decode_rune s1) = snd (decode_rune s2).
Proof.
  intros H. destruct s1 as [|a0 r1], s2 as [|b0 r2]; cbn [srel] in H; try contradiction; [reflexivity|].
  destruct H as [H0 H]. fold (brel a0 b0) in H0. unfold decode_rune.
  rewrite <- (brel_lt _ _ H0). destruct (a0 <? 128)%N eqn:E0; [reflexivity|].
  pose proof (brel_hi _ _ H0 E0) as <-.
  destruct (in_rng 194 223 a0).
  { destruct r1 as [|a1 r1], r2 as [|b1 r2]; cbn [srel] in H; try contradiction; [reflexivity|].
    destruct H as [H1 _]. fold (brel a1 b1) in H1. unfold is_cont. rewrite <- (brel_rng 128 191 _ _ ltac:(lia) H1).
    destruct (in_rng 128 191 a1); reflexivity. }
  destruct (in_rng 224 239 a0).
  { destruct r1 as [|a1 [|a2 r1]], r2 as [|b1 [|b2 r2]]; cbn [srel] in H; try reflexivity; try (destruct H as [_ H]; contradiction); try contradiction.
    destruct H as [H1 [H2 _]]. fold (brel a1 b1) in H1. fold (brel a2 b2) in H2. unfold is_cont.
    rewrite <- (brel_rng 128 191 _ _ ltac:(lia) H2).
    rewrite <- (brel_rng (if (a0 =? 224)%N then 160%N else 128%N) (if (a0 =? 237)%N then 159%N else 191%N) _ _ ltac:(destruct (a0 =? 224)%N; lia) H1).
    destruct (in_rng _ _ a1 && in_rng 128 191 a2); reflexivity. }
  destruct (in_rng 240 244 a0); [|reflexivity].
  destruct r1 as [|a1 [|a2 [|a3 r1]]], r2 as [|b1 [|b2 [|b3 r2]]]; cbn [srel] in H; try reflexivity;
    try (destruct H as [_ H]; try contradiction; destruct H as [_ H]; contradiction); try contradiction.
  destruct H as [H1 [H2 [H3 _]]]. fold (brel a1 b1) in H1. fold (brel a2 b2) in H2. fold (brel a3 b3) in H3. unfold is_cont.
  rewrite <- (brel_rng 128 191 _ _ ltac:(lia) H2), <- (brel_rng 128 191 _ _ ltac:(lia) H3).
  rewrite <- (brel_rng (if (a0 =? 240)%N then 144%N else 128%N) (if (a0 =? 244)%N then 143%N else 191%N) _ _ ltac:(destruct (a0 =? 240)%N; lia) H1).
  destruct (in_rng _ _ a1 && in_rng 128 191 a2 && in_rng 128 191 a3); reflexivity.
Qed.

Lemma decode_rune_pair p : decode_rune p = (fst (decode_rune p), snd (decode_rune p)).
Proof. destruct (decode_rune p); reflexivity. Qed.

Lemma srel_rune_count_aux fuel : forall s1 s2, srel s1 s2 -> rune_count_aux fuel s1 = rune_count_aux fuel s2.
Proof.
  induction fuel as [|k IH]; intros s1 s2 H; [reflexivity|].
  cbn [rune_count_aux]. destruct s1 as [|a r1], s2 as [|b r2]; cbn [srel] in H; try contradiction; [reflexivity|].
  rewrite (decode_rune_pair (a :: r1)), (decode_rune_pair (b :: r2)).
  rewrite (srel_decode_width (a :: r1) (b :: r2) H). f_equal. apply IH. apply srel_skipn. exact H.
Qed.

Lemma srel_rune_count s1 s2 : srel s1 s2 -> rune_count s1 = rune_count s2.
Proof. intros H. unfold rune_count. rewrite (srel_length _ _ H). now apply srel_rune_count_aux. Qed.

Lemma srel_take_runes fuel : forall n s1 s2, srel s1 s2 -> srel (take_runes fuel n s1) (take_runes fuel n s2).
Proof.
  induction fuel as [|k IH]; intros n s1 s2 H; [exact Logic.I|].
  cbn [take_runes]. destruct s1 as [|a r1], s2 as [|b r2]; cbn [srel] in H; try contradiction; [exact Logic.I|].
  destruct (n <=? 0); [exact Logic.I|].
  rewrite (decode_rune_pair (a :: r1)), (decode_rune_pair (b :: r2)).
  rewrite (srel_decode_width (a :: r1) (b :: r2) H).
  apply srel_app; [apply srel_firstn | apply IH, srel_skipn]; exact H.
Qed.

Lemma srel_truncate f s1 s2 : srel s1 s2 -> srel (truncate f s1) (truncate f s2).
Proof.
  intros H. unfold truncate. destruct (precPresent (fl f)); [|exact H].
  rewrite (srel_length _ _ H). now apply srel_take_runes.
Qed.

Lemma kinds_repeat c n : c <> LF -> kinds_b (repeat c n) = repeat false n.
Proof. intros H. unfold kinds_b. induction n; cbn; [reflexivity|]. apply N.eqb_neq in H. now rewrite H, IHn. Qed.

(* padding two related strings *)
Lemma pad_srel f b1 b2 : srel b1 b2 -> usegw (pad f b1) (pad f b2).
Proof.
  intros H. apply usegw_intro; [now rewrite !hasreal_pad|].
  destruct (pay_pad f b1) as (n1 & P1 & N1). destruct (pay_pad f b2) as (n2 & P2 & N2).
  assert (n1 = n2) as <- by (rewrite N1, N2; unfold zrunes; now rewrite (srel_rune_count _ _ H)).
  assert (pay (pad f b1) = repeat (padc f) n1 ++ b1 /\ pay (pad f b2) = repeat (padc f) n1 ++ b2 \/
          pay (pad f b1) = b1 ++ repeat (padc f) n1 /\ pay (pad f b2) = b2 ++ repeat (padc f) n1) as [[-> ->] | [-> ->]].
  { unfold pad in *. destruct (negb (widPresent (fl f)) || (wid f =? 0)).
    - left. unfold pay. cbn. subst n1. cbn. now rewrite !app_nil_r.
    - destruct (negb (minus (fl f))).
      + left. rewrite !pay_app, !pay_write_padding. unfold pay. cbn. rewrite !app_nil_r. rewrite <- N1, <- N2. auto.
      + right. change (WS b1 :: ?x) with ([WS b1] ++ x). split.
        * change (WS b1 :: write_padding f (wid f - zrunes b1)) with ([WS b1] ++ write_padding f (wid f - zrunes b1)).
          rewrite pay_app, pay_write_padding. unfold pay at 1. cbn. rewrite app_nil_r, <- N1. reflexivity.
        * change (WS b2 :: write_padding f (wid f - zrunes b2)) with ([WS b2] ++ write_padding f (wid f - zrunes b2)).
          rewrite pay_app, pay_write_padding. unfold pay at 1. cbn. rewrite app_nil_r, <- N2. reflexivity. }
  - rewrite !kinds_b_app, (srel_kinds _ _ H). reflexivity.
  - rewrite !kinds_b_app, (srel_kinds _ _ H). reflexivity.
Qed.

Lemma fmt_s_rel f s1 s2 : srel s1 s2 -> usegw (fmt_s f s1) (fmt_s f s2).
Proof. intros H. unfold fmt_s. apply pad_srel, srel_truncate, H. Qed.

(* ---------- fmtSbx: hex digits, no line feed; as many as the length dictates ---------- *)
Definition plainw (w : wop) : Prop :=
  match w with WB c => c <> LF | WG _ => True | _ => False end.
Definition isWB (w : wop) : bool := match w with WB _ => true | _ => false end.
Definition wcount (ws : list wop) : nat := length (filter isWB ws).

Lemma wcount_app a b : wcount (a ++ b) = (wcount a + wcount b)%nat.
Proof. unfold wcount. now rewrite filter_app, app_length. Qed.

Lemma pay_wb1 c : pay [WB c] = [if ((128 <=? c) || (c =? 226))%N then 63%N else c].
Proof. unfold pay. cbn [ops_of map op_of wpay payload_of mode_eqb andb]. destruct ((128 <=? c) || (c =? 226))%N; reflexivity. Qed.

Lemma plain_pay ws : Forall plainw ws -> lf_free (pay ws) /\ length (pay ws) = wcount ws /\ hasreal ws = (0 <? wcount ws)%nat.
Proof.
  induction 1 as [|w r Hw Hr (IH1 & IH2 & IH3)]; [repeat split; constructor|].
  change (w :: r) with ([w] ++ r). rewrite pay_app, hasreal_app, wcount_app.
  destruct w as [c| | |n]; cbn [plainw] in Hw; try contradiction.
  - rewrite pay_wb1. change (hasreal [WB c]) with true. change (wcount [WB c]) with 1%nat.
    cbn [app length orb Nat.add]. repeat split; [|now rewrite IH2].
    constructor; [|assumption]. destruct ((128 <=? c) || (c =? 226))%N; [discriminate | assumption].
  - change (pay [WG n]) with (@nil N). change (hasreal [WG n]) with false. change (wcount [WG n]) with 0%nat.
    cbn [app orb Nat.add]. repeat split; assumption.
Qed.

Lemma plain_repeat_wb n c : c <> LF -> Forall plainw (repeat_wb n c).
Proof. intros. induction n; cbn; constructor; cbn; auto. Qed.
Lemma plain_write_padding f n : Forall plainw (write_padding f n).
Proof.
  unfold write_padding. destruct (n <=? 0); [constructor|]. constructor; [exact Logic.I|].
  destruct (zero (fl f)); apply plain_repeat_wb; discriminate.
Qed.

Lemma digit_char_nolf' up d : 0 <= d -> digit_char up d <> LF.
Proof.
  intros H. unfold digit_char, ch, LF. destruct (d <? 10) eqn:E; [|destruct up]; intros X; apply (f_equal Z.of_N) in X; rewrite Z2N.id in X by lia; change (Z.of_N 10) with 10 in X; lia.
Qed.

Lemma plain_sbx_body x up s : forall first, Forall plainw (sbx_body x up first s).
Proof.
  induction s as [|c r IH]; intros first; cbn [sbx_body]; [constructor|].
  apply Forall_app. split.
  - destruct (space x && negb first); [|constructor]. constructor; [cbn; discriminate|].
    destruct (sharp x); [|constructor]. constructor; [cbn; discriminate|].
    constructor; [|constructor]. cbn. destruct up; discriminate.
  - apply Forall_app. split; [|apply IH].
    pose proof (N2Z.is_nonneg c).
    constructor; [|constructor; [|constructor]]; cbn; apply digit_char_nolf'.
    + apply Z.div_pos; lia.
    + pose proof (Z.mod_pos_bound (Z.of_N c) 16). lia.
Qed.

Lemma wcount_sbx_body x up : forall s1 s2 first, length s1 = length s2 ->
  wcount (sbx_body x up first s1) = wcount (sbx_body x up first s2).
Proof.
  induction s1 as [|a r IH]; intros [|b r2] first H; cbn [length] in H; try discriminate; [reflexivity|].
  cbn [sbx_body]. rewrite !wcount_app. rewrite (IH r2 false) by lia. reflexivity.
Qed.

Lemma fmt_sbx_rel f s1 s2 up : length s1 = length s2 -> usegw (fmt_sbx f s1 up) (fmt_sbx f s2 up).
Proof.
  intros H.
  assert (forall s, Forall plainw (fmt_sbx f s up)) as Hp.
  { intros s. unfold fmt_sbx. cbn zeta.
    destruct (0 <? 2 * _).
    - apply Forall_app; split; [|apply Forall_app; split; [|apply Forall_app; split]].
      + destruct (_ && _ && _); [apply plain_write_padding | constructor].
      + destruct (sharp (fl f)); [|constructor]. constructor; [cbn; discriminate|]. constructor; [|constructor]. cbn. destruct up; discriminate.
      + apply plain_sbx_body.
      + destruct (_ && _ && _); [apply plain_write_padding | constructor].
    - destruct (widPresent (fl f)); [apply plain_write_padding | constructor]. }
  assert (wcount (fmt_sbx f s1 up) = wcount (fmt_sbx f s2 up)) as Hc.
  { unfold fmt_sbx, zlen. rewrite H. cbn zeta.
    destruct (0 <? 2 * _); [|reflexivity].
    rewrite !wcount_app. f_equal. f_equal. f_equal. apply wcount_sbx_body. now rewrite !firstn_length, H. }
  destruct (plain_pay _ (Hp s1)) as (L1 & N1 & R1). destruct (plain_pay _ (Hp s2)) as (L2 & N2 & R2).
  apply usegw_plain; try assumption.
  - rewrite <- Hc in N2. split; intros E; [rewrite E in N1 | rewrite E in N2]; cbn in *.
    + destruct (pay (fmt_sbx f s2 up)); [reflexivity|]. cbn in N2. lia.
    + destruct (pay (fmt_sbx f s1 up)); [reflexivity|]. cbn in N1. lia.
  - now rewrite R1, R2, Hc.
Qed.

Print Assumptions fmt_integer_rel.
Print Assumptions fmt_s_rel.
Print Assumptions fmt_sbx_rel.
Print Assumptions fmt_q_rel.
