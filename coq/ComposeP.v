(* Composition of redactables: Redact and StripMarkers distribute over the
   concatenation of well-formed redactable strings, and the concatenation is
   again well-formed and line-safe. *)
From Redact Require Import Bytes Tokens Utf8 Markers Buffer Ops BufInv TokensP MarkersP BufInvP.
Import List ListNotations.
Open Scope N_scope.

Lemma unlex_app a b : unlex (a ++ b) = unlex a ++ unlex b.
Proof. induction a as [|t a IH]; [reflexivity|]. cbn [app unlex]. now rewrite IH, app_assoc. Qed.

Lemma redact_s_app a : forall o o' b,
  wf_st o a = Some o' -> redact_s o (a ++ b) = redact_s o a ++ redact_s o' b.
Proof.
  induction a as [|t a IH]; intros o o' b H.
  - cbn in H. injection H as ->. reflexivity.
  - destruct t; cbn [app wf_st redact_s] in *.
    + destruct o; [discriminate|]. cbn [app]. do 3 f_equal. now apply IH.
    + destruct o; [|discriminate]. cbn [app]. f_equal. now apply IH.
    + destruct o; [now apply IH|]. cbn [app]. f_equal. now apply IH.
Qed.

Lemma good_redactable x : Good x false 0 <-> (Redactable x /\ linesafe (lex x) = true).
Proof.
  split.
  - intros H. destruct (good_output x H) as (Hw & Hm & Hl). unfold Redactable, redactableb.
    rewrite Hw, Hm. auto.
  - unfold Redactable, redactableb. rewrite andb_true_iff. intros [[Hw Hm] Hl].
    repeat split; [now apply wf_aux_st | now apply mcl_true | exact Hl].
Qed.

Theorem concat_good a b : Good a false 0 -> Good b false 0 -> Good (a ++ b) false 0.
Proof.
  intros Ha (Hw & Hm & Hl). eapply good_app; [exact Ha | apply nojoin_0 | exact Hw | exact Hm | exact Hl].
Qed.

Theorem concat_redact a b : Good a false 0 -> wf (lex b) = true ->
  redact_b (a ++ b) = redact_b a ++ redact_b b.
Proof.
  intros Ha Hb. pose proof (proj1 Ha) as Hwa.
  assert (lex (a ++ b) = lex a ++ lex b) as E.
  { apply (lex_app_st a 0). rewrite (good_pstb _ _ _ Ha). apply nojoin_0. }
  assert (wf_aux false (lex a) = true) as Hwa' by now apply wf_aux_st.
  assert (wf_aux false (lex a ++ lex b) = true) as Hwab.
  { apply wf_aux_st. rewrite wf_st_app, Hwa. now apply wf_aux_st. }
  unfold redact_b, redact_tok. rewrite E.
  rewrite (proj1 (redact_aux_s _) Hwab), (proj1 (redact_aux_s _) Hwa'), (proj1 (redact_aux_s _) Hb).
  rewrite (redact_s_app _ _ _ _ Hwa). apply unlex_app.
Qed.

Theorem concat_strip a b : Good a false 0 -> strip_b (a ++ b) = strip_b a ++ strip_b b.
Proof.
  intros Ha. unfold strip_b.
  rewrite (lex_app_st a 0) by (rewrite (good_pstb _ _ _ Ha); apply nojoin_0).
  rewrite strip_tok_app. apply unlex_app.
Qed.

Print Assumptions concat_redact.
