(* Layer 2, closing file: the invariant theorems of BufInvP.v with the UTF-8
   fact discharged by Utf8P.partial_tail_invalid. *)
From Redact Require Import Bytes Tokens Utf8 Buffer Ops BufInv Utf8P BufInvP.

Lemma utf8fact : Utf8Fact.
Proof. exact partial_tail_invalid. Qed.

Theorem buffer_inv_run : forall ops, rawok ops = true -> Inv (run ops).
Proof. exact (inv_run utf8fact). Qed.

Theorem buffer_output_ok : forall ops, rawok ops = true ->
  Redactable (output ops) /\ linesafe (lex (output ops)) = true.
Proof. exact (buffer_output_redactable utf8fact). Qed.

Theorem buffer_observations_ok : forall ops o r, rawok (ops ++ [o]) = true ->
  (o = ORS \/ o = ORB \/ o = OTake) -> snd (step (run ops) o) = ObR r ->
  Redactable r /\ linesafe (lex r) = true.
Proof. exact (buffer_observations_redactable utf8fact). Qed.

Theorem buffer_finalize_ok : forall b, Inv b ->
  wf (lex (buf (finalize b))) = true /\ mcl (lex (buf (finalize b))) = true
  /\ linesafe (lex (buf (finalize b))) = true.
Proof. exact (inv_finalize utf8fact). Qed.

Theorem buffer_inv_step : forall b o, Inv b -> op_ok b o = true -> Inv (fst (step b o)).
Proof. exact (inv_step utf8fact). Qed.

(* After Take* (and Reset) the buffer is exactly a new one. *)
Theorem take_pristine : forall b, Inv b -> snd (take b) = init.
Proof.
  intros b H. apply invb_InvP in H.
  destruct (finalize_good utf8fact b H) as (x & Hf & _).
  unfold take. rewrite Hf. reflexivity.
Qed.

Theorem reset_pristine : forall b, reset b = init.
Proof. reflexivity. Qed.
