(* The printer's own directive parser (format_loop of doPrintf) applied to what MakeFormat
   produces: it installs exactly the flags, width and precision of the fmt.State that was
   forwarded, then prints the operand under the forwarded verb. *)
From Redact Require Import Bytes Utf8 Fmt Value Printer Forward Utf8RT FormatP.
From Coq Require Import Lia ZArith List Bool.
Import ListNotations.
Open Scope Z_scope.

Lemma bind_modify {B} (g : pst -> pst) (m : M B) st : (modify g ;;; m) st = m (g st).
Proof. reflexivity. Qed.
Lemma bind_ret {A B} (a : A) (k : A -> M B) st : (x <- ret a ;; k x) st = k a st.
Proof. reflexivity. Qed.
Lemma bind_bind {A B C} (m : M A) (h : A -> M B) (k : B -> M C) st :
  (x <- (y <- m ;; h y) ;; k x) st = (y <- m ;; x <- h y ;; k x) st.
Proof. unfold bind. destruct (m st) as [[?|?| |?] ?]; reflexivity. Qed.
Lemma bind_get {B} (k : pst -> M B) st : (x <- get ;; k x) st = k st st.
Proof. reflexivity. Qed.
Lemma bind_cong {A B} (m : M A) (k1 k2 : A -> M B) st :
  (forall a s1, k1 a s1 = k2 a s1) -> (x <- m ;; k1 x) st = (x <- m ;; k2 x) st.
Proof. intros H. unfold bind. destruct (m st) as [[?|?| |?] ?]; auto. Qed.
Lemma bind_ok {A B} (m : M A) (k : A -> M B) st a st' : m st = (ROk a, st') -> (x <- m ;; k x) st = k a st'.
Proof. intros H. unfold bind. now rewrite H. Qed.

(* the flag updates of flag_loop on the nine-flag record *)
Definition upd9 (x : flags) (c : N) : flags :=
  let z := Z.of_N c in
  if z =? 35 then Printer.f_sharp x
  else if z =? 48 then Printer.f_zero x
  else if z =? 43 then Printer.f_plus x
  else if z =? 45 then Printer.f_minus x
  else if z =? 32 then Printer.f_space x
  else x.

Definition fast_or_slow (rest : bytes) (i : nat) (an na : Z) : flagres :=
  let c := Z.of_N (hd 0%N rest) in
  if (97 <=? c) && (c <=? 122) && (an <? na) then FFast c i else FSlow i.

Lemma set_flags_set_flags st a b : set_flags (set_flags st a) b = set_flags st b.
Proof. destruct st. reflexivity. Qed.
Lemma set_flags_same st : set_flags st (fl (pf st)) = st.
Proof. destruct st as [? ? ? ? [? ? ?] ? ? ? ? ? ?]. reflexivity. Qed.
Lemma fl_set_flags st a : fl (pf (set_flags st a)) = a.
Proof. destruct st. reflexivity. Qed.

Lemma flag_loop_run fs : forall fuel pre rest an na st,
  forallb is_flag fs = true -> stops_flags rest -> rest <> [] -> (length fs < fuel)%nat ->
  flag_loop fuel (pre ++ fs ++ rest) (length pre) (length (pre ++ fs ++ rest)) an na st =
  (ROk (fast_or_slow rest (length pre + length fs) an na), set_flags st (fold_left upd9 fs (fl (pf st)))).
Proof.
  induction fs as [|c r IH]; intros fuel pre rest an na st Hf Hs Hr Hl.
  - destruct fuel as [|k]; [cbn in Hl; lia|]. cbn [flag_loop app fold_left length]. rewrite Nat.add_0_r, set_flags_same.
    destruct rest as [|c rest']; [congruence|]. rewrite fb_at.
    assert (is_flag c = false) as Hc by (eapply Hs; reflexivity). unfold is_flag in Hc. cbn zeta in Hc.
    assert ((length pre <? length (pre ++ c :: rest'))%nat = true) as -> by (apply Nat.ltb_lt; rewrite app_length; cbn; lia).
    destruct (Z.of_N c =? 35); [discriminate|]. destruct (Z.of_N c =? 48); [discriminate|].
    destruct (Z.of_N c =? 43); [discriminate|]. destruct (Z.of_N c =? 45); [discriminate|].
    destruct (Z.of_N c =? 32); [discriminate|]. unfold fast_or_slow. cbn [hd].
    destruct ((97 <=? Z.of_N c) && (Z.of_N c <=? 122) && (an <? na)); reflexivity.
  - destruct fuel as [|k]; [cbn in Hl; lia|]. cbn [length] in Hl.
    cbn [forallb] in Hf. apply andb_prop in Hf. destruct Hf as [Hc Hf].
    cbn [flag_loop]. change ((c :: r) ++ rest) with (c :: r ++ rest). rewrite fb_at.
    assert ((length pre <? length (pre ++ c :: r ++ rest))%nat = true) as -> by (apply Nat.ltb_lt; rewrite app_length; cbn; lia).
    cbn [fold_left]. unfold upd9 at 2. cbn zeta.
    replace (pre ++ c :: r ++ rest) with ((pre ++ [c]) ++ r ++ rest) by (rewrite <- app_assoc; reflexivity).
    replace (S (length pre)) with (length (pre ++ [c])) by (rewrite app_length; cbn; lia).
    assert (forall g, (upd_flags g ;;; flag_loop k ((pre ++ [c]) ++ r ++ rest) (length (pre ++ [c])) (length ((pre ++ [c]) ++ r ++ rest)) an na) st =
                      (ROk (fast_or_slow rest (length pre + length (c :: r)) an na), set_flags st (fold_left upd9 r (g (fl (pf st)))))) as Hrec.
    { intros g. unfold upd_flags. rewrite bind_modify.
      rewrite (IH k (pre ++ [c]) rest an na _ Hf Hs Hr ltac:(lia)). rewrite app_length. cbn [length].
      rewrite fl_set_flags, set_flags_set_flags. do 2 f_equal. f_equal. lia. }
    unfold is_flag in Hc. cbn zeta in Hc.
    destruct (Z.of_N c =? 35); [apply Hrec|]. destruct (Z.of_N c =? 48); [apply Hrec|].
    destruct (Z.of_N c =? 43); [apply Hrec|]. destruct (Z.of_N c =? 45); [apply Hrec|].
    destruct (Z.of_N c =? 32); [apply Hrec|]. discriminate.
Qed.

Lemma flag_chars_flags s : st_minus s && st_zero s = false ->
  fold_left upd9 (flag_chars s) noflags =
  mkFlags false false (st_minus s) (st_plus s) (st_sharp s) (st_space s) (st_zero s) false false.
Proof.
  unfold flag_chars. destruct s as [p m sh sp z w pr]; cbn [st_plus st_minus st_sharp st_space st_zero].
  destruct p, m, sh, sp, z; cbn; intros H; try discriminate; reflexivity.
Qed.

Ltac mstep := repeat (rewrite bind_bind || rewrite bind_modify || rewrite bind_ret); cbv beta iota zeta.

Definition fmt_of (s : fstate) (v : Z) : fst_ :=
  let isv := v =? 118 in
  mkF (mkFlags (match st_wid s with Some _ => true | None => false end)
               (match st_prec s with Some _ => true | None => false end)
               (st_minus s)
               (if isv then false else st_plus s)
               (if isv then false else st_sharp s)
               (st_space s) (st_zero s)
               (if isv then st_plus s else false) (if isv then st_sharp s else false))
      (match st_wid s with Some w => w | None => 0 end)
      (match st_prec s with Some p => p | None => 0 end).

Lemma skip_literal_pct fuel rest : skip_literal (S fuel) (37%N :: rest) 0 (length (37%N :: rest)) = 0%nat.
Proof. reflexivity. Qed.


Lemma format_loop_end k rec f a an ai S0 : (1 <= k)%nat -> format_loop k rec f a (length f) an ai S0 = (ROk an, S0).
Proof. intros H. destruct k; [lia|]. cbn [format_loop]. rewrite Nat.ltb_irrefl. reflexivity. Qed.

Lemma argNumber_plain an f i e na S0 : fb f i <> 91 -> argNumber an f i e na S0 = (ROk (an, i, false), S0).
Proof.
  intros H. unfold argNumber. assert (fb f i =? 91 = false) as -> by lia.
  rewrite Bool.orb_true_r. reflexivity.
Qed.

Theorem printer_reads_forwarded_directive s v a rec st :
  st_ok s -> verb_ok v ->
  let f := snd (make_format s v) in
  format_loop (S (length f)) rec f [a] 0 0 false st =
  (rec (CPrintArg a v) ;;; ret 1) (set_pf (set_good st true) (fmt_of s v)).
Proof.
  intros (Hmz & Hw & Hp) Hv f. unfold f. clear f.
  assert (v <> 37) as Hv37 by (destruct Hv as [[?|?]|[? _]]; lia).
  rewrite make_format_shape.
  assert (nf_of s = true -> s = mkSt false false false false false None None) as Hnf.
  { unfold nf_of. destruct s as [p m sh sp z w pr]; cbn. destruct p, m, sh, sp, z, w, pr; cbn; intros; try discriminate; reflexivity. }
  destruct (nf_of s && (v =? 118)) eqn:E1.
  { apply andb_prop in E1. destruct E1 as [E1 E2]. rewrite (Hnf E1). apply Z.eqb_eq in E2. subst v. destruct st; reflexivity. }
  destruct (nf_of s && (v =? 115)) eqn:E2.
  { apply andb_prop in E2. destruct E2 as [E2 E3]. rewrite (Hnf E2). apply Z.eqb_eq in E3. subst v. destruct st; reflexivity. }
  destruct (nf_of s && (v =? 100)) eqn:E3.
  { apply andb_prop in E3. destruct E3 as [E3 E4]. rewrite (Hnf E3). apply Z.eqb_eq in E4. subst v. destruct st; reflexivity. }
  clear E1 E2 E3 Hnf.
  destruct (flag_chars_spec s Hmz) as (Hff & Hfold & Hflen).
  pose proof (flag_chars_flags s Hmz) as Hfl9.
  set (W := W_of s). set (P := P_of s). unfold W_of in W. unfold P_of in P.
  destruct (verb_bytes_spec v Hv) as (c0 & vr & EV & Hdec & Hvd & Hvf & Hv46).
  rewrite EV.
  set (fs := flag_chars s) in *.
  assert (exists wd, W = wd /\ forallb is_digit wd = true /\ dval 0 wd <= 1000000 /\
            (if match wd with [] => true | _ => false end then None else Some (dval 0 wd)) = st_wid s /\
            (forall c r, wd = c :: r -> is_flag c = false)) as (wd & EW & Hwd & Hwv & Hwo & Hwf).
  { unfold W. destruct (st_wid s) as [w|].
    - destruct (itoa_spec w ltac:(lia)) as (ds & E & Hne & Hd & Hval & Hh). exists ds. rewrite E, Hval.
      repeat split; try assumption; try lia.
      + destruct ds; [congruence | reflexivity].
      + intros c r ->. cbn [hd forallb] in *. apply andb_prop in Hd. destruct Hd as [Hd _].
        specialize (Hh ltac:(lia)). unfold is_digit in Hd. unfold is_flag. lia.
    - exists []. repeat split; try reflexivity; [cbn; lia | intros; discriminate]. }
  rewrite EW. clear EW W.
  assert (exists pd, P = (match st_prec s with Some _ => [46%N] | None => [] end) ++ pd /\ forallb is_digit pd = true /\ dval 0 pd <= 1000000 /\
            match st_prec s with Some p => pd <> [] /\ dval 0 pd = p | None => pd = [] end) as (pd & EP & Hpd & Hpv & Hpo).
  { unfold P. destruct (st_prec s) as [p|].
    - destruct (itoa_spec p ltac:(lia)) as (ds & E & Hne & Hd & Hval & Hh). exists ds. rewrite E, Hval.
      repeat split; try assumption; try lia.
    - exists []. repeat split; try reflexivity. cbn; lia. }
  rewrite EP. clear EP P.
  set (dot := match st_prec s with Some _ => [46%N] | None => [] end).
  set (f := [37%N] ++ fs ++ wd ++ (dot ++ pd) ++ c0 :: vr).
  assert (2 <= length f)%nat as Hlen2 by (unfold f; rewrite !app_length; cbn [length]; lia).
  set (e := length f) in *.
  assert (skip_literal (S (length f)) f 0 (length f) = 0%nat) as Hskip by reflexivity.
  assert ((0 <? length f)%nat = true) as H0e by (apply Nat.ltb_lt; fold e; lia).
  assert ((length f <=? 0)%nat = false) as He0 by (apply Nat.leb_gt; fold e; lia).
  (* the flag loop *)
  assert (stops_flags (wd ++ (dot ++ pd) ++ c0 :: vr)) as Hsf.
  { intros c r E. destruct wd as [|w0 wr]; [|cbn in E; injection E as <- _; eapply Hwf; reflexivity].
    cbn [app] in E. unfold dot in E. destruct (st_prec s).
    - cbn in E. injection E as <- _. reflexivity.
    - subst pd. cbn in E. injection E as <- _. exact Hvf. }
  assert (wd ++ (dot ++ pd) ++ c0 :: vr <> []) as Hne by (destruct wd; destruct dot; destruct pd; discriminate).
  pose proof (fun st0 => flag_loop_run fs (S (length f)) [37%N] (wd ++ (dot ++ pd) ++ c0 :: vr) 0 (Z.of_nat (length [a])) st0
                Hff Hsf Hne ltac:(unfold f; rewrite !app_length; cbn [length]; lia)) as Hfl.
  change (length [37%N]) with 1%nat in Hfl. fold f in Hfl.
  cbn [format_loop]. rewrite H0e. cbn [negb]. rewrite bind_modify. rewrite Hskip.
  change (0 <? 0)%nat with false. cbn iota. rewrite bind_ret. rewrite He0.
  unfold clearflags. rewrite bind_modify.
  rewrite (bind_ok _ _ _ _ _ (Hfl _)).
  (* what the verb's first byte can be *)
  assert (Z.of_N c0 <> 91 /\ Z.of_N c0 <> 42 /\ (Z.of_N c0 < 128 -> v = Z.of_N c0 /\ vr = [])) as (Hc91 & Hc42 & Hcv).
  { destruct (Z.of_N c0 <? 128) eqn:E.
    - injection Hdec as Hd1 Hd2. repeat split; try (destruct Hv as [[?|?]|[? _]]; lia). destruct vr; [reflexivity | cbn in Hd2; lia].
    - repeat split; lia. }
  set (S1 := set_flags (set_pf (set_good st true) (mkF noflags 0 0))
               (fold_left upd9 fs (fl (pf (set_pf (set_good st true) (mkF noflags 0 0)))))).
  assert (S1 = set_pf (set_good st true) (mkF (mkFlags false false (st_minus s) (st_plus s) (st_sharp s) (st_space s) (st_zero s) false false) 0 0)) as ES1.
  { unfold S1. replace (fl (pf (set_pf (set_good st true) (mkF noflags 0 0)))) with noflags by (destruct st; reflexivity).
    rewrite Hfl9. destruct st; reflexivity. }
  assert (forall S0, ((if v =? 118 then upd_flags f_verbv else ret tt) ;;; rec (CPrintArg (nth (Z.to_nat 0) [a] VNil) v) ;;; format_loop e rec f [a] e (0 + 1) false) S0
          = (rec (CPrintArg a v) ;;; ret 1) (if v =? 118 then set_flags S0 (f_verbv (fl (pf S0))) else S0)) as Hfin.
  { intros S0. change (nth (Z.to_nat 0) [a] VNil) with a. change (0 + 1) with 1.
    assert (forall S2, (rec (CPrintArg a v) ;;; format_loop e rec f [a] e 1 false) S2 = (rec (CPrintArg a v) ;;; ret 1) S2) as Hr.
    { intros S2. unfold bind. destruct (rec (CPrintArg a v) S2) as [[?|?| |?] S3]; try reflexivity.
      unfold e. apply format_loop_end. fold e. lia. }
    destruct (v =? 118); [unfold upd_flags; rewrite bind_modify | rewrite bind_ret]; apply Hr. }
  assert (e = (1 + length fs + length wd + length dot + length pd + length (c0 :: vr))%nat) as Hlen by (unfold e, f; rewrite !app_length; cbn [length]; lia).
  unfold fast_or_slow.
  destruct ((97 <=? Z.of_N (hd 0%N (wd ++ (dot ++ pd) ++ c0 :: vr))) && (Z.of_N (hd 0%N (wd ++ (dot ++ pd) ++ c0 :: vr)) <=? 122) && (0 <? Z.of_nat (length [a]))) eqn:Hfast.
  - (* the fast path: no width, no precision, a lower-case verb *)
    assert (wd = []) as ->.
    { destruct wd as [|w0 wr]; [reflexivity|]. cbn [app hd forallb] in *. apply andb_prop in Hwd. destruct Hwd as [Hwd _]. unfold is_digit in Hwd. lia. }
    assert (st_prec s = None) as Ep.
    { destruct (st_prec s); [|reflexivity]. unfold dot in Hfast. cbn in Hfast. lia. }
    assert (dot = []) as Hdot by (unfold dot; rewrite Ep; reflexivity).
    rewrite Ep in Hpo. rewrite Hdot, Hpo in *. cbn [app hd length] in *.
    destruct (Hcv ltac:(lia)) as [Ev Evr]. rewrite Evr in *. cbn [length] in *.
    replace (S (1 + length fs)) with e by lia.
    subst v. rewrite Hfin. fold S1. rewrite ES1. f_equal.
    unfold fmt_of. rewrite Ep, <- Hwo. destruct (Z.of_N c0 =? 118); destruct st; reflexivity.
  - (* the general path *)
    set (i3 := (1 + length fs)%nat).
    set (pre3 := [37%N] ++ fs).
    assert (length pre3 = i3) as Lp3 by (unfold pre3; rewrite app_length; reflexivity).
    assert (f = pre3 ++ wd ++ (dot ++ pd) ++ c0 :: vr) as Ef3 by (unfold f, pre3; rewrite <- app_assoc; reflexivity).
    (* the byte at i3 *)
    assert (fb f i3 <> 91 /\ fb f i3 <> 42) as [H391 H342].
    { destruct wd as [|w0 wr].
      - destruct (st_prec s) eqn:Ep.
        + assert (dot = [46%N]) as Hdot by first [reflexivity | (unfold dot; rewrite Ep; reflexivity)].
          rewrite (fb_split f pre3 46%N (pd ++ c0 :: vr) i3); [lia | rewrite Ef3, Hdot; reflexivity | exact Lp3].
        + assert (dot = []) as Hdot by first [reflexivity | (unfold dot; rewrite Ep; reflexivity)]. try rewrite Ep in Hpo.
          rewrite (fb_split f pre3 c0 vr i3); [lia | rewrite Ef3, Hdot, Hpo; reflexivity | exact Lp3].
      - cbn [forallb] in Hwd. apply andb_prop in Hwd. destruct Hwd as [Hw0 _]. unfold is_digit in Hw0.
        rewrite (fb_split f pre3 w0 (wr ++ (dot ++ pd) ++ c0 :: vr) i3); [lia | rewrite Ef3; reflexivity | exact Lp3]. }
    rewrite (bind_ok _ _ _ _ _ (argNumber_plain 0 f i3 (length f) _ _ H391)).
    assert (fb f i3 =? 42 = false) as -> by lia. rewrite Bool.andb_false_r.
    fold S1. rewrite ES1. clear ES1 S1 Hfl.
    assert (stops_digits ((dot ++ pd) ++ c0 :: vr)) as Hsd.
    { intros c r E. destruct (st_prec s) eqn:Ep.
      - assert (dot = [46%N]) as Hdot by first [reflexivity | (unfold dot; rewrite Ep; reflexivity)].
        rewrite Hdot in E. cbn in E. injection E as <- _. reflexivity.
      - assert (dot = []) as Hdot by first [reflexivity | (unfold dot; rewrite Ep; reflexivity)]. try rewrite Ep in Hpo.
        rewrite Hdot, Hpo in E. cbn in E. injection E as <- _. exact Hvd. }
    assert ((dot ++ pd) ++ c0 :: vr <> []) as Hne2 by (destruct dot; destruct pd; discriminate).
    pose proof (parsenum_digits' f pre3 wd ((dot ++ pd) ++ c0 :: vr) Ef3 Hwd Hsd Hne2 Hwv) as Hpn.
    rewrite Lp3 in Hpn. rewrite Hpn. cbv beta iota zeta.
    cbn [andb]. mstep.
    set (i5 := (i3 + length wd)%nat).
    set (pre5 := pre3 ++ wd).
    assert (length pre5 = i5) as Lp5 by (unfold pre5, i5; rewrite app_length, Lp3; reflexivity).
    assert (f = pre5 ++ (dot ++ pd) ++ c0 :: vr) as Ef5 by (unfold pre5; rewrite <- app_assoc; exact Ef3).
    assert (fb f (i5 + length dot + length pd) = Z.of_N c0 /\ skipn (i5 + length dot + length pd) f = c0 :: vr
            /\ (i5 + length dot + length pd + length (c0 :: vr) = length f)%nat) as (Hvb & Hvs & Hvl).
    { assert (f = (pre5 ++ dot ++ pd) ++ c0 :: vr) as E by (rewrite Ef5, <- !app_assoc; reflexivity).
      assert (length (pre5 ++ dot ++ pd) = (i5 + length dot + length pd)%nat) as L by (rewrite !app_length, Lp5; lia).
      repeat split; [exact (fb_split f _ c0 vr _ E L) | exact (skipn_split f _ _ _ E L) | rewrite (len_split f _ _ _ E L); reflexivity]. }
    destruct (st_prec s) as [p|] eqn:Ep.
    + (* a precision *)
      assert (dot = [46%N]) as Hdot by first [reflexivity | (unfold dot; rewrite Ep; reflexivity)].
      destruct Hpo as [Hpne Hpval].
      destruct pd as [|d0 pr]; [congruence|]. clear Hpne.
      rewrite Hdot in *. cbn [length app] in *.
      assert (fb f i5 = 46) as Hf5 by (apply (fb_split f pre5 46%N ((d0 :: pr) ++ c0 :: vr) i5); [rewrite Ef5; reflexivity | exact Lp5]).
      assert ((S i5 <? length f)%nat = true) as -> by (apply Nat.ltb_lt; lia).
      rewrite Hf5. cbn [Z.eqb Pos.eqb andb]. mstep.
      set (pre6 := pre5 ++ [46%N]).
      assert (length pre6 = S i5) as Lp6 by (unfold pre6; rewrite app_length, Lp5; cbn; lia).
      assert (f = pre6 ++ (d0 :: pr) ++ c0 :: vr) as Ef6 by (unfold pre6; rewrite <- app_assoc; exact Ef5).
      assert (is_digit d0 = true) as Hd0 by (cbn [forallb] in Hpd; apply andb_prop in Hpd; tauto).
      assert (fb f (S i5) <> 91 /\ fb f (S i5) <> 42) as [H691 H642].
      { rewrite (fb_split f pre6 d0 (pr ++ c0 :: vr) (S i5)); [unfold is_digit in Hd0; lia | rewrite Ef6; reflexivity | exact Lp6]. }
      rewrite (bind_ok _ _ _ _ _ (argNumber_plain 0 f (S i5) (length f) _ _ H691)). cbv beta iota zeta.
      assert (fb f (S i5) =? 42 = false) as -> by lia. rewrite Bool.andb_false_r.
      assert (stops_digits (c0 :: vr)) as Hsd6 by (intros c r E; injection E as <- _; exact Hvd).
      pose proof (parsenum_digits' f pre6 (d0 :: pr) (c0 :: vr) Ef6 Hpd Hsd6 ltac:(discriminate) Hpv) as Hpn6.
      rewrite Lp6 in Hpn6. rewrite Hpn6. cbv beta iota zeta. cbn [negb]. mstep.
      cbn [length] in *. replace (S i5 + S (length pr))%nat with (i5 + 1 + S (length pr))%nat by lia.
      assert (fb f (i5 + 1 + S (length pr))%nat <> 91) as H891 by (rewrite Hvb; exact Hc91).
      rewrite (bind_ok _ _ _ _ _ (argNumber_plain 0 f (i5 + 1 + S (length pr))%nat (length f) _ _ H891)). cbv beta iota zeta.
      assert ((length f <=? (i5 + 1 + S (length pr))%nat)%nat = false) as -> by (apply Nat.leb_gt; cbn [length] in Hvl; lia).
      rewrite Hvb, Hvs, Hdec. cbv beta iota zeta. rewrite bind_get.
      assert (v =? 37 = false) as -> by lia.
      match goal with |- (if negb (goodArgNum ?S) then _ else _) _ = _ => replace (goodArgNum S) with true by (destruct st; reflexivity) end.
      cbn [negb]. change (Z.of_nat 1 <=? 0) with false. cbv iota.
      replace ((i5 + 1 + S (length pr))%nat + S (length vr))%nat with e by (unfold e; lia).
      rewrite Hfin. f_equal. rewrite Hpval.
      unfold fmt_of. rewrite Ep, <- Hwo. destruct wd; destruct (v =? 118); destruct st; reflexivity.
    + (* no precision *)
      assert (dot = []) as Hdot by first [reflexivity | (unfold dot; rewrite Ep; reflexivity)].
      rewrite Hdot, Hpo in *. cbn [length app] in *. rewrite !Nat.add_0_r in *.
      assert (fb f i5 =? 46 = false) as -> by (rewrite Hvb; lia).
      rewrite Bool.andb_false_r. mstep.
      assert (fb f i5 <> 91) as H891 by (rewrite Hvb; exact Hc91).
      rewrite (bind_ok _ _ _ _ _ (argNumber_plain 0 f i5 (length f) _ _ H891)). cbv beta iota zeta.
      assert ((length f <=? i5)%nat = false) as -> by (apply Nat.leb_gt; lia).
      rewrite Hvb, Hvs, Hdec. cbv beta iota zeta. rewrite bind_get.
      assert (v =? 37 = false) as -> by lia.
      match goal with |- (if negb (goodArgNum ?S) then _ else _) _ = _ => replace (goodArgNum S) with true by (destruct st; reflexivity) end.
      cbn [negb]. change (Z.of_nat 1 <=? 0) with false. cbv iota.
      cbn [length]. replace (i5 + S (length vr))%nat with e by (unfold e; lia).
      rewrite Hfin. f_equal.
      unfold fmt_of. rewrite Ep, <- Hwo. destruct wd; destruct (v =? 118); destruct st; reflexivity.
Qed.
Print Assumptions printer_reads_forwarded_directive.

(* doPrintf on the rebuilt directive with one operand: enter safe mode, install the forwarded
   state, print the operand under the forwarded verb - nothing else (no EXTRA/MISSING/BADINDEX). *)
Theorem doPrintf_forwarded s v a rec st : st_ok s -> verb_ok v ->
  doPrintf rec (snd (make_format s v)) [a] st =
  (enter_safe ;;; modify (fun s0 => set_pf (set_good (set_reordered s0 false) true) (fmt_of s v)) ;;;
   rec (CPrintArg a v) ;;; ret tt) st.
Proof.
  intros Hs Hv. unfold doPrintf.
  apply bind_cong. intros [] st1. rewrite !bind_modify.
  unfold bind at 1. rewrite (printer_reads_forwarded_directive s v a rec _ Hs Hv).
  unfold bind. destruct (rec (CPrintArg a v) _) as [[?|?| |?] st2]; try reflexivity.
  unfold get, ret. change (Z.of_nat (length [a])) with 1. change (1 <? 1) with false.
  rewrite Bool.andb_false_r. reflexivity.
Qed.
Print Assumptions doPrintf_forwarded.
