(* Layer 2 proofs: non-interference of Redact for histories whose unsafe-mode writes are grouped
   differently.  Two runs of the printer on operands that differ in their unsafe content do not
   make the same NUMBER of Buffer calls (a narrower number needs more padding bytes, each one a
   WriteByte); what is public is the sequence of mode switches, the payloads written in safe and
   raw mode, and - for each maximal stretch of unsafe-mode writes - the skeleton of the
   concatenated payload (line feeds at the same places, the stretches between them empty or
   not) and whether anything was written at all.  [dsim] is that relation; histories related by
   it return strings whose Redact() is byte-identical. *)
From Redact Require Import Bytes Tokens Utf8 Escape EscSpec Markers Buffer Ops BufInv BufContent.
From Redact Require Import TokensP MarkersP EscapeP Utf8P BufInvP BufContentP ComposeP RedactNI.
Import List ListNotations.
Open Scope N_scope.

(* ---------- consecutive writes are one write of the concatenation ---------- *)
Lemma write_write b p q : write (write b p) q = write b (p ++ q).
Proof.
  unfold write. assert (start_write (set_buf (start_write b) (buf (start_write b) ++ p)) = set_buf (start_write b) (buf (start_write b) ++ p)) as ->.
  { destruct b as [bf vu m o]. unfold start_write. cbn [bmode markerOpen].
    destruct m, o; cbn [mode_eqb negb andb]; try reflexivity. }
  unfold set_buf. cbn [buf validUntil bmode markerOpen]. now rewrite app_assoc.
Qed.

Definition is_wr (o : op) : bool :=
  match o with OWrite _ | OWriteByte _ | OWriteRune _ | OGrow _ => true | _ => false end.
Definition is_real (o : op) : bool :=
  match o with OWrite _ | OWriteByte _ | OWriteRune _ => true | _ => false end.

(* the bytes a run of write calls appends in mode m (oldest first) *)
Fixpoint wpay (m : mode) (ws : list op) : bytes :=
  match ws with
  | [] => []
  | o :: r => (match payload_of m o with Some p => p | None => [] end) ++ wpay m r
  end.

Lemma wpay_app m a b : wpay m (a ++ b) = wpay m a ++ wpay m b.
Proof. induction a as [|o r IH]; cbn [app wpay]; [reflexivity|]. now rewrite IH, app_assoc. Qed.

Lemma wpay_noreal m ws : forallb is_wr ws = true -> existsb is_real ws = false -> wpay m ws = [].
Proof.
  induction ws as [|o r IH]; intros Hw He; [reflexivity|].
  cbn [forallb existsb] in *. apply andb_prop in Hw. destruct Hw as [Ho Hw].
  apply Bool.orb_false_iff in He. destruct He as [He1 He2].
  destruct o; cbn [is_wr is_real] in *; try discriminate. cbn [wpay payload_of app]. now apply IH.
Qed.

Lemma step_write_op b o : is_wr o = true ->
  fst (step b o) = match payload_of (bmode b) o with Some p => write b p | None => b end.
Proof.
  destruct o; cbn [is_wr]; try discriminate; intros _; cbn [step fst payload_of]; try reflexivity.
  apply write_byte_write.
Qed.

Lemma write_mode b p : bmode (write b p) = bmode b.
Proof. unfold write. cbn. apply start_write_mode. Qed.

Lemma run_writes ws : forall b, forallb is_wr ws = true ->
  run_from b ws = if existsb is_real ws then write b (wpay (bmode b) ws) else b.
Proof.
  induction ws as [|o r IH]; intros b H; [reflexivity|].
  cbn [forallb] in H. apply andb_prop in H. destruct H as [Ho Hr].
  unfold run_from. cbn [fold_left]. fold (run_from (fst (step b o)) r).
  rewrite (IH _ Hr), (step_write_op b o Ho). cbn [existsb wpay].
  destruct o; cbn [is_wr] in Ho; try discriminate; cbn [payload_of is_real orb].
  - rewrite write_mode. destruct (existsb is_real r) eqn:E; [apply write_write | now rewrite (wpay_noreal _ r Hr E), app_nil_r].
  - rewrite write_mode. destruct (existsb is_real r) eqn:E; [apply write_write | now rewrite (wpay_noreal _ r Hr E), app_nil_r].
  - rewrite write_mode. destruct (existsb is_real r) eqn:E; [apply write_write | now rewrite (wpay_noreal _ r Hr E), app_nil_r].
  - reflexivity.
Qed.

Lemma run_from_app b a c : run_from b (a ++ c) = run_from (run_from b a) c.
Proof. unfold run_from. apply fold_left_app. Qed.

Lemma run_writes_mode ws b : forallb is_wr ws = true -> bmode (run_from b ws) = bmode b.
Proof. intros H. rewrite (run_writes ws b H). destruct (existsb is_real ws); [apply write_mode | reflexivity]. Qed.

(* ---------- the relation between the two histories (oldest call first) ---------- *)
(* a stretch of unsafe-mode writes *)
Definition useg (w1 w2 : list op) : Prop :=
  forallb is_wr w1 = true /\ forallb is_wr w2 = true /\
  existsb is_real w1 = existsb is_real w2 /\
  skel (kinds_b (wpay MUnsafe w1)) = skel (kinds_b (wpay MUnsafe w2)).

Inductive dsim : mode -> list op -> list op -> mode -> Prop :=
| ds_nil m : dsim m [] [] m
| ds_mode m m' r1 r2 m'' : dsim m' r1 r2 m'' -> dsim m (OMode m' :: r1) (OMode m' :: r2) m''
| ds_same m o r1 r2 m'' : m <> MUnsafe -> is_wr o = true -> dsim m r1 r2 m'' -> dsim m (o :: r1) (o :: r2) m''
| ds_useg w1 w2 r1 r2 m'' : useg w1 w2 -> dsim MUnsafe r1 r2 m'' -> dsim MUnsafe (w1 ++ r1) (w2 ++ r2) m''
| ds_take r1 r2 m m'' : dsim MUnsafe r1 r2 m'' -> dsim m (OTake :: r1) (OTake :: r2) m''.

Lemma dsim_app m a1 a2 m' : dsim m a1 a2 m' -> forall b1 b2 m'', dsim m' b1 b2 m'' -> dsim m (a1 ++ b1) (a2 ++ b2) m''.
Proof.
  induction 1 as [m | m m1 r1 r2 m2 _ IH | m o r1 r2 m2 Hm Ho _ IH | w1 w2 r1 r2 m2 Hu _ IH | r1 r2 m m2 _ IH];
    intros b1 b2 m3 Hb; cbn [app].
  - exact Hb.
  - apply ds_mode. now apply IH.
  - apply ds_same; auto.
  - rewrite <- !app_assoc. apply ds_useg; auto.
  - apply ds_take. now apply IH.
Qed.

Lemma useg_refl w : forallb is_wr w = true -> useg w w.
Proof. intros H. repeat split; assumption. Qed.

(* ---------- the two runs stay similar ---------- *)
Lemma ptail_writes ws : forall b, forallb is_wr ws = true ->
  forall r, ptail_ok_from b (ws ++ r) = ptail_ok_from (run_from b ws) r.
Proof.
  induction ws as [|o w IH]; intros b H r; [reflexivity|].
  cbn [forallb] in H. apply andb_prop in H. destruct H as [Ho Hw].
  cbn [app ptail_ok_from]. unfold run_from. cbn [fold_left]. fold (run_from (fst (step b o)) w).
  rewrite (IH _ Hw). destruct o; cbn [is_wr] in Ho; try discriminate; reflexivity.
Qed.

Lemma rawok_writes_unsafe ws : forall b, bmode b = MUnsafe -> forallb is_wr ws = true ->
  forall r, rawok_from b (ws ++ r) = rawok_from (run_from b ws) r.
Proof.
  induction ws as [|o w IH]; intros b Hm H r; [reflexivity|].
  cbn [forallb] in H. apply andb_prop in H. destruct H as [Ho Hw].
  cbn [app rawok_from]. unfold run_from. cbn [fold_left]. fold (run_from (fst (step b o)) w).
  unfold op_ok. rewrite Hm. cbn [andb].
  apply IH; [|exact Hw]. rewrite step_mode. destruct o; cbn [is_wr] in Ho; try discriminate; exact Hm.
Qed.

Theorem dsim_run m d1 d2 m' : dsim m d1 d2 m' -> forall b1 b2,
  Sim b1 b2 -> bmode b1 = m ->
  rawok_from b1 d1 = true ->
  ptail_ok_from b1 d1 = true -> ptail_ok_from b2 d2 = true ->
  exists x1 x2, buf (finalize (run_from b1 d1)) = x1 /\ buf (finalize (run_from b2 d2)) = x2 /\
                Good x1 false 0 /\ Good x2 false 0 /\ shape x1 = shape x2.
Proof.
  induction 1 as [m | m m1 r1 r2 m2 _ IH | m o r1 r2 m2 Hm Ho _ IH | w1 w2 r1 r2 m2 Hu _ IH | r1 r2 m m2 _ IH];
    intros b1 b2 HS Eb Hr T1 T2.
  - cbn [ptail_ok_from] in T1, T2. cbn [run_from fold_left].
    destruct (sim_finalize b1 b2 HS T1 T2) as (x1 & x2 & -> & -> & G1 & G2 & Es). cbn [buf]. eauto 10.
  - cbn [ptail_ok_from rawok_from] in T1, T2, Hr. apply andb_true_iff in T1, T2, Hr.
    destruct T1 as [T1 T1'], T2 as [T2 T2'], Hr as [_ Hr].
    unfold run_from. cbn [fold_left].
    apply IH; try assumption.
    + apply sim_step; try assumption. unfold sim_op. cbn [payload_of]. reflexivity.
    + rewrite step_mode. reflexivity.
  - cbn [ptail_ok_from rawok_from] in T1, T2, Hr. apply andb_true_iff in T1, T2, Hr.
    destruct T1 as [T1 T1'], T2 as [T2 T2'], Hr as [Hr0 Hr].
    unfold run_from. cbn [fold_left].
    apply IH; try assumption.
    + apply sim_step; try assumption. unfold sim_op. rewrite Eb.
      destruct o; cbn [is_wr] in Ho; try discriminate; cbn [payload_of].
      * destruct m; [congruence | reflexivity |]. split; [reflexivity|]. unfold op_ok in Hr0. rewrite Eb in Hr0. exact Hr0.
      * destruct m; [congruence | reflexivity |]. split; [reflexivity|]. unfold op_ok in Hr0. rewrite Eb in Hr0. exact Hr0.
      * destruct m; [congruence | reflexivity |]. split; [reflexivity|]. unfold op_ok in Hr0. rewrite Eb in Hr0. exact Hr0.
      * reflexivity.
    + rewrite step_mode. destruct o; cbn [is_wr] in Ho; try discriminate; exact Eb.
  - destruct Hu as (W1 & W2 & Er & Ek).
    assert (bmode b2 = MUnsafe) as Eb2 by (rewrite <- (proj1 HS); exact Eb).
    rewrite (ptail_writes w1 b1 W1) in T1. rewrite (ptail_writes w2 b2 W2) in T2.
    rewrite (rawok_writes_unsafe w1 b1 Eb W1) in Hr.
    rewrite !run_from_app.
    apply IH; try assumption.
    + rewrite (run_writes w1 b1 W1), (run_writes w2 b2 W2), <- Er, Eb, Eb2.
      destruct (existsb is_real w1); [|exact HS].
      apply sim_write; [exact HS|]. rewrite Eb. exact Ek.
    + rewrite run_writes_mode by assumption. exact Eb.
  - cbn [ptail_ok_from rawok_from] in T1, T2, Hr. apply andb_true_iff in T1, T2, Hr.
    destruct T1 as [T1 T1'], T2 as [T2 T2'], Hr as [_ Hr].
    unfold run_from. cbn [fold_left].
    apply IH; try assumption.
    + apply sim_step; try assumption. unfold sim_op. cbn [payload_of]. reflexivity.
    + rewrite step_mode. reflexivity.
Qed.

(* Non-interference of Redact for histories with regrouped unsafe writes *)
Theorem redact_noninterference_seg ops1 ops2 m' :
  dsim MUnsafe ops1 ops2 m' ->
  rawok ops1 = true ->
  ptail_ok_from init ops1 = true -> ptail_ok_from init ops2 = true ->
  redact_b (output ops1) = redact_b (output ops2).
Proof.
  intros Hd Hr T1 T2.
  destruct (dsim_run _ _ _ _ Hd init init Sim_init eq_refl Hr T1 T2) as (x1 & x2 & E1 & E2 & G1 & G2 & Es).
  unfold output, redactable_bytes, run. rewrite E1, E2.
  apply same_shape_same_redact; [apply (good_output _ G1) | apply (good_output _ G2) | exact Es].
Qed.

Print Assumptions redact_noninterference_seg.
