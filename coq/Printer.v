(* Layer 4c: internal/rfmt/print.go, helpers.go, printer_adapter.go as an
   evaluator in a state/exception monad.  Every access to the output buffer
   goes through [bop] (one Buffer method call, logged).  Recursion through user
   methods is bounded by fuel; the out-of-fuel and missing-oracle outcomes are
   distinct and are asserted absent by the correspondence runs. *)
From Redact Require Export Value LBuf.
From Coq Require Import String.
Import List ListNotations.
Open Scope Z_scope.

(* ---------- ASCII literals ---------- *)
Fixpoint bs (s : string) : bytes :=
  match s with
  | EmptyString => []
  | String a r => Ascii.N_of_ascii a :: bs r
  end.

Inductive ovr := NoOvr | OvrSafe | OvrUnsafe.
Definition ovr_eqb (a b : ovr) : bool :=
  match a, b with NoOvr, NoOvr | OvrSafe, OvrSafe | OvrUnsafe, OvrUnsafe => true | _, _ => false end.

(* The printer struct pp. *)
Record pst := mkP {
  pl : lbuf;
  povr : ovr;
  parg : option value;          (* p.arg; None = nil *)
  pval : option (value * bool); (* p.value and whether it CanInterface; None = invalid *)
  pf : fst_;                    (* p.fmt: flags, wid, prec *)
  reordered : bool;
  goodArgNum : bool;
  panicking : bool;
  erroring : bool;
  wrapErrs : bool;
  wrappedErr : option value
}.

Definition set_pl s x := mkP x (povr s) (parg s) (pval s) (pf s) (reordered s) (goodArgNum s) (panicking s) (erroring s) (wrapErrs s) (wrappedErr s).
Definition set_ovr s x := mkP (pl s) x (parg s) (pval s) (pf s) (reordered s) (goodArgNum s) (panicking s) (erroring s) (wrapErrs s) (wrappedErr s).
Definition set_arg s x := mkP (pl s) (povr s) x (pval s) (pf s) (reordered s) (goodArgNum s) (panicking s) (erroring s) (wrapErrs s) (wrappedErr s).
Definition set_val s x := mkP (pl s) (povr s) (parg s) x (pf s) (reordered s) (goodArgNum s) (panicking s) (erroring s) (wrapErrs s) (wrappedErr s).
Definition set_pf s x := mkP (pl s) (povr s) (parg s) (pval s) x (reordered s) (goodArgNum s) (panicking s) (erroring s) (wrapErrs s) (wrappedErr s).
Definition set_reordered s x := mkP (pl s) (povr s) (parg s) (pval s) (pf s) x (goodArgNum s) (panicking s) (erroring s) (wrapErrs s) (wrappedErr s).
Definition set_good s x := mkP (pl s) (povr s) (parg s) (pval s) (pf s) (reordered s) x (panicking s) (erroring s) (wrapErrs s) (wrappedErr s).
Definition set_panicking s x := mkP (pl s) (povr s) (parg s) (pval s) (pf s) (reordered s) (goodArgNum s) x (erroring s) (wrapErrs s) (wrappedErr s).
Definition set_erroring s x := mkP (pl s) (povr s) (parg s) (pval s) (pf s) (reordered s) (goodArgNum s) (panicking s) x (wrapErrs s) (wrappedErr s).
Definition set_wrapErrs s x := mkP (pl s) (povr s) (parg s) (pval s) (pf s) (reordered s) (goodArgNum s) (panicking s) (erroring s) x (wrappedErr s).
Definition set_wrappedErr s x := mkP (pl s) (povr s) (parg s) (pval s) (pf s) (reordered s) (goodArgNum s) (panicking s) (erroring s) (wrapErrs s) x.

Definition set_flags s (x : flags) := set_pf s (mkF x (wid (pf s)) (prec (pf s))).

(* Environment of a call: oracle tables and the registered error hook. *)
Record env := mkEnv { orc : oracle; hook : option (list action) }.

(* ---------- the monad ---------- *)
Inductive res (A : Type) :=
| ROk (a : A)
| RPanic (v : value)        (* a Go panic propagating *)
| RFuel                     (* model ran out of fuel *)
| RMiss (why : nat).        (* oracle entry missing (0) / construct not modelled (code) *)
Arguments ROk {A} a. Arguments RPanic {A} v. Arguments RFuel {A}. Arguments RMiss {A} why.

Definition M (A : Type) := pst -> res A * pst.
Definition ret {A} (a : A) : M A := fun s => (ROk a, s).
Definition bind {A B} (m : M A) (f : A -> M B) : M B :=
  fun s => match m s with
           | (ROk a, s1) => f a s1
           | (RPanic v, s1) => (RPanic v, s1)
           | (RFuel, s1) => (RFuel, s1)
           | (RMiss w, s1) => (RMiss w, s1)
           end.
Notation "x <- m ;; k" := (bind m (fun x => k)) (at level 61, m at next level, right associativity).
Notation "m ;;; k" := (bind m (fun _ => k)) (at level 61, right associativity).
Definition get : M pst := fun s => (ROk s, s).
Definition modify (f : pst -> pst) : M unit := fun s => (ROk tt, f s).
Definition panic {A} (v : value) : M A := fun s => (RPanic v, s).
Definition missc {A} (w : nat) : M A := fun s => (RMiss w, s).
Definition miss {A} : M A := missc 0.
Definition of_opt {A} (o : option A) : M A := match o with Some a => ret a | None => miss end.

(* One Buffer method call. *)
Definition bop (o : op) : M obs :=
  fun s => let '(l', ob) := l_step (pl s) o in (ROk ob, set_pl s l').

Definition w1 (w : wop) : M unit :=
  match w with
  | WB c => bop (OWriteByte c) ;;; ret tt
  | WS b => bop (OWrite b) ;;; ret tt
  | WR r => bop (OWriteRune r) ;;; ret tt
  | WG n => bop (OGrow (Z.to_nat n)) ;;; ret tt
  end.
Fixpoint wr (ws : list wop) : M unit :=
  match ws with [] => ret tt | w :: r => w1 w ;;; wr r end.
Definition wstr (s : string) : M unit := w1 (WS (bs s)).
Definition wbyte (c : Z) : M unit := w1 (WB (ch c)).

Definition get_mode : M mode := fun s => (ROk (bmode (lb (pl s))), s).
Definition set_mode_m (m : mode) : M unit := bop (OMode m) ;;; ret tt.
Definition getf : M fst_ := fun s => (ROk (pf s), s).

(* ---------- helpers.go: start* / restorer ---------- *)
Definition restorer := (mode * ovr)%type.

Definition start_unsafe : M restorer :=
  pm <- get_mode ;; s <- get ;;
  (if ovr_eqb (povr s) OvrSafe then ret tt else set_mode_m MUnsafe) ;;;
  ret (pm, povr s).

Definition start_prered : M restorer :=
  pm <- get_mode ;; s <- get ;;
  (if ovr_eqb (povr s) OvrUnsafe then ret tt else set_mode_m MRaw) ;;;
  ret (pm, povr s).

Definition start_safe_ovr : M restorer :=
  pm <- get_mode ;; s <- get ;;
  (if ovr_eqb (povr s) NoOvr then set_mode_m MSafe ;;; modify (fun s => set_ovr s OvrSafe) else ret tt) ;;;
  ret (pm, povr s).

Definition start_unsafe_ovr : M restorer :=
  pm <- get_mode ;; s <- get ;;
  (if ovr_eqb (povr s) NoOvr then set_mode_m MUnsafe ;;; modify (fun s => set_ovr s OvrUnsafe) else ret tt) ;;;
  ret (pm, povr s).

Definition restore (r : restorer) : M unit :=
  set_mode_m (fst r) ;;; modify (fun s => set_ovr s (snd r)).

(* defer start().restore(): the restore runs on every outcome of the body. *)
Definition bracket {A} (start : M restorer) (body : M A) : M A :=
  fun s =>
    match start s with
    | (ROk r, s1) =>
      let '(o, s2) := body s1 in
      let '(_, s3) := restore r s2 in (o, s3)
    | (RPanic v, s1) => (RPanic v, s1)
    | (RFuel, s1) => (RFuel, s1)
    | (RMiss w, s1) => (RMiss w, s1)
    end.
Definition bracket_if {A} (c : bool) (start : M restorer) (body : M A) : M A :=
  if c then bracket start body else body.

(* ---------- calls of the recursive evaluator ---------- *)
Inductive call :=
| CPrintArg (v : value) (verb : Z)
| CPrintValue (v : value) (verb : Z) (depth : nat) (ci : bool)
| CBadVerb (verb : Z)
| CHandleMethods (verb : Z)
| CDoPrintf (f : bytes) (a : list value)
| CDoPrint (a : list value)
| CActs (self : value) (verb : Z) (acts : list action).

Inductive rv := RU | RBo (b : bool).
Definition rbool (r : rv) : bool := match r with RBo b => b | RU => false end.

Definition recT := call -> M rv.

(* verbs *)
Definition isv (verb : Z) (s : string) : bool :=
  existsb (fun c => Z.of_N c =? verb) (bs s).

(* ---------- leaf formatters of print.go ---------- *)
Definition fmtBool (rec : recT) (v : bool) (verb : Z) : M unit :=
  if isv verb "tv" then bracket start_unsafe (f <- getf ;; wr (fmt_boolean f v))
  else rec (CBadVerb verb) ;;; ret tt.

(* fmt0x64 *)
Definition fmt0x64 (v : Z) (leading0x : bool) : M unit :=
  f <- getf ;;
  let sh := sharp (fl f) in
  modify (fun s => set_pf s (set_sharp (pf s) leading0x)) ;;;
  bracket start_unsafe
    (f <- getf ;; wr (fmt_integer f v 16 false 118 false) ;;;
     modify (fun s => set_pf s (set_sharp (pf s) sh))).

Definition fmtInteger (rec : recT) (env : env) (v : Z) (isSigned : bool) (verb : Z) : M unit :=
  let go base up := bracket start_unsafe (f <- getf ;; wr (fmt_integer f v base isSigned verb up)) in
  if verb =? 118 (* v *) then
    f <- getf ;;
    if sharpV (fl f) && negb isSigned then fmt0x64 v true else go 10 false
  else if verb =? 100 then go 10 false
  else if verb =? 98 then go 2 false
  else if isv verb "oO" then go 8 false
  else if verb =? 120 then go 16 false
  else if verb =? 88 then go 16 true
  else if verb =? 99 then bracket start_unsafe (f <- getf ;; wr (fmt_c f v))
  else if verb =? 113 then bracket start_unsafe (f <- getf ;; ws <- of_opt (fmt_qc (orc env) f v) ;; wr ws)
  else if verb =? 85 then bracket start_unsafe (f <- getf ;; ws <- of_opt (fmt_unicode (orc env) f v) ;; wr ws)
  else rec (CBadVerb verb) ;;; ret tt.

Definition fmtFloat (rec : recT) (env : env) (bits size verb : Z) : M unit :=
  let go fc pr := bracket start_unsafe (f <- getf ;; ws <- of_opt (fmt_float (orc env) f bits size fc pr) ;; wr ws) in
  if verb =? 118 then go 103 (-1)
  else if isv verb "bgGxX" then go verb (-1)
  else if isv verb "feE" then go verb 6
  else if verb =? 70 then go 102 6
  else rec (CBadVerb verb) ;;; ret tt.

Definition fmtString (rec : recT) (env : env) (v : bytes) (verb : Z) : M unit :=
  if verb =? 118 then
    bracket start_unsafe
      (f <- getf ;;
       if sharpV (fl f) then ws <- of_opt (fmt_q (orc env) f v) ;; wr ws else wr (fmt_s f v))
  else if verb =? 115 then bracket start_unsafe (f <- getf ;; wr (fmt_s f v))
  else if verb =? 120 then bracket start_unsafe (f <- getf ;; wr (fmt_sbx f v false))
  else if verb =? 88 then bracket start_unsafe (f <- getf ;; wr (fmt_sbx f v true))
  else if verb =? 113 then bracket start_unsafe (f <- getf ;; ws <- of_opt (fmt_q (orc env) f v) ;; wr ws)
  else rec (CBadVerb verb) ;;; ret tt.

Definition t_uint8 : tinfo := mkT (bs "uint8") false false.

Fixpoint bytes_sharp (first : bool) (v : bytes) : M unit :=
  match v with
  | [] => ret tt
  | c :: r => (if first then ret tt else wstr ", ") ;;; fmt0x64 (Z.of_N c) true ;;; bytes_sharp false r
  end.
Fixpoint bytes_plain (first : bool) (verb : Z) (v : bytes) : M unit :=
  match v with
  | [] => ret tt
  | c :: r =>
    (if first then ret tt else wbyte 32) ;;;
    bracket start_unsafe (f <- getf ;; wr (fmt_integer f (Z.of_N c) 10 false verb false)) ;;;
    bytes_plain false verb r
  end.

Definition fmtBytes (rec : recT) (env : env) (self : value) (v : bytes) (isnil : bool) (verb : Z) (typeString : bytes) : M unit :=
  if isv verb "vd" then
    f <- getf ;;
    if sharpV (fl f) then
      w1 (WS typeString) ;;;
      if isnil then wstr "(nil)"
      else wbyte 123 ;;; bytes_sharp true v ;;; wbyte 125
    else wbyte 91 ;;; bytes_plain true verb v ;;; wbyte 93
  else if verb =? 115 then bracket start_unsafe (f <- getf ;; wr (fmt_s f v))
  else if verb =? 120 then bracket start_unsafe (f <- getf ;; wr (fmt_sbx f v false))
  else if verb =? 88 then bracket start_unsafe (f <- getf ;; wr (fmt_sbx f v true))
  else if verb =? 113 then bracket start_unsafe (f <- getf ;; ws <- of_opt (fmt_q (orc env) f v) ;; wr ws)
  else rec (CPrintValue self verb 0%nat true) ;;; ret tt.

(* fmtPointer for the kinds the model carries an address for *)
Definition fmtPointer (rec : recT) (env : env) (v : value) (verb : Z) : M unit :=
  match v with
  | VPtr t u _ =>
    if verb =? 118 then
      f <- getf ;;
      if sharpV (fl f) then
        wbyte 40 ;;; w1 (WS (tname t)) ;;; wstr ")(" ;;;
        (if u =? 0 then wstr "nil" else fmt0x64 u true) ;;; wbyte 41
      else if u =? 0 then bracket start_unsafe (f <- getf ;; wr (pad f (bs "<nil>")))
      else fmt0x64 u (negb (sharp (fl f)))
    else if verb =? 112 then f <- getf ;; fmt0x64 u (negb (sharp (fl f)))
    else if isv verb "bodxX" then fmtInteger rec env u false verb
    else rec (CBadVerb verb) ;;; ret tt
  | VSlice _ _ _ | VMap _ _ _ | VBytes _ _ _ | VRB _ => missc 1      (* address not modelled *)
  | VUser _ _ _ (VPtr _ _ _) _ => missc 1
  | _ => rec (CBadVerb verb) ;;; ret tt
  end.

(* ---------- badVerb ---------- *)
Definition badVerb (rec : recT) (verb : Z) : M unit :=
  modify (fun s => set_erroring s true) ;;;
  wstr "%!" ;;; w1 (WR verb) ;;; wbyte 40 ;;;
  s <- get ;;
  match parg s, pval s with
  | Some a, _ =>
    w1 (WS (type_name a)) ;;; wbyte 61 ;;; rec (CPrintArg a 118) ;;; ret tt
  | None, Some (v, ci) =>
    w1 (WS (type_name v)) ;;; wbyte 61 ;;; rec (CPrintValue v 118 0%nat ci) ;;; ret tt
  | None, None => wstr "<nil>"
  end ;;;
  wbyte 41 ;;;
  modify (fun s => set_erroring s false).

(* ---------- catchPanic ---------- *)
Definition catch_panic (rec : recT) (arg : value) (verb : Z) (method : string) (body : M unit) : M unit :=
  fun s =>
    match body s with
    | (RPanic v, s1) =>
      if is_nil_ptr arg then wstr "<nil>" s1
      else if panicking s1 then (RPanic v, s1)
      else
        let oldFlags := fl (pf s1) in
        (modify (fun s => set_pf s (mkF noflags 0 0)) ;;;      (* p.fmt.clearflags() *)
         wstr "%!" ;;; w1 (WR verb) ;;; wstr "(PANIC=" ;;; wstr method ;;; wstr " method: " ;;;
         modify (fun s => set_panicking s true) ;;;
         rec (CPrintArg v 118) ;;;
         modify (fun s => set_panicking s false) ;;;
         wbyte 41 ;;;
         modify (fun s => set_flags s oldFlags)) s1
    | other => other
    end.

(* A string-returning user method (String, Error, GoString, SafeMessage). *)
Fixpoint string_method (acts : list action) : M bytes :=
  match acts with
  | [] => ret []
  | ARet s :: _ => ret s
  | APanic v :: _ => panic v
  | _ :: r => string_method r
  end.

Definition nil_recv_panic : value := VStr noT (bs "value method called using nil pointer").

Definition user_string (self : value) : M bytes :=
  match self with
  | VUser _ _ true _ _ => panic nil_recv_panic
  | VUser _ _ false _ sc => string_method sc
  | _ => ret []
  end.

Definition is_error (v : value) : bool :=
  match v with VUser _ i _ _ _ => iError i | _ => false end.

(* ---------- handleMethods ---------- *)
Definition handleMethods (rec : recT) (env : env) (verb0 : Z) : M bool :=
  s <- get ;;
  if erroring s then ret false else
  match parg s with
  | None =>
    if verb0 =? 119 then
      modify (fun s => set_wrapErrs (set_wrappedErr s None) false) ;;; rec (CBadVerb verb0) ;;; ret true
    else ret false
  | Some a =>
    let wbad := (verb0 =? 119) && (negb (is_error a) || negb (wrapErrs s) || match wrappedErr s with Some _ => true | None => false end) in
    if wbad then
      modify (fun s => set_wrapErrs (set_wrappedErr s None) false) ;;; rec (CBadVerb verb0) ;;; ret true
    else
    (if verb0 =? 119 then modify (fun s => set_wrappedErr s (Some a)) else ret tt) ;;;
    let verb := if verb0 =? 119 then 118 else verb0 in
    let custom := negb (ovr_eqb (povr s) OvrUnsafe) in
    let run_acts acts := rec (CActs a verb acts) ;;; ret tt in
    let std : M bool :=
      match a with
      | VUser _ i nr _ sc =>
        if iFormatter i then
          catch_panic rec a verb "Format" (if nr then panic nil_recv_panic else run_acts sc) ;;; ret true
        else
          f <- getf ;;
          if sharpV (fl f) then
            if iGoStringer i then
              catch_panic rec a verb "GoString"
                (bracket start_unsafe (str <- user_string a ;; f <- getf ;; wr (fmt_s f str))) ;;; ret true
            else ret false
          else if isv verb "vsxXq" then
            if iError i then
              catch_panic rec a verb "Error" (str <- user_string a ;; fmtString rec env str verb) ;;; ret true
            else if iStringer i then
              catch_panic rec a verb "String" (str <- user_string a ;; fmtString rec env str verb) ;;; ret true
            else ret false
          else ret false
      | VSafe _ _ | VUnsafe _ => missc 2     (* wrapper Format through the standard fmt: not modelled *)
      | _ => ret false
      end in
    if custom then
      match a with
      | VUser _ i nr _ sc =>
        if iSafeFormatter i then
          catch_panic rec a verb "SafeFormat" (if nr then panic nil_recv_panic else run_acts sc) ;;; ret true
        else if iSafeMessager i then
          if isv verb "vsxXq" then
            catch_panic rec a verb "SafeMessager"
              (bracket start_safe_ovr (str <- user_string a ;; fmtString rec env str verb)) ;;; ret true
          else std
        else if iError i then
          match hook env with
          | Some h => catch_panic rec a verb "SafeFormatter" (run_acts h) ;;; ret true
          | None => std
          end
        else std
      | VRS _ | VRB _ =>
        (* RedactableString/Bytes.SafeFormat: sp.Print(s) *)
        catch_panic rec a verb "SafeFormat" (run_acts [APrint [a]]) ;;; ret true
      | VSafe v _ =>
        (* case w.SafeWrapper: the inner value is printed like a top-level operand *)
        bracket start_safe_ovr (rec (CPrintArg v verb) ;;; ret tt) ;;; ret true
      | _ => std
      end
    else std
  end.

(* ---------- printValue ---------- *)
Definition basic_names : list bytes :=
  map bs ["bool"; "int"; "int8"; "int16"; "int32"; "int64"; "uint"; "uint8"; "uint16"; "uint32"; "uint64";
          "uintptr"; "float32"; "float64"; "string"; "[]uint8"]%string.
Definition is_basic (v : value) : bool :=
  match v with
  | VBool t _ | VInt t _ | VUint t _ | VFloat t _ _ | VStr t _ | VBytes t _ _ =>
    existsb (beq (tname t)) basic_names
  | _ => false
  end.

Fixpoint for_elems (rec : recT) (sep : M unit) (first : bool) (es : list value) (verb : Z) (depth : nat) (ci : bool) : M unit :=
  match es with
  | [] => ret tt
  | e :: r =>
    (if first then ret tt else sep) ;;;
    rec (CPrintValue e verb (S depth) ci) ;;;
    for_elems rec sep false r verb depth ci
  end.

Fixpoint for_kvs (rec : recT) (sep : M unit) (first : bool) (kvs : list (value * value)) (verb : Z) (depth : nat) (ci : bool) : M unit :=
  match kvs with
  | [] => ret tt
  | (k, v) :: r =>
    (if first then ret tt else sep) ;;;
    rec (CPrintValue k verb (S depth) ci) ;;; wbyte 58 ;;;
    rec (CPrintValue v verb (S depth) ci) ;;;
    for_kvs rec sep false r verb depth ci
  end.

Fixpoint for_fields (rec : recT) (sep : M unit) (names : bool) (first : bool) (fs : list (bytes * bool * value)) (verb : Z) (depth : nat) (ci : bool) : M unit :=
  match fs with
  | [] => ret tt
  | (name, exported, v) :: r =>
    (if first then ret tt else sep) ;;;
    (if names then match name with [] => ret tt | _ => w1 (WS name) ;;; wbyte 58 end else ret tt) ;;;
    rec (CPrintValue v verb (S depth) (ci && exported)) ;;;
    for_fields rec sep names false r verb depth ci
  end.

Definition elem_kind_composite (v : value) : bool :=
  match v with
  | VArray _ _ | VSlice _ _ _ | VStruct _ _ | VMap _ _ _ | VBytes _ _ _ => true
  | _ => false
  end.

(* the switch on value.Kind() *)
Fixpoint print_kind (fuel : nat) (rec : recT) (env : env) (value : value) (verb : Z) (depth : nat) (ci : bool) : M unit :=
  let sepSp : M unit := f <- getf ;; if sharpV (fl f) then wstr ", " else wbyte 32 in
  match value with
  | VNil => wstr "<invalid reflect.Value>"
  | VBool _ b => fmtBool rec b verb
  | VInt _ u => fmtInteger rec env u true verb
  | VUint _ u => fmtInteger rec env u false verb
  | VFloat _ size bits => fmtFloat rec env bits size verb
  | VStr _ s => fmtString rec env s verb
  | VMap t isnil kvs =>
    f <- getf ;;
    if sharpV (fl f) then
      w1 (WS (tname t)) ;;;
      if isnil then wstr "(nil)"
      else wbyte 123 ;;; for_kvs rec sepSp true kvs verb depth ci ;;; wbyte 125
    else wstr "map[" ;;; for_kvs rec sepSp true kvs verb depth ci ;;; wbyte 93
  | VStruct t fs =>
    f <- getf ;;
    (if sharpV (fl f) then w1 (WS (tname t)) else ret tt) ;;;
    wbyte 123 ;;;
    for_fields rec sepSp (plusV (fl f) || sharpV (fl f)) true fs verb depth ci ;;;
    wbyte 125
  | VIface tn e =>
    match e with
    | None => f <- getf ;; if sharpV (fl f) then w1 (WS tn) ;;; wstr "(nil)" else wstr "<nil>"
    | Some v => rec (CPrintValue v verb (S depth) ci) ;;; ret tt
    end
  | VBytes t isnil s =>
    if isv verb "sqxX" then fmtBytes rec env value s isnil verb (tname t)
    else
      f <- getf ;;
      let es := map (fun c => VUint t_uint8 (Z.of_N c)) s in
      if sharpV (fl f) then
        w1 (WS (tname t)) ;;;
        if isnil then wstr "(nil)"
        else wbyte 123 ;;; for_elems rec (wstr ", ") true es verb depth ci ;;; wbyte 125
      else wbyte 91 ;;; for_elems rec (wbyte 32) true es verb depth ci ;;; wbyte 93
  | VSlice t isnil es =>
    f <- getf ;;
    if sharpV (fl f) then
      w1 (WS (tname t)) ;;;
      if isnil then wstr "(nil)"
      else wbyte 123 ;;; for_elems rec (wstr ", ") true es verb depth ci ;;; wbyte 125
    else wbyte 91 ;;; for_elems rec (wbyte 32) true es verb depth ci ;;; wbyte 93
  | VArray t es =>
    f <- getf ;;
    if sharpV (fl f) then
      w1 (WS (tname t)) ;;; wbyte 123 ;;; for_elems rec (wstr ", ") true es verb depth ci ;;; wbyte 125
    else wbyte 91 ;;; for_elems rec (wbyte 32) true es verb depth ci ;;; wbyte 93
  | VPtr t u e =>
    match depth, e with
    | O, Some a =>
      if negb (u =? 0) && elem_kind_composite a then
        wbyte 38 ;;; rec (CPrintValue a verb 1%nat ci) ;;; ret tt
      else fmtPointer rec env value verb
    | _, _ => fmtPointer rec env value verb
    end
  | VUser _ _ _ repr _ =>
    (* no method took the operand: reflection sees the representation *)
    match fuel with
    | O => fun s => (RFuel, s)
    | S k => print_kind k rec env repr verb depth ci
    end
  | VSafe _ _ | VUnsafe _ | VRS _ | VRB _ => missc 3   (* handled by handleSpecialValues / printArg before *)
  end.

(* value.Field(0) of a wrapper: a slot of type interface{} *)
Definition iface_field (v : value) : value :=
  VIface (bs "interface {}") (match v with VNil => None | _ => Some v end).

(* handleSpecialValues + the depth > 0 prologue of printValue *)
Definition printValue (rec : recT) (env : env) (value : value) (verb : Z) (depth : nat) (ci : bool) : M unit :=
  let kind_part : M unit :=
    modify (fun s => set_val (set_arg s None) (Some (value, ci))) ;;;
    print_kind 8 rec env value verb depth ci in
  match depth with
  | O =>
    match value with
    | VSafe _ _ | VUnsafe _ | VRS _ | VRB _ => missc 3
    | _ => kind_part
    end
  | S _ =>
    match value with
    (* printWrapped: when the wrapper itself can be converted to an interface, the wrapped value is
       taken through the wrapper's accessor and printed like an operand (its formatting methods
       are called, as for a Safe() wrapper held by a slice element); else by reflection on the
       wrapper's unexported field *)
    | VSafe v _ =>
      bracket start_safe_ovr
        (if ci then rec (CPrintArg v verb) ;;; ret tt
         else rec (CPrintValue (iface_field v) verb (S depth) false) ;;; ret tt)
    | VUnsafe v =>
      bracket start_unsafe_ovr
        (if ci then rec (CPrintArg v verb) ;;; ret tt
         else rec (CPrintValue (iface_field v) verb (S depth) false) ;;; ret tt)
    | VRS s0 | VRB s0 => bracket start_prered (w1 (WS s0))
    | _ =>
      bracket_if (is_registered value) start_safe_ovr
        (if ci then
           let dyn := match value with
                      | VIface _ e => e
                      | v => Some v
                      end in
           modify (fun s => set_arg s dyn) ;;;
           bracket_if (match dyn with Some d => is_safe_value d || is_registered d | None => false end) start_safe_ovr
             (h <- rec (CHandleMethods verb) ;;
              if rbool h then ret tt else kind_part)
         else kind_part)
    end
  end.

(* ---------- printArg ---------- *)
(* what printArg does once the outermost wrapper / registered type has been accounted for *)
Definition printArg_inner (rec : recT) (env : env) (arg : value) (verb : Z) : M unit :=
       (modify (fun s => set_val (set_arg s (match arg with VNil => None | _ => Some arg end)) None) ;;;
        match arg with
        | VNil =>
          if isv verb "Tv" then f <- getf ;; wr (pad f (bs "<nil>"))
          else rec (CBadVerb verb) ;;; ret tt
        | _ =>
          if verb =? 84 then f <- getf ;; wr (fmt_s f (type_name arg))
          else if verb =? 112 then fmtPointer rec env arg 112
          else
            match arg with
            | VRS s0 | VRB s0 => bracket start_prered (w1 (WS s0))
            | _ =>
              if is_basic arg then
                match arg with
                | VBool _ b => fmtBool rec b verb
                | VInt _ u => fmtInteger rec env u true verb
                | VUint _ u => fmtInteger rec env u false verb
                | VFloat _ size bits => fmtFloat rec env bits size verb
                | VStr _ s0 => fmtString rec env s0 verb
                | VBytes t isnil s0 => fmtBytes rec env arg s0 isnil verb (bs "[]byte")
                | _ => ret tt
                end
              else
                h <- rec (CHandleMethods verb) ;;
                if rbool h then ret tt
                else rec (CPrintValue arg verb 0%nat true) ;;; ret tt
            end
        end).

Definition printArg_body (rec : recT) (env : env) (arg : value) (verb : Z) : M unit :=
    bracket_if (is_safe_value arg) start_safe_ovr (printArg_inner rec env arg verb).

Definition printArg (rec : recT) (env : env) (arg0 : value) (verb : Z) : M unit :=
  let reg := is_registered arg0 in
  let arg := if reg then arg0 else match arg0 with VSafe v _ => v | VUnsafe v => v | _ => arg0 end in
  let outer (body : M unit) : M unit :=
    if reg then bracket start_safe_ovr body
    else match arg0 with
         | VSafe _ _ => bracket start_safe_ovr body
         | VUnsafe _ => bracket start_unsafe_ovr body
         | _ => body
         end in
  outer (printArg_body rec env arg verb).

(* ---------- scripts: the body of Format / SafeFormat / the error hook ---------- *)
Definition fresh_pp (l : lbuf) (o : ovr) : pst :=
  mkP l o None None (mkF noflags 0 0) false false false false false None.

Fixpoint itoa_pos (fuel : nat) (n : Z) (acc : bytes) : bytes :=
  match fuel with
  | O => acc
  | S k => if n <? 10 then ch (48 + n) :: acc else itoa_pos k (n / 10) (ch (48 + n mod 10) :: acc)
  end.
Definition itoa (n : Z) : bytes :=
  if n <? 0 then 45%N :: itoa_pos 25 (- n) [] else itoa_pos 25 n [].
Definition btxt (b : bool) : bytes := if b then bs "true" else bs "false".

Definition dump_text (f : fst_) : bytes :=
  let x := fl f in
  bs "w=" ++ itoa (wid f) ++ bs "/" ++ btxt (widPresent x) ++
  bs " p=" ++ itoa (prec f) ++ bs "/" ++ btxt (precPresent x) ++
  bs " f=" ++ btxt (minus x) ++ btxt (plus x || plusV x) ++ btxt (sharp x || sharpV x) ++ btxt (space x) ++ btxt (zero x).

(* The nested printer of pp.Print / pp.Printf: borrows the buffer, inherits the
   override, hands the buffer back on every outcome; the caller's mode is
   restored afterwards. *)
Definition nested (rec : recT) (c : call) : M unit :=
  pm <- get_mode ;;
  (fun s =>
     let ns := fresh_pp (pl s) (povr s) in
     let '(o, ns') := rec c ns in
     let s' := set_pl s (pl ns') in
     let '(_, s'') := set_mode_m pm s' in
     (match o with
      | ROk _ => ROk tt
      | RPanic v => RPanic v
      | RFuel => RFuel
      | RMiss w => RMiss w
      end, s'')).

Definition run_action (rec : recT) (env : env) (self : value) (verb : Z) (a : action) : M unit :=
  match a with
  | ARet _ => ret tt
  | APanic v => panic v
  | AWrite s0 => bracket start_unsafe (w1 (WS s0))
  | ASafeString s0 => bracket start_safe_ovr (w1 (WS s0))
  | ASafeInt u => bracket start_safe_ovr (fmtInteger rec env u true 100)
  | ASafeUint u => bracket start_safe_ovr (fmtInteger rec env u false 100)
  | ASafeFloat bits => bracket start_safe_ovr (fmtFloat rec env bits 64 118)
  | ASafeRune r => bracket start_safe_ovr (w1 (WR r))
  | ASafeByte c => bracket start_safe_ovr (w1 (WB c))
  | ASafeBytes s0 => bracket start_safe_ovr (w1 (WS s0))
  | AUnsafeString s0 => bracket start_unsafe (w1 (WS s0))
  | AUnsafeByte c => bracket start_unsafe (w1 (WB c))
  | AUnsafeBytes s0 => bracket start_unsafe (w1 (WS s0))
  | AUnsafeRune r => bracket start_unsafe (w1 (WR r))
  | APrint args => nested rec (CDoPrint args)
  | APrintf f args => nested rec (CDoPrintf f args)
  | ADump => f <- getf ;; bracket start_unsafe (w1 (WS (dump_text f)))
  end.

Fixpoint run_acts (rec : recT) (env : env) (self : value) (verb : Z) (acts : list action) : M unit :=
  match acts with
  | [] => ret tt
  | a :: r => run_action rec env self verb a ;;; run_acts rec env self verb r
  end.

(* ---------- doPrint ---------- *)
Fixpoint doPrint_loop (rec : recT) (argNum : nat) (prevString : bool) (a : list value) : M unit :=
  match a with
  | [] => ret tt
  | arg :: r =>
    let isString := is_string_kind arg in
    (if (0 <? argNum)%nat && negb isString && negb prevString then wbyte 32 else ret tt) ;;;
    rec (CPrintArg arg 118) ;;;
    doPrint_loop rec (S argNum) isString r
  end.

Definition enter_safe : M unit :=
  s <- get ;; if ovr_eqb (povr s) OvrUnsafe then ret tt else set_mode_m MSafe.

Definition doPrint (rec : recT) (a : list value) : M unit :=
  enter_safe ;;; doPrint_loop rec 0 false a.

(* ---------- doPrintf ---------- *)
Definition fb (f : bytes) (i : nat) : Z := Z.of_N (nth i f 0%N).

Definition tooLarge (x : Z) : bool := (1000000 <? x) || (x <? -1000000).

(* parsenum(s, start, end) *)
Fixpoint parsenum_loop (fuel : nat) (f : bytes) (i e : nat) (num : Z) (isnum : bool) : Z * bool * nat :=
  match fuel with
  | O => (num, isnum, i)
  | S k =>
    if (i <? e)%nat && (48 <=? fb f i) && (fb f i <=? 57) then
      if tooLarge num then (0, false, e)
      else parsenum_loop k f (S i) e (num * 10 + (fb f i - 48)) true
    else (num, isnum, i)
  end.
Definition parsenum (f : bytes) (start e : nat) : Z * bool * nat :=
  if (e <=? start)%nat then (0, false, e) else parsenum_loop (S (e - start)) f start e 0 false.

(* parseArgNumber(format[i:]) : (index, wid, ok) *)
Fixpoint find_rbracket (fuel : nat) (f : bytes) (j e : nat) : option nat :=
  match fuel with
  | O => None
  | S k => if (j <? e)%nat then (if fb f j =? 93 then Some j else find_rbracket k f (S j) e) else None
  end.
Definition parseArgNumber (f : bytes) (i e : nat) : Z * nat * bool :=
  if (e - i <? 3)%nat then (0, 1%nat, false)
  else match find_rbracket (e - i) f (S i) e with
       | None => (0, 1%nat, false)
       | Some j =>
         let '(width, ok, newi) := parsenum f (S i) j in
         if negb ok || negb (newi =? j)%nat then (0, (j - i + 1)%nat, false)
         else (width - 1, (j - i + 1)%nat, true)
       end.

(* argNumber *)
Definition argNumber (argNum : Z) (f : bytes) (i e : nat) (numArgs : Z) : M (Z * nat * bool) :=
  if (e <=? i)%nat || negb (fb f i =? 91) then ret (argNum, i, false)
  else
    modify (fun s => set_reordered s true) ;;;
    let '(index, w, ok) := parseArgNumber f i e in
    if ok && (0 <=? index) && (index <? numArgs) then ret (index, (i + w)%nat, true)
    else modify (fun s => set_good s false) ;;; ret (argNum, (i + w)%nat, ok).

(* intFromArg *)
Definition s64 (u : Z) : Z := if two63 <=? u then u - two64 else u.
Definition intFromArg (a : list value) (argNum : Z) : Z * bool * Z :=
  if argNum <? Z.of_nat (length a) then
    let '(num, isInt) :=
      match nth (Z.to_nat argNum) a VNil with
      | VInt _ u => (s64 u, true)
      | VUint _ u => if u <? two63 then (u, true) else (0, false)
      | _ => (0, false)
      end in
    if tooLarge num then (0, false, argNum + 1) else (num, isInt, argNum + 1)
  else (0, false, argNum).

Definition set_wid (s : pst) (w : Z) (present : bool) : pst :=
  let x := fl (pf s) in
  set_pf s (mkF (mkFlags present (precPresent x) (minus x) (plus x) (sharp x) (space x) (zero x) (plusV x) (sharpV x))
                w (prec (pf s))).
Definition set_prec (s : pst) (p : Z) (present : bool) : pst :=
  let x := fl (pf s) in
  set_pf s (mkF (mkFlags (widPresent x) present (minus x) (plus x) (sharp x) (space x) (zero x) (plusV x) (sharpV x))
                (wid (pf s)) p).
Definition upd_flags (g : flags -> flags) : M unit := modify (fun s => set_flags s (g (fl (pf s)))).

Definition f_sharp x := mkFlags (widPresent x) (precPresent x) (minus x) (plus x) true (space x) (zero x) (plusV x) (sharpV x).
Definition f_zero x := mkFlags (widPresent x) (precPresent x) (minus x) (plus x) (sharp x) (space x) (negb (minus x)) (plusV x) (sharpV x).
Definition f_plus x := mkFlags (widPresent x) (precPresent x) (minus x) true (sharp x) (space x) (zero x) (plusV x) (sharpV x).
Definition f_minus x := mkFlags (widPresent x) (precPresent x) true (plus x) (sharp x) (space x) false (plusV x) (sharpV x).
Definition f_space x := mkFlags (widPresent x) (precPresent x) (minus x) (plus x) (sharp x) true (zero x) (plusV x) (sharpV x).
(* case 'v': sharpV = sharp; sharp = false; plusV = plus; plus = false *)
Definition f_verbv x := mkFlags (widPresent x) (precPresent x) (minus x) false false (space x) (zero x) (plus x) (sharp x).

(* clearflags (as repaired: also zeroes wid and prec) *)
Definition clearflags : M unit := modify (fun s => set_pf s (mkF noflags 0 0)).

Inductive flagres := FFast (c : Z) (i : nat) | FSlow (i : nat).

(* the simpleFormat loop: consume flags; detect the fast path *)
Fixpoint flag_loop (fuel : nat) (f : bytes) (i e : nat) (argNum numArgs : Z) : M flagres :=
  match fuel with
  | O => ret (FSlow i)
  | S k =>
    if (i <? e)%nat then
      let c := fb f i in
      if c =? 35 then upd_flags f_sharp ;;; flag_loop k f (S i) e argNum numArgs
      else if c =? 48 then upd_flags f_zero ;;; flag_loop k f (S i) e argNum numArgs
      else if c =? 43 then upd_flags f_plus ;;; flag_loop k f (S i) e argNum numArgs
      else if c =? 45 then upd_flags f_minus ;;; flag_loop k f (S i) e argNum numArgs
      else if c =? 32 then upd_flags f_space ;;; flag_loop k f (S i) e argNum numArgs
      else if (97 <=? c) && (c <=? 122) && (argNum <? numArgs) then ret (FFast c i)
      else ret (FSlow i)
    else ret (FSlow i)
  end.

Fixpoint skip_literal (fuel : nat) (f : bytes) (i e : nat) : nat :=
  match fuel with
  | O => i
  | S k => if (i <? e)%nat && negb (fb f i =? 37) then skip_literal k f (S i) e else i
  end.

Definition subb (f : bytes) (i j : nat) : bytes := firstn (j - i) (skipn i f).

Fixpoint extra_args (rec : recT) (first : bool) (a : list value) : M unit :=
  match a with
  | [] => ret tt
  | arg :: r =>
    (if first then ret tt else wstr ", ") ;;;
    match arg with
    | VNil => wstr "<nil>"
    | _ => w1 (WS (type_name arg)) ;;; wbyte 61 ;;; rec (CPrintArg arg 118) ;;; ret tt
    end ;;;
    extra_args rec false r
  end.

Fixpoint format_loop (fuel : nat) (rec : recT) (f : bytes) (a : list value) (i : nat) (argNum : Z) (afterIndex : bool) : M Z :=
  let e := length f in
  let numArgs := Z.of_nat (length a) in
  match fuel with
  | O => fun s => (RFuel, s)
  | S k =>
    if negb (i <? e)%nat then ret argNum else
    modify (fun s => set_good s true) ;;;
    let i1 := skip_literal (S e) f i e in
    (if (i <? i1)%nat then w1 (WS (subb f i i1)) else ret tt) ;;;
    if (e <=? i1)%nat then ret argNum else
    let i2 := S i1 in
    clearflags ;;;
    fr <- flag_loop (S e) f i2 e argNum numArgs ;;
    match fr with
    | FFast c i3 =>
      (if c =? 118 then upd_flags f_verbv else ret tt) ;;;
      rec (CPrintArg (nth (Z.to_nat argNum) a VNil) c) ;;;
      format_loop k rec f a (S i3) (argNum + 1) afterIndex
    | FSlow i3 =>
      (* explicit argument index? *)
      r1 <- argNumber argNum f i3 e numArgs ;;
      let '(argNum, i4, afterIndex) := r1 in
      (* width *)
      r2 <- (if (i4 <? e)%nat && (fb f i4 =? 42) then
               let '(w, present, argNum') := intFromArg a argNum in
               modify (fun s => set_wid s w present) ;;;
               (if present then ret tt else wstr "%!(BADWIDTH)") ;;;
               (if w <? 0 then modify (fun s => set_wid s (- w) present) ;;; upd_flags f_minus else ret tt) ;;;
               ret (argNum', S i4, false)
             else
               let '(w, present, i5) := parsenum f i4 e in
               modify (fun s => set_wid s w present) ;;;
               (if afterIndex && present then modify (fun s => set_good s false) else ret tt) ;;;
               ret (argNum, i5, afterIndex)) ;;
      let '(argNum, i5, afterIndex) := r2 in
      (* precision *)
      r3 <- (if (S i5 <? e)%nat && (fb f i5 =? 46) then
               let i6 := S i5 in
               (if afterIndex then modify (fun s => set_good s false) else ret tt) ;;;
               r <- argNumber argNum f i6 e numArgs ;;
               let '(argNum, i7, afterIndex) := r in
               if (i7 <? e)%nat && (fb f i7 =? 42) then
                 let '(p, present, argNum') := intFromArg a argNum in
                 let '(p, present) := if p <? 0 then (0, false) else (p, present) in
                 modify (fun s => set_prec s p present) ;;;
                 (if present then ret tt else wstr "%!(BADPREC)") ;;;
                 ret (argNum', S i7, false)
               else
                 let '(p, present, i8) := parsenum f i7 e in
                 (if present then modify (fun s => set_prec s p true)
                  else modify (fun s => set_prec s 0 true)) ;;;
                 ret (argNum, i8, afterIndex)
             else ret (argNum, i5, afterIndex)) ;;
      let '(argNum, i8, afterIndex) := r3 in
      r4 <- (if afterIndex then ret (argNum, i8, afterIndex) else argNumber argNum f i8 e numArgs) ;;
      let '(argNum, i9, afterIndex) := r4 in
      if (e <=? i9)%nat then wstr "%!(NOVERB)" ;;; ret argNum else
      let c := fb f i9 in
      let '(verb, size) :=
        if c <? 128 then (c, 1%nat) else decode_rune (skipn i9 f) in
      let i10 := (i9 + size)%nat in
      s <- get ;;
      if verb =? 37 then wbyte 37 ;;; format_loop k rec f a i10 argNum afterIndex
      else if negb (goodArgNum s) then
        wstr "%!" ;;; w1 (WR verb) ;;; wstr "(BADINDEX)" ;;; format_loop k rec f a i10 argNum afterIndex
      else if numArgs <=? argNum then
        wstr "%!" ;;; w1 (WR verb) ;;; wstr "(MISSING)" ;;; format_loop k rec f a i10 argNum afterIndex
      else
        (if verb =? 118 then upd_flags f_verbv else ret tt) ;;;
        rec (CPrintArg (nth (Z.to_nat argNum) a VNil) verb) ;;;
        format_loop k rec f a i10 (argNum + 1) afterIndex
    end
  end.

Definition doPrintf (rec : recT) (f : bytes) (a : list value) : M unit :=
  enter_safe ;;;
  modify (fun s => set_reordered s false) ;;;
  argNum <- format_loop (S (length f)) rec f a 0%nat 0 false ;;
  s <- get ;;
  if negb (reordered s) && (argNum <? Z.of_nat (length a)) then
    clearflags ;;;
    wstr "%!(EXTRA " ;;;
    extra_args rec true (skipn (Z.to_nat argNum) a) ;;;
    wbyte 41
  else ret tt.

(* ---------- the evaluator ---------- *)
Fixpoint ev (fuel : nat) (env : env) (c : call) : M rv :=
  match fuel with
  | O => fun s => (RFuel, s)
  | S k =>
    let rec := ev k env in
    match c with
    | CPrintArg v verb => printArg rec env v verb ;;; ret RU
    | CPrintValue v verb depth ci => printValue rec env v verb depth ci ;;; ret RU
    | CBadVerb verb => badVerb rec verb ;;; ret RU
    | CHandleMethods verb => b <- handleMethods rec env verb ;; ret (RBo b)
    | CDoPrintf f a => doPrintf rec f a ;;; ret RU
    | CDoPrint a => doPrint rec a ;;; ret RU
    | CActs self verb acts => run_acts rec env self verb acts ;;; ret RU
    end
  end.
