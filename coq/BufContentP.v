(* Layer 2 proofs: the stripped text and the safe text of a Buffer history. *)
From Redact Require Import Bytes Tokens Utf8 Escape EscSpec Markers Buffer Ops BufInv BufContent.
From Redact Require Import TokensP MarkersP EscapeP BufInvP.
Import List ListNotations.
Open Scope N_scope.

(* ---------- token-list lemmas ---------- *)
Lemma del_env_aux_app a : forall o o' b,
  wf_st o a = Some o' -> del_env_aux o (a ++ b) = del_env_aux o a ++ del_env_aux o' b.
Proof.
  induction a as [|t a IH]; intros o o' b H.
  - cbn in H. injection H as ->. reflexivity.
  - destruct t; cbn [app wf_st del_env_aux] in *.
    + destruct o; [discriminate|]. now apply IH.
    + destruct o; [|discriminate]. now apply IH.
    + destruct o; [now apply IH|]. cbn [app]. f_equal. now apply IH.
Qed.

Lemma lf_toks_app a b : lf_toks (a ++ b) = lf_toks a ++ lf_toks b.
Proof. unfold lf_toks. apply filter_app. Qed.

Lemma escm_tok_app a b : escm_tok (a ++ b) = escm_tok a ++ escm_tok b.
Proof. unfold escm_tok. apply map_app. Qed.

Lemma good_lex_app x y o st : Good x o st -> nojoin st y = true -> lex (x ++ y) = lex x ++ lex y.
Proof.
  intros Hg Hj. apply (lex_app_st x 0). rewrite (good_pstb _ _ _ Hg). exact Hj.
Qed.

(* the content of a good prefix: stripped text and safe text *)
Definition ST (x : bytes) : list tok := strip_tok (lex x).
Definition DE (x : bytes) : list tok := del_env (lex x).

Lemma ST_app x y o st : Good x o st -> nojoin st y = true -> ST (x ++ y) = ST x ++ ST y.
Proof. intros Hg Hj. unfold ST. rewrite (good_lex_app _ _ _ _ Hg Hj). apply strip_tok_app. Qed.

Lemma DE_app x y o st : Good x o st -> nojoin st y = true ->
  DE (x ++ y) = DE x ++ del_env_aux o (lex y).
Proof.
  intros Hg Hj. unfold DE, del_env. rewrite (good_lex_app _ _ _ _ Hg Hj).
  apply del_env_aux_app. exact (proj1 Hg).
Qed.

Lemma ST_start x : ST (x ++ startB) = ST x.
Proof. unfold ST. rewrite lex_app_start, strip_tok_app. cbn. apply app_nil_r. Qed.
Lemma ST_end x : ST (x ++ endB) = ST x.
Proof. unfold ST. rewrite lex_app_end, strip_tok_app. cbn. apply app_nil_r. Qed.

Lemma DE_start x st : Good x false st -> DE (x ++ startB) = DE x.
Proof.
  intros Hg. unfold DE, del_env. rewrite lex_app_start.
  rewrite (del_env_aux_app _ _ _ _ (proj1 Hg)). cbn. apply app_nil_r.
Qed.
Lemma DE_end x st : Good x true st -> DE (x ++ endB) = DE x.
Proof.
  intros Hg. unfold DE, del_env. rewrite lex_app_end.
  rewrite (del_env_aux_app _ _ _ _ (proj1 Hg)). cbn. apply app_nil_r.
Qed.

(* closing an open envelope (or eliding an empty one) changes neither text *)
Lemma close_content x : Good x true 0 ->
  ST (close_or_elide x) = ST x /\ DE (close_or_elide x) = DE x.
Proof.
  intros H. unfold close_or_elide. destruct (has_suffix x startB) eqn:E.
  - apply has_suffix_spec in E. destruct E as [y ->].
    rewrite drop_last_app by reflexivity.
    apply good_drop_start in H. destruct H as (Hy & _ & _).
    split; [symmetry; apply ST_start | symmetry; eapply DE_start; exact Hy].
  - split; [apply ST_end | eapply DE_end; exact H].
Qed.

(* opening an envelope (or eliding the previous end marker) changes neither text *)
Lemma open_content x : Good x false 0 ->
  let x' := if has_suffix x endB then drop_last 3 x else x ++ startB in
  ST x' = ST x /\ DE x' = DE x.
Proof.
  intros H. cbn zeta. destruct (has_suffix x endB) eqn:E.
  - apply has_suffix_spec in E. destruct E as [y ->].
    rewrite drop_last_app by reflexivity.
    apply good_drop_end in H. destruct H as (Hy & _ & _).
    split; [symmetry; apply ST_end | symmetry; eapply DE_end; exact Hy].
  - split; [apply ST_start | eapply DE_start; exact H].
Qed.

(* one line feed inside unsafe data *)
Lemma nl_step_content x st : Good x true st ->
  ST (nl_step x) = ST x ++ [TB LF] /\ DE (nl_step x) = DE x ++ [TB LF].
Proof.
  intros H. unfold nl_step, close_or_elide. destruct (has_suffix x startB) eqn:E.
  - apply has_suffix_spec in E. destruct E as [y ->].
    rewrite drop_last_app by reflexivity.
    apply good_drop_start in H. destruct H as (Hy & _ & _).
    assert (Good (y ++ [LF]) false 0) as Hy2.
    { eapply good_app; [exact Hy | apply nojoin_0 | reflexivity | reflexivity | reflexivity]. }
    split.
    + rewrite !ST_start. rewrite (ST_app _ _ _ _ Hy (nojoin_0 _)). reflexivity.
    + rewrite (DE_start _ _ Hy2), (DE_start _ _ Hy).
      rewrite (DE_app _ _ _ _ Hy (nojoin_0 _)). reflexivity.
  - assert (nojoin st (endB ++ [LF] ++ startB) = true) as Hj by (apply nojoin_first; discriminate).
    rewrite <- !app_assoc. split.
    + rewrite (ST_app _ _ _ _ H Hj). reflexivity.
    + rewrite (DE_app _ _ _ _ H Hj). reflexivity.
Qed.

(* ---------- the escaping pass, content-wise ---------- *)
Lemma lex_single a : lex [a] = [TB a].
Proof. reflexivity. Qed.

Theorem esc_toks_content bnl s : forall acc st,
  Good acc bnl st -> nojoin st s = true ->
  ST (esc_toks bnl acc (lex s)) = ST acc ++ escm_tok (lex s) /\
  DE (esc_toks bnl acc (lex s)) = DE acc ++ (if bnl then lf_toks (lex s) else escm_tok (lex s)).
Proof.
  induction s as [| r IH | r IH | c r Hm IH] using lex_ind3; intros acc st Hg Hj.
  - cbn [lex esc_toks escm_tok map lf_toks filter]. destruct bnl; rewrite !app_nil_r; auto.
  - rewrite lex_start. cbn [esc_toks].
    destruct (IH (acc ++ escB) 0 (good_add_q _ _ _ Hg) (nojoin_0 _)) as [I1 I2].
    rewrite I1, I2. unfold escB.
    rewrite (ST_app _ _ _ _ Hg (nojoin_q st [])), (DE_app _ _ _ _ Hg (nojoin_q st [])).
    change (ST [63]) with [TB 63]. change (lex [63]) with [TB 63].
    rewrite <- !app_assoc. split; [reflexivity|].
    destruct bnl; cbn [del_env_aux escm_tok map esc_tok lf_toks filter app]; reflexivity.
  - rewrite lex_end. cbn [esc_toks].
    destruct (IH (acc ++ escB) 0 (good_add_q _ _ _ Hg) (nojoin_0 _)) as [I1 I2].
    rewrite I1, I2. unfold escB.
    rewrite (ST_app _ _ _ _ Hg (nojoin_q st [])), (DE_app _ _ _ _ Hg (nojoin_q st [])).
    change (ST [63]) with [TB 63]. change (lex [63]) with [TB 63].
    rewrite <- !app_assoc. split; [reflexivity|].
    destruct bnl; cbn [del_env_aux escm_tok map esc_tok lf_toks filter app]; reflexivity.
  - rewrite lex_byte by assumption. cbn [esc_toks].
    destruct (bnl && (c =? LF)) eqn:E.
    + apply andb_true_iff in E. destruct E as [-> E]. apply N.eqb_eq in E. subst c.
      destruct (IH (nl_step acc) 0 (nl_step_good _ _ Hg) (nojoin_0 _)) as [I1 I2].
      destruct (nl_step_content _ _ Hg) as [N1 N2].
      rewrite I1, I2, N1, N2. rewrite <- !app_assoc.
      cbn [escm_tok map esc_tok lf_toks filter app]. change (LF =? LF) with true. cbn iota.
      split; reflexivity.
    + assert (nojoin st [c] = true) as Hj1 by (eapply nojoin_single; exact Hj).
      assert (Good (acc ++ [c]) bnl (pnext st c)) as Hg1 by (apply good_add_byte; assumption).
      destruct (IH (acc ++ [c]) (pnext st c) Hg1 (nojoin_step _ _ _ Hm Hj)) as [I1 I2].
      rewrite I1, I2.
      rewrite (ST_app _ _ _ _ Hg Hj1), (DE_app _ _ _ _ Hg Hj1).
      change (ST [c]) with [TB c]. rewrite lex_single. rewrite <- !app_assoc.
      cbn [escm_tok map esc_tok app]. split; [reflexivity|].
      destruct bnl.
      * cbn [andb] in E. cbn [del_env_aux lf_toks filter]. rewrite E. reflexivity.
      * cbn [del_env_aux app]. reflexivity.
Qed.

(* esc_spec when no dangling tail is found *)
Lemma esc_spec_nodangle bnl V P :
  last_invalid (V ++ P) = false -> esc_spec bnl V P = esc_toks bnl V (lex P).
Proof. intros H. unfold esc_spec. rewrite H. apply app_nil_r. Qed.

(* ---------- the invariant with content ---------- *)
Definition InvC (b : buffer) (S D : list tok) : Prop :=
  exists V P, buf b = V ++ P /\ validUntil b = length V /\
    match bmode b, markerOpen b with
    | MUnsafe, true =>
      Good V true 0 /\ pstb 0 P = 0 /\ S = ST V ++ escm_tok (lex P) /\ D = DE V ++ lf_toks (lex P)
    | MUnsafe, false => P = [] /\ Good V false 0 /\ S = ST V /\ D = DE V
    | MSafe, false =>
      Good V false 0 /\ pstb 0 P = 0 /\ S = ST V ++ escm_tok (lex P) /\ D = DE V ++ escm_tok (lex P)
    | MRaw, false => Good (V ++ P) false 0 /\ S = ST (V ++ P) /\ D = DE (V ++ P)
    | _, true => False
    end.

Lemma InvC_InvP b S D : InvC b S D -> InvP b.
Proof.
  intros (V & P & Hb & Hv & H). exists V, P. split; [exact Hb|]. split; [exact Hv|].
  destruct (bmode b), (markerOpen b); try contradiction; intuition.
Qed.

Lemma InvC_init : InvC init [] [].
Proof.
  exists [], []. cbn. repeat split.
Qed.

Lemma settled_InvC x m : Good x false 0 -> InvC (mkBuf x (length x) m false) (ST x) (DE x).
Proof.
  intros H. exists x, []. cbn [buf validUntil bmode markerOpen].
  rewrite app_nil_r. split; [reflexivity|]. split; [reflexivity|].
  destruct m.
  - auto.
  - cbn [lex escm_tok map]. rewrite !app_nil_r. auto.
  - auto.
Qed.

Theorem finalize_content b S D :
  InvC b S D -> tail_ok b = true ->
  exists x, finalize b = mkBuf x (length x) (bmode b) false /\ Good x false 0 /\ S = ST x /\ D = DE x.
Proof.
  destruct b as [bf vu m o]. intros (V & P & Hb & Hv & H) Ht.
  cbn [buf validUntil bmode markerOpen] in *. subst bf vu.
  unfold tail_ok in Ht. cbn [bmode buf] in Ht.
  destruct m, o; try contradiction.
  - (* unsafe, open *)
    destruct H as (Hg & Hp & -> & ->). apply negb_true_iff in Ht.
    pose proof (esc_toks_inv true P V 0 Hg (nojoin_0 P)) as Hx. rewrite Hp in Hx.
    destruct (esc_toks_content true P V 0 Hg (nojoin_0 P)) as [C1 C2].
    unfold finalize, escape_to_end. cbn [bmode buf validUntil mode_eqb].
    rewrite escape_spec, (esc_spec_nodangle _ _ _ Ht).
    revert Hx C1 C2. generalize (esc_toks true V (lex P)). intros x Hx C1 C2.
    unfold set_valid, set_buf; cbn [buf validUntil bmode markerOpen].
    rewrite end_redactable_open by (eapply good_nonempty; exact Hx).
    cbn [buf validUntil bmode markerOpen].
    destruct (close_content x Hx) as [K1 K2].
    exists (close_or_elide x). split; [reflexivity|]. split; [now apply close_good|].
    rewrite K1, K2, C1, C2. auto.
  - (* unsafe, closed *)
    destruct H as (-> & Hg & -> & ->). apply negb_true_iff in Ht.
    unfold finalize, escape_to_end. cbn [bmode buf validUntil mode_eqb].
    rewrite escape_spec, (esc_spec_nodangle _ _ _ Ht). cbn [lex esc_toks].
    unfold set_valid, set_buf; cbn [buf validUntil bmode markerOpen].
    exists V. rewrite ?app_nil_r. auto.
  - (* safe *)
    destruct H as (Hg & Hp & -> & ->). apply negb_true_iff in Ht.
    pose proof (esc_toks_inv false P V 0 Hg (nojoin_0 P)) as Hx. rewrite Hp in Hx.
    destruct (esc_toks_content false P V 0 Hg (nojoin_0 P)) as [C1 C2].
    unfold finalize, escape_to_end. cbn [bmode buf validUntil mode_eqb].
    rewrite escape_spec, (esc_spec_nodangle _ _ _ Ht).
    revert Hx C1 C2. generalize (esc_toks false V (lex P)). intros x Hx C1 C2.
    unfold set_valid, set_buf; cbn [buf validUntil bmode markerOpen].
    exists x. rewrite C1, C2. auto.
  - (* raw *)
    destruct H as (Hg & -> & ->).
    unfold finalize, set_valid. cbn [bmode buf validUntil markerOpen].
    exists (V ++ P). auto.
Qed.

Lemma pstb_app0 a b : pstb 0 a = 0 -> pstb 0 (a ++ b) = pstb 0 b.
Proof. intros H. rewrite pstb_app, H. reflexivity. Qed.

Lemma lex_app0 a b : pstb 0 a = 0 -> lex (a ++ b) = lex a ++ lex b.
Proof. intros H. apply (lex_app_st a 0). rewrite H. apply nojoin_0. Qed.

Ltac sp := repeat match goal with |- _ /\ _ => split end; try assumption; try reflexivity.

Theorem write_content b S D p :
  InvC b S D -> (bmode b = MRaw -> raw_payload_ok p = true) -> pstb 0 p = 0 ->
  InvC (write b p) (S ++ strip_contrib (bmode b) p) (D ++ safe_contrib (bmode b) p).
Proof.
  destruct b as [bf vu m o]. intros (V & P & Hb & Hv & H) Hraw Hp.
  cbn [buf validUntil bmode markerOpen] in *. subst bf vu.
  unfold write, start_write. cbn [bmode markerOpen].
  destruct m, o; try contradiction; cbn [mode_eqb negb andb strip_contrib safe_contrib].
  - destruct H as (Hg & HP & -> & ->).
    exists V, (P ++ p). unfold set_buf. cbn [buf validUntil bmode markerOpen].
    rewrite app_assoc. split; [reflexivity|]. split; [reflexivity|].
    rewrite (lex_app0 _ _ HP), escm_tok_app, lf_toks_app, (pstb_app0 _ _ HP), !app_assoc. sp.
  - destruct H as (-> & Hg & -> & ->). rewrite app_nil_r in *.
    unfold start_redactable, set_valid, set_open, set_buf.
    cbn [buf validUntil bmode markerOpen].
    pose proof (open_good V Hg) as Hx. destruct (open_content V Hg) as [O1 O2]. cbn zeta in O1, O2.
    revert Hx O1 O2.
    generalize (if has_suffix V endB then drop_last 3 V else V ++ startB). intros x Hx O1 O2.
    exists x, p. cbn [buf validUntil bmode markerOpen]. rewrite O1, O2. sp.
  - destruct H as (Hg & HP & -> & ->).
    exists V, (P ++ p). unfold set_buf. cbn [buf validUntil bmode markerOpen].
    rewrite app_assoc. split; [reflexivity|]. split; [reflexivity|].
    rewrite (lex_app0 _ _ HP), !escm_tok_app, (pstb_app0 _ _ HP), !app_assoc. sp.
  - destruct H as (Hg & -> & ->).
    exists V, (P ++ p). unfold set_buf. cbn [buf validUntil bmode markerOpen].
    rewrite app_assoc. split; [reflexivity|]. split; [reflexivity|].
    destruct (raw_payload_good p (Hraw eq_refl)) as (Hw & Hm & Hl).
    split; [eapply good_app; [exact Hg | apply nojoin_0 | exact Hw | exact Hm | exact Hl]|].
    rewrite (ST_app _ _ _ _ Hg (nojoin_0 p)), (DE_app _ _ _ _ Hg (nojoin_0 p)). sp.
Qed.

Theorem set_mode_content b S D m :
  InvC b S D -> content_op_ok b (OMode m) = true -> InvC (set_mode b m) S D.
Proof.
  intros H Hc. destruct (mode_eqb (bmode b) m) eqn:E.
  - unfold set_mode. rewrite E. exact H.
  - rewrite set_mode_finalize by exact E.
    cbn [content_op_ok] in Hc. rewrite E in Hc. cbn [orb] in Hc.
    destruct (finalize_content b S D H Hc) as (x & -> & Hx & -> & ->).
    unfold set_mode_field. cbn [buf validUntil bmode markerOpen].
    now apply settled_InvC.
Qed.

(* the accumulators after one call *)
Definition acc_step (f : mode -> bytes -> list tok) (b : buffer) (acc : list tok) (o : op) : list tok :=
  match o with
  | OMode _ => acc
  | OTake | OReset => []
  | _ => match payload_of (bmode b) o with Some p => acc ++ f (bmode b) p | None => acc end
  end.

Theorem step_content b S D o :
  InvC b S D -> op_ok b o = true -> content_op_ok b o = true ->
  InvC (fst (step b o)) (acc_step strip_contrib b S o) (acc_step safe_contrib b D o).
Proof.
  intros H Hok Hc.
  destruct o; cbn [step fst acc_step payload_of]; try exact H.
  - now apply set_mode_content.
  - apply write_content; [exact H| |].
    + intros Hm. unfold op_ok in Hok. now rewrite Hm in Hok.
    + cbn [content_op_ok payload_of] in Hc. now apply N.eqb_eq in Hc.
  - rewrite write_byte_write. apply write_content; [exact H| |].
    + intros Hm. unfold op_ok in Hok. rewrite Hm in *. exact Hok.
    + cbn [content_op_ok payload_of] in Hc. now apply N.eqb_eq in Hc.
  - unfold write_rune. fold (write b (encode_rune r)). apply write_content; [exact H| |].
    + intros Hm. unfold op_ok in Hok. now rewrite Hm in Hok.
    + cbn [content_op_ok payload_of] in Hc. now apply N.eqb_eq in Hc.
  - unfold take. cbn [fst]. cbn [content_op_ok] in Hc.
    destruct (finalize_content b S D H Hc) as (x & -> & Hx & _ & _). cbn [markerOpen].
    exact InvC_init.
  - exact InvC_init.
Qed.

Lemma step_mode b o :
  bmode (fst (step b o)) =
  match o with OMode m' => m' | OTake | OReset => MUnsafe | _ => bmode b end.
Proof.
  destruct o; cbn [step fst]; try reflexivity.
  - unfold set_mode. destruct (mode_eqb (bmode b) m) eqn:E.
    + destruct (bmode b), m; try discriminate; reflexivity.
    + reflexivity.
  - unfold write. cbn. apply start_write_mode.
  - rewrite write_byte_write. unfold write. cbn. apply start_write_mode.
  - unfold write_rune. cbn. apply start_write_mode.
Qed.

Lemma spec_from_step f b acc o r :
  spec_from f (bmode b) acc (o :: r) =
  spec_from f (bmode (fst (step b o))) (acc_step f b acc o) r.
Proof.
  rewrite step_mode. destruct o; cbn [spec_from acc_step payload_of]; reflexivity.
Qed.

Theorem run_content ops : forall b S D,
  InvC b S D -> rawok_from b ops = true -> content_ok_from b ops = true ->
  ST (buf (finalize (run_from b ops))) = spec_from strip_contrib (bmode b) S ops /\
  DE (buf (finalize (run_from b ops))) = spec_from safe_contrib (bmode b) D ops.
Proof.
  induction ops as [|o ops IH]; intros b S D H Hr Hc.
  - cbn [content_ok_from] in Hc. cbn [run_from fold_left spec_from].
    destruct (finalize_content b S D H Hc) as (x & -> & _ & -> & ->). cbn [buf]. auto.
  - cbn [rawok_from content_ok_from] in Hr, Hc.
    apply andb_true_iff in Hr. destruct Hr as [Hr1 Hr2].
    apply andb_true_iff in Hc. destruct Hc as [Hc1 Hc2].
    rewrite !spec_from_step. unfold run_from. cbn [fold_left].
    apply IH; [|exact Hr2|exact Hc2].
    now apply step_content.
Qed.

(* For every history: with markers stripped, the output is the payloads in call
   order with their markers replaced; with envelopes deleted, it is the safe
   payloads and the line feeds of the unsafe ones. *)
Theorem output_content ops :
  rawok ops = true -> content_ok ops = true ->
  strip_tok (lex (output ops)) = spec_strip ops /\ del_env (lex (output ops)) = spec_safe ops.
Proof.
  intros Hr Hc. exact (run_content ops init [] [] InvC_init Hr Hc).
Qed.

Print Assumptions output_content.

(* ---------- further consequences ---------- *)

(* line feeds are single bytes that never take part in a marker *)
Lemma lf_toks_lex s : lf_toks (lex s) = map TB (filter (fun c => c =? LF) s).
Proof.
  induction s as [| r IH | r IH | c r Hm IH] using lex_ind3.
  - reflexivity.
  - rewrite lex_start. cbn [lf_toks filter]. fold (lf_toks (lex r)). rewrite IH. reflexivity.
  - rewrite lex_end. cbn [lf_toks filter]. fold (lf_toks (lex r)). rewrite IH. reflexivity.
  - rewrite lex_byte by assumption. cbn [lf_toks filter]. fold (lf_toks (lex r)). rewrite IH.
    destruct (c =? LF); reflexivity.
Qed.

(* the public view of a history: an unsafe-mode payload is reduced to its line feeds *)
Definition next_mode (m : mode) (o : op) : mode :=
  match o with OMode m' => m' | OTake | OReset => MUnsafe | _ => m end.

Fixpoint pub (m : mode) (ops : list op) : list op :=
  match ops with
  | [] => []
  | o :: r =>
    (match m, payload_of m o with
     | MUnsafe, Some p => OWrite (filter (fun c => c =? LF) p)
     | _, _ => o
     end) :: pub (next_mode m o) r
  end.

Lemma filter_lf_idem (p : bytes) :
  filter (fun c => c =? LF) (filter (fun c => c =? LF) p) = filter (fun c => c =? LF) p.
Proof.
  induction p as [|c r IH]; [reflexivity|]. cbn [filter].
  destruct (c =? LF) eqn:E; [cbn [filter]; rewrite E, IH; reflexivity | exact IH].
Qed.

Theorem spec_safe_pub ops : forall m acc,
  spec_from safe_contrib m acc (pub m ops) = spec_from safe_contrib m acc ops.
Proof.
  induction ops as [|o r IH]; intros m acc; [reflexivity|].
  cbn [pub]. destruct m.
  - (* unsafe mode *)
    destruct (payload_of MUnsafe o) as [p|] eqn:E.
    + assert (spec_from safe_contrib MUnsafe acc (o :: r) =
              spec_from safe_contrib MUnsafe (acc ++ lf_toks (lex p)) r) as ->.
      { destruct o; cbn [payload_of] in E; try discriminate; cbn [spec_from payload_of];
          injection E as <-; reflexivity. }
      assert (next_mode MUnsafe o = MUnsafe) as ->.
      { destruct o; cbn [payload_of] in E; try discriminate; reflexivity. }
      cbn [spec_from payload_of safe_contrib]. rewrite IH.
      rewrite !lf_toks_lex, filter_lf_idem. reflexivity.
    + destruct o; cbn [payload_of] in E; try discriminate; cbn [spec_from next_mode payload_of]; apply IH.
  - destruct o; cbn [spec_from next_mode payload_of]; rewrite IH; reflexivity.
  - destruct o; cbn [spec_from next_mode payload_of]; rewrite IH; reflexivity.
Qed.

(* Two histories with the same public view have the same text outside envelopes. *)
Theorem safe_text_noninterference ops1 ops2 :
  pub MUnsafe ops1 = pub MUnsafe ops2 ->
  rawok ops1 = true -> content_ok ops1 = true -> rawok ops2 = true -> content_ok ops2 = true ->
  del_env (lex (output ops1)) = del_env (lex (output ops2)).
Proof.
  intros Hp R1 C1 R2 C2.
  rewrite (proj2 (output_content ops1 R1 C1)), (proj2 (output_content ops2 R2 C2)).
  unfold spec_safe. rewrite <- (spec_safe_pub ops1), <- (spec_safe_pub ops2), Hp. reflexivity.
Qed.

(* writes made in the same mode concatenate: how a payload is split over calls is immaterial *)
Theorem write_split b p1 p2 : write (write b p1) p2 = write b (p1 ++ p2).
Proof.
  destruct b as [bf vu m o]. unfold write, start_write.
  destruct m, o; cbn [bmode markerOpen mode_eqb negb andb set_buf buf validUntil start_redactable set_valid set_open];
    rewrite ?app_assoc; reflexivity.
Qed.

(* raw mode neither escapes nor envelopes: printing a redactable copies it *)
Theorem raw_copy r :
  last_invalid r = false ->
  output [OMode MSafe; OMode MRaw; OWrite r; OMode MSafe] = r.
Proof.
  intros H. unfold output, run, run_from. cbn [fold_left step fst].
  change (set_mode init MSafe) with (mkBuf [] 0 MSafe false).
  change (set_mode (mkBuf [] 0 MSafe false) MRaw) with (mkBuf [] 0 MRaw false).
  change (write (mkBuf [] 0 MRaw false) r) with (mkBuf r 0 MRaw false).
  change (set_mode (mkBuf r 0 MRaw false) MSafe) with (mkBuf r (length r) MSafe false).
  unfold redactable_bytes, finalize, escape_to_end. cbn [bmode buf validUntil mode_eqb markerOpen set_valid set_buf].
  replace r with (r ++ []) at 1 by apply app_nil_r.
  rewrite (escape_spec false r []). unfold esc_spec. rewrite app_nil_r, H. cbn [lex esc_toks]. apply app_nil_r.
Qed.

Print Assumptions safe_text_noninterference.
Print Assumptions raw_copy.
