(* Layer 4: what follows from "the printer touches its buffer only through
   Buffer methods" (LBuf) and the Buffer invariant. *)
From Redact Require Import Bytes Tokens Buffer Ops BufInv LBuf Printer Api BufferThm.
Import List ListNotations.

(* Whatever the evaluator did — whatever the format, the operands, the user
   scripts, panics caught on the way — the bytes handed out by finish are the
   result of Take on [run log]. *)
Lemma finish_spec {A} (r : res A * pst) (o : outp) :
  finish r = ROk o ->
  exists ops, o_log o = ops ++ [OTake] /\ snd (step (run ops) OTake) = ObR (o_bytes o).
Proof.
  destruct r as [[a|v| |] s]; cbn [finish]; try discriminate.
  destruct (l_step (pl s) OTake) as [l ob] eqn:E.
  intros H. injection H as <-. cbn [o_log o_bytes].
  unfold l_step in E. injection E as <- <-.
  exists (rev (rlog (pl s))). split.
  - unfold llog. reflexivity.
  - rewrite <- (lok (pl s)). reflexivity.
Qed.

Theorem finish_redactable {A} (r : res A * pst) (o : outp) :
  finish r = ROk o -> rawok (o_log o) = true ->
  Redactable (o_bytes o) /\ linesafe (lex (o_bytes o)) = true.
Proof.
  intros H Hr. destruct (finish_spec r o H) as (ops & Hl & Hs).
  rewrite Hl in Hr.
  exact (buffer_observations_ok ops OTake (o_bytes o) Hr (or_intror (or_intror eq_refl)) Hs).
Qed.

Theorem sprint_redactable fuel env a o :
  sprint fuel env a = ROk o -> rawok (o_log o) = true ->
  Redactable (o_bytes o) /\ linesafe (lex (o_bytes o)) = true.
Proof. apply finish_redactable. Qed.
Theorem sprintf_redactable fuel env f a o :
  sprintf fuel env f a = ROk o -> rawok (o_log o) = true ->
  Redactable (o_bytes o) /\ linesafe (lex (o_bytes o)) = true.
Proof. apply finish_redactable. Qed.
Theorem errorf_redactable fuel env f a o :
  errorf fuel env f a = ROk o -> rawok (o_log o) = true ->
  Redactable (o_bytes o) /\ linesafe (lex (o_bytes o)) = true.
Proof. apply finish_redactable. Qed.
Theorem sprintfn_redactable fuel env acts o :
  sprintfn fuel env acts = ROk o -> rawok (o_log o) = true ->
  Redactable (o_bytes o) /\ linesafe (lex (o_bytes o)) = true.
Proof. apply finish_redactable. Qed.

Theorem builder_redactable fuel env acts o :
  builder fuel env acts = ROk o -> rawok (o_log o) = true ->
  Redactable (o_bytes o) /\ linesafe (lex (o_bytes o)) = true.
Proof.
  unfold builder. destruct (builder_run fuel env l_init acts) as [l|v| |]; cbn [res_bind]; try discriminate.
  intros H Hr. injection H as <-. cbn [o_bytes o_log] in *.
  rewrite (lok l). exact (buffer_output_ok _ Hr).
Qed.

(* ---------- content: the text of an output is the text of its writes ---------- *)
From Redact Require Import BufContent BufContentP.

Lemma finish_output {A} (r : res A * pst) (o : outp) :
  finish r = ROk o -> exists ops, o_log o = ops ++ [OTake] /\ o_bytes o = output ops.
Proof.
  intros H. destruct (finish_spec r o H) as (ops & Hl & Hs). exists ops. split; [exact Hl|].
  cbn [step] in Hs. unfold take in Hs. cbn [snd] in Hs. injection Hs as Hs. symmetry. exact Hs.
Qed.

(* Whatever the evaluator did: with markers stripped the returned bytes are the
   payloads of the Buffer writes it made, in order, with markers replaced; with
   envelopes deleted they are the payloads written in safe mode plus the line
   feeds of those written in unsafe mode.  (Mode switches add or remove marker
   bytes only.) *)
Theorem finish_content {A} (r : res A * pst) (o : outp) :
  finish r = ROk o ->
  exists ops, o_log o = ops ++ [OTake] /\
    (rawok ops = true -> content_ok ops = true ->
     strip_tok (lex (o_bytes o)) = spec_strip ops /\ del_env (lex (o_bytes o)) = spec_safe ops).
Proof.
  intros H. destruct (finish_output r o H) as (ops & Hl & Hb). exists ops. split; [exact Hl|].
  intros Hr Hc. rewrite Hb. now apply output_content.
Qed.

Theorem builder_content fuel env acts o :
  builder fuel env acts = ROk o ->
  rawok (o_log o) = true -> content_ok (o_log o) = true ->
  strip_tok (lex (o_bytes o)) = spec_strip (o_log o) /\ del_env (lex (o_bytes o)) = spec_safe (o_log o).
Proof.
  unfold builder. destruct (builder_run fuel env l_init acts) as [l|v| |w]; cbn [res_bind]; try discriminate.
  intros H Hr Hc. injection H as <-. cbn [o_bytes o_log] in *.
  rewrite (lok l). now apply output_content.
Qed.
