(* Extraction of the executable model.  ExtrOcamlBasic only: bool, option,
   list, prod, unit, sumbool map to OCaml natives; N/Z/positive/nat stay Coq
   datatypes.  No Extract Constant / Extract Inductive of our own. *)
From Redact Require Import Bytes Tokens Utf8 Markers Escape EscSpec Buffer Ops BufInv BufMem Fmt OSane Value LBuf Printer Api Forward.
Require Extraction.
Require Import ExtrOcamlBasic.
Extraction Language OCaml.
Extraction "model.ml"
  lex unlex wf linesafe closedb redactableb no_marker strip_tok del_env norm n_env
  redact_b strip_b escape_markers_b del_env_b
  decode_rune decode_last_rune last_invalid valid_rune rune_len encode_rune rune_count valid_utf8
  escape escape_full escape_bytes esc_spec
  init set_mode write write_byte write_rune_v0 finalize redactable_bytes string_of len_of take reset write_rune step run output invb goodv op_ok rawok raw_payload_ok mcl mcl_st wf_st sprint sprintf errorf sprintfn builder join jointo_acts make_format parse_directive osaneb cstep cinit cabs ccap Z.add Z.mul Z.opp.
