(* util.go Join / JoinTo on the model: joining redactables through a StringBuilder is
   concatenation with the delimiter, for any number of elements, end to end through the
   evaluator (each element and each delimiter is a Print call on a fresh printer whose result
   the builder inlines in raw mode). *)
From Redact Require Import Bytes Tokens Utf8 Escape Buffer Ops BufInv Fmt Value LBuf Printer Api Forward.
From Redact Require Import BufInvP BufContentP ComposeP ApiP RoutesP.
Import List ListNotations.
Open Scope Z_scope.

(* strings.Join on byte strings *)
Fixpoint intercalate (d : bytes) (rs : list bytes) : bytes :=
  match rs with
  | [] => []
  | r :: rest => match rest with [] => r | _ => r ++ d ++ intercalate d rest end
  end.

(* the builder's own buffer: untouched, or in raw mode holding x with no envelope open *)
Definition rawbuf (b : buffer) (x : bytes) : Prop :=
  (b = init /\ x = []) \/ (buf b = x /\ bmode b = MRaw /\ markerOpen b = false).

Lemma rawbuf_init : rawbuf init [].
Proof. left. split; reflexivity. Qed.

Lemma rawbuf_write b x r : rawbuf b x -> rawbuf (write (set_mode b MRaw) r) (x ++ r).
Proof.
  intros [[-> ->] | (Hb & Hm & Ho)]; right.
  - vm_compute. repeat split.
  - unfold set_mode. rewrite Hm. cbn [mode_eqb]. unfold write, start_write. rewrite Hm. cbn [mode_eqb andb].
    cbn [set_buf buf bmode markerOpen]. rewrite Hb. repeat split; assumption.
Qed.

Lemma rawbuf_output b x : rawbuf b x -> redactable_bytes b = x.
Proof.
  intros [[-> ->] | (Hb & Hm & Ho)].
  - reflexivity.
  - unfold redactable_bytes, finalize. rewrite Hm. cbn [set_valid markerOpen buf]. rewrite Ho. exact Hb.
Qed.

(* one Print(r) of a redactable on the builder appends r *)
Lemma builder_step_print_rs k env l x r : last_invalid r = false -> rawbuf (lb l) x ->
  exists l', builder_step (S (S k)) env l (APrint [VRS r]) = ROk l' /\ rawbuf (lb l') (x ++ r).
Proof.
  intros Hr Hx. destruct (sprint_rs_log k env r) as (o' & E & L).
  assert (o_bytes o' = r) as Hb by (apply (sprint_redactable_identity k env r o' Hr); now left).
  unfold builder_step. rewrite E. cbn [res_bind]. eexists. split; [reflexivity|].
  cbn [l_step fst lb step]. rewrite Hb. now apply rawbuf_write.
Qed.

Lemma builder_run_join k env d : last_invalid d = false -> forall rs l x first,
  Forall (fun r => last_invalid r = false) rs -> rawbuf (lb l) x ->
  exists l', builder_run (S (S k)) env l (join_acts d first (map VRS rs)) = ROk l' /\
    rawbuf (lb l') (x ++ (match rs with [] => [] | _ => if first then [] else d end) ++ intercalate d rs).
Proof.
  intros Hd rs. induction rs as [|r rest IH]; intros l x first Hall Hx.
  - exists l. split; [reflexivity|]. cbn. now rewrite app_nil_r.
  - inversion Hall as [|? ? Hr Hrest]; subst.
    assert (exists l1, builder_run (S (S k)) env l (if first then [] else [APrint [VRS d]]) = ROk l1 /\
                       rawbuf (lb l1) (x ++ (if first then [] else d))) as (l1 & E1 & H1).
    { destruct first.
      - exists l. split; [reflexivity | now rewrite app_nil_r].
      - destruct (builder_step_print_rs k env l x d Hd Hx) as (l1 & E & H).
        exists l1. split; [|exact H]. cbn [builder_run]. rewrite E. reflexivity. }
    destruct (builder_step_print_rs k env l1 _ r Hr H1) as (l2 & E2 & H2).
    destruct (IH l2 _ false Hrest H2) as (l3 & E3 & H3).
    exists l3. split.
    + cbn [map join_acts].
      assert (forall a b l0, builder_run (S (S k)) env l0 (a ++ b) =
                             res_bind (builder_run (S (S k)) env l0 a) (fun l' => builder_run (S (S k)) env l' b)) as Happ.
      { induction a as [|a0 a IHa]; intros b l0; cbn [app builder_run res_bind]; [reflexivity|].
        destruct (builder_step (S (S k)) env l0 a0); cbn [res_bind]; [apply IHa | reflexivity ..]. }
      rewrite Happ, E1. cbn [res_bind builder_run]. rewrite E2. cbn [res_bind]. exact E3.
    + match goal with H : rawbuf _ ?a |- rawbuf _ ?b => replace b with a; [exact H|] end.
      destruct rest as [|r2 rest'].
      * cbn [intercalate app]. now rewrite <- !app_assoc, !app_nil_r.
      * cbn [intercalate app]. now rewrite <- !app_assoc.
Qed.

(* Join(delim, rs) = rs[0] ++ delim ++ rs[1] ++ ... for every delimiter and every list of
   redactables whose last rune is valid (the hypothesis of the raw-copy theorem) *)
Theorem join_is_concatenation k env d rs o : last_invalid d = false ->
  Forall (fun r => last_invalid r = false) rs ->
  join (S (S k)) env d rs = ROk o -> o_bytes o = intercalate d rs.
Proof.
  intros Hd Hall H. unfold join, builder in H.
  destruct (builder_run_join k env d Hd rs l_init [] true Hall rawbuf_init) as (l' & E & Hx).
  rewrite E in H. cbn [res_bind] in H. injection H as <-. cbn [o_bytes].
  rewrite (rawbuf_output _ _ Hx). destruct rs; reflexivity.
Qed.

(* ... and it never fails or runs out of fuel *)
Theorem join_total k env d rs : last_invalid d = false -> Forall (fun r => last_invalid r = false) rs ->
  exists o, join (S (S k)) env d rs = ROk o.
Proof.
  intros Hd Hall. unfold join, builder.
  destruct (builder_run_join k env d Hd rs l_init [] true Hall rawbuf_init) as (l' & E & _).
  rewrite E. eexists. reflexivity.
Qed.

(* joining is associative with re-printing: Join of Joins is the Join of the flattened list when
   the delimiter is the same - a corollary on byte strings *)
Lemma intercalate_app d a b : a <> [] -> b <> [] ->
  intercalate d (a ++ b) = intercalate d a ++ d ++ intercalate d b.
Proof.
  intros Ha Hb. induction a as [|x a IH]; [contradiction|].
  destruct a as [|y a].
  - cbn [app intercalate]. destruct b; [contradiction | reflexivity].
  - change ((x :: y :: a) ++ b) with (x :: (y :: a) ++ b).
    cbn [intercalate]. cbn [app]. rewrite <- !app_assoc. f_equal. f_equal.
    apply IH. discriminate.
Qed.

(* the joined text is again a well-formed, line-safe redactable, its redaction is the join of the
   redactions and its stripped form the join of the stripped forms *)
Lemma good_nil : Good [] false 0.
Proof. apply good_redactable. vm_compute. split; reflexivity. Qed.

Theorem join_good d rs : Good d false 0 -> Forall (fun r => Good r false 0) rs -> Good (intercalate d rs) false 0.
Proof.
  intros Hd. induction rs as [|r rest IH]; intros Hall.
  - exact good_nil.
  - inversion Hall as [|? ? Hr Hrest]; subst. cbn [intercalate]. destruct rest as [|r2 rest'].
    + exact Hr.
    + apply concat_good; [exact Hr|]. apply concat_good; [exact Hd|]. now apply IH.
Qed.

Theorem join_redact_strip d rs : Good d false 0 -> Forall (fun r => Good r false 0) rs ->
  redact_b (intercalate d rs) = intercalate (redact_b d) (map redact_b rs) /\
  strip_b (intercalate d rs) = intercalate (strip_b d) (map strip_b rs).
Proof.
  intros Hd. induction rs as [|r rest IH]; intros Hall.
  - split; reflexivity.
  - inversion Hall as [|? ? Hr Hrest]; subst. cbn [intercalate map]. destruct rest as [|r2 rest'].
    + split; reflexivity.
    + destruct (IH Hrest) as [I1 I2]. set (tl := r2 :: rest') in *.
      assert (Good (intercalate d tl) false 0) as Ht by now apply join_good.
      assert (Good (d ++ intercalate d tl) false 0) as Hdt by now apply concat_good.
      cbn [map] in *. fold tl in I1, I2. split.
      * change (map redact_b tl) with (redact_b r2 :: map redact_b rest') in I1.
        rewrite (concat_redact r _ Hr (proj1 (good_output _ Hdt))), (concat_redact d _ Hd (proj1 (good_output _ Ht))), I1. reflexivity.
      * change (map strip_b tl) with (strip_b r2 :: map strip_b rest') in I2.
        rewrite (concat_strip r _ Hr), (concat_strip d _ Hd), I2. reflexivity.
Qed.

(* ---------- JoinTo over slices whose elements are RedactableString or RedactableBytes, mixed ---------- *)
Definition redv (v : value) : option bytes :=
  match v with VRS r | VRB r => Some r | _ => None end.
Definition redv_ok (v : value) : Prop := exists r, redv v = Some r /\ last_invalid r = false.
Definition payload (v : value) : bytes := match redv v with Some r => r | None => [] end.

Lemma builder_step_print_red k env l x v : redv_ok v -> rawbuf (lb l) x ->
  exists l', builder_step (S (S k)) env l (APrint [v]) = ROk l' /\ rawbuf (lb l') (x ++ payload v).
Proof.
  intros (r & Hv & Hr) Hx. unfold payload. rewrite Hv.
  destruct v; try discriminate; injection Hv as ->.
  - now apply builder_step_print_rs.
  - destruct (sprint_rb_log k env r) as (o' & E & L).
    assert (o_bytes o' = r) as Hb by (apply (sprint_redactable_identity k env r o' Hr); now right).
    unfold builder_step. rewrite E. cbn [res_bind]. eexists. split; [reflexivity|].
    cbn [l_step fst lb step]. rewrite Hb. now apply rawbuf_write.
Qed.

Lemma builder_run_app k env a : forall b l0, builder_run (S (S k)) env l0 (a ++ b) =
  res_bind (builder_run (S (S k)) env l0 a) (fun l' => builder_run (S (S k)) env l' b).
Proof.
  induction a as [|a0 a IHa]; intros b l0; cbn [app builder_run res_bind]; [reflexivity|].
  destruct (builder_step (S (S k)) env l0 a0); cbn [res_bind]; [apply IHa | reflexivity ..].
Qed.

Lemma builder_run_joinv k env d : last_invalid d = false -> forall vs l x first,
  Forall redv_ok vs -> rawbuf (lb l) x ->
  exists l', builder_run (S (S k)) env l (join_acts d first vs) = ROk l' /\
    rawbuf (lb l') (x ++ (match vs with [] => [] | _ => if first then [] else d end) ++ intercalate d (map payload vs)).
Proof.
  intros Hd vs. induction vs as [|v rest IH]; intros l x first Hall Hx.
  - exists l. split; [reflexivity|]. cbn. now rewrite app_nil_r.
  - inversion Hall as [|? ? Hv Hrest]; subst.
    assert (exists l1, builder_run (S (S k)) env l (if first then [] else [APrint [VRS d]]) = ROk l1 /\
                       rawbuf (lb l1) (x ++ (if first then [] else d))) as (l1 & E1 & H1).
    { destruct first.
      - exists l. split; [reflexivity | now rewrite app_nil_r].
      - destruct (builder_step_print_rs k env l x d Hd Hx) as (l1 & E & H).
        exists l1. split; [|exact H]. cbn [builder_run]. rewrite E. reflexivity. }
    destruct (builder_step_print_red k env l1 _ v Hv H1) as (l2 & E2 & H2).
    destruct (IH l2 _ false Hrest H2) as (l3 & E3 & H3).
    exists l3. split.
    + cbn [join_acts]. rewrite builder_run_app, E1. cbn [res_bind builder_run]. rewrite E2. cbn [res_bind]. exact E3.
    + match goal with H : rawbuf _ ?a |- rawbuf _ ?b => replace b with a; [exact H|] end.
      destruct rest as [|r2 rest'].
      * cbn [intercalate app map]. now rewrite <- !app_assoc, !app_nil_r.
      * cbn [intercalate app map]. now rewrite <- !app_assoc.
Qed.

(* JoinTo(&builder, delim, []T) for T = RedactableString, RedactableBytes or interface{} holding
   either: the concatenation of the elements with the delimiter *)
Theorem jointo_is_concatenation k env d tn tl es o : last_invalid d = false ->
  let vs := map (fun e => match e with VIface _ (Some x) => x | VIface _ None => VNil | x => x end) es in
  Forall redv_ok vs ->
  builder (S (S k)) env (jointo_acts d (VSlice tn tl es)) = ROk o -> o_bytes o = intercalate d (map payload vs).
Proof.
  intros Hd vs Hall H. unfold builder, jointo_acts in H. fold vs in H.
  destruct (builder_run_joinv k env d Hd vs l_init [] true Hall rawbuf_init) as (l' & E & Hx).
  rewrite E in H. cbn [res_bind] in H. injection H as <-. cbn [o_bytes].
  rewrite (rawbuf_output _ _ Hx). destruct vs; reflexivity.
Qed.
