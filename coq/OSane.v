(* The hypothesis of the non-interference theorem about the strconv oracle tables, as a boolean
   that the correspondence driver evaluates on the tables of every case: quoting and float
   texts are not empty and contain no line feed; a string that strconv.CanBackquote accepts
   contains no line feed; strconv.IsPrint rejects the line feed. *)
From Redact Require Export Fmt.
Import List ListNotations.
Open Scope Z_scope.

Definition lf_freeb (p : bytes) : bool := forallb (fun c => negb (c =? LF)%N) p.

Definition osane_entry (e : okey * bytes) : bool :=
  let '(k, v) := e in
  match v with [] => false | _ => true end && lf_freeb v &&
  match k with
  | KBackquote s => if beq v [49%N] then lf_freeb s else true
  | KIsPrint u => if beq v [49%N] then negb (u =? 10) else true
  | _ => true
  end.

Definition osaneb (o : oracle) : bool := forallb osane_entry o.
