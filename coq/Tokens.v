(* Layer 0: token view of a byte string.  Model definitions only. *)
From Redact Require Export Bytes.
Open Scope N_scope.

Inductive tok := TS | TE | TB (b : N).

Definition tok_eqb (x y : tok) : bool :=
  match x, y with
  | TS, TS => true | TE, TE => true
  | TB a, TB b => a =? b
  | _, _ => false
  end.

(* Byte-level scan with three bytes of look-ahead: exactly the offsets at
   which bytes.Equal(b[i:i+3], marker) holds when scanning left to right and
   skipping a recognised marker. *)
Fixpoint lex (s : bytes) : list tok :=
  match s with
  | [] => []
  | a :: r =>
    match r with
    | b :: c :: r' =>
      if is_start3 a b c then TS :: lex r'
      else if is_end3 a b c then TE :: lex r'
      else TB a :: lex r
    | _ => TB a :: lex r
    end
  end.

Definition unlex_tok (t : tok) : bytes :=
  match t with TS => startB | TE => endB | TB b => [b] end.

Fixpoint unlex (ts : list tok) : bytes :=
  match ts with [] => [] | t :: r => unlex_tok t ++ unlex r end.

Definition is_marker (t : tok) : bool :=
  match t with TB _ => false | _ => true end.

(* Strict alternation, starting and ending outside an envelope. *)
Fixpoint wf_aux (opn : bool) (ts : list tok) : bool :=
  match ts with
  | [] => negb opn
  | TS :: r => if opn then false else wf_aux true r
  | TE :: r => if opn then wf_aux false r else false
  | TB _ :: r => wf_aux opn r
  end.
Definition wf (ts : list tok) : bool := wf_aux false ts.

(* No line feed between a TS and its TE. *)
Fixpoint linesafe_aux (opn : bool) (ts : list tok) : bool :=
  match ts with
  | [] => true
  | TS :: r => linesafe_aux true r
  | TE :: r => linesafe_aux false r
  | TB b :: r => if opn && (b =? LF) then false else linesafe_aux opn r
  end.
Definition linesafe (ts : list tok) : bool := linesafe_aux false ts.

Definition no_marker (ts : list tok) : bool := forallb (fun t => negb (is_marker t)) ts.

(* The string does not end with a proper prefix of a marker: nothing that is
   appended later can complete a marker that starts inside it. *)
Fixpoint closedb (s : bytes) : bool :=
  match s with
  | [] => true
  | a :: r =>
    match r with
    | [] => negb (a =? 226)
    | b :: r' =>
      match r' with
      | [] => negb (b =? 226) && negb ((a =? 226) && (b =? 128))
      | _ => closedb r
      end
    end
  end.

(* ---- state-returning scanners (compositional under ++) ---- *)

(* Envelope state after ts, None when the alternation is violated. *)
Fixpoint wf_st (opn : bool) (ts : list tok) : option bool :=
  match ts with
  | [] => Some opn
  | TS :: r => if opn then None else wf_st true r
  | TE :: r => if opn then wf_st false r else None
  | TB _ :: r => wf_st opn r
  end.

(* Partial-marker state of a byte suffix: 0 clean, 1 after E2, 2 after E2 80. *)
Definition pnext (st b : N) : N :=
  if b =? 226 then 1 else if (st =? 1) && (b =? 128) then 2 else 0.
Definition pstb (st : N) (s : bytes) : N := fold_left pnext s st.

Definition next_is_lf (r : list tok) : bool :=
  match r with TB c :: _ => c =? LF | _ => false end.

(* Marker-closedness: every marker is preceded by bytes that do not end with a
   proper marker prefix, except an end marker directly followed by a line feed
   (the one the line splitter inserts).  Returns the partial-marker state at
   the end, None on violation. *)
Fixpoint mcl_st (st : N) (ts : list tok) : option N :=
  match ts with
  | [] => Some st
  | TB b :: r => mcl_st (pnext st b) r
  | TS :: r => if st =? 0 then mcl_st 0 r else None
  | TE :: r => if (st =? 0) || next_is_lf r then mcl_st 0 r else None
  end.
Definition mcl (ts : list tok) : bool :=
  match mcl_st 0 ts with Some 0 => true | _ => false end.

(* "Well-formed redactable string": strict alternation and marker-closedness.
   Every string the library produces has it; raw (pre-redactable) input is
   assumed to have it. *)
Definition redactableb (s : bytes) : bool := wf (lex s) && mcl (lex s).
Definition Redactable (s : bytes) : Prop := redactableb s = true.

(* StripMarkers at token level. *)
Definition strip_tok (ts : list tok) : list tok := filter (fun t => negb (is_marker t)) ts.

(* EscapeMarkers at token level. *)
Definition esc_tok (t : tok) : tok := match t with TB b => TB b | _ => TB 63 end.
Definition escm_tok (ts : list tok) : list tok := map esc_tok ts.

(* Delete every envelope, delimiters included (well-formed input). *)
Fixpoint del_env_aux (opn : bool) (ts : list tok) : list tok :=
  match ts with
  | [] => []
  | TS :: r => del_env_aux true r
  | TE :: r => del_env_aux false r
  | TB b :: r => if opn then del_env_aux opn r else TB b :: del_env_aux opn r
  end.
Definition del_env (ts : list tok) : list tok := del_env_aux false ts.

(* Content of the envelopes only (what del_env removes, without delimiters). *)
Fixpoint env_content_aux (opn : bool) (ts : list tok) : list tok :=
  match ts with
  | [] => []
  | TS :: r => env_content_aux true r
  | TE :: r => env_content_aux false r
  | TB b :: r => if opn then TB b :: env_content_aux opn r else env_content_aux opn r
  end.

Fixpoint n_env (ts : list tok) : nat :=
  match ts with [] => 0%nat | TS :: r => S (n_env r) | _ :: r => n_env r end.

(* Delete every adjacent (TE, TS) pair: "up to merging of adjacent envelopes". *)
Fixpoint norm (ts : list tok) : list tok :=
  match ts with
  | [] => []
  | TE :: r => match r with TS :: r' => norm r' | _ => TE :: norm r end
  | t :: r => t :: norm r
  end.

(* A token list is canonical when no three consecutive byte tokens spell a
   marker (lex never produces such a list). *)
Definition win_ok (t : tok) (r : list tok) : bool :=
  match t, r with
  | TB a, TB b :: TB c :: _ => negb (is_start3 a b c) && negb (is_end3 a b c)
  | _, _ => true
  end.
Fixpoint canonical (ts : list tok) : bool :=
  match ts with
  | [] => true
  | t :: r => win_ok t r && canonical r
  end.
