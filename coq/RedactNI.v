(* Layer 2 proofs: non-interference of Redact at the Buffer level.
   [shape] is the public abstraction of a redactable: the text outside envelopes,
   and for each envelope whether it is closed and whether its body is empty.
   Redact() is a function of the shape; the shape of the output of a Buffer
   history does not change when the unsafe payloads are replaced by others with
   the same skeleton (line feeds at the same places, the stretches between them
   empty or not). *)
From Redact Require Import Bytes Tokens Utf8 Escape EscSpec Markers Buffer Ops BufInv BufContent.
From Redact Require Import TokensP MarkersP EscapeP Utf8P BufInvP BufContentP ComposeP.
Import List ListNotations.
Open Scope N_scope.

Inductive sh := ShB (b : N) | ShEnv (nonempty closed : bool).

(* newest item first *)
Definition sstep (rs : list sh) (t : tok) : list sh :=
  match t with
  | TS => ShEnv false false :: rs
  | TE => match rs with ShEnv ne false :: r => ShEnv ne true :: r | _ => rs end
  | TB b => match rs with ShEnv _ false :: r => ShEnv true false :: r | _ => ShB b :: rs end
  end.
Definition shape_toks (ts : list tok) (rs : list sh) : list sh := fold_left sstep ts rs.
Definition shape (x : bytes) : list sh := shape_toks (lex x) [].

Lemma shape_toks_app a b rs : shape_toks (a ++ b) rs = shape_toks b (shape_toks a rs).
Proof. apply fold_left_app. Qed.

Definition is_open (rs : list sh) : bool :=
  match rs with ShEnv _ false :: _ => true | _ => false end.

(* ---------- Redact() is a function of the shape ---------- *)
Definition render (i : sh) : list tok :=
  match i with
  | ShB b => [TB b]
  | ShEnv _ false => [TS; TB 195; TB 151]
  | ShEnv _ true => [TS; TB 195; TB 151; TE]
  end.
Definition render_rev (rs : list sh) : list tok := concat (map render (rev rs)).

Lemma render_rev_cons i rs : render_rev (i :: rs) = render_rev rs ++ render i.
Proof. unfold render_rev. cbn [rev]. rewrite map_app, concat_app. cbn. now rewrite app_nil_r. Qed.

Lemma redact_s_shape ts : forall rs o',
  wf_st (is_open rs) ts = Some o' ->
  render_rev (shape_toks ts rs) = render_rev rs ++ redact_s (is_open rs) ts /\ is_open (shape_toks ts rs) = o'.
Proof.
  induction ts as [|t r IH]; intros rs o' H.
  - cbn in *. injection H as <-. now rewrite app_nil_r.
  - unfold shape_toks. cbn [fold_left]. fold (shape_toks r (sstep rs t)).
    destruct t; cbn [wf_st redact_s] in *.
    + destruct (is_open rs) eqn:E; [discriminate|]. cbn [sstep].
      destruct (IH (ShEnv false false :: rs) o' H) as [I1 I2].
      rewrite I1, I2, render_rev_cons. cbn [render is_open]. rewrite <- app_assoc. auto.
    + destruct (is_open rs) eqn:E; [|discriminate].
      destruct rs as [|[b|ne [|]] rs']; try discriminate. cbn [sstep].
      destruct (IH (ShEnv ne true :: rs') o' H) as [I1 I2].
      rewrite I1, I2, !render_rev_cons. cbn [render is_open]. rewrite <- !app_assoc. auto.
    + destruct (is_open rs) eqn:E.
      * destruct rs as [|[b0|ne [|]] rs']; try discriminate. cbn [sstep].
        destruct (IH (ShEnv true false :: rs') o' H) as [I1 I2].
        rewrite I1, I2, !render_rev_cons. cbn [render is_open]. auto.
      * assert (sstep rs (TB b) = ShB b :: rs) as ->.
        { destruct rs as [|[b0|ne [|]] rs']; try reflexivity. discriminate. }
        assert (is_open (ShB b :: rs) = false) as E2 by reflexivity.
        specialize (IH (ShB b :: rs) o'). rewrite E2 in IH. destruct (IH H) as [I1 I2].
        rewrite I1, I2, render_rev_cons. cbn [render]. rewrite <- app_assoc. auto.
Qed.

Theorem redact_of_shape x : wf (lex x) = true -> redact_b x = unlex (render_rev (shape x)).
Proof.
  intros H. unfold redact_b, redact_tok. rewrite (proj1 (redact_aux_s (lex x)) H).
  apply wf_aux_st in H.
  destruct (redact_s_shape (lex x) [] false H) as [E _]. unfold shape. rewrite E. reflexivity.
Qed.

Theorem same_shape_same_redact x y :
  wf (lex x) = true -> wf (lex y) = true -> shape x = shape y -> redact_b x = redact_b y.
Proof. intros Hx Hy E. rewrite (redact_of_shape x Hx), (redact_of_shape y Hy), E. reflexivity. Qed.

(* ---------- byte-level facts ---------- *)
Lemma shape_app x y o st : Good x o st -> nojoin st y = true -> shape (x ++ y) = shape_toks (lex y) (shape x).
Proof. intros Hg Hj. unfold shape. rewrite (good_lex_app _ _ _ _ Hg Hj). apply shape_toks_app. Qed.

Lemma shape_open x o st : Good x o st -> is_open (shape x) = o.
Proof. intros (Hw & _). exact (proj2 (redact_s_shape (lex x) [] o Hw)). Qed.

Lemma shape_start x : shape (x ++ startB) = ShEnv false false :: shape x.
Proof. unfold shape. rewrite lex_app_start. unfold shape_toks. rewrite fold_left_app. reflexivity. Qed.
Lemma shape_end x : shape (x ++ endB) = sstep (shape x) TE.
Proof. unfold shape. rewrite lex_app_end. unfold shape_toks. rewrite fold_left_app. reflexivity. Qed.

(* which token came last can be read off the head of the shape *)
Lemma shape_last_TS ts : forall r, shape_toks ts [] = ShEnv false false :: r -> exists ts', ts = ts' ++ [TS].
Proof.
  induction ts as [|t ts' _] using rev_ind; intros r H; [discriminate|].
  rewrite shape_toks_app in H. cbn [shape_toks fold_left] in H.
  destruct t; [eexists; reflexivity| |].
  - exfalso. cbn [sstep] in H. destruct (shape_toks ts' []) as [|[b|ne [|]] q]; try discriminate.
  - exfalso. cbn [sstep] in H. destruct (shape_toks ts' []) as [|[b0|ne [|]] q]; try discriminate.
Qed.

Lemma shape_last_TE ts : forall ne r, wf_st false ts <> None ->
  shape_toks ts [] = ShEnv ne true :: r -> exists ts', ts = ts' ++ [TE].
Proof.
  induction ts as [|t ts' _] using rev_ind; intros ne r Hw H; [discriminate|].
  rewrite shape_toks_app in H. cbn [shape_toks fold_left] in H.
  destruct t; [discriminate|eexists; reflexivity|].
  exfalso. cbn [sstep] in H. destruct (shape_toks ts' []) as [|[b0|ne0 [|]] q]; try discriminate.
Qed.

Lemma ends_start_iff x st : Good x true st ->
  (has_suffix x startB = true <-> exists r, shape x = ShEnv false false :: r).
Proof.
  intros Hg. split.
  - intros H. apply has_suffix_spec in H. destruct H as [y ->]. rewrite shape_start. eauto.
  - intros [r H]. destruct (shape_last_TS _ _ H) as [ts' E].
    rewrite <- (unlex_lex x), E, unlex_app. cbn [unlex unlex_tok]. rewrite app_nil_r. apply has_suffix_app.
Qed.

Lemma ends_end_iff x st : Good x false st ->
  (has_suffix x endB = true <-> exists ne r, shape x = ShEnv ne true :: r).
Proof.
  intros Hg. split.
  - intros H. apply has_suffix_spec in H. destruct H as [y ->].
    apply good_drop_end in Hg. destruct Hg as (Hy & _ & _).
    rewrite shape_end. pose proof (shape_open _ _ _ Hy) as Ho.
    destruct (shape y) as [|[b|ne [|]] q]; try discriminate. cbn [sstep]. eauto.
  - intros (ne & r & H).
    assert (wf_st false (lex x) <> None) as Hw by (rewrite (proj1 Hg); discriminate).
    destruct (shape_last_TE _ _ _ Hw H) as [ts' E].
    rewrite <- (unlex_lex x), E, unlex_app. cbn [unlex unlex_tok]. rewrite app_nil_r. apply has_suffix_app.
Qed.

(* ---------- the Buffer's edits, on shapes ---------- *)
Definition openS (rs : list sh) : list sh :=
  match rs with ShEnv ne true :: r => ShEnv ne false :: r | _ => ShEnv false false :: rs end.
Definition closeS (rs : list sh) : list sh :=
  match rs with ShEnv false false :: r => r | ShEnv true false :: r => ShEnv true true :: r | _ => rs end.
Definition touch (rs : list sh) : list sh :=
  match rs with ShEnv _ false :: r => ShEnv true false :: r | _ => rs end.
Definition nlS (rs : list sh) : list sh := ShEnv false false :: ShB LF :: closeS rs.

Lemma open_shape V : Good V false 0 ->
  shape (if has_suffix V endB then drop_last 3 V else V ++ startB) = openS (shape V).
Proof.
  intros Hg. destruct (has_suffix V endB) eqn:E.
  - apply has_suffix_spec in E. destruct E as [y ->]. rewrite drop_last_app by reflexivity.
    apply good_drop_end in Hg. destruct Hg as (Hy & _ & _).
    rewrite shape_end. pose proof (shape_open _ _ _ Hy) as Ho.
    destruct (shape y) as [|[b|ne [|]] q]; try discriminate. reflexivity.
  - rewrite shape_start. unfold openS.
    destruct (shape V) as [|[b|ne [|]] q] eqn:Es; try reflexivity.
    exfalso. assert (has_suffix V endB = true) as C by (apply (ends_end_iff V 0 Hg); eauto). congruence.
Qed.

Lemma close_shape x : Good x true 0 -> shape (close_or_elide x) = closeS (shape x).
Proof.
  intros Hg. unfold close_or_elide. destruct (has_suffix x startB) eqn:E.
  - apply has_suffix_spec in E. destruct E as [y ->]. rewrite drop_last_app by reflexivity.
    rewrite shape_start. reflexivity.
  - rewrite shape_end. pose proof (shape_open _ _ _ Hg) as Ho.
    destruct (shape x) as [|[b|[|] [|]] q] eqn:Es; try discriminate; try reflexivity.
    exfalso. assert (has_suffix x startB = true) as C by (apply (ends_start_iff x 0 Hg); eauto). congruence.
Qed.

Lemma touch_shape x st y : Good x true st -> nojoin st y = true ->
  (exists b, lex y = [TB b]) -> shape (x ++ y) = touch (shape x).
Proof.
  intros Hg Hj [b Hy]. rewrite (shape_app _ _ _ _ Hg Hj), Hy. cbn [shape_toks fold_left sstep].
  pose proof (shape_open _ _ _ Hg) as Ho.
  destruct (shape x) as [|[b0|ne [|]] q]; try discriminate. reflexivity.
Qed.

Lemma nl_shape x st : Good x true st -> shape (nl_step x) = nlS (shape x).
Proof.
  intros Hg. unfold nl_step, close_or_elide. destruct (has_suffix x startB) eqn:E.
  - apply has_suffix_spec in E. destruct E as [y ->]. rewrite drop_last_app by reflexivity.
    apply good_drop_start in Hg. destruct Hg as (Hy & _ & _).
    rewrite !shape_start. rewrite (shape_app _ _ _ _ Hy (nojoin_0 _)). cbn [lex shape_toks fold_left].
    unfold nlS, closeS. pose proof (shape_open _ _ _ Hy) as Ho.
    destruct (shape y) as [|[b|ne [|]] q]; try discriminate; reflexivity.
  - assert (nojoin st (endB ++ [LF] ++ startB) = true) as Hj by (apply nojoin_first; discriminate).
    rewrite <- !app_assoc. rewrite (shape_app _ _ _ _ Hg Hj).
    change (lex (endB ++ [LF] ++ startB)) with [TE; TB LF; TS].
    pose proof (shape_open _ _ _ Hg) as Ho.
    destruct (shape x) as [|[b|[|] [|]] q] eqn:Es; try discriminate; try reflexivity.
    exfalso. assert (has_suffix x startB = true) as C by (apply (ends_start_iff x st Hg); eauto). congruence.
Qed.

(* ---------- the escaping pass on shapes ---------- *)
Definition is_lf_tok (t : tok) : bool := match t with TB b => b =? LF | _ => false end.
Definition kstep (rs : list sh) (k : bool) : list sh := if k then nlS rs else touch rs.

Theorem esc_toks_unsafe_shape s : forall acc st,
  Good acc true st -> nojoin st s = true ->
  shape (esc_toks true acc (lex s)) = fold_left kstep (map is_lf_tok (lex s)) (shape acc).
Proof.
  induction s as [| r IH | r IH | c r Hm IH] using lex_ind3; intros acc st Hg Hj.
  - reflexivity.
  - rewrite lex_start. cbn [esc_toks map fold_left is_lf_tok kstep].
    rewrite (IH (acc ++ escB) 0 (good_add_q _ _ _ Hg) (nojoin_0 _)).
    rewrite (touch_shape acc st escB Hg (nojoin_q st [])) by (exists 63; reflexivity). reflexivity.
  - rewrite lex_end. cbn [esc_toks map fold_left is_lf_tok kstep].
    rewrite (IH (acc ++ escB) 0 (good_add_q _ _ _ Hg) (nojoin_0 _)).
    rewrite (touch_shape acc st escB Hg (nojoin_q st [])) by (exists 63; reflexivity). reflexivity.
  - rewrite lex_byte by assumption. cbn [esc_toks map fold_left is_lf_tok]. cbn [andb].
    destruct (c =? LF) eqn:E.
    + apply N.eqb_eq in E. subst c. cbn [kstep].
      rewrite (IH (nl_step acc) 0 (nl_step_good _ _ Hg) (nojoin_0 _)).
      rewrite (nl_shape _ _ Hg). reflexivity.
    + assert (nojoin st [c] = true) as Hj1 by (eapply nojoin_single; exact Hj).
      assert (Good (acc ++ [c]) true (pnext st c)) as Hg1 by (apply good_add_byte; [assumption | assumption | now rewrite E]).
      cbn [kstep]. rewrite (IH (acc ++ [c]) (pnext st c) Hg1 (nojoin_step _ _ _ Hm Hj)).
      rewrite (touch_shape acc st [c] Hg Hj1) by (exists c; reflexivity). reflexivity.
Qed.

Theorem esc_toks_safe_shape s : forall acc st,
  Good acc false st -> nojoin st s = true ->
  shape (esc_toks false acc (lex s)) = shape_toks (escm_tok (lex s)) (shape acc).
Proof.
  induction s as [| r IH | r IH | c r Hm IH] using lex_ind3; intros acc st Hg Hj.
  - reflexivity.
  - rewrite lex_start. cbn [esc_toks escm_tok map esc_tok shape_toks fold_left].
    rewrite (IH (acc ++ escB) 0 (good_add_q _ _ _ Hg) (nojoin_0 _)).
    rewrite (shape_app acc escB _ _ Hg (nojoin_q st [])). reflexivity.
  - rewrite lex_end. cbn [esc_toks escm_tok map esc_tok shape_toks fold_left].
    rewrite (IH (acc ++ escB) 0 (good_add_q _ _ _ Hg) (nojoin_0 _)).
    rewrite (shape_app acc escB _ _ Hg (nojoin_q st [])). reflexivity.
  - rewrite lex_byte by assumption. cbn [esc_toks escm_tok map esc_tok shape_toks fold_left andb].
    assert (nojoin st [c] = true) as Hj1 by (eapply nojoin_single; exact Hj).
    assert (Good (acc ++ [c]) false (pnext st c)) as Hg1 by (apply good_add_byte; [assumption | assumption | reflexivity]).
    rewrite (IH (acc ++ [c]) (pnext st c) Hg1 (nojoin_step _ _ _ Hm Hj)).
    rewrite (shape_app _ _ _ _ Hg Hj1). reflexivity.
Qed.

(* ---------- skeletons ---------- *)
Fixpoint skel (ks : list bool) : list bool :=
  match ks with
  | [] => []
  | true :: r => true :: skel r
  | false :: r => match r with false :: _ => skel r | _ => false :: skel r end
  end.

Lemma touch_idem rs : touch (touch rs) = touch rs.
Proof. destruct rs as [|[b|ne [|]] r]; reflexivity. Qed.

Lemma fold_kstep_skel ks : forall rs, fold_left kstep (skel ks) rs = fold_left kstep ks rs.
Proof.
  induction ks as [|k r IH]; intros rs; [reflexivity|].
  destruct k; cbn [skel fold_left]; [apply IH|].
  destruct r as [|[|] r'].
  - reflexivity.
  - cbn [fold_left kstep]. apply (IH (touch rs)).
  - rewrite IH. cbn [fold_left kstep]. now rewrite touch_idem.
Qed.

Lemma skel_ff r : skel (false :: false :: r) = skel (false :: r).
Proof. reflexivity. Qed.

Lemma skel_idem ks : skel (skel ks) = skel ks.
Proof.
  induction ks as [|k r IH]; [reflexivity|]. destruct k; cbn [skel]; [now rewrite IH|].
  destruct r as [|[|] r']; [reflexivity | | exact IH].
  cbn [skel] in *. now rewrite IH.
Qed.

Lemma skel_app a : forall b, skel (a ++ b) = skel (skel a ++ b).
Proof.
  induction a as [|k r IH]; intros b; [reflexivity|].
  destruct k; cbn [app skel]; [now rewrite IH|].
  destruct r as [|[|] r'].
  - reflexivity.
  - cbn [app]. cbn [app] in IH. rewrite IH. reflexivity.
  - cbn [app]. cbn [app] in IH. rewrite IH. reflexivity.
Qed.

Definition kinds_b (s : bytes) : list bool := map (fun c => c =? LF) s.

Lemma skel_hd a : hd_error (skel a) = hd_error a.
Proof.
  induction a as [|k r IH]; [reflexivity|]. destruct k; [reflexivity|].
  cbn [skel]. destruct r as [|[|] r']; try reflexivity. exact IH.
Qed.

Lemma skel_cons_false a b : skel a = skel b -> skel (false :: a) = skel (false :: b).
Proof.
  intros H. pose proof (skel_hd a) as Ha. pose proof (skel_hd b) as Hb. rewrite H in Ha.
  cbn [skel]. destruct a as [|[|] a']; destruct b as [|[|] b']; cbn [hd_error] in *; try congruence.
Qed.

Lemma skel_lex s : skel (map is_lf_tok (lex s)) = skel (kinds_b s).
Proof.
  induction s as [| r IH | r IH | c r Hm IH] using lex_ind3.
  - reflexivity.
  - rewrite lex_start. unfold kinds_b. cbn [map is_lf_tok]. change (226 =? LF) with false.
    change (128 =? LF) with false. change (185 =? LF) with false. rewrite !skel_ff.
    apply skel_cons_false. exact IH.
  - rewrite lex_end. unfold kinds_b. cbn [map is_lf_tok]. change (226 =? LF) with false.
    change (128 =? LF) with false. change (186 =? LF) with false. rewrite !skel_ff.
    apply skel_cons_false. exact IH.
  - rewrite lex_byte by assumption. unfold kinds_b. cbn [map is_lf_tok]. fold (kinds_b r).
    destruct (c =? LF); [cbn [skel]; now rewrite IH | apply skel_cons_false; exact IH].
Qed.

(* the unsafe escaping pass, in terms of the byte-level skeleton of the payload *)
Theorem esc_unsafe_shape_skel s1 s2 :
  skel (kinds_b s1) = skel (kinds_b s2) ->
  forall rs, fold_left kstep (map is_lf_tok (lex s1)) rs = fold_left kstep (map is_lf_tok (lex s2)) rs.
Proof.
  intros H rs. rewrite <- (fold_kstep_skel (map is_lf_tok (lex s1))), <- (fold_kstep_skel (map is_lf_tok (lex s2))).
  rewrite !skel_lex, H. reflexivity.
Qed.

Lemma skel_app_r a : forall b, skel (a ++ b) = skel (a ++ skel b).
Proof.
  induction a as [|k r IH]; intros b; [cbn [app]; symmetry; apply skel_idem|].
  destruct k; cbn [app].
  - cbn [skel]. now rewrite IH.
  - apply skel_cons_false. apply IH.
Qed.

Lemma skel_app_congr a a' b b' : skel a = skel a' -> skel b = skel b' -> skel (a ++ b) = skel (a' ++ b').
Proof.
  intros Ha Hb. rewrite (skel_app a), Ha, <- (skel_app a'). rewrite (skel_app_r a' b), Hb, <- (skel_app_r a' b'). reflexivity.
Qed.

Lemma kinds_b_app a b : kinds_b (a ++ b) = kinds_b a ++ kinds_b b.
Proof. apply map_app. Qed.

(* when does an unsafe pass end on a freshly opened, still empty envelope? only right after a
   line feed, or if nothing was escaped at all *)
Lemma fold_kstep_head ks : forall rs r,
  fold_left kstep ks rs = ShEnv false false :: r ->
  (ks = [] /\ rs = ShEnv false false :: r) \/ (exists ks', ks = ks' ++ [true]).
Proof.
  induction ks as [|k ks' _] using rev_ind; intros rs r H; [left; auto|].
  right. rewrite fold_left_app in H. cbn [fold_left] in H. destruct k; [eauto|].
  exfalso. cbn [kstep] in H. unfold touch in H.
  destruct (fold_left kstep ks' rs) as [|[b|ne [|]] q]; discriminate.
Qed.

Lemma complete_startB : complete_rune startB.
Proof. exists 8249%Z. repeat split; [discriminate | intros [H _]; discriminate]. Qed.

Lemma last_tok_lf s ts : lex s = ts ++ [TB LF] -> exists s', s = s' ++ [LF].
Proof.
  intros H. exists (unlex ts). rewrite <- (unlex_lex s), H, unlex_app. reflexivity.
Qed.

Lemma unsafe_pass_no_dangle V st P r :
  Good V true st ->
  fold_left kstep (map is_lf_tok (lex P)) (shape V) = ShEnv false false :: r ->
  last_invalid (V ++ P) = false.
Proof.
  intros Hg H. destruct (fold_kstep_head _ _ _ H) as [[Hk Hs]|[ks' Hk]].
  - assert (P = []) as -> by (rewrite <- (unlex_lex P); destruct (lex P); [reflexivity | discriminate]).
    rewrite app_nil_r.
    assert (has_suffix V startB = true) as Hv by (apply (ends_start_iff V st Hg); eauto).
    apply has_suffix_spec in Hv. destruct Hv as [y ->]. apply complete_last_valid, complete_startB.
  - assert (exists ts, lex P = ts ++ [TB LF]) as [ts Hl].
    { destruct (lex P) as [|t0 l0] eqn:El using rev_ind; [destruct ks'; discriminate|].
      rewrite map_app in Hk. cbn [map] in Hk. apply app_inj_tail in Hk. destruct Hk as [_ Hk].
      destruct t0 as [| |b]; try discriminate. cbn [is_lf_tok] in Hk. apply N.eqb_eq in Hk. subst b. eauto. }
    destruct (last_tok_lf _ _ Hl) as [P' ->]. rewrite app_assoc. unfold last_invalid.
    rewrite dlr_1 by reflexivity. reflexivity.
Qed.

(* ---------- one escaping pass / finalize, on shapes ---------- *)
Lemma finalize_unsafe_open V P :
  Good V true 0 ->
  let x := close_or_elide (esc_spec true V P) in
  Good x false 0 /\ shape x = closeS (fold_left kstep (map is_lf_tok (lex P)) (shape V)).
Proof.
  intros Hg. cbn zeta.
  pose proof (esc_spec_good partial_tail_invalid true V P Hg) as Hx.
  split; [now apply close_good|].
  rewrite (close_shape _ Hx). unfold esc_spec.
  pose proof (esc_toks_inv true P V 0 Hg (nojoin_0 P)) as He.
  pose proof (esc_toks_unsafe_shape P V 0 Hg (nojoin_0 P)) as Hs.
  destruct (last_invalid (V ++ P)) eqn:D; [|rewrite app_nil_r; now rewrite Hs].
  rewrite (touch_shape _ _ escB He (nojoin_q _ [])) by (exists 63; reflexivity).
  rewrite Hs. pose proof (shape_open _ _ _ He) as Ho. rewrite Hs in Ho.
  destruct (fold_left kstep (map is_lf_tok (lex P)) (shape V)) as [|[b|[|] [|]] q] eqn:E; try discriminate; try reflexivity.
  exfalso. rewrite (unsafe_pass_no_dangle V 0 P q Hg E) in D. discriminate.
Qed.

Lemma finalize_safe V P :
  Good V false 0 -> last_invalid (V ++ P) = false ->
  let x := esc_spec false V P in
  Good x false 0 /\ shape x = shape_toks (escm_tok (lex P)) (shape V).
Proof.
  intros Hg D. cbn zeta. split; [apply (esc_spec_good partial_tail_invalid); exact Hg|].
  rewrite (esc_spec_nodangle _ _ _ D). apply (esc_toks_safe_shape P V 0 Hg (nojoin_0 P)).
Qed.

(* the public condition: no dangling-tail mark is appended outside an envelope *)
Definition ptail_ok (b : buffer) : bool :=
  match bmode b, markerOpen b with
  | MRaw, _ => true
  | MUnsafe, true => true
  | _, _ => negb (last_invalid (buf b))
  end.

(* ---------- two runs ---------- *)
Definition Sim (b1 b2 : buffer) : Prop :=
  bmode b1 = bmode b2 /\ markerOpen b1 = markerOpen b2 /\
  exists V1 P1 V2 P2,
    buf b1 = V1 ++ P1 /\ validUntil b1 = length V1 /\ buf b2 = V2 ++ P2 /\ validUntil b2 = length V2 /\
    match bmode b1, markerOpen b1 with
    | MUnsafe, true => Good V1 true 0 /\ Good V2 true 0 /\ shape V1 = shape V2 /\ skel (kinds_b P1) = skel (kinds_b P2)
    | MUnsafe, false => P1 = [] /\ P2 = [] /\ Good V1 false 0 /\ Good V2 false 0 /\ shape V1 = shape V2
    | MSafe, false => Good V1 false 0 /\ Good V2 false 0 /\ shape V1 = shape V2 /\ P1 = P2
    | MRaw, false => Good (V1 ++ P1) false 0 /\ Good (V2 ++ P2) false 0 /\ shape (V1 ++ P1) = shape (V2 ++ P2)
    | _, true => False
    end.

Lemma Sim_init : Sim init init.
Proof. repeat split. exists [], [], [], []. cbn. repeat split. Qed.

Lemma Sim_settled x1 x2 m : Good x1 false 0 -> Good x2 false 0 -> shape x1 = shape x2 ->
  Sim (mkBuf x1 (length x1) m false) (mkBuf x2 (length x2) m false).
Proof.
  intros H1 H2 E. split; [reflexivity|]. split; [reflexivity|].
  exists x1, [], x2, []. cbn [buf validUntil bmode markerOpen]. rewrite !app_nil_r.
  split; [reflexivity|]. split; [reflexivity|]. split; [reflexivity|]. split; [reflexivity|].
  destruct m; auto 10.
Qed.

Lemma escape_settled bnl V : last_invalid V = false -> escape V (length V) bnl false = V.
Proof.
  intros H. replace V with (V ++ []) at 1 by apply app_nil_r. rewrite (escape_spec bnl V []).
  rewrite esc_spec_nodangle by (rewrite app_nil_r; exact H). reflexivity.
Qed.

Ltac sp := repeat match goal with |- _ /\ _ => split end; try assumption; try reflexivity.

Theorem sim_finalize b1 b2 :
  Sim b1 b2 -> ptail_ok b1 = true -> ptail_ok b2 = true ->
  exists x1 x2, finalize b1 = mkBuf x1 (length x1) (bmode b1) false /\
                finalize b2 = mkBuf x2 (length x2) (bmode b2) false /\
                Good x1 false 0 /\ Good x2 false 0 /\ shape x1 = shape x2.
Proof.
  destruct b1 as [bf1 vu1 m1 o1], b2 as [bf2 vu2 m2 o2].
  intros (Em & Eo & V1 & P1 & V2 & P2 & B1 & U1 & B2 & U2 & H) T1 T2.
  cbn [buf validUntil bmode markerOpen] in *. subst bf1 vu1 bf2 vu2 m2 o2.
  unfold ptail_ok in T1, T2. cbn [bmode markerOpen buf] in T1, T2.
  destruct m1, o1; try contradiction.
  - (* unsafe, open *)
    destruct H as (G1 & G2 & Es & Ek).
    destruct (finalize_unsafe_open V1 P1 G1) as [X1 S1]. destruct (finalize_unsafe_open V2 P2 G2) as [X2 S2].
    exists (close_or_elide (esc_spec true V1 P1)), (close_or_elide (esc_spec true V2 P2)).
    unfold finalize, escape_to_end. cbn [bmode buf validUntil mode_eqb].
    rewrite !escape_spec. unfold set_valid, set_buf; cbn [buf validUntil bmode markerOpen].
    rewrite !end_redactable_open
      by (eapply good_nonempty; apply (esc_spec_good partial_tail_invalid); assumption).
    cbn [buf validUntil bmode markerOpen]. sp.
    rewrite S1, S2, Es. f_equal. apply esc_unsafe_shape_skel. exact Ek.
  - (* unsafe, closed *)
    destruct H as (-> & -> & G1 & G2 & Es). rewrite app_nil_r in *.
    apply negb_true_iff in T1, T2.
    exists V1, V2. unfold finalize, escape_to_end. cbn [bmode buf validUntil mode_eqb].
    rewrite ?app_nil_r. rewrite !escape_settled by assumption.
    unfold set_valid, set_buf; cbn [buf validUntil bmode markerOpen]. sp.
  - (* safe *)
    destruct H as (G1 & G2 & Es & <-). apply negb_true_iff in T1, T2.
    destruct (finalize_safe V1 P1 G1 T1) as [X1 S1]. destruct (finalize_safe V2 P1 G2 T2) as [X2 S2].
    exists (esc_spec false V1 P1), (esc_spec false V2 P1).
    unfold finalize, escape_to_end. cbn [bmode buf validUntil mode_eqb].
    rewrite !escape_spec. unfold set_valid, set_buf; cbn [buf validUntil bmode markerOpen].
    sp. rewrite S1, S2, Es. reflexivity.
  - (* raw *)
    destruct H as (G1 & G2 & Es).
    exists (V1 ++ P1), (V2 ++ P2). unfold finalize, set_valid. cbn [bmode buf validUntil markerOpen].
    sp.
Qed.

Theorem sim_write b1 b2 p1 p2 :
  Sim b1 b2 ->
  match bmode b1 with
  | MUnsafe => skel (kinds_b p1) = skel (kinds_b p2)
  | MSafe => p1 = p2
  | MRaw => p1 = p2 /\ raw_payload_ok p1 = true
  end ->
  Sim (write b1 p1) (write b2 p2).
Proof.
  destruct b1 as [bf1 vu1 m1 o1], b2 as [bf2 vu2 m2 o2].
  intros (Em & Eo & V1 & P1 & V2 & P2 & B1 & U1 & B2 & U2 & H) Hp.
  cbn [buf validUntil bmode markerOpen] in *. subst bf1 vu1 bf2 vu2 m2 o2.
  unfold write, start_write. cbn [bmode markerOpen].
  destruct m1, o1; try contradiction; cbn [mode_eqb negb andb].
  - destruct H as (G1 & G2 & Es & Ek).
    split; [reflexivity|]. split; [reflexivity|].
    exists V1, (P1 ++ p1), V2, (P2 ++ p2). unfold set_buf. cbn [buf validUntil bmode markerOpen].
    rewrite !app_assoc. sp. rewrite !kinds_b_app. now apply skel_app_congr.
  - destruct H as (-> & -> & G1 & G2 & Es). rewrite !app_nil_r in *.
    unfold start_redactable, set_valid, set_open, set_buf. cbn [buf validUntil bmode markerOpen].
    pose proof (open_good V1 G1) as X1. pose proof (open_good V2 G2) as X2.
    pose proof (open_shape V1 G1) as S1. pose proof (open_shape V2 G2) as S2.
    revert X1 X2 S1 S2.
    generalize (if has_suffix V1 endB then drop_last 3 V1 else V1 ++ startB).
    generalize (if has_suffix V2 endB then drop_last 3 V2 else V2 ++ startB).
    intros x2 x1 X1 X2 S1 S2.
    split; [reflexivity|]. split; [reflexivity|].
    exists x1, p1, x2, p2. cbn [buf validUntil bmode markerOpen]. sp. rewrite S1, S2, Es. reflexivity.
  - destruct H as (G1 & G2 & Es & <-). subst p2.
    split; [reflexivity|]. split; [reflexivity|].
    exists V1, (P1 ++ p1), V2, (P1 ++ p1). unfold set_buf. cbn [buf validUntil bmode markerOpen].
    rewrite !app_assoc. sp.
  - destruct H as (G1 & G2 & Es). destruct Hp as [<- Hr].
    split; [reflexivity|]. split; [reflexivity|].
    exists V1, (P1 ++ p1), V2, (P2 ++ p1). unfold set_buf. cbn [buf validUntil bmode markerOpen].
    rewrite !app_assoc. destruct (raw_payload_good p1 Hr) as (Hw & Hm & Hl).
    split; [reflexivity|]. split; [reflexivity|]. split; [reflexivity|]. split; [reflexivity|].
    split; [eapply good_app; [exact G1 | apply nojoin_0 | exact Hw | exact Hm | exact Hl]|].
    split; [eapply good_app; [exact G2 | apply nojoin_0 | exact Hw | exact Hm | exact Hl]|].
    rewrite (shape_app _ _ _ _ G1 (nojoin_0 p1)), (shape_app _ _ _ _ G2 (nojoin_0 p1)), Es. reflexivity.
Qed.

(* the relation between the calls of the two histories, given the current mode *)
Definition sim_op (m : mode) (o1 o2 : op) : Prop :=
  match payload_of m o1, payload_of m o2 with
  | Some p1, Some p2 =>
    match m with
    | MUnsafe => skel (kinds_b p1) = skel (kinds_b p2)
    | MSafe => p1 = p2
    | MRaw => p1 = p2 /\ raw_payload_ok p1 = true
    end
  | None, None => o1 = o2
  | _, _ => False
  end.

Definition ptail_op_ok (b : buffer) (o : op) : bool :=
  match o with
  | OMode m' => mode_eqb (bmode b) m' || ptail_ok b
  | OTake => ptail_ok b
  | _ => true
  end.

Lemma write_of_payload b o p : payload_of (bmode b) o = Some p -> fst (step b o) = write b p.
Proof.
  destruct o; cbn [payload_of]; intros H; try discriminate; injection H as <-; cbn [step fst].
  - reflexivity.
  - apply write_byte_write.
  - reflexivity.
Qed.

Theorem sim_step b1 b2 o1 o2 :
  Sim b1 b2 -> sim_op (bmode b1) o1 o2 ->
  ptail_op_ok b1 o1 = true -> ptail_op_ok b2 o2 = true ->
  Sim (fst (step b1 o1)) (fst (step b2 o2)).
Proof.
  intros HS Ho T1 T2. pose proof (proj1 HS) as Em. unfold sim_op in Ho.
  destruct (payload_of (bmode b1) o1) as [p1|] eqn:E1.
  - rewrite Em in Ho. destruct (payload_of (bmode b2) o2) as [p2|] eqn:E2; [|contradiction]. rewrite <- Em in Ho.
    rewrite (write_of_payload _ _ _ E1), (write_of_payload _ _ _ E2). apply sim_write; assumption.
  - rewrite Em in Ho. destruct (payload_of (bmode b2) o2) as [p2|] eqn:E2; [contradiction|]. subst o2.
    destruct o1; cbn [payload_of] in E1; try discriminate; cbn [step fst]; try exact HS.
    + (* SetMode *)
      cbn [ptail_op_ok] in T1, T2.
      destruct (mode_eqb (bmode b1) m) eqn:E.
      * assert (mode_eqb (bmode b2) m = true) as E' by (rewrite <- Em; exact E).
        unfold set_mode. rewrite E, E'. exact HS.
      * assert (mode_eqb (bmode b2) m = false) as E' by (rewrite <- Em; exact E).
        rewrite ?E in T1. rewrite ?E' in T2. cbn [orb] in T1, T2.
        rewrite !set_mode_finalize by assumption.
        destruct (sim_finalize b1 b2 HS T1 T2) as (x1 & x2 & -> & -> & G1 & G2 & Es).
        unfold set_mode_field. cbn [buf validUntil bmode markerOpen]. now apply Sim_settled.
    + (* Take *)
      cbn [ptail_op_ok] in T1, T2. unfold take. cbn [fst].
      destruct (sim_finalize b1 b2 HS T1 T2) as (x1 & x2 & -> & -> & _). cbn [markerOpen]. exact Sim_init.
    + exact Sim_init.
Qed.

(* the two histories, call by call *)
Fixpoint sim_ops (m : mode) (ops1 ops2 : list op) : Prop :=
  match ops1, ops2 with
  | [], [] => True
  | o1 :: r1, o2 :: r2 => sim_op m o1 o2 /\ sim_ops (next_mode m o1) r1 r2
  | _, _ => False
  end.

Fixpoint ptail_ok_from (b : buffer) (ops : list op) : bool :=
  match ops with
  | [] => ptail_ok b
  | o :: r => ptail_op_ok b o && ptail_ok_from (fst (step b o)) r
  end.

Lemma sim_run ops1 : forall ops2 b1 b2,
  Sim b1 b2 -> sim_ops (bmode b1) ops1 ops2 ->
  ptail_ok_from b1 ops1 = true -> ptail_ok_from b2 ops2 = true ->
  exists x1 x2, buf (finalize (run_from b1 ops1)) = x1 /\ buf (finalize (run_from b2 ops2)) = x2 /\
                Good x1 false 0 /\ Good x2 false 0 /\ shape x1 = shape x2.
Proof.
  induction ops1 as [|o1 r1 IH]; intros ops2 b1 b2 HS Ho T1 T2; destruct ops2 as [|o2 r2]; cbn [sim_ops] in Ho; try contradiction.
  - cbn [ptail_ok_from] in T1, T2. cbn [run_from fold_left].
    destruct (sim_finalize b1 b2 HS T1 T2) as (x1 & x2 & -> & -> & G1 & G2 & Es). cbn [buf]. eauto 10.
  - destruct Ho as [Ho Hr]. cbn [ptail_ok_from] in T1, T2.
    apply andb_true_iff in T1, T2. destruct T1 as [T1 T1'], T2 as [T2 T2'].
    unfold run_from. cbn [fold_left].
    apply IH; [now apply sim_step | | assumption | assumption].
    rewrite step_mode. destruct o1; exact Hr.
Qed.

(* Non-interference of Redact at the Buffer level: two histories that make the same calls, with
   equal payloads in safe and raw mode and payloads of equal skeleton in unsafe mode, return
   strings whose Redact() is byte-identical. *)
Theorem redact_noninterference ops1 ops2 :
  sim_ops MUnsafe ops1 ops2 ->
  ptail_ok_from init ops1 = true -> ptail_ok_from init ops2 = true ->
  redact_b (output ops1) = redact_b (output ops2).
Proof.
  intros Ho T1 T2.
  destruct (sim_run ops1 ops2 init init Sim_init Ho T1 T2) as (x1 & x2 & E1 & E2 & G1 & G2 & Es).
  unfold output, redactable_bytes, run. rewrite E1, E2.
  apply same_shape_same_redact; [apply (good_output _ G1) | apply (good_output _ G2) | exact Es].
Qed.

Print Assumptions redact_noninterference.
