(* Proofs about Layer 2: the invariant of reachable Buffer states. *)
From Redact Require Import Bytes Tokens Utf8 Escape EscSpec Buffer Ops BufInv TokensP EscapeP.
From Coq Require Import Lia.
Open Scope N_scope.

(* ------------------------------------------------------------------ *)
(** * 1. Suffixes *)

Lemma is_prefix_spec p : forall s, is_prefix p s = true -> exists t, s = p ++ t.
Proof.
  induction p as [|a p IH]; intros s H.
  - exists s. reflexivity.
  - destruct s as [|b s]; cbn [is_prefix] in H; [discriminate|].
    apply andb_true_iff in H. destruct H as [Hab H].
    apply N.eqb_eq in Hab. subst b.
    destruct (IH s H) as [t ->]. exists t. reflexivity.
Qed.

Lemma has_suffix_spec s suf : has_suffix s suf = true -> exists x, s = x ++ suf.
Proof.
  unfold has_suffix. intros H. apply is_prefix_spec in H. destruct H as [t Ht].
  exists (rev t).
  rewrite <- (rev_involutive s), Ht, rev_app_distr, rev_involutive. reflexivity.
Qed.

(* ------------------------------------------------------------------ *)
(** * 2. The partial-marker byte state *)

Lemma pstb_app st a b : pstb st (a ++ b) = pstb (pstb st a) b.
Proof. unfold pstb. apply fold_left_app. Qed.

Lemma pstb_cons st a r : pstb st (a :: r) = pstb (pnext st a) r.
Proof. reflexivity. Qed.

Lemma pnext_226 st : pnext st 226 = 1.
Proof. reflexivity. Qed.

Lemma pnext_other st b : b <> 226 -> b <> 128 -> pnext st b = 0.
Proof.
  intros H1 H2. unfold pnext.
  apply N.eqb_neq in H1, H2. rewrite H1, H2, andb_false_r. reflexivity.
Qed.

Lemma pnext_cases st b :
  (b = 226 /\ pnext st b = 1) \/
  (b <> 226 /\ st = 1 /\ b = 128 /\ pnext st b = 2) \/
  (b <> 226 /\ (st <> 1 \/ b <> 128) /\ pnext st b = 0).
Proof.
  unfold pnext.
  destruct (N.eqb_spec b 226) as [E|E]; [left; auto|right].
  destruct (N.eqb_spec st 1) as [E1|E1]; destruct (N.eqb_spec b 128) as [E2|E2];
    cbn [andb]; [left; auto | right; auto | right; auto | right; auto].
Qed.

Lemma pstb_start st r : pstb st (226 :: 128 :: 185 :: r) = pstb 0 r.
Proof. reflexivity. Qed.
Lemma pstb_end st r : pstb st (226 :: 128 :: 186 :: r) = pstb 0 r.
Proof. reflexivity. Qed.

(* ------------------------------------------------------------------ *)
(** * 3. Lexing a concatenation *)

Definition is_m3 (c : N) : bool := (c =? 185) || (c =? 186).

(* A string in partial-marker state [st] followed by [y] does not assemble a
   marker across the junction. *)
Definition nojoin (st : N) (y : bytes) : bool :=
  match y with
  | [] => true
  | c :: y' =>
    if st =? 2 then negb (is_m3 c)
    else if st =? 1 then
      negb ((c =? 128) && match y' with d :: _ => is_m3 d | [] => false end)
    else true
  end.

Lemma nojoin_0 y : nojoin 0 y = true.
Proof. destruct y; reflexivity. Qed.

Lemma nojoin_nil st : nojoin st [] = true.
Proof. reflexivity. Qed.

(* First byte cannot continue a marker. *)
Lemma nojoin_first st c y :
  c <> 128 -> c <> 185 -> c <> 186 -> nojoin st (c :: y) = true.
Proof.
  intros H1 H2 H3. unfold nojoin, is_m3.
  apply N.eqb_neq in H1, H2, H3. rewrite H1, H2, H3. cbn [orb andb negb].
  destruct (st =? 2), (st =? 1); reflexivity.
Qed.

Lemma nojoin_single st a r : nojoin st (a :: r) = true -> nojoin st [a] = true.
Proof.
  unfold nojoin. destruct (st =? 2); [auto|].
  destruct (st =? 1); [|auto]. intros _. now rewrite andb_false_r.
Qed.

Lemma not_marker_cases c b0 c0 :
  (c = 226 -> b0 = 128 -> is_m3 c0 = false) ->
  is_start3 c b0 c0 = false /\ is_end3 c b0 c0 = false.
Proof.
  intros H. unfold is_start3, is_end3.
  destruct (N.eqb_spec c 226) as [E1|E1]; [|auto].
  destruct (N.eqb_spec b0 128) as [E2|E2]; [|auto].
  specialize (H E1 E2). unfold is_m3 in H. apply orb_false_iff in H.
  destruct H as [-> ->]. auto.
Qed.

Theorem lex_app_st x : forall st0 y,
  nojoin (pstb st0 x) y = true -> lex (x ++ y) = lex x ++ lex y.
Proof.
  induction x as [| r IH | r IH | c r Hm IH] using lex_ind3; intros st0 y H.
  - reflexivity.
  - cbn [app]. rewrite !lex_start. cbn [app]. f_equal. apply (IH 0). exact H.
  - cbn [app]. rewrite !lex_end. cbn [app]. f_equal. apply (IH 0). exact H.
  - cbn [app]. rewrite (lex_byte c r) by assumption.
    rewrite lex_byte.
    + cbn [app]. f_equal. apply (IH (pnext st0 c)). exact H.
    + intros b0 c0 r' E. destruct r as [|d [|e t]].
      * cbn [app] in E. subst y. apply not_marker_cases. intros -> ->.
        rewrite pstb_cons in H. cbn [pstb fold_left] in H.
        rewrite pnext_226 in H. cbn [nojoin] in H.
        change (1 =? 2) with false in H. change (1 =? 1) with true in H.
        cbn iota in H. rewrite N.eqb_refl in H. cbn [andb] in H.
        now apply negb_true_iff in H.
      * cbn [app] in E. injection E as <- Ey. subst y.
        apply not_marker_cases. intros -> ->.
        change (pstb st0 [226; 128]) with 2 in H. cbn [nojoin] in H.
        change (2 =? 2) with true in H. cbn iota in H.
        now apply negb_true_iff in H.
      * cbn [app] in E. injection E as <- <- _. apply (Hm d e t eq_refl).
Qed.

Lemma closed_pstb st s : pstb st s = 0 -> closedb s = true.
Proof.
  revert st. induction s as [|a r IH]; intros st H; [reflexivity|].
  destruct r as [|b [|c t]].
  - cbn [pstb fold_left] in H. cbn [closedb].
    destruct (pnext_cases st a) as [[-> E]|[(Hn & _)|(Hn & _)]].
    + rewrite E in H. discriminate.
    + apply N.eqb_neq in Hn. now rewrite Hn.
    + apply N.eqb_neq in Hn. now rewrite Hn.
  - cbn [pstb fold_left] in H. cbn [closedb].
    destruct (pnext_cases (pnext st a) b) as [[-> E]|[(Hn & E1 & -> & E)|(Hn & Hor & _)]].
    + rewrite E in H. discriminate.
    + rewrite E in H. discriminate.
    + apply N.eqb_neq in Hn. rewrite Hn. cbn [negb andb].
      destruct (N.eqb_spec a 226) as [->|Ha]; [|reflexivity].
      rewrite pnext_226 in Hor. destruct Hor as [Hor|Hor]; [congruence|].
      apply N.eqb_neq in Hor. now rewrite Hor.
  - rewrite closedb_cons3. apply (IH (pnext st a)). exact H.
Qed.

(* ------------------------------------------------------------------ *)
(** * 4. Token-level scanners and concatenation *)

Lemma wf_st_app a : forall o b,
  wf_st o (a ++ b) = match wf_st o a with Some o' => wf_st o' b | None => None end.
Proof.
  induction a as [|t a IH]; intros o b; [reflexivity|].
  destruct t; cbn [app wf_st].
  - destruct o; [reflexivity | apply IH].
  - destruct o; [apply IH | reflexivity].
  - apply IH.
Qed.

Lemma wf_aux_st ts : forall o, wf_aux o ts = true <-> wf_st o ts = Some false.
Proof.
  induction ts as [|t r IH]; intros o.
  - cbn. destruct o; cbn; split; congruence.
  - destruct t; cbn [wf_aux wf_st].
    + destruct o; [split; discriminate | apply IH].
    + destruct o; [apply IH | split; discriminate].
    + apply IH.
Qed.

Lemma next_is_lf_app_ne r b : r <> [] -> next_is_lf (r ++ b) = next_is_lf r.
Proof. destruct r; [congruence | reflexivity]. Qed.

Lemma mcl_st_app a : forall st st' b,
  mcl_st st a = Some st' -> mcl_st st (a ++ b) = mcl_st st' b.
Proof.
  induction a as [|t a IH]; intros st st' b H.
  - cbn in H. injection H as ->. reflexivity.
  - destruct t; cbn [app mcl_st] in *.
    + destruct (st =? 0); [|discriminate]. now apply IH.
    + destruct a as [|t' a'].
      * cbn [next_is_lf] in H. rewrite orb_false_r in H.
        destruct (st =? 0); [|discriminate]. cbn [orb]. now apply IH.
      * rewrite next_is_lf_app_ne by discriminate.
        destruct ((st =? 0) || next_is_lf (t' :: a')); [|discriminate]. now apply IH.
    + now apply IH.
Qed.

(* Removing a trailing marker. *)
Lemma mcl_st_unsnoc t a : forall st z,
  is_marker t = true -> mcl_st st (a ++ [t]) = Some z -> mcl_st st a = Some 0 /\ z = 0.
Proof.
  induction a as [|u a IH]; intros st z Ht H.
  - destruct t; [| |discriminate]; cbn [app mcl_st next_is_lf] in H |- *.
    + destruct (N.eqb_spec st 0) as [->|]; [|discriminate]. injection H as <-. auto.
    + rewrite orb_false_r in H.
      destruct (N.eqb_spec st 0) as [->|]; [|discriminate]. injection H as <-. auto.
  - destruct u; cbn [app mcl_st] in *.
    + destruct (st =? 0); [|discriminate]. now apply IH.
    + assert (next_is_lf (a ++ [t]) = next_is_lf a) as E.
      { destruct a; [|reflexivity]. destruct t; [reflexivity|reflexivity|discriminate]. }
      rewrite E in H.
      destruct ((st =? 0) || next_is_lf a); [|discriminate]. now apply IH.
    + now apply IH.
Qed.

Lemma linesafe_app a : forall o o' b,
  wf_st o a = Some o' ->
  linesafe_aux o (a ++ b) = linesafe_aux o a && linesafe_aux o' b.
Proof.
  induction a as [|t a IH]; intros o o' b H.
  - cbn in H. injection H as ->. reflexivity.
  - destruct t; cbn [app wf_st linesafe_aux] in *.
    + destruct o; [discriminate|]. now apply IH.
    + destruct o; [|discriminate]. now apply IH.
    + destruct (o && (b0 =? LF)); [reflexivity|]. now apply IH.
Qed.

Lemma mcl_st_pstb s : forall st st', mcl_st st (lex s) = Some st' -> pstb st s = st'.
Proof.
  induction s as [| r IH | r IH | c r Hm IH] using lex_ind3; intros st st' H.
  - cbn in H. injection H as ->. reflexivity.
  - rewrite lex_start in H. cbn [mcl_st] in H. rewrite pstb_start.
    destruct (st =? 0); [|discriminate]. now apply IH.
  - rewrite lex_end in H. cbn [mcl_st] in H. rewrite pstb_end.
    destruct ((st =? 0) || next_is_lf (lex r)); [|discriminate]. now apply IH.
  - rewrite lex_byte in H by assumption. cbn [mcl_st] in H.
    rewrite pstb_cons. now apply IH.
Qed.

Lemma mcl_true ts : mcl ts = true <-> mcl_st 0 ts = Some 0.
Proof.
  unfold mcl. destruct (mcl_st 0 ts) as [[|p]|]; split; congruence.
Qed.

(* ------------------------------------------------------------------ *)
(** * 5. Good prefixes *)

(* [V] lexes to a token list with envelope state [o] at the end, marker-closed
   with partial-marker state [st] at the end, and line-safe. *)
Definition Good (V : bytes) (o : bool) (st : N) : Prop :=
  wf_st false (lex V) = Some o /\ mcl_st 0 (lex V) = Some st /\ linesafe (lex V) = true.

Lemma goodv_spec V o : goodv V o = true <-> Good V o 0.
Proof.
  unfold goodv, Good. rewrite !andb_true_iff, mcl_true.
  destruct (wf_st false (lex V)) as [o'|].
  - destruct o', o; cbn [Bool.eqb]; intuition congruence.
  - intuition congruence.
Qed.

Lemma good_pstb V o st : Good V o st -> pstb 0 V = st.
Proof. intros (_ & H & _). now apply mcl_st_pstb. Qed.

Lemma good_nil : Good [] false 0.
Proof. repeat split. Qed.

Lemma good_app x y o st o' st' :
  Good x o st -> nojoin st y = true ->
  wf_st o (lex y) = Some o' -> mcl_st st (lex y) = Some st' ->
  linesafe_aux o (lex y) = true ->
  Good (x ++ y) o' st'.
Proof.
  intros Hg Hj Hw Hm Hl. pose proof (good_pstb _ _ _ Hg) as Hp.
  destruct Hg as (Gw & Gm & Gl). unfold Good.
  rewrite (lex_app_st x 0 y) by (rewrite Hp; exact Hj).
  repeat split.
  - rewrite wf_st_app, Gw. exact Hw.
  - rewrite (mcl_st_app _ _ _ _ Gm). exact Hm.
  - unfold linesafe. rewrite (linesafe_app _ _ _ _ Gw).
    unfold linesafe in Gl. rewrite Gl, Hl. reflexivity.
Qed.

Lemma lex_app_start x : lex (x ++ startB) = lex x ++ [TS].
Proof.
  rewrite (lex_app_st x 0); [reflexivity|]. apply nojoin_first; discriminate.
Qed.
Lemma lex_app_end x : lex (x ++ endB) = lex x ++ [TE].
Proof.
  rewrite (lex_app_st x 0); [reflexivity|]. apply nojoin_first; discriminate.
Qed.

Lemma linesafe_app_l a : forall o b, linesafe_aux o (a ++ b) = true -> linesafe_aux o a = true.
Proof.
  induction a as [|t a IH]; intros o b H; [reflexivity|].
  destruct t; cbn [app linesafe_aux] in *.
  - now apply IH in H.
  - now apply IH in H.
  - destruct (o && (b0 =? LF)); [discriminate|]. now apply IH in H.
Qed.

Lemma good_drop_start x o st : Good (x ++ startB) o st -> Good x false 0 /\ o = true /\ st = 0.
Proof.
  unfold Good. rewrite lex_app_start. intros (Hw & Hm & Hl).
  apply mcl_st_unsnoc in Hm; [|reflexivity]. destruct Hm as [Hm ->].
  apply linesafe_app_l in Hl.
  rewrite wf_st_app in Hw. destruct (wf_st false (lex x)) as [[|]|]; cbn in Hw; try discriminate.
  injection Hw as <-. auto.
Qed.

Lemma good_drop_end x o st : Good (x ++ endB) o st -> Good x true 0 /\ o = false /\ st = 0.
Proof.
  unfold Good. rewrite lex_app_end. intros (Hw & Hm & Hl).
  apply mcl_st_unsnoc in Hm; [|reflexivity]. destruct Hm as [Hm ->].
  apply linesafe_app_l in Hl.
  rewrite wf_st_app in Hw. destruct (wf_st false (lex x)) as [[|]|]; cbn in Hw; try discriminate.
  injection Hw as <-. auto.
Qed.

Lemma good_add_start x : Good x false 0 -> Good (x ++ startB) true 0.
Proof.
  intros H. eapply good_app; [exact H | apply nojoin_0 | reflexivity..].
Qed.

Lemma good_add_end x : Good x true 0 -> Good (x ++ endB) false 0.
Proof.
  intros H. eapply good_app; [exact H | apply nojoin_0 | reflexivity..].
Qed.

Lemma nojoin_q st y : nojoin st (63 :: y) = true.
Proof. apply nojoin_first; discriminate. Qed.

Lemma good_add_q x o st : Good x o st -> Good (x ++ escB) o 0.
Proof.
  intros H. eapply good_app; [exact H | apply nojoin_q | reflexivity | | ].
  - change (lex escB) with [TB 63]. cbn [mcl_st]. rewrite pnext_other by discriminate. reflexivity.
  - change (lex escB) with [TB 63]. cbn [linesafe_aux].
    change (63 =? LF) with false. rewrite andb_false_r. reflexivity.
Qed.

Lemma good_add_byte x o st a :
  Good x o st -> nojoin st [a] = true -> o && (a =? LF) = false ->
  Good (x ++ [a]) o (pnext st a).
Proof.
  intros H Hj Hl. eapply good_app; [exact H | exact Hj | reflexivity | reflexivity | ].
  change (lex [a]) with [TB a]. cbn [linesafe_aux]. now rewrite Hl.
Qed.

Lemma good_nonempty x st : Good x true st -> x <> [].
Proof. intros (Hw & _) ->. cbn in Hw. discriminate. Qed.

(* closing an open envelope at the very end (endRedactable) *)
Lemma close_good x : Good x true 0 -> Good (close_or_elide x) false 0.
Proof.
  intros H. unfold close_or_elide. destruct (has_suffix x startB) eqn:E.
  - apply has_suffix_spec in E. destruct E as [y ->].
    rewrite drop_last_app by reflexivity.
    now apply good_drop_start in H.
  - now apply good_add_end.
Qed.

(* opening an envelope (startRedactable) *)
Lemma open_good x :
  Good x false 0 ->
  Good (if has_suffix x endB then drop_last 3 x else x ++ startB) true 0.
Proof.
  intros H. destruct (has_suffix x endB) eqn:E.
  - apply has_suffix_spec in E. destruct E as [y ->].
    rewrite drop_last_app by reflexivity.
    now apply good_drop_end in H.
  - now apply good_add_start.
Qed.

(* one line feed inside unsafe data *)
Lemma nl_step_good x st : Good x true st -> Good (nl_step x) true 0.
Proof.
  intros H. unfold nl_step, close_or_elide. destruct (has_suffix x startB) eqn:E.
  - apply has_suffix_spec in E. destruct E as [y ->].
    rewrite drop_last_app by reflexivity.
    apply good_drop_start in H. destruct H as (H & _ & _).
    rewrite <- app_assoc.
    eapply good_app; [exact H | apply nojoin_0 | reflexivity..].
  - rewrite <- !app_assoc.
    eapply good_app; [exact H | apply nojoin_first; discriminate | reflexivity | | reflexivity].
    change (lex (endB ++ [LF] ++ startB)) with [TE; TB LF; TS].
    cbn [mcl_st next_is_lf]. rewrite N.eqb_refl, orb_true_r. reflexivity.
Qed.

(* ------------------------------------------------------------------ *)
(** * 6. The escaping pass preserves goodness *)

Lemma nojoin_step st a r :
  (forall b c r', r = b :: c :: r' -> is_start3 a b c = false /\ is_end3 a b c = false) ->
  nojoin st (a :: r) = true -> nojoin (pnext st a) r = true.
Proof.
  intros Hm H.
  destruct (pnext_cases st a) as [[-> E]|[(Hn & -> & -> & E)|(Hn & Hor & E)]]; rewrite E.
  - destruct r as [|c [|d r']]; [reflexivity| |].
    + cbn [nojoin]. change (1 =? 2) with false. change (1 =? 1) with true. cbn iota.
      now rewrite andb_false_r.
    + cbn [nojoin]. change (1 =? 2) with false. change (1 =? 1) with true. cbn iota.
      destruct (Hm c d r' eq_refl) as [Hs He].
      destruct (N.eqb_spec c 128) as [->|]; [|reflexivity].
      unfold is_start3, is_end3 in Hs, He. cbn [andb] in *.
      change (226 =? 226) with true in *. change (128 =? 128) with true in *.
      cbn [andb] in *. unfold is_m3. now rewrite Hs, He.
  - destruct r as [|c r']; [reflexivity|].
    cbn [nojoin] in *. change (2 =? 2) with true. cbn iota.
    change (1 =? 2) with false in H. change (1 =? 1) with true in H. cbn iota in H.
    change (128 =? 128) with true in H. cbn [andb] in H. exact H.
  - apply nojoin_0.
Qed.

Theorem esc_toks_inv bnl s : forall acc st,
  Good acc bnl st -> nojoin st s = true ->
  Good (esc_toks bnl acc (lex s)) bnl (pstb st s).
Proof.
  induction s as [| r IH | r IH | c r Hm IH] using lex_ind3; intros acc st Hg Hj.
  - exact Hg.
  - rewrite lex_start, pstb_start. cbn [esc_toks]. apply IH; [|apply nojoin_0].
    eapply good_add_q. exact Hg.
  - rewrite lex_end, pstb_end. cbn [esc_toks]. apply IH; [|apply nojoin_0].
    eapply good_add_q. exact Hg.
  - rewrite lex_byte by assumption. rewrite pstb_cons. cbn [esc_toks].
    destruct (bnl && (c =? LF)) eqn:E.
    + apply andb_true_iff in E. destruct E as [-> E]. apply N.eqb_eq in E. subst c.
      rewrite pnext_other by discriminate.
      apply IH; [|apply nojoin_0]. eapply nl_step_good. exact Hg.
    + apply IH.
      * apply good_add_byte; [exact Hg | eapply nojoin_single; exact Hj | exact E].
      * now apply nojoin_step.
Qed.

Definition Utf8Fact : Prop := forall b : bytes, pstb 0 b <> 0%N -> last_invalid b = true.

Theorem esc_spec_good (U : Utf8Fact) bnl V P :
  Good V bnl 0 -> Good (esc_spec bnl V P) bnl 0.
Proof.
  intros Hg. unfold esc_spec.
  pose proof (esc_toks_inv bnl P V 0 Hg (nojoin_0 P)) as H.
  destruct (last_invalid (V ++ P)) eqn:E.
  - eapply good_add_q. exact H.
  - rewrite app_nil_r.
    assert (pstb 0 P = 0) as Hz.
    { destruct (N.eq_dec (pstb 0 (V ++ P)) 0) as [Hz|Hz].
      - rewrite pstb_app, (good_pstb _ _ _ Hg) in Hz. exact Hz.
      - apply U in Hz. congruence. }
    rewrite Hz in H. exact H.
Qed.

Lemma esc_spec_nil_good bnl V o : Good V o 0 -> Good (esc_spec bnl V []) o 0.
Proof.
  intros Hg. unfold esc_spec. cbn [lex esc_toks].
  destruct (last_invalid (V ++ [])).
  - eapply good_add_q. exact Hg.
  - now rewrite app_nil_r.
Qed.

(* ------------------------------------------------------------------ *)
(** * 7. The invariant in propositional form *)

Definition InvP (b : buffer) : Prop :=
  exists V P, buf b = V ++ P /\ validUntil b = length V /\
    match bmode b, markerOpen b with
    | MUnsafe, true => Good V true 0
    | MUnsafe, false => P = [] /\ Good V false 0
    | MSafe, false => Good V false 0
    | MRaw, false => Good (V ++ P) false 0
    | _, true => False
    end.

Lemma firstn_len_app (V P : bytes) : firstn (length V) (V ++ P) = V.
Proof.
  rewrite firstn_app, Nat.sub_diag, firstn_all. cbn [firstn]. apply app_nil_r.
Qed.
Lemma skipn_len_app (V P : bytes) : skipn (length V) (V ++ P) = P.
Proof.
  rewrite skipn_app, Nat.sub_diag, skipn_all. reflexivity.
Qed.

Lemma invb_InvP b : invb b = true <-> InvP b.
Proof.
  unfold invb, InvP. rewrite andb_true_iff, Nat.leb_le. split.
  - intros [Hle H].
    exists (firstn (validUntil b) (buf b)), (skipn (validUntil b) (buf b)).
    split; [symmetry; apply firstn_skipn|].
    split; [symmetry; now apply firstn_length_le|].
    destruct (bmode b), (markerOpen b); try discriminate.
    + now apply goodv_spec.
    + destruct (skipn (validUntil b) (buf b)); [|discriminate].
      split; [reflexivity | now apply goodv_spec].
    + now apply goodv_spec.
    + rewrite firstn_skipn. now apply goodv_spec.
  - intros (V & P & Hb & Hv & H). rewrite Hb, Hv, firstn_len_app, skipn_len_app.
    split; [rewrite app_length; lia|].
    destruct (bmode b), (markerOpen b); try contradiction.
    + now apply goodv_spec.
    + destruct H as [-> H]. now apply goodv_spec.
    + now apply goodv_spec.
    + now apply goodv_spec.
Qed.

Definition Inv (b : buffer) : Prop := invb b = true.

Theorem inv_init : Inv init.
Proof. reflexivity. Qed.

(* A settled state: everything validated, no open envelope. *)
Lemma settled_InvP x m : Good x false 0 -> InvP (mkBuf x (length x) m false).
Proof.
  intros H. exists x, []. cbn [buf validUntil bmode markerOpen].
  rewrite app_nil_r. split; [reflexivity|]. split; [reflexivity|].
  destruct m; auto.
Qed.

(* ------------------------------------------------------------------ *)
(** * 8. finalize *)

Lemma end_redactable_open x vu m :
  x <> [] -> end_redactable (mkBuf x vu m true) = mkBuf (close_or_elide x) vu m false.
Proof.
  intros H. unfold end_redactable. cbn [buf]. destruct x; [congruence|]. reflexivity.
Qed.

Theorem finalize_good (U : Utf8Fact) b :
  InvP b -> exists x, finalize b = mkBuf x (length x) (bmode b) false /\ Good x false 0.
Proof.
  destruct b as [bf vu m o]. intros (V & P & Hb & Hv & H).
  cbn [buf validUntil bmode markerOpen] in *. subst bf vu.
  destruct m, o; try contradiction.
  - (* unsafe, open *)
    pose proof (esc_spec_good U true V P H) as Hx.
    unfold finalize, escape_to_end. cbn [bmode buf validUntil mode_eqb].
    rewrite escape_spec. revert Hx. generalize (esc_spec true V P). intros x Hx.
    unfold set_valid, set_buf; cbn [buf validUntil bmode markerOpen].
    rewrite end_redactable_open by (eapply good_nonempty; exact Hx).
    cbn [buf validUntil bmode markerOpen].
    exists (close_or_elide x). split; [reflexivity|]. now apply close_good.
  - (* unsafe, closed: nothing pending *)
    destruct H as [-> H].
    pose proof (esc_spec_nil_good true V false H) as Hx.
    unfold finalize, escape_to_end. cbn [bmode buf validUntil mode_eqb].
    rewrite escape_spec. set (x := esc_spec true V []) in *.
    unfold set_valid, set_buf; cbn [buf validUntil bmode markerOpen].
    exists x. split; [reflexivity | exact Hx].
  - (* safe *)
    pose proof (esc_spec_good U false V P H) as Hx.
    unfold finalize, escape_to_end. cbn [bmode buf validUntil mode_eqb].
    rewrite escape_spec. set (x := esc_spec false V P) in *.
    unfold set_valid, set_buf; cbn [buf validUntil bmode markerOpen].
    exists x. split; [reflexivity | exact Hx].
  - (* raw *)
    unfold finalize, set_valid. cbn [bmode buf validUntil markerOpen].
    exists (V ++ P). split; [reflexivity | exact H].
Qed.

Lemma good_output x :
  Good x false 0 -> wf (lex x) = true /\ mcl (lex x) = true /\ linesafe (lex x) = true.
Proof.
  intros (Hw & Hm & Hl). split; [|split].
  - unfold wf. now apply wf_aux_st.
  - now apply mcl_true.
  - exact Hl.
Qed.

Theorem inv_finalize : Utf8Fact -> forall b, Inv b ->
  wf (lex (buf (finalize b))) = true /\ mcl (lex (buf (finalize b))) = true /\
  linesafe (lex (buf (finalize b))) = true.
Proof.
  intros U b Hb. apply invb_InvP in Hb.
  destruct (finalize_good U b Hb) as (x & -> & Hx). cbn [buf]. now apply good_output.
Qed.

(* ------------------------------------------------------------------ *)
(** * 9. The operations *)

(* SetMode to a different mode is finalize followed by the mode change. *)
Lemma set_mode_finalize b m :
  mode_eqb (bmode b) m = false -> set_mode b m = set_mode_field (finalize b) m.
Proof.
  destruct b as [bf vu m0 o]. unfold set_mode, finalize. cbn [bmode]. intros ->.
  destruct m0.
  - unfold escape_to_end. cbn [buf validUntil mode_eqb].
    generalize (escape bf vu true false). intros x.
    destruct o; unfold end_redactable, set_mode_field, set_valid, set_open, set_buf;
      cbn [buf validUntil bmode markerOpen]; [|reflexivity].
    destruct x; reflexivity.
  - unfold escape_to_end. cbn [buf validUntil mode_eqb].
    generalize (escape bf vu false false). intros x.
    destruct o; unfold end_redactable, set_mode_field, set_valid, set_open, set_buf;
      cbn [buf validUntil bmode markerOpen]; [|reflexivity].
    destruct x; reflexivity.
  - destruct o; unfold end_redactable, set_mode_field, set_valid, set_open, set_buf;
      cbn [buf validUntil bmode markerOpen]; [|reflexivity].
    destruct bf; reflexivity.
Qed.

Theorem set_mode_inv (U : Utf8Fact) b m : InvP b -> InvP (set_mode b m).
Proof.
  intros H. destruct (mode_eqb (bmode b) m) eqn:E.
  - unfold set_mode. rewrite E. exact H.
  - rewrite set_mode_finalize by exact E.
    destruct (finalize_good U b H) as (x & -> & Hx).
    unfold set_mode_field. cbn [buf validUntil bmode markerOpen].
    now apply settled_InvP.
Qed.

Lemma raw_payload_good p : raw_payload_ok p = true ->
  wf_st false (lex p) = Some false /\ mcl_st 0 (lex p) = Some 0 /\ linesafe (lex p) = true.
Proof.
  unfold raw_payload_ok, redactableb. rewrite !andb_true_iff.
  intros [[Hw Hm] Hl]. split; [|split].
  - now apply wf_aux_st.
  - now apply mcl_true.
  - exact Hl.
Qed.

Theorem write_inv b p :
  InvP b -> (bmode b = MRaw -> raw_payload_ok p = true) -> InvP (write b p).
Proof.
  destruct b as [bf vu m o]. intros (V & P & Hb & Hv & H) Hraw.
  cbn [buf validUntil bmode markerOpen] in *. subst bf vu.
  unfold write, start_write. cbn [bmode markerOpen].
  destruct m, o; try contradiction; cbn [mode_eqb negb andb].
  - exists V, (P ++ p). unfold set_buf. cbn [buf validUntil bmode markerOpen].
    rewrite app_assoc. auto.
  - destruct H as [-> H]. rewrite app_nil_r in *.
    unfold start_redactable, set_valid, set_open, set_buf.
    cbn [buf validUntil bmode markerOpen].
    pose proof (open_good V H) as Hx. revert Hx.
    generalize (if has_suffix V endB then drop_last 3 V else V ++ startB). intros x Hx.
    exists x, p. auto.
  - exists V, (P ++ p). unfold set_buf. cbn [buf validUntil bmode markerOpen].
    rewrite app_assoc. auto.
  - exists V, (P ++ p). unfold set_buf. cbn [buf validUntil bmode markerOpen].
    rewrite app_assoc. split; [reflexivity|]. split; [reflexivity|].
    destruct (raw_payload_good p (Hraw eq_refl)) as (Hw & Hm & Hl).
    eapply good_app; [exact H | apply nojoin_0 | exact Hw | exact Hm | exact Hl].
Qed.

Lemma start_write_mode b : bmode (start_write b) = bmode b.
Proof.
  unfold start_write. destruct (mode_eqb (bmode b) MUnsafe && negb (markerOpen b)); reflexivity.
Qed.

Lemma start_write_idem b : start_write (start_write b) = start_write b.
Proof.
  destruct b as [bf vu m o]. unfold start_write at 2. cbn [bmode markerOpen].
  destruct m, o; cbn [mode_eqb negb andb]; try reflexivity.
Qed.

Lemma write_byte_write b c :
  write_byte b c =
  write b (if mode_eqb (bmode b) MUnsafe && ((128 <=? c) || (c =? 226)) then escB else [c]).
Proof.
  unfold write_byte. rewrite start_write_mode.
  destruct (mode_eqb (bmode b) MUnsafe && ((128 <=? c) || (c =? 226))) eqn:E.
  - unfold write. rewrite start_write_idem. reflexivity.
  - reflexivity.
Qed.

Theorem inv_step : Utf8Fact -> forall b o, Inv b -> op_ok b o = true -> Inv (fst (step b o)).
Proof.
  intros U b o Hb Hok. unfold Inv in *. rewrite invb_InvP in *.
  destruct o; cbn [step fst]; try exact Hb.
  - now apply set_mode_inv.
  - apply write_inv; [exact Hb|]. intros Hm. unfold op_ok in Hok. now rewrite Hm in Hok.
  - rewrite write_byte_write. apply write_inv; [exact Hb|].
    intros Hm. unfold op_ok in Hok. rewrite Hm in *. exact Hok.
  - unfold write_rune. fold (write b (encode_rune r)). apply write_inv; [exact Hb|].
    intros Hm. unfold op_ok in Hok. now rewrite Hm in Hok.
  - unfold take. cbn [fst].
    destruct (finalize_good U b Hb) as (x & -> & Hx). cbn [markerOpen].
    apply invb_InvP. reflexivity.
  - apply invb_InvP. reflexivity.
Qed.

(* ------------------------------------------------------------------ *)
(** * 10. Histories *)

Lemma inv_run_from (U : Utf8Fact) ops : forall b,
  Inv b -> rawok_from b ops = true -> Inv (run_from b ops).
Proof.
  induction ops as [|o ops IH]; intros b Hb Hok.
  - exact Hb.
  - cbn [rawok_from] in Hok. apply andb_true_iff in Hok. destruct Hok as [Ho Hok].
    unfold run_from. cbn [fold_left]. apply IH; [|exact Hok].
    now apply inv_step.
Qed.

Theorem inv_run : Utf8Fact -> forall ops, rawok ops = true -> Inv (run ops).
Proof.
  intros U ops H. apply inv_run_from; [exact U | apply inv_init | exact H].
Qed.

Theorem buffer_output_redactable : Utf8Fact -> forall ops, rawok ops = true ->
  Redactable (output ops) /\ linesafe (lex (output ops)) = true.
Proof.
  intros U ops H. unfold output, redactable_bytes, Redactable, redactableb.
  destruct (inv_finalize U (run ops) (inv_run U ops H)) as (Hw & Hm & Hl).
  rewrite Hw, Hm, Hl. auto.
Qed.

Lemma rawok_from_app ops1 : forall b ops2,
  rawok_from b (ops1 ++ ops2) = true -> rawok_from b ops1 = true.
Proof.
  induction ops1 as [|o ops1 IH]; intros b ops2 H; [reflexivity|].
  cbn [app rawok_from] in *. apply andb_true_iff in H. destruct H as [Ho H].
  rewrite Ho. cbn [andb]. eapply IH. exact H.
Qed.

(* every redactable handed out in the middle of a history is good too *)
Theorem buffer_observations_redactable : Utf8Fact -> forall ops o r,
  rawok (ops ++ [o]) = true ->
  (o = ORS \/ o = ORB \/ o = OTake) -> snd (step (run ops) o) = ObR r ->
  Redactable r /\ linesafe (lex r) = true.
Proof.
  intros U ops o r Hok Ho Hr.
  apply rawok_from_app in Hok. fold (rawok ops) in Hok.
  assert (r = output ops) as ->.
  { unfold output, redactable_bytes.
    destruct Ho as [-> | [-> | ->]]; cbn [step snd] in Hr.
    - now injection Hr as <-.
    - now injection Hr as <-.
    - unfold take in Hr. cbn [snd] in Hr. now injection Hr as <-. }
  now apply buffer_output_redactable.
Qed.

Print Assumptions buffer_output_redactable.
Print Assumptions buffer_observations_redactable.
