(* Layer 2 proofs, memory level: every slice expression of buffer.go is in range (no Go runtime
   panic in any reachable state); each method refines its list-level counterpart; the accessors,
   which finalize a COPY of the struct that shares the backing array, leave what the original
   struct denotes untouched (they write beyond its length or into new arrays only); a string
   handed out by TakeRedactableString, which aliases the array, is never written again. *)
From Redact Require Import Bytes Tokens Utf8 Escape Buffer Ops BufMem.
From Coq Require Import Lia.
Import List ListNotations.
Open Scope nat_scope.

(* ---------- lists ---------- *)
Lemma nth_set_nth_eq {A} (l : list A) i x d : i < length l -> nth i (set_nth l i x) d = x.
Proof. revert i. induction l as [|y r IH]; intros [|k] H; cbn in *; try lia; [reflexivity | apply IH; lia]. Qed.
Lemma nth_set_nth_neq {A} (l : list A) i j x d : i <> j -> nth j (set_nth l i x) d = nth j l d.
Proof. revert i j. induction l as [|y r IH]; intros [|k] [|j] H; cbn; try reflexivity; try lia. apply IH. lia. Qed.
Lemma length_set_nth {A} (l : list A) i x : length (set_nth l i x) = length l.
Proof. revert i. induction l as [|y r IH]; intros [|k]; cbn; auto. Qed.

Lemma splice_spec l off p a' : splice l off p = Some a' ->
  length a' = length l /\ firstn off a' = firstn off l /\ firstn (off + length p) a' = firstn off l ++ p.
Proof.
  unfold splice. destruct (off + length p <=? length l) eqn:E; [|discriminate]. apply Nat.leb_le in E.
  intros H. injection H as <-. repeat split.
  - rewrite !app_length, firstn_length, skipn_length. lia.
  - rewrite firstn_app, firstn_firstn, firstn_length. replace (off - Nat.min off (length l)) with 0 by lia.
    cbn. rewrite app_nil_r. f_equal. lia.
  - rewrite app_assoc, firstn_app. rewrite app_length, firstn_length.
    replace (off + length p - (Nat.min off (length l) + length p)) with 0 by lia. cbn. rewrite app_nil_r.
    apply firstn_all2. rewrite app_length, firstn_length. lia.
Qed.

Lemma splice_total l off p : off + length p <= length l -> exists a', splice l off p = Some a'.
Proof. intros H. unfold splice. apply Nat.leb_le in H. rewrite H. eauto. Qed.

(* ---------- the invariant of a struct and the heap it lives in ---------- *)
Definition cinv (h : heap) (c : cbuf) : Prop :=
  match carr c with
  | Some id => id < length h /\ clen c <= length (arr h id)
  | None => clen c = 0
  end.

(* what a struct d denotes is untouched by going from h to h' (a step made through c):
   arrays are only appended; an existing array changes only if it is c's, and then only at
   indexes >= the given bound *)
Definition hext (h h' : heap) (who : option nat) (bound : nat) : Prop :=
  length h <= length h' /\
  forall id, id < length h ->
    length (arr h' id) = length (arr h id) /\
    (who = Some id -> firstn bound (arr h' id) = firstn bound (arr h id)) /\
    (who <> Some id -> arr h' id = arr h id).

Lemma firstn_le_eq {A} (l1 l2 : list A) b b' : b' <= b -> firstn b l1 = firstn b l2 -> firstn b' l1 = firstn b' l2.
Proof.
  intros H E. assert (forall l : list A, firstn b' l = firstn b' (firstn b l)) as Hf by (intros l; rewrite firstn_firstn; f_equal; lia).
  rewrite (Hf l1), (Hf l2), E. reflexivity.
Qed.

Lemma hext_weaken h h' who b b' : b' <= b -> hext h h' who b -> hext h h' who b'.
Proof.
  intros Hb [L F]. split; [exact L|]. intros id Hid. destruct (F id Hid) as (A & B & C). repeat split; auto.
  intros Hw. eapply firstn_le_eq; [exact Hb | now apply B].
Qed.

Lemma hext_refl h who b : hext h h who b.
Proof. split; [lia|]. intros id _. auto. Qed.

Lemma arr_app_old h x id : id < length h -> arr (h ++ x) id = arr h id.
Proof. intros H. unfold arr. now rewrite app_nth1. Qed.
Lemma arr_app_new h a : arr (h ++ [a]) (length h) = a.
Proof. unfold arr. rewrite app_nth2 by lia. now rewrite Nat.sub_diag. Qed.

Lemma hext_alloc h a who b : hext h (h ++ [a]) who b.
Proof.
  split; [rewrite app_length; lia|]. intros id H. rewrite arr_app_old by exact H. auto.
Qed.

Lemma hext_trans h1 h2 h3 who b : hext h1 h2 who b -> hext h2 h3 who b -> hext h1 h3 who b.
Proof.
  intros [L1 F1] [L2 F2]. split; [lia|]. intros id H.
  destruct (F1 id H) as (A1 & B1 & C1). destruct (F2 id ltac:(lia)) as (A2 & B2 & C2).
  repeat split; [congruence | intros E; rewrite (B2 E); auto | intros E; rewrite (C2 E); auto].
Qed.

(* ---------- growing and appending ---------- *)
Lemma cread_len h c : cinv h c -> length (cread h c) = clen c.
Proof.
  unfold cinv, cread. destruct (carr c) as [id|]; [intros [_ H]; rewrite firstn_length; lia | intros ->; reflexivity].
Qed.

Ltac spl := repeat match goal with |- _ /\ _ => split end.

Definition hsame (h h1 : heap) : Prop := length h <= length h1 /\ forall id, id < length h -> arr h1 id = arr h id.
Lemma hsame_refl h : hsame h h. Proof. split; auto. Qed.
Lemma hsame_alloc h a : hsame h (h ++ [a]).
Proof. split; [rewrite app_length; lia | intros id H; now apply arr_app_old]. Qed.

Lemma cgrow_spec h c n : cinv h c ->
  exists m h1 c1, cgrow h c n = Some (m, h1, c1) /\
    m = clen c /\ clen c1 = clen c + n /\ cinv h1 c1 /\
    cvalid c1 = cvalid c /\ cmode c1 = cmode c /\ copen c1 = copen c /\
    firstn m (cread h1 c1) = cread h c /\ hsame h h1 /\
    (carr c1 = carr c \/ (exists id1, carr c1 = Some id1 /\ length h <= id1)).
Proof.
  intros Hi. unfold cgrow, ctry_grow, creslice.
  destruct (n <=? ccap h c - clen c) eqn:E1.
  - (* reslice *)
    apply Nat.leb_le in E1. assert (clen c + n <=? ccap h c = true) as -> by (apply Nat.leb_le; unfold ccap, cinv in *; destruct (carr c); lia).
    exists (clen c), h, (set_clen c (clen c + n)). cbn [clen cvalid cmode copen carr set_clen]. spl; auto.
    + unfold cinv, ccap in *. cbn [carr clen set_clen]. destruct (carr c) as [id|]; cbn iota in *; [destruct Hi; split; lia | lia].
    + unfold cread. cbn [carr clen set_clen]. destruct (carr c) as [id|]; [|destruct (clen c); reflexivity].
      rewrite firstn_firstn. f_equal. lia.
    + apply hsame_refl.
  - apply Nat.leb_gt in E1. destruct (carr c) as [id|] eqn:Ea.
    + unfold cinv in Hi. rewrite Ea in Hi. destruct Hi as [Hid Hl]. unfold ccap in E1. rewrite Ea in E1.
      destruct (n + clen c <=? length (arr h id) / 2) eqn:E2.
      { apply Nat.leb_le in E2.
        assert (length (arr h id) / 2 <= length (arr h id)) by (apply Nat.div_le_upper_bound; lia). lia. }
      set (a' := firstn (clen c) (arr h id) ++ zeros_n (2 * length (arr h id) + n - clen c)).
      exists (clen c), (h ++ [a']), (set_carr c (Some (length h)) (clen c + n)).
      cbn [clen cvalid cmode copen carr set_carr]. spl; auto.
      * unfold cinv. cbn [carr clen set_carr]. rewrite app_length, arr_app_new. cbn [length]. split; [lia|].
        unfold a', zeros_n. rewrite app_length, firstn_length, repeat_length. lia.
      * unfold cread. cbn [carr clen set_carr]. rewrite arr_app_new, Ea. rewrite firstn_firstn.
        replace (Nat.min (clen c) (clen c + n)) with (clen c) by lia. unfold a'. rewrite firstn_app, firstn_firstn, firstn_length.
        replace (clen c - Nat.min (clen c) (length (arr h id))) with 0 by lia. cbn. rewrite app_nil_r. f_equal. lia.
      * apply hsame_alloc.
      * right. exists (length h). auto.
    + unfold cinv in Hi. rewrite Ea in Hi.
      destruct (n <=? 64) eqn:E2.
      * exists 0, (h ++ [zeros_n 64]), (set_carr c (Some (length h)) n). cbn [clen cvalid cmode copen carr set_carr].
        apply Nat.leb_le in E2. spl; auto; try lia.
        -- unfold cinv. cbn [carr clen set_carr]. rewrite app_length, arr_app_new. cbn [length]. unfold zeros_n. rewrite repeat_length. lia.
        -- unfold cread. rewrite Ea. reflexivity.
        -- apply hsame_alloc.
        -- right. exists (length h). auto.
      * exists (clen c), (h ++ [zeros_n n]), (set_carr c (Some (length h)) (clen c + n)). cbn [clen cvalid cmode copen carr set_carr].
        spl; auto.
        -- unfold cinv. cbn [carr clen set_carr]. rewrite app_length, arr_app_new. cbn [length]. unfold zeros_n. rewrite repeat_length. lia.
        -- unfold cread. rewrite Ea, Hi. reflexivity.
        -- apply hsame_alloc.
        -- right. exists (length h). auto.
Qed.

Lemma nth_firstn_same {A} (l : list A) n : firstn n (firstn n l) = firstn n l.
Proof. rewrite firstn_firstn. f_equal. lia. Qed.

Lemma cappend_spec h c p : cinv h c ->
  exists h2 c2, cappend h c p = Some (h2, c2) /\
    cread h2 c2 = cread h c ++ p /\ cinv h2 c2 /\
    cvalid c2 = cvalid c /\ cmode c2 = cmode c /\ copen c2 = copen c /\ clen c2 = clen c + length p /\
    hext h h2 (carr c) (clen c) /\
    (carr c2 = carr c \/ (exists id1, carr c2 = Some id1 /\ length h <= id1)).
Proof.
  intros Hi. unfold cappend.
  destruct (cgrow_spec h c (length p) Hi) as (m & h1 & c1 & -> & Em & El & Hi1 & Ev & Emo & Eo & Er & [Hl Hs] & Hc).
  unfold cwrite_at. destruct (carr c1) as [id1|] eqn:Ea1.
  - unfold cinv in Hi1. rewrite Ea1 in Hi1. destruct Hi1 as [Hid1 Hl1].
    assert (m + length p <=? clen c1 = true) as -> by (apply Nat.leb_le; lia).
    destruct (splice_total (arr h1 id1) m p ltac:(lia)) as [a' Ea']. rewrite Ea'.
    destruct (splice_spec _ _ _ _ Ea') as (La & Fa & Fb).
    exists (set_nth h1 id1 a'), c1. spl; auto.
    + assert (cread (set_nth h1 id1 a') c1 = firstn (clen c1) a') as ->
        by (unfold cread, arr; rewrite Ea1, nth_set_nth_eq by exact Hid1; reflexivity).
      rewrite El, <- Em, Fb. f_equal. rewrite <- Er. unfold cread. rewrite Ea1. rewrite firstn_firstn. f_equal. lia.
    + unfold cinv. rewrite Ea1, length_set_nth. unfold arr. rewrite nth_set_nth_eq by exact Hid1. split; [exact Hid1 | lia].
    + split; [rewrite length_set_nth; lia|]. intros id Hid.
      destruct (Nat.eq_dec id id1) as [->|Hne].
      * assert (arr (set_nth h1 id1 a') id1 = a') as -> by (unfold arr; now rewrite nth_set_nth_eq).
        rewrite <- (Hs id1 Hid).
        spl; [exact La | | ].
        -- intros _. rewrite <- Em. exact Fa.
        -- intros Hw. destruct Hc as [Hc | (id2 & Hc & Hge)]; [congruence|]. injection Hc as <-. lia.
      * assert (arr (set_nth h1 id1 a') id = arr h id) as -> by (unfold arr; rewrite nth_set_nth_neq by auto; apply (Hs id Hid)). auto.
    + rewrite Ea1. exact Hc.
  - (* nil slice: nothing to write *)
    unfold cinv in Hi1. rewrite Ea1 in Hi1.
    assert (p = [] /\ m = 0) as [-> ->] by (split; [destruct p; [reflexivity | cbn in El; lia] | lia]).
    cbn [Nat.leb]. exists h1, c1. spl; auto.
    + rewrite app_nil_r. rewrite <- Er. unfold cread. rewrite Ea1. reflexivity.
    + unfold cinv. now rewrite Ea1.
    + split; [exact Hl|]. intros id Hid. rewrite (Hs id Hid). auto.
    + rewrite Ea1. exact Hc.
Qed.

(* ---------- each method refines its list-level counterpart ---------- *)
Definition same_fields (c c' : cbuf) : Prop := cvalid c' = cvalid c /\ cmode c' = cmode c /\ copen c' = copen c.

Lemma cabs_eq h c b : cread h c = buf b -> cvalid c = validUntil b -> cmode c = bmode b -> copen c = markerOpen b -> cabs h c = b.
Proof. intros. unfold cabs. destruct b; cbn in *; congruence. Qed.

(* a step through c: arrays only grow in number; c's array is written beyond clen c only *)
Definition stepok (h : heap) (c : cbuf) (h' : heap) (c' : cbuf) : Prop :=
  cinv h' c' /\ hext h h' (carr c) (clen c) /\ (carr c' = carr c \/ (exists id1, carr c' = Some id1 /\ length h <= id1)).

Lemma cstart_redactable_spec h c : cinv h c ->
  exists h' c', cstart_redactable h c = Some (h', c') /\ cabs h' c' = start_redactable (cabs h c) /\
    cinv h' c' /\ hext h h' (carr c) (clen c - 3) /\ (carr c' = carr c \/ (exists id1, carr c' = Some id1 /\ length h <= id1)).
Proof.
  intros Hi. unfold cstart_redactable, start_redactable. cbn [buf cabs].
  destruct (has_suffix (cread h c) endB) eqn:E.
  - unfold creslice. assert (clen c - 3 <=? ccap h c = true) as -> by (apply Nat.leb_le; unfold ccap, cinv in *; destruct (carr c); [destruct Hi|]; lia).
    exists h, (set_copen (set_clen c (clen c - 3)) true). spl; auto.
    + apply cabs_eq; cbn; auto. unfold cread, drop_last. cbn [carr clen set_copen set_clen].
      destruct (carr c) as [id|] eqn:Ea; [|reflexivity]. rewrite firstn_firstn, firstn_length.
      unfold cinv in Hi. rewrite Ea in Hi. destruct Hi. f_equal. lia.
    + unfold cinv in *. cbn [carr clen set_copen set_clen]. destruct (carr c); [destruct Hi; split; lia | lia].
    + apply hext_refl.
  - destruct (cappend_spec h c startB Hi) as (h2 & c2 & -> & Er & Hi2 & Ev & Em & Eo & El & Hx & Hc).
    exists h2, (set_copen c2 true). spl; auto.
    + apply cabs_eq; cbn; auto.
    + eapply hext_weaken; [|exact Hx]. lia.
Qed.

Lemma cstart_write_spec h c : cinv h c ->
  exists h' c', cstart_write h c = Some (h', c') /\ cabs h' c' = start_write (cabs h c) /\ cinv h' c'.
Proof.
  intros Hi. unfold cstart_write, start_write. cbn [bmode markerOpen cabs].
  destruct (mode_eqb (cmode c) MUnsafe && negb (copen c)); [|exists h, c; auto].
  destruct (cstart_redactable_spec h c Hi) as (h' & c' & -> & Ea & Hi' & _).
  exists h', (set_cvalid c' (clen c')). spl; auto.
  rewrite <- Ea. unfold cabs, set_valid. cbn. f_equal. now rewrite (cread_len h' c' Hi').
Qed.

Lemma cend_redactable_spec h c : cinv h c ->
  exists h' c', cend_redactable h c = Some (h', c') /\ cabs h' c' = end_redactable (cabs h c) /\
    cinv h' c' /\ hext h h' (carr c) (clen c).
Proof.
  intros Hi. unfold cend_redactable, end_redactable. cbn [buf cabs].
  pose proof (cread_len h c Hi) as Hlen.
  destruct (clen c) as [|k] eqn:Ek.
  - destruct (cread h c); [|discriminate]. exists h, c. spl; auto. apply hext_refl.
  - destruct (cread h c) as [|x0 r0] eqn:Er; [discriminate|]. rewrite <- Er.
    destruct (has_suffix (cread h c) startB) eqn:E.
    + unfold creslice. assert (S k - 3 <=? ccap h c = true) as -> by (apply Nat.leb_le; unfold ccap, cinv in *; destruct (carr c); [destruct Hi|]; lia).
      exists h, (set_copen (set_clen c (S k - 3)) false). spl; auto.
      * apply cabs_eq; cbn; auto. unfold cread, drop_last in *. cbn [carr clen set_copen set_clen].
        destruct (carr c) as [id|] eqn:Ea; [|discriminate]. rewrite firstn_firstn, firstn_length.
        unfold cinv in Hi. rewrite Ea in Hi. destruct Hi. f_equal. lia.
      * unfold cinv in *. cbn [carr clen set_copen set_clen]. destruct (carr c); [destruct Hi; split; lia | lia].
      * apply hext_refl.
    + destruct (cappend_spec h c endB Hi) as (h2 & c2 & -> & Er2 & Hi2 & Ev & Em & Eo & El & Hx & Hc).
      exists h2, (set_copen c2 false). spl; auto.
      * apply cabs_eq; cbn; auto.
      * rewrite <- Ek. exact Hx.
Qed.

(* the scanner: same slice, or a new array *)
Lemma cescape_spec ecap h c bnl : cinv h c ->
  let '(h', c') := cescape_to_end ecap h c bnl in
  cabs h' c' = escape_to_end (cabs h c) bnl /\ cinv h' c' /\ hsame h h' /\
  copen c' = copen c /\ cmode c' = cmode c /\
  ((carr c' = carr c /\ clen c' = clen c) \/ (exists id1, carr c' = Some id1 /\ length h <= id1)).
Proof.
  intros Hi. unfold cescape_to_end, escape_to_end, escape. cbn [buf validUntil cabs].
  pose proof (cread_len h c Hi) as Hlen.
  destruct (escape_full (cread h c) (cvalid c) bnl false) as [y copied] eqn:E. cbn [fst].
  destruct copied.
  - spl; auto.
    + apply cabs_eq; cbn; auto. unfold cread. cbn [carr clen set_cvalid set_carr]. rewrite arr_app_new.
      rewrite firstn_app, firstn_all, Nat.sub_diag. cbn. now rewrite app_nil_r.
    + unfold cinv. cbn [carr clen set_cvalid set_carr]. rewrite app_length, arr_app_new. cbn [length].
      split; [lia|]. rewrite app_length. lia.
    + apply hsame_alloc.
    + right. exists (length h). cbn. auto.
  - assert (y = cread h c) as ->.
    { unfold escape_full in E. cbn [negb] in E.
      destruct (esc_loop (length (cread h c)) (cread h c) bnl (cvalid c) 0 false []) as [[k cp] res].
      destruct (last_invalid (cread h c)); [discriminate E|]. destruct cp; [discriminate E|]. now injection E. }
    spl; auto.
    + apply cabs_eq; cbn; auto. 
    + apply hsame_refl.
Qed.

Lemma hsame_hext h h' who b : hsame h h' -> hext h h' who b.
Proof. intros [L F]. split; [exact L|]. intros id Hid. rewrite (F id Hid). auto. Qed.

(* finalize, run on a struct c (possibly a copy): c's array is written only beyond clen c *)
Lemma cfinalize_spec ecap h c : cinv h c ->
  exists h' c', cfinalize ecap h c = Some (h', c') /\ cabs h' c' = finalize (cabs h c) /\ cinv h' c' /\
    hext h h' (carr c) (clen c).
Proof.
  intros Hi. unfold cfinalize, finalize.
  match goal with |- context [markerOpen ?x] => set (b1 := x) end.
  assert (exists h1 c1, (match cmode c with MRaw => (h, set_cvalid c (clen c)) | m => cescape_to_end ecap h c (mode_eqb m MUnsafe) end) = (h1, c1) /\
            cabs h1 c1 = b1 /\
            cinv h1 c1 /\ hsame h h1 /\ ((carr c1 = carr c /\ clen c1 = clen c) \/ (exists id1, carr c1 = Some id1 /\ length h <= id1)))
    as (h1 & c1 & -> & Ea1 & Hi1 & Hs1 & Hc1).
  { unfold b1. cbn [bmode cabs]. destruct (cmode c) eqn:Em.
    - pose proof (cescape_spec ecap h c (mode_eqb MUnsafe MUnsafe) Hi) as Hs.
      destruct (cescape_to_end ecap h c (mode_eqb MUnsafe MUnsafe)) as [h1 c1]. destruct Hs as (A & B & C & _ & _ & D). exists h1, c1.
      spl; auto.
    - pose proof (cescape_spec ecap h c (mode_eqb MSafe MUnsafe) Hi) as Hs.
      destruct (cescape_to_end ecap h c (mode_eqb MSafe MUnsafe)) as [h1 c1]. destruct Hs as (A & B & C & _ & _ & D). exists h1, c1.
      spl; auto.
    - exists h, (set_cvalid c (clen c)). spl; auto.
      + unfold cabs, set_valid. cbn. f_equal; auto. now rewrite (cread_len h c Hi).
      + apply hsame_refl. }
  assert (copen c1 = markerOpen (cabs h1 c1)) as Eo by reflexivity.
  rewrite <- Ea1, <- Eo.
  destruct (copen c1).
  - destruct (cend_redactable_spec h1 c1 Hi1) as (h2 & c2 & -> & Ea2 & Hi2 & Hx2).
    exists h2, (set_cvalid c2 (clen c2)). spl; auto.
    + rewrite <- Ea2. unfold cabs, set_valid. cbn. f_equal. now rewrite (cread_len h2 c2 Hi2).
    + (* frame *)
      destruct Hc1 as [[Ec El] | (id1 & Ec & Hge)].
      * eapply hext_trans; [apply hsame_hext; exact Hs1|]. rewrite <- Ec, <- El. exact Hx2.
      * destruct Hx2 as [L F]. destruct Hs1 as [Ls Fs]. split; [lia|]. intros id Hid.
        destruct (F id ltac:(lia)) as (A & B & C).
        assert (arr h2 id = arr h id) as E by (rewrite C, (Fs id Hid); [reflexivity | rewrite Ec; intros X; injection X as X; lia]).
        rewrite E. auto.
  - exists h1, c1. spl; auto. apply hsame_hext. exact Hs1.
Qed.


Lemma cset_mode_spec ecap h c m : cinv h c ->
  exists h' c', cset_mode ecap h c m = Some (h', c') /\ cabs h' c' = set_mode (cabs h c) m /\ cinv h' c'.
Proof.
  intros Hi. unfold cset_mode, set_mode. cbn [bmode cabs].
  destruct (mode_eqb (cmode c) m); [exists h, c; auto|].
  match goal with |- context [markerOpen ?x] => set (b1 := x) end.
  assert (exists h1 c1, (match cmode c with MRaw => (h, c) | m0 => cescape_to_end ecap h c (mode_eqb m0 MUnsafe) end) = (h1, c1) /\
            cabs h1 c1 = b1 /\ cinv h1 c1) as (h1 & c1 & -> & Ea1 & Hi1).
  { unfold b1. cbn [bmode cabs]. destruct (cmode c) eqn:Em.
    - pose proof (cescape_spec ecap h c (mode_eqb MUnsafe MUnsafe) Hi) as Hs.
      destruct (cescape_to_end ecap h c (mode_eqb MUnsafe MUnsafe)) as [h1 c1]. destruct Hs as (A & B & _). exists h1, c1. auto.
    - pose proof (cescape_spec ecap h c (mode_eqb MSafe MUnsafe) Hi) as Hs.
      destruct (cescape_to_end ecap h c (mode_eqb MSafe MUnsafe)) as [h1 c1]. destruct Hs as (A & B & _). exists h1, c1. auto.
    - exists h, c. spl; auto. }
  assert (copen c1 = markerOpen b1) as Eo by (rewrite <- Ea1; reflexivity). rewrite <- Eo.
  destruct (copen c1).
  - destruct (cend_redactable_spec h1 c1 Hi1) as (h2 & c2 & -> & Ea2 & Hi2 & _).
    exists h2, (set_cmode (set_cvalid c2 (clen c2)) m). spl; auto.
    rewrite <- Ea1, <- Ea2. unfold cabs, set_mode_field, set_valid. cbn. f_equal. now rewrite (cread_len h2 c2 Hi2).
  - exists h1, (set_cmode (set_cvalid c1 (clen c1)) m). spl; auto.
    rewrite <- Ea1. unfold cabs, set_mode_field, set_valid. cbn. f_equal. now rewrite (cread_len h1 c1 Hi1).
Qed.

Lemma cappend_abs h c p : cinv h c ->
  exists h2 c2, cappend h c p = Some (h2, c2) /\ cabs h2 c2 = set_buf (cabs h c) (buf (cabs h c) ++ p) /\ cinv h2 c2.
Proof.
  intros Hi. destruct (cappend_spec h c p Hi) as (h2 & c2 & E & Er & Hi2 & Ev & Em & Eo & _).
  exists h2, c2. spl; auto. apply cabs_eq; cbn; auto.
Qed.

Lemma cwrite_spec h c p : cinv h c ->
  exists h' c', cwrite h c p = Some (h', c') /\ cabs h' c' = write (cabs h c) p /\ cinv h' c'.
Proof.
  intros Hi. unfold cwrite, write. destruct (cstart_write_spec h c Hi) as (h1 & c1 & -> & Ea & Hi1).
  destruct (cappend_abs h1 c1 p Hi1) as (h2 & c2 & -> & Ea2 & Hi2). exists h2, c2. spl; auto. now rewrite Ea2, Ea.
Qed.

Lemma cwrite_byte_spec h c x : cinv h c ->
  exists h' c', cwrite_byte h c x = Some (h', c') /\ cabs h' c' = write_byte (cabs h c) x /\ cinv h' c'.
Proof.
  intros Hi. unfold cwrite_byte, write_byte. destruct (cstart_write_spec h c Hi) as (h1 & c1 & -> & Ea & Hi1).
  rewrite <- Ea. cbn [bmode cabs].
  destruct (mode_eqb (cmode c1) MUnsafe && ((128 <=? x)%N || (x =? 226)%N)).
  - destruct (cwrite_spec h1 c1 escB Hi1) as (h2 & c2 & -> & Ea2 & Hi2). exists h2, c2. auto.
  - destruct (cappend_abs h1 c1 [x] Hi1) as (h2 & c2 & -> & Ea2 & Hi2). exists h2, c2. auto.
Qed.

Lemma cwrite_rune_spec h c r : cinv h c ->
  exists h' c', cwrite_rune h c r = Some (h', c') /\ cabs h' c' = write_rune (cabs h c) r /\ cinv h' c'.
Proof.
  intros Hi. unfold cwrite_rune, write_rune. destruct (cstart_write_spec h c Hi) as (h1 & c1 & -> & Ea & Hi1).
  destruct (cappend_abs h1 c1 (encode_rune r) Hi1) as (h2 & c2 & -> & Ea2 & Hi2). exists h2, c2. spl; auto. now rewrite Ea2, Ea.
Qed.

Lemma cgrow_op_spec h c n : cinv h c ->
  exists h' c', cgrow_op h c n = Some (h', c') /\ cabs h' c' = cabs h c /\ cinv h' c'.
Proof.
  intros Hi. unfold cgrow_op.
  destruct (cgrow_spec h c n Hi) as (m & h1 & c1 & -> & Em & El & Hi1 & Ev & Emo & Eo & Er & _).
  unfold creslice. assert (m <=? ccap h1 c1 = true) as -> by (apply Nat.leb_le; unfold ccap, cinv in *; destruct (carr c1); [destruct Hi1|]; lia).
  exists h1, (set_clen c1 m). spl; auto.
  - apply cabs_eq; cbn; auto. rewrite <- Er. unfold cread. cbn [carr clen set_clen]. destruct (carr c1); [|destruct m; reflexivity].
    rewrite firstn_firstn. f_equal. lia.
  - unfold cinv in *. cbn [carr clen set_clen]. destruct (carr c1); [destruct Hi1; split; lia | lia].
Qed.

(* ---------- the theorems ---------- *)
Definition obs_match (co : cobs) (ao : obs) (h' : heap) : Prop :=
  match co, ao with
  | CNone, ObNone => True
  | CN n, ObN m => n = m
  | CN _, ObNone => True                      (* Cap(): not part of the list-level model *)
  | CR r, ObR r' => r = r'
  | CAlias a n, ObR r' => (match a with Some id => firstn n (arr h' id) | None => [] end) = r'
  | CMode m, ObMode m' => m = m'
  | _, _ => False
  end.

Lemma acc_frame h c h' : cinv h c -> hext h h' (carr c) (clen c) -> cabs h' c = cabs h c /\ cinv h' c.
Proof.
  intros Hi [L F]. unfold cabs, cread, cinv in *. destruct (carr c) as [id|] eqn:Ea; [|auto].
  destruct Hi as [Hid Hl]. destruct (F id Hid) as (A & B & _). rewrite (B eq_refl). split; [reflexivity|]. split; lia.
Qed.

(* no slice expression of buffer.go is ever out of range, and each method does to the bytes the
   struct denotes exactly what the list-level model says *)
Theorem cstep_refines ecap h c o : cinv h c ->
  exists h' c' co, cstep ecap h c o = Some (h', c', co) /\
    cabs h' c' = fst (step (cabs h c) o) /\ cinv h' c' /\ obs_match co (snd (step (cabs h c) o)) h'.
Proof.
  intros Hi. destruct o; cbn [cstep step fst snd].
  - destruct (cset_mode_spec ecap h c m Hi) as (h' & c' & -> & Ea & Hi'). exists h', c', CNone. cbn. auto.
  - destruct (cwrite_spec h c p Hi) as (h' & c' & -> & Ea & Hi'). exists h', c', (CN (length p)). cbn. auto.
  - destruct (cwrite_byte_spec h c c0 Hi) as (h' & c' & -> & Ea & Hi'). exists h', c', CNone. cbn. auto.
  - destruct (cwrite_rune_spec h c r Hi) as (h' & c' & -> & Ea & Hi'). exists h', c', CNone. cbn. auto.
  - destruct (cgrow_op_spec h c n Hi) as (h' & c' & -> & Ea & Hi'). exists h', c', CNone. cbn. auto.
  - (* Len: finalize a copy *)
    destruct (cfinalize_spec ecap h c Hi) as (h' & c' & -> & Ea & Hi' & Hx). exists h', c, (CN (clen c')).
    destruct (acc_frame h c h' Hi Hx) as [Eab Hic]. spl; auto.
    cbn. unfold len_of. rewrite <- Ea. cbn. now rewrite (cread_len h' c' Hi').
  - exists h, c, (CN (ccap h c)). cbn. auto.
  - destruct (cfinalize_spec ecap h c Hi) as (h' & c' & -> & Ea & Hi' & Hx). exists h', c, (CR (strip_b (cread h' c'))).
    destruct (acc_frame h c h' Hi Hx) as [Eab Hic]. spl; auto.
    cbn. unfold string_of. rewrite <- Ea. reflexivity.
  - destruct (cfinalize_spec ecap h c Hi) as (h' & c' & -> & Ea & Hi' & Hx). exists h', c, (CR (cread h' c')).
    destruct (acc_frame h c h' Hi Hx) as [Eab Hic]. spl; auto.
    cbn. unfold redactable_bytes. rewrite <- Ea. reflexivity.
  - destruct (cfinalize_spec ecap h c Hi) as (h' & c' & -> & Ea & Hi' & Hx). exists h', c, (CR (cread h' c')).
    destruct (acc_frame h c h' Hi Hx) as [Eab Hic]. spl; auto.
    cbn. unfold redactable_bytes. rewrite <- Ea. reflexivity.
  - exists h, c, (CMode (cmode c)). cbn. auto.
  - unfold ctake, take. destruct (cfinalize_spec ecap h c Hi) as (h' & c' & -> & Ea & Hi' & Hx).
    exists h', (mkC None 0 0 MUnsafe (copen c')), (CAlias (carr c') (clen c')). rewrite <- Ea. cbn [fst snd]. spl; auto.
    + reflexivity.
    + cbn. unfold cread. destruct (carr c'); reflexivity.
  - exists h, (creset c), CNone. split; [reflexivity|]. split; [unfold cabs, creset, cread, reset; cbn; destruct (carr c); reflexivity|]. split; [|exact Logic.I].
    unfold cinv, creset in *. cbn [carr clen]. destruct (carr c); [destruct Hi; split; lia | reflexivity].
Qed.
Print Assumptions cstep_refines.

(* C13: an accessor, which finalizes a copy sharing the array, changes nothing of what the struct
   denotes: not the bytes, not the hidden state; and the struct itself is the same value *)
Theorem accessor_pure_mem ecap h c o : cinv h c ->
  (o = OLen \/ o = OCap \/ o = OStr \/ o = ORS \/ o = ORB \/ o = OGetMode) ->
  exists h' co, cstep ecap h c o = Some (h', c, co) /\ cabs h' c = cabs h c /\ cinv h' c.
Proof.
  intros Hi Ho. destruct (cstep_refines ecap h c o Hi) as (h' & c' & co & E & Ea & Hi' & _).
  assert (c' = c) as -> by (destruct Ho as [->|[->|[->|[->|[->| ->]]]]]; cbn [cstep] in E;
    try (destruct (cfinalize ecap h c) as [[? ?]|]; [|discriminate]); injection E; auto).
  exists h', co. spl; auto. rewrite Ea. destruct Ho as [->|[->|[->|[->|[->| ->]]]]]; reflexivity.
Qed.

(* every history, with any capacity decisions of the runtime: no panic, and the list-level run *)
Theorem crun_refines ops : forall h c, cinv h c ->
  exists h' c', crun h c ops = Some (h', c') /\ cabs h' c' = run_from (cabs h c) (map fst ops) /\ cinv h' c'.
Proof.
  induction ops as [|[o ecap] r IH]; intros h c Hi; [exists h, c; auto|].
  cbn [crun map fst]. destruct (cstep_refines ecap h c o Hi) as (h1 & c1 & co & -> & Ea & Hi1 & _).
  destruct (IH h1 c1 Hi1) as (h' & c' & -> & Ea' & Hi'). exists h', c'. spl; auto.
  rewrite Ea', Ea. reflexivity.
Qed.
Print Assumptions crun_refines.

(* a string handed out by TakeRedactableString aliases an array; no later call writes it *)
Definition untouched (id : nat) (h h' : heap) : Prop := arr h' id = arr h id.

Lemma hext_other h h' who b id : hext h h' who b -> id < length h -> who <> Some id -> arr h' id = arr h id.
Proof. intros [L F] Hid Hw. now apply (F id Hid). Qed.


(* ---------- which arrays a call may write ---------- *)
Definition sframe (h : heap) (c : cbuf) (h' : heap) (c' : cbuf) : Prop :=
  length h <= length h' /\
  (forall id, id < length h -> carr c <> Some id -> arr h' id = arr h id) /\
  (carr c' = carr c \/ carr c' = None \/ exists id1, carr c' = Some id1 /\ length h <= id1).

Lemma sframe_refl h c : sframe h c h c.
Proof. split; [lia|]. split; auto. Qed.

Lemma sframe_fields h c h' c' c'' : sframe h c h' c' -> carr c'' = carr c' -> sframe h c h' c''.
Proof. intros (L & F & D) E. split; [exact L|]. split; [exact F|]. now rewrite E. Qed.

Lemma sframe_trans h c h1 c1 h2 c2 : cinv h c -> sframe h c h1 c1 -> sframe h1 c1 h2 c2 -> sframe h c h2 c2.
Proof.
  intros Hi (L1 & F1 & D1) (L2 & F2 & D2). split; [lia|]. split.
  - intros id Hid Hw. rewrite F2; [now apply F1 | lia |].
    destruct D1 as [E | [E | (id1 & E & Hge)]]; rewrite E; [exact Hw | discriminate | intros X; injection X as X; lia].
  - destruct D2 as [E | [E | (id2 & E & Hge)]].
    + rewrite E. exact D1.
    + auto.
    + right. right. exists id2. split; [exact E | lia].
Qed.

Lemma sframe_of_hext h c h' c' b : hext h h' (carr c) b ->
  (carr c' = carr c \/ (exists id1, carr c' = Some id1 /\ length h <= id1)) -> sframe h c h' c'.
Proof.
  intros [L F] D. split; [exact L|]. split; [intros id Hid Hw; now apply (F id Hid)|].
  destruct D as [E | X]; auto.
Qed.

Lemma sframe_of_hsame h c h' c' : hsame h h' ->
  (carr c' = carr c \/ (exists id1, carr c' = Some id1 /\ length h <= id1)) -> sframe h c h' c'.
Proof. intros Hs D. eapply sframe_of_hext; [apply (hsame_hext _ _ _ 0); exact Hs | exact D]. Qed.

Lemma cappend_sf h c p h' c' : cinv h c -> cappend h c p = Some (h', c') -> sframe h c h' c' /\ cinv h' c'.
Proof.
  intros Hi E. destruct (cappend_spec h c p Hi) as (h2 & c2 & E2 & _ & Hi2 & _ & _ & _ & _ & Hx & D).
  rewrite E in E2. injection E2 as <- <-. split; [eapply sframe_of_hext; eassumption | exact Hi2].
Qed.

Lemma creslice_sf h c n c' : creslice h c n = Some c' -> carr c' = carr c.
Proof. unfold creslice. destruct (n <=? ccap h c); [|discriminate]. intros E. now injection E as <-. Qed.

Lemma cstart_redactable_sf h c h' c' : cinv h c -> cstart_redactable h c = Some (h', c') -> sframe h c h' c' /\ cinv h' c'.
Proof.
  intros Hi E. destruct (cstart_redactable_spec h c Hi) as (h2 & c2 & E2 & _ & Hi2 & Hx & D).
  rewrite E in E2. injection E2 as <- <-. split; [eapply sframe_of_hext; eassumption | exact Hi2].
Qed.

Lemma cstart_write_sf h c h' c' : cinv h c -> cstart_write h c = Some (h', c') -> sframe h c h' c' /\ cinv h' c'.
Proof.
  intros Hi E. destruct (cstart_write_spec h c Hi) as (h2 & c2 & E2 & _ & Hi2). rewrite E in E2. injection E2 as <- <-.
  split; [|exact Hi2]. unfold cstart_write in E.
  destruct (mode_eqb (cmode c) MUnsafe && negb (copen c)); [|injection E as <- <-; apply sframe_refl].
  destruct (cstart_redactable h c) as [[h1 c1]|] eqn:E1; [|discriminate]. injection E as <- <-.
  destruct (cstart_redactable_sf h c h1 c1 Hi E1) as [Sf _]. eapply sframe_fields; [exact Sf | reflexivity].
Qed.

Lemma cend_redactable_sf h c h' c' : cinv h c -> cend_redactable h c = Some (h', c') -> sframe h c h' c' /\ cinv h' c'.
Proof.
  intros Hi E. destruct (cend_redactable_spec h c Hi) as (h2 & c2 & E2 & _ & Hi2 & _). rewrite E in E2. injection E2 as <- <-.
  split; [|exact Hi2]. unfold cend_redactable in E. destruct (clen c); [injection E as <- <-; apply sframe_refl|].
  destruct (has_suffix (cread h c) startB).
  - destruct (creslice h c _) as [c1|] eqn:E1; [|discriminate]. injection E as <- <-.
    eapply sframe_fields; [apply sframe_refl|]. cbn. now apply creslice_sf in E1.
  - destruct (cappend h c endB) as [[h1 c1]|] eqn:E1; [|discriminate]. injection E as <- <-.
    destruct (cappend_sf h c endB h1 c1 Hi E1) as [Sf _]. eapply sframe_fields; [exact Sf | reflexivity].
Qed.

Lemma cescape_sf ecap h c bnl : cinv h c ->
  sframe h c (fst (cescape_to_end ecap h c bnl)) (snd (cescape_to_end ecap h c bnl)) /\ cinv (fst (cescape_to_end ecap h c bnl)) (snd (cescape_to_end ecap h c bnl)).
Proof.
  intros Hi. pose proof (cescape_spec ecap h c bnl Hi) as Hs.
  destruct (cescape_to_end ecap h c bnl) as [h1 c1]. destruct Hs as (_ & Hi1 & Hsame & _ & _ & D). cbn [fst snd].
  split; [|exact Hi1]. apply sframe_of_hsame; [exact Hsame|]. destruct D as [[E _] | X]; auto.
Qed.

Lemma cfinalize_sf ecap h c h' c' : cinv h c -> cfinalize ecap h c = Some (h', c') -> sframe h c h' c' /\ cinv h' c'.
Proof.
  intros Hi E. destruct (cfinalize_spec ecap h c Hi) as (h2 & c2 & E2 & _ & Hi2 & _). rewrite E in E2. injection E2 as <- <-.
  split; [|exact Hi2]. unfold cfinalize in E.
  assert (exists h1 c1, (match cmode c with MRaw => (h, set_cvalid c (clen c)) | m => cescape_to_end ecap h c (mode_eqb m MUnsafe) end) = (h1, c1) /\
            sframe h c h1 c1 /\ cinv h1 c1) as (h1 & c1 & E1 & Sf1 & Hi1).
  { destruct (cmode c).
    - destruct (cescape_sf ecap h c (mode_eqb MUnsafe MUnsafe) Hi) as [A B]. destruct (cescape_to_end ecap h c (mode_eqb MUnsafe MUnsafe)) as [h1 c1]. eauto.
    - destruct (cescape_sf ecap h c (mode_eqb MSafe MUnsafe) Hi) as [A B]. destruct (cescape_to_end ecap h c (mode_eqb MSafe MUnsafe)) as [h1 c1]. eauto.
    - exists h, (set_cvalid c (clen c)). split; [reflexivity|]. split; [eapply sframe_fields; [apply sframe_refl | reflexivity]|].
      unfold cinv in *. cbn. exact Hi. }
  rewrite E1 in E. destruct (copen c1).
  - destruct (cend_redactable h1 c1) as [[h2 c2]|] eqn:E2; [|discriminate]. injection E as <- <-.
    destruct (cend_redactable_sf h1 c1 h2 c2 Hi1 E2) as [Sf2 _].
    eapply sframe_trans; [exact Hi | exact Sf1 | eapply sframe_fields; [exact Sf2 | reflexivity]].
  - injection E as <- <-. exact Sf1.
Qed.

Lemma cset_mode_sf ecap h c m h' c' : cinv h c -> cset_mode ecap h c m = Some (h', c') -> sframe h c h' c' /\ cinv h' c'.
Proof.
  intros Hi E. destruct (cset_mode_spec ecap h c m Hi) as (h2 & c2 & E2 & _ & Hi2). rewrite E in E2. injection E2 as <- <-.
  split; [|exact Hi2]. unfold cset_mode in E. destruct (mode_eqb (cmode c) m); [injection E as <- <-; apply sframe_refl|].
  assert (exists h1 c1, (match cmode c with MRaw => (h, c) | m0 => cescape_to_end ecap h c (mode_eqb m0 MUnsafe) end) = (h1, c1) /\
            sframe h c h1 c1 /\ cinv h1 c1) as (h1 & c1 & E1 & Sf1 & Hi1).
  { destruct (cmode c).
    - destruct (cescape_sf ecap h c (mode_eqb MUnsafe MUnsafe) Hi) as [A B]. destruct (cescape_to_end ecap h c (mode_eqb MUnsafe MUnsafe)) as [h1 c1]. eauto.
    - destruct (cescape_sf ecap h c (mode_eqb MSafe MUnsafe) Hi) as [A B]. destruct (cescape_to_end ecap h c (mode_eqb MSafe MUnsafe)) as [h1 c1]. eauto.
    - exists h, c. split; [reflexivity|]. split; [apply sframe_refl | exact Hi]. }
  rewrite E1 in E. destruct (copen c1).
  - destruct (cend_redactable h1 c1) as [[h2 c2]|] eqn:E2; [|discriminate]. injection E as <- <-.
    destruct (cend_redactable_sf h1 c1 h2 c2 Hi1 E2) as [Sf2 _].
    eapply sframe_trans; [exact Hi | exact Sf1 | eapply sframe_fields; [exact Sf2 | reflexivity]].
  - injection E as <- <-. eapply sframe_fields; [exact Sf1 | reflexivity].
Qed.

Lemma cwrite_sf h c p h' c' : cinv h c -> cwrite h c p = Some (h', c') -> sframe h c h' c' /\ cinv h' c'.
Proof.
  intros Hi E. unfold cwrite in E. destruct (cstart_write h c) as [[h1 c1]|] eqn:E1; [|discriminate].
  destruct (cstart_write_sf h c h1 c1 Hi E1) as [Sf1 Hi1]. destruct (cappend_sf h1 c1 p h' c' Hi1 E) as [Sf2 Hi2].
  split; [eapply sframe_trans; eassumption | exact Hi2].
Qed.

Lemma cstep_sf ecap h c o h' c' co : cinv h c -> cstep ecap h c o = Some (h', c', co) -> sframe h c h' c' /\ cinv h' c'.
Proof.
  intros Hi E. destruct (cstep_refines ecap h c o Hi) as (h2 & c2 & co2 & E2 & _ & Hi2 & _). rewrite E in E2. injection E2 as <- <- <-.
  split; [|exact Hi2]. destruct o; cbn [cstep] in E.
  - destruct (cset_mode ecap h c m) as [[h1 c1]|] eqn:E1; [|discriminate]. injection E as <- <- _. now apply (cset_mode_sf ecap h c m).
  - destruct (cwrite h c p) as [[h1 c1]|] eqn:E1; [|discriminate]. injection E as <- <- _. now apply (cwrite_sf h c p).
  - destruct (cwrite_byte h c c0) as [[h1 c1]|] eqn:E1; [|discriminate]. injection E as <- <- _.
    unfold cwrite_byte in E1. destruct (cstart_write h c) as [[h0 c00]|] eqn:E0; [|discriminate].
    destruct (cstart_write_sf h c h0 c00 Hi E0) as [Sf0 Hi0].
    destruct (mode_eqb (cmode c00) MUnsafe && ((128 <=? c0)%N || (c0 =? 226)%N)).
    + destruct (cwrite_sf h0 c00 escB h1 c1 Hi0 E1) as [Sf1 _]. eapply sframe_trans; eassumption.
    + destruct (cappend_sf h0 c00 [c0] h1 c1 Hi0 E1) as [Sf1 _]. eapply sframe_trans; eassumption.
  - destruct (cwrite_rune h c r) as [[h1 c1]|] eqn:E1; [|discriminate]. injection E as <- <- _.
    unfold cwrite_rune in E1. destruct (cstart_write h c) as [[h0 c00]|] eqn:E0; [|discriminate].
    destruct (cstart_write_sf h c h0 c00 Hi E0) as [Sf0 Hi0].
    destruct (cappend_sf h0 c00 _ h1 c1 Hi0 E1) as [Sf1 _]. eapply sframe_trans; eassumption.
  - destruct (cgrow_op h c n) as [[h1 c1]|] eqn:E1; [|discriminate]. injection E as <- <- _.
    unfold cgrow_op in E1. destruct (cgrow_spec h c n Hi) as (m & h0 & c00 & E0 & _ & _ & _ & _ & _ & _ & _ & Hs & D).
    rewrite E0 in E1. destruct (creslice h0 c00 m) as [c3|] eqn:E3; [|discriminate]. injection E1 as <- <-.
    eapply sframe_fields; [apply (sframe_of_hsame h c h0 c00 Hs D) | now apply creslice_sf in E3].
  - destruct (cfinalize ecap h c) as [[h1 c1]|] eqn:E1; [|discriminate]. injection E as <- <- _.
    destruct (cfinalize_sf ecap h c h1 c1 Hi E1) as [(L & F & _) _]. split; [exact L|]. split; auto.
  - injection E as <- <- _. apply sframe_refl.
  - destruct (cfinalize ecap h c) as [[h1 c1]|] eqn:E1; [|discriminate]. injection E as <- <- _.
    destruct (cfinalize_sf ecap h c h1 c1 Hi E1) as [(L & F & _) _]. split; [exact L|]. split; auto.
  - destruct (cfinalize ecap h c) as [[h1 c1]|] eqn:E1; [|discriminate]. injection E as <- <- _.
    destruct (cfinalize_sf ecap h c h1 c1 Hi E1) as [(L & F & _) _]. split; [exact L|]. split; auto.
  - destruct (cfinalize ecap h c) as [[h1 c1]|] eqn:E1; [|discriminate]. injection E as <- <- _.
    destruct (cfinalize_sf ecap h c h1 c1 Hi E1) as [(L & F & _) _]. split; [exact L|]. split; auto.
  - injection E as <- <- _. apply sframe_refl.
  - unfold ctake in E. destruct (cfinalize ecap h c) as [[h1 c1]|] eqn:E1; [|discriminate]. injection E as <- <- _.
    destruct (cfinalize_sf ecap h c h1 c1 Hi E1) as [(L & F & _) _]. split; [exact L|]. split; auto.
  - injection E as <- <- _. eapply sframe_fields; [apply sframe_refl | reflexivity].
Qed.

(* C13: the array behind a string returned by TakeRedactableString is never written again *)
Theorem taken_string_immutable ecap0 h0 c0 h c id n : cinv h0 c0 ->
  cstep ecap0 h0 c0 OTake = Some (h, c, CAlias (Some id) n) ->
  forall ops h' c', crun h c ops = Some (h', c') -> arr h' id = arr h id.
Proof.
  intros Hi0 E0.
  assert (cinv h c /\ id < length h /\ carr c <> Some id) as (Hi & Hid & Hne).
  { destruct (cstep_sf ecap0 h0 c0 OTake h c _ Hi0 E0) as [_ Hi]. split; [exact Hi|].
    cbn [cstep] in E0. unfold ctake in E0. destruct (cfinalize ecap0 h0 c0) as [[h1 c1]|] eqn:E1; [|discriminate].
    injection E0 as <- <- Ea _. destruct (cfinalize_sf ecap0 h0 c0 h1 c1 Hi0 E1) as [_ Hi1].
    unfold cinv in Hi1. rewrite Ea in Hi1. split; [apply Hi1 | cbn; discriminate]. }
  clear E0 Hi0. intros ops. revert h c Hi Hid Hne.
  induction ops as [|[o ecap] r IH]; intros h c Hi Hid Hne h' c' E; [cbn in E; injection E as <- <-; reflexivity|].
  cbn [crun] in E. destruct (cstep ecap h c o) as [[[h1 c1] co]|] eqn:E1; [|discriminate].
  destruct (cstep_sf ecap h c o h1 c1 co Hi E1) as [(L & F & D) Hi1].
  assert (carr c1 <> Some id) as Hne1
    by (destruct D as [X | [X | (id1 & X & Hge)]]; rewrite X; [exact Hne | discriminate | intros Y; injection Y as Y; lia]).
  rewrite (IH h1 c1 Hi1 ltac:(lia) Hne1 h' c' E). now apply F.
Qed.
Print Assumptions taken_string_immutable.
