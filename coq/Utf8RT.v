(* Layer 0 proofs: utf8.DecodeRune inverts utf8.EncodeRune on every valid rune beyond ASCII
   (two-, three- and four-byte forms; surrogates and values beyond MaxRune excluded). *)
From Redact Require Import Bytes Utf8.
From Coq Require Import Lia ZArith NArith ZifyN ZifyBool.
Import List ListNotations.
Open Scope Z_scope.
Ltac Zify.zify_post_hook ::= Z.div_mod_to_equations.

Lemma land_lo (k : N) (B q : Z) (m : N) : m = N.ones k -> 0 <= B -> 0 <= q < 2 ^ Z.of_N k -> B mod 2 ^ Z.of_N k = 0 ->
  zb (N.land (nz (B + q)) m) = q.
Proof.
  intros -> HB Hq Hm. unfold zb, nz. rewrite N.land_ones.
  rewrite N2Z.inj_mod, N2Z.inj_pow, Z2N.id by lia. change (Z.of_N 2) with 2.
  rewrite Z.add_mod by lia. rewrite Hm, Z.add_0_l, Z.mod_mod by lia. apply Z.mod_small. lia.
Qed.

Lemma in_rng_nz lo hi z : 0 <= z -> in_rng lo hi (nz z) = ((Z.of_N lo <=? z) && (z <=? Z.of_N hi)).
Proof. intros H. unfold in_rng, nz. lia. Qed.
Lemma ltb_nz z c : 0 <= z -> (nz z <? c)%N = (z <? Z.of_N c).
Proof. intros H. unfold nz. lia. Qed.
Lemma eqb_nz z c : 0 <= z -> (nz z =? c)%N = (z =? Z.of_N c).
Proof. intros H. unfold nz. lia. Qed.

Theorem decode_encode_rune r : valid_rune r = true -> 128 <= r ->
  decode_rune (encode_rune r) = (r, length (encode_rune r)) /\ 128 <= zb (hd 0%N (encode_rune r)).
Proof.
  intros Hv Hr. pose proof Hv as Hv0. unfold valid_rune, MaxRune in Hv0. unfold encode_rune.
  assert ((0 <=? r) && (r <=? 127) = false) as -> by lia.
  destruct ((0 <=? r) && (r <=? 2047)) eqn:E2.
  - (* two bytes *)
    assert (2 <= r / 64 <= 31) by lia. assert (0 <= r mod 64 <= 63) by lia.
    split; [|cbn [hd]; unfold zb, nz; lia].
    unfold decode_rune. rewrite ltb_nz by lia. assert (192 + r / 64 <? Z.of_N 128 = false) as -> by lia.
    rewrite in_rng_nz by lia. assert ((Z.of_N 194 <=? 192 + r / 64) && (192 + r / 64 <=? Z.of_N 223) = true) as -> by lia.
    unfold is_cont. rewrite in_rng_nz by lia. assert ((Z.of_N 128 <=? 128 + r mod 64) && (128 + r mod 64 <=? Z.of_N 191) = true) as -> by lia.
    rewrite (land_lo 5 192 (r / 64) 31), (land_lo 6 128 (r mod 64) 63) by (reflexivity || lia).
    cbn [length]. f_equal. lia.
  - rewrite Hv. cbn [negb].
    destruct (r <=? 65535) eqn:E3.
    + (* three bytes *)
      assert (0 <= r / 4096 <= 15) by lia. assert (0 <= (r / 64) mod 64 <= 63) by lia. assert (0 <= r mod 64 <= 63) by lia.
      split; [|cbn [hd]; unfold zb, nz; lia].
      unfold decode_rune. rewrite ltb_nz by lia. assert (224 + r / 4096 <? Z.of_N 128 = false) as -> by lia.
      rewrite !in_rng_nz by lia.
      assert ((Z.of_N 194 <=? 224 + r / 4096) && (224 + r / 4096 <=? Z.of_N 223) = false) as -> by lia.
      assert ((Z.of_N 224 <=? 224 + r / 4096) && (224 + r / 4096 <=? Z.of_N 239) = true) as -> by lia.
      rewrite !eqb_nz by lia. unfold is_cont. rewrite !in_rng_nz by lia.
      assert ((Z.of_N (if 224 + r / 4096 =? Z.of_N 224 then 160 else 128) <=? 128 + (r / 64) mod 64) &&
              (128 + (r / 64) mod 64 <=? Z.of_N (if 224 + r / 4096 =? Z.of_N 237 then 159 else 191)) &&
              ((Z.of_N 128 <=? 128 + r mod 64) && (128 + r mod 64 <=? Z.of_N 191)) = true) as ->.
      { destruct (224 + r / 4096 =? Z.of_N 224) eqn:Ea; destruct (224 + r / 4096 =? Z.of_N 237) eqn:Eb; lia. }
      rewrite (land_lo 4 224 (r / 4096) 15), (land_lo 6 128 ((r / 64) mod 64) 63), (land_lo 6 128 (r mod 64) 63) by (reflexivity || lia).
      cbn [length]. f_equal. lia.
    + (* four bytes *)
      assert (0 <= r / 262144 <= 4) by lia. assert (0 <= (r / 4096) mod 64 <= 63) by lia.
      assert (0 <= (r / 64) mod 64 <= 63) by lia. assert (0 <= r mod 64 <= 63) by lia.
      split; [|cbn [hd]; unfold zb, nz; lia].
      unfold decode_rune. rewrite ltb_nz by lia. assert (240 + r / 262144 <? Z.of_N 128 = false) as -> by lia.
      rewrite !in_rng_nz by lia.
      assert ((Z.of_N 194 <=? 240 + r / 262144) && (240 + r / 262144 <=? Z.of_N 223) = false) as -> by lia.
      assert ((Z.of_N 224 <=? 240 + r / 262144) && (240 + r / 262144 <=? Z.of_N 239) = false) as -> by lia.
      assert ((Z.of_N 240 <=? 240 + r / 262144) && (240 + r / 262144 <=? Z.of_N 244) = true) as -> by lia.
      rewrite !eqb_nz by lia. unfold is_cont. rewrite !in_rng_nz by lia.
      assert ((Z.of_N (if 240 + r / 262144 =? Z.of_N 240 then 144 else 128) <=? 128 + (r / 4096) mod 64) &&
              (128 + (r / 4096) mod 64 <=? Z.of_N (if 240 + r / 262144 =? Z.of_N 244 then 143 else 191)) &&
              ((Z.of_N 128 <=? 128 + (r / 64) mod 64) && (128 + (r / 64) mod 64 <=? Z.of_N 191)) &&
              ((Z.of_N 128 <=? 128 + r mod 64) && (128 + r mod 64 <=? Z.of_N 191)) = true) as ->.
      { destruct (240 + r / 262144 =? Z.of_N 240) eqn:Ea; destruct (240 + r / 262144 =? Z.of_N 244) eqn:Eb; lia. }
      rewrite (land_lo 3 240 (r / 262144) 7), (land_lo 6 128 ((r / 4096) mod 64) 63),
        (land_lo 6 128 ((r / 64) mod 64) 63), (land_lo 6 128 (r mod 64) 63) by (reflexivity || lia).
      cbn [length]. f_equal. lia.
Qed.
Print Assumptions decode_encode_rune.
