(* The registered error hook in the method dispatch (handleMethods). *)
From Redact Require Import Bytes Tokens Utf8 Buffer Ops BufInv Fmt Value LBuf Printer.
From Coq Require Import String.
Import List ListNotations.
Open Scope Z_scope.

(* Under Unsafe() the hook is not consulted: the dispatch does not depend on it. *)
Theorem hook_bypassed_under_unsafe rec orc h1 h2 verb s :
  povr s = OvrUnsafe ->
  handleMethods rec (mkEnv orc h1) verb s = handleMethods rec (mkEnv orc h2) verb s.
Proof.
  intros Hv. unfold handleMethods, bind, Printer.get. rewrite Hv. cbn [ovr_eqb negb].
  destruct (erroring s); [reflexivity|]. destruct (parg s) as [a|]; reflexivity.
Qed.

(* With a hook installed and no Unsafe() around, an error operand that is neither a
   SafeFormatter nor a SafeMessager is rendered by the hook alone (inside catchPanic),
   with the verb v when the directive was a correctly used %w. *)
Theorem hook_renders_error rec orc h verb0 s t i nr repr sc :
  erroring s = false -> povr s <> OvrUnsafe ->
  parg s = Some (VUser t i nr repr sc) ->
  iError i = true -> iSafeFormatter i = false -> iSafeMessager i = false ->
  verb0 <> 119 ->
  handleMethods rec (mkEnv orc (Some h)) verb0 s =
  (catch_panic rec (VUser t i nr repr sc) verb0 "SafeFormatter"%string
     (rec (CActs (VUser t i nr repr sc) verb0 h) ;;; ret tt) ;;; ret true) s.
Proof.
  intros He Hv Ha Hi Hsf Hsm Hw. unfold handleMethods at 1. unfold bind at 1. unfold Printer.get at 1. cbv beta.
  rewrite He, Ha.
  assert ((verb0 =? 119) = false) as Ew by (apply Z.eqb_neq; exact Hw).
  rewrite Ew. cbn [andb]. cbv zeta.
  assert (ovr_eqb (povr s) OvrUnsafe = false) as Eo by (destruct (povr s); try reflexivity; congruence).
  rewrite Eo. cbn [negb]. rewrite Hsf, Hsm, Hi. cbn [hook].
  unfold bind at 1. cbn [ret]. reflexivity.
Qed.

Theorem hook_renders_wrapped_error rec orc h s t i nr repr sc :
  erroring s = false -> povr s <> OvrUnsafe ->
  parg s = Some (VUser t i nr repr sc) ->
  iError i = true -> iSafeFormatter i = false -> iSafeMessager i = false ->
  wrapErrs s = true -> wrappedErr s = None ->
  handleMethods rec (mkEnv orc (Some h)) 119 s =
  (catch_panic rec (VUser t i nr repr sc) 118 "SafeFormatter"%string
     (rec (CActs (VUser t i nr repr sc) 118 h) ;;; ret tt) ;;; ret true)
    (set_wrappedErr s (Some (VUser t i nr repr sc))).
Proof.
  intros He Hv Ha Hi Hsf Hsm Hw1 Hw2. unfold handleMethods at 1. unfold bind at 1. unfold Printer.get at 1. cbv beta.
  rewrite He, Ha. cbn [Z.eqb Pos.eqb andb is_error]. rewrite Hi, Hw1, Hw2. cbn [negb orb andb]. cbv zeta.
  assert (ovr_eqb (povr s) OvrUnsafe = false) as Eo by (destruct (povr s); try reflexivity; congruence).
  rewrite Eo. cbn [negb]. rewrite Hsf, Hsm. cbn [hook].
  unfold bind at 1. unfold modify at 1. cbv beta iota. reflexivity.
Qed.

Print Assumptions hook_renders_error.
