(* Layer 1: internal/escape/escape.go — a literal model of
   InternalEscapeBytes(b, startLoc, breakNewLines, strip). *)
From Redact Require Export Tokens Utf8.
Open Scope N_scope.

(* b[k:i] *)
Definition sub (b : bytes) (k i : nat) : bytes := firstn (i - k) (skipn k b).

(* "for lastNewLine < len(b) && b[lastNewLine] == '\n' { lastNewLine++ }" *)
Fixpoint scan_nl (fuel : nat) (b : bytes) (j : nat) : nat :=
  match fuel with
  | O => j
  | S f => if (j <? length b)%nat && (nth j b 0 =? LF) then scan_nl f b (S j) else j
  end.

(* The trimming loop of the strip option: new end of b. *)
Fixpoint strip_end (fuel : nat) (b : bytes) (startLoc e : nat) : nat :=
  match fuel with
  | O => e
  | S f =>
    (* i = e - 1 >= startLoc *)
    if (startLoc <? e)%nat then
      let c := nth (e - 1) b 0 in
      if (c =? LF) || (c =? SP) then strip_end f b startLoc (e - 1) else e
    else e
  end.

(* res as used by the loop: the copy made so far, or nothing yet. *)
Definition cur (copied : bool) (res : bytes) : bytes := if copied then res else [].

(* The main loop.  State (i, k, copied, res); returns (k, copied, res). *)
Fixpoint esc_loop (fuel : nat) (b : bytes) (bnl : bool)
         (i k : nat) (copied : bool) (res : bytes) : nat * bool * bytes :=
  match fuel with
  | O => (k, copied, res)
  | S f =>
    if (i <? length b)%nat then
      if bnl && (nth i b 0 =? LF) then
        let res1 := cur copied res ++ sub b k i in
        let res2 := if has_suffix res1 startB then drop_last 3 res1 else res1 ++ endB in
        let lnl := scan_nl (length b) b i in
        let res3 := (res2 ++ sub b i lnl) ++ startB in
        esc_loop f b bnl lnl lnl true res3
      else if (i + 3 <=? length b)%nat && beq (sub b i (i + 3)) startB then
        esc_loop f b bnl (i + 3) (i + 3) true ((cur copied res ++ sub b k i) ++ escB)
      else if (i + 3 <=? length b)%nat && beq (sub b i (i + 3)) endB then
        esc_loop f b bnl (i + 3) (i + 3) true ((cur copied res ++ sub b k i) ++ escB)
      else esc_loop f b bnl (S i) k copied res
    else (k, copied, res)
  end.

(* Result and whether it is a fresh copy (false: the input slice itself is
   returned, possibly shortened by strip). *)
Definition escape_full (b0 : bytes) (startLoc : nat) (bnl strip : bool) : bytes * bool :=
  let b := if strip then firstn (strip_end (length b0) b0 startLoc (length b0)) b0 else b0 in
  let '(k, copied, res) := esc_loop (length b) b bnl startLoc 0 false [] in
  if last_invalid b then
    (((cur copied res) ++ skipn k b) ++ escB, true)
  else if copied then (res ++ skipn k b, true)
  else (b, false).

Definition escape (b : bytes) (startLoc : nat) (bnl strip : bool) : bytes :=
  fst (escape_full b startLoc bnl strip).

(* internal/rfmt/helpers.go EscapeBytes *)
Definition escape_bytes (s : bytes) : bytes :=
  escape (startB ++ s) 3 true false ++ endB.
