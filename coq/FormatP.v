(* Layer 4 proofs: MakeFormat (internal/fmtforward) and the directive parser of doPrintf are
   inverse to each other: for EVERY flag set the printer can report, every width in 1..10^6,
   every precision in 0..10^6 and every verb that is an ASCII letter or a valid rune beyond
   ASCII, reading back the string MakeFormat returns gives exactly the flags, width, precision
   and verb it was built from.  (10^6 is the bound beyond which parsenum gives up: tooLarge.) *)
From Redact Require Import Bytes Tokens Utf8 Fmt Value LBuf Printer Api Forward Utf8RT.
From Coq Require Import String Lia ZArith.
Import List ListNotations.
Open Scope Z_scope.
(* ---------- decimal digits ---------- *)
Definition is_digit (c : N) : bool := (48 <=? Z.of_N c) && (Z.of_N c <=? 57).
Definition dval (acc : Z) (ds : bytes) : Z := fold_left (fun a d => a * 10 + (Z.of_N d - 48)) ds acc.

Lemma dval_app acc a b : dval acc (a ++ b) = dval (dval acc a) b.
Proof. apply fold_left_app. Qed.

Lemma ch_digit d : 0 <= d <= 9 -> Z.of_N (ch (48 + d)) = 48 + d.
Proof. intros H. unfold ch. rewrite Z2N.id; lia. Qed.

Lemma is_digit_ch d : 0 <= d <= 9 -> is_digit (ch (48 + d)) = true.
Proof. intros H. unfold is_digit. rewrite ch_digit by lia. apply andb_true_intro; split; lia. Qed.
Lemma dval_one a c : dval a [c] = a * 10 + (Z.of_N c - 48).
Proof. reflexivity. Qed.

(* itoa_pos fuel n acc = digits of n followed by acc *)
Lemma itoa_pos_spec k : forall n acc, 0 <= n -> n < 10 ^ Z.of_nat (S k) ->
  exists ds, itoa_pos (S k) n acc = ds ++ acc /\ ds <> [] /\ forallb is_digit ds = true /\
             (forall a, dval a ds = a * 10 ^ Z.of_nat (length ds) + n) /\
             (1 <= n -> Z.of_N (hd 0%N ds) <> 48) /\ (length ds <= S k)%nat.
Proof.
  assert (forall n, 0 <= n < 10 -> forall acc k0, exists ds, (if n <? 10 then ch (48 + n) :: acc else itoa_pos k0 (n / 10) (ch (48 + n mod 10) :: acc)) = ds ++ acc /\ ds <> [] /\ forallb is_digit ds = true /\
             (forall a, dval a ds = a * 10 ^ Z.of_nat (length ds) + n) /\
             (1 <= n -> Z.of_N (hd 0%N ds) <> 48) /\ (length ds <= 1)%nat) as Hsmall.
  { intros n Hn acc k0. assert (n <? 10 = true) as -> by lia. exists [ch (48 + n)]. repeat split.
    - discriminate.
    - cbn [forallb]. rewrite is_digit_ch by lia. reflexivity.
    - intros a. rewrite dval_one, ch_digit by lia. cbn [length]. change (10 ^ Z.of_nat 1) with 10. lia.
    - intros H. cbn [hd]. rewrite ch_digit by lia. lia.
    - cbn [length]. lia. }
  induction k as [|k IH]; intros n acc Hn Hlt.
  - change (10 ^ Z.of_nat 1) with 10 in Hlt.
    destruct (Hsmall n (conj Hn Hlt) acc 0%nat) as (ds & E1 & H2 & H3 & H4 & H5 & H6).
    exists ds. repeat split; assumption.
  - remember (S k) as k1. cbn [itoa_pos]. destruct (n <? 10) eqn:E.
    + pose proof E as E'. apply Z.ltb_lt in E'. destruct (Hsmall n (conj Hn E') acc k1) as (ds & E1 & H2 & H3 & H4 & H5 & H6).
      rewrite E in E1. exists ds. repeat split; try assumption. lia.
    + apply Z.ltb_ge in E.
      assert (0 <= n / 10) as H1 by (apply Z.div_pos; lia).
      assert (n / 10 < 10 ^ Z.of_nat k1) as H2.
      { apply Z.div_lt_upper_bound; [lia|]. rewrite Nat2Z.inj_succ, Z.pow_succ_r in Hlt by lia. lia. }
      subst k1.
      destruct (IH (n / 10) (ch (48 + n mod 10) :: acc) H1 H2) as (ds & E1 & Hne & Hd & Hv & Hh & Hl).
      exists (ds ++ [ch (48 + n mod 10)]).
      assert (0 <= n mod 10 <= 9) as Hm by (pose proof (Z.mod_pos_bound n 10); lia).
      repeat split.
      * rewrite E1, <- app_assoc. reflexivity.
      * destruct ds; discriminate.
      * rewrite forallb_app, Hd. cbn [forallb]. rewrite is_digit_ch by lia. reflexivity.
      * intros a. rewrite dval_app, Hv, dval_one, ch_digit by lia.
        rewrite app_length. cbn [length]. rewrite Nat2Z.inj_add. change (Z.of_nat 1) with 1.
        rewrite Z.pow_add_r by lia. rewrite Z.pow_1_r.
        pose proof (Z.div_mod n 10). lia.
      * intros H. destruct ds as [|d0 ds']; [congruence|]. cbn [app hd] in *. apply Hh.
        apply Z.div_le_lower_bound; lia.
      * rewrite app_length. cbn [length]. lia.
Qed.

(* ---------- indexing into an appended list ---------- *)
Lemma fb_at (pre : bytes) c rest : fb (pre ++ c :: rest) (length pre) = Z.of_N c.
Proof. unfold fb. rewrite app_nth2 by lia. now rewrite Nat.sub_diag. Qed.

Lemma dval_ge ds : forall a, 0 <= a -> forallb is_digit ds = true -> a <= dval a ds.
Proof.
  induction ds as [|d r IH]; intros a Ha Hd; [cbn; lia|].
  cbn [forallb] in Hd. apply andb_prop in Hd. destruct Hd as [Hd Hr].
  change (dval a (d :: r)) with (dval (a * 10 + (Z.of_N d - 48)) r).
  unfold is_digit in Hd. assert (0 <= Z.of_N d - 48 <= 9) by lia.
  specialize (IH (a * 10 + (Z.of_N d - 48)) ltac:(lia) Hr). lia.
Qed.

Definition stops_digits (rest : bytes) : Prop := forall c r, rest = c :: r -> is_digit c = false.

Lemma parsenum_loop_digits ds : forall fuel pre rest num isnum,
  forallb is_digit ds = true -> stops_digits rest -> (length ds < fuel)%nat ->
  0 <= num -> dval num ds <= 1000000 ->
  parsenum_loop fuel (pre ++ ds ++ rest) (length pre) (length (pre ++ ds ++ rest)) num isnum =
  (dval num ds, isnum || negb (match ds with [] => true | _ => false end), (length pre + length ds)%nat).
Proof.
  induction ds as [|d r IH]; intros fuel pre rest num isnum Hd Hs Hf Hn Hv.
  - destruct fuel as [|k]; [cbn in Hf; lia|]. cbn [parsenum_loop app length]. rewrite Nat.add_0_r, Bool.orb_false_r.
    destruct rest as [|c rest'].
    + rewrite app_nil_r. rewrite Nat.ltb_irrefl. reflexivity.
    + rewrite fb_at. assert (is_digit c = false) as Hc by (eapply Hs; reflexivity). unfold is_digit in Hc.
      destruct (length pre <? length (pre ++ c :: rest'))%nat; cbn [andb]; [|reflexivity].
      destruct (48 <=? Z.of_N c); cbn [andb] in *; [rewrite Hc|]; reflexivity.
  - destruct fuel as [|k]; [cbn in Hf; lia|]. cbn [length] in Hf.
    cbn [forallb] in Hd. apply andb_prop in Hd. destruct Hd as [Hd Hr].
    cbn [parsenum_loop]. change ((d :: r) ++ rest) with (d :: r ++ rest). rewrite fb_at.
    assert ((length pre <? length (pre ++ d :: r ++ rest))%nat = true) as -> by (apply Nat.ltb_lt; rewrite app_length; cbn; lia).
    pose proof Hd as Hd'. unfold is_digit in Hd'. apply andb_prop in Hd'. destruct Hd' as [Hd1 Hd2].
    rewrite Hd1, Hd2. cbn [andb].
    assert (0 <= Z.of_N d - 48 <= 9) as Hdd by lia.
    change (dval num (d :: r)) with (dval (num * 10 + (Z.of_N d - 48)) r) in *.
    pose proof (dval_ge r (num * 10 + (Z.of_N d - 48)) ltac:(lia) Hr) as Hge.
    assert (tooLarge num = false) as -> by (unfold tooLarge; lia).
    replace (pre ++ d :: r ++ rest) with ((pre ++ [d]) ++ r ++ rest) by (rewrite <- app_assoc; reflexivity).
    replace (S (length pre)) with (length (pre ++ [d])) by (rewrite app_length; cbn; lia).
    rewrite (IH k (pre ++ [d]) rest (num * 10 + (Z.of_N d - 48)) true Hr Hs ltac:(lia) ltac:(lia) Hv).
    rewrite app_length. cbn [length]. f_equal; [f_equal|lia]. now rewrite Bool.orb_true_r.
Qed.

Lemma parsenum_digits pre ds rest :
  forallb is_digit ds = true -> stops_digits rest -> rest <> [] -> dval 0 ds <= 1000000 ->
  parsenum (pre ++ ds ++ rest) (length pre) (length (pre ++ ds ++ rest)) =
  (dval 0 ds, negb (match ds with [] => true | _ => false end), (length pre + length ds)%nat).
Proof.
  intros Hd Hs Hr Hv. unfold parsenum.
  assert ((length (pre ++ ds ++ rest) <=? length pre)%nat = false) as ->.
  { apply Nat.leb_gt. rewrite !app_length. destruct rest; [congruence|]. cbn. lia. }
  rewrite parsenum_loop_digits; try assumption; try lia; [reflexivity|].
  rewrite !app_length. destruct rest; [congruence|]. cbn [length]. lia.
Qed.

(* ---------- flags ---------- *)
Definition is_flag (c : N) : bool :=
  let z := Z.of_N c in (z =? 35) || (z =? 48) || (z =? 43) || (z =? 45) || (z =? 32).
Definition upd_flag (x : pflags) (c : N) : pflags :=
  let z := Z.of_N c in
  if z =? 35 then mkPf (f_plus x) (f_minus x) true (f_space x) (f_zero x)
  else if z =? 48 then mkPf (f_plus x) (f_minus x) (f_sharp x) (f_space x) (negb (f_minus x))
  else if z =? 43 then mkPf true (f_minus x) (f_sharp x) (f_space x) (f_zero x)
  else if z =? 45 then mkPf (f_plus x) true (f_sharp x) (f_space x) false
  else if z =? 32 then mkPf (f_plus x) (f_minus x) (f_sharp x) true (f_zero x)
  else x.
Definition stops_flags (rest : bytes) : Prop := forall c r, rest = c :: r -> is_flag c = false.

Lemma parse_flags_run fs : forall fuel pre rest x,
  forallb is_flag fs = true -> stops_flags rest -> rest <> [] -> (length fs < fuel)%nat ->
  parse_flags fuel (pre ++ fs ++ rest) (length pre) x = (fold_left upd_flag fs x, (length pre + length fs)%nat).
Proof.
  induction fs as [|c r IH]; intros fuel pre rest x Hf Hs Hr Hl.
  - destruct fuel as [|k]; [cbn in Hl; lia|]. cbn [parse_flags app fold_left length]. rewrite Nat.add_0_r.
    destruct rest as [|c rest']; [congruence|]. rewrite fb_at.
    assert (is_flag c = false) as Hc by (eapply Hs; reflexivity). unfold is_flag in Hc. cbn zeta in Hc.
    assert ((length pre <? length (pre ++ c :: rest'))%nat = true) as -> by (apply Nat.ltb_lt; rewrite app_length; cbn; lia).
    destruct (Z.of_N c =? 35); [discriminate|]. destruct (Z.of_N c =? 48); [discriminate|].
    destruct (Z.of_N c =? 43); [discriminate|]. destruct (Z.of_N c =? 45); [discriminate|].
    destruct (Z.of_N c =? 32); [discriminate|]. reflexivity.
  - destruct fuel as [|k]; [cbn in Hl; lia|]. cbn [length] in Hl.
    cbn [forallb] in Hf. apply andb_prop in Hf. destruct Hf as [Hc Hf].
    cbn [parse_flags]. change ((c :: r) ++ rest) with (c :: r ++ rest). rewrite fb_at.
    assert ((length pre <? length (pre ++ c :: r ++ rest))%nat = true) as -> by (apply Nat.ltb_lt; rewrite app_length; cbn; lia).
    cbn [fold_left]. unfold upd_flag at 2. cbn zeta.
    replace (pre ++ c :: r ++ rest) with ((pre ++ [c]) ++ r ++ rest) by (rewrite <- app_assoc; reflexivity).
    replace (S (length pre)) with (length (pre ++ [c])) by (rewrite app_length; cbn; lia).
    assert (forall y, parse_flags k ((pre ++ [c]) ++ r ++ rest) (length (pre ++ [c])) y =
                      (fold_left upd_flag r y, (length pre + length (c :: r))%nat)) as Hrec.
    { intros y. rewrite (IH k (pre ++ [c]) rest y Hf Hs Hr ltac:(lia)). rewrite app_length. cbn [length]. f_equal. lia. }
    unfold is_flag in Hc. cbn zeta in Hc.
    destruct (Z.of_N c =? 35); [apply Hrec|]. destruct (Z.of_N c =? 48); [apply Hrec|].
    destruct (Z.of_N c =? 43); [apply Hrec|]. destruct (Z.of_N c =? 45); [apply Hrec|].
    destruct (Z.of_N c =? 32); [apply Hrec|]. discriminate.
Qed.



Lemma parsenum_digits' f pre ds rest : f = pre ++ ds ++ rest ->
  forallb is_digit ds = true -> stops_digits rest -> rest <> [] -> dval 0 ds <= 1000000 ->
  parsenum f (length pre) (length f) =
  (dval 0 ds, negb (match ds with [] => true | _ => false end), (length pre + length ds)%nat).
Proof. intros ->. apply parsenum_digits. Qed.

Lemma split_at {A} (f pre rest : list A) : f = pre ++ rest ->
  f = firstn (length pre) f ++ rest /\ length (firstn (length pre) f) = length pre.
Proof. intros ->. rewrite firstn_app, Nat.sub_diag, firstn_all. cbn [firstn]. rewrite app_nil_r. split; reflexivity. Qed.

Lemma skipn_app_len {A} (a b : list A) : skipn (length a) (a ++ b) = b.
Proof. induction a; cbn; auto. Qed.
Lemma fb_split f pre c rest i : f = pre ++ c :: rest -> length pre = i -> fb f i = Z.of_N c.
Proof. intros -> <-. apply fb_at. Qed.
Lemma skipn_split {A} (f pre rest : list A) i : f = pre ++ rest -> length pre = i -> skipn i f = rest.
Proof. intros -> <-. apply skipn_app_len. Qed.
Lemma len_split {A} (f pre rest : list A) i : f = pre ++ rest -> length pre = i -> length f = (i + length rest)%nat.
Proof. intros -> <-. apply app_length. Qed.

Definition st_ok (s : fstate) : Prop :=
  (st_minus s && st_zero s = false) /\
  match st_wid s with Some w => 1 <= w <= 1000000 | None => True end /\
  match st_prec s with Some p => 0 <= p <= 1000000 | None => True end.
Definition verb_ok (v : Z) : Prop := (65 <= v <= 90 \/ 97 <= v <= 122) \/ (128 <= v /\ valid_rune v = true).

Lemma itoa_spec n : 0 <= n <= 1000000 ->
  exists ds, itoa n = ds /\ ds <> [] /\ forallb is_digit ds = true /\ dval 0 ds = n /\ (1 <= n -> Z.of_N (hd 0%N ds) <> 48).
Proof.
  intros Hn. unfold itoa. assert (n <? 0 = false) as -> by lia.
  destruct (itoa_pos_spec 24 n [] ltac:(lia)) as (ds & E & Hne & Hd & Hv & Hh & _).
  { change (Z.of_nat 25) with 25. lia. }
  rewrite app_nil_r in E. exists ds. repeat split; try assumption. rewrite Hv. lia.
Qed.

Lemma verb_bytes_spec v : verb_ok v ->
  exists c0 rest, encode_rune v = c0 :: rest /\
    (if Z.of_N c0 <? 128 then (Z.of_N c0, 1%nat) else decode_rune (c0 :: rest)) = (v, length (c0 :: rest)) /\
    is_digit c0 = false /\ is_flag c0 = false /\ Z.of_N c0 <> 46.
Proof.
  intros [Ha | [Hr Hv]].
  - unfold encode_rune. assert ((0 <=? v) && (v <=? 127) = true) as -> by lia.
    exists (nz v), []. unfold nz. rewrite Z2N.id by lia. assert (v <? 128 = true) as -> by lia.
    repeat split; unfold is_digit, is_flag; try rewrite Z2N.id by lia; lia.
  - destruct (decode_encode_rune v Hv Hr) as [Hd Hh].
    destruct (encode_rune v) as [|c0 rest] eqn:E; [cbn in Hh; unfold zb in Hh; cbn in Hh; lia|].
    exists c0, rest. cbn [hd] in Hh. unfold zb in Hh.
    assert (Z.of_N c0 <? 128 = false) as -> by lia.
    repeat split; [exact Hd | unfold is_digit; lia | unfold is_flag; lia | lia].
Qed.

Definition flag_chars (s : fstate) : bytes :=
  (if st_plus s then [43%N] else []) ++ (if st_minus s then [45%N] else []) ++ (if st_sharp s then [35%N] else [])
  ++ (if st_space s then [32%N] else []) ++ (if st_zero s then [48%N] else []).

Lemma flag_chars_spec s : st_minus s && st_zero s = false ->
  forallb is_flag (flag_chars s) = true /\
  fold_left upd_flag (flag_chars s) (mkPf false false false false false) =
    mkPf (st_plus s) (st_minus s) (st_sharp s) (st_space s) (st_zero s) /\ (length (flag_chars s) <= 5)%nat.
Proof.
  unfold flag_chars. destruct s as [p m sh sp z w pr]; cbn [st_plus st_minus st_sharp st_space st_zero].
  destruct p, m, sh, sp, z; cbn; intros H; try discriminate; repeat split; lia.
Qed.


Definition nf_of (s : fstate) : bool :=
  negb (st_plus s) && negb (st_minus s) && negb (st_sharp s) && negb (st_space s) && negb (st_zero s)
  && match st_wid s with None => true | _ => false end && match st_prec s with None => true | _ => false end.
Definition W_of (s : fstate) : bytes := match st_wid s with Some w => itoa w | None => [] end.
Definition P_of (s : fstate) : bytes := match st_prec s with Some p => 46%N :: itoa p | None => [] end.

Lemma make_format_shape s v :
  snd (make_format s v) =
  if nf_of s && (v =? 118) then bs "%v" else if nf_of s && (v =? 115) then bs "%s" else if nf_of s && (v =? 100) then bs "%d"
  else [37%N] ++ flag_chars s ++ W_of s ++ P_of s ++ encode_rune v.
Proof.
  unfold make_format. fold (nf_of s).
  destruct (nf_of s && (v =? 118)); [reflexivity|]. destruct (nf_of s && (v =? 115)); [reflexivity|].
  destruct (nf_of s && (v =? 100)); [reflexivity|]. cbn [snd]. unfold flag_chars, W_of, P_of. rewrite <- !app_assoc. reflexivity.
Qed.

Theorem make_format_roundtrip s v : st_ok s -> verb_ok v -> parse_directive (snd (make_format s v)) = Some (s, v).
Proof.
  intros (Hmz & Hw & Hp) Hv. rewrite make_format_shape.
  assert (nf_of s = true -> s = mkSt false false false false false None None) as Hnf.
  { unfold nf_of. destruct s as [p m sh sp z w pr]; cbn. destruct p, m, sh, sp, z, w, pr; cbn; intros; try discriminate; reflexivity. }
  destruct (nf_of s && (v =? 118)) eqn:E1.
  { apply andb_prop in E1. destruct E1 as [E1 E2]. rewrite (Hnf E1). apply Z.eqb_eq in E2. subst v. reflexivity. }
  destruct (nf_of s && (v =? 115)) eqn:E2.
  { apply andb_prop in E2. destruct E2 as [E2 E3]. rewrite (Hnf E2). apply Z.eqb_eq in E3. subst v. reflexivity. }
  destruct (nf_of s && (v =? 100)) eqn:E3.
  { apply andb_prop in E3. destruct E3 as [E3 E4]. rewrite (Hnf E3). apply Z.eqb_eq in E4. subst v. reflexivity. }
  clear E1 E2 E3 Hnf.
  (* the pieces *)
  destruct (flag_chars_spec s Hmz) as (Hff & Hfold & Hflen).
  set (W := W_of s). set (P := P_of s). unfold W_of in W. unfold P_of in P.
  destruct (verb_bytes_spec v Hv) as (c0 & vr & EV & Hdec & Hvd & Hvf & Hv46).
  rewrite EV.
  set (fs := flag_chars s) in *.
  (* W *)
  assert (exists wd, W = wd /\ forallb is_digit wd = true /\ dval 0 wd <= 1000000 /\
            (if match wd with [] => true | _ => false end then None else Some (dval 0 wd)) = st_wid s /\
            (forall c r, wd = c :: r -> is_flag c = false)) as (wd & EW & Hwd & Hwv & Hwo & Hwf).
  { unfold W. destruct (st_wid s) as [w|].
    - destruct (itoa_spec w ltac:(lia)) as (ds & E & Hne & Hd & Hval & Hh). exists ds. rewrite E, Hval.
      repeat split; try assumption; try lia.
      + destruct ds; [congruence | reflexivity].
      + intros c r ->. cbn [hd forallb] in *. apply andb_prop in Hd. destruct Hd as [Hd _].
        specialize (Hh ltac:(lia)). unfold is_digit in Hd. unfold is_flag. lia.
    - exists []. repeat split; try reflexivity; [cbn; lia | intros; discriminate]. }
  rewrite EW. clear EW W.
  (* P *)
  assert (exists pd, P = (match st_prec s with Some _ => [46%N] | None => [] end) ++ pd /\ forallb is_digit pd = true /\ dval 0 pd <= 1000000 /\
            match st_prec s with Some p => pd <> [] /\ dval 0 pd = p | None => pd = [] end) as (pd & EP & Hpd & Hpv & Hpo).
  { unfold P. destruct (st_prec s) as [p|].
    - destruct (itoa_spec p ltac:(lia)) as (ds & E & Hne & Hd & Hval & Hh). exists ds. rewrite E, Hval.
      repeat split; try assumption; try lia.
    - exists []. repeat split; try reflexivity. cbn; lia. }
  rewrite EP. clear EP P.
  set (dot := match st_prec s with Some _ => [46%N] | None => [] end).
  set (f := [37%N] ++ fs ++ wd ++ (dot ++ pd) ++ c0 :: vr).
  unfold parse_directive.
  assert (fb f 0 = 37) as -> by reflexivity.
  assert ((length f <? 2)%nat = false) as ->.
  { apply Nat.ltb_ge. unfold f. rewrite !app_length. cbn [length]. lia. }
  cbn [Z.eqb negb orb Pos.eqb].
  (* flags *)
  assert (stops_flags (wd ++ (dot ++ pd) ++ c0 :: vr)) as Hsf.
  { intros c r E. destruct wd as [|w0 wr]; [|cbn in E; injection E as <- _; eapply Hwf; reflexivity].
    cbn [app] in E. unfold dot in E. destruct (st_prec s).
    - cbn in E. injection E as <- _. reflexivity.
    - subst pd. cbn in E. injection E as <- _. exact Hvf. }
  pose proof (parse_flags_run fs (S (length f)) [37%N] (wd ++ (dot ++ pd) ++ c0 :: vr) (mkPf false false false false false)
                Hff Hsf ltac:(destruct wd; destruct dot; destruct pd; discriminate)) as Hpf.
  change (length [37%N]) with 1%nat in Hpf. fold f in Hpf. rewrite Hpf by (unfold f; rewrite !app_length; cbn [length]; lia).
  clear Hpf. rewrite Hfold.
  (* width *)
  assert (stops_digits ((dot ++ pd) ++ c0 :: vr)) as Hsd1.
  { intros c r E. unfold dot in E. destruct (st_prec s).
    - cbn in E. injection E as <- _. reflexivity.
    - subst pd. cbn in E. injection E as <- _. exact Hvd. }
  assert (f = ([37%N] ++ fs) ++ wd ++ ((dot ++ pd) ++ c0 :: vr)) as Ef1 by (unfold f; rewrite <- !app_assoc; reflexivity).
  replace (1 + length fs)%nat with (length ([37%N] ++ fs)) by (rewrite app_length; reflexivity).
  rewrite (parsenum_digits' f ([37%N] ++ fs) wd ((dot ++ pd) ++ c0 :: vr) Ef1 Hwd Hsd1 ltac:(destruct dot; destruct pd; discriminate) Hwv).
  set (i2 := (length ([37%N] ++ fs) + length wd)%nat).
  (* precision *)
  assert (f = (([37%N] ++ fs) ++ wd) ++ (dot ++ pd) ++ c0 :: vr) as Ef2 by (unfold f; rewrite <- !app_assoc; reflexivity).
  assert (i2 = length (([37%N] ++ fs) ++ wd)) as Ei2 by (unfold i2; rewrite !app_length; reflexivity).
  assert (stops_digits (c0 :: vr)) as Hsd2 by (intros c r E; injection E as <- _; exact Hvd).
  assert (exists i3, (let '(p, pp, i3) :=
            if (S i2 <? length f)%nat && (fb f i2 =? 46)
            then let '(p, pp, i3) := parsenum f (S i2) (length f) in (if pp then p else 0, true, i3)
            else (0, false, i2) in (p, pp, i3)) =
          (match st_prec s with Some p => p | None => 0 end, match st_prec s with Some _ => true | None => false end, i3)
          /\ f = firstn i3 f ++ c0 :: vr /\ length (firstn i3 f) = i3) as (i3 & Epr & Ef3 & Hl3).
  { unfold dot in *. destruct (st_prec s) as [p|].
    - destruct Hpo as [Hpne Hpval].
      assert (fb f i2 = 46) as -> by (apply (fb_split f _ 46%N (pd ++ c0 :: vr) i2 Ef2); symmetry; exact Ei2).
      assert ((S i2 <? length f)%nat = true) as ->.
      { apply Nat.ltb_lt. rewrite Ef2, Ei2, !app_length. cbn [length]. destruct pd; [congruence|]. cbn [length]. lia. }
      cbn [andb Z.eqb Pos.eqb].
      assert (f = ((([37%N] ++ fs) ++ wd) ++ [46%N]) ++ pd ++ c0 :: vr) as Ef4 by (unfold f; rewrite <- !app_assoc; reflexivity).
      replace (S i2) with (length ((([37%N] ++ fs) ++ wd) ++ [46%N])) by (rewrite Ei2, (app_length _ [46%N]); cbn [length]; lia).
      rewrite (parsenum_digits' f _ pd (c0 :: vr) Ef4 Hpd Hsd2 ltac:(discriminate) Hpv).
      destruct pd as [|p0 pr]; [congruence|]. cbn [negb].
      exists (length (((([37%N] ++ fs) ++ wd) ++ [46%N]) ++ p0 :: pr)). split; [rewrite Hpval, (app_length _ (p0 :: pr)); reflexivity|].
      apply split_at. unfold f. rewrite <- !app_assoc. reflexivity.
    - subst pd.
      assert (f = (([37%N] ++ fs) ++ wd) ++ c0 :: vr) as Ef2' by exact Ef2.
      assert (fb f i2 = Z.of_N c0) as -> by (apply (fb_split f _ c0 vr i2 Ef2'); symmetry; exact Ei2).
      assert ((Z.of_N c0 =? 46) = false) as -> by lia. rewrite Bool.andb_false_r.
      exists i2. split; [reflexivity|]. rewrite Ei2. apply split_at. exact Ef2'. }
  revert Epr.
  destruct (if (S i2 <? length f)%nat && (fb f i2 =? 46)
            then let '(p, pp, i3) := parsenum f (S i2) (length f) in (if pp then p else 0, true, i3)
            else (0, false, i2)) as [[p' pp'] i3'].
  intros Epr. injection Epr as -> -> ->.
  (* verb *)
  pose proof (len_split _ _ _ _ Ef3 Hl3) as Elen. cbn [length] in Elen.
  assert ((length f <=? i3)%nat = false) as -> by (apply Nat.leb_gt; lia).
  rewrite (fb_split _ _ _ _ _ Ef3 Hl3), (skipn_split _ _ _ _ Ef3 Hl3), Hdec.
  assert (((i3 + length (c0 :: vr))%nat =? length f)%nat = true) as -> by (apply Nat.eqb_eq; cbn [length]; lia).
  cbn [negb]. f_equal. f_equal.
  destruct s as [p m sh sp z w pr]. cbn [st_plus st_minus st_sharp st_space st_zero st_wid st_prec] in *.
  cbn [Forward.f_plus Forward.f_minus Forward.f_sharp Forward.f_space Forward.f_zero].
  f_equal.
  - destruct wd; cbn [negb]; exact Hwo.
  - destruct pr; reflexivity.
Qed.
Print Assumptions make_format_roundtrip.
