(* Layer 2: internal/buffer/buffer.go on lists (abstract view: capacity and
   aliasing are the subject of BufMem.v). *)
From Redact Require Export Escape Markers.
Open Scope N_scope.

Inductive mode := MUnsafe | MSafe | MRaw.   (* UnsafeEscaped=0, SafeEscaped=1, SafeRaw=PreRedactable=2 *)

Definition mode_eqb (a b : mode) : bool :=
  match a, b with
  | MUnsafe, MUnsafe | MSafe, MSafe | MRaw, MRaw => true
  | _, _ => false
  end.

Record buffer := mkBuf {
  buf : bytes;
  validUntil : nat;
  bmode : mode;
  markerOpen : bool
}.

Definition init : buffer := mkBuf [] 0 MUnsafe false.

Definition set_buf (b : buffer) (x : bytes) : buffer :=
  mkBuf x (validUntil b) (bmode b) (markerOpen b).
Definition set_valid (b : buffer) (v : nat) : buffer :=
  mkBuf (buf b) v (bmode b) (markerOpen b).
Definition set_open (b : buffer) (o : bool) : buffer :=
  mkBuf (buf b) (validUntil b) (bmode b) o.
Definition set_mode_field (b : buffer) (m : mode) : buffer :=
  mkBuf (buf b) (validUntil b) m (markerOpen b).

(* startRedactable *)
Definition start_redactable (b : buffer) : buffer :=
  let x := if has_suffix (buf b) endB then drop_last 3 (buf b) else buf b ++ startB in
  set_open (set_buf b x) true.

(* startWrite *)
Definition start_write (b : buffer) : buffer :=
  if mode_eqb (bmode b) MUnsafe && negb (markerOpen b) then
    let b1 := start_redactable b in set_valid b1 (length (buf b1))
  else b.

(* endRedactable *)
Definition end_redactable (b : buffer) : buffer :=
  match buf b with
  | [] => b
  | _ =>
    let x := if has_suffix (buf b) startB then drop_last 3 (buf b) else buf b ++ endB in
    set_open (set_buf b x) false
  end.

(* escapeToEnd *)
Definition escape_to_end (b : buffer) (bnl : bool) : buffer :=
  let x := escape (buf b) (validUntil b) bnl false in
  set_valid (set_buf b x) (length x).

(* finalize *)
Definition finalize (b : buffer) : buffer :=
  let b1 := match bmode b with
            | MRaw => set_valid b (length (buf b))
            | m => escape_to_end b (mode_eqb m MUnsafe)
            end in
  if markerOpen b1 then
    let b2 := end_redactable b1 in set_valid b2 (length (buf b2))
  else b1.

(* SetMode *)
Definition set_mode (b : buffer) (m : mode) : buffer :=
  if mode_eqb (bmode b) m then b else
  let b1 := match bmode b with
            | MRaw => b
            | m0 => escape_to_end b (mode_eqb m0 MUnsafe)
            end in
  let b2 := if markerOpen b1 then end_redactable b1 else b1 in
  set_mode_field (set_valid b2 (length (buf b2))) m.

(* Write / WriteString *)
Definition write (b : buffer) (p : bytes) : buffer :=
  let b1 := start_write b in set_buf b1 (buf b1 ++ p).

(* WriteByte *)
Definition write_byte (b : buffer) (c : N) : buffer :=
  let b1 := start_write b in
  if mode_eqb (bmode b1) MUnsafe && ((128 <=? c) || (c =? 226)) then
    write b1 escB
  else set_buf b1 (buf b1 ++ [c]).

(* WriteRune.  The code sizes the write with utf8.RuneLen, which is -1 for
   invalid runes; then b.buf[:l+n] / b.buf[m:] are evaluated.  None models the
   resulting runtime panic (slice bounds out of range). *)
Definition write_rune_v0 (b : buffer) (r : Z) : option buffer :=
  let b1 := start_write b in
  if (rune_len r <? 0)%Z then
    (* tryGrowByReslice(-1): n <= cap-l always true; b.buf[:l-1] panics when l = 0;
       otherwise the buffer shrinks by one and EncodeRune into buf[l:] of the
       shortened slice: buf[m:] with m = l > len: panics. *)
    None
  else Some (set_buf b1 (buf b1 ++ encode_rune r)).

(* WriteRune as repaired (fix: invalid runes are written as U+FFFD, like
   utf8.EncodeRune / bytes.Buffer.WriteRune do). *)
Definition write_rune (b : buffer) (r : Z) : buffer :=
  let b1 := start_write b in set_buf b1 (buf b1 ++ encode_rune r).

(* Accessors (value receivers: operate on a copy). *)
Definition redactable_bytes (b : buffer) : bytes := buf (finalize b).
Definition string_of (b : buffer) : bytes := strip_b (buf (finalize b)).
Definition len_of (b : buffer) : nat := length (buf (finalize b)).

(* TakeRedactableBytes / TakeRedactableString *)
Definition take (b : buffer) : bytes * buffer :=
  let b1 := finalize b in
  (buf b1, mkBuf [] 0 MUnsafe (markerOpen b1)).

(* Reset *)
Definition reset (b : buffer) : buffer := mkBuf [] 0 MUnsafe false.
