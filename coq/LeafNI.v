(* Layer 4 proofs: non-interference of the printer for leaf operands.
   Two calls Sprintf(f, a1...) and Sprintf(f, a2...) whose operands are values of basic kinds
   (bool, integers, strings of any named or unnamed type; floats and nil held equal) that differ
   only in unsafe content - integers other than 0 and 10 against each other, strings position
   by position (equal bytes, or ASCII bytes other than line feed on both sides), operands of
   SafeValue or registered types equal - make Buffer calls related by [dsim]: the same mode
   switches, the same literal/diagnostic writes, unsafe stretches of the same skeleton.  Hence
   (SegNI) Redact() of the two results is byte-identical: for every format (all flags, widths,
   precisions, argument indexes, bad verbs, EXTRA/MISSING/BADINDEX/NOVERB diagnostics), without
   '*' (a width taken from an operand is public).  The proof is a relational Hoare logic over
   the evaluator, run in lock step on the two inputs. *)
From Redact Require Import Bytes Tokens Utf8 Buffer Ops BufInv BufContent Fmt Value LBuf Printer Api.
From Redact Require Import BufInvP BufContentP RedactNI SegNI FmtNI Hoare Keeps LeafP.
From Coq Require Import String Lia ZArith.
Import List ListNotations.
Open Scope Z_scope.
Open Scope list_scope.

(* ---------- the relation on operands ---------- *)
Definition leafish (v : value) : bool :=
  match v with VNil | VBool _ _ | VInt _ _ | VUint _ _ | VFloat _ _ _ | VStr _ _ => true | _ => false end.

Definition irel (u1 u2 : Z) : Prop :=
  0 <= u1 < two64 /\ 0 <= u2 < two64 /\ u1 <> 0 /\ u2 <> 0 /\ u1 <> 10 /\ u2 <> 10.

Definition lrel (v1 v2 : value) : Prop :=
  leafish v1 = true /\ leafish v2 = true /\
  (v1 = v2 \/
   (is_safe_value v1 = false /\ is_registered v1 = false /\
    match v1, v2 with
    | VBool t1 _, VBool t2 _ => t1 = t2
    | VInt t1 u1, VInt t2 u2 => t1 = t2 /\ irel u1 u2
    | VUint t1 u1, VUint t2 u2 => t1 = t2 /\ irel u1 u2
    | VStr t1 s1, VStr t2 s2 => t1 = t2 /\ srel s1 s2
    | _, _ => False
    end)).

Lemma lrel_refl v : leafish v = true -> lrel v v.
Proof. intros H. repeat split; auto. Qed.

Lemma lrel_tinfo v1 v2 : lrel v1 v2 -> tinfo_of v1 = tinfo_of v2 /\ type_name v1 = type_name v2 /\
  is_safe_value v1 = is_safe_value v2 /\ is_registered v1 = is_registered v2 /\ is_basic v1 = is_basic v2 /\
  is_string_kind v1 = is_string_kind v2 /\ is_nil_ptr v1 = is_nil_ptr v2.
Proof.
  intros (L1 & L2 & [-> | (Hs & Hr & H)]); [repeat split|].
  destruct v1, v2; try contradiction; try discriminate; cbn in *;
    try (destruct H as [-> _]); try subst; repeat split; reflexivity.
Qed.

Lemma lrel_safe_eq v1 v2 : lrel v1 v2 -> (is_safe_value v1 || is_registered v1) = true -> v1 = v2.
Proof.
  intros (_ & _ & [-> | (Hs & Hr & _)]) H; [reflexivity|]. rewrite Hs, Hr in H. discriminate.
Qed.

Definition orel {A} (R : A -> A -> Prop) (a b : option A) : Prop :=
  match a, b with Some x, Some y => R x y | None, None => True | _, _ => False end.

(* ---------- the relation on printer states ---------- *)
Record NB (s1 s2 : pst) : Prop := mkNB {
  nb_ovr : povr s1 = povr s2;
  nb_nou : povr s1 <> OvrUnsafe;
  nb_sm : povr s1 = OvrSafe -> lmode (pl s1) <> MUnsafe;
  nb_mode : lmode (pl s1) = lmode (pl s2);
  nb_pf : pf s1 = pf s2;
  nb_re : reordered s1 = reordered s2;
  nb_good : goodArgNum s1 = goodArgNum s2;
  nb_pan : panicking s1 = panicking s2;
  nb_err : erroring s1 = erroring s2;
  nb_we : wrapErrs s1 = wrapErrs s2;
  nb_wd : wrappedErr s1 = None /\ wrappedErr s2 = None;
  nb_arg : orel lrel (parg s1) (parg s2);
  nb_val : orel (fun a b => lrel (fst a) (fst b) /\ snd a = snd b) (pval s1) (pval s2)
}.

(* inside a safe override (SafeValue operand) the two runs print the same value *)
Definition SE (s1 s2 : pst) : Prop := povr s1 = OvrSafe -> parg s1 = parg s2 /\ pval s1 = pval s2.

(* the calls appended by the two runs are related *)
Definition seg (s1 s1' s2 s2' : pst) : Prop :=
  exists d1 d2, rlog (pl s1') = d1 ++ rlog (pl s1) /\ rlog (pl s2') = d2 ++ rlog (pl s2) /\
                dsim (lmode (pl s1)) (rev d1) (rev d2) (lmode (pl s1')).

Lemma seg_refl s1 s2 : seg s1 s1 s2 s2.
Proof. exists [], []. split; [reflexivity|]. split; [reflexivity|]. constructor. Qed.

Lemma seg_trans s1 s1' s1'' s2 s2' s2'' : seg s1 s1' s2 s2' -> seg s1' s1'' s2' s2'' -> seg s1 s1'' s2 s2''.
Proof.
  intros (d1 & d2 & E1 & E2 & D) (e1 & e2 & F1 & F2 & D').
  exists (e1 ++ d1), (e2 ++ d2). rewrite F1, F2, E1, E2, !app_assoc. split; [reflexivity|]. split; [reflexivity|].
  rewrite !rev_app_distr. eapply dsim_app; eassumption.
Qed.

(* the relational judgement; H: what is known about the initial state of the first run *)
Definition JS (H : pst -> pst -> Prop) {A} (RA : A -> A -> Prop) (m1 m2 : M A) : Prop :=
  forall s1 s2, NB s1 s2 -> SE s1 s2 -> H s1 s2 ->
    match m1 s1, m2 s2 with
    | (ROk a1, s1'), (ROk a2, s2') => RA a1 a2 /\ NB s1' s2' /\ SE s1' s2' /\ seg s1 s1' s2 s2'
    | _, _ => True
    end.
Notation J := (JS (fun _ _ => True)).

(* a fact known whenever the override is Safe *)
Definition HS (P : Prop) : pst -> pst -> Prop := fun s1 _ => povr s1 = OvrSafe -> P.

Lemma J_JS H {A} (RA : A -> A -> Prop) m1 m2 : J RA m1 m2 -> JS H RA m1 m2.
Proof. intros Hj s1 s2 N S _. now apply Hj. Qed.

Lemma JS_weaken (H H' : pst -> pst -> Prop) {A} (RA : A -> A -> Prop) m1 m2 :
  (forall s1 s2, H' s1 s2 -> H s1 s2) -> JS H RA m1 m2 -> JS H' RA m1 m2.
Proof. intros Hi Hj s1 s2 N S Hs. apply Hj; auto. Qed.

Lemma J_ret {A} (RA : A -> A -> Prop) a1 a2 : RA a1 a2 -> J RA (ret a1) (ret a2).
Proof. intros H s1 s2 N S _. cbn. refine (conj H (conj N (conj S _))). apply seg_refl. Qed.

Lemma JS_bind H {A B} (RA : A -> A -> Prop) (RB : B -> B -> Prop) m1 m2 k1 k2 :
  JS H RA m1 m2 -> (forall a1 a2, RA a1 a2 -> J RB (k1 a1) (k2 a2)) -> JS H RB (bind m1 k1) (bind m2 k2).
Proof.
  intros Hm Hk s1 s2 N S Hs. unfold bind. specialize (Hm s1 s2 N S Hs).
  destruct (m1 s1) as [[a1|v1| |w1] s1'] eqn:E1; destruct (m2 s2) as [[a2|v2| |w2] s2'] eqn:E2; try exact Logic.I;
    try (destruct (k1 a1 s1') as [[?|?| |?] ?]; exact Logic.I).
  destruct Hm as (Ra & N' & S' & G).
  specialize (Hk a1 a2 Ra s1' s2' N' S' Logic.I).
  destruct (k1 a1 s1') as [[b1|?| |?] s1''], (k2 a2 s2') as [[b2|?| |?] s2'']; try exact Logic.I.
  destruct Hk as (Rb & N'' & S'' & G'). refine (conj Rb (conj N'' (conj S'' _))). eapply seg_trans; eassumption.
Qed.

Lemma J_bind {A B} (RA : A -> A -> Prop) (RB : B -> B -> Prop) m1 m2 k1 k2 :
  J RA m1 m2 -> (forall a1 a2, RA a1 a2 -> J RB (k1 a1) (k2 a2)) -> J RB (bind m1 k1) (bind m2 k2).
Proof. apply JS_bind. Qed.

(* the first computation leaves the override alone: a fact about the safe override survives it *)
Lemma JS_bind_k P {A B} (RA : A -> A -> Prop) (RB : B -> B -> Prop) m1 m2 k1 k2 :
  JS (HS P) RA m1 m2 -> kovr m1 ->
  (forall a1 a2, RA a1 a2 -> JS (HS P) RB (k1 a1) (k2 a2)) -> JS (HS P) RB (bind m1 k1) (bind m2 k2).
Proof.
  intros Hm Hko Hk s1 s2 N S Hs. unfold bind. specialize (Hm s1 s2 N S Hs). pose proof (Hko s1) as Eo.
  destruct (m1 s1) as [[a1|v1| |w1] s1'] eqn:E1; destruct (m2 s2) as [[a2|v2| |w2] s2'] eqn:E2; try exact Logic.I;
    try (destruct (k1 a1 s1') as [[?|?| |?] ?]; exact Logic.I).
  destruct Hm as (Ra & N' & S' & G). cbn [snd] in Eo.
  assert (HS P s1' s2') as Hs' by (unfold HS in *; rewrite Eo; exact Hs).
  specialize (Hk a1 a2 Ra s1' s2' N' S' Hs').
  destruct (k1 a1 s1') as [[b1|?| |?] s1''], (k2 a2 s2') as [[b2|?| |?] s2'']; try exact Logic.I.
  destruct Hk as (Rb & N'' & S'' & G'). refine (conj Rb (conj N'' (conj S'' _))). eapply seg_trans; eassumption.
Qed.

(* reading the printer state: the continuation may use that it IS the current state *)
Lemma JS_get_bind H {B} (RB : B -> B -> Prop) (k1 k2 : pst -> M B) :
  (forall a b, JS (fun s1 s2 => s1 = a /\ s2 = b /\ H a b) RB (k1 a) (k2 b)) ->
  JS H RB (bind Printer.get k1) (bind Printer.get k2).
Proof.
  intros Hk s1 s2 N S Hs. unfold bind, Printer.get. apply (Hk s1 s2 s1 s2 N S). auto.
Qed.

Definition any {A} (_ _ : A) : Prop := True.

(* results do not matter *)
Lemma J_any {A} (RA : A -> A -> Prop) m1 m2 : J RA m1 m2 -> J any m1 m2.
Proof.
  intros Hj s1 s2 N S Hs. specialize (Hj s1 s2 N S Hs).
  destruct (m1 s1) as [[a1|?| |?] s1'], (m2 s2) as [[a2|?| |?] s2']; try exact Logic.I.
  destruct Hj as (_ & N' & S' & G). exact (conj Logic.I (conj N' (conj S' G))).
Qed.

Lemma J_getf : J eq getf getf.
Proof. intros s1 s2 N S _. cbn. refine (conj (nb_pf _ _ N) (conj N (conj S _))). apply seg_refl. Qed.
Lemma J_get_mode : J eq get_mode get_mode.
Proof. intros s1 s2 N S _. cbn. refine (conj (nb_mode _ _ N) (conj N (conj S _))). apply seg_refl. Qed.
Lemma J_get : J (fun a b => NB a b /\ SE a b) Printer.get Printer.get.
Proof. intros s1 s2 N S _. cbn. refine (conj (conj N S) (conj N (conj S _))). apply seg_refl. Qed.

Lemma J_of_opt {A} (o : option A) : J eq (of_opt o) (of_opt o).
Proof. destruct o; [now apply J_ret | intros s1 s2 _ _ _; exact Logic.I]. Qed.

(* a field update that keeps the relation *)
Lemma J_modify (f g : pst -> pst) :
  (forall s1 s2, NB s1 s2 -> SE s1 s2 -> NB (f s1) (g s2) /\ SE (f s1) (g s2)) ->
  (forall s, pl (f s) = pl s) -> (forall s, pl (g s) = pl s) ->
  J any (modify f) (modify g).
Proof.
  intros Hr Hf Hg s1 s2 N S _. unfold modify. destruct (Hr s1 s2 N S) as [N' S'].
  refine (conj Logic.I (conj N' (conj S' _))). exists [], []. rewrite Hf, Hg. split; [reflexivity|]. split; [reflexivity|]. constructor.
Qed.

(* ---------- Buffer calls ---------- *)
Lemma lset_state s o : bop o s = (ROk (snd (l_step (pl s) o)), set_pl s (lset (pl s) o)).
Proof. unfold bop, lset. destruct (l_step (pl s) o). reflexivity. Qed.

Lemma pl_set_pl s x : pl (set_pl s x) = x.
Proof. reflexivity. Qed.

Lemma NB_set_pl s1 s2 l1 l2 : NB s1 s2 -> lmode l1 = lmode l2 -> (povr s1 = OvrSafe -> lmode l1 <> MUnsafe) ->
  NB (set_pl s1 l1) (set_pl s2 l2).
Proof. intros [] Hm Hs. destruct s1, s2; constructor; cbn in *; auto. Qed.
Lemma SE_set_pl s1 s2 l1 l2 : SE s1 s2 -> SE (set_pl s1 l1) (set_pl s2 l2).
Proof. unfold SE. destruct s1, s2; cbn. auto. Qed.

(* the same write on both sides, in any mode *)
Lemma J_bop_same o : is_wr o = true -> J any (bop o) (bop o).
Proof.
  intros Ho s1 s2 N S _. rewrite !lset_state.
  assert (is_write o) as Hw by (destruct o; cbn in Ho; try discriminate; exact Logic.I).
  refine (conj Logic.I (conj _ (conj _ _))).
  - apply NB_set_pl; [exact N | rewrite !lmode_write by exact Hw; apply N |].
    intros H. rewrite lmode_write by exact Hw. now apply N.
  - now apply SE_set_pl.
  - exists [o], [o]. rewrite !pl_set_pl, !rlog_lset. split; [reflexivity|]. split; [reflexivity|].
    cbn [rev app]. rewrite lmode_write by exact Hw.
    destruct (lmode (pl s1)) eqn:Em.
    + rewrite <- (app_nil_r [o]). apply ds_useg; [apply useg_refl; cbn; now rewrite Ho | constructor].
    + apply ds_same; [discriminate | exact Ho | constructor].
    + apply ds_same; [discriminate | exact Ho | constructor].
Qed.

Lemma J_w1 w : J any (w1 w) (w1 w).
Proof. destruct w; cbn [w1]; (eapply J_bind; [apply J_bop_same; reflexivity | intros; now apply J_ret]). Qed.
Lemma J_wr ws : J any (wr ws) (wr ws).
Proof. induction ws as [|w r IH]; cbn [wr]; [now apply J_ret|]. eapply J_bind; [apply J_w1 | intros; exact IH]. Qed.
Lemma J_wstr str : J any (wstr str) (wstr str). Proof. apply J_w1. Qed.
Lemma J_wbyte c : J any (wbyte c) (wbyte c). Proof. apply J_w1. Qed.

(* SetMode(m) on both sides; under a safe override only towards a mode that is not unsafe *)
Lemma JS_set_mode m : JS (HS (m <> MUnsafe)) any (set_mode_m m) (set_mode_m m).
Proof.
  intros s1 s2 N S Hs. rewrite !setmode_state.
  refine (conj Logic.I (conj _ (conj _ _))).
  - apply NB_set_pl; [exact N | now rewrite !lmode_setmode | intros H; rewrite lmode_setmode; now apply Hs].
  - now apply SE_set_pl.
  - exists [OMode m], [OMode m]. rewrite !pl_set_pl, !rlog_lset. split; [reflexivity|]. split; [reflexivity|].
    cbn [rev app]. rewrite lmode_setmode.
    apply ds_mode. constructor.
Qed.

(* ---------- writes of related segments, in unsafe mode ---------- *)
Fixpoint lwrites (l : lbuf) (os : list op) : lbuf :=
  match os with [] => l | o :: r => lwrites (lset l o) r end.

Lemma lwrites_log os : forall l, forallb is_wr os = true ->
  rlog (lwrites l os) = rev os ++ rlog l /\ lmode (lwrites l os) = lmode l.
Proof.
  induction os as [|o r IH]; intros l H; [split; reflexivity|].
  cbn [forallb] in H. apply andb_prop in H. destruct H as [Ho Hr]. cbn [lwrites rev].
  destruct (IH (lset l o) Hr) as [E1 E2]. rewrite E1, E2, rlog_lset, <- app_assoc. split; [reflexivity|].
  apply lmode_write. destruct o; cbn in Ho; try discriminate; exact Logic.I.
Qed.

Lemma wr_state ws : forall s, wr ws s = (ROk tt, set_pl s (lwrites (pl s) (ops_of ws))).
Proof.
  induction ws as [|w r IH]; intros s; [destruct s; reflexivity|].
  cbn [wr]. unfold bind.
  assert (w1 w s = (ROk tt, set_pl s (lset (pl s) (op_of w)))) as ->.
  { destruct w; cbn [w1 op_of]; unfold bind; rewrite lset_state; reflexivity. }
  rewrite IH. destruct s; reflexivity.
Qed.

Lemma set_ovr_id s : set_ovr s (povr s) = s.
Proof. destruct s; reflexivity. Qed.

Lemma NB_mode_unsafe_nosafe s1 s2 : NB s1 s2 -> povr s1 <> OvrSafe -> povr s1 = NoOvr.
Proof. intros N H. pose proof (nb_nou _ _ N). destruct (povr s1); congruence. Qed.

(* defer p.startUnsafe().restore() around "f := p.fmt; write what g(f) asks for" *)
Definition ubody (g : fst_ -> option (list wop)) : M unit :=
  bracket start_unsafe (f <- getf ;; ws <- of_opt (g f) ;; wr ws).

Lemma ubody_run g s :
  ubody g s =
  let l0 := if ovr_eqb (povr s) OvrSafe then pl s else lset (pl s) (OMode MUnsafe) in
  match g (pf s) with
  | Some w => (ROk tt, set_pl s (lset (lwrites l0 (ops_of w)) (OMode (lmode (pl s)))))
  | None => (RMiss 0, set_pl s (lset l0 (OMode (lmode (pl s)))))
  end.
Proof.
  unfold ubody, bracket, start_unsafe, bind, get_mode, Printer.get, getf.
  destruct (ovr_eqb (povr s) OvrSafe) eqn:Ev.
  - unfold ret. cbn iota beta zeta.
    destruct (g (pf s)) as [w|]; unfold of_opt, ret, miss, missc; cbn iota beta.
    + rewrite wr_state, restore_state. cbn [fst snd]. destruct s; reflexivity.
    + rewrite restore_state. cbn [fst snd]. destruct s; reflexivity.
  - rewrite setmode_state. unfold ret. cbn iota beta zeta.
    assert (pf (set_pl s (lset (pl s) (OMode MUnsafe))) = pf s) as -> by (destruct s; reflexivity).
    destruct (g (pf s)) as [w|]; unfold of_opt, ret, miss, missc; cbn iota beta.
    + rewrite wr_state, restore_state. cbn [fst snd]. destruct s; reflexivity.
    + rewrite restore_state. cbn [fst snd]. destruct s; reflexivity.
Qed.

Lemma ubody_rel g1 g2 :
  (forall f w1 w2, g1 f = Some w1 -> g2 f = Some w2 -> usegw w1 w2) ->
  JS (HS (forall f, g1 f = g2 f)) any (ubody g1) (ubody g2).
Proof.
  intros Hrel s1 s2 N S Hs. rewrite !ubody_run. cbn zeta.
  pose proof (nb_ovr _ _ N) as Eo. rewrite <- Eo, <- (nb_pf _ _ N), <- (nb_mode _ _ N).
  destruct (g1 (pf s1)) as [w1|] eqn:G1; [|exact Logic.I]. destruct (g2 (pf s1)) as [w2|] eqn:G2; [|exact Logic.I].
  destruct (ovr_eqb (povr s1) OvrSafe) eqn:Ev.
  - (* inside a safe override: same value, same writes, no mode switch *)
    assert (povr s1 = OvrSafe) as Hv by (destruct (povr s1); try discriminate; reflexivity).
    assert (w1 = w2) as <- by (rewrite (Hs Hv) in G1; congruence).
    destruct (lwrites_log (ops_of w1) (pl s1) (ops_of_wr w1)) as [L1 M1].
    destruct (lwrites_log (ops_of w1) (pl s2) (ops_of_wr w1)) as [L2 M2].
    refine (conj Logic.I (conj _ (conj _ _))).
    + apply NB_set_pl; [exact N | now rewrite !lmode_setmode | intros _; rewrite lmode_setmode; now apply N].
    + now apply SE_set_pl.
    + exists (OMode (lmode (pl s1)) :: rev (ops_of w1)), (OMode (lmode (pl s1)) :: rev (ops_of w1)).
      rewrite !pl_set_pl, !rlog_lset, L1, L2. split; [reflexivity|]. split; [reflexivity|].
      rewrite lmode_setmode. cbn [rev]. rewrite rev_involutive.
      assert (lmode (pl s1) <> MUnsafe) as Hm by (now apply N).
      assert (forall os, forallb is_wr os = true -> dsim (lmode (pl s1)) (os ++ [OMode (lmode (pl s1))]) (os ++ [OMode (lmode (pl s1))]) (lmode (pl s1))) as Hd.
      { induction os as [|o r IH]; intros Hw; cbn [app]; [apply ds_mode; constructor|].
        cbn [forallb] in Hw. apply andb_prop in Hw. destruct Hw. apply ds_same; auto. }
      apply Hd, ops_of_wr.
  - (* no override: SetMode(unsafe), the two related segments, SetMode(previous) *)
    assert (povr s1 = NoOvr) as Hv by (apply (NB_mode_unsafe_nosafe s1 s2 N); intros X; rewrite X in Ev; discriminate).
    set (u1 := lset (pl s1) (OMode MUnsafe)). set (u2 := lset (pl s2) (OMode MUnsafe)).
    destruct (lwrites_log (ops_of w1) u1 (ops_of_wr w1)) as [L1 M1].
    destruct (lwrites_log (ops_of w2) u2 (ops_of_wr w2)) as [L2 M2].
    refine (conj Logic.I (conj _ (conj _ _))).
    + apply NB_set_pl; [exact N | now rewrite !lmode_setmode | intros X; congruence].
    + now apply SE_set_pl.
    + exists (OMode (lmode (pl s1)) :: rev (ops_of w1) ++ [OMode MUnsafe]), (OMode (lmode (pl s1)) :: rev (ops_of w2) ++ [OMode MUnsafe]).
      rewrite !pl_set_pl, !rlog_lset, L1, L2. unfold u1, u2. rewrite !rlog_lset.
      split; [cbn [app]; now rewrite <- app_assoc|]. split; [cbn [app]; now rewrite <- app_assoc|].
      rewrite lmode_setmode. cbn [rev]. rewrite !rev_app_distr, !rev_involutive. cbn [rev app].
      apply ds_mode. apply ds_useg; [exact (Hrel _ _ _ G1 G2)|]. apply ds_mode. constructor.
Qed.

Lemma ubody_wr_rel g1 g2 :
  (forall f, usegw (g1 f) (g2 f)) ->
  JS (HS (forall f, g1 f = g2 f)) any (bracket start_unsafe (f <- getf ;; wr (g1 f))) (bracket start_unsafe (f <- getf ;; wr (g2 f))).
Proof.
  intros Hr.
  change (bracket start_unsafe (f <- getf ;; wr (g1 f))) with (ubody (fun f => Some (g1 f))).
  change (bracket start_unsafe (f <- getf ;; wr (g2 f))) with (ubody (fun f => Some (g2 f))).
  eapply JS_weaken; [|apply ubody_rel].
  - intros s1 s2 H Hv f. now rewrite (H Hv f).
  - intros f w1 w2 E1 E2. injection E1 as <-. injection E2 as <-. apply Hr.
Qed.

Lemma ubody_opt_rel g1 g2 :
  (forall f w1 w2, g1 f = Some w1 -> g2 f = Some w2 -> usegw w1 w2) ->
  JS (HS (forall f, g1 f = g2 f)) any (bracket start_unsafe (f <- getf ;; ws <- of_opt (g1 f) ;; wr ws))
                                      (bracket start_unsafe (f <- getf ;; ws <- of_opt (g2 f) ;; wr ws)).
Proof. exact (ubody_rel g1 g2). Qed.

(* ---------- related calls of the evaluator ---------- *)
Definition crel (c1 c2 : call) : Prop :=
  match c1, c2 with
  | CPrintArg v1 b1, CPrintArg v2 b2 => b1 = b2 /\ lrel v1 v2
  | CPrintValue v1 b1 d1 ci1, CPrintValue v2 b2 d2 ci2 => b1 = b2 /\ d1 = O /\ d2 = O /\ ci1 = ci2 /\ lrel v1 v2
  | CBadVerb b1, CBadVerb b2 => b1 = b2
  | CHandleMethods b1, CHandleMethods b2 => b1 = b2
  | _, _ => False
  end.
(* what must be known when the override is Safe: the same value is printed *)
Definition cP (c1 c2 : call) : Prop :=
  match c1, c2 with
  | CPrintArg v1 _, CPrintArg v2 _ => v1 = v2
  | CPrintValue v1 _ _ _, CPrintValue v2 _ _ _ => v1 = v2
  | _, _ => True
  end.
Definition rec_ok (rec : recT) : Prop := forall c1 c2, crel c1 c2 -> JS (HS (cP c1 c2)) eq (rec c1) (rec c2).

Definition urel (u1 u2 : Z) : Prop := u1 = u2 \/ irel u1 u2.

Lemma fmt_integer_urel f u1 u2 base sg verb up : base_ok base -> urel u1 u2 ->
  usegw (fmt_integer f u1 base sg verb up) (fmt_integer f u2 base sg verb up).
Proof.
  intros Hb [-> | (H1 & H2 & N1 & N2 & _)]; [apply usegw_refl|].
  apply fmt_integer_rel; try assumption. split; intros; contradiction.
Qed.

Section Rec.
  Variable rec : recT.
  Variable env : env.
  Hypothesis Hrec : rec_ok rec.
  Hypothesis Hkrec : forall c, kovr (rec c).
  Hypothesis Hos : osane (orc env).

  Lemma J_badverb_call verb : J any (rec (CBadVerb verb) ;;; ret tt) (rec (CBadVerb verb) ;;; ret tt).
  Proof.
    eapply J_bind; [|intros; now apply J_ret].
    eapply JS_weaken; [|apply (Hrec (CBadVerb verb) (CBadVerb verb)); reflexivity]. intros ? ? _ _. exact Logic.I.
  Qed.

  Lemma JfmtBool b1 b2 verb : JS (HS (b1 = b2)) any (fmtBool rec b1 verb) (fmtBool rec b2 verb).
  Proof.
    unfold fmtBool. destruct (isv verb "tv"); [|apply J_JS, J_badverb_call].
    eapply JS_weaken; [|apply (ubody_wr_rel (fun f => fmt_boolean f b1) (fun f => fmt_boolean f b2))].
    - intros s1 s2 H Hv f. now rewrite (H Hv).
    - intros f. apply fmt_boolean_rel.
  Qed.

  Lemma fmt0x64_ubody v l s : fmt0x64 v l s = ubody (fun f => Some (fmt_integer (set_sharp f l) v 16 false 118 false)) s.
  Proof.
    rewrite ubody_run. unfold fmt0x64, bind, getf, modify. cbn iota beta zeta.
    change (bracket start_unsafe (fun s0 => match (let (r, s1) := (ROk (pf s0), s0) in match r with ROk a => wr (fmt_integer a v 16 false 118 false) s1 | RPanic v0 => (RPanic v0, s1) | RFuel => (RFuel, s1) | RMiss w => (RMiss w, s1) end) with
              | (ROk _, s1) => (ROk tt, set_pf s1 (set_sharp (pf s1) (sharp (fl (pf s)))))
              | (RPanic v0, s1) => (RPanic v0, s1) | (RFuel, s1) => (RFuel, s1) | (RMiss w, s1) => (RMiss w, s1) end))
      with (bracket start_unsafe (fun s0 => match wr (fmt_integer (pf s0) v 16 false 118 false) s0 with
              | (ROk _, s1) => (ROk tt, set_pf s1 (set_sharp (pf s1) (sharp (fl (pf s)))))
              | (RPanic v0, s1) => (RPanic v0, s1) | (RFuel, s1) => (RFuel, s1) | (RMiss w, s1) => (RMiss w, s1) end)).
    unfold bracket, start_unsafe, bind, get_mode, Printer.get.
    assert (povr (set_pf s (set_sharp (pf s) l)) = povr s) as -> by (destruct s; reflexivity).
    destruct (ovr_eqb (povr s) OvrSafe) eqn:Ev.
    - unfold ret. cbn iota beta. rewrite wr_state, restore_state. cbn [fst snd].
      destruct s as [pl0 ov ar va [flx wi pr] ? ? ? ? ? ?]. destruct flx. reflexivity.
    - rewrite setmode_state. unfold ret. cbn iota beta. rewrite wr_state, restore_state. cbn [fst snd].
      destruct s as [pl0 ov ar va [flx wi pr] ? ? ? ? ? ?]. destruct flx. reflexivity.
  Qed.

  Lemma Jfmt0x64 u1 u2 l : urel u1 u2 -> JS (HS (u1 = u2)) any (fmt0x64 u1 l) (fmt0x64 u2 l).
  Proof.
    intros Hu s1 s2 N S Hs. rewrite !fmt0x64_ubody.
    apply (ubody_rel (fun f => Some (fmt_integer (set_sharp f l) u1 16 false 118 false)) (fun f => Some (fmt_integer (set_sharp f l) u2 16 false 118 false))); auto.
    - intros f w1 w2 E1 E2. injection E1 as <-. injection E2 as <-. apply fmt_integer_urel; [right; right; right; reflexivity | exact Hu].
    - intros Hv f. now rewrite (Hs Hv).
  Qed.

  Lemma ubody_refl g : J any (ubody g) (ubody g).
  Proof.
    eapply JS_weaken; [|apply (ubody_rel g g)]; [intros; intro; reflexivity|].
    intros f w1 w2 E1 E2. rewrite E1 in E2. injection E2 as <-. apply usegw_refl.
  Qed.

  Ltac ub_wr g1 g2 :=
    eapply JS_weaken; [|apply (ubody_wr_rel g1 g2)].
  Ltac ub_opt g1 g2 :=
    eapply JS_weaken; [|apply (ubody_opt_rel g1 g2)].

  Lemma JfmtInteger u1 u2 sg verb : urel u1 u2 -> (irel u1 u2 -> 0 <= u1 /\ 0 <= u2) ->
    JS (HS (u1 = u2)) any (fmtInteger rec env u1 sg verb) (fmtInteger rec env u2 sg verb).
  Proof.
    intros Hu _. unfold fmtInteger.
    assert (forall base up, base_ok base ->
              JS (HS (u1 = u2)) any (bracket start_unsafe (f <- getf ;; wr (fmt_integer f u1 base sg verb up)))
                                    (bracket start_unsafe (f <- getf ;; wr (fmt_integer f u2 base sg verb up)))) as Hgo.
    { intros base up Hb. ub_wr (fun f => fmt_integer f u1 base sg verb up) (fun f => fmt_integer f u2 base sg verb up).
      - intros s1 s2 H Hv f. now rewrite (H Hv).
      - intros f. now apply fmt_integer_urel. }
    destruct (verb =? 118).
    { eapply JS_bind_k; [apply J_JS, J_getf | intros s; reflexivity |]. intros f1 f2 <-.
      destruct (sharpV (fl f1) && negb sg); [now apply Jfmt0x64 | apply Hgo; right; right; left; reflexivity]. }
    destruct (verb =? 100); [apply Hgo; right; right; left; reflexivity|].
    destruct (verb =? 98); [apply Hgo; left; reflexivity|].
    destruct (isv verb "oO"); [apply Hgo; right; left; reflexivity|].
    destruct (verb =? 120); [apply Hgo; right; right; right; reflexivity|].
    destruct (verb =? 88); [apply Hgo; right; right; right; reflexivity|].
    destruct (verb =? 99).
    { ub_wr (fun f => fmt_c f u1) (fun f => fmt_c f u2).
      - intros s1 s2 H Hv f. now rewrite (H Hv).
      - intros f. destruct Hu as [-> | (_ & _ & _ & _ & N1 & N2)]; [apply usegw_refl | now apply fmt_c_rel]. }
    destruct (verb =? 113).
    { ub_opt (fun f => fmt_qc (orc env) f u1) (fun f => fmt_qc (orc env) f u2).
      - intros s1 s2 H Hv f. now rewrite (H Hv).
      - intros f w1 w2 E1 E2. eapply fmt_qc_rel; eassumption. }
    destruct (verb =? 85).
    { ub_opt (fun f => fmt_unicode (orc env) f u1) (fun f => fmt_unicode (orc env) f u2).
      - intros s1 s2 H Hv f. now rewrite (H Hv).
      - intros f w1 w2 E1 E2. destruct Hu as [-> | (R1 & R2 & _)].
        + rewrite E1 in E2. injection E2 as <-. apply usegw_refl.
        + eapply fmt_unicode_rel; try eassumption; lia. }
    apply J_JS, J_badverb_call.
  Qed.

  Lemma JfmtFloat bits size verb : J any (fmtFloat rec env bits size verb) (fmtFloat rec env bits size verb).
  Proof.
    unfold fmtFloat.
    assert (forall fc pr, J any (bracket start_unsafe (f <- getf ;; ws <- of_opt (fmt_float (orc env) f bits size fc pr) ;; wr ws))
                                (bracket start_unsafe (f <- getf ;; ws <- of_opt (fmt_float (orc env) f bits size fc pr) ;; wr ws))) as Hgo
      by (intros; apply (ubody_refl (fun f => fmt_float (orc env) f bits size fc pr))).
    destruct (verb =? 118); [apply Hgo|]. destruct (isv verb "bgGxX"); [apply Hgo|].
    destruct (isv verb "feE"); [apply Hgo|]. destruct (verb =? 70); [apply Hgo|]. apply J_badverb_call.
  Qed.

  Definition strel (s1 s2 : bytes) : Prop := s1 = s2 \/ srel s1 s2.
  Lemma strel_srel s1 s2 : strel s1 s2 -> srel s1 s2.
  Proof. intros [-> | H]; [apply srel_refl | exact H]. Qed.

  Lemma bracket_ext {A} (st : M restorer) (b1 b2 : M A) : (forall s, b1 s = b2 s) -> forall s, bracket st b1 s = bracket st b2 s.
  Proof. intros H s. unfold bracket. destruct (st s) as [[r| | |] s1]; try reflexivity. now rewrite H. Qed.

  Lemma JfmtString v1 v2 verb : strel v1 v2 ->
    JS (HS (v1 = v2)) any (fmtString rec env v1 verb) (fmtString rec env v2 verb).
  Proof.
    intros Hv. pose proof (strel_srel _ _ Hv) as Hs. unfold fmtString.
    assert (forall f w1 w2, fmt_q (orc env) f v1 = Some w1 -> fmt_q (orc env) f v2 = Some w2 -> usegw w1 w2) as Hq
      by (intros; eapply fmt_q_rel; eassumption).
    destruct (verb =? 118).
    { intros s1 s2 N S Hh.
      rewrite (bracket_ext start_unsafe _ (f <- getf ;; ws <- of_opt (if sharpV (fl f) then fmt_q (orc env) f v1 else Some (fmt_s f v1)) ;; wr ws)).
      2:{ intros s. unfold bind, getf. cbn iota beta. destruct (sharpV (fl (pf s))); reflexivity. }
      rewrite (bracket_ext start_unsafe (f <- getf ;; (if sharpV (fl f) then ws <- of_opt (fmt_q (orc env) f v2) ;; wr ws else wr (fmt_s f v2)))
                 (f <- getf ;; ws <- of_opt (if sharpV (fl f) then fmt_q (orc env) f v2 else Some (fmt_s f v2)) ;; wr ws)).
      2:{ intros s. unfold bind, getf. cbn iota beta. destruct (sharpV (fl (pf s))); reflexivity. }
      apply (ubody_rel (fun f => if sharpV (fl f) then fmt_q (orc env) f v1 else Some (fmt_s f v1))
                       (fun f => if sharpV (fl f) then fmt_q (orc env) f v2 else Some (fmt_s f v2))); auto.
      - intros f w1 w2 E1 E2. destruct (sharpV (fl f)); [eapply Hq; eassumption|].
        injection E1 as <-. injection E2 as <-. now apply fmt_s_rel.
      - intros Ho f. now rewrite (Hh Ho). }
    destruct (verb =? 115).
    { ub_wr (fun f => fmt_s f v1) (fun f => fmt_s f v2); [intros s1 s2 H Ho f; now rewrite (H Ho) | intros f; now apply fmt_s_rel]. }
    destruct (verb =? 120).
    { ub_wr (fun f => fmt_sbx f v1 false) (fun f => fmt_sbx f v2 false); [intros s1 s2 H Ho f; now rewrite (H Ho) | intros f; apply fmt_sbx_rel, srel_length, Hs]. }
    destruct (verb =? 88).
    { ub_wr (fun f => fmt_sbx f v1 true) (fun f => fmt_sbx f v2 true); [intros s1 s2 H Ho f; now rewrite (H Ho) | intros f; apply fmt_sbx_rel, srel_length, Hs]. }
    destruct (verb =? 113).
    { ub_opt (fun f => fmt_q (orc env) f v1) (fun f => fmt_q (orc env) f v2); [intros s1 s2 H Ho f; now rewrite (H Ho) | exact Hq]. }
    apply J_JS, J_badverb_call.
  Qed.
End Rec.
