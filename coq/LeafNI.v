(* Layer 4 proofs: non-interference of the printer.
   Two calls Sprintf(f, a1...) and Sprintf(f, a2...) whose operands are related by [arel]:
   - leaves of basic kinds (bool, all integer kinds, floats, strings of any named or unnamed type)
     that differ only in unsafe content - integers other than 0 and 10 against each other, strings
     position by position (equal bytes, or ASCII bytes other than line feed on both sides), nil and
     operands of SafeValue or registered types equal [lrel];
   - trees of slices, arrays, structs, maps (keys shared), interface slots and pointers over them,
     byte slices and byte arrays whose bytes are related position by position [brel];
   - values of user types whose String / Error / GoString method returns related strings, or whose
     Format / SafeFormat method runs a script of SafeWriter / io.Writer calls with related payloads
     and nested Print / Printf on related operands, or is called on a nil pointer receiver [vrel, actrel];
   - Unsafe(x) for such a tree x, Safe(x) for a leaf x;
   make Buffer calls related by [dsim]: the same mode switches, the same literal/diagnostic writes,
   unsafe stretches of the same skeleton.  Hence (SegNI) Redact() of the two results is
   byte-identical: for every format (all flags, widths, precisions, argument indexes, bad verbs,
   EXTRA/MISSING/BADINDEX/NOVERB diagnostics); a '*' width or precision is read from an operand,
   which must then be the same integer in both calls (it is public) [star_ok].  The proof is a relational Hoare logic over the evaluator, run in lock step on the two
   inputs; the judgement also states that neither run panics. *)
From Redact Require Import Bytes Tokens Utf8 Buffer Ops BufInv BufContent Fmt Value LBuf Printer Api.
From Redact Require Import BufInvP BufContentP RedactNI SegNI FmtNI Hoare Keeps LeafP.
From Redact Require Import FloatNI.
From Coq Require Import String Lia ZArith.
Import List ListNotations.
Open Scope Z_scope.
Open Scope list_scope.

(* ---------- the relation on operands ---------- *)
Definition leafish (v : value) : bool :=
  match v with VNil | VBool _ _ | VInt _ _ | VUint _ _ | VFloat _ _ _ | VStr _ _ => true | _ => false end.

Definition irel (u1 u2 : Z) : Prop :=
  0 <= u1 < two64 /\ 0 <= u2 < two64 /\ u1 <> 0 /\ u2 <> 0 /\ u1 <> 10 /\ u2 <> 10.

Definition lrel (v1 v2 : value) : Prop :=
  leafish v1 = true /\ leafish v2 = true /\
  (v1 = v2 \/
   (is_safe_value v1 = false /\ is_registered v1 = false /\
    match v1, v2 with
    | VBool t1 _, VBool t2 _ => t1 = t2
    | VInt t1 u1, VInt t2 u2 => t1 = t2 /\ irel u1 u2
    | VUint t1 u1, VUint t2 u2 => t1 = t2 /\ irel u1 u2
    | VStr t1 s1, VStr t2 s2 => t1 = t2 /\ srel s1 s2
    | VFloat t1 z1 _, VFloat t2 z2 _ => t1 = t2 /\ z1 = z2
    | _, _ => False
    end)).

Lemma lrel_refl v : leafish v = true -> lrel v v.
Proof. intros H. repeat split; auto. Qed.

Lemma lrel_tinfo v1 v2 : lrel v1 v2 -> tinfo_of v1 = tinfo_of v2 /\ type_name v1 = type_name v2 /\
  is_safe_value v1 = is_safe_value v2 /\ is_registered v1 = is_registered v2 /\ is_basic v1 = is_basic v2 /\
  is_string_kind v1 = is_string_kind v2 /\ is_nil_ptr v1 = is_nil_ptr v2.
Proof.
  intros (L1 & L2 & [-> | (Hs & Hr & H)]); [repeat split|].
  destruct v1, v2; try contradiction; try discriminate; cbn in *;
    try (destruct H as [-> _]); try subst; repeat split; reflexivity.
Qed.

Lemma lrel_safe_eq v1 v2 : lrel v1 v2 -> (is_safe_value v1 || is_registered v1) = true -> v1 = v2.
Proof.
  intros (_ & _ & [-> | (Hs & Hr & _)]) H; [reflexivity|]. rewrite Hs, Hr in H. discriminate.
Qed.

(* formats without '*': a width or precision taken from an operand would be public *)
Definition no_star (f : bytes) : bool := forallb (fun c => negb (c =? 42)%N) f.

Lemma no_star_fb f i : no_star f = true -> ((i <? length f)%nat && (fb f i =? 42)) = false.
Proof.
  intros H. destruct (i <? length f)%nat eqn:E; [|reflexivity]. apply Nat.ltb_lt in E. cbn [andb].
  unfold no_star in H. rewrite forallb_forall in H. specialize (H (nth i f 0%N) (nth_In _ _ E)).
  unfold fb. destruct (nth i f 0%N =? 42)%N eqn:E2; [discriminate|]. apply N.eqb_neq in E2.
  apply Z.eqb_neq. intros X. apply E2. apply N2Z.inj. exact X.
Qed.


(* bytes of a byte slice / array: equal, or both ASCII, neither a line feed nor NUL (an element is also
   printed as an integer by %v / %d) *)
Definition brel (c1 c2 : N) : Prop :=
  c1 = c2 \/ ((c1 < 128)%N /\ (c2 < 128)%N /\ c1 <> LF /\ c2 <> LF /\ c1 <> 0%N /\ c2 <> 0%N).
Lemma brel_srel s1 s2 : Forall2 brel s1 s2 -> srel s1 s2.
Proof.
  induction 1 as [|c1 c2 r1 r2 Hc Hr IH]; cbn [srel]; [exact Logic.I|]. split; [|exact IH].
  destruct Hc as [-> | (A & B & C & D & _)]; [now left | right; auto].
Qed.

(* trees: slices, arrays, structs, maps (keys shared), interface slots and pointers over related
   leaves; container types are not declared safe; values of user types whose String / Error /
   GoString method returns related strings (no Formatter, SafeFormatter, SafeMessager; value
   receivers or non-nil pointers; methods that return rather than panic) *)
Inductive vrel : value -> value -> Prop :=
| vr_leaf v1 v2 : lrel v1 v2 -> vrel v1 v2
| vr_slice t n es1 es2 : treg t = false -> tsv t = false -> Forall2 vrel es1 es2 -> vrel (VSlice t n es1) (VSlice t n es2)
| vr_array t es1 es2 : treg t = false -> tsv t = false -> Forall2 vrel es1 es2 -> vrel (VArray t es1) (VArray t es2)
| vr_struct t fs1 fs2 : treg t = false -> tsv t = false ->
    Forall2 (fun f1 f2 => fst f1 = fst f2 /\ vrel (snd f1) (snd f2)) fs1 fs2 -> vrel (VStruct t fs1) (VStruct t fs2)
| vr_map t n kvs1 kvs2 : treg t = false -> tsv t = false ->
    Forall2 (fun a b => fst a = fst b /\ leafish (fst a) = true /\ vrel (snd a) (snd b)) kvs1 kvs2 -> vrel (VMap t n kvs1) (VMap t n kvs2)
| vr_bytes t n s1 s2 : treg t = false -> tsv t = false -> Forall2 brel s1 s2 -> vrel (VBytes t n s1) (VBytes t n s2)
| vr_iface_nil tn : vrel (VIface tn None) (VIface tn None)
| vr_iface tn a b : vrel a b -> vrel (VIface tn (Some a)) (VIface tn (Some b))
| vr_ptr_nil t u : treg t = false -> tsv t = false -> vrel (VPtr t u None) (VPtr t u None)
| vr_ptr t u a b : treg t = false -> tsv t = false -> vrel a b -> vrel (VPtr t u (Some a)) (VPtr t u (Some b))
| vr_user t i r1 r2 x1 x2 rest1 rest2 :
    treg t = false -> tsv t = false ->
    iFormatter i = false -> iSafeFormatter i = false -> iSafeMessager i = false ->
    (x1 = x2 \/ srel x1 x2) -> vrel r1 r2 ->
    vrel (VUser t i false r1 (ARet x1 :: rest1)) (VUser t i false r2 (ARet x2 :: rest2))
(* ... or panics with related payloads; or is called on a nil pointer receiver *)
| vr_puser t i r1 r2 v1 v2 rest1 rest2 :
    treg t = false -> tsv t = false ->
    iFormatter i = false -> iSafeFormatter i = false -> iSafeMessager i = false ->
    arel v1 v2 -> vrel r1 r2 ->
    vrel (VUser t i false r1 (APanic v1 :: rest1)) (VUser t i false r2 (APanic v2 :: rest2))
| vr_nuser t i r1 r2 sc1 sc2 :
    treg t = false -> tsv t = false ->
    iFormatter i = false -> iSafeFormatter i = false -> iSafeMessager i = false ->
    vrel r1 r2 ->
    vrel (VUser t i true r1 sc1) (VUser t i true r2 sc2)
(* values whose Format / SafeFormat method runs a script against the printer: the same calls with
   related payloads and operands *)
| vr_fmtuser t i r1 r2 sc1 sc2 :
    treg t = false -> tsv t = false ->
    iFormatter i = true -> iSafeFormatter i = false -> iSafeMessager i = false ->
    Forall2 actrel sc1 sc2 -> vrel r1 r2 ->
    vrel (VUser t i false r1 sc1) (VUser t i false r2 sc2)
| vr_sfuser t i r1 r2 sc1 sc2 :
    treg t = false -> tsv t = false ->
    iSafeFormatter i = true -> iFormatter i = false -> iGoStringer i = false -> iStringer i = false -> iError i = false ->
    Forall2 actrel sc1 sc2 -> vrel r1 r2 ->
    vrel (VUser t i false r1 sc1) (VUser t i false r2 sc2)
(* ... whose Format / SafeFormat method is called on a nil pointer receiver (it panics at once) *)
| vr_nfuser t i r1 r2 sc1 sc2 :
    treg t = false -> tsv t = false ->
    ((iFormatter i = true /\ iSafeFormatter i = false /\ iSafeMessager i = false) \/
     (iSafeFormatter i = true /\ iFormatter i = false /\ iGoStringer i = false /\ iStringer i = false /\ iError i = false)) ->
    vrel r1 r2 ->
    vrel (VUser t i true r1 sc1) (VUser t i true r2 sc2)
(* a SafeMessager: the (declared safe) message is the same on both sides; the rest may differ *)
| vr_smuser t i r1 r2 x rest1 rest2 :
    treg t = false -> tsv t = false ->
    iSafeMessager i = true -> iSafeFormatter i = false -> iFormatter i = false ->
    iGoStringer i = false -> iStringer i = false -> iError i = false ->
    vrel r1 r2 ->
    vrel (VUser t i false r1 (ARet x :: rest1)) (VUser t i false r2 (ARet x :: rest2))
(* operands: a tree, Unsafe(tree), Safe(leaf) *)
with arel : value -> value -> Prop :=
| ar_v x y : vrel x y -> arel x y
| ar_unsafe a b : vrel a b -> arel (VUnsafe a) (VUnsafe b)
| ar_safe a m : leafish a = true -> arel (VSafe a m) (VSafe a m)
(* script actions *)
with actrel : action -> action -> Prop :=
| ac_ret x1 x2 : actrel (ARet x1) (ARet x2)
| ac_write x1 x2 : (x1 = x2 \/ srel x1 x2) -> actrel (AWrite x1) (AWrite x2)
| ac_us x1 x2 : (x1 = x2 \/ srel x1 x2) -> actrel (AUnsafeString x1) (AUnsafeString x2)
| ac_ubs x1 x2 : (x1 = x2 \/ srel x1 x2) -> actrel (AUnsafeBytes x1) (AUnsafeBytes x2)
| ac_same a :
    match a with
    | ASafeString _ | ASafeInt _ | ASafeUint _ | ASafeFloat _ | ASafeRune _ | ASafeByte _ | ASafeBytes _
    | AUnsafeByte _ | AUnsafeRune _ | ADump => True
    | _ => False
    end -> actrel a a
| ac_panic v1 v2 : arel v1 v2 -> actrel (APanic v1) (APanic v2)
| ac_print a1 a2 : Forall2 arel a1 a2 -> actrel (APrint a1) (APrint a2)
| ac_printf f a1 a2 : no_star f = true -> Forall2 arel a1 a2 -> actrel (APrintf f a1) (APrintf f a2).

Lemma vrel_leaf_inv v1 v2 : vrel v1 v2 -> leafish v1 = true -> lrel v1 v2.
Proof. intros H L. inversion H; subst; try discriminate. assumption. Qed.
Lemma vrel_leafish v1 v2 : vrel v1 v2 -> leafish v1 = leafish v2.
Proof. intros H. inversion H; subst; try reflexivity. destruct H0 as (-> & -> & _). reflexivity. Qed.

(* values printed by reflection only: no method, no wrapper *)
Definition vshape (v : value) : bool :=
  match v with
  | VNil | VBool _ _ | VInt _ _ | VUint _ _ | VFloat _ _ _ | VStr _ _
  | VSlice _ _ _ | VArray _ _ | VStruct _ _ | VMap _ _ _ | VIface _ _ | VPtr _ _ _ | VUser _ _ _ _ _ | VBytes _ _ _ => true
  | _ => false
  end.
Definition isuser (v : value) : bool := match v with VUser _ _ _ _ _ => true | _ => false end.
Definition isbytes (v : value) : bool := match v with VBytes _ _ _ => true | _ => false end.
Lemma vrel_shape v1 v2 : vrel v1 v2 -> vshape v1 = true /\ vshape v2 = true.
Proof.
  intros H. inversion H; subst; try (split; reflexivity).
  destruct H0 as (L1 & L2 & _). destruct v1, v2; try discriminate; split; reflexivity.
Qed.

Lemma vrel_tinfo v1 v2 : vrel v1 v2 -> tinfo_of v1 = tinfo_of v2 /\ type_name v1 = type_name v2 /\
  is_safe_value v1 = is_safe_value v2 /\ is_registered v1 = is_registered v2 /\ is_basic v1 = is_basic v2 /\
  is_string_kind v1 = is_string_kind v2 /\ is_nil_ptr v1 = is_nil_ptr v2.
Proof. intros H. inversion H; subst; try (repeat split; reflexivity). now apply lrel_tinfo. Qed.

Lemma vrel_safe_eq v1 v2 : vrel v1 v2 -> (is_safe_value v1 || is_registered v1) = true -> v1 = v2.
Proof.
  intros H E. inversion H; subst; try (now apply lrel_safe_eq);
    unfold is_safe_value, is_registered in E; cbn [tinfo_of] in E;
    try match goal with Hr : treg _ = false, Hs : tsv _ = false |- _ => rewrite Hr, Hs in E end; try discriminate.
  all: cbn in E; discriminate.
Qed.

Lemma vrel_safe_leaf v1 v2 : vrel v1 v2 -> (is_safe_value v1 || is_registered v1) = true -> leafish v1 = true.
Proof.
  intros H E. inversion H; subst; try (destruct H0 as (L & _); exact L);
    unfold is_safe_value, is_registered in E; cbn [tinfo_of] in E;
    try match goal with Hr : treg _ = false, Hs : tsv _ = false |- _ => rewrite Hr, Hs in E end; try discriminate.
  all: cbn in E; discriminate.
Qed.

Lemma arel_nil_iff v1 v2 : arel v1 v2 -> (v1 = VNil <-> v2 = VNil).
Proof.
  intros Ha. inversion Ha as [x y H | | ]; subst; [|split; discriminate ..].
  inversion H; subst; try (split; discriminate).
  match goal with Hx : lrel _ _ |- _ => destruct Hx as (_ & _ & [-> | (_ & _ & Hm)]) end; [tauto|]. destruct v1, v2; try contradiction; split; discriminate.
Qed.
Lemma arel_names v1 v2 : arel v1 v2 -> type_name v1 = type_name v2 /\ is_string_kind v1 = is_string_kind v2.
Proof.
  intros Ha. inversion Ha as [x y H | | ]; subst; [|split; reflexivity ..].
  destruct (vrel_tinfo _ _ H) as (_ & E1 & _ & _ & _ & E2 & _). split; assumption.
Qed.

(* a leaf, or an interface slot holding one: what can be printed under a safe override *)
Definition lfs (v : value) : bool :=
  leafish v || match v with VIface _ (Some d) => leafish d | _ => false end.
Lemma lfs_leaf v : leafish v = true -> lfs v = true.
Proof. intros H. unfold lfs. now rewrite H. Qed.
Definition leaf_opt (a : option value) : Prop := match a with Some v => lfs v = true | None => True end.

Definition orel {A} (R : A -> A -> Prop) (a b : option A) : Prop :=
  match a, b with Some x, Some y => R x y | None, None => True | _, _ => False end.

(* ---------- the relation on printer states ---------- *)
Record NB (s1 s2 : pst) : Prop := mkNB {
  nb_ovr : povr s1 = povr s2;
  nb_sm : povr s1 = OvrSafe -> lmode (pl s1) <> MUnsafe;
  nb_mode : lmode (pl s1) = lmode (pl s2);
  nb_pf : pf s1 = pf s2;
  nb_re : reordered s1 = reordered s2;
  nb_good : goodArgNum s1 = goodArgNum s2;
  nb_pan : panicking s1 = panicking s2;
  nb_err : erroring s1 = erroring s2;
  nb_we : wrapErrs s1 = wrapErrs s2;
  nb_wd : wrappedErr s1 = None /\ wrappedErr s2 = None;
  nb_nw : wrapErrs s1 = false;
  nb_arg : orel vrel (parg s1) (parg s2);
  nb_val : orel (fun a b => vrel (fst a) (fst b) /\ snd a = snd b) (pval s1) (pval s2)
}.

(* inside a safe override (SafeValue operand) the two runs print the same value *)
Definition SE (s1 s2 : pst) : Prop :=
  povr s1 = OvrSafe ->
  parg s1 = parg s2 /\ leaf_opt (parg s1) /\
  (parg s1 = None -> pval s1 = pval s2 /\ leaf_opt (option_map fst (pval s1))).

(* the calls appended by the two runs are related *)
Definition seg (s1 s1' s2 s2' : pst) : Prop :=
  exists d1 d2, rlog (pl s1') = d1 ++ rlog (pl s1) /\ rlog (pl s2') = d2 ++ rlog (pl s2) /\
                dsim (lmode (pl s1)) (rev d1) (rev d2) (lmode (pl s1')).

Lemma seg_refl s1 s2 : seg s1 s1 s2 s2.
Proof. exists [], []. split; [reflexivity|]. split; [reflexivity|]. constructor. Qed.

Lemma seg_trans s1 s1' s1'' s2 s2' s2'' : seg s1 s1' s2 s2' -> seg s1' s1'' s2' s2'' -> seg s1 s1'' s2 s2''.
Proof.
  intros (d1 & d2 & E1 & E2 & D) (e1 & e2 & F1 & F2 & D').
  exists (e1 ++ d1), (e2 ++ d2). rewrite F1, F2, E1, E2, !app_assoc. split; [reflexivity|]. split; [reflexivity|].
  rewrite !rev_app_distr. eapply dsim_app; eassumption.
Qed.

(* the relational judgement; H: what is known about the initial state of the first run *)
Definition JS (H : pst -> pst -> Prop) {A} (RA : A -> A -> Prop) (m1 m2 : M A) : Prop :=
  forall s1 s2, NB s1 s2 -> SE s1 s2 -> H s1 s2 ->
    match m1 s1, m2 s2 with
    | (ROk a1, s1'), (ROk a2, s2') => RA a1 a2 /\ NB s1' s2' /\ SE s1' s2' /\ seg s1 s1' s2 s2'
    | (RPanic v1, s1'), (RPanic v2, s2') => arel v1 v2 /\ NB s1' s2' /\ SE s1' s2' /\ seg s1 s1' s2 s2'   (* both panic, with related payloads *)
    | (RFuel, _), _ | (RMiss _, _), _ | _, (RFuel, _) | _, (RMiss _, _) => True   (* out of fuel / not modelled: no claim *)
    | _, _ => False                                                                (* one run panics, the other returns: impossible *)
    end.
Notation J := (JS (fun _ _ => True)).

(* a fact known whenever the override is Safe *)
Definition HS (P : Prop) : pst -> pst -> Prop := fun s1 _ => povr s1 = OvrSafe -> P.

Lemma J_JS H {A} (RA : A -> A -> Prop) m1 m2 : J RA m1 m2 -> JS H RA m1 m2.
Proof. intros Hj s1 s2 N S _. now apply Hj. Qed.

Lemma JS_weaken (H H' : pst -> pst -> Prop) {A} (RA : A -> A -> Prop) m1 m2 :
  (forall s1 s2, H' s1 s2 -> H s1 s2) -> JS H RA m1 m2 -> JS H' RA m1 m2.
Proof. intros Hi Hj s1 s2 N S Hs. apply Hj; auto. Qed.

Lemma bind_cong_r {A B} (m : M A) (k1 k2 : A -> M B) st :
  (forall a s1, k1 a s1 = k2 a s1) -> (x <- m ;; k1 x) st = (x <- m ;; k2 x) st.
Proof. intros H. unfold bind. destruct (m st) as [[?|?| |?] ?]; auto. Qed.
Lemma bind_cong_l {A B} (m1 m2 : M A) (k : A -> M B) st :
  m1 st = m2 st -> (x <- m1 ;; k x) st = (x <- m2 ;; k x) st.
Proof. intros H. unfold bind. now rewrite H. Qed.

Lemma bindm {B} (g : pst -> pst) (m : M B) st : (modify g ;;; m) st = m (g st).
Proof. reflexivity. Qed.

Lemma J_ret {A} (RA : A -> A -> Prop) a1 a2 : RA a1 a2 -> J RA (ret a1) (ret a2).
Proof. intros H s1 s2 N S _. cbn. refine (conj H (conj N (conj S _))). apply seg_refl. Qed.

Lemma JS_bind H {A B} (RA : A -> A -> Prop) (RB : B -> B -> Prop) m1 m2 k1 k2 :
  JS H RA m1 m2 -> (forall a1 a2, RA a1 a2 -> J RB (k1 a1) (k2 a2)) -> JS H RB (bind m1 k1) (bind m2 k2).
Proof.
  intros Hm Hk s1 s2 N S Hs. unfold bind. specialize (Hm s1 s2 N S Hs).
  destruct (m1 s1) as [[a1|v1| |w1] s1'] eqn:E1; destruct (m2 s2) as [[a2|v2| |w2] s2'] eqn:E2; try (exact Logic.I || contradiction || (exfalso; assumption) || assumption);
    try (destruct (k1 a1 s1') as [[?|?| |?] ?]; exact Logic.I).
  destruct Hm as (Ra & N' & S' & G).
  specialize (Hk a1 a2 Ra s1' s2' N' S' Logic.I).
  destruct (k1 a1 s1') as [[b1|?| |?] s1''], (k2 a2 s2') as [[b2|?| |?] s2'']; try (exact Logic.I || contradiction || (exfalso; assumption) || assumption).
  all: (destruct Hk as (Rb & N'' & S'' & G'); refine (conj Rb (conj N'' (conj S'' _))); eapply seg_trans; eassumption).
Qed.

Lemma J_bind {A B} (RA : A -> A -> Prop) (RB : B -> B -> Prop) m1 m2 k1 k2 :
  J RA m1 m2 -> (forall a1 a2, RA a1 a2 -> J RB (k1 a1) (k2 a2)) -> J RB (bind m1 k1) (bind m2 k2).
Proof. apply JS_bind. Qed.

(* the first computation leaves the override alone: a fact about the safe override survives it *)
Lemma JS_bind_k P {A B} (RA : A -> A -> Prop) (RB : B -> B -> Prop) m1 m2 k1 k2 :
  JS (HS P) RA m1 m2 -> kovr m1 ->
  (forall a1 a2, RA a1 a2 -> JS (HS P) RB (k1 a1) (k2 a2)) -> JS (HS P) RB (bind m1 k1) (bind m2 k2).
Proof.
  intros Hm Hko Hk s1 s2 N S Hs. unfold bind. specialize (Hm s1 s2 N S Hs). pose proof (Hko s1) as Eo.
  destruct (m1 s1) as [[a1|v1| |w1] s1'] eqn:E1; destruct (m2 s2) as [[a2|v2| |w2] s2'] eqn:E2; try (exact Logic.I || contradiction || (exfalso; assumption) || assumption);
    try (destruct (k1 a1 s1') as [[?|?| |?] ?]; exact Logic.I).
  destruct Hm as (Ra & N' & S' & G). cbn [snd] in Eo.
  assert (HS P s1' s2') as Hs' by (unfold HS in *; rewrite Eo; exact Hs).
  specialize (Hk a1 a2 Ra s1' s2' N' S' Hs').
  destruct (k1 a1 s1') as [[b1|?| |?] s1''], (k2 a2 s2') as [[b2|?| |?] s2'']; try (exact Logic.I || contradiction || (exfalso; assumption) || assumption).
  all: (destruct Hk as (Rb & N'' & S'' & G'); refine (conj Rb (conj N'' (conj S'' _))); eapply seg_trans; eassumption).
Qed.

(* reading the printer state: the continuation may use that it IS the current state *)
Lemma JS_get_bind H {B} (RB : B -> B -> Prop) (k1 k2 : pst -> M B) :
  (forall a b, JS (fun s1 s2 => s1 = a /\ s2 = b /\ H a b) RB (k1 a) (k2 b)) ->
  JS H RB (bind Printer.get k1) (bind Printer.get k2).
Proof.
  intros Hk s1 s2 N S Hs. unfold bind, Printer.get. apply (Hk s1 s2 s1 s2 N S). auto.
Qed.

Definition any {A} (_ _ : A) : Prop := True.

(* results do not matter *)
Lemma J_any {A} (RA : A -> A -> Prop) m1 m2 : J RA m1 m2 -> J any m1 m2.
Proof.
  intros Hj s1 s2 N S Hs. specialize (Hj s1 s2 N S Hs).
  destruct (m1 s1) as [[a1|?| |?] s1'], (m2 s2) as [[a2|?| |?] s2']; try (exact Logic.I || contradiction || (exfalso; assumption) || assumption).
  destruct Hj as (_ & N' & S' & G). exact (conj Logic.I (conj N' (conj S' G))).
Qed.

Lemma J_getf : J eq getf getf.
Proof. intros s1 s2 N S _. cbn. refine (conj (nb_pf _ _ N) (conj N (conj S _))). apply seg_refl. Qed.
Lemma J_get_mode : J eq get_mode get_mode.
Proof. intros s1 s2 N S _. cbn. refine (conj (nb_mode _ _ N) (conj N (conj S _))). apply seg_refl. Qed.
Lemma J_get : J (fun a b => NB a b /\ SE a b) Printer.get Printer.get.
Proof. intros s1 s2 N S _. cbn. refine (conj (conj N S) (conj N (conj S _))). apply seg_refl. Qed.

Lemma J_of_opt {A} (o : option A) : J eq (of_opt o) (of_opt o).
Proof. destruct o; [now apply J_ret | intros s1 s2 _ _ _; exact Logic.I]. Qed.

(* a field update that keeps the relation *)
Lemma J_modify (f g : pst -> pst) :
  (forall s1 s2, NB s1 s2 -> SE s1 s2 -> NB (f s1) (g s2) /\ SE (f s1) (g s2)) ->
  (forall s, pl (f s) = pl s) -> (forall s, pl (g s) = pl s) ->
  J any (modify f) (modify g).
Proof.
  intros Hr Hf Hg s1 s2 N S _. unfold modify. destruct (Hr s1 s2 N S) as [N' S'].
  refine (conj Logic.I (conj N' (conj S' _))). exists [], []. rewrite Hf, Hg. split; [reflexivity|]. split; [reflexivity|]. constructor.
Qed.

(* ---------- Buffer calls ---------- *)
Lemma lset_state s o : bop o s = (ROk (snd (l_step (pl s) o)), set_pl s (lset (pl s) o)).
Proof. unfold bop, lset. destruct (l_step (pl s) o). reflexivity. Qed.

Lemma pl_set_pl s x : pl (set_pl s x) = x.
Proof. reflexivity. Qed.

Lemma NB_set_pl s1 s2 l1 l2 : NB s1 s2 -> lmode l1 = lmode l2 -> (povr s1 = OvrSafe -> lmode l1 <> MUnsafe) ->
  NB (set_pl s1 l1) (set_pl s2 l2).
Proof. intros [] Hm Hs. destruct s1, s2; constructor; cbn in *; auto. Qed.
Lemma SE_set_pl s1 s2 l1 l2 : SE s1 s2 -> SE (set_pl s1 l1) (set_pl s2 l2).
Proof. unfold SE. destruct s1, s2; cbn. auto. Qed.

(* the same write on both sides, in any mode *)
Lemma J_bop_same o : is_wr o = true -> J any (bop o) (bop o).
Proof.
  intros Ho s1 s2 N S _. rewrite !lset_state.
  assert (is_write o) as Hw by (destruct o; cbn in Ho; try discriminate; exact Logic.I).
  refine (conj Logic.I (conj _ (conj _ _))).
  - apply NB_set_pl; [exact N | rewrite !lmode_write by exact Hw; apply N |].
    intros H. rewrite lmode_write by exact Hw. now apply N.
  - now apply SE_set_pl.
  - exists [o], [o]. rewrite !pl_set_pl, !rlog_lset. split; [reflexivity|]. split; [reflexivity|].
    cbn [rev app]. rewrite lmode_write by exact Hw.
    destruct (lmode (pl s1)) eqn:Em.
    + rewrite <- (app_nil_r [o]). apply ds_useg; [apply useg_refl; cbn; now rewrite Ho | constructor].
    + apply ds_same; [discriminate | exact Ho | constructor].
    + apply ds_same; [discriminate | exact Ho | constructor].
Qed.

Lemma J_w1 w : J any (w1 w) (w1 w).
Proof. destruct w; cbn [w1]; (eapply J_bind; [apply J_bop_same; reflexivity | intros; now apply J_ret]). Qed.
Lemma J_wr ws : J any (wr ws) (wr ws).
Proof. induction ws as [|w r IH]; cbn [wr]; [now apply J_ret|]. eapply J_bind; [apply J_w1 | intros; exact IH]. Qed.
Lemma J_wstr str : J any (wstr str) (wstr str). Proof. apply J_w1. Qed.
Lemma J_wbyte c : J any (wbyte c) (wbyte c). Proof. apply J_w1. Qed.

(* SetMode(m) on both sides; under a safe override only towards a mode that is not unsafe *)
Lemma JS_set_mode m : JS (HS (m <> MUnsafe)) any (set_mode_m m) (set_mode_m m).
Proof.
  intros s1 s2 N S Hs. rewrite !setmode_state.
  refine (conj Logic.I (conj _ (conj _ _))).
  - apply NB_set_pl; [exact N | now rewrite !lmode_setmode | intros H; rewrite lmode_setmode; now apply Hs].
  - now apply SE_set_pl.
  - exists [OMode m], [OMode m]. rewrite !pl_set_pl, !rlog_lset. split; [reflexivity|]. split; [reflexivity|].
    cbn [rev app]. rewrite lmode_setmode.
    apply ds_mode. constructor.
Qed.

(* ---------- writes of related segments, in unsafe mode ---------- *)
Fixpoint lwrites (l : lbuf) (os : list op) : lbuf :=
  match os with [] => l | o :: r => lwrites (lset l o) r end.

Lemma lwrites_log os : forall l, forallb is_wr os = true ->
  rlog (lwrites l os) = rev os ++ rlog l /\ lmode (lwrites l os) = lmode l.
Proof.
  induction os as [|o r IH]; intros l H; [split; reflexivity|].
  cbn [forallb] in H. apply andb_prop in H. destruct H as [Ho Hr]. cbn [lwrites rev].
  destruct (IH (lset l o) Hr) as [E1 E2]. rewrite E1, E2, rlog_lset, <- app_assoc. split; [reflexivity|].
  apply lmode_write. destruct o; cbn in Ho; try discriminate; exact Logic.I.
Qed.

Lemma wr_state ws : forall s, wr ws s = (ROk tt, set_pl s (lwrites (pl s) (ops_of ws))).
Proof.
  induction ws as [|w r IH]; intros s; [destruct s; reflexivity|].
  cbn [wr]. unfold bind.
  assert (w1 w s = (ROk tt, set_pl s (lset (pl s) (op_of w)))) as ->.
  { destruct w; cbn [w1 op_of]; unfold bind; rewrite lset_state; reflexivity. }
  rewrite IH. destruct s; reflexivity.
Qed.

Lemma set_ovr_id s : set_ovr s (povr s) = s.
Proof. destruct s; reflexivity. Qed.


(* defer p.startUnsafe().restore() around "f := p.fmt; write what g(f) asks for" *)
Definition ubody (g : fst_ -> option (list wop)) : M unit :=
  bracket start_unsafe (f <- getf ;; ws <- of_opt (g f) ;; wr ws).

Lemma ubody_run g s :
  ubody g s =
  let l0 := if ovr_eqb (povr s) OvrSafe then pl s else lset (pl s) (OMode MUnsafe) in
  match g (pf s) with
  | Some w => (ROk tt, set_pl s (lset (lwrites l0 (ops_of w)) (OMode (lmode (pl s)))))
  | None => (RMiss 0, set_pl s (lset l0 (OMode (lmode (pl s)))))
  end.
Proof.
  unfold ubody, bracket, start_unsafe, bind, get_mode, Printer.get, getf.
  destruct (ovr_eqb (povr s) OvrSafe) eqn:Ev.
  - unfold ret. cbn iota beta zeta.
    destruct (g (pf s)) as [w|]; unfold of_opt, ret, miss, missc; cbn iota beta.
    + rewrite wr_state, restore_state. cbn [fst snd]. destruct s; reflexivity.
    + rewrite restore_state. cbn [fst snd]. destruct s; reflexivity.
  - rewrite setmode_state. unfold ret. cbn iota beta zeta.
    assert (pf (set_pl s (lset (pl s) (OMode MUnsafe))) = pf s) as -> by (destruct s; reflexivity).
    destruct (g (pf s)) as [w|]; unfold of_opt, ret, miss, missc; cbn iota beta.
    + rewrite wr_state, restore_state. cbn [fst snd]. destruct s; reflexivity.
    + rewrite restore_state. cbn [fst snd]. destruct s; reflexivity.
Qed.

Lemma ubody_rel g1 g2 :
  (forall f w1 w2, g1 f = Some w1 -> g2 f = Some w2 -> usegw w1 w2) ->
  JS (HS (forall f, g1 f = g2 f)) any (ubody g1) (ubody g2).
Proof.
  intros Hrel s1 s2 N S Hs. rewrite !ubody_run. cbn zeta.
  pose proof (nb_ovr _ _ N) as Eo. rewrite <- Eo, <- (nb_pf _ _ N), <- (nb_mode _ _ N).
  destruct (g1 (pf s1)) as [w1|] eqn:G1; [|exact Logic.I]. destruct (g2 (pf s1)) as [w2|] eqn:G2; [|exact Logic.I].
  destruct (ovr_eqb (povr s1) OvrSafe) eqn:Ev.
  - (* inside a safe override: same value, same writes, no mode switch *)
    assert (povr s1 = OvrSafe) as Hv by (destruct (povr s1); try discriminate; reflexivity).
    assert (w1 = w2) as <- by (rewrite (Hs Hv) in G1; congruence).
    destruct (lwrites_log (ops_of w1) (pl s1) (ops_of_wr w1)) as [L1 M1].
    destruct (lwrites_log (ops_of w1) (pl s2) (ops_of_wr w1)) as [L2 M2].
    refine (conj Logic.I (conj _ (conj _ _))).
    + apply NB_set_pl; [exact N | now rewrite !lmode_setmode | intros _; rewrite lmode_setmode; now apply N].
    + now apply SE_set_pl.
    + exists (OMode (lmode (pl s1)) :: rev (ops_of w1)), (OMode (lmode (pl s1)) :: rev (ops_of w1)).
      rewrite !pl_set_pl, !rlog_lset, L1, L2. split; [reflexivity|]. split; [reflexivity|].
      rewrite lmode_setmode. cbn [rev]. rewrite rev_involutive.
      assert (lmode (pl s1) <> MUnsafe) as Hm by (now apply N).
      assert (forall os, forallb is_wr os = true -> dsim (lmode (pl s1)) (os ++ [OMode (lmode (pl s1))]) (os ++ [OMode (lmode (pl s1))]) (lmode (pl s1))) as Hd.
      { induction os as [|o r IH]; intros Hw; cbn [app]; [apply ds_mode; constructor|].
        cbn [forallb] in Hw. apply andb_prop in Hw. destruct Hw. apply ds_same; auto. }
      apply Hd, ops_of_wr.
  - (* no override: SetMode(unsafe), the two related segments, SetMode(previous) *)
    assert (povr s1 <> OvrSafe) as Hv by (intros X; rewrite X in Ev; discriminate).
    set (u1 := lset (pl s1) (OMode MUnsafe)). set (u2 := lset (pl s2) (OMode MUnsafe)).
    destruct (lwrites_log (ops_of w1) u1 (ops_of_wr w1)) as [L1 M1].
    destruct (lwrites_log (ops_of w2) u2 (ops_of_wr w2)) as [L2 M2].
    refine (conj Logic.I (conj _ (conj _ _))).
    + apply NB_set_pl; [exact N | now rewrite !lmode_setmode | intros X; congruence].
    + now apply SE_set_pl.
    + exists (OMode (lmode (pl s1)) :: rev (ops_of w1) ++ [OMode MUnsafe]), (OMode (lmode (pl s1)) :: rev (ops_of w2) ++ [OMode MUnsafe]).
      rewrite !pl_set_pl, !rlog_lset, L1, L2. unfold u1, u2. rewrite !rlog_lset.
      split; [cbn [app]; now rewrite <- app_assoc|]. split; [cbn [app]; now rewrite <- app_assoc|].
      rewrite lmode_setmode. cbn [rev]. rewrite !rev_app_distr, !rev_involutive. cbn [rev app].
      apply ds_mode. apply ds_useg; [exact (Hrel _ _ _ G1 G2)|]. apply ds_mode. constructor.
Qed.

Lemma ubody_wr_rel g1 g2 :
  (forall f, usegw (g1 f) (g2 f)) ->
  JS (HS (forall f, g1 f = g2 f)) any (bracket start_unsafe (f <- getf ;; wr (g1 f))) (bracket start_unsafe (f <- getf ;; wr (g2 f))).
Proof.
  intros Hr.
  change (bracket start_unsafe (f <- getf ;; wr (g1 f))) with (ubody (fun f => Some (g1 f))).
  change (bracket start_unsafe (f <- getf ;; wr (g2 f))) with (ubody (fun f => Some (g2 f))).
  eapply JS_weaken; [|apply ubody_rel].
  - intros s1 s2 H Hv f. now rewrite (H Hv f).
  - intros f w1 w2 E1 E2. injection E1 as <-. injection E2 as <-. apply Hr.
Qed.

Lemma ubody_opt_rel g1 g2 :
  (forall f w1 w2, g1 f = Some w1 -> g2 f = Some w2 -> usegw w1 w2) ->
  JS (HS (forall f, g1 f = g2 f)) any (bracket start_unsafe (f <- getf ;; ws <- of_opt (g1 f) ;; wr ws))
                                      (bracket start_unsafe (f <- getf ;; ws <- of_opt (g2 f) ;; wr ws)).
Proof. exact (ubody_rel g1 g2). Qed.

(* ---------- related calls of the evaluator ---------- *)
Definition crel (c1 c2 : call) : Prop :=
  match c1, c2 with
  | CPrintArg v1 b1, CPrintArg v2 b2 => b1 = b2 /\ arel v1 v2
  | CPrintValue v1 b1 d1 ci1, CPrintValue v2 b2 d2 ci2 => b1 = b2 /\ d1 = d2 /\ ci1 = ci2 /\ vrel v1 v2
  | CBadVerb b1, CBadVerb b2 => b1 = b2
  | CHandleMethods b1, CHandleMethods b2 => b1 = b2
  | CDoPrint a1, CDoPrint a2 => Forall2 arel a1 a2
  | CDoPrintf f1 a1, CDoPrintf f2 a2 => f1 = f2 /\ no_star f1 = true /\ Forall2 arel a1 a2
  | CActs _ b1 acts1, CActs _ b2 acts2 => b1 = b2 /\ Forall2 actrel acts1 acts2
  | _, _ => False
  end.
(* what must be known when the override is Safe: the same value is printed *)
Definition cP (c1 c2 : call) : Prop :=
  match c1, c2 with
  | CPrintArg v1 _, CPrintArg v2 _ => v1 = v2 /\ lfs v1 = true
  | CPrintValue v1 _ _ _, CPrintValue v2 _ _ _ => v1 = v2 /\ lfs v1 = true
  | CDoPrint _, _ | CDoPrintf _ _, _ | CActs _ _ _, _ => False     (* scripts and nested printers never run under a safe override *)
  | _, _ => True
  end.
Definition rec_ok (rec : recT) : Prop := forall c1 c2, crel c1 c2 -> JS (HS (cP c1 c2)) eq (rec c1) (rec c2).

Definition urel (u1 u2 : Z) : Prop := u1 = u2 \/ irel u1 u2.

Lemma fmt_integer_urel f u1 u2 base sg verb up : base_ok base -> urel u1 u2 ->
  usegw (fmt_integer f u1 base sg verb up) (fmt_integer f u2 base sg verb up).
Proof.
  intros Hb [-> | (H1 & H2 & N1 & N2 & _)]; [apply usegw_refl|].
  apply fmt_integer_rel; try assumption. split; intros; contradiction.
Qed.

Lemma value_eq_nil (v : value) : v = VNil \/ v <> VNil.
Proof. destruct v; [left; reflexivity | right; discriminate ..]. Qed.

Lemma kovr_w1 w : kovr (w1 w). Proof. apply kovr_keeps, keeps_w1. Qed.
Lemma kovr_wbyte c : kovr (wbyte c). Proof. apply kovr_keeps, keeps_wbyte. Qed.
Lemma kovr_wstr str : kovr (wstr str). Proof. apply kovr_keeps, keeps_wstr. Qed.
Lemma kovr_ret {A} (a : A) : kovr (ret a). Proof. intros s. reflexivity. Qed.
Lemma kovr_getf : kovr getf. Proof. intros s. reflexivity. Qed.

(* ---------- doPrintf ---------- *)
Lemma JS_bind_o (Hp : ovr -> Prop) {A B} (RA : A -> A -> Prop) (RB : B -> B -> Prop) m1 m2 k1 k2 :
  JS (fun s1 _ => Hp (povr s1)) RA m1 m2 -> kovr m1 ->
  (forall a1 a2, RA a1 a2 -> JS (fun s1 _ => Hp (povr s1)) RB (k1 a1) (k2 a2)) ->
  JS (fun s1 _ => Hp (povr s1)) RB (bind m1 k1) (bind m2 k2).
Proof.
  intros Hm Hko Hk s1 s2 N S Hs. unfold bind. specialize (Hm s1 s2 N S Hs). pose proof (Hko s1) as Eo.
  destruct (m1 s1) as [[a1|v1| |w1] s1'] eqn:E1; destruct (m2 s2) as [[a2|v2| |w2] s2'] eqn:E2; try (exact Logic.I || contradiction || (exfalso; assumption) || assumption);
    try (destruct (k1 a1 s1') as [[?|?| |?] ?]; exact Logic.I).
  destruct Hm as (Ra & N' & S' & G). cbn [snd] in Eo.
  assert (Hp (povr s1')) as Hs' by (rewrite Eo; exact Hs).
  specialize (Hk a1 a2 Ra s1' s2' N' S' Hs').
  destruct (k1 a1 s1') as [[b1|?| |?] s1''], (k2 a2 s2') as [[b2|?| |?] s2'']; try (exact Logic.I || contradiction || (exfalso; assumption) || assumption).
  all: (destruct Hk as (Rb & N'' & S'' & G'); refine (conj Rb (conj N'' (conj S'' _))); eapply seg_trans; eassumption).
Qed.

Definition NoO : pst -> pst -> Prop := fun s1 _ => (fun o => o <> OvrSafe) (povr s1).

Section Loop.
  Variable rec : recT.
  Variable env : env.
  Hypothesis Hrec : rec_ok rec.
  Hypothesis Hkrec : forall c, kovr (rec c).

  Ltac nbmod :=
    let s1 := fresh "s1" in let s2 := fresh "s2" in let N := fresh "N" in let S := fresh "S" in
    intros s1 s2 N S; split;
    [ destruct N; destruct s1, s2; constructor; cbn in *; auto; try congruence
    | unfold SE in *; destruct s1, s2; cbn in *; auto ].

  Lemma J_modf (h : pst -> pst) :
    (forall s1 s2, NB s1 s2 -> SE s1 s2 -> NB (h s1) (h s2) /\ SE (h s1) (h s2)) -> (forall s, pl (h s) = pl s) ->
    J any (modify h) (modify h).
  Proof. intros H1 H2. now apply J_modify. Qed.

  Lemma J_upd_flags g : J any (upd_flags g) (upd_flags g).
  Proof. unfold upd_flags. apply J_modf; [nbmod | intros []; reflexivity]. Qed.
  Lemma J_clearflags : J any clearflags clearflags.
  Proof. unfold clearflags. apply J_modf; [nbmod | intros []; reflexivity]. Qed.
  Lemma J_set_good b : J any (modify (fun s => set_good s b)) (modify (fun s => set_good s b)).
  Proof. apply J_modf; [nbmod | intros []; reflexivity]. Qed.
  Lemma J_set_reordered b : J any (modify (fun s => set_reordered s b)) (modify (fun s => set_reordered s b)).
  Proof. apply J_modf; [nbmod | intros []; reflexivity]. Qed.
  Lemma J_set_wid w p : J any (modify (fun s => set_wid s w p)) (modify (fun s => set_wid s w p)).
  Proof. apply J_modf; [nbmod | intros []; reflexivity]. Qed.
  Lemma J_set_prec w p : J any (modify (fun s => set_prec s w p)) (modify (fun s => set_prec s w p)).
  Proof. apply J_modf; [nbmod | intros []; reflexivity]. Qed.

  Lemma kovr_mod h : (forall s, povr (h s) = povr s) -> kovr (modify h).
  Proof. intros H s. apply H. Qed.

  Lemma J_flag_loop fuel f e argNum numArgs : forall i, J eq (flag_loop fuel f i e argNum numArgs) (flag_loop fuel f i e argNum numArgs).
  Proof.
    induction fuel as [|k IH]; intros i; cbn [flag_loop]; [now apply J_ret|].
    destruct (i <? e)%nat; [|now apply J_ret].
    repeat match goal with |- J eq (if ?c then _ else _) _ => destruct c end;
      try (eapply J_bind; [apply J_upd_flags | intros; apply IH]); now apply J_ret.
  Qed.

  Lemma J_argNumber argNum f i e numArgs : J eq (argNumber argNum f i e numArgs) (argNumber argNum f i e numArgs).
  Proof.
    unfold argNumber. destruct ((e <=? i)%nat || negb (fb f i =? 91)); [now apply J_ret|].
    eapply J_bind; [apply J_set_reordered | intros _ _ _].
    destruct (parseArgNumber f i e) as [[index w] ok].
    destruct (ok && (0 <=? index) && (index <? numArgs)); [now apply J_ret|].
    eapply J_bind; [apply J_set_good | intros; now apply J_ret].
  Qed.

  Lemma Forall2_len {A B} (R : A -> B -> Prop) l1 l2 : Forall2 R l1 l2 -> length l1 = length l2.
  Proof. induction 1; cbn; congruence. Qed.

  Lemma lrel_nth a1 : forall a2 n, Forall2 arel a1 a2 -> arel (nth n a1 VNil) (nth n a2 VNil).
  Proof.
    induction a1 as [|x r IH]; intros a2 n H; inversion H; subst.
    - destruct n; apply ar_v, vr_leaf, lrel_refl; reflexivity.
    - destruct n; cbn [nth]; [assumption | now apply IH].
  Qed.

  Lemma NoO_HS P s1 s2 : NoO s1 s2 -> HS P s1 s2.
  Proof. unfold NoO, HS. intros H X. contradiction. Qed.

  Lemma Jrec_arg a1 a2 n verb : Forall2 arel a1 a2 ->
    JS NoO any (rec (CPrintArg (nth n a1 VNil) verb)) (rec (CPrintArg (nth n a2 VNil) verb)).
  Proof.
    intros Ha s1 s2 N S Hn.
    pose proof (Hrec (CPrintArg (nth n a1 VNil) verb) (CPrintArg (nth n a2 VNil) verb) (conj eq_refl (lrel_nth a1 a2 n Ha)) s1 s2 N S (NoO_HS _ _ _ Hn)) as R.
    destruct (rec (CPrintArg (nth n a1 VNil) verb) s1) as [[u1|?| |?] x], (rec (CPrintArg (nth n a2 VNil) verb) s2) as [[u2|?| |?] y]; try (exact Logic.I || contradiction || (exfalso; assumption) || assumption).
    destruct R as (_ & R). exact (conj Logic.I R).
  Qed.

  Hypothesis Hkeeps : rec_keeps rec.

  Ltac jb := eapply (JS_bind_o (fun o => o <> OvrSafe)).
  Ltac jn x := apply (J_JS NoO); exact x.

  (* a width or precision taken from an operand ('*') is public: either the format has no '*', or
     the two operand lists give the same answer to every intFromArg query *)
  Definition star_ok (f : bytes) (a1 a2 : list value) : Prop :=
    no_star f = true \/ forall n, intFromArg a1 n = intFromArg a2 n.

  Lemma J_star_width a1 a2 an i4 : (forall n, intFromArg a1 n = intFromArg a2 n) ->
    J eq (let '(w, present, argNum') := intFromArg a1 an in
          modify (fun s => set_wid s w present) ;;;
          (if present then ret tt else wstr "%!(BADWIDTH)") ;;;
          (if w <? 0 then modify (fun s => set_wid s (- w) present) ;;; upd_flags Printer.f_minus else ret tt) ;;;
          ret (argNum', S i4, false))
         (let '(w, present, argNum') := intFromArg a2 an in
          modify (fun s => set_wid s w present) ;;;
          (if present then ret tt else wstr "%!(BADWIDTH)") ;;;
          (if w <? 0 then modify (fun s => set_wid s (- w) present) ;;; upd_flags Printer.f_minus else ret tt) ;;;
          ret (argNum', S i4, false)).
  Proof.
    intros Hi. rewrite <- (Hi an). destruct (intFromArg a1 an) as [[w present] an'].
    eapply (J_bind any eq); [apply J_set_wid | intros _ _ _].
    eapply (J_bind any eq); [destruct present; [now apply J_ret | apply J_wstr] | intros _ _ _].
    eapply (J_bind any eq); [|intros _ _ _; now apply J_ret].
    destruct (w <? 0); [|now apply J_ret]. eapply (J_bind any any); [apply J_set_wid | intros _ _ _; apply J_upd_flags].
  Qed.

  Lemma J_star_prec a1 a2 an i7 : (forall n, intFromArg a1 n = intFromArg a2 n) ->
    J eq (let '(p, present, argNum') := intFromArg a1 an in
          let '(p, present) := if p <? 0 then (0, false) else (p, present) in
          modify (fun s => set_prec s p present) ;;;
          (if present then ret tt else wstr "%!(BADPREC)") ;;;
          ret (argNum', S i7, false))
         (let '(p, present, argNum') := intFromArg a2 an in
          let '(p, present) := if p <? 0 then (0, false) else (p, present) in
          modify (fun s => set_prec s p present) ;;;
          (if present then ret tt else wstr "%!(BADPREC)") ;;;
          ret (argNum', S i7, false)).
  Proof.
    intros Hi. rewrite <- (Hi an). destruct (intFromArg a1 an) as [[p present] an'].
    destruct (if p <? 0 then (0, false) else (p, present)) as [p' present'].
    eapply (J_bind any eq); [apply J_set_prec | intros _ _ _].
    eapply (J_bind any eq); [destruct present'; [now apply J_ret | apply J_wstr] | intros _ _ _; now apply J_ret].
  Qed.

  Lemma J_format_loop f a1 a2 : star_ok f a1 a2 -> Forall2 arel a1 a2 ->
    forall fuel i argNum afterIndex,
    JS NoO eq (format_loop fuel rec f a1 i argNum afterIndex) (format_loop fuel rec f a2 i argNum afterIndex).
  Proof.
    intros Hns Ha. pose proof (Forall2_len _ _ _ Ha) as El.
    induction fuel as [|k IH]; intros i argNum afterIndex; cbn [format_loop]; [intros s1 s2 _ _ _; exact Logic.I|].
    rewrite <- El. set (e := length f). set (numArgs := Z.of_nat (length a1)).
    assert (forall j, ((j <? e)%nat && (fb f j =? 42)) = true -> forall n, intFromArg a1 n = intFromArg a2 n) as Hst.
    { intros j Hj. destruct Hns as [Hns | Hi]; [|exact Hi]. pose proof (no_star_fb f j Hns) as Hf. fold e in Hf. rewrite Hf in Hj. discriminate. }
    destruct (negb (i <? e)%nat); [apply J_JS; now apply J_ret|].
    jb; [jn (J_set_good true) | apply kovr_mod; intros []; reflexivity | intros _ _ _].
    jb; [| destruct (i <? skip_literal (S e) f i e)%nat; [apply kovr_w1 | intros s; reflexivity] | intros _ _ _].
    { destruct (i <? skip_literal (S e) f i e)%nat; [jn (J_w1 (WS (subb f i (skip_literal (S e) f i e)))) | apply J_JS; now apply J_ret]. }
    destruct (e <=? skip_literal (S e) f i e)%nat; [apply J_JS; now apply J_ret|].
    jb; [jn J_clearflags | apply kovr_keeps, keeps_clearflags | intros _ _ _].
    jb; [apply J_JS, J_flag_loop | apply kovr_keeps, keeps_flag_loop | intros fr ? <-].
    destruct fr as [c i3 | i3].
    { (* the fast path *)
      jb; [| destruct (c =? 118); [apply kovr_keeps, keeps_upd_flags | intros s; reflexivity] | intros _ _ _].
      { destruct (c =? 118); [jn (J_upd_flags f_verbv) | apply J_JS; now apply J_ret]. }
      jb; [now apply Jrec_arg | apply Hkrec | intros _ _ _]. apply IH. }
    jb; [apply J_JS, J_argNumber | apply kovr_keeps, keeps_argNumber | intros [[an i4] ai] ? <-].
    (* width *)
    jb.
    { destruct ((i4 <? e)%nat && (fb f i4 =? 42)) eqn:Est; [apply J_JS, J_star_width, (Hst i4 Est)|].
      destruct (parsenum f i4 e) as [[w present] i5].
      eapply JS_bind; [jn (J_set_wid w present) | intros _ _ _].
      eapply J_bind; [|intros _ _ _; now apply (J_ret eq (an, i5, ai) (an, i5, ai))].
      destruct (ai && present); [apply J_set_good | now apply J_ret]. }
    { destruct ((i4 <? e)%nat && (fb f i4 =? 42)).
      - destruct (intFromArg a1 an) as [[w present] an'].
        apply kovr_bind; [apply kovr_mod; intros []; reflexivity | intros _].
        apply kovr_bind; [destruct present; [intros s; reflexivity | apply kovr_wstr] | intros _].
        apply kovr_bind; [|intros _ s; reflexivity].
        destruct (w <? 0); [|intros s; reflexivity]. apply kovr_bind; [apply kovr_mod; intros []; reflexivity | intros _; apply kovr_keeps, keeps_upd_flags].
      - destruct (parsenum f i4 e) as [[w present] i5]. apply kovr_bind; [apply kovr_mod; intros []; reflexivity | intros _].
        apply kovr_bind; [destruct (ai && present); [apply kovr_mod; intros []; reflexivity | intros s; reflexivity] | intros _ s; reflexivity]. }
    intros [[an2 i5] ai2] ? <-.
    (* precision *)
    jb.
    { destruct ((S i5 <? e)%nat && (fb f i5 =? 46)); [|apply J_JS; now apply (J_ret eq (an2, i5, ai2) (an2, i5, ai2))].
      eapply JS_bind; [| intros _ _ _].
      { destruct ai2; [jn (J_set_good false) | apply J_JS; now apply J_ret]. }
      eapply J_bind; [apply J_argNumber | intros [[an3 i7] ai3] ? <-].
      destruct ((i7 <? e)%nat && (fb f i7 =? 42)) eqn:Est; [apply J_star_prec, (Hst i7 Est)|].
      destruct (parsenum f i7 e) as [[p present] i8].
      eapply J_bind; [|intros _ _ _; now apply (J_ret eq (an3, i8, ai3) (an3, i8, ai3))].
      destruct present; apply J_set_prec. }
    { destruct ((S i5 <? e)%nat && (fb f i5 =? 46)); [|intros s; reflexivity].
      apply kovr_bind; [destruct ai2; [apply kovr_mod; intros []; reflexivity | intros s; reflexivity] | intros _].
      apply kovr_bind; [apply kovr_keeps, keeps_argNumber | intros [[an3 i7] ai3]].
      destruct ((i7 <? e)%nat && (fb f i7 =? 42)).
      - destruct (intFromArg a1 an3) as [[p present] an'].
        destruct (if p <? 0 then (0, false) else (p, present)) as [p' present'].
        apply kovr_bind; [apply kovr_mod; intros []; reflexivity | intros _].
        apply kovr_bind; [destruct present'; [intros s; reflexivity | apply kovr_wstr] | intros _ s; reflexivity].
      - destruct (parsenum f i7 e) as [[p present] i8].
        apply kovr_bind; [destruct present; apply kovr_mod; intros []; reflexivity | intros _ s; reflexivity]. }
    intros [[an4 i8] ai4] ? <-.
    jb; [| destruct ai4; [intros s; reflexivity | apply kovr_keeps, keeps_argNumber] | intros [[an5 i9] ai5] ? <-].
    { destruct ai4; [apply J_JS; now apply (J_ret eq (an4, i8, true) (an4, i8, true)) | apply J_JS, J_argNumber]. }
    destruct (e <=? i9)%nat.
    { apply J_JS. eapply J_bind; [apply J_wstr | intros; now apply J_ret]. }
    destruct (if fb f i9 <? 128 then (fb f i9, 1%nat) else decode_rune (skipn i9 f)) as [verb size].
    apply JS_get_bind. intros x y s1 s2 N S (-> & -> & Hn). rewrite <- (nb_good _ _ N).
    assert (forall m1 m2 : M Z, JS NoO eq m1 m2 -> match m1 x, m2 y with
              | (ROk a1', s1'), (ROk a2', s2') => a1' = a2' /\ NB s1' s2' /\ SE s1' s2' /\ seg x s1' y s2'
              | (RPanic v1', s1'), (RPanic v2', s2') => arel v1' v2' /\ NB s1' s2' /\ SE s1' s2' /\ seg x s1' y s2'
              | (RFuel, _), _ | (RMiss _, _), _ | _, (RFuel, _) | _, (RMiss _, _) => True | _, _ => False end) as Hap
      by (intros m1 m2 Hm; apply Hm; auto).
    destruct (verb =? 37).
    { apply Hap. jb; [jn (J_wbyte 37) | apply kovr_wbyte | intros _ _ _]. apply IH. }
    destruct (negb (goodArgNum x)).
    { apply Hap. jb; [jn (J_wstr "%!") | apply kovr_wstr | intros _ _ _].
      jb; [jn (J_w1 (WR verb)) | apply kovr_w1 | intros _ _ _].
      jb; [jn (J_wstr "(BADINDEX)") | apply kovr_wstr | intros _ _ _]. apply IH. }
    destruct (numArgs <=? an5).
    { apply Hap. jb; [jn (J_wstr "%!") | apply kovr_wstr | intros _ _ _].
      jb; [jn (J_w1 (WR verb)) | apply kovr_w1 | intros _ _ _].
      jb; [jn (J_wstr "(MISSING)") | apply kovr_wstr | intros _ _ _]. apply IH. }
    apply Hap.
    jb; [| destruct (verb =? 118); [apply kovr_keeps, keeps_upd_flags | intros s; reflexivity] | intros _ _ _].
    { destruct (verb =? 118); [jn (J_upd_flags f_verbv) | apply J_JS; now apply J_ret]. }
    jb; [now apply Jrec_arg | apply Hkrec | intros _ _ _]. apply IH.
  Qed.
End Loop.

Section Top.
  Variable rec : recT.
  Variable env : env.
  Hypothesis Hrec : rec_ok rec.
  Hypothesis Hkrec : forall c, kovr (rec c).
  Hypothesis Hkeeps : rec_keeps rec.

  Ltac jb := eapply (JS_bind_o (fun o => o <> OvrSafe)).
  Ltac jba := eapply (JS_bind_o (fun o => o <> OvrSafe) any).

  Lemma J_enter_safe : JS NoO any enter_safe enter_safe.
  Proof.
    unfold enter_safe. apply JS_get_bind. intros x y s1 s2 N S (-> & -> & Hn).
    rewrite <- (nb_ovr _ _ N). destruct (ovr_eqb (povr x) OvrUnsafe); [apply (J_ret any tt tt Logic.I); auto|].
    apply (JS_set_mode MSafe); auto. intros _. discriminate.
  Qed.

  Lemma J_extra_args a1 : forall a2 first, Forall2 arel a1 a2 ->
    JS NoO any (extra_args rec first a1) (extra_args rec first a2).
  Proof.
    induction a1 as [|x r IH]; intros a2 first H; inversion H as [|? y ? r2 Hxy Hr]; subst; cbn [extra_args]; [apply J_JS; now apply J_ret|].
    jba; [| destruct first; [intros s; reflexivity | apply kovr_wstr] | intros _ _ _].
    { destruct first; [apply J_JS; now apply J_ret | apply J_JS, J_wstr]. }
    jba; [| | intros _ _ _; now apply IH].
    - destruct (value_eq_nil x) as [-> | Hn1].
      + assert (y = VNil) as -> by (now apply (arel_nil_iff _ _ Hxy)). apply J_JS, J_wstr.
      + assert (y <> VNil) as Hn2 by (intros E; apply Hn1; now apply (arel_nil_iff _ _ Hxy)).
        destruct (arel_names _ _ Hxy) as (Etn & _).
        assert ((match x with VNil => wstr "<nil>" | _ => w1 (WS (type_name x)) ;;; wbyte 61 ;;; rec (CPrintArg x 118) ;;; ret tt end)
                = (w1 (WS (type_name x)) ;;; wbyte 61 ;;; rec (CPrintArg x 118) ;;; ret tt)) as -> by (destruct x; congruence).
        assert ((match y with VNil => wstr "<nil>" | _ => w1 (WS (type_name y)) ;;; wbyte 61 ;;; rec (CPrintArg y 118) ;;; ret tt end)
                = (w1 (WS (type_name y)) ;;; wbyte 61 ;;; rec (CPrintArg y 118) ;;; ret tt)) as -> by (destruct y; congruence).
        rewrite <- Etn.
        jb; [apply J_JS, J_w1 | apply kovr_w1 | intros _ _ _].
        jb; [apply J_JS, J_wbyte | apply kovr_wbyte | intros _ _ _].
        eapply JS_bind; [|intros; now apply J_ret].
        intros s1 s2 N S Hn.
        pose proof (Hrec (CPrintArg x 118) (CPrintArg y 118) (conj eq_refl Hxy) s1 s2 N S (NoO_HS _ _ _ Hn)) as R.
        destruct (rec (CPrintArg x 118) s1) as [[u1|?| |?] p], (rec (CPrintArg y 118) s2) as [[u2|?| |?] q]; try (exact Logic.I || contradiction || (exfalso; assumption) || assumption).
        destruct R as (_ & R). exact (conj Logic.I R).
    - destruct x; try (apply kovr_wstr);
        (apply kovr_bind; [apply kovr_w1 | intros _]; apply kovr_bind; [apply kovr_wbyte | intros _]; apply kovr_bind; [apply Hkrec | intros _ sx; reflexivity]).
  Qed.

  Lemma Forall2_skipn {A B} (R : A -> B -> Prop) n : forall l1 l2, Forall2 R l1 l2 -> Forall2 R (skipn n l1) (skipn n l2).
  Proof. induction n as [|k IH]; intros l1 l2 H; [exact H|]. inversion H; subst; cbn [skipn]; [constructor | now apply IH]. Qed.

  Lemma J_doPrintf f a1 a2 : star_ok f a1 a2 -> Forall2 arel a1 a2 ->
    JS NoO any (doPrintf rec f a1) (doPrintf rec f a2).
  Proof.
    intros Hns Ha. unfold doPrintf. rewrite <- (Forall2_len _ _ _ Ha).
    jb; [apply J_enter_safe | apply kovr_enter_safe | intros _ _ _].
    jb; [apply J_JS, J_set_reordered | apply kovr_mod; intros []; reflexivity | intros _ _ _].
    jb; [now apply J_format_loop | apply kovr_keeps, keeps_format_loop, Hkeeps | intros argNum ? <-].
    apply JS_get_bind. intros x y s1 s2 N S (-> & -> & Hn). rewrite <- (nb_re _ _ N).
    destruct (negb (reordered x) && (argNum <? Z.of_nat (length a1))).
    - assert (JS NoO any (clearflags ;;; wstr "%!(EXTRA " ;;; extra_args rec true (skipn (Z.to_nat argNum) a1) ;;; wbyte 41)
                         (clearflags ;;; wstr "%!(EXTRA " ;;; extra_args rec true (skipn (Z.to_nat argNum) a2) ;;; wbyte 41)) as Hk.
      { jb; [apply J_JS, J_clearflags | apply kovr_keeps, keeps_clearflags | intros _ _ _].
        jb; [apply J_JS, J_wstr | apply kovr_wstr | intros _ _ _].
        eapply JS_bind; [apply J_extra_args, Forall2_skipn, Ha | intros; apply J_wbyte]. }
      apply Hk; auto.
    - apply (J_ret any tt tt Logic.I); auto.
  Qed.

  Lemma J_doPrint_loop a1 : forall a2 argNum prev, Forall2 arel a1 a2 ->
    JS NoO any (doPrint_loop rec argNum prev a1) (doPrint_loop rec argNum prev a2).
  Proof.
    induction a1 as [|x r IH]; intros a2 argNum prev H; inversion H as [|? y ? r2 Hxy Hr]; subst; cbn [doPrint_loop]; [apply J_JS; now apply J_ret|].
    destruct (arel_names _ _ Hxy) as (_ & Es). rewrite <- Es.
    jba; [| destruct ((0 <? argNum)%nat && negb (is_string_kind x) && negb prev); [apply kovr_wbyte | intros s; reflexivity] | intros _ _ _].
    { destruct ((0 <? argNum)%nat && negb (is_string_kind x) && negb prev); [apply J_JS, J_wbyte | apply J_JS; now apply J_ret]. }
    jba; [| apply Hkrec | intros _ _ _; now apply IH].
    intros s1 s2 N S Hn.
    pose proof (Hrec (CPrintArg x 118) (CPrintArg y 118) (conj eq_refl Hxy) s1 s2 N S (NoO_HS _ _ _ Hn)) as R.
    destruct (rec (CPrintArg x 118) s1) as [[u1|?| |?] p], (rec (CPrintArg y 118) s2) as [[u2|?| |?] q]; try (exact Logic.I || contradiction || (exfalso; assumption) || assumption).
    destruct R as (_ & R). exact (conj Logic.I R).
  Qed.

  Lemma J_doPrint a1 a2 : Forall2 arel a1 a2 -> JS NoO any (doPrint rec a1) (doPrint rec a2).
  Proof.
    intros Ha. unfold doPrint. jb; [apply J_enter_safe | apply kovr_enter_safe | intros _ _ _]. now apply J_doPrint_loop.
  Qed.
End Top.

Section Rec.
  Variable rec : recT.
  Variable env : env.
  Hypothesis Hrec : rec_ok rec.
  Hypothesis Hkrec : forall c, kovr (rec c).
  Hypothesis Hkeeps : rec_keeps rec.
  Hypothesis Hos : osane (orc env).
  (* the error hook's script, if one is installed, is related to itself *)
  Hypothesis Hhook : match hook env with Some h => Forall2 actrel h h | None => True end.

  Lemma J_badverb_call verb : J any (rec (CBadVerb verb) ;;; ret tt) (rec (CBadVerb verb) ;;; ret tt).
  Proof.
    eapply J_bind; [|intros; now apply J_ret].
    eapply JS_weaken; [|apply (Hrec (CBadVerb verb) (CBadVerb verb)); reflexivity]. intros ? ? _ _. exact Logic.I.
  Qed.

  Lemma JfmtBool b1 b2 verb : JS (HS (b1 = b2)) any (fmtBool rec b1 verb) (fmtBool rec b2 verb).
  Proof.
    unfold fmtBool. destruct (isv verb "tv"); [|apply J_JS, J_badverb_call].
    eapply JS_weaken; [|apply (ubody_wr_rel (fun f => fmt_boolean f b1) (fun f => fmt_boolean f b2))].
    - intros s1 s2 H Hv f. now rewrite (H Hv).
    - intros f. apply fmt_boolean_rel.
  Qed.

  Lemma fmt0x64_ubody v l s : fmt0x64 v l s = ubody (fun f => Some (fmt_integer (set_sharp f l) v 16 false 118 false)) s.
  Proof.
    rewrite ubody_run. unfold fmt0x64, bind, getf, modify. cbn iota beta zeta.
    change (bracket start_unsafe (fun s0 => match (let (r, s1) := (ROk (pf s0), s0) in match r with ROk a => wr (fmt_integer a v 16 false 118 false) s1 | RPanic v0 => (RPanic v0, s1) | RFuel => (RFuel, s1) | RMiss w => (RMiss w, s1) end) with
              | (ROk _, s1) => (ROk tt, set_pf s1 (set_sharp (pf s1) (sharp (fl (pf s)))))
              | (RPanic v0, s1) => (RPanic v0, s1) | (RFuel, s1) => (RFuel, s1) | (RMiss w, s1) => (RMiss w, s1) end))
      with (bracket start_unsafe (fun s0 => match wr (fmt_integer (pf s0) v 16 false 118 false) s0 with
              | (ROk _, s1) => (ROk tt, set_pf s1 (set_sharp (pf s1) (sharp (fl (pf s)))))
              | (RPanic v0, s1) => (RPanic v0, s1) | (RFuel, s1) => (RFuel, s1) | (RMiss w, s1) => (RMiss w, s1) end)).
    unfold bracket, start_unsafe, bind, get_mode, Printer.get.
    assert (povr (set_pf s (set_sharp (pf s) l)) = povr s) as -> by (destruct s; reflexivity).
    destruct (ovr_eqb (povr s) OvrSafe) eqn:Ev.
    - unfold ret. cbn iota beta. rewrite wr_state, restore_state. cbn [fst snd].
      destruct s as [pl0 ov ar va [flx wi pr] ? ? ? ? ? ?]. destruct flx. reflexivity.
    - rewrite setmode_state. unfold ret. cbn iota beta. rewrite wr_state, restore_state. cbn [fst snd].
      destruct s as [pl0 ov ar va [flx wi pr] ? ? ? ? ? ?]. destruct flx. reflexivity.
  Qed.

  Lemma Jfmt0x64 u1 u2 l : urel u1 u2 -> JS (HS (u1 = u2)) any (fmt0x64 u1 l) (fmt0x64 u2 l).
  Proof.
    intros Hu s1 s2 N S Hs. rewrite !fmt0x64_ubody.
    apply (ubody_rel (fun f => Some (fmt_integer (set_sharp f l) u1 16 false 118 false)) (fun f => Some (fmt_integer (set_sharp f l) u2 16 false 118 false))); auto.
    - intros f w1 w2 E1 E2. injection E1 as <-. injection E2 as <-. apply fmt_integer_urel; [right; right; right; reflexivity | exact Hu].
    - intros Hv f. now rewrite (Hs Hv).
  Qed.

  Lemma ubody_refl g : J any (ubody g) (ubody g).
  Proof.
    eapply JS_weaken; [|apply (ubody_rel g g)]; [intros; intro; reflexivity|].
    intros f w1 w2 E1 E2. rewrite E1 in E2. injection E2 as <-. apply usegw_refl.
  Qed.

  Ltac ub_wr g1 g2 :=
    eapply JS_weaken; [|apply (ubody_wr_rel g1 g2)].
  Ltac ub_opt g1 g2 :=
    eapply JS_weaken; [|apply (ubody_opt_rel g1 g2)].

  Lemma JfmtInteger u1 u2 sg verb : urel u1 u2 -> (irel u1 u2 -> 0 <= u1 /\ 0 <= u2) ->
    JS (HS (u1 = u2)) any (fmtInteger rec env u1 sg verb) (fmtInteger rec env u2 sg verb).
  Proof.
    intros Hu _. unfold fmtInteger.
    assert (forall base up, base_ok base ->
              JS (HS (u1 = u2)) any (bracket start_unsafe (f <- getf ;; wr (fmt_integer f u1 base sg verb up)))
                                    (bracket start_unsafe (f <- getf ;; wr (fmt_integer f u2 base sg verb up)))) as Hgo.
    { intros base up Hb. ub_wr (fun f => fmt_integer f u1 base sg verb up) (fun f => fmt_integer f u2 base sg verb up).
      - intros s1 s2 H Hv f. now rewrite (H Hv).
      - intros f. now apply fmt_integer_urel. }
    destruct (verb =? 118).
    { eapply JS_bind_k; [apply J_JS, J_getf | intros s; reflexivity |]. intros f1 f2 <-.
      destruct (sharpV (fl f1) && negb sg); [now apply Jfmt0x64 | apply Hgo; right; right; left; reflexivity]. }
    destruct (verb =? 100); [apply Hgo; right; right; left; reflexivity|].
    destruct (verb =? 98); [apply Hgo; left; reflexivity|].
    destruct (isv verb "oO"); [apply Hgo; right; left; reflexivity|].
    destruct (verb =? 120); [apply Hgo; right; right; right; reflexivity|].
    destruct (verb =? 88); [apply Hgo; right; right; right; reflexivity|].
    destruct (verb =? 99).
    { ub_wr (fun f => fmt_c f u1) (fun f => fmt_c f u2).
      - intros s1 s2 H Hv f. now rewrite (H Hv).
      - intros f. destruct Hu as [-> | (_ & _ & _ & _ & N1 & N2)]; [apply usegw_refl | now apply fmt_c_rel]. }
    destruct (verb =? 113).
    { ub_opt (fun f => fmt_qc (orc env) f u1) (fun f => fmt_qc (orc env) f u2).
      - intros s1 s2 H Hv f. now rewrite (H Hv).
      - intros f w1 w2 E1 E2. eapply fmt_qc_rel; eassumption. }
    destruct (verb =? 85).
    { ub_opt (fun f => fmt_unicode (orc env) f u1) (fun f => fmt_unicode (orc env) f u2).
      - intros s1 s2 H Hv f. now rewrite (H Hv).
      - intros f w1 w2 E1 E2. destruct Hu as [-> | (R1 & R2 & _)].
        + rewrite E1 in E2. injection E2 as <-. apply usegw_refl.
        + eapply fmt_unicode_rel; try eassumption; lia. }
    apply J_JS, J_badverb_call.
  Qed.

  Lemma JfmtFloat b1 b2 size verb : JS (HS (b1 = b2)) any (fmtFloat rec env b1 size verb) (fmtFloat rec env b2 size verb).
  Proof.
    unfold fmtFloat.
    assert (forall fc pr, JS (HS (b1 = b2)) any (bracket start_unsafe (f <- getf ;; ws <- of_opt (fmt_float (orc env) f b1 size fc pr) ;; wr ws))
                                (bracket start_unsafe (f <- getf ;; ws <- of_opt (fmt_float (orc env) f b2 size fc pr) ;; wr ws))) as Hgo.
    { intros fc pr. ub_opt (fun f => fmt_float (orc env) f b1 size fc pr) (fun f => fmt_float (orc env) f b2 size fc pr).
      - intros s1 s2 H Hv f. now rewrite (H Hv).
      - intros f w1 w2 E1 E2. eapply fmt_float_rel; eassumption. }
    destruct (verb =? 118); [apply Hgo|]. destruct (isv verb "bgGxX"); [apply Hgo|].
    destruct (isv verb "feE"); [apply Hgo|]. destruct (verb =? 70); [apply Hgo|]. apply J_JS, J_badverb_call.
  Qed.

  Definition strel (s1 s2 : bytes) : Prop := s1 = s2 \/ srel s1 s2.
  Lemma strel_srel s1 s2 : strel s1 s2 -> srel s1 s2.
  Proof. intros [-> | H]; [apply srel_refl | exact H]. Qed.

  Lemma bracket_ext {A} (st : M restorer) (b1 b2 : M A) : (forall s, b1 s = b2 s) -> forall s, bracket st b1 s = bracket st b2 s.
  Proof. intros H s. unfold bracket. destruct (st s) as [[r| | |] s1]; try reflexivity. now rewrite H. Qed.

  Lemma JfmtString v1 v2 verb : strel v1 v2 ->
    JS (HS (v1 = v2)) any (fmtString rec env v1 verb) (fmtString rec env v2 verb).
  Proof.
    intros Hv. pose proof (strel_srel _ _ Hv) as Hs. unfold fmtString.
    assert (forall f w1 w2, fmt_q (orc env) f v1 = Some w1 -> fmt_q (orc env) f v2 = Some w2 -> usegw w1 w2) as Hq
      by (intros; eapply fmt_q_rel; eassumption).
    destruct (verb =? 118).
    { intros s1 s2 N S Hh.
      rewrite (bracket_ext start_unsafe _ (f <- getf ;; ws <- of_opt (if sharpV (fl f) then fmt_q (orc env) f v1 else Some (fmt_s f v1)) ;; wr ws)).
      2:{ intros s. unfold bind, getf. cbn iota beta. destruct (sharpV (fl (pf s))); reflexivity. }
      rewrite (bracket_ext start_unsafe (f <- getf ;; (if sharpV (fl f) then ws <- of_opt (fmt_q (orc env) f v2) ;; wr ws else wr (fmt_s f v2)))
                 (f <- getf ;; ws <- of_opt (if sharpV (fl f) then fmt_q (orc env) f v2 else Some (fmt_s f v2)) ;; wr ws)).
      2:{ intros s. unfold bind, getf. cbn iota beta. destruct (sharpV (fl (pf s))); reflexivity. }
      apply (ubody_rel (fun f => if sharpV (fl f) then fmt_q (orc env) f v1 else Some (fmt_s f v1))
                       (fun f => if sharpV (fl f) then fmt_q (orc env) f v2 else Some (fmt_s f v2))); auto.
      - intros f w1 w2 E1 E2. destruct (sharpV (fl f)); [eapply Hq; eassumption|].
        injection E1 as <-. injection E2 as <-. now apply fmt_s_rel.
      - intros Ho f. now rewrite (Hh Ho). }
    destruct (verb =? 115).
    { ub_wr (fun f => fmt_s f v1) (fun f => fmt_s f v2); [intros s1 s2 H Ho f; now rewrite (H Ho) | intros f; now apply fmt_s_rel]. }
    destruct (verb =? 120).
    { ub_wr (fun f => fmt_sbx f v1 false) (fun f => fmt_sbx f v2 false); [intros s1 s2 H Ho f; now rewrite (H Ho) | intros f; apply fmt_sbx_rel, srel_length, Hs]. }
    destruct (verb =? 88).
    { ub_wr (fun f => fmt_sbx f v1 true) (fun f => fmt_sbx f v2 true); [intros s1 s2 H Ho f; now rewrite (H Ho) | intros f; apply fmt_sbx_rel, srel_length, Hs]. }
    destruct (verb =? 113).
    { ub_opt (fun f => fmt_q (orc env) f v1) (fun f => fmt_q (orc env) f v2); [intros s1 s2 H Ho f; now rewrite (H Ho) | exact Hq]. }
    apply J_JS, J_badverb_call.
  Qed.

  Ltac nbmod :=
    let s1 := fresh "s1" in let s2 := fresh "s2" in let N := fresh "N" in let S := fresh "S" in
    intros s1 s2 N S; split;
    [ destruct N; destruct s1, s2; constructor; cbn in *; auto
    | unfold SE in *; destruct s1, s2; cbn in *; auto ].

  Lemma J_set_erroring b : J any (modify (fun s => set_erroring s b)) (modify (fun s => set_erroring s b)).
  Proof. apply J_modify; [nbmod | intros []; reflexivity | intros []; reflexivity]. Qed.


  Lemma JbadVerb verb : J any (badVerb rec verb) (badVerb rec verb).
  Proof.
    unfold badVerb.
    eapply J_bind; [apply J_set_erroring | intros _ _ _].
    eapply J_bind; [apply J_wstr | intros _ _ _].
    eapply J_bind; [apply J_w1 | intros _ _ _].
    eapply J_bind; [apply J_wbyte | intros _ _ _].
    apply JS_get_bind. intros a b s1 s2 N S (-> & -> & _).
    pose proof (nb_arg _ _ N) as Ha. pose proof (nb_val _ _ N) as Hv.
    assert (J any (wbyte 41 ;;; modify (fun s => set_erroring s false)) (wbyte 41 ;;; modify (fun s => set_erroring s false))) as Htail
      by (eapply J_bind; [apply J_wbyte | intros; apply J_set_erroring]).
    destruct (parg a) as [a1|] eqn:Ea, (parg b) as [a2|] eqn:Eb; cbn [orel] in Ha; try contradiction.
    - (* the operand as an interface value *)
      destruct (vrel_tinfo _ _ Ha) as (_ & <- & _).
      assert (JS (HS (a1 = a2 /\ lfs a1 = true)) any
                ((w1 (WS (type_name a1)) ;;; wbyte 61 ;;; rec (CPrintArg a1 118) ;;; ret tt) ;;; wbyte 41 ;;; modify (fun s => set_erroring s false))
                ((w1 (WS (type_name a1)) ;;; wbyte 61 ;;; rec (CPrintArg a2 118) ;;; ret tt) ;;; wbyte 41 ;;; modify (fun s => set_erroring s false))) as Hk.
      { eapply JS_bind; [|intros; exact Htail].
        eapply JS_bind_k; [apply J_JS, J_w1 | apply kovr_w1 | intros _ _ _].
        eapply JS_bind_k; [apply J_JS, J_wbyte | apply kovr_wbyte | intros _ _ _].
        eapply JS_bind; [|intros; now apply J_ret].
        eapply JS_weaken; [|apply (Hrec (CPrintArg a1 118) (CPrintArg a2 118)); split; [reflexivity | apply ar_v; exact Ha]].
        intros ? ? H. exact H. }
      apply Hk; auto. intros Ho. destruct (S Ho) as (E & L & _). rewrite Ea, Eb in E. rewrite Ea in L. split; [now injection E | exact L].
    - (* the operand as a reflect.Value *)
      destruct (pval a) as [[v1 c1]|] eqn:Va, (pval b) as [[v2 c2]|] eqn:Vb; cbn [orel fst snd] in Hv; try contradiction.
      + destruct Hv as [Hl <-]. destruct (vrel_tinfo _ _ Hl) as (_ & <- & _).
        assert (JS (HS (v1 = v2 /\ lfs v1 = true)) any
                  ((w1 (WS (type_name v1)) ;;; wbyte 61 ;;; rec (CPrintValue v1 118 0%nat c1) ;;; ret tt) ;;; wbyte 41 ;;; modify (fun s => set_erroring s false))
                  ((w1 (WS (type_name v1)) ;;; wbyte 61 ;;; rec (CPrintValue v2 118 0%nat c1) ;;; ret tt) ;;; wbyte 41 ;;; modify (fun s => set_erroring s false))) as Hk.
        { eapply JS_bind; [|intros; exact Htail].
          eapply JS_bind_k; [apply J_JS, J_w1 | apply kovr_w1 | intros _ _ _].
          eapply JS_bind_k; [apply J_JS, J_wbyte | apply kovr_wbyte | intros _ _ _].
          eapply JS_bind; [|intros; now apply J_ret].
          eapply JS_weaken; [|apply (Hrec (CPrintValue v1 118 0%nat c1) (CPrintValue v2 118 0%nat c1)); exact (conj eq_refl (conj eq_refl (conj eq_refl Hl)))].
          intros ? ? H. exact H. }
        apply Hk; auto. intros Ho. destruct (S Ho) as (_ & _ & E). destruct (E Ea) as [E' L]. rewrite Va, Vb in E'. rewrite Va in L. split; [now injection E' | exact L].
      + assert (J any (wstr "<nil>" ;;; wbyte 41 ;;; modify (fun s => set_erroring s false)) (wstr "<nil>" ;;; wbyte 41 ;;; modify (fun s => set_erroring s false))) as Hk
          by (eapply J_bind; [apply J_wstr | intros; exact Htail]).
        apply Hk; auto.
  Qed.

  (* defer p.startSafeOverride().restore() around a body that records its operand first *)
  Lemma bracket_safe_run {A} (b : M A) s :
    bracket start_safe_ovr b s =
    let s0 := if ovr_eqb (povr s) NoOvr then set_ovr (set_pl s (lset (pl s) (OMode MSafe))) OvrSafe else s in
    let '(o, s2) := b s0 in (o, set_ovr (set_pl s2 (lset (pl s2) (OMode (lmode (pl s))))) (povr s)).
  Proof.
    unfold bracket, start_safe_ovr, bind, get_mode, Printer.get.
    destruct (ovr_eqb (povr s) NoOvr).
    - rewrite setmode_state. unfold modify, ret. cbn iota beta zeta.
      destruct (b _) as [o s2]. rewrite restore_state. reflexivity.
    - unfold ret. cbn iota beta zeta. destruct (b s) as [o s2]. rewrite restore_state. reflexivity.
  Qed.

  Lemma NB_set_ovr s1 s2 o : NB s1 s2 -> (o = OvrSafe -> lmode (pl s1) <> MUnsafe) ->
    NB (set_ovr s1 o) (set_ovr s2 o).
  Proof. intros [] H2. destruct s1, s2; constructor; cbn in *; auto. Qed.

  Lemma NB_set_pl_ovr s1 s2 l1 l2 o : NB s1 s2 -> lmode l1 = lmode l2 -> (o = OvrSafe -> lmode l1 <> MUnsafe) ->
    NB (set_ovr (set_pl s1 l1) o) (set_ovr (set_pl s2 l2) o).
  Proof. intros [] H0 H2. destruct s1, s2; constructor; cbn in *; auto. Qed.

  Lemma dsim_same_writes m os m' : m <> MUnsafe -> forallb is_wr os = true ->
    dsim m (os ++ [OMode m']) (os ++ [OMode m']) m'.
  Proof.
    intros Hm. induction os as [|o r IH]; intros Hw; cbn [app]; [apply ds_mode; constructor|].
    cbn [forallb] in Hw. apply andb_prop in Hw. destruct Hw. apply ds_same; auto.
  Qed.

  Lemma set_back s l1 l2 l3 : povr s = NoOvr ->
    set_ovr (set_pl (set_pl (set_ovr (set_pl s l1) OvrSafe) l2) l3) (povr s) = set_pl s l3.
  Proof. intros H. destruct s; cbn in *. subst. reflexivity. Qed.

  (* a safe emitter with no override active: SetMode(safe), the writes, SetMode(previous) *)
  Lemma safe_wr_run ws s : povr s = NoOvr ->
    bracket start_safe_ovr (wr ws) s =
    (ROk tt, set_pl s (lset (lwrites (lset (pl s) (OMode MSafe)) (ops_of ws)) (OMode (lmode (pl s))))).
  Proof.
    intros Hn. rewrite bracket_safe_run. assert (ovr_eqb (povr s) NoOvr = true) as -> by (rewrite Hn; reflexivity).
    cbv zeta. rewrite wr_state.
    assert (forall x l o, pl (set_ovr (set_pl x l) o) = l) as Hp by (intros [] ? ?; reflexivity).
    rewrite !pl_set_pl, Hp. apply f_equal. apply set_back. exact Hn.
  Qed.

  Lemma safe_ubody_run g s : povr s = NoOvr ->
    bracket start_safe_ovr (ubody g) s =
    match g (pf s) with
    | Some w => (ROk tt, set_pl s (lset (lset (lwrites (lset (pl s) (OMode MSafe)) (ops_of w)) (OMode MSafe)) (OMode (lmode (pl s)))))
    | None => (RMiss 0, set_pl s (lset (lset (lset (pl s) (OMode MSafe)) (OMode MSafe)) (OMode (lmode (pl s)))))
    end.
  Proof.
    intros Hn. rewrite bracket_safe_run. assert (ovr_eqb (povr s) NoOvr = true) as -> by (rewrite Hn; reflexivity).
    cbv zeta. rewrite ubody_run.
    assert (forall x l o, pl (set_ovr (set_pl x l) o) = l /\ pf (set_ovr (set_pl x l) o) = pf x /\ povr (set_ovr (set_pl x l) o) = o) as Hp by (intros [] ? ?; auto).
    destruct (Hp s (lset (pl s) (OMode MSafe)) OvrSafe) as (-> & -> & ->). cbn [ovr_eqb]. cbv zeta. rewrite lmode_setmode.
    destruct (g (pf s)); (rewrite !pl_set_pl; apply f_equal; apply set_back; exact Hn).
  Qed.

  (* under an unsafe override start_safe_ovr does nothing: the body, then SetMode(previous) *)
  Lemma Jbracket_safe_uo (b1 b2 : M unit) : kovr b1 -> J any b1 b2 ->
    JS (fun s1 _ => povr s1 = OvrUnsafe) any (bracket start_safe_ovr b1) (bracket start_safe_ovr b2).
  Proof.
    intros Hk Hb s1 s2 N S Ho. rewrite !bracket_safe_run. rewrite <- (nb_ovr _ _ N), Ho. cbn [ovr_eqb]. cbv zeta.
    specialize (Hb s1 s2 N S Logic.I). pose proof (Hk s1) as Ek.
    destruct (b1 s1) as [[u1|?| |?] x], (b2 s2) as [[u2|?| |?] y]; try (exact Logic.I || contradiction || (exfalso; assumption) || assumption).
    all: destruct Hb as (Rx & Nx & Sx & Gx); cbn [snd] in Ek.
    all: assert (forall s l o, pl (set_ovr (set_pl s l) o) = l) as Hp by (intros [] ? ?; reflexivity).
    all: rewrite <- (nb_mode _ _ N).
    all: refine (conj Rx (conj _ (conj _ _))).
    1,4: apply NB_set_pl_ovr; [exact Nx | now rewrite !lmode_setmode | intros X; discriminate].
    1,3: intros X; assert (forall s l o, povr (set_ovr (set_pl s l) o) = o) as Hq by (intros [] ? ?; reflexivity); rewrite Hq in X; discriminate.
    all: eapply seg_trans; [exact Gx|].
    all: exists [OMode (lmode (pl s1))], [OMode (lmode (pl s1))]; rewrite !Hp, !rlog_lset; split; [reflexivity|]; split; [reflexivity|].
    all: cbn [rev app]; rewrite lmode_setmode; apply ds_mode; constructor.
  Qed.

  Lemma povr_cases s : povr s <> OvrSafe -> povr s = NoOvr \/ povr s = OvrUnsafe.
  Proof. destruct (povr s); auto. congruence. Qed.

  Lemma Jsafe_wr ws : JS (HS False) any (bracket start_safe_ovr (wr ws)) (bracket start_safe_ovr (wr ws)).
  Proof.
    intros s1 s2 N S Hs. assert (povr s1 <> OvrSafe) as Hns by (intros X; exact (Hs X)).
    destruct (povr_cases _ Hns) as [Hn | Hu].
    - assert (povr s2 = NoOvr) as Hn2 by (rewrite <- (nb_ovr _ _ N); exact Hn).
      rewrite (safe_wr_run ws s1 Hn), (safe_wr_run ws s2 Hn2), <- (nb_mode _ _ N).
      destruct (lwrites_log (ops_of ws) (lset (pl s1) (OMode MSafe)) (ops_of_wr ws)) as [L1 M1].
      destruct (lwrites_log (ops_of ws) (lset (pl s2) (OMode MSafe)) (ops_of_wr ws)) as [L2 M2].
      refine (conj Logic.I (conj _ (conj _ _))).
      + apply NB_set_pl; [exact N | now rewrite !lmode_setmode | intros X; congruence].
      + intros X. destruct s1; cbn in *. congruence.
      + exists (OMode (lmode (pl s1)) :: rev (ops_of ws) ++ [OMode MSafe]), (OMode (lmode (pl s1)) :: rev (ops_of ws) ++ [OMode MSafe]).
        rewrite !pl_set_pl, !rlog_lset, L1, L2, !rlog_lset.
        split; [cbn [app]; now rewrite <- app_assoc|]. split; [cbn [app]; now rewrite <- app_assoc|].
        rewrite lmode_setmode. cbn [rev]. rewrite !rev_app_distr, !rev_involutive. cbn [rev app].
        apply ds_mode. apply dsim_same_writes; [discriminate | apply ops_of_wr].
    - exact (Jbracket_safe_uo (wr ws) (wr ws) (kovr_keeps _ (keeps_wr ws)) (J_wr ws) s1 s2 N S Hu).
  Qed.

  Lemma Jsafe_ubody g : JS (HS False) any (bracket start_safe_ovr (ubody g)) (bracket start_safe_ovr (ubody g)).
  Proof.
    intros s1 s2 N S Hs. assert (povr s1 <> OvrSafe) as Hns by (intros X; exact (Hs X)).
    destruct (povr_cases _ Hns) as [Hn | Hu].
    - assert (povr s2 = NoOvr) as Hn2 by (rewrite <- (nb_ovr _ _ N); exact Hn).
      rewrite (safe_ubody_run g s1 Hn), (safe_ubody_run g s2 Hn2), <- (nb_mode _ _ N), <- (nb_pf _ _ N).
      destruct (g (pf s1)) as [w|]; [|exact Logic.I].
      destruct (lwrites_log (ops_of w) (lset (pl s1) (OMode MSafe)) (ops_of_wr w)) as [L1 M1].
      destruct (lwrites_log (ops_of w) (lset (pl s2) (OMode MSafe)) (ops_of_wr w)) as [L2 M2].
      refine (conj Logic.I (conj _ (conj _ _))).
      + apply NB_set_pl; [exact N | now rewrite !lmode_setmode | intros X; congruence].
      + intros X. destruct s1; cbn in *. congruence.
      + exists (OMode (lmode (pl s1)) :: OMode MSafe :: rev (ops_of w) ++ [OMode MSafe]), (OMode (lmode (pl s1)) :: OMode MSafe :: rev (ops_of w) ++ [OMode MSafe]).
        rewrite !pl_set_pl, !rlog_lset, L1, L2, !rlog_lset.
        split; [cbn [app]; now rewrite <- app_assoc|]. split; [cbn [app]; now rewrite <- app_assoc|].
        rewrite lmode_setmode. cbn [rev]. rewrite !rev_app_distr, !rev_involutive. cbn [rev app]. rewrite <- !app_assoc. cbn [app].
        apply ds_mode.
        replace (ops_of w ++ [OMode MSafe; OMode (lmode (pl s1))]) with ((ops_of w ++ [OMode MSafe]) ++ [OMode (lmode (pl s1))]) by (rewrite <- app_assoc; reflexivity).
        eapply dsim_app; [apply dsim_same_writes; [discriminate | apply ops_of_wr]|]. apply ds_mode. constructor.
    - refine (Jbracket_safe_uo (ubody g) (ubody g) _ (ubody_refl g) s1 s2 N S Hu).
      apply kovr_keeps. unfold ubody. apply keeps_bracket. apply start_ok_unsafe.
  Qed.

  (* ---------- handleMethods on an operand without methods ---------- *)
  Lemma J_clear_wrap : J any (modify (fun s => set_wrapErrs (set_wrappedErr s None) false)) (modify (fun s => set_wrapErrs (set_wrappedErr s None) false)).
  Proof. apply J_modify; [nbmod | intros []; reflexivity | intros []; reflexivity]. Qed.

  Lemma leafish_no_methods a : vshape a = true -> isuser a = false -> is_error a = false.
  Proof. destruct a; try discriminate; reflexivity. Qed.

  Definition hm_bad (verb : Z) : M bool :=
    modify (fun s => set_wrapErrs (set_wrappedErr s None) false) ;;; rec (CBadVerb verb) ;;; ret true.

  Lemma handleMethods_run verb s :
    match parg s with Some a => vshape a = true /\ isuser a = false | None => True end ->
    handleMethods rec env verb s =
    if erroring s then (ROk false, s)
    else if verb =? 119 then hm_bad verb s else (ROk false, s).
  Proof.
    intros Hl. unfold handleMethods, bind at 1, Printer.get. cbn iota beta.
    destruct (erroring s); [reflexivity|].
    destruct (parg s) as [a|] eqn:Ea.
    - destruct Hl as [Hl Hu]. rewrite (leafish_no_methods a Hl Hu). cbn [negb orb]. rewrite Bool.andb_true_r.
      destruct (verb =? 119); [reflexivity|].
      unfold bind at 1, ret at 1. cbn iota beta.
      destruct a; try discriminate; destruct (negb (ovr_eqb (povr s) OvrUnsafe)); reflexivity.
    - destruct (verb =? 119); reflexivity.
  Qed.

  Lemma J_hm_bad verb : J eq (hm_bad verb) (hm_bad verb).
  Proof.
    unfold hm_bad. eapply J_bind; [apply J_clear_wrap | intros _ _ _]. eapply J_bind; [|intros; now apply J_ret].
    eapply JS_weaken; [|apply (Hrec (CBadVerb verb) (CBadVerb verb)); reflexivity]. intros ? ? _ _. exact Logic.I.
  Qed.

  (* ---------- handleMethods on a value whose method returns a string ---------- *)
  (* catchPanic: when both runs panic (with related payloads) the report is printed on both sides *)
  Lemma J_set_panicking b : J any (modify (fun s => set_panicking s b)) (modify (fun s => set_panicking s b)).
  Proof. apply J_modify; [nbmod | intros []; reflexivity | intros []; reflexivity]. Qed.
  Lemma J_set_pf x : J any (modify (fun s => set_pf s x)) (modify (fun s => set_pf s x)).
  Proof. apply J_modify; [nbmod | intros []; reflexivity | intros []; reflexivity]. Qed.
  Lemma J_set_flags x : J any (modify (fun s => set_flags s x)) (modify (fun s => set_flags s x)).
  Proof.
    apply J_modify; [|intros []; reflexivity | intros []; reflexivity].
    intros s1 s2 N S. split; [destruct N; destruct s1, s2; constructor; cbn in *; auto; congruence | unfold SE in *; destruct s1, s2; cbn in *; auto].
  Qed.
  Lemma kovr_modf h : (forall s, povr (h s) = povr s) -> kovr (modify h).
  Proof. intros H s. apply H. Qed.

  Definition panic_report (v : value) (verb : Z) (method : string) (oldFlags : flags) : M unit :=
    modify (fun s => set_pf s (mkF noflags 0 0)) ;;;
    wstr "%!" ;;; w1 (WR verb) ;;; wstr "(PANIC=" ;;; wstr method ;;; wstr " method: " ;;;
    modify (fun s => set_panicking s true) ;;;
    rec (CPrintArg v 118) ;;;
    modify (fun s => set_panicking s false) ;;;
    wbyte 41 ;;;
    modify (fun s => set_flags s oldFlags).

  Lemma Jpanic_report v1 v2 verb method fl0 : arel v1 v2 ->
    JS (HS False) any (panic_report v1 verb method fl0) (panic_report v2 verb method fl0).
  Proof.
    intros Hv. unfold panic_report.
    eapply (JS_bind_k False any any); [apply J_JS, J_set_pf | apply kovr_modf; intros []; reflexivity | intros _ _ _].
    eapply (JS_bind_k False any any); [apply J_JS, J_wstr | apply kovr_wstr | intros _ _ _].
    eapply (JS_bind_k False any any); [apply J_JS, J_w1 | apply kovr_w1 | intros _ _ _].
    eapply (JS_bind_k False any any); [apply J_JS, J_wstr | apply kovr_wstr | intros _ _ _].
    eapply (JS_bind_k False any any); [apply J_JS, J_wstr | apply kovr_wstr | intros _ _ _].
    eapply (JS_bind_k False any any); [apply J_JS, J_wstr | apply kovr_wstr | intros _ _ _].
    eapply (JS_bind_k False any any); [apply J_JS, J_set_panicking | apply kovr_modf; intros []; reflexivity | intros _ _ _].
    eapply (JS_bind_k False eq any); [| apply Hkrec | intros _ _ _].
    { eapply JS_weaken; [|apply (Hrec (CPrintArg v1 118) (CPrintArg v2 118)); split; [reflexivity | exact Hv]]. intros ? ? Hx Ho. destruct (Hx Ho). }
    apply J_JS.
    eapply (J_bind any any); [apply J_set_panicking | intros _ _ _].
    eapply (J_bind any any); [apply J_wbyte | intros _ _ _]. apply J_set_flags.
  Qed.

  Lemma catch_panic_run a verb method (b : M unit) s :
    catch_panic rec a verb method b s =
    match b s with
    | (RPanic v, s1) =>
      if is_nil_ptr a then wstr "<nil>" s1
      else if panicking s1 then (RPanic v, s1)
      else panic_report v verb method (fl (pf s1)) s1
    | other => other
    end.
  Proof. reflexivity. Qed.

  Lemma Jcatch_panic a1 a2 verb method (b1 b2 : M unit) :
    is_nil_ptr a1 = is_nil_ptr a2 -> kovr b1 ->
    JS (HS False) any b1 b2 -> JS (HS False) any (catch_panic rec a1 verb method b1) (catch_panic rec a2 verb method b2).
  Proof.
    intros Hnp Hk Hb s1 s2 N S Hs. specialize (Hb s1 s2 N S Hs). rewrite !catch_panic_run. pose proof (Hk s1) as Ek.
    destruct (b1 s1) as [[u1|p1| |w1] x] eqn:E1, (b2 s2) as [[u2|p2| |w2] y] eqn:E2; try (exact Hb || contradiction || exact Logic.I).
    - (* both panic *)
      destruct Hb as (Rp & Nx & Sx & Gx). cbn [snd] in Ek.
      assert (HS False x y) as Hx by (intros X; rewrite Ek in X; exact (Hs X)).
      rewrite <- Hnp, <- (nb_pan _ _ Nx), <- (nb_pf _ _ Nx).
      destruct (is_nil_ptr a1).
      + pose proof (J_wstr "<nil>" x y Nx Sx Logic.I) as R.
        destruct (wstr "<nil>" x) as [[?|?| |?] x'], (wstr "<nil>" y) as [[?|?| |?] y']; try (exact Logic.I || contradiction || (exfalso; assumption)).
        all: destruct R as (R0 & N' & S' & G'); refine (conj R0 (conj N' (conj S' _))); eapply seg_trans; eassumption.
      + destruct (panicking x); [exact (conj Rp (conj Nx (conj Sx Gx)))|].
        pose proof (Jpanic_report p1 p2 verb method (fl (pf x)) Rp x y Nx Sx Hx) as R.
        destruct (panic_report p1 verb method (fl (pf x)) x) as [[?|?| |?] x'], (panic_report p2 verb method (fl (pf x)) y) as [[?|?| |?] y']; try (exact Logic.I || contradiction || (exfalso; assumption)).
        all: destruct R as (R0 & N' & S' & G'); refine (conj R0 (conj N' (conj S' _))); eapply seg_trans; eassumption.
    - (* left panics, right out of fuel: no claim *)
      destruct (is_nil_ptr a1); [destruct (wstr "<nil>" x) as [[?|?| |?] ?]; exact Logic.I|].
      destruct (panicking x); [exact Logic.I|].
      destruct (panic_report p1 verb method (fl (pf x)) x) as [[?|?| |?] ?]; exact Logic.I.
    - destruct (is_nil_ptr a1); [destruct (wstr "<nil>" x) as [[?|?| |?] ?]; exact Logic.I|].
      destruct (panicking x); [exact Logic.I|].
      destruct (panic_report p1 verb method (fl (pf x)) x) as [[?|?| |?] ?]; exact Logic.I.
  Qed.

  Lemma catch_panic_ext a verb method (b1 b2 : M unit) : (forall s, b1 s = b2 s) ->
    forall s, catch_panic rec a verb method b1 s = catch_panic rec a verb method b2 s.
  Proof. intros H s. unfold catch_panic. now rewrite H. Qed.

  Definition user_std (a : value) (i : ifaces) (x : bytes) (verb : Z) : M bool :=
    f <- getf ;;
    if sharpV (fl f) then
      if iGoStringer i then catch_panic rec a verb "GoString" (bracket start_unsafe (f <- getf ;; wr (fmt_s f x))) ;;; ret true
      else ret false
    else if isv verb "vsxXq" then
      if iError i then catch_panic rec a verb "Error" (fmtString rec env x verb) ;;; ret true
      else if iStringer i then catch_panic rec a verb "String" (fmtString rec env x verb) ;;; ret true
      else ret false
    else ret false.

  Definition script_call (a : value) (verb : Z) (method : string) (sc : list action) : M bool :=
    catch_panic rec a verb method (rec (CActs a verb sc) ;;; ret tt) ;;; ret true.

  (* an error value: rendered by the hook's script when one is installed and no unsafe override is active *)
  Definition via_hook (a : value) (i : ifaces) (verb : Z) (s : pst) (std : M bool) : M bool :=
    if negb (ovr_eqb (povr s) OvrUnsafe) && iError i then
      match hook env with Some h => script_call a verb "SafeFormatter" h | None => std end
    else std.

  Lemma handleMethods_user_run verb s t i r x rest :
    parg s = Some (VUser t i false r (ARet x :: rest)) -> wrapErrs s = false ->
    iFormatter i = false -> iSafeFormatter i = false -> iSafeMessager i = false ->
    handleMethods rec env verb s =
    if erroring s then (ROk false, s)
    else if verb =? 119 then hm_bad verb s
    else via_hook (VUser t i false r (ARet x :: rest)) i verb s (user_std (VUser t i false r (ARet x :: rest)) i x verb) s.
  Proof.
    intros Ea Hw F1 F2 F3. unfold handleMethods, bind at 1, Printer.get. cbn iota beta.
    destruct (erroring s); [reflexivity|]. rewrite Ea, Hw. cbn [negb orb]. rewrite Bool.orb_true_r, Bool.andb_true_r.
    destruct (verb =? 119); [reflexivity|].
    unfold bind at 1, ret at 1. cbn iota beta.
    rewrite F1, F2, F3. unfold via_hook.
    assert (forall s0, (f <- getf ;;
              (if sharpV (fl f)
               then if iGoStringer i
                    then catch_panic rec (VUser t i false r (ARet x :: rest)) verb "GoString"
                           (bracket start_unsafe (str <- user_string (VUser t i false r (ARet x :: rest)) ;; f0 <- getf ;; wr (fmt_s f0 str))) ;;; ret true
                    else ret false
               else if isv verb "vsxXq"
                    then if iError i
                         then catch_panic rec (VUser t i false r (ARet x :: rest)) verb "Error"
                                (str <- user_string (VUser t i false r (ARet x :: rest)) ;; fmtString rec env str verb) ;;; ret true
                         else if iStringer i
                              then catch_panic rec (VUser t i false r (ARet x :: rest)) verb "String"
                                     (str <- user_string (VUser t i false r (ARet x :: rest)) ;; fmtString rec env str verb) ;;; ret true
                              else ret false
                    else ret false)) s0 = user_std (VUser t i false r (ARet x :: rest)) i x verb s0) as Hstd.
    { intros s0. unfold user_std. apply bind_cong_r. intros f s1.
      destruct (sharpV (fl f)).
      - destruct (iGoStringer i); [|reflexivity]. apply bind_cong_l.
        apply catch_panic_ext. intros s2. apply bracket_ext. intros s3. reflexivity.
      - destruct (isv verb "vsxXq"); [|reflexivity].
        destruct (iError i); [apply bind_cong_l; apply catch_panic_ext; intros s2; reflexivity|].
        destruct (iStringer i); [|reflexivity]. apply bind_cong_l; apply catch_panic_ext; intros s2; reflexivity. }
    destruct (negb (ovr_eqb (povr s) OvrUnsafe)); cbn [andb]; [|apply Hstd].
    destruct (iError i); [|apply Hstd]. destruct (hook env); [reflexivity | apply Hstd].
  Qed.

  Lemma Juser_std a1 a2 i x1 x2 verb : is_nil_ptr a1 = is_nil_ptr a2 -> (x1 = x2 \/ srel x1 x2) ->
    JS (HS False) eq (user_std a1 i x1 verb) (user_std a2 i x2 verb).
  Proof.
    intros Hnp Hx. unfold user_std.
    eapply JS_bind_k; [apply J_JS, J_getf | apply kovr_getf | intros f ? <-].
    destruct (sharpV (fl f)).
    - destruct (iGoStringer i); [|apply J_JS; now apply J_ret].
      eapply JS_bind; [|intros; now apply J_ret]. apply Jcatch_panic; [exact Hnp | apply kovr_keeps, keeps_bracket, start_ok_unsafe|].
      eapply JS_weaken; [|apply (ubody_wr_rel (fun f0 => fmt_s f0 x1) (fun f0 => fmt_s f0 x2))];
        [intros s1 s2 H Ho; destruct (H Ho) | intros f0; apply fmt_s_rel; destruct Hx as [-> | Hx]; [apply srel_refl | exact Hx]].
    - destruct (isv verb "vsxXq"); [|apply J_JS; now apply J_ret].
      assert (JS (HS False) any (fmtString rec env x1 verb) (fmtString rec env x2 verb)) as Hf
        by (eapply JS_weaken; [|now apply JfmtString]; intros s1 s2 H Ho; destruct (H Ho)).
      destruct (iError i); [eapply JS_bind; [|intros; now apply J_ret]; apply Jcatch_panic; [exact Hnp | apply kovr_keeps, keeps_fmtString, Hkeeps | exact Hf]|].
      destruct (iStringer i); [|apply J_JS; now apply J_ret].
      eapply JS_bind; [|intros; now apply J_ret]. apply Jcatch_panic; [exact Hnp | apply kovr_keeps, keeps_fmtString, Hkeeps | exact Hf].
  Qed.

  (* ... whose method panics (or is called on a nil receiver) *)
  Lemma J_panic v1 v2 : arel v1 v2 -> J any (@panic unit v1) (@panic unit v2).
  Proof. intros Hv s1 s2 N S _. unfold panic. refine (conj Hv (conj N (conj S _))). apply seg_refl. Qed.

  Lemma unsafe_panic_run (v : value) s :
    bracket start_unsafe (@panic unit v) s =
    (RPanic v, set_pl s (lset (if ovr_eqb (povr s) OvrSafe then pl s else lset (pl s) (OMode MUnsafe)) (OMode (lmode (pl s))))).
  Proof.
    unfold bracket, start_unsafe, bind, get_mode, Printer.get, panic.
    destruct (ovr_eqb (povr s) OvrSafe).
    - unfold ret. cbn iota beta zeta. rewrite restore_state. cbn [fst snd]. destruct s; reflexivity.
    - rewrite setmode_state. unfold ret. cbn iota beta zeta. rewrite restore_state. cbn [fst snd]. destruct s; reflexivity.
  Qed.

  Lemma Junsafe_panic v1 v2 : arel v1 v2 ->
    JS (HS False) any (bracket start_unsafe (@panic unit v1)) (bracket start_unsafe (@panic unit v2)).
  Proof.
    intros Hv s1 s2 N S Hs. rewrite !unsafe_panic_run. rewrite <- (nb_ovr _ _ N), <- (nb_mode _ _ N).
    assert (ovr_eqb (povr s1) OvrSafe = false) as -> by (destruct (povr s1) eqn:E; try reflexivity; destruct (Hs E)).
    refine (conj Hv (conj _ (conj _ _))).
    - apply NB_set_pl; [exact N | now rewrite !lmode_setmode | intros X; destruct (Hs X)].
    - intros X. destruct s1; cbn in X. destruct (Hs X).
    - exists [OMode (lmode (pl s1)); OMode MUnsafe], [OMode (lmode (pl s1)); OMode MUnsafe]. rewrite !pl_set_pl, !rlog_lset.
      split; [reflexivity|]. split; [reflexivity|]. cbn [rev app]. rewrite lmode_setmode. apply ds_mode, ds_mode. constructor.
  Qed.

  Definition user_stdp (a : value) (i : ifaces) (v : value) (verb : Z) : M bool :=
    f <- getf ;;
    if sharpV (fl f) then
      if iGoStringer i then catch_panic rec a verb "GoString" (bracket start_unsafe (@panic unit v)) ;;; ret true
      else ret false
    else if isv verb "vsxXq" then
      if iError i then catch_panic rec a verb "Error" (@panic unit v) ;;; ret true
      else if iStringer i then catch_panic rec a verb "String" (@panic unit v) ;;; ret true
      else ret false
    else ret false.

  Lemma handleMethods_puser_run verb s t i nr r sc v :
    parg s = Some (VUser t i nr r sc) -> wrapErrs s = false ->
    (forall s0, user_string (VUser t i nr r sc) s0 = (RPanic v, s0)) ->
    iFormatter i = false -> iSafeFormatter i = false -> iSafeMessager i = false ->
    handleMethods rec env verb s =
    if erroring s then (ROk false, s)
    else if verb =? 119 then hm_bad verb s
    else via_hook (VUser t i nr r sc) i verb s (user_stdp (VUser t i nr r sc) i v verb) s.
  Proof.
    intros Ea Hw Hus F1 F2 F3. unfold handleMethods, bind at 1, Printer.get. cbn iota beta.
    destruct (erroring s); [reflexivity|]. rewrite Ea, Hw. cbn [negb orb]. rewrite Bool.orb_true_r, Bool.andb_true_r.
    destruct (verb =? 119); [reflexivity|].
    unfold bind at 1, ret at 1. cbn iota beta.
    rewrite F1, F2, F3. unfold via_hook.
    assert (forall (K : bytes -> M unit) s0, (str <- user_string (VUser t i nr r sc) ;; K str) s0 = @panic unit v s0) as Hb
      by (intros K s0; unfold bind; rewrite Hus; reflexivity).
    assert (forall s0, (f <- getf ;;
              (if sharpV (fl f)
               then if iGoStringer i
                    then catch_panic rec (VUser t i nr r sc) verb "GoString"
                           (bracket start_unsafe (str <- user_string (VUser t i nr r sc) ;; f0 <- getf ;; wr (fmt_s f0 str))) ;;; ret true
                    else ret false
               else if isv verb "vsxXq"
                    then if iError i
                         then catch_panic rec (VUser t i nr r sc) verb "Error"
                                (str <- user_string (VUser t i nr r sc) ;; fmtString rec env str verb) ;;; ret true
                         else if iStringer i
                              then catch_panic rec (VUser t i nr r sc) verb "String"
                                     (str <- user_string (VUser t i nr r sc) ;; fmtString rec env str verb) ;;; ret true
                              else ret false
                    else ret false)) s0 = user_stdp (VUser t i nr r sc) i v verb s0) as Hstd.
    { intros s0. unfold user_stdp. apply bind_cong_r. intros f s1.
      destruct (sharpV (fl f)).
      - destruct (iGoStringer i); [|reflexivity]. apply bind_cong_l.
        apply catch_panic_ext. intros s2. apply bracket_ext. intros s3. apply Hb.
      - destruct (isv verb "vsxXq"); [|reflexivity].
        destruct (iError i); [apply bind_cong_l; apply catch_panic_ext; intros s2; apply Hb|].
        destruct (iStringer i); [|reflexivity]. apply bind_cong_l; apply catch_panic_ext; intros s2; apply Hb. }
    destruct nr.
    - destruct (negb (ovr_eqb (povr s) OvrUnsafe)); cbn [andb]; [|apply Hstd].
      destruct (iError i); [|apply Hstd]. destruct (hook env); [reflexivity | apply Hstd].
    - destruct (negb (ovr_eqb (povr s) OvrUnsafe)); cbn [andb]; [|apply Hstd].
      destruct (iError i); [|apply Hstd]. destruct (hook env); [reflexivity | apply Hstd].
  Qed.

  Lemma Juser_stdp a1 a2 i v1 v2 verb : is_nil_ptr a1 = is_nil_ptr a2 -> arel v1 v2 ->
    JS (HS False) eq (user_stdp a1 i v1 verb) (user_stdp a2 i v2 verb).
  Proof.
    intros Hnp Hv. unfold user_stdp.
    eapply JS_bind_k; [apply J_JS, J_getf | apply kovr_getf | intros f ? <-].
    destruct (sharpV (fl f)).
    - destruct (iGoStringer i); [|apply J_JS; now apply J_ret].
      eapply JS_bind; [|intros; now apply J_ret]. apply Jcatch_panic; [exact Hnp | apply kovr_keeps, keeps_bracket, start_ok_unsafe | now apply Junsafe_panic].
    - destruct (isv verb "vsxXq"); [|apply J_JS; now apply J_ret].
      destruct (iError i); [eapply JS_bind; [|intros; now apply J_ret]; apply Jcatch_panic; [exact Hnp | intros s; reflexivity | apply J_JS; now apply J_panic]|].
      destruct (iStringer i); [|apply J_JS; now apply J_ret].
      eapply JS_bind; [|intros; now apply J_ret]. apply Jcatch_panic; [exact Hnp | intros s; reflexivity | apply J_JS; now apply J_panic].
  Qed.

  (* handleMethods on a value whose Format / SafeFormat method runs a script *)
  Lemma handleMethods_fmt_run verb s t i r sc :
    parg s = Some (VUser t i false r sc) -> wrapErrs s = false ->
    iFormatter i = true -> iSafeFormatter i = false -> iSafeMessager i = false ->
    handleMethods rec env verb s =
    if erroring s then (ROk false, s)
    else if verb =? 119 then hm_bad verb s
    else via_hook (VUser t i false r sc) i verb s (script_call (VUser t i false r sc) verb "Format" sc) s.
  Proof.
    intros Ea Hw F1 F2 F3. unfold handleMethods, bind at 1, Printer.get. cbn iota beta.
    destruct (erroring s); [reflexivity|]. rewrite Ea, Hw. cbn [negb orb]. rewrite Bool.orb_true_r, Bool.andb_true_r.
    destruct (verb =? 119); [reflexivity|].
    unfold bind at 1, ret at 1. cbn iota beta.
    rewrite F1, F2, F3. unfold via_hook.
    destruct (negb (ovr_eqb (povr s) OvrUnsafe)); cbn [andb]; [|reflexivity].
    destruct (iError i); [|reflexivity]. destruct (hook env); reflexivity.
  Qed.

  Lemma handleMethods_sf_run verb s t i r sc :
    parg s = Some (VUser t i false r sc) -> wrapErrs s = false ->
    iSafeFormatter i = true -> iFormatter i = false -> iGoStringer i = false -> iStringer i = false -> iError i = false ->
    handleMethods rec env verb s =
    if erroring s then (ROk false, s)
    else if verb =? 119 then hm_bad verb s
    else if negb (ovr_eqb (povr s) OvrUnsafe) then script_call (VUser t i false r sc) verb "SafeFormat" sc s
    else (ROk false, s).
  Proof.
    intros Ea Hw F1 F2 F3 F4 F5. unfold handleMethods, bind at 1, Printer.get. cbn iota beta.
    destruct (erroring s); [reflexivity|]. rewrite Ea, Hw. cbn [negb orb]. rewrite Bool.orb_true_r, Bool.andb_true_r.
    destruct (verb =? 119); [reflexivity|].
    unfold bind at 1, ret at 1. cbn iota beta.
    rewrite F1, F2, F3, F4, F5.
    destruct (negb (ovr_eqb (povr s) OvrUnsafe)); [reflexivity|].
    unfold bind, getf. cbn iota beta. destruct (sharpV (fl (pf s))); [reflexivity|]. destruct (isv verb "vsxXq"); reflexivity.
  Qed.

  (* Format / SafeFormat called on a nil pointer receiver *)
  Definition nil_call (a : value) (verb : Z) (method : string) : M bool :=
    catch_panic rec a verb method (panic nil_recv_panic) ;;; ret true.

  Lemma handleMethods_nfmt_run verb s t i r sc :
    parg s = Some (VUser t i true r sc) -> wrapErrs s = false ->
    iFormatter i = true -> iSafeFormatter i = false -> iSafeMessager i = false ->
    handleMethods rec env verb s =
    if erroring s then (ROk false, s)
    else if verb =? 119 then hm_bad verb s
    else via_hook (VUser t i true r sc) i verb s (nil_call (VUser t i true r sc) verb "Format") s.
  Proof.
    intros Ea Hw F1 F2 F3. unfold handleMethods, bind at 1, Printer.get. cbn iota beta.
    destruct (erroring s); [reflexivity|]. rewrite Ea, Hw. cbn [negb orb]. rewrite Bool.orb_true_r, Bool.andb_true_r.
    destruct (verb =? 119); [reflexivity|].
    unfold bind at 1, ret at 1. cbn iota beta.
    rewrite F1, F2, F3. unfold via_hook.
    destruct (negb (ovr_eqb (povr s) OvrUnsafe)); cbn [andb]; [|reflexivity].
    destruct (iError i); [|reflexivity]. destruct (hook env); reflexivity.
  Qed.

  Lemma handleMethods_nsf_run verb s t i r sc :
    parg s = Some (VUser t i true r sc) -> wrapErrs s = false ->
    iSafeFormatter i = true -> iFormatter i = false -> iGoStringer i = false -> iStringer i = false -> iError i = false ->
    handleMethods rec env verb s =
    if erroring s then (ROk false, s)
    else if verb =? 119 then hm_bad verb s
    else if negb (ovr_eqb (povr s) OvrUnsafe) then nil_call (VUser t i true r sc) verb "SafeFormat" s
    else (ROk false, s).
  Proof.
    intros Ea Hw F1 F2 F3 F4 F5. unfold handleMethods, bind at 1, Printer.get. cbn iota beta.
    destruct (erroring s); [reflexivity|]. rewrite Ea, Hw. cbn [negb orb]. rewrite Bool.orb_true_r, Bool.andb_true_r.
    destruct (verb =? 119); [reflexivity|].
    unfold bind at 1, ret at 1. cbn iota beta.
    rewrite F1, F2, F3, F4, F5.
    destruct (negb (ovr_eqb (povr s) OvrUnsafe)); [reflexivity|].
    unfold bind, getf. cbn iota beta. destruct (sharpV (fl (pf s))); [reflexivity|]. destruct (isv verb "vsxXq"); reflexivity.
  Qed.

  Lemma Jnil_call a1 a2 verb method : is_nil_ptr a1 = is_nil_ptr a2 ->
    JS (HS False) eq (nil_call a1 verb method) (nil_call a2 verb method).
  Proof.
    intros Hnp. unfold nil_call. eapply JS_bind; [|intros; now apply J_ret].
    apply Jcatch_panic; [exact Hnp | intros s; reflexivity |].
    apply J_JS. apply J_panic. apply ar_v, vr_leaf, lrel_refl. reflexivity.
  Qed.

  Lemma Jscript_call a1 a2 verb method sc1 sc2 : is_nil_ptr a1 = is_nil_ptr a2 -> Forall2 actrel sc1 sc2 ->
    JS (HS False) eq (script_call a1 verb method sc1) (script_call a2 verb method sc2).
  Proof.
    intros Hnp Hsc. unfold script_call. eapply JS_bind; [|intros; now apply J_ret].
    apply Jcatch_panic; [exact Hnp | apply kovr_bind; [apply Hkrec | intros; apply kovr_ret]|]. eapply JS_bind; [|intros; now apply J_ret].
    eapply JS_weaken; [|apply (Hrec (CActs a1 verb sc1) (CActs a2 verb sc2)); split; [reflexivity | exact Hsc]].
    intros ? ? Hx. exact Hx.
  Qed.

  (* handleMethods on a SafeMessager *)
  Definition sm_call (a : value) (x : bytes) (verb : Z) : M bool :=
    catch_panic rec a verb "SafeMessager" (bracket start_safe_ovr (fmtString rec env x verb)) ;;; ret true.

  Lemma handleMethods_sm_run verb s t i r x rest :
    parg s = Some (VUser t i false r (ARet x :: rest)) -> wrapErrs s = false ->
    iSafeMessager i = true -> iSafeFormatter i = false -> iFormatter i = false ->
    iGoStringer i = false -> iStringer i = false -> iError i = false ->
    handleMethods rec env verb s =
    if erroring s then (ROk false, s)
    else if verb =? 119 then hm_bad verb s
    else if negb (ovr_eqb (povr s) OvrUnsafe) && isv verb "vsxXq" then sm_call (VUser t i false r (ARet x :: rest)) x verb s
    else (ROk false, s).
  Proof.
    intros Ea Hw F1 F2 F3 F4 F5 F6. unfold handleMethods, bind at 1, Printer.get. cbn iota beta.
    destruct (erroring s); [reflexivity|]. rewrite Ea, Hw. cbn [negb orb]. rewrite Bool.orb_true_r, Bool.andb_true_r.
    destruct (verb =? 119); [reflexivity|].
    unfold bind at 1, ret at 1. cbn iota beta.
    rewrite F1, F2, F3, F4, F5, F6.
    assert (forall s0, (f <- getf ;; (if sharpV (fl f) then ret false else if isv verb "vsxXq" then ret false else ret false)) s0 = (ROk false, s0)) as Hstd.
    { intros s0. unfold bind, getf. cbn iota beta. destruct (sharpV (fl (pf s0))); [reflexivity|]. destruct (isv verb "vsxXq"); reflexivity. }
    destruct (negb (ovr_eqb (povr s) OvrUnsafe)); cbn [andb]; [|apply Hstd].
    destruct (isv verb "vsxXq") eqn:Ev; [|apply Hstd].
    unfold sm_call. apply bind_cong_l. apply catch_panic_ext. intros s0. apply bracket_ext. intros s1. reflexivity.
  Qed.

  Lemma fmtString_ubody x verb : isv verb "vsxXq" = true ->
    exists g, forall s, fmtString rec env x verb s = ubody g s.
  Proof.
    intros Hv. unfold fmtString.
    destruct (verb =? 118) eqn:E1.
    { exists (fun f => if sharpV (fl f) then fmt_q (orc env) f x else Some (fmt_s f x)). intros s.
      apply bracket_ext. intros s0. unfold bind, getf. cbn iota beta. destruct (sharpV (fl (pf s0))); reflexivity. }
    destruct (verb =? 115) eqn:E2; [exists (fun f => Some (fmt_s f x)); reflexivity|].
    destruct (verb =? 120) eqn:E3; [exists (fun f => Some (fmt_sbx f x false)); reflexivity|].
    destruct (verb =? 88) eqn:E4; [exists (fun f => Some (fmt_sbx f x true)); reflexivity|].
    destruct (verb =? 113) eqn:E5; [exists (fun f => fmt_q (orc env) f x); reflexivity|].
    exfalso. unfold isv in Hv. apply existsb_exists in Hv. destruct Hv as (c & Hc & E). apply Z.eqb_eq in E. subst verb.
    cbn in Hc. repeat (destruct Hc as [<- | Hc]; [cbn in *; discriminate|]). exact Hc.
  Qed.

  Lemma Jsm_call a1 a2 x verb : is_nil_ptr a1 = is_nil_ptr a2 -> isv verb "vsxXq" = true -> JS (HS False) eq (sm_call a1 x verb) (sm_call a2 x verb).
  Proof.
    intros Hnp Hv. unfold sm_call. eapply JS_bind; [|intros; now apply J_ret].
    apply Jcatch_panic; [exact Hnp | apply kovr_keeps, keeps_bracket, start_ok_safe_ovr|].
    destruct (fmtString_ubody x verb Hv) as (g & Hg).
    intros s1 s2 N S Hs.
    rewrite (bracket_ext start_safe_ovr (fmtString rec env x verb) (ubody g) Hg s1), (bracket_ext start_safe_ovr (fmtString rec env x verb) (ubody g) Hg s2).
    now apply Jsafe_ubody.
  Qed.

  Lemma vrel_isuser v1 v2 : vrel v1 v2 -> isuser v1 = isuser v2.
  Proof. intros H. inversion H; subst; try reflexivity. destruct H0 as (L1 & L2 & _). destruct v1, v2; try discriminate; reflexivity. Qed.

  Lemma JhandleMethods verb : J eq (handleMethods rec env verb) (handleMethods rec env verb).
  Proof.
    intros s1 s2 N S _. pose proof (nb_arg _ _ N) as Ha.
    destruct (parg s1) as [a1|] eqn:E1, (parg s2) as [a2|] eqn:E2; cbn [orel] in Ha; try contradiction.
    - destruct (isuser a1) eqn:U1.
      + (* a value of a user type *)
        assert (wrapErrs s2 = false) as Hw2 by (rewrite <- (nb_we _ _ N); apply N).
        assert (povr s1 = OvrSafe -> False) as Hnos.
        { intros Ho. destruct (S Ho) as (_ & L & _). rewrite E1 in L. cbn [leaf_opt] in L. destruct a1; try discriminate U1. discriminate L. }
        inversion Ha; subst; try discriminate.
        * destruct H as (L1 & _). destruct a1; discriminate.
        * (* String / Error / GoString *)
          match goal with Hx : _ = _ \/ srel _ _ |- _ => rename Hx into Hxs end.
          rewrite (handleMethods_user_run verb s1 _ _ _ _ _ E1 (nb_nw _ _ N)) by assumption.
          rewrite (handleMethods_user_run verb s2 _ _ _ _ _ E2 Hw2) by assumption.
          rewrite <- (nb_err _ _ N).
          destruct (erroring s1); [refine (conj eq_refl (conj N (conj S _))); apply seg_refl|].
          destruct (verb =? 119); [apply J_hm_bad; auto|].
          unfold via_hook. rewrite <- (nb_ovr _ _ N).
          destruct (negb (ovr_eqb (povr s1) OvrUnsafe) && iError i);
            [destruct (hook env) as [h|]; [apply Jscript_call; auto|]|];
            (apply Juser_std; auto).
        * (* a String / Error / GoString method that panics *)
          rewrite (handleMethods_puser_run verb s1 _ _ _ _ _ v1 E1 (nb_nw _ _ N)) by (try assumption; intros s0; reflexivity).
          rewrite (handleMethods_puser_run verb s2 _ _ _ _ _ v2 E2 Hw2) by (try assumption; intros s0; reflexivity).
          rewrite <- (nb_err _ _ N).
          destruct (erroring s1); [refine (conj eq_refl (conj N (conj S _))); apply seg_refl|].
          destruct (verb =? 119); [apply J_hm_bad; auto|].
          unfold via_hook. rewrite <- (nb_ovr _ _ N).
          destruct (negb (ovr_eqb (povr s1) OvrUnsafe) && iError i);
            [destruct (hook env) as [h|]; [apply Jscript_call; auto|]|];
            (apply Juser_stdp; auto).
        * (* a method called on a nil pointer receiver *)
          rewrite (handleMethods_puser_run verb s1 _ _ _ _ _ nil_recv_panic E1 (nb_nw _ _ N)) by (try assumption; intros s0; reflexivity).
          rewrite (handleMethods_puser_run verb s2 _ _ _ _ _ nil_recv_panic E2 Hw2) by (try assumption; intros s0; reflexivity).
          rewrite <- (nb_err _ _ N).
          destruct (erroring s1); [refine (conj eq_refl (conj N (conj S _))); apply seg_refl|].
          destruct (verb =? 119); [apply J_hm_bad; auto|].
          unfold via_hook. rewrite <- (nb_ovr _ _ N).
          destruct (negb (ovr_eqb (povr s1) OvrUnsafe) && iError i);
            [destruct (hook env) as [h|]; [apply Jscript_call; auto|]|];
            (apply Juser_stdp; auto; apply ar_v, vr_leaf, lrel_refl; reflexivity).
        * (* Format *)
          rewrite (handleMethods_fmt_run verb s1 _ _ _ _ E1 (nb_nw _ _ N)) by assumption.
          rewrite (handleMethods_fmt_run verb s2 _ _ _ _ E2 Hw2) by assumption.
          rewrite <- (nb_err _ _ N).
          destruct (erroring s1); [refine (conj eq_refl (conj N (conj S _))); apply seg_refl|].
          destruct (verb =? 119); [apply J_hm_bad; auto|].
          unfold via_hook. rewrite <- (nb_ovr _ _ N).
          destruct (negb (ovr_eqb (povr s1) OvrUnsafe) && iError i);
            [destruct (hook env) as [h|]; [apply Jscript_call; auto|]|]; apply Jscript_call; auto.
        * (* SafeFormat *)
          rewrite (handleMethods_sf_run verb s1 _ _ _ _ E1 (nb_nw _ _ N)) by assumption.
          rewrite (handleMethods_sf_run verb s2 _ _ _ _ E2 Hw2) by assumption.
          rewrite <- (nb_err _ _ N), <- (nb_ovr _ _ N).
          destruct (erroring s1); [refine (conj eq_refl (conj N (conj S _))); apply seg_refl|].
          destruct (verb =? 119); [apply J_hm_bad; auto|].
          destruct (negb (ovr_eqb (povr s1) OvrUnsafe)); [apply Jscript_call; auto | refine (conj eq_refl (conj N (conj S _))); apply seg_refl].
        * (* Format / SafeFormat on a nil receiver *)
          match goal with Hx : _ \/ _ |- _ => destruct Hx as [(F1 & F2 & F3) | (F1 & F2 & F3 & F4 & F5)] end.
          -- rewrite (handleMethods_nfmt_run verb s1 _ _ _ _ E1 (nb_nw _ _ N)) by assumption.
             rewrite (handleMethods_nfmt_run verb s2 _ _ _ _ E2 Hw2) by assumption.
             rewrite <- (nb_err _ _ N).
             destruct (erroring s1); [refine (conj eq_refl (conj N (conj S _))); apply seg_refl|].
             destruct (verb =? 119); [apply J_hm_bad; auto|].
             unfold via_hook. rewrite <- (nb_ovr _ _ N).
             destruct (negb (ovr_eqb (povr s1) OvrUnsafe) && iError i);
               [destruct (hook env) as [h|]; [apply Jscript_call; auto|]|]; apply Jnil_call; auto.
          -- rewrite (handleMethods_nsf_run verb s1 _ _ _ _ E1 (nb_nw _ _ N)) by assumption.
             rewrite (handleMethods_nsf_run verb s2 _ _ _ _ E2 Hw2) by assumption.
             rewrite <- (nb_err _ _ N), <- (nb_ovr _ _ N).
             destruct (erroring s1); [refine (conj eq_refl (conj N (conj S _))); apply seg_refl|].
             destruct (verb =? 119); [apply J_hm_bad; auto|].
             destruct (negb (ovr_eqb (povr s1) OvrUnsafe)); [apply Jnil_call; auto | refine (conj eq_refl (conj N (conj S _))); apply seg_refl].
        * (* SafeMessage *)
          rewrite (handleMethods_sm_run verb s1 _ _ _ _ _ E1 (nb_nw _ _ N)) by assumption.
          rewrite (handleMethods_sm_run verb s2 _ _ _ _ _ E2 Hw2) by assumption.
          rewrite <- (nb_err _ _ N), <- (nb_ovr _ _ N).
          destruct (erroring s1); [refine (conj eq_refl (conj N (conj S _))); apply seg_refl|].
          destruct (verb =? 119); [apply J_hm_bad; auto|].
          destruct (negb (ovr_eqb (povr s1) OvrUnsafe)); cbn [andb]; [|refine (conj eq_refl (conj N (conj S _))); apply seg_refl].
          destruct (isv verb "vsxXq") eqn:Ev; [apply Jsm_call; auto | refine (conj eq_refl (conj N (conj S _))); apply seg_refl].
      + assert (isuser a2 = false) as U2 by (rewrite <- (vrel_isuser _ _ Ha); exact U1).
        destruct (vrel_shape _ _ Ha) as [Sh1 Sh2].
        rewrite (handleMethods_run verb s1), (handleMethods_run verb s2), <- (nb_err _ _ N) by (rewrite ?E1, ?E2; auto).
        destruct (erroring s1); [refine (conj eq_refl (conj N (conj S _))); apply seg_refl|].
        destruct (verb =? 119); [|refine (conj eq_refl (conj N (conj S _))); apply seg_refl].
        apply J_hm_bad; auto.
    - rewrite (handleMethods_run verb s1), (handleMethods_run verb s2), <- (nb_err _ _ N) by (rewrite ?E1, ?E2; auto).
      destruct (erroring s1); [refine (conj eq_refl (conj N (conj S _))); apply seg_refl|].
      destruct (verb =? 119); [|refine (conj eq_refl (conj N (conj S _))); apply seg_refl].
      apply J_hm_bad; auto.
  Qed.

  (* ---------- the kind switch, on related leaves ---------- *)
  Lemma urel_of_lrel_int t1 u1 t2 u2 : lrel (VInt t1 u1) (VInt t2 u2) -> t1 = t2 /\ urel u1 u2.
  Proof. intros (_ & _ & [E | (_ & _ & -> & H)]); [injection E as -> ->; split; [reflexivity | now left] | split; [reflexivity | now right]]. Qed.
  Lemma urel_of_lrel_uint t1 u1 t2 u2 : lrel (VUint t1 u1) (VUint t2 u2) -> t1 = t2 /\ urel u1 u2.
  Proof. intros (_ & _ & [E | (_ & _ & -> & H)]); [injection E as -> ->; split; [reflexivity | now left] | split; [reflexivity | now right]]. Qed.
  Lemma strel_of_lrel t1 s1 t2 s2 : lrel (VStr t1 s1) (VStr t2 s2) -> t1 = t2 /\ strel s1 s2.
  Proof. intros (_ & _ & [E | (_ & _ & -> & H)]); [injection E as -> ->; split; [reflexivity | now left] | split; [reflexivity | now right]]. Qed.

  Lemma urel_pos u1 u2 : urel u1 u2 -> irel u1 u2 -> 0 <= u1 /\ 0 <= u2.
  Proof. intros _ (H1 & H2 & _). lia. Qed.

  (* the formatter chosen for a leaf *)
  Definition leaf_fmt (v : value) (verb : Z) : M unit :=
    match v with
    | VBool _ b => fmtBool rec b verb
    | VInt _ u => fmtInteger rec env u true verb
    | VUint _ u => fmtInteger rec env u false verb
    | VFloat _ size bits => fmtFloat rec env bits size verb
    | VStr _ s0 => fmtString rec env s0 verb
    | _ => ret tt
    end.

  Lemma Jleaf_fmt v1 v2 verb : lrel v1 v2 -> JS (HS (v1 = v2)) any (leaf_fmt v1 verb) (leaf_fmt v2 verb).
  Proof.
    intros Hl. pose proof Hl as (L1 & L2 & Hc).
    assert (forall v, leafish v = true -> J any (leaf_fmt v verb) (leaf_fmt v verb)) as Hrefl.
    { intros v Lv. destruct v; try discriminate; cbn [leaf_fmt].
      - now apply J_ret.
      - eapply JS_weaken; [|apply (JfmtBool b b)]. intros ? ? _ _. reflexivity.
      - eapply JS_weaken; [|apply (JfmtInteger u u true verb); [now left | apply urel_pos; now left]]. intros ? ? _ _. reflexivity.
      - eapply JS_weaken; [|apply (JfmtInteger u u false verb); [now left | apply urel_pos; now left]]. intros ? ? _ _. reflexivity.
      - eapply JS_weaken; [|apply (JfmtFloat bits bits size verb)]. intros ? ? _ _. reflexivity.
      - eapply JS_weaken; [|apply (JfmtString s s verb); now left]. intros ? ? _ _. reflexivity. }
    destruct Hc as [-> | (Hs & Hr & Hm)]; [apply J_JS, Hrefl, L1|].
    destruct v1, v2; try contradiction; cbn [leaf_fmt].
    - eapply JS_weaken; [|apply (JfmtBool b b0)]. intros ? ? H Ho. specialize (H Ho). now injection H.
    - destruct (urel_of_lrel_int _ _ _ _ Hl) as [_ Hu].
      eapply JS_weaken; [|apply (JfmtInteger u u0 true verb Hu (urel_pos _ _ Hu))]. intros ? ? H Ho. specialize (H Ho). now injection H.
    - destruct (urel_of_lrel_uint _ _ _ _ Hl) as [_ Hu].
      eapply JS_weaken; [|apply (JfmtInteger u u0 false verb Hu (urel_pos _ _ Hu))]. intros ? ? H Ho. specialize (H Ho). now injection H.
    - destruct Hm as [-> ->]. eapply JS_weaken; [|apply (JfmtFloat bits bits0 size0 verb)]. intros ? ? H Ho. specialize (H Ho). now injection H.
    - destruct (strel_of_lrel _ _ _ _ Hl) as [_ Hu].
      eapply JS_weaken; [|apply (JfmtString s s0 verb Hu)]. intros ? ? H Ho. specialize (H Ho). now injection H.
  Qed.

  Lemma print_kind_leaf fuel v verb depth ci : leafish v = true -> v <> VNil ->
    print_kind fuel rec env v verb depth ci = leaf_fmt v verb.
  Proof. intros L Hn. destruct v; try discriminate; try congruence; destruct fuel; reflexivity. Qed.

  Lemma lrel_nil_iff v1 v2 : lrel v1 v2 -> (v1 = VNil <-> v2 = VNil).
  Proof. intros (_ & _ & [-> | (_ & _ & H)]); [tauto|]. destruct v1, v2; try contradiction; split; discriminate. Qed.

  Lemma Jprint_kind_leaf fuel v1 v2 verb depth ci : lrel v1 v2 ->
    JS (HS (v1 = v2)) any (print_kind fuel rec env v1 verb depth ci) (print_kind fuel rec env v2 verb depth ci).
  Proof.
    intros Hl. destruct (value_eq_nil v1) as [-> | Hn1].
    - assert (v2 = VNil) as -> by (now apply (lrel_nil_iff _ _ Hl)). destruct fuel; cbn [print_kind]; apply J_JS, J_wstr.
    - assert (v2 <> VNil) as Hn2 by (intros E; apply Hn1; now apply (lrel_nil_iff _ _ Hl)).
      destruct Hl as (L1 & L2 & Hc) eqn:El. rewrite !print_kind_leaf by assumption. apply Jleaf_fmt. exact (conj L1 (conj L2 Hc)).
  Qed.

  (* ---------- containers: the same punctuation, related elements ---------- *)
  (* HS False: the override is not Safe (containers are never declared safe) *)

  Lemma Jelem e1 e2 verb depth ci : vrel e1 e2 ->
    JS (HS False) eq (rec (CPrintValue e1 verb depth ci)) (rec (CPrintValue e2 verb depth ci)).
  Proof.
    intros He. eapply JS_weaken; [|apply (Hrec (CPrintValue e1 verb depth ci) (CPrintValue e2 verb depth ci)); exact (conj eq_refl (conj eq_refl (conj eq_refl He)))].
    intros ? ? H Ho. destruct (H Ho).
  Qed.

  Lemma Jfor_elems (sep : M unit) verb depth ci : J any sep sep -> kovr sep ->
    forall es1 es2, Forall2 vrel es1 es2 -> forall first,
    JS (HS False) any (for_elems rec sep first es1 verb depth ci) (for_elems rec sep first es2 verb depth ci).
  Proof.
    intros Hsep Hks es1 es2 Hf. induction Hf as [|e1 e2 r1 r2 He Hr IH]; intros first; cbn [for_elems]; [apply J_JS; now apply J_ret|].
    eapply (JS_bind_k False any any); [| |intros _ _ _].
    - destruct first; apply J_JS; [now apply J_ret | exact Hsep].
    - destruct first; [apply kovr_ret | exact Hks].
    - eapply JS_bind_k; [eapply JS_weaken; [|apply (Jelem e1 e2 verb (S depth) ci He)]; intros ? ? H; exact H | apply Hkrec | intros _ _ _; apply IH].
  Qed.

  Lemma Jfor_kvs (sep : M unit) verb depth ci : J any sep sep -> kovr sep ->
    forall kvs1 kvs2, Forall2 (fun a b => fst a = fst b /\ leafish (fst a) = true /\ vrel (snd a) (snd b)) kvs1 kvs2 -> forall first,
    JS (HS False) any (for_kvs rec sep first kvs1 verb depth ci) (for_kvs rec sep first kvs2 verb depth ci).
  Proof.
    intros Hsep Hks kvs1 kvs2 Hf. induction Hf as [|[k1 x1] [k2 x2] r1 r2 (Ek & Lk & He) Hr IH]; intros first; cbn [for_kvs]; [apply J_JS; now apply J_ret|].
    cbn [fst snd] in *. subst k2.
    eapply (JS_bind_k False any any); [| |intros _ _ _].
    - destruct first; apply J_JS; [now apply J_ret | exact Hsep].
    - destruct first; [apply kovr_ret | exact Hks].
    - eapply JS_bind_k; [eapply JS_weaken; [|apply (Jelem k1 k1 verb (S depth) ci (vr_leaf _ _ (lrel_refl k1 Lk)))]; intros ? ? H; exact H | apply Hkrec | intros _ _ _].
      eapply JS_bind_k; [apply J_JS, J_wbyte | apply kovr_wbyte | intros _ _ _].
      eapply JS_bind_k; [eapply JS_weaken; [|apply (Jelem x1 x2 verb (S depth) ci He)]; intros ? ? H; exact H | apply Hkrec | intros _ _ _; apply IH].
  Qed.

  Lemma Jfor_fields (sep : M unit) names verb depth ci : J any sep sep -> kovr sep ->
    forall fs1 fs2, Forall2 (fun f1 f2 => fst f1 = fst f2 /\ vrel (snd f1) (snd f2)) fs1 fs2 -> forall first,
    JS (HS False) any (for_fields rec sep names first fs1 verb depth ci) (for_fields rec sep names first fs2 verb depth ci).
  Proof.
    intros Hsep Hks fs1 fs2 Hf. induction Hf as [|[[n1 x1] y1] [[n2 x2] y2] r1 r2 (En & He) Hr IH]; intros first; cbn [for_fields]; [apply J_JS; now apply J_ret|].
    cbn [fst snd] in *. injection En as <- <-.
    eapply (JS_bind_k False any any); [| |intros _ _ _].
    - destruct first; apply J_JS; [now apply J_ret | exact Hsep].
    - destruct first; [apply kovr_ret | exact Hks].
    - eapply (JS_bind_k False any any); [| |intros _ _ _].
      + destruct names; [|apply J_JS; now apply J_ret]. destruct n1; [apply J_JS; now apply J_ret|].
        apply J_JS. eapply (J_bind any any); [apply J_w1 | intros; apply J_wbyte].
      + destruct names; [|apply kovr_ret]. destruct n1; [apply kovr_ret|]. apply kovr_bind; [apply kovr_w1 | intros; apply kovr_wbyte].
      + eapply JS_bind_k; [eapply JS_weaken; [|apply (Jelem y1 y2 verb (S depth) (ci && x1) He)]; intros ? ? H; exact H | apply Hkrec | intros _ _ _; apply IH].
  Qed.

  Lemma J_sepSp : J any (f <- getf ;; if sharpV (fl f) then wstr ", " else wbyte 32) (f <- getf ;; if sharpV (fl f) then wstr ", " else wbyte 32).
  Proof. eapply J_bind; [apply J_getf | intros f ? <-]. destruct (sharpV (fl f)); [apply J_wstr | apply J_wbyte]. Qed.
  Lemma kovr_sepSp : kovr (f <- getf ;; if sharpV (fl f) then wstr ", " else wbyte 32).
  Proof. apply kovr_bind; [apply kovr_getf | intros f]. destruct (sharpV (fl f)); [apply kovr_wstr | apply kovr_wbyte]. Qed.

  (* a pointer: only its address (shared) and type are printed *)
  Lemma JfmtPointer_ptr t u e1 e2 verb : J any (fmtPointer rec env (VPtr t u e1) verb) (fmtPointer rec env (VPtr t u e2) verb).
  Proof.
    cbn [fmtPointer].
    assert (forall l, J any (fmt0x64 u l) (fmt0x64 u l)) as H0x
      by (intros l; eapply JS_weaken; [|apply (Jfmt0x64 u u l); now left]; intros ? ? _ _; reflexivity).
    destruct (verb =? 118).
    { eapply J_bind; [apply J_getf | intros f ? <-]. destruct (sharpV (fl f)).
      - eapply (J_bind any any); [apply J_wbyte | intros _ _ _]. eapply (J_bind any any); [apply J_w1 | intros _ _ _].
        eapply (J_bind any any); [apply J_wstr | intros _ _ _].
        eapply (J_bind any any); [destruct (u =? 0); [apply J_wstr | apply H0x] | intros _ _ _; apply J_wbyte].
      - destruct (u =? 0); [|apply H0x].
        eapply JS_weaken; [|apply (ubody_wr_rel (fun f0 => pad f0 (bs "<nil>")) (fun f0 => pad f0 (bs "<nil>")))];
          [intros; intro; reflexivity | intros f0; apply usegw_refl]. }
    destruct (verb =? 112); [eapply J_bind; [apply J_getf | intros f ? <-; apply H0x]|].
    destruct (isv verb "bodxX"); [|apply J_badverb_call].
    eapply JS_weaken; [|apply (JfmtInteger u u false verb); [now left | intros (? & ? & ?); lia]]. intros ? ? _ _. reflexivity.
  Qed.

  Lemma vrel_composite a b : vrel a b -> elem_kind_composite a = elem_kind_composite b.
  Proof. intros H. inversion H; subst; try reflexivity. destruct H0 as (L1 & L2 & _). destruct a, b; try discriminate; reflexivity. Qed.

  (* ---------- byte slices and arrays ---------- *)
  Lemma brel_urel c1 c2 : brel c1 c2 -> urel (Z.of_N c1) (Z.of_N c2).
  Proof.
    intros [-> | (A & B & C & D & E & F)]; [now left|]. right. unfold irel, two64, LF in *.
    assert (Z.of_N c1 < 128 /\ Z.of_N c2 < 128) as [? ?] by (split; apply N2Z.inj_lt in A; apply N2Z.inj_lt in B; cbn in *; lia).
    assert (Z.of_N c1 <> 0 /\ Z.of_N c2 <> 0 /\ Z.of_N c1 <> 10 /\ Z.of_N c2 <> 10) as (? & ? & ? & ?).
    { repeat split; intros X; [apply E | apply F | apply C | apply D]; apply N2Z.inj; exact X. }
    pose proof (N2Z.is_nonneg c1). pose proof (N2Z.is_nonneg c2). lia.
  Qed.

  Lemma Jbytes_plain verb : forall v1 v2, Forall2 brel v1 v2 -> forall first,
    JS (HS False) any (bytes_plain first verb v1) (bytes_plain first verb v2).
  Proof.
    induction 1 as [|c1 c2 r1 r2 Hc Hr IH]; intros first; cbn [bytes_plain]; [apply J_JS; now apply J_ret|].
    eapply (JS_bind_k False any any); [| |intros _ _ _].
    - destruct first; apply J_JS; [now apply J_ret | apply J_wbyte].
    - destruct first; [apply kovr_ret | apply kovr_wbyte].
    - eapply (JS_bind_k False any any); [| apply kovr_keeps, keeps_bracket, start_ok_unsafe | intros _ _ _; apply IH].
      eapply JS_weaken; [|apply (ubody_wr_rel (fun f => fmt_integer f (Z.of_N c1) 10 false verb false) (fun f => fmt_integer f (Z.of_N c2) 10 false verb false))].
      + intros ? ? Hx Ho. destruct (Hx Ho).
      + intros f. apply fmt_integer_urel; [right; right; left; reflexivity | now apply brel_urel].
  Qed.

  Lemma Jbytes_sharp : forall v1 v2, Forall2 brel v1 v2 -> forall first,
    JS (HS False) any (bytes_sharp first v1) (bytes_sharp first v2).
  Proof.
    induction 1 as [|c1 c2 r1 r2 Hc Hr IH]; intros first; cbn [bytes_sharp]; [apply J_JS; now apply J_ret|].
    eapply (JS_bind_k False any any); [| |intros _ _ _].
    - destruct first; apply J_JS; [now apply J_ret | apply J_wstr].
    - destruct first; [apply kovr_ret | apply kovr_wstr].
    - eapply (JS_bind_k False any any); [| apply kovr_keeps, keeps_fmt0x64 | intros _ _ _; apply IH].
      eapply JS_weaken; [|apply (Jfmt0x64 (Z.of_N c1) (Z.of_N c2) true); now apply brel_urel]. intros ? ? Hx Ho. destruct (Hx Ho).
  Qed.

  Lemma JfmtBytes self1 self2 v1 v2 isnil verb ts : vrel self1 self2 -> Forall2 brel v1 v2 ->
    JS (HS False) any (fmtBytes rec env self1 v1 isnil verb ts) (fmtBytes rec env self2 v2 isnil verb ts).
  Proof.
    intros Hself Hb. pose proof (brel_srel _ _ Hb) as Hs. unfold fmtBytes.
    assert (forall g1 g2 : fst_ -> list wop, (forall f, usegw (g1 f) (g2 f)) ->
              JS (HS False) any (bracket start_unsafe (f <- getf ;; wr (g1 f))) (bracket start_unsafe (f <- getf ;; wr (g2 f)))) as Hw.
    { intros g1 g2 Hg. eapply JS_weaken; [|apply (ubody_wr_rel g1 g2 Hg)]. intros ? ? Hx Ho. destruct (Hx Ho). }
    destruct (isv verb "vd").
    { eapply JS_bind_k; [apply J_JS, J_getf | apply kovr_getf | intros f ? <-].
      destruct (sharpV (fl f)).
      - eapply (JS_bind_k False any any); [apply J_JS, J_w1 | apply kovr_w1 | intros _ _ _].
        destruct isnil; [apply J_JS, J_wstr|].
        eapply (JS_bind_k False any any); [apply J_JS, J_wbyte | apply kovr_wbyte | intros _ _ _].
        eapply JS_bind; [now apply Jbytes_sharp | intros; apply J_wbyte].
      - eapply (JS_bind_k False any any); [apply J_JS, J_wbyte | apply kovr_wbyte | intros _ _ _].
        eapply JS_bind; [now apply Jbytes_plain | intros; apply J_wbyte]. }
    destruct (verb =? 115); [apply Hw; intros f; now apply fmt_s_rel|].
    destruct (verb =? 120); [apply Hw; intros f; apply fmt_sbx_rel, srel_length, Hs|].
    destruct (verb =? 88); [apply Hw; intros f; apply fmt_sbx_rel, srel_length, Hs|].
    destruct (verb =? 113).
    { eapply JS_weaken; [|apply (ubody_opt_rel (fun f => fmt_q (orc env) f v1) (fun f => fmt_q (orc env) f v2))].
      - intros ? ? Hx Ho. destruct (Hx Ho).
      - intros f w1 w2 E1 E2. eapply fmt_q_rel; eassumption. }
    eapply JS_bind; [|intros; now apply J_ret].
    eapply JS_weaken; [|apply (Hrec (CPrintValue self1 verb 0%nat true) (CPrintValue self2 verb 0%nat true)); exact (conj eq_refl (conj eq_refl (conj eq_refl Hself)))].
    intros ? ? Hx Ho. destruct (Hx Ho).
  Qed.

  Lemma bytes_elems s1 s2 : Forall2 brel s1 s2 ->
    Forall2 vrel (map (fun c => VUint t_uint8 (Z.of_N c)) s1) (map (fun c => VUint t_uint8 (Z.of_N c)) s2).
  Proof.
    induction 1 as [|c1 c2 r1 r2 Hc Hr IH]; cbn [map]; constructor; [|exact IH].
    apply vr_leaf. split; [reflexivity|]. split; [reflexivity|].
    destruct (brel_urel _ _ Hc) as [E | Hi]; [left; now rewrite E|].
    right. split; [reflexivity|]. split; [reflexivity|]. split; [reflexivity | exact Hi].
  Qed.

  Ltac seqk := eapply JS_bind_k; [ | | intros _ _ _].

  Lemma Jprint_kind_nu fuel v1 v2 verb depth ci : vrel v1 v2 -> isuser v1 = false ->
    JS (HS (v1 = v2 /\ lfs v1 = true)) any (print_kind fuel rec env v1 verb depth ci) (print_kind fuel rec env v2 verb depth ci).
  Proof.
    intros Hv Hnu.
    assert (lfs v1 = false -> JS (HS False) any (print_kind fuel rec env v1 verb depth ci) (print_kind fuel rec env v2 verb depth ci) ->
            JS (HS (v1 = v2 /\ lfs v1 = true)) any (print_kind fuel rec env v1 verb depth ci) (print_kind fuel rec env v2 verb depth ci)) as Hcont.
    { intros L Hj. eapply JS_weaken; [|exact Hj]. intros ? ? Hx Ho. destruct (Hx Ho) as [_ L']. congruence. }
    inversion Hv; subst.
    - eapply JS_weaken; [|now apply Jprint_kind_leaf]. intros ? ? Hx Ho. exact (proj1 (Hx Ho)).
    - (* slice *) apply Hcont; [reflexivity|]. destruct fuel; cbn [print_kind];
        (eapply JS_bind_k; [apply J_JS, J_getf | apply kovr_getf | intros f ? <-]; destruct (sharpV (fl f));
         [ eapply JS_bind_k; [apply J_JS, J_w1 | apply kovr_w1 | intros _ _ _]; destruct n; [apply J_JS, J_wstr|];
           eapply JS_bind_k; [apply J_JS, J_wbyte | apply kovr_wbyte | intros _ _ _];
           eapply JS_bind; [apply Jfor_elems; [apply J_wstr | apply kovr_wstr | assumption] | intros; apply J_wbyte]
         | eapply JS_bind_k; [apply J_JS, J_wbyte | apply kovr_wbyte | intros _ _ _];
           eapply JS_bind; [apply Jfor_elems; [apply J_wbyte | apply kovr_wbyte | assumption] | intros; apply J_wbyte] ]).
    - (* array *) apply Hcont; [reflexivity|]. destruct fuel; cbn [print_kind];
        (eapply JS_bind_k; [apply J_JS, J_getf | apply kovr_getf | intros f ? <-]; destruct (sharpV (fl f));
         [ eapply JS_bind_k; [apply J_JS, J_w1 | apply kovr_w1 | intros _ _ _];
           eapply JS_bind_k; [apply J_JS, J_wbyte | apply kovr_wbyte | intros _ _ _];
           eapply JS_bind; [apply Jfor_elems; [apply J_wstr | apply kovr_wstr | assumption] | intros; apply J_wbyte]
         | eapply JS_bind_k; [apply J_JS, J_wbyte | apply kovr_wbyte | intros _ _ _];
           eapply JS_bind; [apply Jfor_elems; [apply J_wbyte | apply kovr_wbyte | assumption] | intros; apply J_wbyte] ]).
    - (* struct *) apply Hcont; [reflexivity|]. destruct fuel; cbn [print_kind];
        (eapply JS_bind_k; [apply J_JS, J_getf | apply kovr_getf | intros f ? <-];
         eapply JS_bind_k; [destruct (sharpV (fl f)); apply J_JS; [apply J_w1 | now apply J_ret] | destruct (sharpV (fl f)); [apply kovr_w1 | apply kovr_ret] | intros _ _ _];
         eapply JS_bind_k; [apply J_JS, J_wbyte | apply kovr_wbyte | intros _ _ _];
         eapply JS_bind; [apply Jfor_fields; [apply J_sepSp | apply kovr_sepSp | assumption] | intros; apply J_wbyte]).
    - (* map *) apply Hcont; [reflexivity|]. destruct fuel; cbn [print_kind];
        (eapply JS_bind_k; [apply J_JS, J_getf | apply kovr_getf | intros f ? <-]; destruct (sharpV (fl f));
         [ eapply JS_bind_k; [apply J_JS, J_w1 | apply kovr_w1 | intros _ _ _]; destruct n; [apply J_JS, J_wstr|];
           eapply JS_bind_k; [apply J_JS, J_wbyte | apply kovr_wbyte | intros _ _ _];
           eapply JS_bind; [apply Jfor_kvs; [apply J_sepSp | apply kovr_sepSp | assumption] | intros; apply J_wbyte]
         | eapply JS_bind_k; [apply J_JS, J_wstr | apply kovr_wstr | intros _ _ _];
           eapply JS_bind; [apply Jfor_kvs; [apply J_sepSp | apply kovr_sepSp | assumption] | intros; apply J_wbyte] ]).
    - (* byte slice / array *) apply Hcont; [reflexivity|].
      assert (JS (HS False) any
                (if isv verb "sqxX" then fmtBytes rec env (VBytes t n s1) s1 n verb (tname t)
                 else f <- getf ;;
                      let es := map (fun c => VUint t_uint8 (Z.of_N c)) s1 in
                      if sharpV (fl f) then w1 (WS (tname t)) ;;; (if n then wstr "(nil)" else wbyte 123 ;;; for_elems rec (wstr ", ") true es verb depth ci ;;; wbyte 125)
                      else wbyte 91 ;;; for_elems rec (wbyte 32) true es verb depth ci ;;; wbyte 93)
                (if isv verb "sqxX" then fmtBytes rec env (VBytes t n s2) s2 n verb (tname t)
                 else f <- getf ;;
                      let es := map (fun c => VUint t_uint8 (Z.of_N c)) s2 in
                      if sharpV (fl f) then w1 (WS (tname t)) ;;; (if n then wstr "(nil)" else wbyte 123 ;;; for_elems rec (wstr ", ") true es verb depth ci ;;; wbyte 125)
                      else wbyte 91 ;;; for_elems rec (wbyte 32) true es verb depth ci ;;; wbyte 93)) as Hk.
      { destruct (isv verb "sqxX"); [now apply JfmtBytes|].
        eapply JS_bind_k; [apply J_JS, J_getf | apply kovr_getf | intros f ? <-]. cbv zeta.
        pose proof (bytes_elems _ _ H1) as He.
        destruct (sharpV (fl f)).
        - eapply JS_bind_k; [apply J_JS, J_w1 | apply kovr_w1 | intros _ _ _]. destruct n; [apply J_JS, J_wstr|].
          eapply JS_bind_k; [apply J_JS, J_wbyte | apply kovr_wbyte | intros _ _ _].
          eapply JS_bind; [apply Jfor_elems; [apply J_wstr | apply kovr_wstr | exact He] | intros; apply J_wbyte].
        - eapply JS_bind_k; [apply J_JS, J_wbyte | apply kovr_wbyte | intros _ _ _].
          eapply JS_bind; [apply Jfor_elems; [apply J_wbyte | apply kovr_wbyte | exact He] | intros; apply J_wbyte]. }
      destruct fuel; cbn [print_kind]; exact Hk.
    - (* nil interface *) apply Hcont; [reflexivity|]. destruct fuel; cbn [print_kind];
        (apply J_JS; eapply J_bind; [apply J_getf | intros f ? <-]; destruct (sharpV (fl f)); [eapply J_bind; [apply J_w1 | intros; apply J_wstr] | apply J_wstr]).
    - (* interface *) destruct fuel; cbn [print_kind];
        (eapply JS_bind; [|intros; now apply J_ret];
         eapply JS_weaken; [|apply (Hrec (CPrintValue a verb (S depth) ci) (CPrintValue b verb (S depth) ci)); exact (conj eq_refl (conj eq_refl (conj eq_refl H)))];
         intros ? ? Hx Ho; destruct (Hx Ho) as [Ex Lx]; injection Ex as <-; cbn [cP];
         split; [reflexivity|]; unfold lfs in Lx; cbn [leafish orb] in Lx; now apply lfs_leaf).
    - (* nil pointer *) apply Hcont; [reflexivity|]. apply J_JS. destruct fuel; cbn [print_kind]; destruct depth; apply JfmtPointer_ptr.
    - (* pointer *) apply Hcont; [reflexivity|]. pose proof (vrel_composite _ _ H1) as Ec.
      destruct fuel; cbn [print_kind]; (destruct depth; [|apply J_JS, JfmtPointer_ptr]); rewrite <- Ec;
        (destruct (negb (u =? 0) && elem_kind_composite a); [|apply J_JS, JfmtPointer_ptr]);
        (eapply JS_bind_k; [apply J_JS, J_wbyte | apply kovr_wbyte | intros _ _ _];
         eapply JS_bind; [apply Jelem; assumption | intros; now apply J_ret]).
    - discriminate.
    - discriminate.
    - discriminate.
    - discriminate.
    - discriminate.
    - discriminate.
    - discriminate.
  Qed.

  (* a user value no method took: reflection prints its representation *)
  Lemma Jprint_kind fuel : forall v1 v2 verb depth ci, vrel v1 v2 ->
    JS (HS (v1 = v2 /\ lfs v1 = true)) any (print_kind fuel rec env v1 verb depth ci) (print_kind fuel rec env v2 verb depth ci).
  Proof.
    induction fuel as [|k IHf]; intros v1 v2 verb depth ci Hv; (destruct (isuser v1) eqn:U; [|now apply Jprint_kind_nu]).
    - inversion Hv; subst; try discriminate; [destruct H as (L1 & _); destruct v1; discriminate| | | | | | |];
        cbn [print_kind]; intros ? ? _ _ _; exact Logic.I.
    - inversion Hv; subst; try discriminate; [destruct H as (L1 & _); destruct v1; discriminate| | | | | | |];
        cbn [print_kind]; (eapply JS_weaken; [|apply IHf; eassumption]); intros ? ? Hx Ho; destruct (Hx Ho) as [_ Lx]; discriminate.
  Qed.

  (* ---------- printValue at depth 0, printArg ---------- *)
  Lemma JS_modify (H : pst -> pst -> Prop) (f g : pst -> pst) :
    (forall s1 s2, NB s1 s2 -> SE s1 s2 -> H s1 s2 -> NB (f s1) (g s2) /\ SE (f s1) (g s2)) ->
    (forall s, pl (f s) = pl s) -> (forall s, pl (g s) = pl s) ->
    JS H any (modify f) (modify g).
  Proof.
    intros Hr Hf Hg s1 s2 N S Hs. unfold modify. destruct (Hr s1 s2 N S Hs) as [N' S'].
    refine (conj Logic.I (conj N' (conj S' _))). exists [], []. rewrite Hf, Hg. split; [reflexivity|]. split; [reflexivity|]. constructor.
  Qed.

  Lemma kovr_modify f : (forall s, povr (f s) = povr s) -> kovr (modify f).
  Proof. intros H s. apply H. Qed.

  (* what printArg does after recording the operand *)
  Definition pa_rest (arg : value) (verb : Z) : M unit :=
        match arg with
        | VNil =>
          if isv verb "Tv" then f <- getf ;; wr (pad f (bs "<nil>"))
          else rec (CBadVerb verb) ;;; ret tt
        | _ =>
          if verb =? 84 then f <- getf ;; wr (fmt_s f (type_name arg))
          else if verb =? 112 then fmtPointer rec env arg 112
          else
            match arg with
            | VRS s0 | VRB s0 => bracket start_prered (w1 (WS s0))
            | _ =>
              if is_basic arg then
                match arg with
                | VBool _ b => fmtBool rec b verb
                | VInt _ u => fmtInteger rec env u true verb
                | VUint _ u => fmtInteger rec env u false verb
                | VFloat _ size bits => fmtFloat rec env bits size verb
                | VStr _ s0 => fmtString rec env s0 verb
                | VBytes t isnil s0 => fmtBytes rec env arg s0 isnil verb (bs "[]byte")
                | _ => ret tt
                end
              else
                h <- rec (CHandleMethods verb) ;;
                if rbool h then ret tt
                else rec (CPrintValue arg verb 0%nat true) ;;; ret tt
            end
        end.

  Lemma printArg_inner_unfold arg verb :
    printArg_inner rec env arg verb =
    (modify (fun s => set_val (set_arg s (match arg with VNil => None | _ => Some arg end)) None) ;;; pa_rest arg verb).
  Proof. reflexivity. Qed.

  Lemma Jpa_rest_leaf v1 v2 verb : lrel v1 v2 -> JS (HS (v1 = v2 /\ lfs v1 = true)) any (pa_rest v1 verb) (pa_rest v2 verb).
  Proof.
    intros Hl. pose proof Hl as (L1 & L2 & _). destruct (lrel_tinfo _ _ Hl) as (_ & Etn & _ & _ & Eb & _).
    destruct (value_eq_nil v1) as [-> | Hn1].
    - assert (v2 = VNil) as -> by (now apply (lrel_nil_iff _ _ Hl)). cbn [pa_rest].
      destruct (isv verb "Tv"); [|apply J_JS, J_badverb_call].
      apply J_JS. eapply J_bind; [apply J_getf | intros f ? <-; apply J_wr].
    - assert (v2 <> VNil) as Hn2 by (intros E; apply Hn1; now apply (lrel_nil_iff _ _ Hl)).
      assert (pa_rest v1 verb = if verb =? 84 then f <- getf ;; wr (fmt_s f (type_name v1))
                                else if verb =? 112 then rec (CBadVerb 112) ;;; ret tt
                                else if is_basic v1 then leaf_fmt v1 verb
                                else (h <- rec (CHandleMethods verb) ;; if rbool h then ret tt else rec (CPrintValue v1 verb 0%nat true) ;;; ret tt)) as ->
        by (destruct v1; try discriminate; try congruence; reflexivity).
      assert (pa_rest v2 verb = if verb =? 84 then f <- getf ;; wr (fmt_s f (type_name v2))
                                else if verb =? 112 then rec (CBadVerb 112) ;;; ret tt
                                else if is_basic v2 then leaf_fmt v2 verb
                                else (h <- rec (CHandleMethods verb) ;; if rbool h then ret tt else rec (CPrintValue v2 verb 0%nat true) ;;; ret tt)) as ->
        by (destruct v2; try discriminate; try congruence; reflexivity).
      rewrite <- Etn, <- Eb.
      destruct (verb =? 84); [apply J_JS; eapply J_bind; [apply J_getf | intros f ? <-; apply J_wr]|].
      destruct (verb =? 112); [apply J_JS, J_badverb_call|].
      destruct (is_basic v1); [eapply JS_weaken; [|now apply Jleaf_fmt]; intros ? ? Hx Ho; exact (proj1 (Hx Ho))|].
      eapply JS_bind_k; [| apply Hkrec |].
      + eapply JS_weaken; [|apply (Hrec (CHandleMethods verb) (CHandleMethods verb)); reflexivity]. intros ? ? _ _. exact Logic.I.
      + intros h ? <-. destruct (rbool h); [apply J_JS; now apply J_ret|].
        eapply JS_bind; [|intros; now apply J_ret].
        eapply JS_weaken; [|apply (Hrec (CPrintValue v1 verb 0%nat true) (CPrintValue v2 verb 0%nat true)); exact (conj eq_refl (conj eq_refl (conj eq_refl (vr_leaf _ _ Hl))))].
        intros ? ? H. exact H.
  Qed.


  Lemma JfmtPointer_user t i nr r1 r2 sc1 sc2 : vrel r1 r2 ->
    J any (fmtPointer rec env (VUser t i nr r1 sc1) 112) (fmtPointer rec env (VUser t i nr r2 sc2) 112).
  Proof.
    intros H. inversion H; subst; cbn [fmtPointer]; try apply J_badverb_call; try (intros ? ? _ _ _; exact Logic.I).
    destruct H0 as (L1 & L2 & _). destruct r1, r2; try discriminate; apply J_badverb_call.
  Qed.

  Lemma Jpa_rest v1 v2 verb : vrel v1 v2 -> JS (HS (v1 = v2 /\ lfs v1 = true)) any (pa_rest v1 verb) (pa_rest v2 verb).
  Proof.
    intros Hv. destruct (Bool.bool_dec (leafish v1) true) as [L1|L1]; [apply Jpa_rest_leaf; now apply vrel_leaf_inv|].
    apply Bool.not_true_is_false in L1.
    destruct (vrel_tinfo _ _ Hv) as (_ & Etn & _).
    destruct (isbytes v1) eqn:Eb.
    { (* a byte slice / array *)
      inversion Hv; subst; try discriminate; [destruct H as (Lx & _); destruct v1; discriminate|].
      eapply JS_weaken with (H := HS False); [intros ? ? Hx Ho; destruct (Hx Ho) as [_ Lx]; discriminate|].
      cbn [pa_rest type_name].
      destruct (verb =? 84); [apply J_JS; eapply J_bind; [apply J_getf | intros f ? <-; apply J_wr]|].
      destruct (verb =? 112); [intros ? ? _ _ _; exact Logic.I|].
      cbn [is_basic]. destruct (existsb (beq (tname t)) basic_names); [now apply JfmtBytes|].
      eapply JS_bind_k; [| apply Hkrec |].
      - eapply JS_weaken; [|apply (Hrec (CHandleMethods verb) (CHandleMethods verb)); reflexivity]. intros ? ? _ _. exact Logic.I.
      - intros h ? <-. destruct (rbool h); [apply J_JS; now apply J_ret|].
        eapply JS_bind; [|intros; now apply J_ret]. now apply Jelem. }
    assert (forall v, vshape v = true -> leafish v = false -> isbytes v = false ->
              pa_rest v verb = if verb =? 84 then f <- getf ;; wr (fmt_s f (type_name v))
                               else if verb =? 112 then fmtPointer rec env v 112
                               else (h <- rec (CHandleMethods verb) ;; if rbool h then ret tt else rec (CPrintValue v verb 0%nat true) ;;; ret tt)) as Hu
      by (intros v Sv Lv Bv; destruct v; try discriminate; reflexivity).
    pose proof (vrel_shape _ _ Hv) as [S1 S2]. pose proof (vrel_leafish _ _ Hv) as EL. rewrite L1 in EL. symmetry in EL.
    assert (isbytes v2 = false) as Eb2.
    { inversion Hv; subst; try reflexivity; try discriminate. destruct H as (_ & Lx & _). destruct v2; try discriminate; reflexivity. }
    rewrite (Hu v1 S1 L1 Eb), (Hu v2 S2 EL Eb2), <- Etn.
    destruct (verb =? 84); [apply J_JS; eapply J_bind; [apply J_getf | intros f ? <-; apply J_wr]|].
    destruct (verb =? 112).
    { apply J_JS. inversion Hv; subst; try discriminate;
        try (match goal with Hx : lrel _ _ |- _ => destruct Hx as (Lx & _); congruence end);
        try (apply JfmtPointer_ptr); try (apply JfmtPointer_user; assumption); cbn [fmtPointer];
        try (apply J_badverb_call); intros ? ? _ _ _; exact Logic.I. }
    eapply JS_bind_k; [| apply Hkrec |].
    - eapply JS_weaken; [|apply (Hrec (CHandleMethods verb) (CHandleMethods verb)); reflexivity]. intros ? ? _ _. exact Logic.I.
    - intros h ? <-. destruct (rbool h); [apply J_JS; now apply J_ret|].
      eapply JS_bind; [|intros; now apply J_ret].
      eapply JS_weaken; [|apply (Hrec (CPrintValue v1 verb 0%nat true) (CPrintValue v2 verb 0%nat true)); exact (conj eq_refl (conj eq_refl (conj eq_refl Hv)))].
      intros ? ? Hx. exact Hx.
  Qed.

  (* the judgement without the premise SE: for code that records its operand before reading the state *)
  Definition JS0 (H : pst -> pst -> Prop) {A} (RA : A -> A -> Prop) (m1 m2 : M A) : Prop :=
    forall s1 s2, NB s1 s2 -> H s1 s2 ->
      match m1 s1, m2 s2 with
      | (ROk a1, s1'), (ROk a2, s2') => RA a1 a2 /\ NB s1' s2' /\ SE s1' s2' /\ seg s1 s1' s2 s2'
      | (RPanic v1, s1'), (RPanic v2, s2') => arel v1 v2 /\ NB s1' s2' /\ SE s1' s2' /\ seg s1 s1' s2 s2'
      | (RFuel, _), _ | (RMiss _, _), _ | _, (RFuel, _) | _, (RMiss _, _) => True
      | _, _ => False
      end.

  Lemma JS0_JS (H : pst -> pst -> Prop) {A} (RA : A -> A -> Prop) m1 m2 : JS0 H RA m1 m2 -> JS H RA m1 m2.
  Proof. intros Hj s1 s2 N _ Hs. now apply Hj. Qed.
  Lemma JS0_weaken (H H' : pst -> pst -> Prop) {A} (RA : A -> A -> Prop) m1 m2 :
    (forall s1 s2, H' s1 s2 -> H s1 s2) -> JS0 H RA m1 m2 -> JS0 H' RA m1 m2.
  Proof. intros Hi Hj s1 s2 N Hs. apply Hj; auto. Qed.

  Lemma seg_same_pl s1 s1' s2 s2' x y : pl s1' = pl s1 -> pl s2' = pl s2 -> seg s1' x s2' y -> seg s1 x s2 y.
  Proof. intros E1 E2 (d1 & d2 & A & B & C). exists d1, d2. rewrite <- E1, <- E2. auto. Qed.

  Lemma vrel_nil_iff v1 v2 : vrel v1 v2 -> (v1 = VNil <-> v2 = VNil).
  Proof. intros H. inversion H; subst; try (split; discriminate). now apply lrel_nil_iff. Qed.

  Lemma JprintArg_inner v1 v2 verb : vrel v1 v2 ->
    JS0 (HS (v1 = v2 /\ lfs v1 = true)) any (printArg_inner rec env v1 verb) (printArg_inner rec env v2 verb).
  Proof.
    intros Hl s1 s2 N Hs. rewrite !printArg_inner_unfold. rewrite !bindm.
    set (a1 := set_val (set_arg s1 (match v1 with VNil => None | _ => Some v1 end)) None).
    set (a2 := set_val (set_arg s2 (match v2 with VNil => None | _ => Some v2 end)) None).
    assert (NB a1 a2) as N'.
    { unfold a1, a2. destruct N. destruct s1, s2; constructor; cbn in *; auto.
      destruct (value_eq_nil v1) as [-> | Hn1].
      - assert (v2 = VNil) as -> by (now apply (vrel_nil_iff _ _ Hl)). exact Logic.I.
      - assert (v2 <> VNil) as Hn2 by (intros E; apply Hn1; now apply (vrel_nil_iff _ _ Hl)).
        destruct v1, v2; try congruence; exact Hl. }
    assert (SE a1 a2) as S'.
    { unfold SE, a1, a2. destruct s1, s2; cbn in *. intros Ho. destruct (Hs Ho) as [<- Lf].
      split; [reflexivity|]. split; [destruct v1; first [exact Logic.I | exact Lf]|]. intros _. split; [reflexivity | exact Logic.I]. }
    assert (HS (v1 = v2 /\ lfs v1 = true) a1 a2) as Hs' by (unfold HS, a1 in *; destruct s1; exact Hs).
    pose proof (Jpa_rest v1 v2 verb Hl a1 a2 N' S' Hs') as R.
    destruct (pa_rest v1 verb a1) as [[u1|?| |?] x], (pa_rest v2 verb a2) as [[u2|?| |?] y]; try (exact Logic.I || contradiction || (exfalso; assumption) || assumption).
    all: destruct R as (Rx & Nx & Sx & Gx); refine (conj Rx (conj Nx (conj Sx _)));
      apply (seg_same_pl s1 a1 s2 a2); [unfold a1; destruct s1; reflexivity | unfold a2; destruct s2; reflexivity | exact Gx].
  Qed.

  Lemma Jbracket_safe (b1 b2 : M unit) : kovr b1 ->
    JS0 (fun _ _ => True) any b1 b2 -> JS0 (fun _ _ => True) any (bracket start_safe_ovr b1) (bracket start_safe_ovr b2).
  Proof.
    intros Hk Hb s1 s2 N _. rewrite !bracket_safe_run. cbn zeta.
    pose proof (nb_ovr _ _ N) as Eo. rewrite <- Eo, <- (nb_mode _ _ N).
    set (a1 := if ovr_eqb (povr s1) NoOvr then set_ovr (set_pl s1 (lset (pl s1) (OMode MSafe))) OvrSafe else s1).
    set (a2 := if ovr_eqb (povr s1) NoOvr then set_ovr (set_pl s2 (lset (pl s2) (OMode MSafe))) OvrSafe else s2).
    assert (NB a1 a2 /\ (povr s1 <> OvrUnsafe -> povr a1 = OvrSafe) /\ seg s1 a1 s2 a2) as (Na & Oa & Ga).
    { unfold a1, a2. destruct (ovr_eqb (povr s1) NoOvr) eqn:Ev.
      - split; [|split].
        + apply NB_set_ovr; [|].
          * apply NB_set_pl; [exact N | now rewrite !lmode_setmode | intros _; rewrite lmode_setmode; discriminate].
          * intros _. rewrite pl_set_pl, lmode_setmode. discriminate.
        + intros _. destruct s1; reflexivity.
        + exists [OMode MSafe], [OMode MSafe].
          assert (forall s l o, pl (set_ovr (set_pl s l) o) = l) as Hp by (intros [] ? ?; reflexivity).
          rewrite !Hp, !rlog_lset. split; [reflexivity|]. split; [reflexivity|]. cbn [rev app]. rewrite lmode_setmode. apply ds_mode. constructor.
      - split; [exact N|]. split; [|apply seg_refl].
        intros Hnu. destruct (povr s1); try discriminate; congruence. }
    specialize (Hb a1 a2 Na Logic.I). pose proof (Hk a1) as Ek.
    destruct (b1 a1) as [[u1|?| |?] x], (b2 a2) as [[u2|?| |?] y]; try (exact Logic.I || contradiction || (exfalso; assumption) || assumption).
    all: destruct Hb as (Rx & Nx & Sx & Gx); cbn [snd] in Ek.
    all: assert (forall s l o, pl (set_ovr (set_pl s l) o) = l) as Hp by (intros [] ? ?; reflexivity).
    all: refine (conj Rx (conj _ (conj _ _))).
    1,4: (apply NB_set_pl_ovr; [exact Nx | now rewrite !lmode_setmode |]; intros Ho; rewrite lmode_setmode; now apply N).
    1,3: (unfold SE; assert (forall s l o, parg (set_ovr (set_pl s l) o) = parg s /\ pval (set_ovr (set_pl s l) o) = pval s /\ povr (set_ovr (set_pl s l) o) = o) as Hf by (intros [] ? ?; auto);
      destruct (Hf x (lset (pl x) (OMode (lmode (pl s1)))) (povr s1)) as (-> & -> & ->);
      destruct (Hf y (lset (pl y) (OMode (lmode (pl s1)))) (povr s1)) as (-> & -> & _);
      intros Ho; apply Sx; rewrite Ek; apply Oa; rewrite Ho; discriminate).
    all: (eapply seg_trans; [exact Ga|]; eapply seg_trans; [exact Gx|];
      exists [OMode (lmode (pl s1))], [OMode (lmode (pl s1))]; rewrite !Hp, !rlog_lset; split; [reflexivity|]; split; [reflexivity|];
      cbn [rev app]; rewrite lmode_setmode; apply ds_mode; constructor).
  Qed.

  (* the same around a body that reads the state first: the operand was recorded just before *)
  Definition SEu (s1 s2 : pst) : Prop :=
    parg s1 = parg s2 /\ leaf_opt (parg s1) /\
    (parg s1 = None -> pval s1 = pval s2 /\ leaf_opt (option_map fst (pval s1))).

  Lemma Jbracket_safe2 (b1 b2 : M unit) : kovr b1 ->
    J any b1 b2 -> JS0 SEu any (bracket start_safe_ovr b1) (bracket start_safe_ovr b2).
  Proof.
    intros Hk Hb s1 s2 N Hu. rewrite !bracket_safe_run. cbn zeta.
    pose proof (nb_ovr _ _ N) as Eo. rewrite <- Eo, <- (nb_mode _ _ N).
    set (a1 := if ovr_eqb (povr s1) NoOvr then set_ovr (set_pl s1 (lset (pl s1) (OMode MSafe))) OvrSafe else s1).
    set (a2 := if ovr_eqb (povr s1) NoOvr then set_ovr (set_pl s2 (lset (pl s2) (OMode MSafe))) OvrSafe else s2).
    assert (NB a1 a2 /\ (povr s1 <> OvrUnsafe -> povr a1 = OvrSafe) /\ seg s1 a1 s2 a2 /\ SE a1 a2) as (Na & Oa & Ga & Sa).
    { unfold a1, a2. destruct (ovr_eqb (povr s1) NoOvr) eqn:Ev.
      - split; [|split; [|split]].
        + apply NB_set_ovr; [|].
          * apply NB_set_pl; [exact N | now rewrite !lmode_setmode | intros _; rewrite lmode_setmode; discriminate].
          * intros _. rewrite pl_set_pl, lmode_setmode. discriminate.
        + intros _. destruct s1; reflexivity.
        + exists [OMode MSafe], [OMode MSafe].
          assert (forall s l o, pl (set_ovr (set_pl s l) o) = l) as Hp by (intros [] ? ?; reflexivity).
          rewrite !Hp, !rlog_lset. split; [reflexivity|]. split; [reflexivity|]. cbn [rev app]. rewrite lmode_setmode. apply ds_mode. constructor.
        + unfold SE, SEu in *. destruct s1, s2; cbn in *. intros _. exact Hu.
      - split; [exact N|]. split; [|split; [apply seg_refl|]].
        + intros Hnu. destruct (povr s1); try discriminate; congruence.
        + intros _. exact Hu. }
    specialize (Hb a1 a2 Na Sa Logic.I). pose proof (Hk a1) as Ek.
    destruct (b1 a1) as [[u1|?| |?] x], (b2 a2) as [[u2|?| |?] y]; try (exact Logic.I || contradiction || (exfalso; assumption) || assumption).
    all: destruct Hb as (Rx & Nx & Sx & Gx); cbn [snd] in Ek.
    all: assert (forall s l o, pl (set_ovr (set_pl s l) o) = l) as Hp by (intros [] ? ?; reflexivity).
    all: refine (conj Rx (conj _ (conj _ _))).
    1,4: (apply NB_set_pl_ovr; [exact Nx | now rewrite !lmode_setmode |]; intros Ho; rewrite lmode_setmode; now apply N).
    1,3: (unfold SE; assert (forall s l o, parg (set_ovr (set_pl s l) o) = parg s /\ pval (set_ovr (set_pl s l) o) = pval s /\ povr (set_ovr (set_pl s l) o) = o) as Hf by (intros [] ? ?; auto);
      destruct (Hf x (lset (pl x) (OMode (lmode (pl s1)))) (povr s1)) as (-> & -> & ->);
      destruct (Hf y (lset (pl y) (OMode (lmode (pl s1)))) (povr s1)) as (-> & -> & _);
      intros Ho; apply Sx; rewrite Ek; apply Oa; rewrite Ho; discriminate).
    all: (eapply seg_trans; [exact Ga|]; eapply seg_trans; [exact Gx|];
      exists [OMode (lmode (pl s1))], [OMode (lmode (pl s1))]; rewrite !Hp, !rlog_lset; split; [reflexivity|]; split; [reflexivity|];
      cbn [rev app]; rewrite lmode_setmode; apply ds_mode; constructor).
  Qed.

  (* a field update that records the operand, then code that reads the state *)
  Lemma JS0_modify_bind (H H' : pst -> pst -> Prop) (f g : pst -> pst) (m1 m2 : M unit) :
    (forall s1 s2, NB s1 s2 -> H s1 s2 -> NB (f s1) (g s2) /\ SE (f s1) (g s2) /\ H' (f s1) (g s2)) ->
    (forall s, pl (f s) = pl s) -> (forall s, pl (g s) = pl s) ->
    JS H' any m1 m2 -> JS0 H any (modify f ;;; m1) (modify g ;;; m2).
  Proof.
    intros Hr Hf Hg Hm s1 s2 N Hs. rewrite !bindm.
    destruct (Hr s1 s2 N Hs) as (N' & S' & H1).
    pose proof (Hm (f s1) (g s2) N' S' H1) as R.
    destruct (m1 (f s1)) as [[u1|?| |?] x], (m2 (g s2)) as [[u2|?| |?] y]; try (exact Logic.I || contradiction || (exfalso; assumption) || assumption).
    all: destruct R as (Rx & Nx & Sx & Gx); refine (conj Rx (conj Nx (conj Sx _)));
      apply (seg_same_pl s1 (f s1) s2 (g s2)); [apply Hf | apply Hg | exact Gx].
  Qed.

  (* ---------- printValue at every depth ---------- *)
  Definition kind_part (v : value) (verb : Z) (depth : nat) (ci : bool) : M unit :=
    modify (fun s => set_val (set_arg s None) (Some (v, ci))) ;;; print_kind 8 rec env v verb depth ci.
  Definition dyn_of (v : value) : option value := match v with VIface _ e => e | v => Some v end.
  Definition dyn_safe (v : value) : bool :=
    match dyn_of v with Some x => is_safe_value x || is_registered x | None => false end.
  Definition after_arg (v : value) (verb : Z) (depth : nat) (ci : bool) : M unit :=
    bracket_if (dyn_safe v) start_safe_ovr
      (h <- rec (CHandleMethods verb) ;; if rbool h then ret tt else kind_part v verb depth ci).
  Definition pv_body (v : value) (verb : Z) (depth : nat) (ci : bool) : M unit :=
    if ci then modify (fun s => set_arg s (dyn_of v)) ;;; after_arg v verb depth ci else kind_part v verb depth ci.

  Lemma printValue_shape v verb depth ci : vshape v = true ->
    printValue rec env v verb depth ci =
    match depth with
    | O => kind_part v verb depth ci
    | S _ => bracket_if (is_registered v) start_safe_ovr (pv_body v verb depth ci)
    end.
  Proof. intros Sv. destruct depth; destruct v; try discriminate; reflexivity. Qed.

  Lemma Jkind_part v1 v2 verb depth ci : vrel v1 v2 ->
    JS0 (HS (v1 = v2 /\ lfs v1 = true)) any (kind_part v1 verb depth ci) (kind_part v2 verb depth ci).
  Proof.
    intros Hv. unfold kind_part.
    apply (JS0_modify_bind _ (HS (v1 = v2 /\ lfs v1 = true))); [|intros []; reflexivity | intros []; reflexivity | now apply Jprint_kind].
    intros s1 s2 N Hs. split; [|split].
    - destruct N; destruct s1, s2; constructor; cbn in *; auto.
    - unfold SE, HS in *. destruct s1, s2; cbn in *. intros Ho. destruct (Hs Ho) as [<- Lf].
      split; [reflexivity|]. split; [exact Logic.I|]. intros _. split; [reflexivity | exact Lf].
    - unfold HS in *. destruct s1; exact Hs.
  Qed.

  Lemma keeps_kind_part v verb depth ci : keeps (kind_part v verb depth ci).
  Proof.
    unfold kind_part. apply keeps_bind; [apply keeps_modify; intros []; split; reflexivity | intros _].
    apply keeps_print_kind. exact Hkeeps.
  Qed.
  Lemma keeps_after_arg v verb depth ci : keeps (after_arg v verb depth ci).
  Proof.
    unfold after_arg. apply keeps_bracket_if; [apply start_ok_safe_ovr|].
    apply keeps_bind; [apply Hkeeps; exact Logic.I | intros h]. destruct (rbool h); [apply keeps_ret | apply keeps_kind_part].
  Qed.
  Lemma keeps_pv_body v verb depth ci : keeps (pv_body v verb depth ci).
  Proof.
    unfold pv_body. destruct ci; [|apply keeps_kind_part].
    apply keeps_bind; [apply keeps_modify; intros []; split; reflexivity | intros _; apply keeps_after_arg].
  Qed.

  Lemma dyn_rel v1 v2 : vrel v1 v2 -> orel vrel (dyn_of v1) (dyn_of v2) /\ dyn_safe v1 = dyn_safe v2.
  Proof.
    intros Hv. unfold dyn_safe.
    assert (forall a b, vrel a b -> (is_safe_value a || is_registered a) = (is_safe_value b || is_registered b)) as He
      by (intros a b Hab; destruct (vrel_tinfo _ _ Hab) as (_ & _ & -> & -> & _); reflexivity).
    inversion Hv; subst; cbn [dyn_of orel]; try (split; [assumption | now apply He]); try (split; [exact Logic.I | reflexivity]).
    - assert (dyn_of v1 = Some v1 /\ dyn_of v2 = Some v2) as [-> ->].
      { destruct H as (L1 & L2 & _). destruct v1, v2; try discriminate; split; reflexivity. }
      cbn [orel]. split; [exact Hv | now apply He].
  Qed.

  (* after p.arg = value.Interface() *)
  Lemma Jafter_arg v1 v2 verb depth ci : vrel v1 v2 ->
    JS0 (fun s1 s2 => (povr s1 = OvrSafe -> v1 = v2 /\ lfs v1 = true) /\ parg s1 = dyn_of v1 /\ parg s2 = dyn_of v2) any
       (after_arg v1 verb depth ci) (after_arg v2 verb depth ci).
  Proof.
    intros Hv. destruct (dyn_rel _ _ Hv) as [Hd Es]. unfold after_arg. rewrite <- Es.
    assert (JS (HS (v1 = v2 /\ lfs v1 = true)) any
              (h <- rec (CHandleMethods verb) ;; if rbool h then ret tt else kind_part v1 verb depth ci)
              (h <- rec (CHandleMethods verb) ;; if rbool h then ret tt else kind_part v2 verb depth ci)) as Hbody.
    { eapply JS_bind_k; [| apply Hkrec |].
      - eapply JS_weaken; [|apply (Hrec (CHandleMethods verb) (CHandleMethods verb)); reflexivity]. intros ? ? _ _. exact Logic.I.
      - intros h ? <-. destruct (rbool h); [apply J_JS; now apply J_ret|]. apply JS0_JS. now apply Jkind_part. }
    destruct (dyn_safe v1) eqn:Ed; cbn [bracket_if].
    - (* a SafeValue / registered value: equal on both sides, a leaf (possibly in an interface slot) *)
      unfold dyn_safe in Ed. destruct (dyn_of v1) as [d1|] eqn:D1; [|discriminate].
      destruct (dyn_of v2) as [d2|] eqn:D2; cbn [orel] in Hd; [|contradiction].
      pose proof (vrel_safe_eq _ _ Hd Ed) as <-. pose proof (vrel_safe_leaf _ _ Hd Ed) as Ld.
      assert (v1 = v2 /\ lfs v1 = true) as [<- Lv].
      { inversion Hv; subst; cbn [dyn_of] in D1, D2; try (injection D1 as <-; discriminate); try discriminate.
        - destruct H as (L1 & L2 & _). assert (dyn_of v1 = Some v1) as E1 by (destruct v1; try discriminate; reflexivity).
          assert (dyn_of v2 = Some v2) as E2 by (destruct v2; try discriminate; reflexivity).
          rewrite E1 in D1. rewrite E2 in D2. injection D1 as <-. injection D2 as <-. split; [reflexivity | now apply lfs_leaf].
        - injection D1 as <-. injection D2 as <-. split; [reflexivity|]. unfold lfs. cbn [leafish orb]. exact Ld. }
      eapply JS0_weaken; [|apply Jbracket_safe2].
      + intros s1 s2 (_ & P1 & P2). unfold SEu. rewrite P1, P2. split; [reflexivity|]. split; [now apply lfs_leaf | discriminate].
      + apply kovr_bind; [apply Hkrec | intros h]. destruct (rbool h); [apply kovr_ret | apply kovr_keeps, keeps_kind_part].
      + eapply JS_weaken; [|exact Hbody]. intros ? ? _ _. split; [reflexivity | exact Lv].
    - intros s1 s2 N (Hx & P1 & P2).
      assert (SE s1 s2) as S'.
      { intros Ho. destruct (Hx Ho) as [<- Lv]. rewrite P1, P2. split; [reflexivity|].
        assert (dyn_of v1 = Some v1 \/ exists tn d, v1 = VIface tn (Some d) /\ leafish d = true) as [E | (tn & d & -> & Ld)].
        { unfold lfs in Lv. destruct v1; cbn in Lv; try discriminate; try (left; reflexivity).
          destruct e as [d|]; [|discriminate]. right. exists tn, d. split; [reflexivity | exact Lv]. }
        - rewrite E. split; [exact Lv | discriminate].
        - cbn [dyn_of]. split; [now apply lfs_leaf | discriminate]. }
      exact (Hbody s1 s2 N S' Hx).
  Qed.

  Lemma Jpv_body v1 v2 verb depth ci : vrel v1 v2 ->
    JS0 (HS (v1 = v2 /\ lfs v1 = true)) any (pv_body v1 verb depth ci) (pv_body v2 verb depth ci).
  Proof.
    intros Hv. unfold pv_body. destruct ci; [|now apply Jkind_part].
    intros s1 s2 N Hs. rewrite !bindm.
    set (a1 := set_arg s1 (dyn_of v1)). set (a2 := set_arg s2 (dyn_of v2)).
    assert (NB a1 a2) as N'.
    { unfold a1, a2. destruct (dyn_rel _ _ Hv) as [Hd _]. destruct N. destruct s1, s2; constructor; cbn in *; auto. }
    assert ((povr a1 = OvrSafe -> v1 = v2 /\ lfs v1 = true) /\ parg a1 = dyn_of v1 /\ parg a2 = dyn_of v2) as Hp.
    { unfold a1, a2, HS in *. destruct s1, s2; cbn in *. auto. }
    pose proof (Jafter_arg v1 v2 verb depth true Hv a1 a2 N' Hp) as R.
    destruct (after_arg v1 verb depth true a1) as [[u1|?| |?] x], (after_arg v2 verb depth true a2) as [[u2|?| |?] y]; try (exact Logic.I || contradiction || (exfalso; assumption) || assumption).
    all: destruct R as (Rx & Nx & Sx & Gx); refine (conj Rx (conj Nx (conj Sx _)));
      apply (seg_same_pl s1 a1 s2 a2); [unfold a1; destruct s1; reflexivity | unfold a2; destruct s2; reflexivity | exact Gx].
  Qed.

  Lemma JprintValue v1 v2 verb depth ci : vrel v1 v2 ->
    JS (HS (v1 = v2 /\ lfs v1 = true)) any (printValue rec env v1 verb depth ci) (printValue rec env v2 verb depth ci).
  Proof.
    intros Hv. destruct (vrel_shape _ _ Hv) as [S1 S2]. rewrite !printValue_shape by assumption.
    destruct depth as [|d]; [apply JS0_JS; now apply Jkind_part|].
    destruct (vrel_tinfo _ _ Hv) as (_ & _ & _ & Er & _). rewrite <- Er.
    destruct (is_registered v1) eqn:E; cbn [bracket_if]; [|apply JS0_JS; now apply Jpv_body].
    assert (v1 = v2) as <- by (apply (vrel_safe_eq _ _ Hv); rewrite E; apply Bool.orb_true_r).
    assert (leafish v1 = true) as Lv by (apply (vrel_safe_leaf _ _ Hv); rewrite E; apply Bool.orb_true_r).
    apply JS0_JS. eapply JS0_weaken; [|apply Jbracket_safe].
    - intros ? ? _. exact Logic.I.
    - apply kovr_keeps, keeps_pv_body.
    - eapply JS0_weaken; [|apply (Jpv_body v1 v1 verb (S d) ci Hv)]. intros ? ? _ _. split; [reflexivity | now apply lfs_leaf].
  Qed.

  Lemma JprintArg_body v1 v2 verb : vrel v1 v2 ->
    JS0 (HS (v1 = v2 /\ lfs v1 = true)) any (printArg_body rec env v1 verb) (printArg_body rec env v2 verb).
  Proof.
    intros Hl. unfold printArg_body. destruct (vrel_tinfo _ _ Hl) as (_ & _ & Es & _). rewrite <- Es.
    destruct (is_safe_value v1) eqn:E; cbn [bracket_if]; [|now apply JprintArg_inner].
    assert (v1 = v2) as <- by (apply (vrel_safe_eq _ _ Hl); now rewrite E).
    assert (leafish v1 = true) as Lv by (apply (vrel_safe_leaf _ _ Hl); now rewrite E).
    eapply JS0_weaken; [|apply Jbracket_safe].
    - intros ? ? _. exact Logic.I.
    - apply kovr_keeps, keeps_printArg_inner, Hkeeps.
    - eapply JS0_weaken; [|apply (JprintArg_inner v1 v1 verb Hl)]. intros ? ? _ _. split; [reflexivity | now apply lfs_leaf].
  Qed.

  Lemma JprintArg v1 v2 verb : vrel v1 v2 ->
    JS0 (HS (v1 = v2 /\ lfs v1 = true)) any (printArg rec env v1 verb) (printArg rec env v2 verb).
  Proof.
    intros Hl. destruct (vrel_shape _ _ Hl) as [L1 L2]. destruct (vrel_tinfo _ _ Hl) as (_ & _ & _ & Er & _).
    assert (forall v, vshape v = true -> printArg rec env v verb =
              if is_registered v then bracket start_safe_ovr (printArg_body rec env v verb) else printArg_body rec env v verb) as Hu.
    { intros v L. unfold printArg. destruct (is_registered v); [reflexivity|]. destruct v; try discriminate; reflexivity. }
    rewrite (Hu v1 L1), (Hu v2 L2), <- Er.
    destruct (is_registered v1) eqn:E; [|now apply JprintArg_body].
    assert (v1 = v2) as <- by (apply (vrel_safe_eq _ _ Hl); rewrite E; apply Bool.orb_true_r).
    assert (leafish v1 = true) as Lv by (apply (vrel_safe_leaf _ _ Hl); rewrite E; apply Bool.orb_true_r).
    eapply JS0_weaken; [|apply Jbracket_safe].
    - intros ? ? _. exact Logic.I.
    - apply kovr_keeps, keeps_printArg_body, Hkeeps.
    - eapply JS0_weaken; [|apply (JprintArg_body v1 v1 verb Hl)]. intros ? ? _ _. split; [reflexivity | now apply lfs_leaf].
  Qed.

  (* ---------- scripts: the calls a Format / SafeFormat method makes on the printer ---------- *)
  Lemma usegw_ws x1 x2 : (x1 = x2 \/ srel x1 x2) -> usegw [WS x1] [WS x2].
  Proof.
    intros H. assert (srel x1 x2) as Hs by (destruct H as [-> | H]; [apply srel_refl | exact H]).
    apply usegw_intro; [reflexivity|]. rewrite !pay_ws. now rewrite (srel_kinds _ _ Hs).
  Qed.

  Lemma w1_wr w s : w1 w s = wr [w] s.
  Proof. cbn [wr]. unfold bind, ret. destruct (w1 w s) as [[[]|?| |?] ?]; reflexivity. Qed.

  Lemma Junsafe_w1 w1' w2' : usegw [w1'] [w2'] ->
    JS (HS False) any (bracket start_unsafe (w1 w1')) (bracket start_unsafe (w1 w2')).
  Proof.
    intros Hu s1 s2 N S Hs.
    rewrite (bracket_ext start_unsafe (w1 w1') (f <- getf ;; ws <- of_opt (Some [w1']) ;; wr ws)) by (intros s; rewrite w1_wr; reflexivity).
    rewrite (bracket_ext start_unsafe (w1 w2') (f <- getf ;; ws <- of_opt (Some [w2']) ;; wr ws)) by (intros s; rewrite w1_wr; reflexivity).
    apply (ubody_rel (fun _ => Some [w1']) (fun _ => Some [w2'])); auto.
    - intros f a b E1 E2. injection E1 as <-. injection E2 as <-. exact Hu.
    - intros X. destruct (Hs X).
  Qed.

  (* the nested printer of SafePrinter.Print / Printf: a new printer state on the same buffer *)
  Lemma nested_run c s :
    nested rec c s =
    let '(o, ns') := rec c (fresh_pp (pl s) (povr s)) in
    (match o with ROk _ => ROk tt | RPanic v => RPanic v | RFuel => RFuel | RMiss w => RMiss w end,
     set_pl (set_pl s (pl ns')) (lset (pl ns') (OMode (lmode (pl s))))).
  Proof.
    unfold nested, bind, get_mode, Printer.get. cbn iota beta zeta.
    destruct (rec c (fresh_pp (pl s) (povr s))) as [o ns']. rewrite setmode_state. rewrite pl_set_pl. reflexivity.
  Qed.

  Lemma Jnested c1 c2 : crel c1 c2 -> cP c1 c2 = False ->
    JS (HS False) any (nested rec c1) (nested rec c2).
  Proof.
    intros Hc HcP s1 s2 N S Hs. assert (povr s1 <> OvrSafe) as Hns by (intros X; exact (Hs X)).
    rewrite !nested_run. rewrite <- (nb_ovr _ _ N), <- (nb_mode _ _ N).
    set (n1 := fresh_pp (pl s1) (povr s1)). set (n2 := fresh_pp (pl s2) (povr s1)).
    assert (NB n1 n2) as Nn.
    { unfold n1, n2, fresh_pp. destruct N. constructor; cbn; auto; try (intros X; congruence). }
    assert (SE n1 n2) as Sn by (intros X; unfold n1, fresh_pp in X; cbn in X; congruence).
    pose proof (Hrec c1 c2 Hc n1 n2 Nn Sn) as R. rewrite HcP in R.
    assert (HS False n1 n2) as Hn by (intros X; unfold n1, fresh_pp in X; cbn in X; congruence).
    specialize (R Hn).
    destruct (rec c1 n1) as [[u1|?| |?] x], (rec c2 n2) as [[u2|?| |?] y];
      try (exact Logic.I || contradiction || (exfalso; assumption) || assumption).
    all: destruct R as (Rx & Nx & Sx & (d1 & d2 & L1 & L2 & D)).
    all: refine (conj _ (conj _ (conj _ _))); [first [exact Logic.I | exact Rx] | | |].
    1,4: (apply NB_set_pl; [|rewrite !lmode_setmode; reflexivity | intros X; exfalso; apply Hns; destruct s1; exact X];
      apply NB_set_pl; [exact N | apply Nx | intros X; exfalso; apply Hns; exact X]).
    1,3: (intros X; destruct s1; cbn in *; congruence).
    all: (exists (OMode (lmode (pl s1)) :: d1), (OMode (lmode (pl s1)) :: d2);
      rewrite !pl_set_pl, !rlog_lset, L1, L2; unfold n1, n2, fresh_pp; cbn [pl];
      split; [reflexivity|]; split; [reflexivity|]; cbn [rev]; rewrite lmode_setmode;
      eapply dsim_app; [exact D|]; apply ds_mode; constructor).
  Qed.

  Lemma Jrun_action self1 self2 verb a1 a2 : actrel a1 a2 ->
    JS (HS False) any (run_action rec env self1 verb a1) (run_action rec env self2 verb a2).
  Proof.
    intros Ha. inversion Ha; subst; cbn [run_action].
    - apply J_JS. now apply J_ret.
    - apply Junsafe_w1. now apply usegw_ws.
    - apply Junsafe_w1. now apply usegw_ws.
    - apply Junsafe_w1. now apply usegw_ws.
    - destruct a2; try contradiction; cbn [run_action].
      + (* SafeString *) intros s1 s2 N S Hs.
        rewrite !(bracket_ext start_safe_ovr (w1 (WS s)) (wr [WS s]) (w1_wr (WS s))). now apply Jsafe_wr.
      + change (fmtInteger rec env u true 100) with (ubody (fun f => Some (fmt_integer f u 10 true 100 false))). apply Jsafe_ubody.
      + change (fmtInteger rec env u false 100) with (ubody (fun f => Some (fmt_integer f u 10 false 100 false))). apply Jsafe_ubody.
      + change (fmtFloat rec env bits 64 118) with (ubody (fun f => fmt_float (orc env) f bits 64 103 (-1))). apply Jsafe_ubody.
      + intros s1 s2 N S Hs. rewrite !(bracket_ext start_safe_ovr (w1 (WR r)) (wr [WR r]) (w1_wr (WR r))). now apply Jsafe_wr.
      + intros s1 s2 N S Hs. rewrite !(bracket_ext start_safe_ovr (w1 (WB c)) (wr [WB c]) (w1_wr (WB c))). now apply Jsafe_wr.
      + intros s1 s2 N S Hs. rewrite !(bracket_ext start_safe_ovr (w1 (WS s)) (wr [WS s]) (w1_wr (WS s))). now apply Jsafe_wr.
      + apply Junsafe_w1, usegw_refl.
      + apply Junsafe_w1, usegw_refl.
      + eapply JS_bind_k; [apply J_JS, J_getf | apply kovr_getf | intros f ? <-]. apply Junsafe_w1, usegw_refl.
    - apply J_JS. now apply J_panic.
    - apply Jnested; [cbn [crel]; assumption | reflexivity].
    - apply Jnested; [cbn [crel]; auto | reflexivity].
  Qed.

  Lemma Jrun_acts self1 self2 verb : forall acts1 acts2, Forall2 actrel acts1 acts2 ->
    JS (HS False) any (run_acts rec env self1 verb acts1) (run_acts rec env self2 verb acts2).
  Proof.
    intros acts1 acts2 H. induction H as [|a1 a2 r1 r2 Ha Hr IH]; cbn [run_acts].
    - apply J_JS. now apply J_ret.
    - eapply JS_bind_k; [now apply Jrun_action | apply kovr_keeps, keeps_run_action; try exact Hkeeps | intros _ _ _; exact IH].
  Qed.

  (* ---------- Unsafe(x) as an operand ---------- *)
  Lemma bracket_unsafe_ovr_run {A} (b : M A) s :
    bracket start_unsafe_ovr b s =
    let s0 := if ovr_eqb (povr s) NoOvr then set_ovr (set_pl s (lset (pl s) (OMode MUnsafe))) OvrUnsafe else s in
    let '(o, s2) := b s0 in (o, set_ovr (set_pl s2 (lset (pl s2) (OMode (lmode (pl s))))) (povr s)).
  Proof.
    unfold bracket, start_unsafe_ovr, bind, get_mode, Printer.get.
    destruct (ovr_eqb (povr s) NoOvr).
    - rewrite setmode_state. unfold modify, ret. cbn iota beta zeta.
      destruct (b _) as [o s2]. rewrite restore_state. reflexivity.
    - unfold ret. cbn iota beta zeta. destruct (b s) as [o s2]. rewrite restore_state. reflexivity.
  Qed.

  (* defer p.startUnsafeOverride().restore(): inside, every write is unsafe; whatever is known
     about a safe override outside still holds for the body when the bracket does nothing *)
  Lemma Jbracket_unsafe0 P (b1 b2 : M unit) : kovr b1 ->
    JS0 (HS P) any b1 b2 -> JS0 (HS P) any (bracket start_unsafe_ovr b1) (bracket start_unsafe_ovr b2).
  Proof.
    intros Hk Hb s1 s2 N Hs. rewrite !bracket_unsafe_ovr_run. cbn zeta.
    pose proof (nb_ovr _ _ N) as Eo. rewrite <- Eo, <- (nb_mode _ _ N).
    set (a1 := if ovr_eqb (povr s1) NoOvr then set_ovr (set_pl s1 (lset (pl s1) (OMode MUnsafe))) OvrUnsafe else s1).
    set (a2 := if ovr_eqb (povr s1) NoOvr then set_ovr (set_pl s2 (lset (pl s2) (OMode MUnsafe))) OvrUnsafe else s2).
    assert (forall s l o, pl (set_ovr (set_pl s l) o) = l) as Hp by (intros [] ? ?; reflexivity).
    assert (NB a1 a2 /\ HS P a1 a2 /\ seg s1 a1 s2 a2 /\ (povr s1 = OvrSafe -> povr a1 = OvrSafe)) as (Na & Ha & Ga & Oa).
    { unfold a1, a2. destruct (ovr_eqb (povr s1) NoOvr) eqn:Ev.
      - assert (povr s1 = NoOvr) as En by (destruct (povr s1); try discriminate; reflexivity).
        split; [|split; [|split]].
        + apply NB_set_ovr; [|discriminate].
          apply NB_set_pl; [exact N | now rewrite !lmode_setmode | intros X; congruence].
        + intros X. destruct s1; cbn in X. discriminate.
        + exists [OMode MUnsafe], [OMode MUnsafe]. rewrite !Hp, !rlog_lset. split; [reflexivity|]. split; [reflexivity|].
          cbn [rev app]. rewrite lmode_setmode. apply ds_mode. constructor.
        + intros X. congruence.
      - split; [exact N|]. split; [exact Hs|]. split; [apply seg_refl | auto]. }
    specialize (Hb a1 a2 Na Ha). pose proof (Hk a1) as Ek.
    destruct (b1 a1) as [[u1|?| |?] x], (b2 a2) as [[u2|?| |?] y]; try (exact Logic.I || contradiction || (exfalso; assumption) || assumption).
    all: destruct Hb as (Rx & Nx & Sx & Gx); cbn [snd] in Ek.
    all: refine (conj Rx (conj _ (conj _ _))).
    1,4: (apply NB_set_pl_ovr; [exact Nx | now rewrite !lmode_setmode |]; intros Ho; rewrite lmode_setmode; now apply N).
    1,3: (unfold SE; assert (forall s l o, parg (set_ovr (set_pl s l) o) = parg s /\ pval (set_ovr (set_pl s l) o) = pval s /\ povr (set_ovr (set_pl s l) o) = o) as Hf by (intros [] ? ?; auto);
      destruct (Hf x (lset (pl x) (OMode (lmode (pl s1)))) (povr s1)) as (-> & -> & ->);
      destruct (Hf y (lset (pl y) (OMode (lmode (pl s1)))) (povr s1)) as (-> & -> & _);
      intros Ho; apply Sx; rewrite Ek; now apply Oa).
    all: (eapply seg_trans; [exact Ga|]; eapply seg_trans; [exact Gx|];
      exists [OMode (lmode (pl s1))], [OMode (lmode (pl s1))]; rewrite !Hp, !rlog_lset; split; [reflexivity|]; split; [reflexivity|];
      cbn [rev app]; rewrite lmode_setmode; apply ds_mode; constructor).
  Qed.

  Lemma JprintArg_unsafe a b verb : vrel a b ->
    JS0 (HS (VUnsafe a = VUnsafe b /\ lfs (VUnsafe a) = true)) any (printArg rec env (VUnsafe a) verb) (printArg rec env (VUnsafe b) verb).
  Proof.
    intros Hv.
    change (printArg rec env (VUnsafe a) verb) with (bracket start_unsafe_ovr (printArg_body rec env a verb)).
    change (printArg rec env (VUnsafe b) verb) with (bracket start_unsafe_ovr (printArg_body rec env b verb)).
    eapply JS0_weaken with (H := HS False); [intros ? ? Hx Ho; destruct (Hx Ho) as [_ L]; discriminate|].
    apply Jbracket_unsafe0; [apply kovr_keeps, keeps_printArg_body, Hkeeps|].
    eapply JS0_weaken; [|now apply JprintArg_body]. intros ? ? Hx Ho. destruct (Hx Ho).
  Qed.

  (* Safe(x) for a leaf x: the same value on both sides, printed under the safe override *)
  Lemma JprintArg_safe a m verb : leafish a = true ->
    JS0 (HS (VSafe a m = VSafe a m /\ lfs (VSafe a m) = true)) any (printArg rec env (VSafe a m) verb) (printArg rec env (VSafe a m) verb).
  Proof.
    intros La.
    change (printArg rec env (VSafe a m) verb) with (bracket start_safe_ovr (printArg_body rec env a verb)).
    eapply JS0_weaken; [|apply Jbracket_safe].
    - intros ? ? _. exact Logic.I.
    - apply kovr_keeps, keeps_printArg_body, Hkeeps.
    - eapply JS0_weaken; [|apply (JprintArg_body a a verb (vr_leaf _ _ (lrel_refl a La)))]. intros ? ? _ _. split; [reflexivity | now apply lfs_leaf].
  Qed.

  (* one step of the evaluator on related calls *)
  Lemma Jstep c1 c2 : crel c1 c2 ->
    JS (HS (cP c1 c2)) eq
       (match c1 with
        | CPrintArg v verb => printArg rec env v verb ;;; ret RU
        | CPrintValue v verb depth ci => printValue rec env v verb depth ci ;;; ret RU
        | CBadVerb verb => badVerb rec verb ;;; ret RU
        | CHandleMethods verb => b <- handleMethods rec env verb ;; ret (RBo b)
        | CDoPrintf f a => doPrintf rec f a ;;; ret RU
        | CDoPrint a => doPrint rec a ;;; ret RU
        | CActs self verb acts => run_acts rec env self verb acts ;;; ret RU
        end)
       (match c2 with
        | CPrintArg v verb => printArg rec env v verb ;;; ret RU
        | CPrintValue v verb depth ci => printValue rec env v verb depth ci ;;; ret RU
        | CBadVerb verb => badVerb rec verb ;;; ret RU
        | CHandleMethods verb => b <- handleMethods rec env verb ;; ret (RBo b)
        | CDoPrintf f a => doPrintf rec f a ;;; ret RU
        | CDoPrint a => doPrint rec a ;;; ret RU
        | CActs self verb acts => run_acts rec env self verb acts ;;; ret RU
        end).
  Proof.
    intros Hc. destruct c1, c2; cbn [crel] in Hc; try contradiction; cbn [cP].
    - destruct Hc as [<- Hl]. inversion Hl; subst; (eapply JS_bind; [|intros; now apply J_ret]); apply JS0_JS;
        [now apply JprintArg | now apply JprintArg_unsafe | now apply JprintArg_safe].
    - destruct Hc as (<- & <- & <- & Hl). eapply JS_bind; [|intros; now apply J_ret]. now apply JprintValue.
    - subst. apply J_JS. eapply J_bind; [apply JbadVerb | intros; now apply J_ret].
    - subst. apply J_JS. eapply J_bind; [apply JhandleMethods | intros b ? <-; now apply J_ret].
    - (* Printf on a nested printer *)
      destruct Hc as (<- & Hns & Ha). eapply JS_bind; [|intros; now apply J_ret].
      eapply JS_weaken; [|apply (J_doPrintf rec Hrec Hkrec Hkeeps f a a0 (or_introl Hns) Ha)]. intros ? ? Hx Ho. exact (Hx Ho).
    - (* Print on a nested printer *)
      eapply JS_bind; [|intros; now apply J_ret].
      eapply JS_weaken; [|apply (J_doPrint rec Hrec Hkrec a a0 Hc)]. intros ? ? Hx Ho. exact (Hx Ho).
    - (* the script of a Format / SafeFormat method *)
      destruct Hc as (<- & Hsc). eapply JS_bind; [|intros; now apply J_ret]. now apply Jrun_acts.
  Qed.
End Rec.

(* the error hook's script (if a hook is installed) must be related to itself: its Print / Printf
   operands are values of the universe above *)
Definition hook_ok (e : env) : Prop := match hook e with Some h => Forall2 actrel h h | None => True end.

(* every fuel: the evaluator on related leaf calls *)
Theorem ev_leaf_rel fuel env : osane (orc env) -> hook_ok env -> rec_ok (ev fuel env).
Proof.
  intros Ho Hh. induction fuel as [|k IH]; intros c1 c2 Hc.
  - intros s1 s2 _ _ _. exact Logic.I.
  - pose proof (Jstep (ev k env) env IH (fun c => kovr_ev k env c) (keeps_ev k env) Ho Hh c1 c2 Hc) as H.
    destruct c1, c2; cbn [crel] in Hc; try contradiction; exact H.
Qed.

Print Assumptions ev_leaf_rel.


(* ---------- the theorem ---------- *)
Lemma NB_newPrinter : NB newPrinter newPrinter /\ SE newPrinter newPrinter /\ NoO newPrinter newPrinter.
Proof.
  split; [|split; [intros H; discriminate | discriminate]].
  constructor; cbn; auto; try discriminate.
Qed.

(* a sufficient condition for star_ok: the integer operands are the same on both sides *)
Definition isintk (v : value) : bool := match v with VInt _ _ | VUint _ _ => true | _ => false end.
Lemma arel_isintk x y : arel x y -> isintk x = isintk y.
Proof.
  intros Ha. inversion Ha as [x' y' H | | ]; subst; try reflexivity.
  inversion H; subst; try reflexivity.
  match goal with Hx : lrel _ _ |- _ => destruct Hx as (_ & _ & [-> | (_ & _ & Hm)]) end; [reflexivity|].
  destruct x, y; try contradiction; reflexivity.
Qed.
Lemma ints_public a1 : forall a2, Forall2 arel a1 a2 -> Forall2 (fun x y => isintk x = true -> x = y) a1 a2 ->
  forall n, intFromArg a1 n = intFromArg a2 n.
Proof.
  intros a2 Ha Hi n. unfold intFromArg. rewrite <- (Forall2_len _ _ _ Ha).
  destruct (n <? Z.of_nat (length a1)); [|reflexivity].
  assert (forall k, (let x := nth k a1 VNil in let y := nth k a2 VNil in isintk x = isintk y /\ (isintk x = true -> x = y))) as Hn.
  { clear n. revert a2 Ha Hi. induction a1 as [|x r IH]; intros a2 Ha Hi k; inversion Ha; subst; inversion Hi; subst.
    - destruct k; cbn; split; auto.
    - destruct k; cbn [nth]; [split; [now apply arel_isintk | assumption] | now apply IH]. }
  destruct (Hn (Z.to_nat n)) as [Ek Eq]. cbv zeta in *.
  destruct (isintk (nth (Z.to_nat n) a1 VNil)) eqn:E1.
  - rewrite <- (Eq eq_refl). reflexivity.
  - symmetry in Ek. destruct (nth (Z.to_nat n) a1 VNil), (nth (Z.to_nat n) a2 VNil); try discriminate; reflexivity.
Qed.

Theorem sprintf_tree_dsim fuel env f a1 a2 o1 o2 :
  osane (orc env) -> hook_ok env -> star_ok f a1 a2 -> Forall2 arel a1 a2 ->
  sprintf fuel env f a1 = ROk o1 -> sprintf fuel env f a2 = ROk o2 ->
  exists ops1 ops2 m', o_log o1 = ops1 ++ [OTake] /\ o_log o2 = ops2 ++ [OTake] /\
                       o_bytes o1 = output ops1 /\ o_bytes o2 = output ops2 /\ dsim MUnsafe ops1 ops2 m'.
Proof.
  intros Ho Hh Hns Ha H1 H2. unfold sprintf in H1, H2.
  destruct fuel as [|k]; [discriminate|]. cbn [ev] in H1, H2.
  destruct NB_newPrinter as (N0 & S0 & Hn0).
  assert (JS NoO any (doPrintf (ev k env) f a1 ;;; ret RU) (doPrintf (ev k env) f a2 ;;; ret RU)) as Hj.
  { eapply JS_bind; [|intros; now apply J_ret].
    exact (J_doPrintf (ev k env) (ev_leaf_rel k env Ho Hh) (fun c => kovr_ev k env c) (keeps_ev k env) f a1 a2 Hns Ha). }
  specialize (Hj newPrinter newPrinter N0 S0 Hn0).
  destruct ((doPrintf (ev k env) f a1 ;;; ret RU) newPrinter) as [[r1|?| |?] s1] eqn:E1; try discriminate.
  destruct ((doPrintf (ev k env) f a2 ;;; ret RU) newPrinter) as [[r2|?| |?] s2] eqn:E2; try discriminate.
  destruct Hj as (_ & N' & S' & (d1 & d2 & L1 & L2 & D)).
  cbn [finish] in H1, H2. unfold l_step in H1, H2. injection H1 as <-. injection H2 as <-. cbn [o_log o_bytes].
  exists (rev (rlog (pl s1))), (rev (rlog (pl s2))), (lmode (pl s1)).
  split; [reflexivity|]. split; [reflexivity|].
  split; [unfold output, redactable_bytes; rewrite <- (lok (pl s1)); reflexivity|].
  split; [unfold output, redactable_bytes; rewrite <- (lok (pl s2)); reflexivity|].
  rewrite L1, L2. cbn [newPrinter fresh_pp pl l_init rlog]. rewrite !app_nil_r. exact D.
Qed.

(* Non-interference of Sprintf for leaf operands: Redact() of the two results is byte-identical *)
Theorem sprintf_tree_noninterference fuel env f a1 a2 o1 o2 :
  osane (orc env) -> hook_ok env -> star_ok f a1 a2 -> Forall2 arel a1 a2 ->
  sprintf fuel env f a1 = ROk o1 -> sprintf fuel env f a2 = ROk o2 ->
  forall ops1 ops2, o_log o1 = ops1 ++ [OTake] -> o_log o2 = ops2 ++ [OTake] ->
  rawok ops1 = true -> ptail_ok_from init ops1 = true -> ptail_ok_from init ops2 = true ->
  Markers.redact_b (o_bytes o1) = Markers.redact_b (o_bytes o2).
Proof.
  intros Ho Hh Hns Ha H1 H2 ops1 ops2 E1 E2 Hr T1 T2.
  destruct (sprintf_tree_dsim fuel env f a1 a2 o1 o2 Ho Hh Hns Ha H1 H2) as (p1 & p2 & m' & F1 & F2 & B1 & B2 & D).
  rewrite E1 in F1. rewrite E2 in F2. apply app_inj_tail in F1, F2. destruct F1 as [<- _], F2 as [<- _].
  rewrite B1, B2. eapply redact_noninterference_seg; eassumption.
Qed.

Print Assumptions sprintf_tree_noninterference.

(* the same for Sprint *)
Theorem sprint_tree_dsim fuel env a1 a2 o1 o2 :
  osane (orc env) -> hook_ok env -> Forall2 arel a1 a2 ->
  sprint fuel env a1 = ROk o1 -> sprint fuel env a2 = ROk o2 ->
  exists ops1 ops2 m', o_log o1 = ops1 ++ [OTake] /\ o_log o2 = ops2 ++ [OTake] /\
                       o_bytes o1 = output ops1 /\ o_bytes o2 = output ops2 /\ dsim MUnsafe ops1 ops2 m'.
Proof.
  intros Ho Hh Ha H1 H2. unfold sprint in H1, H2.
  destruct fuel as [|k]; [discriminate|]. cbn [ev] in H1, H2.
  destruct NB_newPrinter as (N0 & S0 & Hn0).
  assert (JS NoO any (doPrint (ev k env) a1 ;;; ret RU) (doPrint (ev k env) a2 ;;; ret RU)) as Hj.
  { eapply JS_bind; [|intros; now apply J_ret].
    exact (J_doPrint (ev k env) (ev_leaf_rel k env Ho Hh) (fun c => kovr_ev k env c) a1 a2 Ha). }
  specialize (Hj newPrinter newPrinter N0 S0 Hn0).
  destruct ((doPrint (ev k env) a1 ;;; ret RU) newPrinter) as [[r1|?| |?] s1] eqn:X1; try discriminate.
  destruct ((doPrint (ev k env) a2 ;;; ret RU) newPrinter) as [[r2|?| |?] s2] eqn:X2; try discriminate.
  destruct Hj as (_ & N' & S' & (d1 & d2 & L1 & L2 & D)).
  cbn [finish] in H1, H2. unfold l_step in H1, H2. injection H1 as <-. injection H2 as <-. cbn [o_log o_bytes].
  exists (rev (rlog (pl s1))), (rev (rlog (pl s2))), (lmode (pl s1)).
  split; [reflexivity|]. split; [reflexivity|].
  split; [unfold output, redactable_bytes; rewrite <- (lok (pl s1)); reflexivity|].
  split; [unfold output, redactable_bytes; rewrite <- (lok (pl s2)); reflexivity|].
  rewrite L1, L2. cbn [newPrinter fresh_pp pl l_init rlog]. rewrite !app_nil_r. exact D.
Qed.

Theorem sprint_tree_noninterference fuel env a1 a2 o1 o2 :
  osane (orc env) -> hook_ok env -> Forall2 arel a1 a2 ->
  sprint fuel env a1 = ROk o1 -> sprint fuel env a2 = ROk o2 ->
  forall ops1 ops2, o_log o1 = ops1 ++ [OTake] -> o_log o2 = ops2 ++ [OTake] ->
  rawok ops1 = true -> ptail_ok_from init ops1 = true -> ptail_ok_from init ops2 = true ->
  Markers.redact_b (o_bytes o1) = Markers.redact_b (o_bytes o2).
Proof.
  intros Ho Hh Ha H1 H2 ops1 ops2 E1 E2 Hr T1 T2.
  destruct (sprint_tree_dsim fuel env a1 a2 o1 o2 Ho Hh Ha H1 H2) as (p1 & p2 & m' & F1 & F2 & B1 & B2 & D).
  rewrite E1 in F1. rewrite E2 in F2. apply app_inj_tail in F1, F2. destruct F1 as [<- _], F2 as [<- _].
  rewrite B1, B2. eapply redact_noninterference_seg; eassumption.
Qed.
Print Assumptions sprint_tree_noninterference.

(* the leaf-only statements as corollaries *)
Lemma lrel_vrel_list a1 a2 : Forall2 lrel a1 a2 -> Forall2 arel a1 a2.
Proof. induction 1; constructor; [apply ar_v; now apply vr_leaf | assumption]. Qed.

Theorem sprintf_leaf_noninterference fuel env f a1 a2 o1 o2 :
  osane (orc env) -> hook_ok env -> no_star f = true -> Forall2 lrel a1 a2 ->
  sprintf fuel env f a1 = ROk o1 -> sprintf fuel env f a2 = ROk o2 ->
  forall ops1 ops2, o_log o1 = ops1 ++ [OTake] -> o_log o2 = ops2 ++ [OTake] ->
  rawok ops1 = true -> ptail_ok_from init ops1 = true -> ptail_ok_from init ops2 = true ->
  Markers.redact_b (o_bytes o1) = Markers.redact_b (o_bytes o2).
Proof. intros Ho Hh Hns Ha. apply sprintf_tree_noninterference; auto; [now left | now apply lrel_vrel_list]. Qed.

Theorem sprint_leaf_noninterference fuel env a1 a2 o1 o2 :
  osane (orc env) -> hook_ok env -> Forall2 lrel a1 a2 ->
  sprint fuel env a1 = ROk o1 -> sprint fuel env a2 = ROk o2 ->
  forall ops1 ops2, o_log o1 = ops1 ++ [OTake] -> o_log o2 = ops2 ++ [OTake] ->
  rawok ops1 = true -> ptail_ok_from init ops1 = true -> ptail_ok_from init ops2 = true ->
  Markers.redact_b (o_bytes o1) = Markers.redact_b (o_bytes o2).
Proof. intros Ho Hh Ha. apply sprint_tree_noninterference; auto. now apply lrel_vrel_list. Qed.

Print Assumptions sprintf_tree_noninterference.
Print Assumptions sprint_tree_noninterference.
Print Assumptions sprintf_leaf_noninterference.
