(* Layer 0: bytes, markers, basic list helpers.  Model definitions only. *)
From Coq Require Export List NArith ZArith Bool Lia.
Export ListNotations.
Open Scope N_scope.

Definition byte := N.
Definition bytes := list N.

(* U+2039 and U+203A in UTF-8 (internal/markers/constants.go). *)
Definition startB : bytes := [226; 128; 185].
Definition endB   : bytes := [226; 128; 186].
Definition escB   : bytes := [63].                      (* '?' *)
Definition crossB : bytes := [195; 151].                (* U+00D7 *)
Definition redactedB : bytes := startB ++ crossB ++ endB.
Definition LF : N := 10.
Definition SP : N := 32.

Fixpoint beq (a b : bytes) : bool :=
  match a, b with
  | [], [] => true
  | x :: a', y :: b' => (x =? y) && beq a' b'
  | _, _ => false
  end.

(* is_prefix p s : s starts with p *)
Fixpoint is_prefix (p s : bytes) : bool :=
  match p, s with
  | [], _ => true
  | x :: p', y :: s' => (x =? y) && is_prefix p' s'
  | _ :: _, [] => false
  end.

(* bytes.HasSuffix *)
Definition has_suffix (s suf : bytes) : bool :=
  is_prefix (rev suf) (rev s).

(* s[:len(s)-n] *)
Definition drop_last (n : nat) (s : bytes) : bytes :=
  firstn (length s - n) s.

Definition is_start3 (a b c : N) : bool := (a =? 226) && (b =? 128) && (c =? 185).
Definition is_end3   (a b c : N) : bool := (a =? 226) && (b =? 128) && (c =? 186).
