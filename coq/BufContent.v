(* Layer 2: what a Buffer history contributes to its output (definitions only;
   proofs in BufContentP.v).  The two specifications below say, call by call,
   which text ends up outside and inside the envelopes:
     - stripped text  = the payloads in call order, markers replaced by '?'
                        (raw payloads: with their own markers removed);
     - safe text      = the payloads written in safe mode, the line feeds of the
                        payloads written in unsafe mode, the safe text of raw payloads. *)
From Redact Require Export Ops BufInv.
Open Scope N_scope.

Definition lf_toks (ts : list tok) : list tok :=
  filter (fun t => match t with TB b => b =? LF | _ => false end) ts.

(* the bytes a write call appends in mode m *)
Definition payload_of (m : mode) (o : op) : option bytes :=
  match o with
  | OWrite p => Some p
  | OWriteByte c => Some (if mode_eqb m MUnsafe && ((128 <=? c) || (c =? 226)) then escB else [c])
  | OWriteRune r => Some (encode_rune r)
  | _ => None
  end.

Definition strip_contrib (m : mode) (p : bytes) : list tok :=
  match m with MRaw => strip_tok (lex p) | _ => escm_tok (lex p) end.

Definition safe_contrib (m : mode) (p : bytes) : list tok :=
  match m with
  | MRaw => del_env (lex p)
  | MSafe => escm_tok (lex p)
  | MUnsafe => lf_toks (lex p)
  end.

(* fold over the history: current mode, text accumulated since the last Take/Reset *)
Fixpoint spec_from (f : mode -> bytes -> list tok) (m : mode) (acc : list tok) (ops : list op) : list tok :=
  match ops with
  | [] => acc
  | o :: r =>
    match o with
    | OMode m' => spec_from f m' acc r
    | OTake | OReset => spec_from f MUnsafe [] r
    | _ =>
      match payload_of m o with
      | Some p => spec_from f m (acc ++ f m p) r
      | None => spec_from f m acc r
      end
    end
  end.

Definition spec_strip (ops : list op) : list tok := spec_from strip_contrib MUnsafe [] ops.
Definition spec_safe (ops : list op) : list tok := spec_from safe_contrib MUnsafe [] ops.

(* Side conditions under which the two equalities are claimed: no payload ends
   with a proper prefix of a marker (so that consecutive payloads lex
   independently), and no escaping pass finds a dangling UTF-8 tail (the case in
   which the code appends one '?').  Every valid-UTF-8 payload satisfies the
   first; the second is evaluated on the run itself. *)
Definition tail_ok (b : buffer) : bool :=
  match bmode b with MRaw => true | _ => negb (last_invalid (buf b)) end.

Definition content_op_ok (b : buffer) (o : op) : bool :=
  match o with
  | OMode m' => mode_eqb (bmode b) m' || tail_ok b
  | OTake => tail_ok b
  | _ =>
    match payload_of (bmode b) o with
    | Some p => pstb 0 p =? 0
    | None => true
    end
  end.

Fixpoint content_ok_from (b : buffer) (ops : list op) : bool :=
  match ops with
  | [] => tail_ok b
  | o :: r => content_op_ok b o && content_ok_from (fst (step b o)) r
  end.
Definition content_ok (ops : list op) : bool := content_ok_from init ops.
