(* %w in the method dispatch (handleMethods), HelperForErrorf. *)
From Redact Require Import Bytes Tokens Utf8 Buffer Ops BufInv Fmt Value LBuf Printer Api.
Import List ListNotations.
Open Scope Z_scope.

(* A correctly used %w (HelperForErrorf, error operand, nothing captured yet) records the
   operand and is from there on exactly the v dispatch. *)
Theorem w_is_v_dispatch rec env s a :
  erroring s = false -> parg s = Some a -> is_error a = true ->
  wrapErrs s = true -> wrappedErr s = None ->
  handleMethods rec env 119 s = handleMethods rec env 118 (set_wrappedErr s (Some a)).
Proof.
  intros He Ha Hi Hw1 Hw2. unfold handleMethods, bind, Printer.get, modify, ret.
  destruct s as [l v ar vl f ro g pn er we wd]. cbn in *. subst er ar we wd. rewrite Hi. cbn.
  reflexivity.
Qed.

(* Every other use of %w reaching the dispatch - operand not an error, not inside
   HelperForErrorf, or a second %w - is reported as a bad verb, and the capture is cancelled. *)
Theorem w_misuse_is_bad_verb rec env s a :
  erroring s = false -> parg s = Some a ->
  (is_error a = false \/ wrapErrs s = false \/ wrappedErr s <> None) ->
  handleMethods rec env 119 s =
  (modify (fun s => set_wrapErrs (set_wrappedErr s None) false) ;;; rec (CBadVerb 119) ;;; ret true) s.
Proof.
  intros He Ha Hm. unfold handleMethods at 1. unfold bind at 1. unfold Printer.get at 1. cbv beta.
  rewrite He, Ha. cbn [Z.eqb Pos.eqb andb].
  assert (negb (is_error a) || negb (wrapErrs s) || match wrappedErr s with Some _ => true | None => false end = true) as ->.
  { destruct Hm as [H|[H|H]].
    - rewrite H. reflexivity.
    - rewrite H. cbn. rewrite orb_true_r. reflexivity.
    - destruct (wrappedErr s); [apply orb_true_r | congruence]. }
  reflexivity.
Qed.

(* ---------- outside HelperForErrorf nothing is ever captured ---------- *)
Definition NW (s : pst) : Prop := wrapErrs s = false /\ wrappedErr s = None.
Definition pw {A} (m : M A) : Prop := forall s, NW s -> NW (snd (m s)).

Lemma pw_ret {A} (a : A) : pw (ret a). Proof. intros s H; exact H. Qed.
Lemma pw_const {A} (r : res A) : pw (fun s => (r, s)). Proof. intros s H; exact H. Qed.
Lemma pw_bind {A B} (m : M A) (k : A -> M B) : pw m -> (forall a, pw (k a)) -> pw (bind m k).
Proof.
  intros Hm Hk s H. unfold bind. pose proof (Hm s H) as H1.
  destruct (m s) as [[a|v| |w] s1]; cbn [snd] in *; auto. now apply Hk.
Qed.
Lemma pw_get : pw Printer.get. Proof. intros s H; exact H. Qed.
Lemma pw_getf : pw getf. Proof. intros s H; exact H. Qed.
Lemma pw_get_mode : pw get_mode. Proof. intros s H; exact H. Qed.
Lemma pw_panic {A} v : pw (@panic A v). Proof. intros s H; exact H. Qed.
Lemma pw_missc {A} w : pw (@missc A w). Proof. intros s H; exact H. Qed.
Lemma pw_miss {A} : pw (@miss A). Proof. intros s H; exact H. Qed.
Lemma pw_of_opt {A} (o : option A) : pw (of_opt o).
Proof. destruct o; [apply pw_ret | apply pw_miss]. Qed.
Lemma pw_modify (f : pst -> pst) :
  (forall s, wrapErrs (f s) = wrapErrs s /\ wrappedErr (f s) = wrappedErr s) -> pw (modify f).
Proof. intros Hf s [H1 H2]. unfold modify, NW. cbn [snd]. destruct (Hf s) as [-> ->]. auto. Qed.
Lemma pw_clear : pw (modify (fun s0 : pst => set_wrapErrs (set_wrappedErr s0 None) false)).
Proof. intros s _. split; reflexivity. Qed.
Lemma pw_bop o : pw (bop o).
Proof. intros s H. unfold bop. destruct (l_step (pl s) o). cbn [snd]. destruct s; exact H. Qed.
Lemma pw_w1 w : pw (w1 w).
Proof. destruct w; cbn [w1]; (apply pw_bind; [apply pw_bop | intros; apply pw_ret]). Qed.
Lemma pw_wr ws : pw (wr ws).
Proof. induction ws as [|w r IH]; cbn [wr]; [apply pw_ret|]. apply pw_bind; [apply pw_w1 | intros; exact IH]. Qed.
Lemma pw_wstr str : pw (wstr str). Proof. apply pw_w1. Qed.
Lemma pw_wbyte c : pw (wbyte c). Proof. apply pw_w1. Qed.
Lemma pw_set_mode m : pw (set_mode_m m).
Proof. unfold set_mode_m. apply pw_bind; [apply pw_bop | intros; apply pw_ret]. Qed.

Ltac pw_mod := apply pw_modify; intros ?; split; reflexivity.
Lemma pw_start_unsafe : pw start_unsafe.
Proof. unfold start_unsafe. repeat (apply pw_bind; [|intros ?]); try apply pw_get_mode; try apply pw_get; try apply pw_ret.
  destruct (ovr_eqb _ _); [apply pw_ret | apply pw_set_mode]. Qed.
Lemma pw_start_prered : pw start_prered.
Proof. unfold start_prered. repeat (apply pw_bind; [|intros ?]); try apply pw_get_mode; try apply pw_get; try apply pw_ret.
  destruct (ovr_eqb _ _); [apply pw_ret | apply pw_set_mode]. Qed.
Lemma pw_start_safe_ovr : pw start_safe_ovr.
Proof. unfold start_safe_ovr. repeat (apply pw_bind; [|intros ?]); try apply pw_get_mode; try apply pw_get; try apply pw_ret.
  destruct (ovr_eqb _ _); [|apply pw_ret]. apply pw_bind; [apply pw_set_mode | intros; pw_mod]. Qed.
Lemma pw_start_unsafe_ovr : pw start_unsafe_ovr.
Proof. unfold start_unsafe_ovr. repeat (apply pw_bind; [|intros ?]); try apply pw_get_mode; try apply pw_get; try apply pw_ret.
  destruct (ovr_eqb _ _); [|apply pw_ret]. apply pw_bind; [apply pw_set_mode | intros; pw_mod]. Qed.
Lemma pw_restore r : pw (restore r).
Proof. unfold restore. apply pw_bind; [apply pw_set_mode | intros; pw_mod]. Qed.

Lemma pw_bracket {A} (st : M restorer) (body : M A) : pw st -> pw body -> pw (bracket st body).
Proof.
  intros Hst Hb s H. unfold bracket. pose proof (Hst s H) as H1.
  destruct (st s) as [[r|v| |w] s1]; cbn [snd] in *; auto.
  pose proof (Hb s1 H1) as H2. destruct (body s1) as [o s2]. cbn [snd] in *.
  pose proof (pw_restore r s2 H2) as H3. destruct (restore r s2) as [x s3]. exact H3.
Qed.
Lemma pw_bracket_if {A} c (st : M restorer) (body : M A) : pw st -> pw body -> pw (bracket_if c st body).
Proof. intros. unfold bracket_if. destruct c; [now apply pw_bracket | assumption]. Qed.
Lemma pw_enter_safe : pw enter_safe.
Proof. unfold enter_safe. apply pw_bind; [apply pw_get | intros s0]. destruct (ovr_eqb _ _); [apply pw_ret | apply pw_set_mode]. Qed.

(* the nested printer is a fresh printer: whatever it captures stays there *)
Lemma pw_nested rec c : pw (nested rec c).
Proof.
  intros s H. unfold nested, bind, get_mode.
  destruct (rec c (fresh_pp (pl s) (povr s))) as [o ns'].
  pose proof (pw_set_mode (bmode (lb (pl s))) (set_pl s (pl ns'))) as Hs.
  destruct (set_mode_m (bmode (lb (pl s))) (set_pl s (pl ns'))) as [x s'']. cbn [snd] in *.
  apply Hs. destruct s; exact H.
Qed.

Definition rec_pw (rec : recT) : Prop := forall c, pw (rec c).

Ltac pstarts := first [apply pw_start_unsafe | apply pw_start_prered | apply pw_start_safe_ovr | apply pw_start_unsafe_ovr].
Ltac pw1 :=
  match goal with
  | |- pw (ret _) => apply pw_ret
  | |- pw (wr _) => apply pw_wr
  | |- pw (w1 _) => apply pw_w1
  | |- pw (wstr _) => apply pw_wstr
  | |- pw (wbyte _) => apply pw_wbyte
  | |- pw getf => apply pw_getf
  | |- pw Printer.get => apply pw_get
  | |- pw get_mode => apply pw_get_mode
  | |- pw (of_opt _) => apply pw_of_opt
  | |- pw miss => apply pw_miss
  | |- pw (missc _) => apply pw_missc
  | |- pw (panic _) => apply pw_panic
  | |- pw enter_safe => apply pw_enter_safe
  | |- pw (nested _ _) => apply pw_nested
  | H : rec_pw ?rec |- pw (?rec _) => apply H
  | |- pw (bracket _ _) => apply pw_bracket; [ pstarts | ]
  | |- pw (bracket_if _ _ _) => apply pw_bracket_if; [ pstarts | ]
  | |- pw (bind _ _) => apply pw_bind; [ | intros ?]
  | |- pw (modify _) => apply pw_modify; intros ?; split; reflexivity
  | |- pw (fun s => (RFuel, s)) => apply pw_const
  | |- pw (if ?c then _ else _) => destruct c
  | |- pw (match ?x with _ => _ end) => destruct x
  | |- _ => assumption
  end.
Ltac pwt := repeat pw1.

Section Rec.
  Variable rec : recT.
  Variable env : env.
  Hypothesis Hrec : rec_pw rec.

  Lemma pw_fmtBool v verb : pw (fmtBool rec v verb). Proof. unfold fmtBool. pwt. Qed.
  Lemma pw_fmt0x64 v l : pw (fmt0x64 v l). Proof. unfold fmt0x64. pwt. Qed.
  Lemma pw_fmtInteger v sg verb : pw (fmtInteger rec env v sg verb). Proof. unfold fmtInteger. pwt; apply pw_fmt0x64. Qed.
  Lemma pw_fmtFloat b sz verb : pw (fmtFloat rec env b sz verb). Proof. unfold fmtFloat. pwt. Qed.
  Lemma pw_fmtString v verb : pw (fmtString rec env v verb). Proof. unfold fmtString. pwt. Qed.
  Lemma pw_bytes_sharp v : forall first, pw (bytes_sharp first v).
  Proof. induction v as [|c r IH]; intros first; cbn [bytes_sharp]; [apply pw_ret|]. pwt; first [apply pw_fmt0x64 | apply IH]. Qed.
  Lemma pw_bytes_plain verb v : forall first, pw (bytes_plain first verb v).
  Proof. induction v as [|c r IH]; intros first; cbn [bytes_plain]; [apply pw_ret|]. pwt. apply IH. Qed.
  Lemma pw_fmtBytes self v isnil verb ts : pw (fmtBytes rec env self v isnil verb ts).
  Proof. unfold fmtBytes. pwt; first [apply pw_bytes_sharp | apply pw_bytes_plain]. Qed.
  Lemma pw_fmtPointer v verb : pw (fmtPointer rec env v verb).
  Proof. unfold fmtPointer. pwt; first [apply pw_fmt0x64 | apply pw_fmtInteger]. Qed.
  Lemma pw_badVerb verb : pw (badVerb rec verb). Proof. unfold badVerb. pwt. Qed.

  Lemma pw_catch_panic arg verb method body : pw body -> pw (catch_panic rec arg verb method body).
  Proof.
    intros Hb s H. unfold catch_panic. pose proof (Hb s H) as H1.
    destruct (body s) as [[a|v| |w] s1]; cbn [snd] in *; auto.
    destruct (is_nil_ptr arg).
    { match goal with |- NW (snd (?m s1)) => assert (pw m) as Hm by (unfold wstr; apply pw_w1) end. now apply Hm. }
    destruct (panicking s1); [exact H1|].
    match goal with |- NW (snd (?m s1)) => assert (pw m) as Hm by pwt end. now apply Hm.
  Qed.

  Lemma pw_string_method acts : pw (string_method acts).
  Proof. induction acts as [|a r IH]; cbn [string_method]; [apply pw_ret|]. destruct a; pwt. Qed.
  Lemma pw_user_string self : pw (user_string self).
  Proof. unfold user_string. destruct self; pwt; apply pw_string_method. Qed.

  (* the one place that captures: unreachable without wrapErrs *)
  Lemma pw_handleMethods verb : pw (handleMethods rec env verb).
  Proof.
    intros s H. unfold handleMethods. unfold bind at 1. unfold Printer.get at 1. cbv beta.
    destruct (erroring s); [exact H|].
    destruct (parg s) as [a|].
    - destruct H as [Hw1 Hw2].
      assert (((verb =? 119) && (negb (is_error a) || negb (wrapErrs s) || match wrappedErr s with Some _ => true | None => false end))
              = (verb =? 119)) as ->.
      { rewrite Hw1. cbn. rewrite orb_true_r. cbn. apply andb_true_r. }
      destruct (verb =? 119) eqn:Ev.
      + match goal with |- NW (snd (?m s)) => assert (pw m) as Hm by (repeat first [apply pw_clear | pw1]) end. apply Hm. split; assumption.
      + match goal with |- NW (snd (?m s)) => assert (pw m) as Hm end; [|apply Hm; split; assumption].
        repeat first [ pw1 | apply pw_catch_panic | apply pw_fmtString | apply pw_user_string ].
    - destruct (verb =? 119).
      + match goal with |- NW (snd (?m s)) => assert (pw m) as Hm by (repeat first [apply pw_clear | pw1]) end. now apply Hm.
      + exact H.
  Qed.

  Lemma pw_for_elems sep es verb depth ci : pw sep -> forall first, pw (for_elems rec sep first es verb depth ci).
  Proof. intros Hs. induction es as [|e r IH]; intros first; cbn [for_elems]; [apply pw_ret|]. pwt. apply IH. Qed.
  Lemma pw_for_kvs sep kvs verb depth ci : pw sep -> forall first, pw (for_kvs rec sep first kvs verb depth ci).
  Proof. intros Hs. induction kvs as [|[k v] r IH]; intros first; cbn [for_kvs]; [apply pw_ret|]. pwt. apply IH. Qed.
  Lemma pw_for_fields sep names fs verb depth ci : pw sep -> forall first, pw (for_fields rec sep names first fs verb depth ci).
  Proof. intros Hs. induction fs as [|[[n e] v] r IH]; intros first; cbn [for_fields]; [apply pw_ret|]. pwt. apply IH. Qed.

  Ltac pw2 :=
    repeat first [ pw1 | apply pw_catch_panic
                 | apply pw_fmtBool | apply pw_fmtInteger | apply pw_fmtFloat
                 | apply pw_fmtString | apply pw_fmtBytes | apply pw_fmtPointer
                 | apply pw_badVerb | apply pw_user_string | apply pw_handleMethods
                 | apply pw_for_elems | apply pw_for_kvs | apply pw_for_fields ].

  Lemma pw_print_kind fuel : forall value verb depth ci, pw (print_kind fuel rec env value verb depth ci).
  Proof. induction fuel as [|k IH]; intros value verb depth ci; destruct value; cbn [print_kind]; pw2. apply IH. Qed.
  Lemma pw_printValue value verb depth ci : pw (printValue rec env value verb depth ci).
  Proof. unfold printValue. destruct depth; destruct value; pw2; try apply pw_print_kind. Qed.
  Lemma pw_printArg_body arg verb : pw (printArg_body rec env arg verb).
  Proof. unfold printArg_body, printArg_inner. pw2. Qed.
  Lemma pw_printArg arg verb : pw (printArg rec env arg verb).
  Proof. unfold printArg. pw2; apply pw_printArg_body. Qed.
  Lemma pw_run_action self verb a : pw (run_action rec env self verb a).
  Proof. destruct a; cbn [run_action]; pw2. Qed.
  Lemma pw_run_acts self verb acts : pw (run_acts rec env self verb acts).
  Proof. induction acts as [|a r IH]; cbn [run_acts]; [apply pw_ret|]. pwt; first [apply pw_run_action | apply IH]. Qed.
  Lemma pw_doPrint_loop a : forall argNum prev, pw (doPrint_loop rec argNum prev a).
  Proof. induction a as [|x r IH]; intros argNum prev; cbn [doPrint_loop]; [apply pw_ret|]. pwt. apply IH. Qed.
  Lemma pw_doPrint a : pw (doPrint rec a). Proof. unfold doPrint. pwt. apply pw_doPrint_loop. Qed.
  Lemma pw_argNumber argNum f i e numArgs : pw (argNumber argNum f i e numArgs). Proof. unfold argNumber. pwt. Qed.
  Lemma pw_upd_flags g : pw (upd_flags g). Proof. unfold upd_flags. pwt. Qed.
  Lemma pw_clearflags : pw clearflags. Proof. unfold clearflags. pwt. Qed.
  Lemma pw_flag_loop fuel f e argNum numArgs : forall i, pw (flag_loop fuel f i e argNum numArgs).
  Proof. induction fuel as [|k IH]; intros i; cbn [flag_loop]; [apply pw_ret|]. repeat first [pw1 | apply pw_upd_flags | apply IH]. Qed.
  Lemma pw_extra_args a : forall first, pw (extra_args rec first a).
  Proof. induction a as [|x r IH]; intros first; cbn [extra_args]; [apply pw_ret|]. pwt. apply IH. Qed.
  Lemma pw_format_loop fuel f a : forall i argNum afterIndex, pw (format_loop fuel rec f a i argNum afterIndex).
  Proof.
    induction fuel as [|k IH]; intros i argNum afterIndex; cbn [format_loop]; [apply pw_const|].
    repeat first [ pw1 | apply pw_upd_flags | apply pw_clearflags | apply pw_flag_loop | apply pw_argNumber | apply IH
                 | match goal with |- pw (let '(_, _) := ?e in _) => destruct e end ].
  Qed.
  Lemma pw_doPrintf f a : pw (doPrintf rec f a).
  Proof. unfold doPrintf. repeat first [ pw1 | apply pw_clearflags | apply pw_format_loop | apply pw_extra_args ]. Qed.
End Rec.

Theorem pw_ev fuel env : forall c, pw (ev fuel env c).
Proof.
  induction fuel as [|k IH]; intros c; cbn [ev]; [apply pw_const|].
  destruct c; pwt;
    first [ apply pw_printArg | apply pw_printValue | apply pw_badVerb | apply pw_handleMethods
          | apply pw_doPrintf | apply pw_doPrint | apply pw_run_acts ]; exact IH.
Qed.

(* Sprint, Sprintf, Sprintfn (everything but HelperForErrorf) return no captured error. *)
Theorem no_capture_outside_errorf fuel env f a acts o :
  (sprintf fuel env f a = ROk o \/ sprint fuel env a = ROk o \/ sprintfn fuel env acts = ROk o) -> o_err o = None.
Proof.
  assert (forall c o, finish (ev fuel env c newPrinter) = ROk o -> o_err o = None) as H.
  { intros c o0 Hf. unfold finish in Hf.
    pose proof (pw_ev fuel env c newPrinter (conj eq_refl eq_refl)) as [_ Hn].
    destruct (ev fuel env c newPrinter) as [[x|v| |w] s]; try discriminate. cbn [snd] in Hn.
    destruct (l_step (pl s) OTake) as [l ob]. injection Hf as <-. exact Hn. }
  intros [Hs|[Hs|Hs]]; eapply H; exact Hs.
Qed.

Print Assumptions w_is_v_dispatch.
Print Assumptions no_capture_outside_errorf.
