(* Proofs about Layer 1: the token-level models of Redact / StripMarkers /
   EscapeMarkers. *)
From Redact Require Import Bytes Tokens Markers TokensP.
Open Scope N_scope.

(* ---------- EscapeMarkers ---------- *)

Lemma esc_tok_idem t : esc_tok (esc_tok t) = esc_tok t.
Proof. destruct t; reflexivity. Qed.

Lemma escm_tok_idem ts : escm_tok (escm_tok ts) = escm_tok ts.
Proof. unfold escm_tok. rewrite map_map. apply map_ext. apply esc_tok_idem. Qed.

Lemma escm_tok_no_marker ts : no_marker (escm_tok ts) = true.
Proof. induction ts as [|[| |b] r IH]; cbn; auto. Qed.

Lemma escm_tok_length ts : length (escm_tok ts) = length ts.
Proof. apply map_length. Qed.

Lemma win_63_1 b c r : win_ok (TB 63) (TB b :: TB c :: r) = true.
Proof. reflexivity. Qed.
Lemma win_63_2 a c r : win_ok (TB a) (TB 63 :: TB c :: r) = true.
Proof. cbn. unfold is_start3, is_end3. cbn. rewrite !andb_false_r. reflexivity. Qed.
Lemma win_63_3 a b r : win_ok (TB a) (TB b :: TB 63 :: r) = true.
Proof. cbn. unfold is_start3, is_end3. cbn. rewrite !andb_false_r. reflexivity. Qed.

Lemma canonical_escm ts : canonical ts = true -> canonical (escm_tok ts) = true.
Proof.
  induction ts as [|t r IH]; [reflexivity|].
  cbn [canonical escm_tok map]. rewrite !andb_true_iff. intros [Hw Hc].
  split; [|apply IH; exact Hc].
  destruct t as [| |a]; cbn [esc_tok].
  - destruct r as [|[| |b] [|[| |c] r']]; reflexivity.
  - destruct r as [|[| |b] [|[| |c] r']]; reflexivity.
  - destruct r as [|[| |b] [|[| |c] r']]; cbn [map esc_tok]; try reflexivity;
      try apply win_63_2; try apply win_63_3.
    exact Hw.
Qed.

Theorem lex_escape_markers b : lex (escape_markers_b b) = escm_tok (lex b).
Proof.
  unfold escape_markers_b. apply lex_unlex. apply canonical_escm. apply lex_canonical.
Qed.

Theorem escape_markers_no_marker b : no_marker (lex (escape_markers_b b)) = true.
Proof. rewrite lex_escape_markers. apply escm_tok_no_marker. Qed.

Theorem escape_markers_idem b : escape_markers_b (escape_markers_b b) = escape_markers_b b.
Proof.
  unfold escape_markers_b at 1. rewrite lex_escape_markers, escm_tok_idem. reflexivity.
Qed.

(* A string without markers is left alone. *)
Lemma escm_tok_id ts : no_marker ts = true -> escm_tok ts = ts.
Proof.
  induction ts as [|[| |b] r IH]; cbn; intros H; try discriminate; [reflexivity|].
  f_equal. apply IH. exact H.
Qed.
Theorem escape_markers_id b : no_marker (lex b) = true -> escape_markers_b b = b.
Proof. intros H. unfold escape_markers_b. rewrite escm_tok_id by exact H. apply unlex_lex. Qed.

(* ---------- StripMarkers ---------- *)

Lemma strip_tok_no_marker ts : no_marker (strip_tok ts) = true.
Proof. induction ts as [|[| |b] r IH]; cbn; auto. Qed.

Lemma strip_tok_idem ts : strip_tok (strip_tok ts) = strip_tok ts.
Proof. induction ts as [|[| |b] r IH]; cbn; auto. f_equal. exact IH. Qed.

Lemma strip_tok_app a b : strip_tok (a ++ b) = strip_tok a ++ strip_tok b.
Proof. apply filter_app. Qed.

(* ---------- Redact on well-formed token lists ---------- *)

Lemma redact_wf_gen ts :
  (wf_aux false ts = true ->
     wf_aux false (redact_aux None ts) = true
     /\ del_env_aux false (redact_aux None ts) = del_env_aux false ts
     /\ n_env (redact_aux None ts) = n_env ts
     /\ linesafe_aux false (redact_aux None ts) = true)
  /\ (wf_aux true ts = true -> forall p,
     wf_aux false (redact_aux (Some p) ts) = true
     /\ del_env_aux false (redact_aux (Some p) ts) = del_env_aux true ts
     /\ n_env (redact_aux (Some p) ts) = S (n_env ts)
     /\ linesafe_aux false (redact_aux (Some p) ts) = true).
Proof.
  induction ts as [|t r [IH0 IH1]].
  - split; [intros _; repeat split; reflexivity | intros H; discriminate].
  - destruct t as [| |b].
    + split; [|intros H; discriminate].
      cbn [wf_aux]. intros H. cbn [redact_aux flush app].
      destruct (IH1 H []) as (A & B & C & D). cbn [del_env_aux n_env]. auto.
    + split; [intros H; discriminate|].
      cbn [wf_aux]. intros H p. cbn [redact_aux].
      destruct (IH0 H) as (A & B & C & D).
      cbn [wf_aux del_env_aux n_env linesafe_aux]. cbn. repeat split; auto.
    + split.
      * cbn [wf_aux]. intros H. cbn [redact_aux].
        destruct (IH0 H) as (A & B & C & D).
        cbn [wf_aux del_env_aux n_env linesafe_aux andb]. repeat split; auto. now rewrite B.
      * cbn [wf_aux]. intros H p. cbn [redact_aux].
        destruct (IH1 H (TB b :: p)) as (A & B & C & D).
        cbn [del_env_aux n_env]. auto.
Qed.

Theorem redact_tok_wf ts : wf ts = true -> wf (redact_tok ts) = true.
Proof. intros H. apply (proj1 (redact_wf_gen ts) H). Qed.
Theorem redact_tok_del_env ts : wf ts = true -> del_env (redact_tok ts) = del_env ts.
Proof. intros H. apply (proj1 (redact_wf_gen ts) H). Qed.
Theorem redact_tok_n_env ts : wf ts = true -> n_env (redact_tok ts) = n_env ts.
Proof. intros H. apply (proj1 (redact_wf_gen ts) H). Qed.
Theorem redact_tok_linesafe ts : wf ts = true -> linesafe (redact_tok ts) = true.
Proof. intros H. apply (proj1 (redact_wf_gen ts) H). Qed.

(* ---------- A simpler form of Redact on well-formed input ---------- *)

Fixpoint redact_s (opn : bool) (ts : list tok) : list tok :=
  match ts with
  | [] => []
  | TS :: r => TS :: TB 195 :: TB 151 :: redact_s true r
  | TE :: r => TE :: redact_s false r
  | TB b :: r => if opn then redact_s opn r else TB b :: redact_s opn r
  end.

Lemma redact_aux_s ts :
  (wf_aux false ts = true -> redact_aux None ts = redact_s false ts)
  /\ (wf_aux true ts = true -> forall p,
        redact_aux (Some p) ts = TS :: TB 195 :: TB 151 :: redact_s true ts).
Proof.
  induction ts as [|t r [IH0 IH1]].
  - split; [reflexivity | intros H; discriminate].
  - destruct t as [| |b]; cbn [wf_aux].
    + split; [|intros H; discriminate]. intros H. cbn [redact_aux flush app redact_s].
      apply IH1. exact H.
    + split; [intros H; discriminate|]. intros H p. cbn [redact_aux redact_s].
      now rewrite IH0.
    + split.
      * intros H. cbn [redact_aux redact_s]. now rewrite IH0.
      * intros H p. cbn [redact_aux redact_s]. now apply IH1.
Qed.

Lemma redact_s_open_head ts :
  match redact_s true ts with TB _ :: _ => False | _ => True end.
Proof.
  induction ts as [|[| |b] r IH]; cbn; auto.
Qed.

Lemma canonical_redact_s ts : canonical ts = true -> forall opn, canonical (redact_s opn ts) = true.
Proof.
  induction ts as [|t r IH]; [reflexivity|].
  cbn [canonical]. rewrite andb_true_iff. intros [Hw Hc] opn.
  specialize (IH Hc).
  destruct t as [| |b]; cbn [redact_s].
  - cbn [canonical win_ok]. rewrite IH, !andb_true_r.
    pose proof (redact_s_open_head r) as Hh.
    destruct (redact_s true r) as [|[| |x] t']; try reflexivity. contradiction.
  - cbn [canonical win_ok]. apply IH.
  - destruct opn; [apply IH|].
    cbn [canonical]. rewrite IH, andb_true_r.
    destruct r as [|[| |x] r1]; try reflexivity.
    cbn [redact_s].
    destruct r1 as [|[| |y] r2]; try reflexivity.
    cbn [redact_s]. exact Hw.
Qed.

(* Byte-level statements for well-formed input. *)
Lemma lex_redact_b s :
  wf (lex s) = true -> lex (redact_b s) = redact_tok (lex s).
Proof.
  intros H. unfold redact_b. apply lex_unlex.
  unfold redact_tok. rewrite (proj1 (redact_aux_s (lex s)) H).
  apply canonical_redact_s. apply lex_canonical.
Qed.

Lemma redact_s_idem ts opn : redact_s opn (redact_s opn ts) = redact_s opn ts.
Proof.
  revert opn. induction ts as [|[| |b] r IH]; intros opn; cbn [redact_s]; auto.
  - cbn [redact_s]. now rewrite IH.
  - now rewrite IH.
  - destruct opn; [apply IH|]. cbn [redact_s]. now rewrite IH.
Qed.

Lemma wf_redact_s ts opn : wf_aux opn ts = true -> wf_aux opn (redact_s opn ts) = true.
Proof.
  revert opn. induction ts as [|[| |b] r IH]; intros opn; cbn [redact_s wf_aux]; auto.
  - destruct opn; [discriminate|]. apply IH.
  - destruct opn; [|discriminate]. apply IH.
  - destruct opn; [apply IH|]. cbn [wf_aux]. apply IH.
Qed.

Theorem redact_b_idem_wf s : wf (lex s) = true -> redact_b (redact_b s) = redact_b s.
Proof.
  intros H. unfold redact_b at 1. rewrite lex_redact_b by exact H.
  unfold redact_b. f_equal.
  unfold redact_tok.
  rewrite (proj1 (redact_aux_s (lex s)) H).
  rewrite (proj1 (redact_aux_s _) (wf_redact_s _ false H)).
  apply redact_s_idem.
Qed.

(* Every envelope of the result holds exactly the cross. *)
Lemma env_content_redact_s ts opn :
  forallb (fun t => match t with TB x => (x =? 195) || (x =? 151) | _ => false end)
          (env_content_aux opn (redact_s opn ts)) = true.
Proof.
  revert opn. induction ts as [|[| |b] r IH]; intros opn; cbn [redact_s env_content_aux]; auto.
  - cbn. apply IH.
  - destruct opn; [apply IH|]. cbn [env_content_aux]. apply IH.
Qed.

(* ---------- StripMarkers on arbitrary input: the claim is false ---------- *)

(* E2 ‹ 80 B9: deleting the marker joins the partial-marker bytes. *)
Lemma strip_arbitrary_refuted :
  exists s, no_marker (lex (strip_b s)) = false.
Proof. exists [226; 226; 128; 185; 128; 185]. vm_compute. reflexivity. Qed.

(* What does hold: when the stripped token list is canonical (true of every
   string in which no marker is preceded by a proper marker prefix), no marker
   remains, and only the delimiters were removed. *)
Theorem strip_b_no_marker s :
  canonical (strip_tok (lex s)) = true -> no_marker (lex (strip_b s)) = true.
Proof.
  intros H. unfold strip_b. rewrite lex_unlex by exact H. apply strip_tok_no_marker.
Qed.
