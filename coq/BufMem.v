(* Layer 2, memory level: internal/buffer/buffer.go on a heap of byte arrays.
   A Go slice is (array, len) - every slice expression of buffer.go starts at offset 0 - and
   cap is the length of the array.  A Buffer struct is a value: copying it (value receivers
   RedactableString/RedactableBytes/String, "copy := *b" in Len) copies array id, len,
   validUntil, mode, markerOpen and SHARES the array.  Slice expressions and indexed writes are
   CHECKED: an out-of-range access makes the operation return None (a Go runtime panic).
   The capacity of a slice grown by append inside InternalEscapeBytes is decided by the Go
   runtime: it is a parameter [ecap] of the step (any value; the array is at least as long as
   its content). *)
From Redact Require Export Ops.
Import List ListNotations.
Open Scope N_scope.

Definition heap := list (list N).

Record cbuf := mkC {
  carr : option nat;       (* None: nil slice *)
  clen : nat;
  cvalid : nat;
  cmode : mode;
  copen : bool
}.

Definition cinit : cbuf := mkC None 0 0 MUnsafe false.

Definition arr (h : heap) (id : nat) : list N := nth id h [].
Definition ccap (h : heap) (c : cbuf) : nat :=
  match carr c with Some id => length (arr h id) | None => 0%nat end.
(* b.buf as a byte string *)
Definition cread (h : heap) (c : cbuf) : bytes :=
  match carr c with Some id => firstn (clen c) (arr h id) | None => [] end.

Definition set_clen (c : cbuf) (n : nat) : cbuf := mkC (carr c) n (cvalid c) (cmode c) (copen c).
Definition set_cvalid (c : cbuf) (n : nat) : cbuf := mkC (carr c) (clen c) n (cmode c) (copen c).
Definition set_copen (c : cbuf) (o : bool) : cbuf := mkC (carr c) (clen c) (cvalid c) (cmode c) o.
Definition set_cmode (c : cbuf) (m : mode) : cbuf := mkC (carr c) (clen c) (cvalid c) m (copen c).
Definition set_carr (c : cbuf) (a : option nat) (n : nat) : cbuf := mkC a n (cvalid c) (cmode c) (copen c).

(* replace the elements [off, off + |p|) of a list; None if out of range *)
Definition splice (l : list N) (off : nat) (p : bytes) : option (list N) :=
  if (off + length p <=? length l)%nat then Some (firstn off l ++ p ++ skipn (off + length p) l) else None.

Fixpoint set_nth {A} (l : list A) (i : nat) (x : A) : list A :=
  match l, i with
  | [], _ => []
  | _ :: r, O => x :: r
  | y :: r, S k => y :: set_nth r k x
  end.

(* copy(b.buf[m:], p) with m + |p| = len(b.buf): write p at offset m of the array *)
Definition cwrite_at (h : heap) (c : cbuf) (m : nat) (p : bytes) : option heap :=
  match carr c with
  | Some id =>
    if (m + length p <=? clen c)%nat then
      match splice (arr h id) m p with
      | Some a' => Some (set_nth h id a')
      | None => None
      end
    else None
  | None => match p with [] => if (m <=? 0)%nat then Some h else None | _ => None end
  end.

(* b.buf = b.buf[:n] *)
Definition creslice (h : heap) (c : cbuf) (n : nat) : option cbuf :=
  if (n <=? ccap h c)%nat then Some (set_clen c n) else None.

(* tryGrowByReslice(n): Some (l, c') on success *)
Definition ctry_grow (h : heap) (c : cbuf) (n : nat) : option (nat * cbuf) :=
  if (n <=? ccap h c - clen c)%nat then
    match creslice h c (clen c + n) with Some c' => Some (clen c, c') | None => None end
  else None.

Definition zeros_n (n : nat) : list N := repeat 0 n.

(* grow(n): index where the n bytes go; the heap may get a new array.  Outer None: runtime panic *)
Definition cgrow (h : heap) (c : cbuf) (n : nat) : option (nat * heap * cbuf) :=
  match ctry_grow h c n with
  | Some (l, c') => Some (l, h, c')
  | None =>
    let m := clen c in
    match carr c with
    | None =>
      if (n <=? 64)%nat then
        (* make([]byte, n, smallBufferSize) *)
        Some (0%nat, h ++ [zeros_n 64], set_carr c (Some (length h)) n)
      else
        (* c = 0: makeSlice(n), copy nothing, buf[:n] *)
        Some (m, h ++ [zeros_n n], set_carr c (Some (length h)) (m + n))
    | Some id =>
      let cp := length (arr h id) in
      if (n + m <=? cp / 2)%nat then
        (* unreachable after a failed tryGrowByReslice; kept as in the code *)
        match creslice h c (m + n) with Some c' => Some (m, h, c') | None => None end
      else
        let a' := firstn m (arr h id) ++ zeros_n (2 * cp + n - m) in
        Some (m, h ++ [a'], set_carr c (Some (length h)) (m + n))
    end
  end.

(* append n bytes p: grow then copy *)
Definition cappend (h : heap) (c : cbuf) (p : bytes) : option (heap * cbuf) :=
  match cgrow h c (length p) with
  | Some (m, h1, c1) =>
    match cwrite_at h1 c1 m p with Some h2 => Some (h2, c1) | None => None end
  | None => None
  end.

(* startRedactable *)
Definition cstart_redactable (h : heap) (c : cbuf) : option (heap * cbuf) :=
  if has_suffix (cread h c) endB then
    match creslice h c (clen c - 3) with Some c' => Some (h, set_copen c' true) | None => None end
  else
    match cappend h c startB with Some (h', c') => Some (h', set_copen c' true) | None => None end.

(* startWrite *)
Definition cstart_write (h : heap) (c : cbuf) : option (heap * cbuf) :=
  if mode_eqb (cmode c) MUnsafe && negb (copen c) then
    match cstart_redactable h c with
    | Some (h', c') => Some (h', set_cvalid c' (clen c'))
    | None => None
    end
  else Some (h, c).

(* endRedactable *)
Definition cend_redactable (h : heap) (c : cbuf) : option (heap * cbuf) :=
  match clen c with
  | O => Some (h, c)
  | _ =>
    if has_suffix (cread h c) startB then
      match creslice h c (clen c - 3) with Some c' => Some (h, set_copen c' false) | None => None end
    else
      match cappend h c endB with Some (h', c') => Some (h', set_copen c' false) | None => None end
  end.

(* escapeToEnd: InternalEscapeBytes reads b.buf; it returns the same slice when nothing had to be
   escaped, a freshly allocated one (capacity: runtime's choice, at least the length) otherwise *)
Definition cescape_to_end (ecap : nat) (h : heap) (c : cbuf) (bnl : bool) : heap * cbuf :=
  let '(y, copied) := escape_full (cread h c) (cvalid c) bnl false in
  if copied then
    let a' := y ++ zeros_n (ecap - length y) in
    (h ++ [a'], set_cvalid (set_carr c (Some (length h)) (length y)) (length y))
  else (h, set_cvalid c (clen c)).

(* finalize *)
Definition cfinalize (ecap : nat) (h : heap) (c : cbuf) : option (heap * cbuf) :=
  let '(h1, c1) := match cmode c with
                   | MRaw => (h, set_cvalid c (clen c))
                   | m => cescape_to_end ecap h c (mode_eqb m MUnsafe)
                   end in
  if copen c1 then
    match cend_redactable h1 c1 with
    | Some (h2, c2) => Some (h2, set_cvalid c2 (clen c2))
    | None => None
    end
  else Some (h1, c1).

(* SetMode *)
Definition cset_mode (ecap : nat) (h : heap) (c : cbuf) (m : mode) : option (heap * cbuf) :=
  if mode_eqb (cmode c) m then Some (h, c) else
  let '(h1, c1) := match cmode c with
                   | MRaw => (h, c)
                   | m0 => cescape_to_end ecap h c (mode_eqb m0 MUnsafe)
                   end in
  match (if copen c1 then cend_redactable h1 c1 else Some (h1, c1)) with
  | Some (h2, c2) => Some (h2, set_cmode (set_cvalid c2 (clen c2)) m)
  | None => None
  end.

(* Write / WriteString *)
Definition cwrite (h : heap) (c : cbuf) (p : bytes) : option (heap * cbuf) :=
  match cstart_write h c with
  | Some (h1, c1) => cappend h1 c1 p
  | None => None
  end.

(* WriteByte *)
Definition cwrite_byte (h : heap) (c : cbuf) (x : N) : option (heap * cbuf) :=
  match cstart_write h c with
  | Some (h1, c1) =>
    if mode_eqb (cmode c1) MUnsafe && ((128 <=? x) || (x =? 226)) then cwrite h1 c1 escB
    else cappend h1 c1 [x]
  | None => None
  end.

(* WriteRune (as repaired) *)
Definition cwrite_rune (h : heap) (c : cbuf) (r : Z) : option (heap * cbuf) :=
  match cstart_write h c with
  | Some (h1, c1) => cappend h1 c1 (encode_rune r)
  | None => None
  end.

(* Grow(n), n >= 0 *)
Definition cgrow_op (h : heap) (c : cbuf) (n : nat) : option (heap * cbuf) :=
  match cgrow h c n with
  | Some (m, h1, c1) => match creslice h1 c1 m with Some c2 => Some (h1, c2) | None => None end
  | None => None
  end.

(* Take*: the returned slice aliases the array *)
Definition ctake (ecap : nat) (h : heap) (c : cbuf) : option (heap * cbuf * (option nat * nat)) :=
  match cfinalize ecap h c with
  | Some (h1, c1) => Some (h1, mkC None 0 0 MUnsafe (copen c1), (carr c1, clen c1))
  | None => None
  end.

(* Reset keeps the array *)
Definition creset (c : cbuf) : cbuf := mkC (carr c) 0 0 MUnsafe false.

Inductive cobs :=
| CNone
| CN (n : nat)
| CR (r : bytes)
| CAlias (a : option nat) (n : nat)      (* a string sharing the array: TakeRedactableString *)
| CMode (m : mode).

(* one method call.  Accessors with value receivers (and Len's explicit copy) run finalize on a
   COPY of the struct: the heap changes, the struct does not. *)
Definition cstep (ecap : nat) (h : heap) (c : cbuf) (o : op) : option (heap * cbuf * cobs) :=
  let wrap (r : option (heap * cbuf)) := match r with Some (h', c') => Some (h', c', CNone) | None => None end in
  match o with
  | OMode m => wrap (cset_mode ecap h c m)
  | OWrite p => match cwrite h c p with Some (h', c') => Some (h', c', CN (length p)) | None => None end
  | OWriteByte x => wrap (cwrite_byte h c x)
  | OWriteRune r => wrap (cwrite_rune h c r)
  | OGrow n => wrap (cgrow_op h c n)
  | OLen => match cfinalize ecap h c with Some (h', c') => Some (h', c, CN (clen c')) | None => None end
  | OCap => Some (h, c, CN (ccap h c))
  | OStr => match cfinalize ecap h c with Some (h', c') => Some (h', c, CR (strip_b (cread h' c'))) | None => None end
  | ORS | ORB => match cfinalize ecap h c with Some (h', c') => Some (h', c, CR (cread h' c')) | None => None end
  | OGetMode => Some (h, c, CMode (cmode c))
  | OTake => match ctake ecap h c with Some (h', c', (a, n)) => Some (h', c', CAlias a n) | None => None end
  | OReset => Some (h, creset c, CNone)
  end.

(* the abstraction to the list-level Buffer *)
Definition cabs (h : heap) (c : cbuf) : buffer := mkBuf (cread h c) (cvalid c) (cmode c) (copen c).

(* a run with one capacity oracle per step *)
Fixpoint crun (h : heap) (c : cbuf) (ops : list (op * nat)) : option (heap * cbuf) :=
  match ops with
  | [] => Some (h, c)
  | (o, ecap) :: r =>
    match cstep ecap h c o with
    | Some (h', c', _) => crun h' c' r
    | None => None
    end
  end.
