(* Proofs about Layer 0 (tokens). *)
From Redact Require Import Bytes Tokens.
From Coq Require Import Lia.
Open Scope N_scope.

Lemma is_start3_spec a b c : is_start3 a b c = true <-> (a = 226 /\ b = 128 /\ c = 185).
Proof.
  unfold is_start3. rewrite !andb_true_iff, !N.eqb_eq. tauto.
Qed.
Lemma is_end3_spec a b c : is_end3 a b c = true <-> (a = 226 /\ b = 128 /\ c = 186).
Proof.
  unfold is_end3. rewrite !andb_true_iff, !N.eqb_eq. tauto.
Qed.

(* Induction principle following the recursion of lex. *)
Lemma lex_ind3 (P : bytes -> Prop) :
  P [] ->
  (forall r, P r -> P (226 :: 128 :: 185 :: r)) ->
  (forall r, P r -> P (226 :: 128 :: 186 :: r)) ->
  (forall a r, (forall b c r', r = b :: c :: r' -> is_start3 a b c = false /\ is_end3 a b c = false) ->
               P r -> P (a :: r)) ->
  forall s, P s.
Proof.
  intros H0 HS HE HB s.
  assert (forall n s, (length s <= n)%nat -> P s) as H.
  { induction n as [|n IH]; intros s' Hl.
    - destruct s'; [exact H0 | simpl in Hl; lia].
    - destruct s' as [|a r]; [exact H0|].
      destruct r as [|b [|c r']].
      + apply HB; [intros; discriminate | exact H0].
      + apply HB; [intros ? ? ? E; discriminate | apply IH; simpl in *; lia].
      + destruct (is_start3 a b c) eqn:Es.
        { apply is_start3_spec in Es. destruct Es as (-> & -> & ->). apply HS. apply IH. simpl in *; lia. }
        destruct (is_end3 a b c) eqn:Ee.
        { apply is_end3_spec in Ee. destruct Ee as (-> & -> & ->). apply HE. apply IH. simpl in *; lia. }
        apply HB.
        * intros b0 c0 r0 E. injection E as -> -> ->. auto.
        * apply IH. simpl in *; lia. }
  apply (H (length s)). lia.
Qed.

Lemma lex_start r : lex (226 :: 128 :: 185 :: r) = TS :: lex r.
Proof. reflexivity. Qed.
Lemma lex_end r : lex (226 :: 128 :: 186 :: r) = TE :: lex r.
Proof. reflexivity. Qed.
Lemma lex_byte a r :
  (forall b c r', r = b :: c :: r' -> is_start3 a b c = false /\ is_end3 a b c = false) ->
  lex (a :: r) = TB a :: lex r.
Proof.
  intros H. destruct r as [|b [|c r']]; try reflexivity.
  destruct (H b c r' eq_refl) as [Hs He].
  cbn [lex]. rewrite Hs, He. reflexivity.
Qed.

Theorem unlex_lex s : unlex (lex s) = s.
Proof.
  induction s using lex_ind3.
  - reflexivity.
  - rewrite lex_start. cbn [unlex unlex_tok startB app]. now rewrite IHs.
  - rewrite lex_end. cbn [unlex unlex_tok endB app]. now rewrite IHs.
  - rewrite lex_byte by assumption. cbn [unlex unlex_tok app]. now rewrite IHs.
Qed.

(* ---------- closedness and concatenation ---------- *)

Lemma closedb_cons3 a b c r : closedb (a :: b :: c :: r) = closedb (b :: c :: r).
Proof. reflexivity. Qed.

Lemma closedb_tail a r : closedb (a :: r) = true -> closedb r = true.
Proof.
  destruct r as [|b [|c t]]; intros H.
  - reflexivity.
  - cbn in H |- *. rewrite andb_true_iff in H. tauto.
  - rewrite closedb_cons3 in H. exact H.
Qed.

Lemma closedb_app_r x r : closedb (x ++ r) = true -> closedb r = true.
Proof.
  induction x as [|a x IH]; [auto|].
  intros H. apply IH. eapply closedb_tail. exact H.
Qed.

(* The only way two pieces can assemble a marker is when the left one ends
   with a proper prefix of a marker. *)
Theorem lex_app a b : closedb a = true -> lex (a ++ b) = lex a ++ lex b.
Proof.
  induction a as [| r IH | r IH | c r Hm IH] using lex_ind3; intros Hc.
  - reflexivity.
  - cbn [app]. rewrite !lex_start. cbn [app]. f_equal. apply IH.
    apply (closedb_app_r [226;128;185]). exact Hc.
  - cbn [app]. rewrite !lex_end. cbn [app]. f_equal. apply IH.
    apply (closedb_app_r [226;128;186]). exact Hc.
  - cbn [app]. rewrite (lex_byte c r) by assumption.
    rewrite lex_byte.
    + cbn [app]. f_equal. apply IH. eapply closedb_tail; eauto.
    + intros b0 c0 r' E.
      destruct r as [|d [|e t]].
      * cbn in Hc. unfold is_start3, is_end3.
        destruct (c =? 226); [discriminate | auto].
      * cbn in E. injection E as <- Eb.
        cbn in Hc. unfold is_start3, is_end3.
        destruct (c =? 226); [|auto].
        destruct (d =? 128); [|auto].
        cbn in Hc. rewrite andb_false_r in Hc. discriminate.
      * cbn in E. injection E as <- <- Er. apply (Hm d e t eq_refl).
Qed.

Lemma closedb_app_marker_start a : closedb (a ++ startB) = true.
Proof.
  induction a as [|x a IH]; [reflexivity|].
  cbn [app]. destruct (a ++ startB) as [|b [|c t]] eqn:E.
  - destruct a; discriminate.
  - destruct a as [|? [|? ?]]; discriminate.
  - rewrite closedb_cons3. exact IH.
Qed.
Lemma closedb_app_marker_end a : closedb (a ++ endB) = true.
Proof.
  induction a as [|x a IH]; [reflexivity|].
  cbn [app]. destruct (a ++ endB) as [|b [|c t]] eqn:E.
  - destruct a; discriminate.
  - destruct a as [|? [|? ?]]; discriminate.
  - rewrite closedb_cons3. exact IH.
Qed.

(* ---------- canonical token lists ---------- *)

Lemma lex_canonical s : canonical (lex s) = true.
Proof.
  induction s as [| r IH | r IH | c r Hm IH] using lex_ind3.
  - reflexivity.
  - rewrite lex_start. cbn. exact IH.
  - rewrite lex_end. cbn. exact IH.
  - rewrite lex_byte by assumption. cbn [canonical]. rewrite IH, andb_true_r.
    unfold win_ok. destruct (lex r) as [|[| |b] [|[| |c0] t]] eqn:E; try reflexivity.
    assert (r = b :: c0 :: unlex t) as Er.
    { rewrite <- (unlex_lex r), E. reflexivity. }
    destruct (Hm b c0 (unlex t) Er) as [-> ->]. reflexivity.
Qed.

Lemma not_marker_second a b c : b <> 128 -> is_start3 a b c = false /\ is_end3 a b c = false.
Proof.
  intros H. unfold is_start3, is_end3. apply N.eqb_neq in H. rewrite H, !andb_false_r. auto.
Qed.
Lemma not_marker_third a b c : c <> 185 -> c <> 186 -> is_start3 a b c = false /\ is_end3 a b c = false.
Proof.
  intros H1 H2. unfold is_start3, is_end3. apply N.eqb_neq in H1, H2. rewrite H1, H2, !andb_false_r. auto.
Qed.
Lemma not_marker_first a b c : a <> 226 -> is_start3 a b c = false /\ is_end3 a b c = false.
Proof.
  intros H. unfold is_start3, is_end3. apply N.eqb_neq in H. rewrite H. auto.
Qed.

Lemma lex_unlex ts : canonical ts = true -> lex (unlex ts) = ts.
Proof.
  induction ts as [|t r IH]; [reflexivity|].
  cbn [canonical]. rewrite andb_true_iff. intros [Hw Hc].
  specialize (IH Hc).
  destruct t as [| |a].
  - cbn [unlex unlex_tok startB app]. rewrite lex_start, IH. reflexivity.
  - cbn [unlex unlex_tok endB app]. rewrite lex_end, IH. reflexivity.
  - cbn [unlex unlex_tok app]. rewrite lex_byte; [now rewrite IH|].
    intros b c r' E.
    destruct r as [|[| |b0] r0]; cbn in E; try discriminate.
    + injection E as <- <- _. apply not_marker_second. discriminate.
    + injection E as <- <- _. apply not_marker_second. discriminate.
    + injection E as <- E.
      destruct r0 as [|[| |c0] r1]; cbn in E; try discriminate.
      * injection E as <- _. apply not_marker_third; discriminate.
      * injection E as <- _. apply not_marker_third; discriminate.
      * injection E as <- _. unfold win_ok in Hw.
        rewrite andb_true_iff, !negb_true_iff in Hw. exact Hw.
Qed.

Lemma lex_unlex_lex s : lex (unlex (lex s)) = lex s.
Proof. now rewrite unlex_lex. Qed.
