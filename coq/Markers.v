(* Layer 1: internal/markers — models of the two regexps as used through
   ReplaceAll(String), at token level, and the byte-level wrappers. *)
From Redact Require Export Tokens.
Open Scope N_scope.

Definition flush (pend : option (list tok)) : list tok :=
  match pend with Some p => TS :: rev p | None => [] end.

(* ReStripSensitive = ‹[^‹›]*› , leftmost-first, non-overlapping, replaced by
   ‹×›.  pend = Some body: a TS has been seen and body (reversed) are the
   non-marker tokens after it. *)
Fixpoint redact_aux (pend : option (list tok)) (ts : list tok) : list tok :=
  match ts with
  | [] => flush pend
  | TS :: r => flush pend ++ redact_aux (Some []) r
  | TE :: r =>
    match pend with
    | Some _ => TS :: TB 195 :: TB 151 :: TE :: redact_aux None r
    | None => TE :: redact_aux None r
    end
  | TB b :: r =>
    match pend with
    | Some p => redact_aux (Some (TB b :: p)) r
    | None => TB b :: redact_aux None r
    end
  end.
Definition redact_tok (ts : list tok) : list tok := redact_aux None ts.

(* RedactableString.Redact / RedactableBytes.Redact *)
Definition redact_b (s : bytes) : bytes := unlex (redact_tok (lex s)).
(* StripMarkers *)
Definition strip_b (s : bytes) : bytes := unlex (strip_tok (lex s)).
(* EscapeMarkers *)
Definition escape_markers_b (s : bytes) : bytes := unlex (escm_tok (lex s)).
Definition del_env_b (s : bytes) : bytes := unlex (del_env (lex s)).
