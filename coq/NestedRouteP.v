(* C16: the route through a nested printer.  SafePrinter.Print(a...) called on the printer handed
   to Sprintfn runs doPrint on a fresh printer that borrows the buffer, then restores the caller's
   mode: the Buffer history is Sprint's with one more SetMode, and the text is identical. *)
From Redact Require Import Bytes Tokens Utf8 Escape EscSpec Buffer Ops BufInv LBuf Printer Api.
From Redact Require Import EscapeP BufInvP BufferThm Hoare ApiP.
From Coq Require Import Lia List Bool.
Import ListNotations.

(* one more SetMode before the final Take adds nothing, provided the text does not end inside a
   UTF-8 sequence (finalize appends '?' in the escaping modes) *)
Lemma finalize_settled x m : last_invalid x = false ->
  buf (finalize (mkBuf x (length x) m false)) = x.
Proof.
  intros Hl. unfold finalize. cbn [bmode].
  destruct m; cbn [mode_eqb].
  - unfold escape_to_end. cbn [buf validUntil markerOpen set_buf set_valid].
    replace (escape x (length x) true false) with x; [reflexivity|].
    rewrite <- (app_nil_r x) at 2. rewrite escape_spec. unfold esc_spec. rewrite app_nil_r, Hl. cbn. now rewrite app_nil_r.
  - unfold escape_to_end. cbn [buf validUntil markerOpen set_buf set_valid].
    replace (escape x (length x) false false) with x; [reflexivity|].
    rewrite <- (app_nil_r x) at 2. rewrite escape_spec. unfold esc_spec. rewrite app_nil_r, Hl. cbn. now rewrite app_nil_r.
  - reflexivity.
Qed.

Lemma output_setmode ops m : rawok ops = true -> last_invalid (output ops) = false ->
  output (ops ++ [OMode m]) = output ops.
Proof.
  intros Hr Hl. unfold output, run, run_from in *. rewrite fold_left_app. cbn [fold_left step fst].
  set (b := fold_left (fun s o => fst (step s o)) ops init) in *.
  assert (InvP b) as Hi by (apply invb_InvP; exact (buffer_inv_run ops Hr)).
  unfold redactable_bytes in *.
  destruct (mode_eqb (bmode b) m) eqn:E.
  - unfold set_mode. now rewrite E.
  - rewrite set_mode_finalize by exact E.
    destruct (finalize_good utf8fact b Hi) as (x & Hf & _). rewrite Hf in *. cbn [buf] in Hl.
    unfold set_mode_field. cbn [buf validUntil bmode markerOpen]. now apply finalize_settled.
Qed.

Lemma finish_log {A} (r : res A) (s : pst) o : Api.finish (r, s) = ROk o -> o_log o = rev (rlog (pl s)) ++ [OTake].
Proof.
  unfold Api.finish. destruct r; try discriminate. unfold l_step. cbn. intros H. injection H as <-. reflexivity.
Qed.

Lemma nested_route k env c o o' :
  Api.finish (ev (S k) env c newPrinter) = ROk o' ->
  Api.finish (((nested (ev (S k) env) c ;;; ret tt) ;;; ret RU) newPrinter) = ROk o ->
  rawok (o_log o') = true -> last_invalid (o_bytes o') = false ->
  o_bytes o = o_bytes o' /\ o_log o = removelast (o_log o') ++ [OMode MUnsafe; OTake].
Proof.
  intros H1 H2 Hr Hl.
  destruct (ev (S k) env c newPrinter) as [r ns'] eqn:E.
  assert (exists u, r = ROk u) as [u ->] by (destruct r; try discriminate; eauto).
  pose proof (finish_log _ _ _ H1) as L1. destruct (finish_output _ _ H1) as (ops1 & L1' & B1).
  assert (ops1 = rev (rlog (pl ns'))) as -> by (rewrite L1 in L1'; now apply app_inj_tail in L1').
  unfold bind at 1 2, nested, bind at 1, get_mode, Printer.get in H2. cbn iota beta zeta in H2.
  change (fresh_pp (pl newPrinter) (povr newPrinter)) with newPrinter in H2. rewrite E in H2.
  rewrite setmode_state in H2. cbn iota beta zeta in H2. unfold bind, ret in H2.
  pose proof (finish_log _ _ _ H2) as L2. destruct (finish_output _ _ H2) as (ops2 & L2' & B2).
  change (rlog (pl (set_pl (set_pl newPrinter (pl ns')) (lset (pl (set_pl newPrinter (pl ns'))) (OMode (bmode (lb (pl newPrinter))))))))
    with (OMode MUnsafe :: rlog (pl ns')) in L2.
  cbn [rev] in L2.
  assert (ops2 = rev (rlog (pl ns')) ++ [OMode MUnsafe]) as -> by (rewrite L2 in L2'; now apply app_inj_tail in L2').
  split.
  - rewrite B1, B2. apply output_setmode; [|now rewrite <- B1].
    rewrite L1 in Hr. clear - Hr. revert Hr. unfold rawok. generalize init. induction (rev (rlog (pl ns'))) as [|x r IH]; intros b H; [reflexivity|].
    cbn [app rawok_from] in *. apply andb_prop in H. destruct H as [Ha Hb]. rewrite Ha. cbn [andb]. now apply IH.
  - rewrite L2, L1, removelast_last, <- app_assoc. reflexivity.
Qed.

(* Sprintfn(func(p) { p.Print(a...) }) = Sprint(a...), byte for byte *)
Theorem sprintfn_print_route k env a o o' :
  sprint (S k) env a = ROk o' -> sprintfn (S (S k)) env [APrint a] = ROk o ->
  rawok (o_log o') = true -> last_invalid (o_bytes o') = false ->
  o_bytes o = o_bytes o' /\ o_log o = removelast (o_log o') ++ [OMode MUnsafe; OTake].
Proof. intros H1 H2. exact (nested_route k env (CDoPrint a) o o' H1 H2). Qed.

(* Sprintfn(func(p) { p.Printf(f, a...) }) = Sprintf(f, a...) *)
Theorem sprintfn_printf_route k env f a o o' :
  sprintf (S k) env f a = ROk o' -> sprintfn (S (S k)) env [APrintf f a] = ROk o ->
  rawok (o_log o') = true -> last_invalid (o_bytes o') = false ->
  o_bytes o = o_bytes o' /\ o_log o = removelast (o_log o') ++ [OMode MUnsafe; OTake].
Proof. intros H1 H2. exact (nested_route k env (CDoPrintf f a) o o' H1 H2). Qed.
Print Assumptions sprintfn_print_route.
Print Assumptions sprintfn_printf_route.
