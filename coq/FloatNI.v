(* fmtFloat on two different floats: both renderings are non-empty and free of line feeds, hence
   related unsafe segments (the digits come from strconv: oracle values, sane by [osane]). *)
From Redact Require Import Bytes Tokens Utf8 Buffer Ops Fmt SegNI FmtNI.
From Coq Require Import Lia ZArith List Bool.
Import ListNotations.
Open Scope Z_scope.
Open Scope list_scope.

Definition plainw (w : list wop) : Prop := lf_free (pay w) /\ pay w <> [] /\ hasreal w = true.

Lemma plainw_usegw w1 w2 : plainw w1 -> plainw w2 -> usegw w1 w2.
Proof.
  intros (L1 & N1 & H1) (L2 & N2 & H2). apply usegw_plain; try assumption; [|now rewrite H1, H2].
  split; intros E; [destruct (N1 E) | destruct (N2 E)].
Qed.

Lemma plainw_pad f b : lf_free b -> b <> [] -> plainw (pad f b).
Proof.
  intros L N. destruct (pay_pad f b) as (n & P & _). split; [|split; [|apply hasreal_pad]].
  - destruct P as [-> | ->]; apply lf_free_app; try assumption; apply lf_free_repeat, padc_nolf.
  - destruct P as [-> | ->]; intros E; apply app_eq_nil in E; destruct E; congruence.
Qed.

Lemma float_sharp_loop_chars verb : forall num acc hasDot sawNZ digits body tail hd dg,
  float_sharp_loop verb num acc hasDot sawNZ digits = (body, tail, hd, dg) ->
  lf_free num -> lf_free acc -> lf_free body /\ lf_free tail.
Proof.
  induction num as [|c r IH]; intros acc hasDot sawNZ digits body tail hd dg H Ln La; cbn [float_sharp_loop] in H.
  - injection H as <- <- _ _. split; [|constructor]. unfold lf_free in *. apply Forall_rev. exact La.
  - inversion Ln as [|? ? Hc Lr]; subst.
    destruct (c =? 46)%N; [eapply IH; [exact H | exact Lr | now constructor]|].
    destruct ((c =? 112) || (c =? 80))%N; [injection H as <- <- _ _; split; [apply Forall_rev; exact La | exact Ln]|].
    destruct (((c =? 101) || (c =? 69))%N && negb ((verb =? 120) || (verb =? 88))); [injection H as <- <- _ _; split; [apply Forall_rev; exact La | exact Ln]|].
    eapply IH; [exact H | exact Lr | now constructor].
Qed.

Lemma lf_free_zeros n : lf_free (zeros n).
Proof. induction n as [|k IH]; cbn [zeros]; [constructor | apply lf_free_cons; [discriminate | exact IH]]. Qed.

Lemma pay_ws b : pay [WS b] = b.
Proof. unfold pay. cbn. now rewrite app_nil_r. Qed.

Lemma rev_nonnil {A} (l : list A) : l <> [] -> rev l <> [].
Proof. intros H E. apply H. apply (f_equal (@rev A)) in E. now rewrite rev_involutive in E. Qed.

Lemma float_sharp_loop_body verb : forall num acc hd nz dg b t h d,
  float_sharp_loop verb num acc hd nz dg = (b, t, h, d) ->
  (acc <> [] -> b <> []) /\ (hd = false -> h = true -> b <> []).
Proof.
  induction num as [|c r IH]; intros acc hd nz dg b t h d H; cbn [float_sharp_loop] in H.
  - injection H as <- _ <- _. split; [apply rev_nonnil | intros -> X; discriminate].
  - destruct (c =? 46)%N.
    { destruct (IH _ _ _ _ _ _ _ _ H) as [I1 _]. split; intros; apply I1; discriminate. }
    destruct ((c =? 112) || (c =? 80))%N; [injection H as <- _ <- _; split; [apply rev_nonnil | intros -> X; discriminate]|].
    destruct (((c =? 101) || (c =? 69))%N && negb ((verb =? 120) || (verb =? 88))); [injection H as <- _ <- _; split; [apply rev_nonnil | intros -> X; discriminate]|].
    destruct (IH _ _ _ _ _ _ _ _ H) as [I1 _]. split; intros; apply I1; discriminate.
Qed.

Lemma pay_wb_plain c : (c < 128)%N -> c <> LF -> pay [WB c] = [c].
Proof.
  intros H1 H2. rewrite pay_wb1. assert ((128 <=? c)%N = false) as -> by (apply N.leb_gt; exact H1).
  assert ((c =? 226)%N = false) as -> by (apply N.eqb_neq; intros ->; cbv in H1; discriminate). reflexivity.
Qed.

Lemma fmt_float_plain o f bits size verb prec0 w : osane o ->
  fmt_float o f bits size verb prec0 = Some w -> plainw w.
Proof.
  intros Ho H. unfold fmt_float in H.
  destruct (olookup o (KFloat bits verb (if precPresent (fl f) then prec f else prec0) size)) as [raw|] eqn:E; [|discriminate].
  destruct (Ho _ _ E) as (Nr & Lr & _).
  set (num0 := match raw with c :: _ => if ((c =? 45) || (c =? 43))%N then raw else 43%N :: raw | [] => [43%N] end) in H.
  assert (lf_free num0 /\ num0 <> []) as [L0 N0].
  { unfold num0. destruct raw as [|c r]; [congruence|]. destruct ((c =? 45) || (c =? 43))%N; split; try discriminate; try assumption.
    apply lf_free_cons; [discriminate | assumption]. }
  set (num1 := match num0 with 43%N :: r => if space (fl f) && negb (plus (fl f)) then 32%N :: r else num0 | _ => num0 end) in H.
  assert (lf_free num1 /\ num1 <> []) as [L1 N1].
  { unfold num1. destruct num0 as [|c r]; [congruence|].
    destruct (N.eq_dec c 43) as [->|Hc].
    - destruct (space (fl f) && negb (plus (fl f))); split; try discriminate; try assumption.
      inversion L0; subst. apply lf_free_cons; [discriminate | assumption].
    - assert ((match c with 43%N => if space (fl f) && negb (plus (fl f)) then 32%N :: r else c :: r | _ => c :: r end) = c :: r) as ->.
      { destruct c as [|p]; [reflexivity|]. do 6 (destruct p as [p|p|]; try reflexivity). congruence. }
      split; [assumption | discriminate]. }
  clearbody num1. clear num0 L0 N0.
  destruct num1 as [|s [|c1 r]]; [congruence | injection H as <-; apply plainw_pad; assumption |].
  inversion L1 as [|? ? Hs L1']; subst.
  destruct ((c1 =? 73) || (c1 =? 78))%N.
  { injection H as <-. apply plainw_pad.
    - destruct ((c1 =? 78)%N && negb (space (fl f)) && negb (plus (fl f))); cbn [tl]; assumption.
    - destruct ((c1 =? 78)%N && negb (space (fl f)) && negb (plus (fl f))); cbn [tl]; discriminate. }
  set (num2 := if sharp (fl f) && negb (verb =? 98) then _ else s :: c1 :: r) in H.
  assert (exists s2 c2 r2, num2 = s2 :: c2 :: r2 /\ lf_free (s2 :: c2 :: r2)) as (s2 & c2 & r2 & E2 & L2).
  { unfold num2. destruct (sharp (fl f) && negb (verb =? 98)); [|eauto].
    cbn [tl].
    destruct (float_sharp_loop verb (c1 :: r) [] false false _) as [[[body tail] hasDot] digits] eqn:EL.
    destruct (float_sharp_loop_chars _ _ _ _ _ _ _ _ _ _ EL L1' lf_free_nil) as [Lb Lt].
    destruct (float_sharp_loop_body _ _ _ _ _ _ _ _ _ _ EL) as [_ Hb].
    destruct hasDot.
    - destruct body as [|b0 br]; [destruct (Hb eq_refl eq_refl eq_refl)|].
      exists s, b0. eexists. split; [cbn [app]; reflexivity|].
      change (lf_free (((s :: b0 :: br) ++ zeros (Z.to_nat digits)) ++ tail)).
      apply lf_free_app; [apply lf_free_app; [now apply lf_free_cons | apply lf_free_zeros] | exact Lt].
    - assert (lf_free ((((s :: body) ++ [46%N]) ++ zeros (Z.to_nat (match s :: body with [_; 48%N] => digits - 1 | _ => digits end))) ++ tail)) as LL.
      { apply lf_free_app; [apply lf_free_app; [apply lf_free_app; [now apply lf_free_cons | apply lf_free_cons; [discriminate | constructor]] | apply lf_free_zeros] | exact Lt]. }
      destruct body as [|b0 br]; [exists s, 46%N | exists s, b0]; eexists; (split; [cbn [app]; reflexivity | exact LL]). }
  clearbody num2. subst num2.
  inversion L2 as [|? ? Hs2 L2']; subst.
  destruct (plus (fl f) || negb (s2 =? 43)%N).
  - destruct (zero (fl f) && widPresent (fl f) && (zlen (s2 :: c2 :: r2) <? wid f)); injection H as <-; [|apply plainw_pad; [assumption | discriminate]].
    split; [|split].
    + change (WB s2 :: write_padding f (wid f - zlen (s2 :: c2 :: r2)) ++ [WS (c2 :: r2)]) with ([WB s2] ++ write_padding f (wid f - zlen (s2 :: c2 :: r2)) ++ [WS (c2 :: r2)]).
      rewrite !pay_app, pay_write_padding, pay_ws, pay_wb1.
      apply lf_free_app; [|apply lf_free_app; [apply lf_free_repeat, padc_nolf | exact L2']].
      apply lf_free_cons; [|constructor]. destruct ((128 <=? s2) || (s2 =? 226))%N; [discriminate | exact Hs2].
    + change (WB s2 :: write_padding f (wid f - zlen (s2 :: c2 :: r2)) ++ [WS (c2 :: r2)]) with ([WB s2] ++ write_padding f (wid f - zlen (s2 :: c2 :: r2)) ++ [WS (c2 :: r2)]).
      rewrite !pay_app, pay_wb1. discriminate.
    + reflexivity.
  - injection H as <-. apply plainw_pad; [assumption | discriminate].
Qed.

Theorem fmt_float_rel o f b1 b2 size verb prec0 w1 w2 : osane o ->
  fmt_float o f b1 size verb prec0 = Some w1 -> fmt_float o f b2 size verb prec0 = Some w2 -> usegw w1 w2.
Proof. intros Ho H1 H2. apply plainw_usegw; eapply fmt_float_plain; eassumption. Qed.
Print Assumptions fmt_float_rel.
