(* Layer 2: the Buffer as a state machine: one constructor per exported
   method, observation = what the method returns. *)
From Redact Require Export Buffer.
Open Scope N_scope.

Inductive op :=
| OMode (m : mode)
| OWrite (p : bytes)            (* Write / WriteString *)
| OWriteByte (c : N)
| OWriteRune (r : Z)
| OGrow (n : nat)
| OLen | OCap | OStr | ORS | ORB | OGetMode
| OTake                          (* TakeRedactableString / TakeRedactableBytes *)
| OReset.

Inductive obs :=
| ObNone
| ObN (n : nat)
| ObR (r : bytes)
| ObMode (m : mode)
| ObPanic.

Definition step (b : buffer) (o : op) : buffer * obs :=
  match o with
  | OMode m => (set_mode b m, ObNone)
  | OWrite p => (write b p, ObN (length p))
  | OWriteByte c => (write_byte b c, ObNone)
  | OWriteRune r => (write_rune b r, ObNone)
  | OGrow _ => (b, ObNone)
  | OLen => (b, ObN (len_of b))
  | OCap => (b, ObNone)
  | OStr => (b, ObR (string_of b))
  | ORS | ORB => (b, ObR (redactable_bytes b))
  | OGetMode => (b, ObMode (bmode b))
  | OTake => let '(r, b') := take b in (b', ObR r)
  | OReset => (reset b, ObNone)
  end.

Definition run_from (b : buffer) (ops : list op) : buffer :=
  fold_left (fun s o => fst (step s o)) ops b.
Definition run (ops : list op) : buffer := run_from init ops.

(* What a final RedactableString()/Take would return after the history. *)
Definition output (ops : list op) : bytes := redactable_bytes (run ops).
