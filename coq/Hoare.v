(* Layer 4 proofs: a small program logic for the evaluator.  [stable] says that
   a computation preserves an invariant of (buffer-with-log, override) and
   relates the initial and final buffer by a reflexive-transitive relation
   (typically: "the log was extended by operations of a certain kind").  The
   section is instantiated for the two overrides (Unsafe(): everything written
   in unsafe mode; Safe(): nothing written in unsafe mode). *)
From Redact Require Import Bytes Tokens Utf8 Buffer Ops BufInv Fmt Value LBuf Printer BufInvP.
Import List ListNotations.
Open Scope Z_scope.

Definition lset (l : lbuf) (o : op) : lbuf := fst (l_step l o).
Definition lmode (l : lbuf) : mode := bmode (lb l).

Definition is_write (o : op) : Prop :=
  match o with OWrite _ | OWriteByte _ | OWriteRune _ | OGrow _ => True | _ => False end.

Lemma lmode_write l o : is_write o -> lmode (lset l o) = lmode l.
Proof.
  unfold lmode, lset, l_step. cbn [fst lb]. destruct o; cbn [is_write]; try contradiction; intros _; cbn [step fst].
  - unfold write. cbn. apply start_write_mode.
  - rewrite write_byte_write. unfold write. cbn. apply start_write_mode.
  - unfold write_rune. cbn. apply start_write_mode.
  - reflexivity.
Qed.

Lemma lmode_setmode l m : lmode (lset l (OMode m)) = m.
Proof.
  unfold lmode, lset, l_step. cbn [fst lb step]. unfold set_mode.
  destruct (mode_eqb (bmode (lb l)) m) eqn:E.
  - destruct (bmode (lb l)), m; try discriminate; reflexivity.
  - reflexivity.
Qed.

Lemma rlog_lset l o : rlog (lset l o) = o :: rlog l.
Proof. reflexivity. Qed.

Section Stable.
  Variable I0 : lbuf -> ovr -> Prop.
  Variable R0 : lbuf -> lbuf -> Prop.
  Hypothesis R0_refl : forall l, R0 l l.
  Hypothesis R0_trans : forall a b c, R0 a b -> R0 b c -> R0 a c.
  (* the invariant fixes an override *)
  Hypothesis I0_ovr : forall l v, I0 l v -> v <> NoOvr.
  Hypothesis I0_det : forall l v l' v', I0 l v -> I0 l' v' -> v = v'.
  Hypothesis A_write : forall l v o, I0 l v -> is_write o -> I0 (lset l o) v /\ R0 l (lset l o).
  Hypothesis A_unsafe : forall l v, I0 l v -> v <> OvrSafe ->
    I0 (lset l (OMode MUnsafe)) v /\ R0 l (lset l (OMode MUnsafe)).
  Hypothesis A_raw : forall l v, I0 l v -> v <> OvrUnsafe ->
    I0 (lset l (OMode MRaw)) v /\ R0 l (lset l (OMode MRaw)).
  Hypothesis A_safe : forall l v, I0 l v -> v <> OvrUnsafe ->
    I0 (lset l (OMode MSafe)) v /\ R0 l (lset l (OMode MSafe)).
  Hypothesis A_restore : forall l0 v0 l2 v2, I0 l0 v0 -> I0 l2 v2 ->
    I0 (lset l2 (OMode (lmode l0))) v0 /\ R0 l2 (lset l2 (OMode (lmode l0))).

  Definition I (s : pst) : Prop := I0 (pl s) (povr s).
  Definition R (s s' : pst) : Prop := R0 (pl s) (pl s').
  Definition stable {A} (m : M A) : Prop := forall s, I s -> I (snd (m s)) /\ R s (snd (m s)).

  Lemma R_refl s : R s s. Proof. apply R0_refl. Qed.
  Lemma R_trans a b c : R a b -> R b c -> R a c. Proof. apply R0_trans. Qed.

  Lemma stable_ret {A} (a : A) : stable (ret a).
  Proof. intros s H. split; [exact H | apply R_refl]. Qed.

  Lemma stable_const {A} (r : res A) : stable (fun s => (r, s)).
  Proof. intros s H. split; [exact H | apply R_refl]. Qed.

  Lemma stable_bind {A B} (m : M A) (k : A -> M B) :
    stable m -> (forall a, stable (k a)) -> stable (bind m k).
  Proof.
    intros Hm Hk s H. unfold bind. destruct (Hm s H) as [H1 R1].
    destruct (m s) as [[a|v| |w] s1]; cbn [snd] in *; try (split; assumption).
    destruct (Hk a s1 H1) as [H2 R2]. split; [exact H2 | eapply R_trans; eassumption].
  Qed.

  Lemma stable_get : stable get. Proof. intros s H. split; [exact H | apply R_refl]. Qed.
  Lemma stable_getf : stable getf. Proof. intros s H. split; [exact H | apply R_refl]. Qed.
  Lemma stable_get_mode : stable get_mode. Proof. intros s H. split; [exact H | apply R_refl]. Qed.
  Lemma stable_panic {A} v : stable (@panic A v). Proof. intros s H. split; [exact H | apply R_refl]. Qed.
  Lemma stable_missc {A} w : stable (@missc A w). Proof. intros s H. split; [exact H | apply R_refl]. Qed.
  Lemma stable_miss {A} : stable (@miss A). Proof. intros s H. split; [exact H | apply R_refl]. Qed.
  Lemma stable_of_opt {A} (o : option A) : stable (of_opt o).
  Proof. destruct o; [apply stable_ret | apply stable_miss]. Qed.

  (* field updates that touch neither the buffer nor the override *)
  Lemma stable_modify (f : pst -> pst) :
    (forall s, pl (f s) = pl s /\ povr (f s) = povr s) -> stable (modify f).
  Proof.
    intros Hf s H. unfold modify. cbn [snd]. destruct (Hf s) as [E1 E2].
    unfold I, R. rewrite E1, E2. split; [exact H | apply R0_refl].
  Qed.

  Lemma stable_bop_write o : is_write o -> stable (bop o).
  Proof.
    intros Ho s H. unfold bop. destruct (l_step (pl s) o) as [l' ob] eqn:E. cbn [snd].
    assert (l' = lset (pl s) o) as -> by (unfold lset; rewrite E; reflexivity).
    unfold I, R. cbn. destruct s; cbn in *. now apply A_write.
  Qed.

  Lemma stable_w1 w : stable (w1 w).
  Proof.
    destruct w; cbn [w1]; (apply stable_bind; [apply stable_bop_write; exact Logic.I | intros; apply stable_ret]).
  Qed.

  Lemma stable_wr ws : stable (wr ws).
  Proof.
    induction ws as [|w r IH]; cbn [wr]; [apply stable_ret|].
    apply stable_bind; [apply stable_w1 | intros; exact IH].
  Qed.

  Lemma stable_wstr str : stable (wstr str). Proof. apply stable_w1. Qed.
  Lemma stable_wbyte c : stable (wbyte c). Proof. apply stable_w1. Qed.

  (* ---------- start* / restore / bracket ---------- *)
  Definition is_start (st : M restorer) : Prop :=
    forall s, I s -> exists s1, st s = (ROk (lmode (pl s), povr s), s1) /\ I s1 /\ R s s1.

  Lemma setmode_state s m :
    set_mode_m m s = (ROk tt, set_pl s (lset (pl s) (OMode m))).
  Proof. unfold set_mode_m, bind, bop, ret, lset. destruct (l_step (pl s) (OMode m)). reflexivity. Qed.

  Lemma is_start_unsafe : is_start start_unsafe.
  Proof.
    intros s H. unfold start_unsafe, bind, get_mode, get.
    destruct (ovr_eqb (povr s) OvrSafe) eqn:E.
    - exists s. cbn. split; [reflexivity|]. split; [exact H | apply R_refl].
    - rewrite setmode_state. cbn [ret]. eexists. split; [reflexivity|].
      unfold I, R. destruct s; cbn in *. apply A_unsafe; [exact H|]. intros ->. discriminate.
  Qed.

  Lemma is_start_prered : is_start start_prered.
  Proof.
    intros s H. unfold start_prered, bind, get_mode, get.
    destruct (ovr_eqb (povr s) OvrUnsafe) eqn:E.
    - exists s. cbn. split; [reflexivity|]. split; [exact H | apply R_refl].
    - rewrite setmode_state. cbn [ret]. eexists. split; [reflexivity|].
      unfold I, R. destruct s; cbn in *. apply A_raw; [exact H|]. intros ->. discriminate.
  Qed.

  Lemma is_start_safe_ovr : is_start start_safe_ovr.
  Proof.
    intros s H. unfold start_safe_ovr, bind, get_mode, get.
    destruct (ovr_eqb (povr s) NoOvr) eqn:E.
    - exfalso. apply (I0_ovr _ _ H). destruct (povr s); try discriminate; reflexivity.
    - exists s. cbn. split; [reflexivity|]. split; [exact H | apply R_refl].
  Qed.

  Lemma is_start_unsafe_ovr : is_start start_unsafe_ovr.
  Proof.
    intros s H. unfold start_unsafe_ovr, bind, get_mode, get.
    destruct (ovr_eqb (povr s) NoOvr) eqn:E.
    - exfalso. apply (I0_ovr _ _ H). destruct (povr s); try discriminate; reflexivity.
    - exists s. cbn. split; [reflexivity|]. split; [exact H | apply R_refl].
  Qed.

  Lemma restore_state (r : restorer) s :
    restore r s = (ROk tt, set_ovr (set_pl s (lset (pl s) (OMode (fst r)))) (snd r)).
  Proof. unfold restore, bind. rewrite setmode_state. reflexivity. Qed.

  Lemma stable_bracket {A} (st : M restorer) (body : M A) :
    is_start st -> stable body -> stable (bracket st body).
  Proof.
    intros Hst Hb s H. unfold bracket.
    destruct (Hst s H) as (s1 & E & H1 & R1). rewrite E.
    destruct (Hb s1 H1) as [H2 R2]. destruct (body s1) as [o s2]. cbn [snd] in *.
    rewrite restore_state. cbn [fst snd].
    destruct (A_restore (pl s) (povr s) (pl s2) (povr s2) H H2) as [H3 R3].
    split.
    - unfold I. destruct s2; cbn in *. exact H3.
    - eapply R_trans; [exact R1|]. eapply R_trans; [exact R2|].
      unfold R. destruct s2; cbn in *. exact R3.
  Qed.

  Lemma stable_bracket_if {A} c (st : M restorer) (body : M A) :
    is_start st -> stable body -> stable (bracket_if c st body).
  Proof. intros. unfold bracket_if. destruct c; [now apply stable_bracket | assumption]. Qed.

  Lemma stable_enter_safe : stable enter_safe.
  Proof.
    intros s H. unfold enter_safe, bind, get.
    destruct (ovr_eqb (povr s) OvrUnsafe) eqn:E.
    - cbn. split; [exact H | apply R_refl].
    - rewrite setmode_state. cbn [snd]. unfold I, R. destruct s; cbn in *.
      apply A_safe; [exact H|]. intros ->. discriminate.
  Qed.

  (* ---------- the evaluator ---------- *)
  Definition rec_stable (rec : recT) : Prop := forall c, stable (rec c).

  Ltac starts := first [apply is_start_unsafe | apply is_start_prered | apply is_start_safe_ovr | apply is_start_unsafe_ovr].
  Ltac stab1 :=
    match goal with
    | |- stable (ret _) => apply stable_ret
    | |- stable (wr _) => apply stable_wr
    | |- stable (w1 _) => apply stable_w1
    | |- stable (wstr _) => apply stable_wstr
    | |- stable (wbyte _) => apply stable_wbyte
    | |- stable getf => apply stable_getf
    | |- stable get => apply stable_get
    | |- stable get_mode => apply stable_get_mode
    | |- stable (of_opt _) => apply stable_of_opt
    | |- stable miss => apply stable_miss
    | |- stable (missc _) => apply stable_missc
    | |- stable (panic _) => apply stable_panic
    | |- stable enter_safe => apply stable_enter_safe
    | H : rec_stable ?rec |- stable (?rec _) => apply H
    | |- stable (bracket _ _) => apply stable_bracket; [ starts | ]
    | |- stable (bracket_if _ _ _) => apply stable_bracket_if; [ starts | ]
    | |- stable (bind _ _) => apply stable_bind; [ | intros ?]
    | |- stable (modify _) => apply stable_modify; intros ?; split; reflexivity
    | |- stable (fun s => (RFuel, s)) => apply stable_const
    | |- stable (if ?c then _ else _) => destruct c
    | |- stable (match ?x with _ => _ end) => destruct x
    | |- _ => assumption
    end.
  Ltac stab := repeat stab1.

  Section Rec.
  Variable rec : recT.
  Variable env : env.
  Hypothesis Hrec : rec_stable rec.

  Lemma stable_fmtBool v verb : stable (fmtBool rec v verb).
  Proof. unfold fmtBool. stab. Qed.

  Lemma stable_fmt0x64 v l : stable (fmt0x64 v l).
  Proof. unfold fmt0x64. stab. Qed.

  Lemma stable_fmtInteger v sg verb : stable (fmtInteger rec env v sg verb).
  Proof. unfold fmtInteger. stab; apply stable_fmt0x64. Qed.

  Lemma stable_fmtFloat b sz verb : stable (fmtFloat rec env b sz verb).
  Proof. unfold fmtFloat. stab. Qed.

  Lemma stable_fmtString v verb : stable (fmtString rec env v verb).
  Proof. unfold fmtString. stab. Qed.

  Lemma stable_bytes_sharp v : forall first, stable (bytes_sharp first v).
  Proof.
    induction v as [|c r IH]; intros first; cbn [bytes_sharp]; [apply stable_ret|].
    stab; [apply stable_fmt0x64 | apply IH].
  Qed.

  Lemma stable_bytes_plain verb v : forall first, stable (bytes_plain first verb v).
  Proof.
    induction v as [|c r IH]; intros first; cbn [bytes_plain]; [apply stable_ret|].
    stab. apply IH.
  Qed.

  Lemma stable_fmtBytes self v isnil verb ts : stable (fmtBytes rec env self v isnil verb ts).
  Proof. unfold fmtBytes. stab; first [apply stable_bytes_sharp | apply stable_bytes_plain]. Qed.

  Lemma stable_fmtPointer v verb : stable (fmtPointer rec env v verb).
  Proof.
    unfold fmtPointer. stab; first [apply stable_fmt0x64 | apply stable_fmtInteger].
  Qed.

  Lemma stable_badVerb verb : stable (badVerb rec verb).
  Proof. unfold badVerb. stab. Qed.

  Lemma stable_catch_panic arg verb method body :
    stable body -> stable (catch_panic rec arg verb method body).
  Proof.
    intros Hb s H. unfold catch_panic. destruct (Hb s H) as [H1 R1].
    destruct (body s) as [[a|v| |w] s1]; cbn [snd] in *; try (split; assumption).
    destruct (is_nil_ptr arg).
    { match goal with |- I (snd (?m s1)) /\ _ => assert (stable m) as Hm by (unfold wstr; apply stable_w1) end.
      destruct (Hm s1 H1) as [H2 R2]. split; [exact H2 | eapply R_trans; eassumption]. }
    destruct (panicking s1); [split; assumption|].
    match goal with |- I (snd (?m s1)) /\ _ => assert (stable m) as Hm by stab end.
    destruct (Hm s1 H1) as [H2 R2]. split; [exact H2 | eapply R_trans; eassumption].
  Qed.

  Lemma stable_string_method acts : stable (string_method acts).
  Proof. induction acts as [|a r IH]; cbn [string_method]; [apply stable_ret|]. destruct a; stab. Qed.

  Lemma stable_user_string self : stable (user_string self).
  Proof. unfold user_string. destruct self; stab; apply stable_string_method. Qed.

  Lemma stable_handleMethods verb : stable (handleMethods rec env verb).
  Proof.
    unfold handleMethods.
    repeat first [ stab1
                 | apply stable_catch_panic
                 | apply stable_fmtString
                 | apply stable_user_string ].
  Qed.

  Lemma stable_for_elems sep es verb depth ci : stable sep -> forall first, stable (for_elems rec sep first es verb depth ci).
  Proof.
    intros Hs. induction es as [|e r IH]; intros first; cbn [for_elems]; [apply stable_ret|].
    stab. apply IH.
  Qed.

  Lemma stable_for_kvs sep kvs verb depth ci : stable sep -> forall first, stable (for_kvs rec sep first kvs verb depth ci).
  Proof.
    intros Hs. induction kvs as [|[k v] r IH]; intros first; cbn [for_kvs]; [apply stable_ret|].
    stab. apply IH.
  Qed.

  Lemma stable_for_fields sep names fs verb depth ci : stable sep -> forall first, stable (for_fields rec sep names first fs verb depth ci).
  Proof.
    intros Hs. induction fs as [|[[n e] v] r IH]; intros first; cbn [for_fields]; [apply stable_ret|].
    stab. apply IH.
  Qed.

  Ltac stab2 :=
    repeat first [ stab1
                 | apply stable_catch_panic
                 | apply stable_fmtBool | apply stable_fmtInteger | apply stable_fmtFloat
                 | apply stable_fmtString | apply stable_fmtBytes | apply stable_fmtPointer
                 | apply stable_badVerb | apply stable_user_string | apply stable_handleMethods
                 | apply stable_for_elems | apply stable_for_kvs | apply stable_for_fields ].

  Lemma stable_print_kind fuel : forall value verb depth ci, stable (print_kind fuel rec env value verb depth ci).
  Proof.
    induction fuel as [|k IH]; intros value verb depth ci; destruct value; cbn [print_kind]; stab2.
    apply IH.
  Qed.

  Lemma stable_printValue value verb depth ci : stable (printValue rec env value verb depth ci).
  Proof.
    unfold printValue. destruct depth; destruct value; stab2; try apply stable_print_kind.
  Qed.

  (* what printValue runs inside the SafeValue / registered-type bracket of an interfaceable value *)
  Lemma stable_value_body value verb depth ci :
    stable (h <- rec (CHandleMethods verb) ;;
            if rbool h then ret tt
            else (modify (fun s => set_val (set_arg s None) (Some (value, ci))) ;;; print_kind 8 rec env value verb depth ci)).
  Proof. stab2; try apply stable_print_kind. Qed.

  Lemma stable_printArg_inner arg verb : stable (printArg_inner rec env arg verb).
  Proof.
    unfold printArg_inner. stab2.
  Qed.

  Lemma stable_printArg_body arg verb : stable (printArg_body rec env arg verb).
  Proof.
    unfold printArg_body. stab2. apply stable_printArg_inner.
  Qed.

  Lemma stable_printArg arg verb : stable (printArg rec env arg verb).
  Proof.
    unfold printArg. stab2; apply stable_printArg_body.
  Qed.

  Lemma stable_nested c : stable (nested rec c).
  Proof.
    intros s H. unfold nested, bind, get_mode.
    assert (I (fresh_pp (pl s) (povr s))) as Hn by exact H.
    destruct (Hrec c _ Hn) as [H1 R1].
    destruct (rec c (fresh_pp (pl s) (povr s))) as [o ns']. cbn [snd] in *.
    rewrite setmode_state. cbn [snd].
    destruct (A_restore (pl s) (povr s) (pl ns') (povr ns') H H1) as [H3 R3].
    split.
    - unfold I. destruct s; cbn in *. exact H3.
    - unfold R in *. destruct s; cbn in *. eapply R0_trans; [exact R1 | exact R3].
  Qed.

  Lemma stable_run_action self verb a : stable (run_action rec env self verb a).
  Proof. destruct a; cbn [run_action]; stab2; apply stable_nested. Qed.

  Lemma stable_run_acts self verb acts : stable (run_acts rec env self verb acts).
  Proof.
    induction acts as [|a r IH]; cbn [run_acts]; [apply stable_ret|].
    stab; first [apply stable_run_action | apply IH].
  Qed.

  Lemma stable_doPrint_loop a : forall argNum prev, stable (doPrint_loop rec argNum prev a).
  Proof.
    induction a as [|x r IH]; intros argNum prev; cbn [doPrint_loop]; [apply stable_ret|].
    stab. apply IH.
  Qed.

  Lemma stable_doPrint a : stable (doPrint rec a).
  Proof. unfold doPrint. stab. apply stable_doPrint_loop. Qed.

  Lemma stable_argNumber argNum f i e numArgs : stable (argNumber argNum f i e numArgs).
  Proof. unfold argNumber. stab. Qed.

  Lemma stable_upd_flags g : stable (upd_flags g).
  Proof. unfold upd_flags. stab. Qed.

  Lemma stable_clearflags : stable clearflags.
  Proof. unfold clearflags. stab. Qed.

  Lemma stable_flag_loop fuel f e argNum numArgs : forall i, stable (flag_loop fuel f i e argNum numArgs).
  Proof.
    induction fuel as [|k IH]; intros i; cbn [flag_loop]; [apply stable_ret|].
    repeat first [stab1 | apply stable_upd_flags | apply IH].
  Qed.

  Lemma stable_extra_args a : forall first, stable (extra_args rec first a).
  Proof.
    induction a as [|x r IH]; intros first; cbn [extra_args]; [apply stable_ret|].
    stab. apply IH.
  Qed.

  Lemma stable_format_loop fuel f a : forall i argNum afterIndex, stable (format_loop fuel rec f a i argNum afterIndex).
  Proof.
    induction fuel as [|k IH]; intros i argNum afterIndex; cbn [format_loop]; [apply stable_const|].
    repeat first [ stab1 | apply stable_upd_flags | apply stable_clearflags | apply stable_flag_loop
                 | apply stable_argNumber | apply IH
                 | match goal with |- stable (let '(_, _) := ?e in _) => destruct e end ].
  Qed.

  Lemma stable_doPrintf f a : stable (doPrintf rec f a).
  Proof.
    unfold doPrintf.
    repeat first [ stab1 | apply stable_clearflags | apply stable_format_loop | apply stable_extra_args ].
  Qed.
  End Rec.

  Theorem stable_ev fuel env : forall c, stable (ev fuel env c).
  Proof.
    induction fuel as [|k IH]; intros c; cbn [ev]; [apply stable_const|].
    destruct c; stab;
      first [ apply stable_printArg | apply stable_printValue | apply stable_badVerb
            | apply stable_handleMethods | apply stable_doPrintf | apply stable_doPrint
            | apply stable_run_acts ]; exact IH.
  Qed.
End Stable.
