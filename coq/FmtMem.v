(* Layer 3m: the integer formatter at the level of its scratch array.
   format.go fmtInteger writes the digits right to left into f.intbuf (68 bytes), or into a fresh
   array of 3 + wid + prec bytes when a width or precision is present and that is larger:
       i := len(buf);  i--; buf[i] = c  ...  f.pad(buf[i:])
   Here the array is represented by its length and the suffix buf[i:] written so far; an index
   below zero is the error value None (Go: "index out of range" panic).  Every statement of the Go
   function that touches buf is a [put]; the loops are the Go loops (the zero-padding loop with its
   "i > 0" guard).  FmtMemP.v proves that None is never produced and that the bytes handed to pad
   are those of the list-level [fmt_integer] the printer model uses. *)
From Redact Require Import Bytes Fmt.
From Coq Require Import ZArith List Bool.
Import ListNotations.
Open Scope Z_scope.

(* len(buf) *)
Definition scratch_len (f : fst_) : Z :=
  if widPresent (fl f) || precPresent (fl f)
  then (if 68 <? 3 + wid f + prec f then 3 + wid f + prec f else 68)
  else 68.

Definition scr := (Z * bytes)%type.      (* i and buf[i:] *)

(* i--; buf[i] = c *)
Definition put (c : N) (s : option scr) : option scr :=
  match s with
  | Some (i, ds) => if 0 <? i then Some (i - 1, c :: ds) else None
  | None => None
  end.

(* for u >= base { i--; buf[i] = digit(u % base); u /= base }; i--; buf[i] = digit(u) *)
Fixpoint digits_mem (fuel : nat) (upper : bool) (base u : Z) (s : option scr) : option scr :=
  match fuel with
  | O => None
  | S k =>
    if u <? base then put (digit_char upper u) s
    else digits_mem k upper base (u / base) (put (digit_char upper (u mod base)) s)
  end.

(* for i > 0 && prec > len(buf)-i { i--; buf[i] = '0' } *)
Fixpoint zeros_mem (fuel : nat) (prec : Z) (s : option scr) : option scr :=
  match s with
  | None => None
  | Some (i, ds) =>
    if (0 <? i) && (zlen ds <? prec) then
      match fuel with
      | O => None
      | S k => zeros_mem k prec (put 48%N s)
      end
    else s
  end.

Definition int_digits_mem (f : fst_) (u base verb : Z) (up negative : bool) (prec0 : Z) : option bytes :=
  let x := fl f in
  let s := digits_mem 70 up base u (Some (@pair Z bytes (scratch_len f) (@nil N))) in
  let s := zeros_mem (Z.to_nat prec0) prec0 s in
  let s :=
      if sharp x then
        if base =? 2 then put 48%N (put 98%N s)
        else if base =? 8 then (match s with Some (_, 48%N :: _) => s | _ => put 48%N s end)
        else if base =? 16 then put 48%N (put (if up then 88%N else 120%N) s)
        else s
      else s in
  let s := if verb =? 79 then put 48%N (put 111%N s) else s in
  let s := if negative then put 45%N s else if plus x then put 43%N s else if space x then put 32%N s else s in
  match s with Some (_, ds) => Some ds | None => None end.

Definition fmt_integer_mem (f : fst_) (u0 : Z) (base : Z) (isSigned : bool) (verb : Z) (upper : bool) : option (list wop) :=
  let negative := isSigned && (two63 <=? u0) in
  let u := if negative then two64 - u0 else u0 in
  let x := fl f in
  let go (prec : Z) :=
    match int_digits_mem f u base verb upper negative prec with
    | Some ds => Some (pad (set_zero f false) ds)
    | None => None
    end in
  if precPresent x then
    if (prec f =? 0) && (u =? 0) then Some (write_padding (set_zero f false) (wid f))
    else go (prec f)
  else if zero x && widPresent x then
    go (if negative || plus x || space x then wid f - 1 else wid f)
  else go 0.

(* ---------- fmtUnicode ---------- *)
(* len(buf): f.intbuf, or 2 + prec + 2 + utf8.UTFMax + 1 bytes when an explicit precision above 4
   makes that larger *)
Definition uscratch_len (f : fst_) : Z :=
  if precPresent (fl f) && (4 <? prec f)
  then (if 68 <? 2 + prec f + 2 + 4 + 1 then 2 + prec f + 2 + 4 + 1 else 68)
  else 68.

(* i -= len(cs); copy(buf[i:], cs)   (utf8.EncodeRune into buf[i:]) *)
Definition put_block (cs : bytes) (s : option scr) : option scr :=
  match s with
  | Some (i, ds) => if zlen cs <=? i then Some (i - zlen cs, (cs ++ ds)%list) else None
  | None => None
  end.

(* for prec > 0 { i--; buf[i] = '0'; prec-- } *)
Fixpoint zeros_n (n : nat) (s : option scr) : option scr :=
  match n with O => s | S k => zeros_n k (put 48%N s) end.

Definition fmt_unicode_mem (o : oracle) (f : fst_) (u : Z) : option (option (list wop)) :=
  (* outer option: None = index out of range; inner option: None = oracle entry missing *)
  let x := fl f in
  let prec := if precPresent x && (4 <? prec f) then prec f else 4 in
  let s0 : option scr := Some (@pair Z bytes (uscratch_len f) (@nil N)) in
  let quoted : option bool :=
    if sharp x && (u <=? MaxRune) then
      match olookup o (KIsPrint u) with
      | None => None
      | Some [49%N] => Some true
      | Some _ => Some false
      end
    else Some false in
  match quoted with
  | None => Some None
  | Some q =>
    let s1 := if q then put 32%N (put 39%N (put_block (encode_rune u) (put 39%N s0))) else s0 in
    let before := match s1 with Some (_, ds) => zlen ds | None => 0 end in
    let s2 := digits_mem 70 true 16 u s1 in
    let written := match s2 with Some (_, ds) => zlen ds - before | None => 0 end in
    let s3 := zeros_n (Z.to_nat (prec - written)) s2 in
    let s4 := put 85%N (put 43%N s3) in
    match s4 with
    | Some (_, ds) => Some (Some (pad (set_zero f false) ds))
    | None => None
    end
  end.
