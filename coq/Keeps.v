(* Layer 4 proofs: D1, the restorer pattern.  Every call of the evaluator other
   than doPrint/doPrintf leaves the buffer mode and the override exactly as it
   found them, on every outcome (normal return, propagating panic, out of fuel):
   each start* is paired with its restore, nested printers restore the caller's
   mode, and nothing else touches the override. *)
From Redact Require Import Bytes Tokens Utf8 Buffer Ops BufInv Fmt Value LBuf Printer BufInvP Hoare.
Import List ListNotations.
Open Scope Z_scope.

Definition keeps {A} (m : M A) : Prop :=
  forall s, lmode (pl (snd (m s))) = lmode (pl s) /\ povr (snd (m s)) = povr s.

Lemma keeps_ret {A} (a : A) : keeps (ret a).
Proof. intros s. auto. Qed.
Lemma keeps_const {A} (r : res A) : keeps (fun s => (r, s)).
Proof. intros s. auto. Qed.
Lemma keeps_bind {A B} (m : M A) (k : A -> M B) : keeps m -> (forall a, keeps (k a)) -> keeps (bind m k).
Proof.
  intros Hm Hk s. unfold bind. destruct (Hm s) as [M1 O1].
  destruct (m s) as [[a|v| |w] s1]; cbn [snd] in *; auto.
  destruct (Hk a s1) as [M2 O2]. split; congruence.
Qed.
Lemma keeps_get : keeps get. Proof. intros s; auto. Qed.
Lemma keeps_getf : keeps getf. Proof. intros s; auto. Qed.
Lemma keeps_get_mode : keeps get_mode. Proof. intros s; auto. Qed.
Lemma keeps_panic {A} v : keeps (@panic A v). Proof. intros s; auto. Qed.
Lemma keeps_missc {A} w : keeps (@missc A w). Proof. intros s; auto. Qed.
Lemma keeps_miss {A} : keeps (@miss A). Proof. intros s; auto. Qed.
Lemma keeps_of_opt {A} (o : option A) : keeps (of_opt o).
Proof. destruct o; [apply keeps_ret | apply keeps_miss]. Qed.
Lemma keeps_modify (f : pst -> pst) :
  (forall s, pl (f s) = pl s /\ povr (f s) = povr s) -> keeps (modify f).
Proof. intros Hf s. unfold modify. cbn [snd]. destruct (Hf s) as [-> ->]. auto. Qed.

Lemma keeps_bop_write o : is_write o -> keeps (bop o).
Proof.
  intros Ho s. unfold bop. destruct (l_step (pl s) o) as [l' ob] eqn:E. cbn [snd].
  assert (l' = lset (pl s) o) as -> by (unfold lset; rewrite E; reflexivity).
  destruct s; cbn. split; [now apply lmode_write | reflexivity].
Qed.
Lemma keeps_w1 w : keeps (w1 w).
Proof. destruct w; cbn [w1]; (apply keeps_bind; [apply keeps_bop_write; exact Logic.I | intros; apply keeps_ret]). Qed.
Lemma keeps_wr ws : keeps (wr ws).
Proof. induction ws as [|w r IH]; cbn [wr]; [apply keeps_ret|]. apply keeps_bind; [apply keeps_w1 | intros; exact IH]. Qed.
Lemma keeps_wstr str : keeps (wstr str). Proof. apply keeps_w1. Qed.
Lemma keeps_wbyte c : keeps (wbyte c). Proof. apply keeps_w1. Qed.

(* a start function always succeeds and records the mode and override it found *)
Definition start_ok (st : M restorer) : Prop :=
  forall s, exists s1, st s = (ROk (lmode (pl s), povr s), s1).

Lemma setmode_st s m : set_mode_m m s = (ROk tt, set_pl s (lset (pl s) (OMode m))).
Proof. unfold set_mode_m, bind, bop, ret, lset. destruct (l_step (pl s) (OMode m)). reflexivity. Qed.

Lemma start_ok_unsafe : start_ok start_unsafe.
Proof.
  intros s. unfold start_unsafe, bind, get_mode, get.
  destruct (ovr_eqb (povr s) OvrSafe); [|rewrite setmode_st]; cbn; eexists; reflexivity.
Qed.
Lemma start_ok_prered : start_ok start_prered.
Proof.
  intros s. unfold start_prered, bind, get_mode, get.
  destruct (ovr_eqb (povr s) OvrUnsafe); [|rewrite setmode_st]; cbn; eexists; reflexivity.
Qed.
Lemma start_ok_safe_ovr : start_ok start_safe_ovr.
Proof.
  intros s. unfold start_safe_ovr, bind, get_mode, get.
  destruct (ovr_eqb (povr s) NoOvr); [rewrite setmode_st|]; cbn; eexists; reflexivity.
Qed.
Lemma start_ok_unsafe_ovr : start_ok start_unsafe_ovr.
Proof.
  intros s. unfold start_unsafe_ovr, bind, get_mode, get.
  destruct (ovr_eqb (povr s) NoOvr); [rewrite setmode_st|]; cbn; eexists; reflexivity.
Qed.

Lemma restore_st (r : restorer) s :
  restore r s = (ROk tt, set_ovr (set_pl s (lset (pl s) (OMode (fst r)))) (snd r)).
Proof. unfold restore, bind. rewrite setmode_st. reflexivity. Qed.

(* defer start().restore(): whatever the body does and however it ends *)
Lemma keeps_bracket {A} (st : M restorer) (body : M A) : start_ok st -> keeps (bracket st body).
Proof.
  intros Hst s. unfold bracket. destruct (Hst s) as (s1 & E). rewrite E.
  destruct (body s1) as [o s2]. rewrite restore_st. cbn [fst snd].
  destruct s2; cbn. split; [apply lmode_setmode | reflexivity].
Qed.
Lemma keeps_bracket_if {A} c (st : M restorer) (body : M A) : start_ok st -> keeps body -> keeps (bracket_if c st body).
Proof. intros. unfold bracket_if. destruct c; [now apply keeps_bracket | assumption]. Qed.

(* the nested printer of SafePrinter.Print/Printf: whatever it does *)
Lemma keeps_nested rec c : keeps (nested rec c).
Proof.
  intros s. unfold nested, bind, get_mode.
  destruct (rec c (fresh_pp (pl s) (povr s))) as [o ns']. rewrite setmode_st. cbn [snd].
  destruct s; cbn. split; [apply lmode_setmode | reflexivity].
Qed.

Definition is_inner (c : call) : Prop :=
  match c with CDoPrintf _ _ | CDoPrint _ => False | _ => True end.
Definition rec_keeps (rec : recT) : Prop := forall c, is_inner c -> keeps (rec c).

Ltac kstarts := first [apply start_ok_unsafe | apply start_ok_prered | apply start_ok_safe_ovr | apply start_ok_unsafe_ovr].
Ltac kp1 :=
  match goal with
  | |- keeps (ret _) => apply keeps_ret
  | |- keeps (wr _) => apply keeps_wr
  | |- keeps (w1 _) => apply keeps_w1
  | |- keeps (wstr _) => apply keeps_wstr
  | |- keeps (wbyte _) => apply keeps_wbyte
  | |- keeps getf => apply keeps_getf
  | |- keeps get => apply keeps_get
  | |- keeps get_mode => apply keeps_get_mode
  | |- keeps (of_opt _) => apply keeps_of_opt
  | |- keeps miss => apply keeps_miss
  | |- keeps (missc _) => apply keeps_missc
  | |- keeps (panic _) => apply keeps_panic
  | |- keeps (nested _ _) => apply keeps_nested
  | H : rec_keeps ?rec |- keeps (?rec _) => apply H; exact Logic.I
  | |- keeps (bracket _ _) => apply keeps_bracket; kstarts
  | |- keeps (bracket_if _ _ _) => apply keeps_bracket_if; [ kstarts | ]
  | |- keeps (bind _ _) => apply keeps_bind; [ | intros ?]
  | |- keeps (modify _) => apply keeps_modify; intros ?; split; reflexivity
  | |- keeps (fun s => (RFuel, s)) => apply keeps_const
  | |- keeps (if ?c then _ else _) => destruct c
  | |- keeps (match ?x with _ => _ end) => destruct x
  | |- _ => assumption
  end.
Ltac kp := repeat kp1.

Section Rec.
  Variable rec : recT.
  Variable env : env.
  Hypothesis Hrec : rec_keeps rec.

  Lemma keeps_fmtBool v verb : keeps (fmtBool rec v verb). Proof. unfold fmtBool. kp. Qed.
  Lemma keeps_fmt0x64 v l : keeps (fmt0x64 v l). Proof. unfold fmt0x64. kp. Qed.
  Lemma keeps_fmtInteger v sg verb : keeps (fmtInteger rec env v sg verb).
  Proof. unfold fmtInteger. kp; apply keeps_fmt0x64. Qed.
  Lemma keeps_fmtFloat b sz verb : keeps (fmtFloat rec env b sz verb). Proof. unfold fmtFloat. kp. Qed.
  Lemma keeps_fmtString v verb : keeps (fmtString rec env v verb). Proof. unfold fmtString. kp. Qed.
  Lemma keeps_bytes_sharp v : forall first, keeps (bytes_sharp first v).
  Proof. induction v as [|c r IH]; intros first; cbn [bytes_sharp]; [apply keeps_ret|]. kp; first [apply keeps_fmt0x64 | apply IH]. Qed.
  Lemma keeps_bytes_plain verb v : forall first, keeps (bytes_plain first verb v).
  Proof. induction v as [|c r IH]; intros first; cbn [bytes_plain]; [apply keeps_ret|]. kp. apply IH. Qed.
  Lemma keeps_fmtBytes self v isnil verb ts : keeps (fmtBytes rec env self v isnil verb ts).
  Proof. unfold fmtBytes. kp; first [apply keeps_bytes_sharp | apply keeps_bytes_plain]. Qed.
  Lemma keeps_fmtPointer v verb : keeps (fmtPointer rec env v verb).
  Proof. unfold fmtPointer. kp; first [apply keeps_fmt0x64 | apply keeps_fmtInteger]. Qed.
  Lemma keeps_badVerb verb : keeps (badVerb rec verb). Proof. unfold badVerb. kp. Qed.

  Lemma keeps_catch_panic arg verb method body : keeps body -> keeps (catch_panic rec arg verb method body).
  Proof.
    intros Hb s. unfold catch_panic. destruct (Hb s) as [M1 O1].
    destruct (body s) as [[a|v| |w] s1]; cbn [snd] in *; auto.
    destruct (is_nil_ptr arg).
    { match goal with |- lmode (pl (snd (?m s1))) = _ /\ _ => assert (keeps m) as Hm by (unfold wstr; apply keeps_w1) end.
      destruct (Hm s1) as [M2 O2]. split; congruence. }
    destruct (panicking s1); [auto|].
    match goal with |- lmode (pl (snd (?m s1))) = _ /\ _ => assert (keeps m) as Hm by kp end.
    destruct (Hm s1) as [M2 O2]. split; congruence.
  Qed.

  Lemma keeps_string_method acts : keeps (string_method acts).
  Proof. induction acts as [|a r IH]; cbn [string_method]; [apply keeps_ret|]. destruct a; kp. Qed.
  Lemma keeps_user_string self : keeps (user_string self).
  Proof. unfold user_string. destruct self; kp; apply keeps_string_method. Qed.

  Lemma keeps_handleMethods verb : keeps (handleMethods rec env verb).
  Proof.
    unfold handleMethods.
    repeat first [ kp1 | apply keeps_catch_panic | apply keeps_fmtString | apply keeps_user_string ].
  Qed.

  Lemma keeps_for_elems sep es verb depth ci : keeps sep -> forall first, keeps (for_elems rec sep first es verb depth ci).
  Proof. intros Hs. induction es as [|e r IH]; intros first; cbn [for_elems]; [apply keeps_ret|]. kp. apply IH. Qed.
  Lemma keeps_for_kvs sep kvs verb depth ci : keeps sep -> forall first, keeps (for_kvs rec sep first kvs verb depth ci).
  Proof. intros Hs. induction kvs as [|[k v] r IH]; intros first; cbn [for_kvs]; [apply keeps_ret|]. kp. apply IH. Qed.
  Lemma keeps_for_fields sep names fs verb depth ci : keeps sep -> forall first, keeps (for_fields rec sep names first fs verb depth ci).
  Proof. intros Hs. induction fs as [|[[n e] v] r IH]; intros first; cbn [for_fields]; [apply keeps_ret|]. kp. apply IH. Qed.

  Ltac kp2 :=
    repeat first [ kp1 | apply keeps_catch_panic
                 | apply keeps_fmtBool | apply keeps_fmtInteger | apply keeps_fmtFloat
                 | apply keeps_fmtString | apply keeps_fmtBytes | apply keeps_fmtPointer
                 | apply keeps_badVerb | apply keeps_user_string | apply keeps_handleMethods
                 | apply keeps_for_elems | apply keeps_for_kvs | apply keeps_for_fields ].

  Lemma keeps_print_kind fuel : forall value verb depth ci, keeps (print_kind fuel rec env value verb depth ci).
  Proof. induction fuel as [|k IH]; intros value verb depth ci; destruct value; cbn [print_kind]; kp2. apply IH. Qed.
  Lemma keeps_printValue value verb depth ci : keeps (printValue rec env value verb depth ci).
  Proof. unfold printValue. destruct depth; destruct value; kp2; try apply keeps_print_kind. Qed.
  Lemma keeps_printArg_inner arg verb : keeps (printArg_inner rec env arg verb).
  Proof. unfold printArg_inner. kp2. Qed.
  Lemma keeps_printArg_body arg verb : keeps (printArg_body rec env arg verb).
  Proof. unfold printArg_body, printArg_inner. kp2. Qed.
  Lemma keeps_printArg arg verb : keeps (printArg rec env arg verb).
  Proof. unfold printArg. kp2; apply keeps_printArg_body. Qed.

  Lemma keeps_run_action self verb a : keeps (run_action rec env self verb a).
  Proof. destruct a; cbn [run_action]; kp2. Qed.
  Lemma keeps_run_acts self verb acts : keeps (run_acts rec env self verb acts).
  Proof. induction acts as [|a r IH]; cbn [run_acts]; [apply keeps_ret|]. kp; first [apply keeps_run_action | apply IH]. Qed.

  Lemma keeps_doPrint_loop a : forall argNum prev, keeps (doPrint_loop rec argNum prev a).
  Proof. induction a as [|x r IH]; intros argNum prev; cbn [doPrint_loop]; [apply keeps_ret|]. kp. apply IH. Qed.
  Lemma keeps_argNumber argNum f i e numArgs : keeps (argNumber argNum f i e numArgs).
  Proof. unfold argNumber. kp. Qed.
  Lemma keeps_upd_flags g : keeps (upd_flags g). Proof. unfold upd_flags. kp. Qed.
  Lemma keeps_clearflags : keeps clearflags. Proof. unfold clearflags. kp. Qed.
  Lemma keeps_flag_loop fuel f e argNum numArgs : forall i, keeps (flag_loop fuel f i e argNum numArgs).
  Proof.
    induction fuel as [|k IH]; intros i; cbn [flag_loop]; [apply keeps_ret|].
    repeat first [kp1 | apply keeps_upd_flags | apply IH].
  Qed.
  Lemma keeps_extra_args a : forall first, keeps (extra_args rec first a).
  Proof. induction a as [|x r IH]; intros first; cbn [extra_args]; [apply keeps_ret|]. kp. apply IH. Qed.
  Lemma keeps_format_loop fuel f a : forall i argNum afterIndex, keeps (format_loop fuel rec f a i argNum afterIndex).
  Proof.
    induction fuel as [|k IH]; intros i argNum afterIndex; cbn [format_loop]; [apply keeps_const|].
    repeat first [ kp1 | apply keeps_upd_flags | apply keeps_clearflags | apply keeps_flag_loop
                 | apply keeps_argNumber | apply IH
                 | match goal with |- keeps (let '(_, _) := ?e in _) => destruct e end ].
  Qed.
End Rec.

(* D1 *)
Theorem keeps_ev fuel env : forall c, is_inner c -> keeps (ev fuel env c).
Proof.
  induction fuel as [|k IH]; intros c Hc; cbn [ev]; [apply keeps_const|].
  destruct c; cbn [is_inner] in Hc; try contradiction; kp;
    first [ apply keeps_printArg | apply keeps_printValue | apply keeps_badVerb
          | apply keeps_handleMethods | apply keeps_run_acts ]; exact IH.
Qed.


(* doPrint / doPrintf switch to safe mode first (unless under Unsafe()); the override is untouched *)
Definition kovr {A} (m : M A) : Prop := forall s, povr (snd (m s)) = povr s.

Lemma kovr_keeps {A} (m : M A) : keeps m -> kovr m.
Proof. intros H s. exact (proj2 (H s)). Qed.
Lemma kovr_bind {A B} (m : M A) (k : A -> M B) : kovr m -> (forall a, kovr (k a)) -> kovr (bind m k).
Proof.
  intros Hm Hk s. unfold bind. pose proof (Hm s) as O1.
  destruct (m s) as [[a|v| |w] s1]; cbn [snd] in *; auto. rewrite (Hk a s1). exact O1.
Qed.
Lemma kovr_enter_safe : kovr enter_safe.
Proof.
  intros s. unfold enter_safe, bind, get. destruct (ovr_eqb (povr s) OvrUnsafe); [reflexivity|].
  rewrite setmode_st. destruct s; reflexivity.
Qed.

Theorem kovr_ev fuel env c : kovr (ev fuel env c).
Proof.
  destruct fuel as [|k]; [intros s; reflexivity|].
  assert (rec_keeps (ev k env)) as Hk by (intros c' Hc'; now apply keeps_ev).
  destruct c; try (apply kovr_keeps; apply keeps_ev; exact Logic.I); cbn [ev].
  - (* doPrintf *)
    apply kovr_bind; [|intros; apply kovr_keeps, keeps_ret].
    unfold doPrintf. apply kovr_bind; [apply kovr_enter_safe | intros _].
    apply kovr_keeps.
    repeat first [ kp1 | apply keeps_clearflags | apply keeps_format_loop | apply keeps_extra_args ]; exact Hk.
  - (* doPrint *)
    apply kovr_bind; [|intros; apply kovr_keeps, keeps_ret].
    unfold doPrint. apply kovr_bind; [apply kovr_enter_safe | intros _].
    apply kovr_keeps, keeps_doPrint_loop. exact Hk.
Qed.

Print Assumptions keeps_ev.
Print Assumptions kovr_ev.
