(* Layer 4d: the public entry points (markers_print.go, helpers.go,
   builder/builder.go, util.go) on top of the evaluator. *)
From Redact Require Export Printer.
From Coq Require Import String.
Import List ListNotations.
Open Scope Z_scope.

Record outp := mkOut {
  o_bytes : bytes;              (* what the call returns / hands to the io.Writer *)
  o_log : list op;              (* Buffer method calls made on the printer's buffer, oldest first *)
  o_err : option value          (* HelperForErrorf: the captured %w operand *)
}.

Definition newPrinter : pst := fresh_pp l_init NoOvr.

(* p.buf.TakeRedactableString() at the end of every entry point *)
Definition finish {A} (r : res A * pst) : res outp :=
  match r with
  | (ROk _, s) =>
    let '(l, ob) := l_step (pl s) OTake in
    ROk (mkOut (match ob with ObR x => x | _ => [] end) (llog l) (wrappedErr s))
  | (RPanic v, _) => RPanic v
  | (RFuel, _) => RFuel
  | (RMiss w, _) => RMiss w
  end.

Definition sprint (fuel : nat) (env : env) (a : list value) : res outp :=
  finish (ev fuel env (CDoPrint a) newPrinter).
Definition sprintf (fuel : nat) (env : env) (f : bytes) (a : list value) : res outp :=
  finish (ev fuel env (CDoPrintf f a) newPrinter).
(* Fprint / Fprintf: the same bytes, handed to the writer in one Write. *)
Definition fprint := sprint.
Definition fprintf := sprintf.
Definition errorf (fuel : nat) (env : env) (f : bytes) (a : list value) : res outp :=
  finish (ev fuel env (CDoPrintf f a) (set_wrapErrs newPrinter true)).
(* Sprintfn(printer): the callback is a script over the SafePrinter. *)
Definition sprintfn (fuel : nat) (env : env) (acts : list action) : res outp :=
  finish (ev fuel env (CActs VNil 118 acts) newPrinter).

(* ---------- StringBuilder ---------- *)
Definition t_safeint : tinfo := mkT (bs "interfaces.SafeInt") true false.
Definition t_safeuint : tinfo := mkT (bs "interfaces.SafeUint") true false.
Definition t_safefloat : tinfo := mkT (bs "interfaces.SafeFloat") true false.

Definition lwrite (l : lbuf) (m : mode) (o : op) : lbuf :=
  fst (l_step (fst (l_step l (OMode m))) o).

Definition res_bind {A B} (r : res A) (f : A -> res B) : res B :=
  match r with ROk a => f a | RPanic v => RPanic v | RFuel => RFuel | RMiss w => RMiss w end.

(* one SafeWriter / io.Writer call on a StringBuilder *)
Definition builder_step (fuel : nat) (env : env) (l : lbuf) (a : action) : res lbuf :=
  let inner (r : res outp) (m : mode) : res lbuf :=
    res_bind r (fun o => ROk (fst (l_step (fst (l_step l (OMode m))) (OWrite (o_bytes o))))) in
  match a with
  | AWrite s | AUnsafeString s | AUnsafeBytes s => ROk (lwrite l MUnsafe (OWrite s))
  | AUnsafeByte c => ROk (lwrite l MUnsafe (OWriteByte c))
  | AUnsafeRune r => ROk (lwrite l MUnsafe (OWriteRune r))
  | ASafeString s | ASafeBytes s => ROk (lwrite l MSafe (OWrite s))
  | ASafeByte c => ROk (lwrite l MSafe (OWriteByte c))
  | ASafeRune r => ROk (lwrite l MSafe (OWriteRune r))
  | ASafeInt u => inner (sprintf fuel env (bs "%d") [VInt t_safeint u]) MSafe
  | ASafeUint u => inner (sprintf fuel env (bs "%d") [VUint t_safeuint u]) MSafe
  | ASafeFloat b => inner (sprintf fuel env (bs "%v") [VFloat t_safefloat 64 b]) MSafe
  | APrint args => inner (sprint fuel env args) MRaw
  | APrintf f args => inner (sprintf fuel env f args) MRaw
  | ARet _ | APanic _ | ADump => ROk l
  end.

Fixpoint builder_run (fuel : nat) (env : env) (l : lbuf) (acts : list action) : res lbuf :=
  match acts with
  | [] => ROk l
  | a :: r => res_bind (builder_step fuel env l a) (fun l' => builder_run fuel env l' r)
  end.

Definition builder (fuel : nat) (env : env) (acts : list action) : res outp :=
  res_bind (builder_run fuel env l_init acts)
           (fun l => ROk (mkOut (redactable_bytes (lb l)) (llog l) None)).

(* ---------- util.go: JoinTo / Join (as repaired: non-slices are printed once) ---------- *)
Fixpoint join_acts (delim : bytes) (first : bool) (vs : list value) : list action :=
  match vs with
  | [] => []
  | v :: r => (if first then [] else [APrint [VRS delim]]) ++ APrint [v] :: join_acts delim false r
  end.
Definition jointo_acts (delim : bytes) (values : value) : list action :=
  match values with
  | VSlice _ _ es => join_acts delim true (map (fun e => match e with VIface _ (Some x) => x | VIface _ None => VNil | x => x end) es)
  | VBytes _ _ s => join_acts delim true (map (fun c => VUint t_uint8 (Z.of_N c)) s)
  | v => [APrint [v]]
  end.
Definition join (fuel : nat) (env : env) (delim : bytes) (rs : list bytes) : res outp :=
  builder fuel env (join_acts delim true (map VRS rs)).
