(* Layer 4e: internal/fmtforward/make_format.go (MakeFormat) and the directive
   syntax it targets: the part of doPrintf's parser that reads one directive
   (flags, width, precision, verb) - the inverse the property C14 is about. *)
From Redact Require Export Printer.
From Coq Require Import String.
Import List ListNotations.
Open Scope Z_scope.

(* What a fmt.State reports: Flag('+'), Flag('-'), Flag('#'), Flag(' '),
   Flag('0'), Width(), Precision(). *)
Record fstate := mkSt {
  st_plus : bool; st_minus : bool; st_sharp : bool; st_space : bool; st_zero : bool;
  st_wid : option Z; st_prec : option Z
}.

Definition oz_eqb (a b : option Z) : bool :=
  match a, b with Some x, Some y => x =? y | None, None => true | _, _ => false end.

(* MakeFormat(s, verb) : (justV, format) *)
Definition make_format (s : fstate) (verb : Z) : bool * bytes :=
  let noflags := negb (st_plus s) && negb (st_minus s) && negb (st_sharp s) && negb (st_space s)
                 && negb (st_zero s)
                 && match st_wid s with None => true | _ => false end
                 && match st_prec s with None => true | _ => false end in
  if noflags && (verb =? 118) then (true, bs "%v")
  else if noflags && (verb =? 115) then (false, bs "%s")
  else if noflags && (verb =? 100) then (false, bs "%d")
  else
    (false,
     [37%N]
     ++ (if st_plus s then [43%N] else [])
     ++ (if st_minus s then [45%N] else [])
     ++ (if st_sharp s then [35%N] else [])
     ++ (if st_space s then [32%N] else [])
     ++ (if st_zero s then [48%N] else [])
     ++ (match st_wid s with Some w => itoa w | None => [] end)
     ++ (match st_prec s with Some p => 46%N :: itoa p | None => [] end)
     ++ encode_rune verb).

(* ---- reading one directive back, as doPrintf does ---- *)
Record pflags := mkPf { f_plus : bool; f_minus : bool; f_sharp : bool; f_space : bool; f_zero : bool }.

Fixpoint parse_flags (fuel : nat) (f : bytes) (i : nat) (x : pflags) : pflags * nat :=
  match fuel with
  | O => (x, i)
  | S k =>
    let c := fb f i in
    if (i <? length f)%nat then
      if c =? 35 then parse_flags k f (S i) (mkPf (f_plus x) (f_minus x) true (f_space x) (f_zero x))
      else if c =? 48 then parse_flags k f (S i) (mkPf (f_plus x) (f_minus x) (f_sharp x) (f_space x) (negb (f_minus x)))
      else if c =? 43 then parse_flags k f (S i) (mkPf true (f_minus x) (f_sharp x) (f_space x) (f_zero x))
      else if c =? 45 then parse_flags k f (S i) (mkPf (f_plus x) true (f_sharp x) (f_space x) false)
      else if c =? 32 then parse_flags k f (S i) (mkPf (f_plus x) (f_minus x) (f_sharp x) true (f_zero x))
      else (x, i)
    else (x, i)
  end.

(* %<flags><width>[.<precision>]<verb> and nothing else *)
Definition parse_directive (f : bytes) : option (fstate * Z) :=
  let e := length f in
  if negb (fb f 0 =? 37) || (e <? 2)%nat then None else
  let '(x, i1) := parse_flags (S e) f 1 (mkPf false false false false false) in
  let '(w, wp, i2) := parsenum f i1 e in
  let '(p, pp, i3) :=
    if (S i2 <? e)%nat && (fb f i2 =? 46) then
      let '(p, pp, i3) := parsenum f (S i2) e in
      ((if pp then p else 0), true, i3)
    else (0, false, i2) in
  if (e <=? i3)%nat then None else
  let c := fb f i3 in
  let '(verb, size) := if c <? 128 then (c, 1%nat) else decode_rune (skipn i3 f) in
  if negb ((i3 + size)%nat =? e)%nat then None else
  Some (mkSt (f_plus x) (f_minus x) (f_sharp x) (f_space x) (f_zero x)
             (if wp then Some w else None) (if pp then Some p else None), verb).
