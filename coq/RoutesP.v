(* Entry points that share one evaluator: Fprint(f) = Sprint(f) by definition;
   StringBuilder.Print(f) inlines the result of a fresh printer in raw mode. *)
From Redact Require Import Bytes Tokens Utf8 Escape Buffer Ops BufInv Fmt Value LBuf Printer Api Forward.
Import List ListNotations.
Open Scope Z_scope.

Lemma output_raw r : output [OMode MRaw; OWrite r] = r.
Proof. reflexivity. Qed.

Theorem builder_print_route fuel env a o o' :
  sprint fuel env a = ROk o' -> builder fuel env [APrint a] = ROk o -> o_bytes o = o_bytes o'.
Proof.
  intros Hs Hb. unfold builder, builder_run, builder_step in Hb. rewrite Hs in Hb.
  cbn [res_bind] in Hb. injection Hb as <-. reflexivity.
Qed.

Theorem builder_printf_route fuel env f a o o' :
  sprintf fuel env f a = ROk o' -> builder fuel env [APrintf f a] = ROk o -> o_bytes o = o_bytes o'.
Proof.
  intros Hs Hb. unfold builder, builder_run, builder_step in Hb. rewrite Hs in Hb.
  cbn [res_bind] in Hb. injection Hb as <-. reflexivity.
Qed.

Theorem fprint_is_sprint : fprint = sprint /\ fprintf = sprintf.
Proof. split; reflexivity. Qed.

(* MakeFormat reports the bare %v case, and only that one *)
Theorem make_format_justV s verb :
  fst (make_format s verb) = true <->
  (verb = 118 /\ st_plus s = false /\ st_minus s = false /\ st_sharp s = false /\ st_space s = false /\
   st_zero s = false /\ st_wid s = None /\ st_prec s = None).
Proof.
  unfold make_format. destruct s as [p m sh sp z w pr]; cbn [st_plus st_minus st_sharp st_space st_zero st_wid st_prec].
  destruct p, m, sh, sp, z, w, pr; cbn [negb andb]; try (split; [discriminate | intros (_&?&?&?&?&?&?&?); discriminate]).
  destruct (verb =? 118) eqn:E.
  - apply Z.eqb_eq in E. cbn. split; intros; repeat split; auto.
  - cbn [fst]. split.
    + destruct (verb =? 115); [discriminate|]. destruct (verb =? 100); discriminate.
    + intros (Hv & _). apply Z.eqb_neq in E. contradiction.
Qed.

Print Assumptions builder_print_route.
Print Assumptions make_format_justV.
