(* Entry points that share one evaluator: Fprint(f) = Sprint(f) by definition;
   StringBuilder.Print(f) inlines the result of a fresh printer in raw mode. *)
From Redact Require Import Bytes Tokens Utf8 Escape Buffer Ops BufInv Fmt Value LBuf Printer Api Forward.
From Coq Require Import String.
Import List ListNotations.
Open Scope Z_scope.

Lemma output_raw r : output [OMode MRaw; OWrite r] = r.
Proof. reflexivity. Qed.

Theorem builder_print_route fuel env a o o' :
  sprint fuel env a = ROk o' -> builder fuel env [APrint a] = ROk o -> o_bytes o = o_bytes o'.
Proof.
  intros Hs Hb. unfold builder, builder_run, builder_step in Hb. rewrite Hs in Hb.
  cbn [res_bind] in Hb. injection Hb as <-. reflexivity.
Qed.

Theorem builder_printf_route fuel env f a o o' :
  sprintf fuel env f a = ROk o' -> builder fuel env [APrintf f a] = ROk o -> o_bytes o = o_bytes o'.
Proof.
  intros Hs Hb. unfold builder, builder_run, builder_step in Hb. rewrite Hs in Hb.
  cbn [res_bind] in Hb. injection Hb as <-. reflexivity.
Qed.

Theorem fprint_is_sprint : fprint = sprint /\ fprintf = sprintf.
Proof. split; reflexivity. Qed.

(* MakeFormat reports the bare %v case, and only that one *)
Theorem make_format_justV s verb :
  fst (make_format s verb) = true <->
  (verb = 118 /\ st_plus s = false /\ st_minus s = false /\ st_sharp s = false /\ st_space s = false /\
   st_zero s = false /\ st_wid s = None /\ st_prec s = None).
Proof.
  unfold make_format. destruct s as [p m sh sp z w pr]; cbn [st_plus st_minus st_sharp st_space st_zero st_wid st_prec].
  destruct p, m, sh, sp, z, w, pr; cbn [negb andb]; try (split; [discriminate | intros (_&?&?&?&?&?&?&?); discriminate]).
  destruct (verb =? 118) eqn:E.
  - apply Z.eqb_eq in E. cbn. split; intros; repeat split; auto.
  - cbn [fst]. split.
    + destruct (verb =? 115); [discriminate|]. destruct (verb =? 100); discriminate.
    + intros (Hv & _). apply Z.eqb_neq in E. contradiction.
Qed.

(* ---------- re-printing a redactable ---------- *)
From Redact Require Import BufInvP BufContentP ComposeP ApiP.

Lemma sprint_rs_log k env r : exists o, sprint (S (S k)) env [VRS r] = ROk o /\ o_log o = [OMode MSafe; OMode MRaw; OWrite r; OMode MSafe; OTake].
Proof. eexists. split; reflexivity. Qed.
Lemma sprint_rb_log k env r : exists o, sprint (S (S k)) env [VRB r] = ROk o /\ o_log o = [OMode MSafe; OMode MRaw; OWrite r; OMode MSafe; OTake].
Proof. eexists. split; reflexivity. Qed.

Lemma raw_log_output (o : outp) r : (exists ops, o_log o = ops ++ [OTake] /\ o_bytes o = output ops) ->
  o_log o = [OMode MSafe; OMode MRaw; OWrite r; OMode MSafe; OTake] -> last_invalid r = false -> o_bytes o = r.
Proof.
  intros (ops & Hl & Hb) L Hr. rewrite L in Hl.
  change [OMode MSafe; OMode MRaw; OWrite r; OMode MSafe; OTake] with ([OMode MSafe; OMode MRaw; OWrite r; OMode MSafe] ++ [OTake]) in Hl.
  apply app_inj_tail in Hl. destruct Hl as [<- _]. rewrite Hb. now apply raw_copy.
Qed.

(* Sprint(r) = r for a redactable string or byte slice r *)
Theorem sprint_redactable_identity k env r o : last_invalid r = false ->
  (sprint (S (S k)) env [VRS r] = ROk o \/ sprint (S (S k)) env [VRB r] = ROk o) -> o_bytes o = r.
Proof.
  intros Hr [H|H].
  - destruct (sprint_rs_log k env r) as (o' & E & L). rewrite E in H. injection H as <-.
    exact (raw_log_output o' r (finish_output _ o' E) L Hr).
  - destruct (sprint_rb_log k env r) as (o' & E & L). rewrite E in H. injection H as <-.
    exact (raw_log_output o' r (finish_output _ o' E) L Hr).
Qed.

(* Sprint(Sprint(a...)) = Sprint(a...) *)
Theorem sprint_idempotent fuel k env a o o' : sprint fuel env a = ROk o -> last_invalid (o_bytes o) = false ->
  sprint (S (S k)) env [VRS (o_bytes o)] = ROk o' -> o_bytes o' = o_bytes o.
Proof. intros _ Hr H. apply (sprint_redactable_identity k env _ o' Hr). now left. Qed.

(* Sprintf("%v", r) = Sprintf("%s", r) = r; literal text around the directive is kept *)
Definition reprint_directives : list bytes := map bs ["%v"; "%s"; "%+v"; "%0s"; "%-v"]%string.

Theorem sprintf_redactable_identity k env d r o : In d reprint_directives -> last_invalid r = false ->
  sprintf (S (S (S k))) env d [VRS r] = ROk o -> o_bytes o = r.
Proof.
  intros Hd Hr H.
  assert (exists o', sprintf (S (S (S k))) env d [VRS r] = ROk o' /\ o_log o' = [OMode MSafe; OMode MRaw; OWrite r; OMode MSafe; OTake]) as (o' & E & L).
  { unfold reprint_directives in Hd. cbn [map] in Hd.
    repeat (destruct Hd as [<- | Hd]; [eexists; split; [vm_compute; reflexivity | reflexivity]|]). contradiction. }
  rewrite E in H. injection H as <-. exact (raw_log_output o' r (finish_output _ o' E) L Hr).
Qed.

Print Assumptions builder_print_route.
Print Assumptions sprint_redactable_identity.
Print Assumptions sprintf_redactable_identity.
Print Assumptions make_format_justV.
