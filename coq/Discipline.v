(* Layer 4 proofs: the override discipline of the evaluator (print.go,
   helpers.go, printer_adapter.go), for all fuels, environments, operands and
   user scripts.
     D2: while the override is Unsafe (inside redact.Unsafe(x)), the buffer is
         in unsafe mode and every Buffer call made is a write or SetMode(unsafe):
         nested printers, user scripts that reach the SafePrinter, Safe()
         wrappers, SafeValues, registered types, redactable strings and the
         error hook cannot leave unsafe mode.
     D3: while the override is Safe, no Buffer call switches to unsafe mode. *)
From Redact Require Import Bytes Tokens Utf8 Buffer Ops BufInv Fmt Value LBuf Printer BufInvP Hoare.
Import List ListNotations.
Open Scope Z_scope.

Definition op_u (o : op) : Prop :=
  match o with OMode m => m = MUnsafe | OTake | OReset => False | _ => True end.
Definition op_s (o : op) : Prop :=
  match o with OMode m => m <> MUnsafe | OTake | OReset => False | _ => True end.

(* the log of l' extends the log of l by calls satisfying P (newest first) *)
Definition ext (P : op -> Prop) (l l' : lbuf) : Prop :=
  exists d, rlog l' = d ++ rlog l /\ Forall P d.

Lemma ext_refl P l : ext P l l.
Proof. exists []. split; [reflexivity | constructor]. Qed.
Lemma ext_trans P a b c : ext P a b -> ext P b c -> ext P a c.
Proof.
  intros (d1 & E1 & F1) (d2 & E2 & F2). exists (d2 ++ d1). split.
  - rewrite E2, E1, app_assoc. reflexivity.
  - apply Forall_app. split; assumption.
Qed.
Lemma ext_one (P : op -> Prop) l o : P o -> ext P l (lset l o).
Proof. intros H. exists [o]. split; [reflexivity | repeat constructor; exact H]. Qed.

Lemma is_write_u o : is_write o -> op_u o.
Proof. destruct o; cbn; tauto. Qed.
Lemma is_write_s o : is_write o -> op_s o.
Proof. destruct o; cbn; tauto. Qed.

(* ---------- D2 ---------- *)
Definition IU (l : lbuf) (v : ovr) : Prop := v = OvrUnsafe /\ lmode l = MUnsafe.

Lemma HU_ovr : forall l v, IU l v -> v <> NoOvr.
Proof. intros l v [-> _]. discriminate. Qed.
Lemma HU_write : forall l v o, IU l v -> is_write o -> IU (lset l o) v /\ ext op_u l (lset l o).
Proof. intros l v o [-> Hl] Ho. split; [split; [reflexivity | now rewrite lmode_write] | apply ext_one, is_write_u, Ho]. Qed.
Lemma HU_unsafe : forall l v, IU l v -> v <> OvrSafe -> IU (lset l (OMode MUnsafe)) v /\ ext op_u l (lset l (OMode MUnsafe)).
Proof. intros l v [-> Hl] _. split; [split; [reflexivity | apply lmode_setmode] | now apply ext_one]. Qed.
Lemma HU_raw : forall l v, IU l v -> v <> OvrUnsafe -> IU (lset l (OMode MRaw)) v /\ ext op_u l (lset l (OMode MRaw)).
Proof. intros l v [-> _] Hn. congruence. Qed.
Lemma HU_safe : forall l v, IU l v -> v <> OvrUnsafe -> IU (lset l (OMode MSafe)) v /\ ext op_u l (lset l (OMode MSafe)).
Proof. intros l v [-> _] Hn. congruence. Qed.
Lemma HU_restore : forall l0 v0 l2 v2, IU l0 v0 -> IU l2 v2 ->
  IU (lset l2 (OMode (lmode l0))) v0 /\ ext op_u l2 (lset l2 (OMode (lmode l0))).
Proof.
  intros l0 v0 l2 v2 [-> Hl0] [-> _]. rewrite Hl0.
  split; [split; [reflexivity | apply lmode_setmode] | now apply ext_one].
Qed.

Definition stable_u {A} (m : M A) : Prop := stable IU (ext op_u) m.

Lemma ev_stable_u fuel env c : stable_u (ev fuel env c).
Proof.
  exact (stable_ev IU (ext op_u) (ext_refl _) (ext_trans _) HU_ovr HU_write HU_unsafe HU_raw HU_safe HU_restore fuel env c).
Qed.

Lemma printArg_body_stable_u fuel env arg verb : stable_u (printArg_body (ev fuel env) env arg verb).
Proof.
  unfold stable_u. apply stable_printArg_body;
    first [ exact (ext_refl _) | exact (ext_trans _) | exact HU_ovr | exact HU_write | exact HU_unsafe
          | exact HU_raw | exact HU_safe | exact HU_restore | (intros c; apply ev_stable_u) ].
Qed.

Theorem D2 fuel env c s :
  povr s = OvrUnsafe -> lmode (pl s) = MUnsafe ->
  let s' := snd (ev fuel env c s) in
  povr s' = OvrUnsafe /\ lmode (pl s') = MUnsafe /\ ext op_u (pl s) (pl s').
Proof.
  intros Hv Hm. destruct (ev_stable_u fuel env c s (conj Hv Hm)) as [[H1 H2] H3]. auto.
Qed.

(* The operand Unsafe(x), printed from a state without override (any verb, any
   flags, any x, any scripts): the Buffer calls made are SetMode(unsafe), then
   only writes and SetMode(unsafe), then SetMode(previous mode); the override is
   back to none afterwards. *)
Theorem unsafe_operand fuel env x verb s :
  povr s = NoOvr ->
  let s' := snd (printArg (ev fuel env) env (VUnsafe x) verb s) in
  povr s' = NoOvr /\
  exists d, Forall op_u d /\ rlog (pl s') = OMode (lmode (pl s)) :: d ++ OMode MUnsafe :: rlog (pl s).
Proof.
  intros Hv. unfold printArg. cbn [is_registered tinfo_of treg noT].
  unfold bracket, start_unsafe_ovr, bind, get_mode, get. rewrite Hv. cbn [ovr_eqb].
  rewrite setmode_state. unfold modify, ret. cbn [fst snd].
  set (s1 := set_ovr (set_pl s (lset (pl s) (OMode MUnsafe))) OvrUnsafe).
  assert (IU (pl s1) (povr s1)) as H1.
  { unfold s1. destruct s; cbn. split; [reflexivity | apply lmode_setmode]. }
  destruct (printArg_body_stable_u fuel env x verb s1 H1) as [[H2 H3] (d & Hd & Fd)].
  destruct (printArg_body (ev fuel env) env x verb s1) as [o s2]. cbn [snd] in *.
  rewrite restore_state. cbn [fst snd].
  split; [destruct s2; reflexivity|].
  exists d. split; [exact Fd|].
  destruct s2 as [l2 ? ? ? ? ? ? ? ? ? ?]; cbn in *. rewrite Hd.
  unfold s1. destruct s; cbn. reflexivity.
Qed.

(* ---------- D3 ---------- *)
Definition IS (l : lbuf) (v : ovr) : Prop := v = OvrSafe /\ lmode l <> MUnsafe.

Theorem D3 fuel env c s :
  povr s = OvrSafe -> lmode (pl s) <> MUnsafe ->
  let s' := snd (ev fuel env c s) in
  povr s' = OvrSafe /\ lmode (pl s') <> MUnsafe /\ ext op_s (pl s) (pl s').
Proof.
  intros Hv Hm.
  assert (stable IS (ext op_s) (ev fuel env c)) as H.
  { apply stable_ev.
    - apply ext_refl.
    - apply ext_trans.
    - intros l v [-> _]. discriminate.
    - intros l v o [-> Hl] Ho. split; [split; [reflexivity | now rewrite lmode_write] | apply ext_one, is_write_s, Ho].
    - intros l v [-> _] Hn. congruence.
    - intros l v [-> Hl] _. split; [split; [reflexivity | rewrite lmode_setmode; discriminate] | apply ext_one; cbn; discriminate].
    - intros l v [-> Hl] _. split; [split; [reflexivity | rewrite lmode_setmode; discriminate] | apply ext_one; cbn; discriminate].
    - intros l0 v0 l2 v2 [-> Hl0] [-> _].
      split; [split; [reflexivity | now rewrite lmode_setmode] | apply ext_one; exact Hl0]. }
  destruct (H s (conj Hv Hm)) as [[H1 H2] H3]. auto.
Qed.

Print Assumptions D2.
Print Assumptions D3.

(* ---------- Safe(x) ---------- *)
Lemma HS_ovr : forall l v, IS l v -> v <> NoOvr.
Proof. intros l v [-> _]. discriminate. Qed.
Lemma HS_write : forall l v o, IS l v -> is_write o -> IS (lset l o) v /\ ext op_s l (lset l o).
Proof. intros l v o [-> Hl] Ho. split; [split; [reflexivity | now rewrite lmode_write] | apply ext_one, is_write_s, Ho]. Qed.
Lemma HS_unsafe : forall l v, IS l v -> v <> OvrSafe -> IS (lset l (OMode MUnsafe)) v /\ ext op_s l (lset l (OMode MUnsafe)).
Proof. intros l v [-> _] Hn. congruence. Qed.
Lemma HS_raw : forall l v, IS l v -> v <> OvrUnsafe -> IS (lset l (OMode MRaw)) v /\ ext op_s l (lset l (OMode MRaw)).
Proof. intros l v [-> Hl] _. split; [split; [reflexivity | rewrite lmode_setmode; discriminate] | apply ext_one; cbn; discriminate]. Qed.
Lemma HS_safe : forall l v, IS l v -> v <> OvrUnsafe -> IS (lset l (OMode MSafe)) v /\ ext op_s l (lset l (OMode MSafe)).
Proof. intros l v [-> Hl] _. split; [split; [reflexivity | rewrite lmode_setmode; discriminate] | apply ext_one; cbn; discriminate]. Qed.
Lemma HS_restore : forall l0 v0 l2 v2, IS l0 v0 -> IS l2 v2 ->
  IS (lset l2 (OMode (lmode l0))) v0 /\ ext op_s l2 (lset l2 (OMode (lmode l0))).
Proof.
  intros l0 v0 l2 v2 [-> Hl0] [-> _].
  split; [split; [reflexivity | now rewrite lmode_setmode] | apply ext_one; exact Hl0].
Qed.

Definition stable_s {A} (m : M A) : Prop := stable IS (ext op_s) m.

Lemma ev_stable_s fuel env c : stable_s (ev fuel env c).
Proof.
  exact (stable_ev IS (ext op_s) (ext_refl _) (ext_trans _) HS_ovr HS_write HS_unsafe HS_raw HS_safe HS_restore fuel env c).
Qed.

Lemma printArg_body_stable_s fuel env arg verb : stable_s (printArg_body (ev fuel env) env arg verb).
Proof.
  unfold stable_s. apply stable_printArg_body;
    first [ exact (ext_refl _) | exact (ext_trans _) | exact HS_ovr | exact HS_write | exact HS_unsafe
          | exact HS_raw | exact HS_safe | exact HS_restore | (intros c; apply ev_stable_s) ].
Qed.

(* The operand Safe(x), printed from a state without override: SetMode(safe),
   then no call switches to unsafe mode, then SetMode(previous mode). *)
Theorem safe_operand fuel env x msg verb s :
  povr s = NoOvr ->
  let s' := snd (printArg (ev fuel env) env (VSafe x msg) verb s) in
  povr s' = NoOvr /\
  exists d, Forall op_s d /\ rlog (pl s') = OMode (lmode (pl s)) :: d ++ OMode MSafe :: rlog (pl s).
Proof.
  intros Hv. unfold printArg. cbn [is_registered tinfo_of treg noT].
  unfold bracket, start_safe_ovr, bind, get_mode, get. rewrite Hv. cbn [ovr_eqb].
  rewrite setmode_state. unfold modify, ret. cbn [fst snd].
  set (s1 := set_ovr (set_pl s (lset (pl s) (OMode MSafe))) OvrSafe).
  assert (IS (pl s1) (povr s1)) as H1.
  { unfold s1. destruct s as [l0 ? ? ? ? ? ? ? ? ? ?]. unfold set_ovr, set_pl. split; [reflexivity|]. change (lmode (lset l0 (OMode MSafe)) <> MUnsafe). rewrite lmode_setmode. discriminate. }
  destruct (printArg_body_stable_s fuel env x verb s1 H1) as [[H2 H3] (d & Hd & Fd)].
  destruct (printArg_body (ev fuel env) env x verb s1) as [o s2]. cbn [snd] in *.
  rewrite restore_state. cbn [fst snd].
  split; [destruct s2; reflexivity|].
  exists d. split; [exact Fd|].
  destruct s2 as [l2 ? ? ? ? ? ? ? ? ? ?]; cbn in *. rewrite Hd.
  unfold s1. destruct s; cbn. reflexivity.
Qed.

(* ---------- what an unsafe segment contributes to the safe text ---------- *)
From Redact Require Import BufContent.

Definition all_lf (ts : list tok) : Prop := Forall (fun t => t = TB LF) ts.

Lemma all_lf_lf_toks ts : all_lf (lf_toks ts).
Proof.
  unfold all_lf, lf_toks. apply Forall_forall. intros t Ht. apply filter_In in Ht.
  destruct Ht as [_ Ht]. destruct t; try discriminate. apply N.eqb_eq in Ht. now subst.
Qed.

(* d: oldest first *)
Theorem unsafe_segment_safe_text d : Forall op_u d -> forall acc,
  exists L, all_lf L /\
    forall rest, spec_from safe_contrib MUnsafe acc (d ++ rest) = spec_from safe_contrib MUnsafe (acc ++ L) rest.
Proof.
  induction 1 as [|o d Ho Hd IH]; intros acc.
  - exists []. split; [constructor|]. intros rest. now rewrite app_nil_r.
  - destruct o; cbn [op_u] in Ho; try contradiction;
      try (destruct (IH acc) as (L & HL & E); exists L; split; [exact HL|]; intros rest; cbn [app spec_from payload_of]; apply E).
    + subst m. destruct (IH acc) as (L & HL & E). exists L. split; [exact HL|]. intros rest. cbn [app spec_from]. apply E.
    + destruct (IH (acc ++ safe_contrib MUnsafe p)) as (L & HL & E).
      exists (lf_toks (lex p) ++ L). split; [apply Forall_app; split; [apply all_lf_lf_toks | exact HL]|].
      intros rest. cbn [app spec_from payload_of]. rewrite E. cbn [safe_contrib]. now rewrite app_assoc.
    + set (p := if mode_eqb MUnsafe MUnsafe && ((128 <=? c) || (c =? 226))%N then escB else [c]).
      destruct (IH (acc ++ safe_contrib MUnsafe p)) as (L & HL & E).
      exists (lf_toks (lex p) ++ L). split; [apply Forall_app; split; [apply all_lf_lf_toks | exact HL]|].
      intros rest. cbn [app spec_from payload_of]. fold p. rewrite E. cbn [safe_contrib]. now rewrite app_assoc.
    + destruct (IH (acc ++ safe_contrib MUnsafe (encode_rune r))) as (L & HL & E).
      exists (lf_toks (lex (encode_rune r)) ++ L). split; [apply Forall_app; split; [apply all_lf_lf_toks | exact HL]|].
      intros rest. cbn [app spec_from payload_of]. rewrite E. cbn [safe_contrib]. now rewrite app_assoc.
Qed.

Print Assumptions unsafe_operand.
Print Assumptions safe_operand.
Print Assumptions unsafe_segment_safe_text.
