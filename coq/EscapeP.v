(* Proofs about Layer 1 (escape.go): the scanner loop computes the list-level
   specification esc_spec. *)
From Redact Require Import Bytes Tokens Utf8 Escape EscSpec TokensP.
From Coq Require Import Lia.
Open Scope N_scope.

(* ---------- small list facts ---------- *)

Lemma beq_eq x y : beq x y = true <-> x = y.
Proof.
  revert y; induction x as [|a x IH]; intros [|b y]; cbn [beq].
  - tauto.
  - split; discriminate.
  - split; discriminate.
  - rewrite andb_true_iff, N.eqb_eq, IH. split.
    + intros [-> ->]; reflexivity.
    + intros E; injection E; auto.
Qed.

Lemma beq_refl x : beq x x = true.
Proof. apply beq_eq. reflexivity. Qed.

Lemma is_prefix_app p s : is_prefix p (p ++ s) = true.
Proof.
  induction p as [|a p IH]; cbn [is_prefix app]; [reflexivity|].
  rewrite N.eqb_refl. exact IH.
Qed.

Lemma has_suffix_app x suf : has_suffix (x ++ suf) suf = true.
Proof. unfold has_suffix. rewrite rev_app_distr. apply is_prefix_app. Qed.

Lemma drop_last_app x suf n : length suf = n -> drop_last n (x ++ suf) = x.
Proof.
  intros <-. unfold drop_last. rewrite app_length.
  replace (length x + length suf - length suf)%nat with (length x) by lia.
  rewrite firstn_app, Nat.sub_diag, firstn_all. cbn [firstn]. apply app_nil_r.
Qed.

Lemma close_or_elide_start x : close_or_elide (x ++ startB) = x.
Proof.
  unfold close_or_elide. rewrite has_suffix_app. apply drop_last_app. reflexivity.
Qed.

Lemma sub_pre pre s k :
  (k <= length pre)%nat -> sub (pre ++ s) k (length pre) = skipn k pre.
Proof.
  intros Hk. unfold sub. rewrite skipn_app.
  replace (k - length pre)%nat with 0%nat by lia. cbn [skipn].
  rewrite firstn_app, skipn_length.
  replace (length pre - k - (length pre - k))%nat with 0%nat by lia.
  cbn [firstn]. rewrite app_nil_r. apply firstn_all2. rewrite skipn_length. lia.
Qed.

Lemma sub_win pre s n : sub (pre ++ s) (length pre) (length pre + n) = firstn n s.
Proof.
  unfold sub. rewrite skipn_app, skipn_all, Nat.sub_diag. cbn [skipn app].
  f_equal. lia.
Qed.

Lemma nth_mid pre a r : nth (length pre) (pre ++ a :: r) 0 = a.
Proof. rewrite app_nth2, Nat.sub_diag by lia. reflexivity. Qed.

Lemma skipn_app_le (k : nat) (pre x : bytes) :
  (k <= length pre)%nat -> skipn k (pre ++ x) = skipn k pre ++ x.
Proof.
  intros Hk. rewrite skipn_app. replace (k - length pre)%nat with 0%nat by lia.
  reflexivity.
Qed.

(* ---------- runs of line feeds ---------- *)

Fixpoint count_nl (s : bytes) : nat :=
  match s with
  | a :: r => if a =? LF then S (count_nl r) else 0%nat
  | [] => 0%nat
  end.

Lemma count_nl_le s : (count_nl s <= length s)%nat.
Proof.
  induction s as [|a s IH]; cbn [count_nl length]; [lia|].
  destruct (a =? LF); lia.
Qed.

Lemma firstn_count_nl s : firstn (count_nl s) s = repeat LF (count_nl s).
Proof.
  induction s as [|a s IH]; cbn [count_nl]; [reflexivity|].
  destruct (a =? LF) eqn:E; [|reflexivity].
  apply N.eqb_eq in E. subst a. cbn [firstn repeat]. now rewrite IH.
Qed.

Lemma count_nl_split s : s = repeat LF (count_nl s) ++ skipn (count_nl s) s.
Proof. rewrite <- firstn_count_nl. symmetry. apply firstn_skipn. Qed.

Lemma scan_nl_spec fuel : forall pre s,
  (length s <= fuel)%nat ->
  scan_nl fuel (pre ++ s) (length pre) = (length pre + count_nl s)%nat.
Proof.
  induction fuel as [|f IH]; intros pre s Hf.
  - destruct s; [|cbn in Hf; lia]. cbn. lia.
  - cbn [scan_nl]. destruct s as [|a r].
    + rewrite app_nil_r, Nat.ltb_irrefl. cbn. lia.
    + assert (Hlt : (length pre <? length (pre ++ a :: r))%nat = true).
      { apply Nat.ltb_lt. rewrite app_length. cbn. lia. }
      rewrite Hlt, nth_mid. cbn [andb count_nl].
      destruct (a =? LF) eqn:E; [|lia].
      replace (pre ++ a :: r) with ((pre ++ [a]) ++ r) by (rewrite <- app_assoc; reflexivity).
      replace (S (length pre)) with (length (pre ++ [a])) by (rewrite app_length; cbn; lia).
      rewrite IH by (cbn in Hf; lia).
      rewrite app_length. cbn. lia.
Qed.

Lemma lex_LF r : lex (LF :: r) = TB LF :: lex r.
Proof. apply lex_byte. intros b c r' _. split; reflexivity. Qed.

Lemma lex_count_nl s :
  lex s = repeat (TB LF) (count_nl s) ++ lex (skipn (count_nl s) s).
Proof.
  induction s as [|a s IH]; cbn [count_nl]; [reflexivity|].
  destruct (a =? LF) eqn:E; [|reflexivity].
  apply N.eqb_eq in E. subst a. rewrite lex_LF. cbn [repeat skipn app].
  f_equal. exact IH.
Qed.

Lemma repeat_snoc_cons {A} (x : A) n : repeat x n ++ [x] = x :: repeat x n.
Proof.
  induction n as [|n IH]; cbn [repeat app]; [reflexivity|]. now rewrite IH.
Qed.

(* A run of n >= 1 line feeds, step by step, is the code's run-at-once form. *)
Lemma esc_toks_nl_run n : forall acc ts,
  esc_toks true acc (repeat (TB LF) (S n) ++ ts) =
  esc_toks true ((close_or_elide acc ++ repeat LF (S n)) ++ startB) ts.
Proof.
  induction n as [|n IH]; intros acc ts.
  - reflexivity.
  - change (repeat (TB LF) (S (S n)) ++ ts) with (TB LF :: (repeat (TB LF) (S n) ++ ts)).
    cbn [esc_toks]. rewrite N.eqb_refl. cbn [andb].
    rewrite IH. unfold nl_step. rewrite close_or_elide_start.
    rewrite <- (app_assoc _ [LF]).
    change ([LF] ++ repeat LF (S n)) with (repeat LF (S (S n))).
    reflexivity.
Qed.

(* ---------- the three-byte window ---------- *)

Lemma win_len (pre s : bytes) :
  (length pre + 3 <=? length (pre ++ s))%nat = (3 <=? length s)%nat.
Proof.
  rewrite app_length.
  destruct (Nat.leb_spec 3 (length s)); [apply Nat.leb_le | apply Nat.leb_gt]; lia.
Qed.

Lemma win_start s :
  ((3 <=? length s)%nat && beq (firstn 3 s) startB) =
  match s with a :: b :: c :: _ => is_start3 a b c | _ => false end.
Proof.
  destruct s as [|a [|b [|c r]]]; try reflexivity.
  cbn [length firstn beq startB Nat.leb andb is_start3]. unfold is_start3.
  rewrite andb_true_r, andb_assoc. reflexivity.
Qed.

Lemma win_end s :
  ((3 <=? length s)%nat && beq (firstn 3 s) endB) =
  match s with a :: b :: c :: _ => is_end3 a b c | _ => false end.
Proof.
  destruct s as [|a [|b [|c r]]]; try reflexivity.
  cbn [length firstn beq endB Nat.leb andb is_end3]. unfold is_end3.
  rewrite andb_true_r, andb_assoc. reflexivity.
Qed.

(* ---------- the loop invariant ---------- *)

Definition finish (b : bytes) (st : nat * bool * bytes) : bytes :=
  let '(k, copied, res) := st in cur copied res ++ skipn k b.

Definition st_ok (st : nat * bool * bytes) : Prop :=
  let '(k, copied, res) := st in copied = false -> k = 0%nat.

Lemma esc_loop_inv bnl b : forall fuel pre s k copied res,
  b = pre ++ s ->
  (k <= length pre)%nat ->
  (copied = false -> k = 0%nat) ->
  (length s <= fuel)%nat ->
  st_ok (esc_loop fuel b bnl (length pre) k copied res) /\
  finish b (esc_loop fuel b bnl (length pre) k copied res) =
    esc_toks bnl (cur copied res ++ skipn k pre) (lex s).
Proof.
  induction fuel as [|f IH]; intros pre s k copied res Hb Hk Hc Hf.
  - destruct s; [|cbn in Hf; lia].
    cbn [esc_loop st_ok finish lex esc_toks]. split; [exact Hc|].
    subst b. now rewrite app_nil_r.
  - cbn [esc_loop]. destruct s as [|a r].
    + assert (Hlt : (length pre <? length b)%nat = false).
      { subst b. rewrite app_nil_r. apply Nat.ltb_irrefl. }
      rewrite Hlt. cbn [st_ok finish lex esc_toks]. split; [exact Hc|].
      subst b. now rewrite app_nil_r.
    + assert (Hlt : (length pre <? length b)%nat = true).
      { subst b. apply Nat.ltb_lt. rewrite app_length. cbn. lia. }
      assert (Hn : nth (length pre) b 0 = a) by (subst b; apply nth_mid).
      assert (Hsub : sub b k (length pre) = skipn k pre) by (subst b; now apply sub_pre).
      rewrite Hlt, Hn, Hsub. clear Hlt Hn Hsub.
      set (acc := cur copied res ++ skipn k pre).
      destruct (bnl && (a =? LF)) eqn:Enl.
      * (* a run of line feeds *)
        apply andb_true_iff in Enl. destruct Enl as [-> Ea].
        apply N.eqb_eq in Ea. subst a.
        fold (close_or_elide acc).
        assert (Hscan : scan_nl (length b) b (length pre) = (length pre + S (count_nl r))%nat).
        { subst b. rewrite scan_nl_spec; [reflexivity|]. rewrite app_length. lia. }
        rewrite Hscan.
        assert (Hrun : sub b (length pre) (length pre + S (count_nl r)) = repeat LF (S (count_nl r))).
        { subst b. rewrite sub_win. apply (firstn_count_nl (LF :: r)). }
        rewrite Hrun.
        set (n := S (count_nl r)).
        set (res3 := (close_or_elide acc ++ repeat LF n) ++ startB).
        pose (pre' := pre ++ repeat LF n).
        pose (s' := skipn (count_nl r) r).
        assert (Hlen : length pre' = (length pre + n)%nat).
        { unfold pre'. now rewrite app_length, repeat_length. }
        assert (Hb' : b = pre' ++ s').
        { subst b. unfold pre', s', n. rewrite <- app_assoc. f_equal.
          apply (count_nl_split (LF :: r)). }
        assert (Hf' : (length s' <= f)%nat).
        { unfold s'. rewrite skipn_length. cbn in Hf. lia. }
        rewrite <- Hlen.
        specialize (IH pre' s' (length pre') true res3 Hb' (le_n _)
                       (fun E => False_ind _ (diff_true_false E)) Hf').
        rewrite skipn_all, app_nil_r in IH. cbn [cur] in IH.
        destruct IH as [IH1 IH2]. split; [exact IH1|].
        rewrite IH2.
        rewrite (lex_count_nl (LF :: r)).
        change (count_nl (LF :: r)) with n.
        change (skipn n (LF :: r)) with s'.
        unfold n. rewrite esc_toks_nl_run. reflexivity.
      * assert (Hwl : (length pre + 3 <=? length b)%nat = (3 <=? length (a :: r))%nat).
        { subst b. apply win_len. }
        assert (Hw : sub b (length pre) (length pre + 3) = firstn 3 (a :: r)).
        { subst b. apply sub_win. }
        rewrite Hwl, Hw, win_start, win_end.
        assert (Hplain :
          (forall b0 c0 r', r = b0 :: c0 :: r' ->
             is_start3 a b0 c0 = false /\ is_end3 a b0 c0 = false) ->
          st_ok (esc_loop f b bnl (S (length pre)) k copied res) /\
          finish b (esc_loop f b bnl (S (length pre)) k copied res) =
            esc_toks bnl acc (lex (a :: r))).
        { intros Hm.
          assert (Hb' : b = (pre ++ [a]) ++ r) by (subst b; now rewrite <- app_assoc).
          assert (Hlen : length (pre ++ [a]) = S (length pre)) by (rewrite app_length; cbn; lia).
          rewrite <- Hlen.
          specialize (IH (pre ++ [a]) r k copied res Hb' ltac:(lia) Hc ltac:(cbn in Hf; lia)).
          destruct IH as [IH1 IH2]. split; [exact IH1|]. rewrite IH2.
          rewrite lex_byte by exact Hm. cbn [esc_toks]. rewrite Enl.
          rewrite skipn_app_le by exact Hk. unfold acc. now rewrite app_assoc. }
        assert (Hmark : forall b0 c0 r' t,
          r = b0 :: c0 :: r' -> lex (a :: r) = t :: lex r' -> is_marker t = true ->
          st_ok (esc_loop f b bnl (length pre + 3) (length pre + 3) true (acc ++ escB)) /\
          finish b (esc_loop f b bnl (length pre + 3) (length pre + 3) true (acc ++ escB)) =
            esc_toks bnl acc (lex (a :: r))).
        { intros b0 c0 r' t -> Hlex Ht.
          assert (Hb' : b = (pre ++ [a; b0; c0]) ++ r') by (subst b; now rewrite <- app_assoc).
          assert (Hlen : length (pre ++ [a; b0; c0]) = (length pre + 3)%nat)
            by (rewrite app_length; reflexivity).
          rewrite <- Hlen.
          specialize (IH (pre ++ [a; b0; c0]) r' (length (pre ++ [a; b0; c0])) true (acc ++ escB)
                         Hb' (le_n _) (fun E => False_ind _ (diff_true_false E))
                         ltac:(cbn in Hf; lia)).
          rewrite skipn_all, app_nil_r in IH. cbn [cur] in IH.
          destruct IH as [IH1 IH2]. split; [exact IH1|]. rewrite IH2, Hlex.
          destruct t; [reflexivity | reflexivity | discriminate]. }
        destruct r as [|b0 [|c0 r']].
        -- apply Hplain. intros; discriminate.
        -- apply Hplain. intros; discriminate.
        -- destruct (is_start3 a b0 c0) eqn:Es.
           { apply (Hmark b0 c0 r' TS eq_refl); [|reflexivity].
             apply is_start3_spec in Es. destruct Es as (-> & -> & ->). apply lex_start. }
           destruct (is_end3 a b0 c0) eqn:Ee.
           { apply (Hmark b0 c0 r' TE eq_refl); [|reflexivity].
             apply is_end3_spec in Ee. destruct Ee as (-> & -> & ->). apply lex_end. }
           apply Hplain. intros b1 c1 r1 E. injection E as <- <- <-. auto.
Qed.

(* ---------- main theorem ---------- *)

Theorem escape_spec (bnl : bool) (v p : bytes) :
  escape (v ++ p) (length v) bnl false = esc_spec bnl v p.
Proof.
  unfold escape, escape_full, esc_spec.
  destruct (esc_loop_inv bnl (v ++ p) (length (v ++ p)) v p 0%nat false []
              eq_refl ltac:(lia) (fun _ => eq_refl)
              ltac:(rewrite app_length; lia)) as [Hok Hfin].
  destruct (esc_loop (length (v ++ p)) (v ++ p) bnl (length v) 0 false [])
    as [[k copied] res].
  cbn [st_ok finish cur skipn app] in Hok, Hfin.
  rewrite <- Hfin.
  destruct (last_invalid (v ++ p)); cbn [fst].
  - reflexivity.
  - rewrite app_nil_r. destruct copied; [reflexivity|].
    rewrite (Hok eq_refl). reflexivity.
Qed.

Print Assumptions escape_spec.
