(* C01 — every produced string is a well-formed redactable string. *)
From Redact Require Import Bytes Tokens Utf8 Escape EscSpec Buffer Ops BufInv LBuf Printer Api
  BufferThm ApiP.
Import List ListNotations.

(* Buffer level (ManualBuffer, and every writer built on it): for EVERY finite
   sequence of method calls, with arbitrary payload bytes, bytes and runes in
   the two escaping modes, and raw (pre-redactable) writes of well-formed
   fragments, what RedactableString/Bytes would return is well-formed:
   envelopes strictly alternate, and no marker follows a proper marker prefix. *)
Theorem C01_buffer : forall ops, rawok ops = true -> Redactable (output ops).
Proof. intros ops H. exact (proj1 (buffer_output_ok ops H)). Qed.
Print Assumptions C01_buffer.

(* ... and so is every redactable handed out in the middle of a history. *)
Theorem C01_buffer_observations : forall ops o r, rawok (ops ++ [o]) = true ->
  (o = ORS \/ o = ORB \/ o = OTake) -> snd (step (run ops) o) = ObR r -> Redactable r.
Proof. intros ops o r H Ho Hs. exact (proj1 (buffer_observations_ok ops o r H Ho Hs)). Qed.
Print Assumptions C01_buffer_observations.

(* API level: the evaluator (print.go, helpers.go, printer_adapter.go) reaches
   its buffer only through Buffer methods, so for every format, operand list,
   user script (incl. panicking ones), fuel and oracle, the returned bytes are
   well-formed whenever the raw writes it made were of well-formed fragments. *)
Theorem C01_api : forall fuel env f a o,
  (sprintf fuel env f a = ROk o \/ sprint fuel env a = ROk o \/ errorf fuel env f a = ROk o) ->
  rawok (o_log o) = true -> Redactable (o_bytes o).
Proof.
  intros fuel env f a o [H|[H|H]] Hr.
  - exact (proj1 (sprintf_redactable fuel env f a o H Hr)).
  - exact (proj1 (sprint_redactable fuel env a o H Hr)).
  - exact (proj1 (errorf_redactable fuel env f a o H Hr)).
Qed.
Print Assumptions C01_api.

Theorem C01_sprintfn : forall fuel env acts o,
  sprintfn fuel env acts = ROk o -> rawok (o_log o) = true -> Redactable (o_bytes o).
Proof. intros fuel env acts o H Hr. exact (proj1 (sprintfn_redactable fuel env acts o H Hr)). Qed.
Print Assumptions C01_sprintfn.

Theorem C01_builder : forall fuel env acts o,
  builder fuel env acts = ROk o -> rawok (o_log o) = true -> Redactable (o_bytes o).
Proof. intros fuel env acts o H Hr. exact (proj1 (builder_redactable fuel env acts o H Hr)). Qed.
Print Assumptions C01_builder.

(* Non-vacuity: a history with both markers, a line feed and a dangling E2 80
   in unsafe payloads, a mode switch, then B9 written in safe mode. *)
Example C01_nonvacuous :
  let ops := [OWrite [226;128;185; 97; 10; 226;128;186]; OWrite [226;128]; OMode MSafe; OWrite [185];
              OMode MRaw; OWrite [226;128;185; 98; 226;128;186]; OMode MUnsafe; OWriteByte 226]%N in
  rawok ops = true /\ output ops <> [] /\ redactableb (output ops) = true.
Proof. vm_compute. repeat split; congruence. Qed.
