(* C08 — Redactables compose: re-printing is identity, joining is concatenation.
   Proved: raw (pre-redactable) mode copies: the Buffer history a print of a redactable
   operand produces returns the operand unchanged; StringBuilder.Print/Printf inline the inner
   printer's result unchanged; the concatenation of well-formed, line-safe redactables is
   again one (closure, which makes any depth of re-printing and joining stay in the class),
   and Redact / StripMarkers distribute over it.  The evaluator is proved to issue exactly that
   history for a RedactableString/Bytes operand of Sprint and of Sprintf under %v / %s
   (C08_sprint_of_a_redactable_is_identity, C08_sprintf_...); under widths, inside containers
   and under wrappers it is decided by the correspondence and the black-box equalities. *)
From Redact Require Import Bytes Tokens Utf8 Markers Buffer Ops BufInv LBuf Printer Api.
From Redact Require Import TokensP MarkersP BufInvP BufContentP ComposeP RoutesP Forward FormatP ReprintAllP.
Import List ListNotations.

Theorem C08_raw_copy_partial : forall r, last_invalid r = false ->
  output [OMode MSafe; OMode MRaw; OWrite r; OMode MSafe] = r.
Proof. exact raw_copy. Qed.
Print Assumptions C08_raw_copy_partial.

Theorem C08_builder_inlines_unchanged : forall fuel env a o o',
  sprint fuel env a = ROk o' -> builder fuel env [APrint a] = ROk o -> o_bytes o = o_bytes o'.
Proof. exact builder_print_route. Qed.
Print Assumptions C08_builder_inlines_unchanged.

Theorem C08_closed_under_concatenation : forall a b,
  Redactable a /\ linesafe (lex a) = true -> Redactable b /\ linesafe (lex b) = true ->
  Redactable (a ++ b) /\ linesafe (lex (a ++ b)) = true.
Proof.
  intros a b Ha Hb. apply good_redactable. apply concat_good; now apply good_redactable.
Qed.
Print Assumptions C08_closed_under_concatenation.

Theorem C08_redact_and_strip_distribute : forall a b,
  Redactable a /\ linesafe (lex a) = true -> wf (lex b) = true ->
  redact_b (a ++ b) = redact_b a ++ redact_b b /\ strip_b (a ++ b) = strip_b a ++ strip_b b.
Proof.
  intros a b Ha Hb. apply good_redactable in Ha. split; [now apply concat_redact | now apply concat_strip].
Qed.
Print Assumptions C08_redact_and_strip_distribute.

(* end to end through the evaluator: Sprint(r) = r, Sprintf("%v"/"%s", r) = r for every
   redactable string / byte slice r whose last rune is valid, at every fuel *)
Theorem C08_sprint_of_a_redactable_is_identity : forall k env r o, last_invalid r = false ->
  (sprint (S (S k)) env [VRS r] = ROk o \/ sprint (S (S k)) env [VRB r] = ROk o) -> o_bytes o = r.
Proof. exact sprint_redactable_identity. Qed.
Print Assumptions C08_sprint_of_a_redactable_is_identity.

Theorem C08_sprintf_of_a_redactable_is_identity : forall k env d r o, In d reprint_directives -> last_invalid r = false ->
  sprintf (S (S (S k))) env d [VRS r] = ROk o -> o_bytes o = r.
Proof. exact sprintf_redactable_identity. Qed.
Print Assumptions C08_sprintf_of_a_redactable_is_identity.

(* ... and under EVERY directive MakeFormat can spell: all flag subsets (minus '-' with '0'),
   widths 1..10^6, precisions 0..10^6, every ASCII-letter or non-ASCII verb other than %T and %p *)
Theorem C08_sprintf_any_directive_is_identity : forall k env s v r o,
  st_ok s -> verb_ok v -> v <> 84 -> v <> 112 -> last_invalid r = false ->
  sprintf (S (S (S k))) env (snd (make_format s v)) [VRS r] = ROk o -> o_bytes o = r.
Proof. exact sprintf_redactable_identity_all. Qed.
Print Assumptions C08_sprintf_any_directive_is_identity.

(* re-printing the result of any print call reproduces it *)
Theorem C08_sprint_idempotent : forall fuel k env a o o', sprint fuel env a = ROk o -> last_invalid (o_bytes o) = false ->
  sprint (S (S k)) env [VRS (o_bytes o)] = ROk o' -> o_bytes o' = o_bytes o.
Proof. exact sprint_idempotent. Qed.
Print Assumptions C08_sprint_idempotent.


Example C08_nonvacuous :
  let r := [97; 226;128;185; 98; 226;128;186; 10; 226;128;185; 99; 226;128;186]%N in
  last_invalid r = false /\ redactableb r = true /\ redact_b (r ++ r) = redact_b r ++ redact_b r /\ redact_b r <> r.
Proof. vm_compute. repeat split; congruence. Qed.
