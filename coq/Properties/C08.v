(* C08 — Redactables compose: re-printing is identity, joining is concatenation.
   Proved: raw (pre-redactable) mode copies: the Buffer history a print of a redactable
   operand produces returns the operand unchanged; StringBuilder.Print/Printf inline the inner
   printer's result unchanged; the concatenation of well-formed, line-safe redactables is
   again one (closure, which makes any depth of re-printing and joining stay in the class),
   and Redact / StripMarkers distribute over it.  The evaluator is proved to issue exactly that
   history for a RedactableString/Bytes operand of Sprint and of Sprintf under %v / %s
   (C08_sprint_of_a_redactable_is_identity, C08_sprintf_...); Join(delim, rs) is proved, through
   the StringBuilder and one Print per element and delimiter, to return the concatenation with
   the delimiter for every number of elements (C08_join_is_concatenation), which is again a
   redactable whose Redact/StripMarkers are the joins of the parts'; inside containers
   and under wrappers it is decided by the correspondence and the black-box equalities. *)
From Redact Require Import Bytes Tokens Utf8 Markers Buffer Ops BufInv LBuf Printer Api.
From Redact Require Import TokensP MarkersP BufInvP BufContentP ComposeP RoutesP Forward FormatP ReprintAllP JoinP.
Import List ListNotations.

Theorem C08_raw_copy_partial : forall r, last_invalid r = false ->
  output [OMode MSafe; OMode MRaw; OWrite r; OMode MSafe] = r.
Proof. exact raw_copy. Qed.
Print Assumptions C08_raw_copy_partial.

Theorem C08_builder_inlines_unchanged : forall fuel env a o o',
  sprint fuel env a = ROk o' -> builder fuel env [APrint a] = ROk o -> o_bytes o = o_bytes o'.
Proof. exact builder_print_route. Qed.
Print Assumptions C08_builder_inlines_unchanged.

Theorem C08_closed_under_concatenation : forall a b,
  Redactable a /\ linesafe (lex a) = true -> Redactable b /\ linesafe (lex b) = true ->
  Redactable (a ++ b) /\ linesafe (lex (a ++ b)) = true.
Proof.
  intros a b Ha Hb. apply good_redactable. apply concat_good; now apply good_redactable.
Qed.
Print Assumptions C08_closed_under_concatenation.

Theorem C08_redact_and_strip_distribute : forall a b,
  Redactable a /\ linesafe (lex a) = true -> wf (lex b) = true ->
  redact_b (a ++ b) = redact_b a ++ redact_b b /\ strip_b (a ++ b) = strip_b a ++ strip_b b.
Proof.
  intros a b Ha Hb. apply good_redactable in Ha. split; [now apply concat_redact | now apply concat_strip].
Qed.
Print Assumptions C08_redact_and_strip_distribute.

(* end to end through the evaluator: Sprint(r) = r, Sprintf("%v"/"%s", r) = r for every
   redactable string / byte slice r whose last rune is valid, at every fuel *)
Theorem C08_sprint_of_a_redactable_is_identity : forall k env r o, last_invalid r = false ->
  (sprint (S (S k)) env [VRS r] = ROk o \/ sprint (S (S k)) env [VRB r] = ROk o) -> o_bytes o = r.
Proof. exact sprint_redactable_identity. Qed.
Print Assumptions C08_sprint_of_a_redactable_is_identity.

Theorem C08_sprintf_of_a_redactable_is_identity : forall k env d r o, In d reprint_directives -> last_invalid r = false ->
  sprintf (S (S (S k))) env d [VRS r] = ROk o -> o_bytes o = r.
Proof. exact sprintf_redactable_identity. Qed.
Print Assumptions C08_sprintf_of_a_redactable_is_identity.

(* ... and under EVERY directive MakeFormat can spell: all flag subsets (minus '-' with '0'),
   widths 1..10^6, precisions 0..10^6, every ASCII-letter or non-ASCII verb other than %T and %p *)
Theorem C08_sprintf_any_directive_is_identity : forall k env s v r o,
  st_ok s -> verb_ok v -> v <> 84 -> v <> 112 -> last_invalid r = false ->
  sprintf (S (S (S k))) env (snd (make_format s v)) [VRS r] = ROk o -> o_bytes o = r.
Proof. exact sprintf_redactable_identity_all. Qed.
Print Assumptions C08_sprintf_any_directive_is_identity.

(* re-printing the result of any print call reproduces it *)
Theorem C08_sprint_idempotent : forall fuel k env a o o', sprint fuel env a = ROk o -> last_invalid (o_bytes o) = false ->
  sprint (S (S k)) env [VRS (o_bytes o)] = ROk o' -> o_bytes o' = o_bytes o.
Proof. exact sprint_idempotent. Qed.
Print Assumptions C08_sprint_idempotent.


(* util.go Join: one Print per element and per delimiter on a StringBuilder; for EVERY number of
   elements the result is the concatenation with the delimiter, and the call always returns *)
Theorem C08_join_is_concatenation : forall k env d rs o, last_invalid d = false ->
  Forall (fun r => last_invalid r = false) rs ->
  join (S (S k)) env d rs = ROk o -> o_bytes o = intercalate d rs.
Proof. exact join_is_concatenation. Qed.
Print Assumptions C08_join_is_concatenation.

Theorem C08_join_always_returns : forall k env d rs, last_invalid d = false ->
  Forall (fun r => last_invalid r = false) rs -> exists o, join (S (S k)) env d rs = ROk o.
Proof. exact join_total. Qed.
Print Assumptions C08_join_always_returns.

(* JoinTo on a StringBuilder over a slice of RedactableString / RedactableBytes / interface{}
   elements holding either, mixed: the concatenation with the delimiter *)
Theorem C08_jointo_is_concatenation : forall k env d tn tl es o, last_invalid d = false ->
  let vs := map (fun e => match e with VIface _ (Some x) => x | VIface _ None => VNil | x => x end) es in
  Forall redv_ok vs ->
  builder (S (S k)) env (jointo_acts d (VSlice tn tl es)) = ROk o -> o_bytes o = intercalate d (map payload vs).
Proof. exact jointo_is_concatenation. Qed.
Print Assumptions C08_jointo_is_concatenation.

(* the joined text is again a well-formed, line-safe redactable; Redact and StripMarkers of it
   are the joins of the redacted / stripped parts *)
Theorem C08_join_closed_and_distributes : forall d rs,
  Redactable d /\ linesafe (lex d) = true -> Forall (fun r => Redactable r /\ linesafe (lex r) = true) rs ->
  (Redactable (intercalate d rs) /\ linesafe (lex (intercalate d rs)) = true) /\
  redact_b (intercalate d rs) = intercalate (redact_b d) (map redact_b rs) /\
  strip_b (intercalate d rs) = intercalate (strip_b d) (map strip_b rs).
Proof.
  intros d rs Hd Hall. apply good_redactable in Hd.
  assert (Forall (fun r => Good r false 0) rs) as Hall'.
  { eapply Forall_impl; [|exact Hall]. intros a Ha. now apply good_redactable. }
  split; [apply good_redactable; now apply join_good | now apply join_redact_strip].
Qed.
Print Assumptions C08_join_closed_and_distributes.


Example C08_nonvacuous :
  let r := [97; 226;128;185; 98; 226;128;186; 10; 226;128;185; 99; 226;128;186]%N in
  last_invalid r = false /\ redactableb r = true /\ redact_b (r ++ r) = redact_b r ++ redact_b r /\ redact_b r <> r.
Proof. vm_compute. repeat split; congruence. Qed.

Example C08_join_nonvacuous :
  let r := [97; 226;128;185; 98; 226;128;186]%N in let d := [44; 32]%N in
  match join 5 (mkEnv [] None) d [r; []; r] with
  | ROk o => o_bytes o = r ++ d ++ d ++ r /\ Forall (fun r => last_invalid r = false) [r; []; r]
  | _ => False end.
Proof. vm_compute. split; [reflexivity | repeat constructor]. Qed.
