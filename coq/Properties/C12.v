(* C12 — A print call's result depends only on its own arguments.
   Proved on the model: when an entry point hands its printer back, the override is none again
   (whatever the call did: overrides, nested printers, caught or propagating panics), nothing
   is captured for %w unless the call was HelperForErrorf, and the buffer is exactly a new
   one after Take; so the next call starts from the state a fresh printer has, apart from the
   formatting flags, which clearflags (as repaired: also width and precision) re-initialises
   before any directive is interpreted.
   THE FRAME THEOREM: a printer that went through free() and newPrinter() differs from a new one
   only in the fields reordered and goodArgNum; no call of the evaluator reads them before
   doPrintf has written them (C12_two_fields_are_never_read_first: every call maps states that
   agree elsewhere to equal results); hence a call run on a recycled printer returns exactly what
   it returns on a new one (C12_recycled_printer_frame), after ANY history of earlier calls on
   that printer, whatever they printed, panicked with or captured (C12_history_independence).
   That free()/newPrinter() reset the fields [recycle] says they reset is compared on histories
   (probes against a fresh process, post-call churn after every printer case).
   NOT claimed as a theorem: schedules and data races (the model has no threads): runtime
   evidence only - 16 goroutines, results compared with a fresh process (_partial). *)
From Redact Require Import Bytes Tokens Utf8 Buffer Ops BufInv LBuf Printer Api.
From Redact Require Import BufInvP BufferThm Hoare Keeps WrapP FrameP.
Import List ListNotations.

Theorem C12_override_is_none_when_the_printer_is_recycled : forall fuel env c,
  povr (snd (ev fuel env c newPrinter)) = NoOvr.
Proof. intros fuel env c. exact (kovr_ev fuel env c newPrinter). Qed.
Print Assumptions C12_override_is_none_when_the_printer_is_recycled.

Theorem C12_nothing_captured_outside_errorf : forall fuel env c,
  wrapErrs (snd (ev fuel env c newPrinter)) = false /\ wrappedErr (snd (ev fuel env c newPrinter)) = None.
Proof. intros fuel env c. exact (pw_ev fuel env c newPrinter (conj eq_refl eq_refl)). Qed.
Print Assumptions C12_nothing_captured_outside_errorf.

Theorem C12_buffer_is_new_after_take : forall b, Inv b -> snd (take b) = init.
Proof. exact take_pristine. Qed.
Print Assumptions C12_buffer_is_new_after_take.

Theorem C12_nested_printers_do_not_leak_state_partial : forall rec c s,
  let s' := snd (nested rec c s) in
  povr s' = povr s /\ lmode (pl s') = lmode (pl s) /\ wrapErrs s' = wrapErrs s /\ wrappedErr s' = wrappedErr s
  /\ pf s' = pf s /\ panicking s' = panicking s /\ erroring s' = erroring s.
Proof.
  intros rec c s. unfold nested, bind, get_mode.
  destruct (rec c (fresh_pp (pl s) (povr s))) as [o ns']. rewrite setmode_st. cbn [snd].
  destruct s; cbn. repeat split. apply lmode_setmode.
Qed.
Print Assumptions C12_nested_printers_do_not_leak_state_partial.

Theorem C12_two_fields_are_never_read_first : forall fuel env c s1 s2,
  jrel s1 s2 ->
  fst (ev fuel env c s1) = fst (ev fuel env c s2) /\ jrel (snd (ev fuel env c s1)) (snd (ev fuel env c s2)).
Proof. intros fuel env c. exact (jins_ev fuel env c). Qed.
Print Assumptions C12_two_fields_are_never_read_first.

Theorem C12_recycled_printer_frame : forall fuel env c s0,
  povr s0 = NoOvr -> finish (ev fuel env c (recycle s0)) = finish (ev fuel env c newPrinter).
Proof. exact recycled_printer_frame. Qed.
Print Assumptions C12_recycled_printer_frame.

Theorem C12_history_independence : forall fuel env cs c,
  finish (ev fuel env c (recycle (run_history fuel env cs newPrinter))) = finish (ev fuel env c newPrinter).
Proof. exact history_independence. Qed.
Print Assumptions C12_history_independence.

(* Non-vacuity: a history with argument indexes (reordered := true), a bad index (goodArgNum :=
   false) and a panicking method, then a probe: the recycled printer is not equal to a new one,
   yet the probe's result is *)
Example C12_history_nonvacuous :
  let ti := mkT [105;110;116]%N false false in
  let h := [CDoPrintf [37;91;50;93;100;32;37;91;57;93;100]%N [VInt ti 1%Z; VInt ti 2%Z]] in
  let s := recycle (run_history 20 (mkEnv [] None) h newPrinter) in
  s <> newPrinter /\
  finish (ev 20 (mkEnv [] None) (CDoPrintf [37;100]%N [VInt ti 7%Z]) s) = finish (ev 20 (mkEnv [] None) (CDoPrintf [37;100]%N [VInt ti 7%Z]) newPrinter).
Proof. split; [vm_compute; discriminate | apply C12_history_independence]. Qed.

Example C12_nonvacuous :
  let t := mkT [85]%N false false in
  let x := VUser t (mkI true false false false false false) false (VStruct t [])
             [APrintf [37;118]%N [VUnsafe (VStr (mkT [] false false) [97]%N)]; APanic VNil] in
  povr (snd (ev 20 (mkEnv [] None) (CDoPrint [VSafe x []]) newPrinter)) = NoOvr.
Proof. vm_compute. reflexivity. Qed.
