(* C12 — A print call's result depends only on its own arguments.
   Proved on the model: when an entry point hands its printer back, the override is none again
   (whatever the call did: overrides, nested printers, caught or propagating panics), nothing
   is captured for %w unless the call was HelperForErrorf, and the buffer is exactly a new
   one after Take; so the next call starts from the state a fresh printer has, apart from the
   formatting flags, which clearflags (as repaired: also width and precision) re-initialises
   before any directive is interpreted.  In the model every entry point starts from that
   state; that the pooled printers of the implementation are in it is compared on histories.
   NOT claimed as a theorem: schedules and data races (the model has no threads): runtime
   evidence only - 16 goroutines, results compared with a fresh process (_partial). *)
From Redact Require Import Bytes Tokens Utf8 Buffer Ops BufInv LBuf Printer Api.
From Redact Require Import BufInvP BufferThm Hoare Keeps WrapP.
Import List ListNotations.

Theorem C12_override_is_none_when_the_printer_is_recycled : forall fuel env c,
  povr (snd (ev fuel env c newPrinter)) = NoOvr.
Proof. intros fuel env c. exact (kovr_ev fuel env c newPrinter). Qed.
Print Assumptions C12_override_is_none_when_the_printer_is_recycled.

Theorem C12_nothing_captured_outside_errorf : forall fuel env c,
  wrapErrs (snd (ev fuel env c newPrinter)) = false /\ wrappedErr (snd (ev fuel env c newPrinter)) = None.
Proof. intros fuel env c. exact (pw_ev fuel env c newPrinter (conj eq_refl eq_refl)). Qed.
Print Assumptions C12_nothing_captured_outside_errorf.

Theorem C12_buffer_is_new_after_take : forall b, Inv b -> snd (take b) = init.
Proof. exact take_pristine. Qed.
Print Assumptions C12_buffer_is_new_after_take.

Theorem C12_nested_printers_do_not_leak_state_partial : forall rec c s,
  let s' := snd (nested rec c s) in
  povr s' = povr s /\ lmode (pl s') = lmode (pl s) /\ wrapErrs s' = wrapErrs s /\ wrappedErr s' = wrappedErr s
  /\ pf s' = pf s /\ panicking s' = panicking s /\ erroring s' = erroring s.
Proof.
  intros rec c s. unfold nested, bind, get_mode.
  destruct (rec c (fresh_pp (pl s) (povr s))) as [o ns']. rewrite setmode_st. cbn [snd].
  destruct s; cbn. repeat split. apply lmode_setmode.
Qed.
Print Assumptions C12_nested_printers_do_not_leak_state_partial.

Example C12_nonvacuous :
  let t := mkT [85]%N false false in
  let x := VUser t (mkI true false false false false false) false (VStruct t [])
             [APrintf [37;118]%N [VUnsafe (VStr (mkT [] false false) [97]%N)]; APanic VNil] in
  povr (snd (ev 20 (mkEnv [] None) (CDoPrint [VSafe x []]) newPrinter)) = NoOvr.
Proof. vm_compute. reflexivity. Qed.
