(* C13 — accessors are pure; Reset and Take return a pristine buffer.
   Abstract (list-level) view of the Buffer: the aliasing of the backing array
   by struct copies is validated by the correspondence runs (state before and
   after every accessor, strings re-read at the end), see DESIGN.md. *)
From Redact Require Import Bytes Tokens Buffer Ops BufInv BufferThm.
Import List ListNotations.

Definition accessor (o : op) : Prop :=
  o = OLen \/ o = OCap \/ o = OStr \/ o = ORS \/ o = ORB \/ o = OGetMode.

(* An accessor leaves the state unchanged, hence every later result too. *)
Theorem C13_accessor_pure : forall b o, accessor o -> fst (step b o) = b.
Proof. intros b o [H|[H|[H|[H|[H|H]]]]]; subst o; reflexivity. Qed.
Print Assumptions C13_accessor_pure.

Theorem C13_accessor_continuation : forall ops1 o ops2, accessor o ->
  run (ops1 ++ o :: ops2) = run (ops1 ++ ops2).
Proof.
  intros ops1 o ops2 H. unfold run, run_from. rewrite !fold_left_app. cbn [fold_left].
  rewrite (C13_accessor_pure _ o H). reflexivity.
Qed.
Print Assumptions C13_accessor_continuation.

(* Len is the length of what RedactableString would return. *)
Theorem C13_len : forall b, snd (step b OLen) = ObN (length (redactable_bytes b)).
Proof. reflexivity. Qed.
Print Assumptions C13_len.

(* After Reset or Take the object is a newly created one, in every reachable
   state (open envelope, pending bytes). *)
Theorem C13_pristine : forall ops, rawok ops = true ->
  fst (step (run ops) OReset) = init /\ fst (step (run ops) OTake) = init.
Proof.
  intros ops H. split; [reflexivity|].
  cbn [step]. pose proof (take_pristine (run ops) (buffer_inv_run ops H)) as Ht.
  destruct (take (run ops)) as [r b']. exact Ht.
Qed.
Print Assumptions C13_pristine.

Example C13_nonvacuous :
  let ops := [OWrite [97; 226]; OLen; ORS; OStr; OWrite [128; 185]; OGetMode]%N in
  rawok ops = true /\ run ops = run [OWrite [97; 226]; OWrite [128; 185]]%N
  /\ markerOpen (run ops) = true /\ fst (step (run ops) OTake) = init.
Proof. vm_compute. repeat split. Qed.
