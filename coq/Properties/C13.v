(* C13 — accessors are pure; Reset and Take return a pristine buffer.
   Two levels.  List level (Buffer.v): accessors leave the state unchanged, Len law, Take/Reset
   give the initial state.  Memory level (BufMem.v, below): a struct copy shares the backing
   array; the accessors finalize a copy and write only beyond the original's length or into new
   arrays; the string returned by TakeRedactableString aliases an array no later call writes.
   The memory-level model is compared with the implementation after every call (bytes, hidden
   state AND capacity). *)
From Redact Require Import Bytes Tokens Buffer Ops BufInv BufferThm.
From Redact Require Import BufMem BufMemP.
Import List ListNotations.

Definition accessor (o : op) : Prop :=
  o = OLen \/ o = OCap \/ o = OStr \/ o = ORS \/ o = ORB \/ o = OGetMode.

(* An accessor leaves the state unchanged, hence every later result too. *)
Theorem C13_accessor_pure : forall b o, accessor o -> fst (step b o) = b.
Proof. intros b o [H|[H|[H|[H|[H|H]]]]]; subst o; reflexivity. Qed.
Print Assumptions C13_accessor_pure.

Theorem C13_accessor_continuation : forall ops1 o ops2, accessor o ->
  run (ops1 ++ o :: ops2) = run (ops1 ++ ops2).
Proof.
  intros ops1 o ops2 H. unfold run, run_from. rewrite !fold_left_app. cbn [fold_left].
  rewrite (C13_accessor_pure _ o H). reflexivity.
Qed.
Print Assumptions C13_accessor_continuation.

(* Len is the length of what RedactableString would return. *)
Theorem C13_len : forall b, snd (step b OLen) = ObN (length (redactable_bytes b)).
Proof. reflexivity. Qed.
Print Assumptions C13_len.

(* After Reset or Take the object is a newly created one, in every reachable
   state (open envelope, pending bytes). *)
Theorem C13_pristine : forall ops, rawok ops = true ->
  fst (step (run ops) OReset) = init /\ fst (step (run ops) OTake) = init.
Proof.
  intros ops H. split; [reflexivity|].
  cbn [step]. pose proof (take_pristine (run ops) (buffer_inv_run ops H)) as Ht.
  destruct (take (run ops)) as [r b']. exact Ht.
Qed.
Print Assumptions C13_pristine.

(* The hypothesis is needed, and the model shows why: a caller-made raw fragment that is a lone
   closing marker is removed again by the elision of the next unsafe write; an empty unsafe write
   then leaves "envelope open" set on an EMPTY buffer, which finalize does not close - Take hands
   back a buffer that is not the initial one, and the next unsafe write appears without its opening
   marker.  (Observed on the implementation too, by two of the seeded-change sub-agents; such a
   fragment is not a redactable string the library produces: rawok = false.) *)
Example C13_pristine_needs_wellformed_raw_input :
  let ops := [OMode MRaw; OWrite [226;128;186]; OMode MUnsafe; OWrite []]%N in
  rawok ops = false /\
  fst (step (run ops) OTake) <> init /\
  output (ops ++ [OTake; OWrite [97]])%N = [97;226;128;186]%N.
Proof. vm_compute. repeat split; congruence. Qed.

(* MEMORY LEVEL (BufMem.v: heap of arrays, a struct is (array, len, validUntil, mode, markerOpen),
   copying a struct shares the array, slice expressions are checked).  The accessors finalize a
   COPY of the struct: the heap changes (a closing marker appended into the spare capacity, or a
   new array), the struct does not, and what it denotes - bytes and hidden state - is unchanged,
   in every state satisfying the memory invariant, for every capacity decision of the runtime. *)
Theorem C13_accessor_pure_in_memory : forall ecap h c o, cinv h c ->
  (o = OLen \/ o = OCap \/ o = OStr \/ o = ORS \/ o = ORB \/ o = OGetMode) ->
  exists h' co, cstep ecap h c o = Some (h', c, co) /\ cabs h' c = cabs h c /\ cinv h' c.
Proof. exact accessor_pure_mem. Qed.
Print Assumptions C13_accessor_pure_in_memory.

(* every method does to the bytes the struct denotes what the list-level model says *)
Theorem C13_memory_refines_lists : forall ops h c, cinv h c ->
  exists h' c', crun h c ops = Some (h', c') /\ cabs h' c' = run_from (cabs h c) (map fst ops) /\ cinv h' c'.
Proof. exact crun_refines. Qed.
Print Assumptions C13_memory_refines_lists.

(* the string returned by TakeRedactableString shares the array; no later call writes it *)
Theorem C13_taken_string_is_never_modified : forall ecap0 h0 c0 h c id n, cinv h0 c0 ->
  cstep ecap0 h0 c0 OTake = Some (h, c, CAlias (Some id) n) ->
  forall ops h' c', crun h c ops = Some (h', c') -> arr h' id = arr h id.
Proof. exact taken_string_immutable. Qed.
Print Assumptions C13_taken_string_is_never_modified.

(* Non-vacuity: an open envelope with pending bytes, RedactableString() appends the closing marker
   into the spare capacity of the SHARED array; the struct still denotes the same bytes *)
Example C13_memory_nonvacuous :
  match crun [] cinit [(OWrite [97;98]%N, 0%nat)] with
  | Some (h, c) =>
    cinv h c /\
    match cstep 0 h c ORS with
    | Some (h', c', CR r) => h' <> h /\ c' = c /\ cabs h' c = cabs h c /\ r = [226;128;185;97;98;226;128;186]%N
    | _ => False
    end
  | None => False
  end.
Proof. vm_compute. repeat split; try lia; discriminate. Qed.

Example C13_nonvacuous :
  let ops := [OWrite [97; 226]; OLen; ORS; OStr; OWrite [128; 185]; OGetMode]%N in
  rawok ops = true /\ run ops = run [OWrite [97; 226]; OWrite [128; 185]]%N
  /\ markerOpen (run ops) = true /\ fst (step (run ops) OTake) = init.
Proof. vm_compute. repeat split. Qed.
