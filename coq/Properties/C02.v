(* C02 — Redacted output is independent of unsafe data (non-interference).
   Proved here (all histories, all payloads, all programs of the model):
     - NON-INTERFERENCE OF REDACT AT THE BUFFER LEVEL: two histories that make the same calls, with
       equal payloads in safe and raw mode and ARBITRARY payloads of equal skeleton in unsafe
       mode (line feeds at the same places, the stretches between them empty or not - the
       property's "same emptiness, same line-break positions"), return strings whose Redact() is
       byte-identical; envelope merging and elision, markers and partial markers in the data,
       truncated UTF-8 in the unsafe payloads included.  Side condition (public, decidable): no
       dangling-tail mark is appended OUTSIDE an envelope (ptail_ok);
     - the text outside the envelopes of a Buffer history is a function of its public view
       (unsafe-mode payloads reduced to their line feeds);
     - whatever is written while the override is Unsafe is written in unsafe mode (D2), and an
       unsafe segment contributes nothing but line feeds to the text outside envelopes;
     - Redact() keeps exactly that text and replaces every envelope body by the cross (C07).
   NOT proved: that the printer makes the same calls for two instantiations of the unsafe leaves
   and writes every leaf that is not declared safe in unsafe mode (parametricity of the
   evaluator in its leaf payloads); this is decided by the correspondence and the black-box
   predicate (three instantiations per shape, Redact() compared byte for byte). *)
From Redact Require Import Bytes Tokens Utf8 Markers Buffer Ops BufInv BufContent LBuf Printer.
From Redact Require Import TokensP MarkersP BufInvP BufContentP RedactNI Hoare Discipline.
Import List ListNotations.

Theorem C02_buffer_noninterference : forall ops1 ops2,
  sim_ops MUnsafe ops1 ops2 ->
  ptail_ok_from init ops1 = true -> ptail_ok_from init ops2 = true ->
  redact_b (output ops1) = redact_b (output ops2).
Proof. exact redact_noninterference. Qed.
Print Assumptions C02_buffer_noninterference.

(* Redact() depends on the shape only: the text outside envelopes and, per envelope, whether it is
   closed and whether it is empty *)
Theorem C02_redact_is_a_function_of_the_shape : forall x y,
  wf (lex x) = true -> wf (lex y) = true -> shape x = shape y -> redact_b x = redact_b y.
Proof. exact same_shape_same_redact. Qed.
Print Assumptions C02_redact_is_a_function_of_the_shape.

Theorem C02_safe_text_noninterference_partial : forall ops1 ops2,
  pub MUnsafe ops1 = pub MUnsafe ops2 ->
  rawok ops1 = true -> content_ok ops1 = true -> rawok ops2 = true -> content_ok ops2 = true ->
  del_env (lex (output ops1)) = del_env (lex (output ops2)).
Proof. exact safe_text_noninterference. Qed.
Print Assumptions C02_safe_text_noninterference_partial.

(* Redact() preserves the text outside envelopes and leaves nothing of their content. *)
Theorem C02_redact_keeps_only_public_text : forall s, wf (lex s) = true ->
  del_env (lex (redact_b s)) = del_env (lex s) /\
  forallb (fun t => match t with TB x => orb (N.eqb x 195) (N.eqb x 151) | _ => false end)
          (env_content_aux false (lex (redact_b s))) = true.
Proof.
  intros s H. split.
  - rewrite lex_redact_b by exact H. exact (redact_tok_del_env _ H).
  - rewrite lex_redact_b by exact H. unfold redact_tok.
    rewrite (proj1 (redact_aux_s (lex s)) H). exact (env_content_redact_s _ false).
Qed.
Print Assumptions C02_redact_keeps_only_public_text.

(* Under Unsafe(): every Buffer call is a write or SetMode(unsafe) ... *)
Theorem C02_unsafe_override_discipline : forall fuel env c s,
  povr s = OvrUnsafe -> lmode (pl s) = MUnsafe ->
  let s' := snd (ev fuel env c s) in
  povr s' = OvrUnsafe /\ lmode (pl s') = MUnsafe /\ ext op_u (pl s) (pl s').
Proof. exact D2. Qed.
Print Assumptions C02_unsafe_override_discipline.

(* ... and such a segment adds only line feeds to the text outside envelopes. *)
Theorem C02_unsafe_segment_only_line_feeds : forall d, Forall op_u d -> forall acc,
  exists L, all_lf L /\
    forall rest, spec_from safe_contrib MUnsafe acc (d ++ rest) = spec_from safe_contrib MUnsafe (acc ++ L) rest.
Proof. exact unsafe_segment_safe_text. Qed.
Print Assumptions C02_unsafe_segment_only_line_feeds.

(* Non-vacuity: two histories that differ in their unsafe payloads only. *)
Example C02_nonvacuous :
  let ops1 := [OMode MSafe; OWrite [97]; OMode MUnsafe; OWrite [115; 10; 101; 99]; OMode MSafe; OWrite [98]]%N in
  let ops2 := [OMode MSafe; OWrite [97]; OMode MUnsafe; OWrite [120; 10; 121]; OMode MSafe; OWrite [98]]%N in
  pub MUnsafe ops1 = pub MUnsafe ops2 /\ rawok ops1 = true /\ content_ok ops1 = true /\
  rawok ops2 = true /\ content_ok ops2 = true /\ output ops1 <> output ops2 /\
  redact_b (output ops1) = redact_b (output ops2).
Proof. vm_compute. repeat split; congruence. Qed.

(* ... and the hypotheses of the non-interference theorem on a history with markers, a partial
   marker and truncated UTF-8 in the unsafe data, an envelope merge and a line-feed split *)
Example C02_nonvacuous_ni :
  let ops1 := [OMode MSafe; OWrite [97]; OMode MUnsafe; OWrite [226;128;185; 115; 10; 226;128]; OWriteByte 200;
               OMode MSafe; OMode MUnsafe; OWrite [195]; OMode MSafe; OWrite [98]]%N in
  let ops2 := [OMode MSafe; OWrite [97]; OMode MUnsafe; OWrite [120; 10; 121; 122]; OWrite [119];
               OMode MSafe; OMode MUnsafe; OWriteRune 233%Z; OMode MSafe; OWrite [98]]%N in
  sim_ops MUnsafe ops1 ops2 /\
  ptail_ok_from init ops1 = true /\ ptail_ok_from init ops2 = true /\ output ops1 <> output ops2 /\
  redact_b (output ops1) = redact_b (output ops2).
Proof. vm_compute. repeat split; congruence. Qed.
