(* C02 — Redacted output is independent of unsafe data (non-interference).
   Proved here (all histories, all payloads, all programs of the model):
     - NON-INTERFERENCE OF REDACT AT THE BUFFER LEVEL: two histories that make the same calls, with
       equal payloads in safe and raw mode and ARBITRARY payloads of equal skeleton in unsafe
       mode (line feeds at the same places, the stretches between them empty or not - the
       property's "same emptiness, same line-break positions"), return strings whose Redact() is
       byte-identical; envelope merging and elision, markers and partial markers in the data,
       truncated UTF-8 in the unsafe payloads included.  Side condition (public, decidable): no
       dangling-tail mark is appended OUTSIDE an envelope (ptail_ok);
     - the text outside the envelopes of a Buffer history is a function of its public view
       (unsafe-mode payloads reduced to their line feeds);
     - whatever is written while the override is Unsafe is written in unsafe mode (D2), and an
       unsafe segment contributes nothing but line feeds to the text outside envelopes;
     - Redact() keeps exactly that text and replaces every envelope body by the cross (C07).
     - END TO END FOR LEAF OPERANDS (C02_sprintf_leaf_noninterference): two calls Sprintf(f, a1...)
       and Sprintf(f, a2...) whose operands are values of basic kinds (bool, all integer kinds,
       strings, of named or unnamed types; floats and nil equal) differing only in unsafe content
       (integers other than 0 and 10 against each other, strings position by position: equal
       bytes or ASCII bytes other than LF on both sides; SafeValue / registered operands equal)
       return strings whose Redact() is byte-identical - for EVERY format without '*' (all flags,
       widths, precisions, argument indexes, bad verbs and the MISSING/EXTRA/BADINDEX/NOVERB
       diagnostics), every fuel, every sane strconv oracle.  Proved by a relational Hoare logic
       over the evaluator run in lock step on the two inputs (LeafNI.v), the segment relation of
       SegNI.v (the two runs do not make the same number of Buffer calls: padding) and the
       formatter lemmas of FmtNI.v.
   NOT proved: the same for containers, pointers, floats that differ, '*' widths and user
   methods (the two runs then also differ in control flow inside scripts); decided by the
   correspondence and the black-box predicate (three instantiations per shape, Redact()
   compared byte for byte). *)
From Redact Require Import Bytes Tokens Utf8 Markers Buffer Ops BufInv BufContent LBuf Printer.
From Redact Require Import TokensP MarkersP BufInvP BufContentP RedactNI Hoare Discipline SegNI FmtNI LeafNI Api.
From Coq Require Import Lia ZArith.
Import List ListNotations.

Theorem C02_buffer_noninterference : forall ops1 ops2,
  sim_ops MUnsafe ops1 ops2 ->
  ptail_ok_from init ops1 = true -> ptail_ok_from init ops2 = true ->
  redact_b (output ops1) = redact_b (output ops2).
Proof. exact redact_noninterference. Qed.
Print Assumptions C02_buffer_noninterference.

(* ... also when the two histories group their unsafe writes differently (padding) *)
Theorem C02_buffer_noninterference_regrouped : forall ops1 ops2 m',
  dsim MUnsafe ops1 ops2 m' -> rawok ops1 = true ->
  ptail_ok_from init ops1 = true -> ptail_ok_from init ops2 = true ->
  redact_b (output ops1) = redact_b (output ops2).
Proof. exact redact_noninterference_seg. Qed.
Print Assumptions C02_buffer_noninterference_regrouped.

(* The printer, end to end, on leaf operands *)
Theorem C02_sprintf_leaf_noninterference : forall fuel env f a1 a2 o1 o2,
  osane (orc env) -> hook_ok env -> no_star f = true -> Forall2 lrel a1 a2 ->
  sprintf fuel env f a1 = ROk o1 -> sprintf fuel env f a2 = ROk o2 ->
  forall ops1 ops2, o_log o1 = ops1 ++ [OTake] -> o_log o2 = ops2 ++ [OTake] ->
  rawok ops1 = true -> ptail_ok_from init ops1 = true -> ptail_ok_from init ops2 = true ->
  redact_b (o_bytes o1) = redact_b (o_bytes o2).
Proof. exact sprintf_leaf_noninterference. Qed.
Print Assumptions C02_sprintf_leaf_noninterference.

Theorem C02_sprint_leaf_noninterference : forall fuel env a1 a2 o1 o2,
  osane (orc env) -> hook_ok env -> Forall2 lrel a1 a2 ->
  sprint fuel env a1 = ROk o1 -> sprint fuel env a2 = ROk o2 ->
  forall ops1 ops2, o_log o1 = ops1 ++ [OTake] -> o_log o2 = ops2 ++ [OTake] ->
  rawok ops1 = true -> ptail_ok_from init ops1 = true -> ptail_ok_from init ops2 = true ->
  redact_b (o_bytes o1) = redact_b (o_bytes o2).
Proof. exact sprint_leaf_noninterference. Qed.
Print Assumptions C02_sprint_leaf_noninterference.

(* star_ok f a1 a2: the format has no '*', or the operand lists answer every width/precision query
   alike (e.g. their integer operands are the same: lemma ints_public).
   The same for operands that are TREES: slices, arrays, structs (exported and unexported fields,
   with %+v / %#v field and type names), maps (keys shared), interface slots, pointers - nested to any
   depth - over related leaves, and VALUES OF USER TYPES whose String / Error / GoString method
   returns related strings (no Formatter / SafeFormatter / SafeMessager; methods that return; error
   values only when no error hook is installed) [vrel]; container types not declared safe; and
   for Unsafe(x) with x such a tree and Safe(x) with x a leaf [arel]; and for values whose Format /
   SafeFormat method runs a SCRIPT against the printer - the same sequence of SafeWriter / io.Writer
   calls with related payloads, nested Print / Printf on related operands [actrel]; methods may PANIC
   (with related payloads, at any point of a script) or be called on nil receivers: the panic reports
   of the two runs are related. *)
Theorem C02_sprintf_tree_noninterference : forall fuel env f a1 a2 o1 o2,
  osane (orc env) -> hook_ok env -> star_ok f a1 a2 -> Forall2 arel a1 a2 ->
  sprintf fuel env f a1 = ROk o1 -> sprintf fuel env f a2 = ROk o2 ->
  forall ops1 ops2, o_log o1 = ops1 ++ [OTake] -> o_log o2 = ops2 ++ [OTake] ->
  rawok ops1 = true -> ptail_ok_from init ops1 = true -> ptail_ok_from init ops2 = true ->
  redact_b (o_bytes o1) = redact_b (o_bytes o2).
Proof. exact sprintf_tree_noninterference. Qed.
Print Assumptions C02_sprintf_tree_noninterference.

Theorem C02_sprint_tree_noninterference : forall fuel env a1 a2 o1 o2,
  osane (orc env) -> hook_ok env -> Forall2 arel a1 a2 ->
  sprint fuel env a1 = ROk o1 -> sprint fuel env a2 = ROk o2 ->
  forall ops1 ops2, o_log o1 = ops1 ++ [OTake] -> o_log o2 = ops2 ++ [OTake] ->
  rawok ops1 = true -> ptail_ok_from init ops1 = true -> ptail_ok_from init ops2 = true ->
  redact_b (o_bytes o1) = redact_b (o_bytes o2).
Proof. exact sprint_tree_noninterference. Qed.
Print Assumptions C02_sprint_tree_noninterference.

(* Non-vacuity: Sprintf("u=%s id=%+08d %x|%q %v!", ...) on two instantiations; the hypotheses
   hold, the outputs differ, their redactions agree *)
Definition c02_fmt : bytes := [117;61;37;115;32;105;100;61;37;43;48;56;100;32;37;120;124;37;113;32;37;118;33]%N.
Definition c02_t (n : bytes) := mkT n false false.
Definition c02_a1 : list value :=
  [VStr (c02_t [115;116;114;105;110;103]%N) [97;108;10;105]%N; VInt (c02_t [105;110;116]%N) 42%Z;
   VStr (c02_t [115;116;114;105;110;103]%N) [97;98]%N; VUint (c02_t [117;105;110;116]%N) 65%Z; VBool (c02_t [98;111;111;108]%N) true].
Definition c02_a2 : list value :=
  [VStr (c02_t [115;116;114;105;110;103]%N) [122;122;10;121]%N; VInt (c02_t [105;110;116]%N) 7777%Z;
   VStr (c02_t [115;116;114;105;110;103]%N) [99;100]%N; VUint (c02_t [117;105;110;116]%N) 66%Z; VBool (c02_t [98;111;111;108]%N) false].
Definition c02_orc : Fmt.oracle := [(Fmt.KQuoteRune 65%Z, [39;65;39]%N); (Fmt.KQuoteRune 66%Z, [39;66;39]%N)].

Lemma c02_osane : osane c02_orc.
Proof.
  intros k v H. unfold c02_orc in H. cbn [Fmt.olookup] in H.
  destruct (Fmt.okey_eqb k (Fmt.KQuoteRune 65)) eqn:E1; [injection H as <-|].
  { destruct k; try discriminate. split; [discriminate|]. split; [repeat constructor; discriminate|]. split; intros; discriminate. }
  destruct (Fmt.okey_eqb k (Fmt.KQuoteRune 66)) eqn:E2; [injection H as <-|discriminate].
  destruct k; try discriminate. split; [discriminate|]. split; [repeat constructor; discriminate|]. split; intros; discriminate.
Qed.

Ltac c02_srel := cbn [srel]; repeat (split; [first [left; reflexivity | right; (split; [reflexivity|]; split; [reflexivity|]; split; discriminate)]|]); exact Logic.I.
Ltac c02_lrel := split; [reflexivity|]; split; [reflexivity|]; right; split; [reflexivity|]; split; [reflexivity|].

Lemma c02_args_related : Forall2 lrel c02_a1 c02_a2.
Proof.
  unfold c02_a1, c02_a2. constructor; [|constructor; [|constructor; [|constructor; [|constructor; [|constructor]]]]].
  - c02_lrel. split; [reflexivity | c02_srel].
  - c02_lrel. split; [reflexivity|]. unfold irel, Fmt.two64. lia.
  - c02_lrel. split; [reflexivity | c02_srel].
  - c02_lrel. split; [reflexivity|]. unfold irel, Fmt.two64. lia.
  - c02_lrel. reflexivity.
Qed.

Example C02_sprintf_nonvacuous :
  match sprintf 20 (mkEnv c02_orc None) c02_fmt c02_a1, sprintf 20 (mkEnv c02_orc None) c02_fmt c02_a2 with
  | ROk o1, ROk o2 =>
    no_star c02_fmt = true /\ o_bytes o1 <> o_bytes o2 /\ redact_b (o_bytes o1) = redact_b (o_bytes o2) /\
    rawok (removelast (o_log o1)) = true /\ ptail_ok_from init (removelast (o_log o1)) = true /\ ptail_ok_from init (removelast (o_log o2)) = true
  | _, _ => False
  end.
Proof. vm_compute. repeat split; congruence. Qed.

(* Non-vacuity for trees: Sprintf("%+v|%v", struct{Name string; id int; Tags []interface{}}, map[string]interface{}{"k": ...})
   on two instantiations: the hypotheses hold, the outputs differ, the redactions agree *)
Definition c02_ts := c02_t [115;116;114;105;110;103]%N.
Definition c02_ti := c02_t [105;110;116]%N.
Definition c02_tree (name : bytes) (id : Z) (tag : bytes) (x : Z) : list value :=
  [VStruct (c02_t [109;97;105;110;46;84]%N)
     [([78;97;109;101]%N, true, VStr c02_ts name); ([105;100]%N, false, VInt c02_ti id);
      ([84;97;103;115]%N, true, VSlice (c02_t [91;93;105;110;116;101;114;102;97;99;101;32;123;125]%N) false
          [VIface [105;110;116;101;114;102;97;99;101;32;123;125]%N (Some (VStr c02_ts tag));
           VIface [105;110;116;101;114;102;97;99;101;32;123;125]%N None])];
   VMap (c02_t [109;97;112]%N) false
     [(VStr c02_ts [107]%N, VIface [105;110;116;101;114;102;97;99;101;32;123;125]%N (Some (VInt c02_ti x)))];
   VPtr (c02_t [42;109;97;105;110;46;80]%N) 49152
     (Some (VStruct (c02_t [109;97;105;110;46;80]%N) [([83]%N, true, VStr c02_ts tag)]));
   (* an error value: its Error() text is unsafe *)
   VSlice (c02_t [91;93;101;114;114;111;114]%N) false
     [VIface [101;114;114;111;114]%N (Some
        (VUser (c02_t [42;109;97;105;110;46;69]%N) (mkI false false true false false false) false
               (VPtr (c02_t [42;109;97;105;110;46;69]%N) 53248 None) [ARet tag]))];
   (* Unsafe(struct with a declared-safe field): everything inside the envelope *)
   VUnsafe (VStruct (c02_t [109;97;105;110;46;81]%N)
              [([75]%N, true, VStr (mkT [83;118;83;116;114]%N true false) [111;107]%N); ([86]%N, true, VInt c02_ti id)]);
   VSafe (VStr c02_ts [118;49;46;50]%N) [];
   VUser (c02_t [109;97;105;110;46;83;70]%N) (mkI true false false false false false) false
         (VStruct (c02_t [109;97;105;110;46;83;70]%N) [])
         [ASafeString [117;115;101;114;61]%N; AUnsafeString name;
          APrintf [32;105;100;61;37;100]%N [VInt c02_ti id]; APrint [VStr c02_ts tag]];
   (* a Stringer whose method panics with an unsafe payload; a nil *T receiver *)
   VUser (c02_t [109;97;105;110;46;80;83]%N) (mkI false false false false false true) false
         (VStruct (c02_t [109;97;105;110;46;80;83]%N) []) [APanic (VStr c02_ts name)];
   VUser (c02_t [42;109;97;105;110;46;78]%N) (mkI false false false false false true) true
         (VPtr (c02_t [42;109;97;105;110;46;78]%N) 0 None) [];
   (* a nil *T whose Format method is called (and panics on the nil receiver) *)
   VUser (c02_t [42;109;97;105;110;46;70]%N) (mkI false false false true false false) true
         (VPtr (c02_t [42;109;97;105;110;46;70]%N) 0 None) [AWrite name]].
Definition c02_fmt2 : bytes := [37;43;118;124;37;118;124;37;118;124;37;118;124;37;118;124;37;115;124;37;118;124;37;118;124;37;115;124;37;118]%N.

Lemma c02_trees_related : Forall2 arel (c02_tree [97;98]%N 42 [120;10;121]%N 5) (c02_tree [99;100]%N 4711 [122;10;122]%N 77).
Proof.
  unfold c02_tree. constructor; [apply ar_v|constructor; [apply ar_v|constructor; [apply ar_v|constructor; [apply ar_v|constructor; [apply ar_unsafe|constructor; [apply ar_safe|constructor; [apply ar_v|constructor; [apply ar_v|constructor; [apply ar_v|constructor; [apply ar_v|constructor]]]]]]]]]].
  - apply vr_struct; [reflexivity | reflexivity|].
    constructor; [split; [reflexivity|]; apply vr_leaf; c02_lrel; split; [reflexivity | c02_srel]|].
    constructor; [split; [reflexivity|]; apply vr_leaf; c02_lrel; split; [reflexivity|]; unfold irel, Fmt.two64; lia|].
    constructor; [|constructor]. split; [reflexivity|].
    apply vr_slice; [reflexivity | reflexivity|].
    constructor; [apply vr_iface, vr_leaf; c02_lrel; split; [reflexivity | c02_srel]|].
    constructor; [apply vr_iface_nil | constructor].
  - apply vr_map; [reflexivity | reflexivity|].
    constructor; [|constructor]. split; [reflexivity|]. split; [reflexivity|].
    apply vr_iface, vr_leaf. c02_lrel. split; [reflexivity|]. unfold irel, Fmt.two64. lia.
  - apply vr_ptr; [reflexivity | reflexivity|]. apply vr_struct; [reflexivity | reflexivity|].
    constructor; [|constructor]. split; [reflexivity|]. apply vr_leaf. c02_lrel. split; [reflexivity | c02_srel].
  - apply vr_slice; [reflexivity | reflexivity|]. constructor; [|constructor]. apply vr_iface.
    apply vr_user; try reflexivity; [right; c02_srel | apply vr_ptr_nil; reflexivity].
  - apply vr_struct; [reflexivity | reflexivity|].
    constructor; [split; [reflexivity|]; apply vr_leaf, lrel_refl; reflexivity|].
    constructor; [|constructor]. split; [reflexivity|]. apply vr_leaf. c02_lrel. split; [reflexivity|]. unfold irel, Fmt.two64. lia.
  - reflexivity.
  - (* a SafeFormatter: p.SafeString("user="); p.UnsafeString(name); p.Printf(" id=%d", id); p.Print(tag) *)
    apply vr_sfuser; try reflexivity; [|apply vr_struct; [reflexivity | reflexivity | constructor]].
    constructor; [apply ac_same; exact Logic.I|].
    constructor; [apply ac_us; right; c02_srel|].
    constructor; [apply ac_printf; [reflexivity|]; constructor; [|constructor]; apply ar_v, vr_leaf; c02_lrel; split; [reflexivity|]; unfold irel, Fmt.two64; lia|].
    constructor; [apply ac_print; constructor; [|constructor]; apply ar_v, vr_leaf; c02_lrel; split; [reflexivity | c02_srel]|].
    constructor.
  - apply vr_puser; try reflexivity; [|apply vr_struct; [reflexivity | reflexivity | constructor]].
    apply ar_v, vr_leaf. c02_lrel. split; [reflexivity | c02_srel].
  - apply vr_nuser; try reflexivity. apply vr_ptr_nil; reflexivity.
  - apply vr_nfuser; try reflexivity; [left; repeat split; reflexivity | apply vr_ptr_nil; reflexivity].
Qed.

Example C02_tree_nonvacuous :
  match sprintf 20 (mkEnv c02_orc None) c02_fmt2 (c02_tree [97;98]%N 42 [120;10;121]%N 5),
        sprintf 20 (mkEnv c02_orc None) c02_fmt2 (c02_tree [99;100]%N 4711 [122;10;122]%N 77) with
  | ROk o1, ROk o2 =>
    no_star c02_fmt2 = true /\ o_bytes o1 <> o_bytes o2 /\ redact_b (o_bytes o1) = redact_b (o_bytes o2) /\
    rawok (removelast (o_log o1)) = true /\ ptail_ok_from init (removelast (o_log o1)) = true /\ ptail_ok_from init (removelast (o_log o2)) = true
  | _, _ => False
  end.
Proof. vm_compute. repeat split; congruence. Qed.

(* with an error hook installed (RegisterRedactErrorFn): error values are rendered by the hook's
   script; the hypothesis hook_ok holds, the operands are related, the redactions agree *)
Definition c02_hook : list action := [ASafeString [101;114;114;61]%N; AUnsafeString [63;63]%N; APrintf [32;37;100]%N [VInt c02_ti 7]].
Definition c02_err (msg : bytes) : value :=
  VUser (c02_t [42;109;97;105;110;46;69]%N) (mkI false false true false false false) false
        (VPtr (c02_t [42;109;97;105;110;46;69]%N) 53248 None) [ARet msg].
Lemma c02_hook_ok : hook_ok (mkEnv c02_orc (Some c02_hook)).
Proof.
  unfold hook_ok, c02_hook. cbn [hook].
  constructor; [apply ac_same; exact Logic.I|]. constructor; [apply ac_us; now left|].
  constructor; [apply ac_printf; [reflexivity|]; constructor; [|constructor]; apply ar_v, vr_leaf, lrel_refl; reflexivity | constructor].
Qed.
Lemma c02_errs_related : Forall2 arel [c02_err [97;98]%N] [c02_err [120;121]%N].
Proof.
  constructor; [|constructor]. apply ar_v. apply vr_user; try reflexivity; [right; c02_srel | apply vr_ptr_nil; reflexivity].
Qed.
Example C02_hook_nonvacuous :
  match sprintf 20 (mkEnv c02_orc (Some c02_hook)) [37;118]%N [c02_err [97;98]%N], sprintf 20 (mkEnv c02_orc (Some c02_hook)) [37;118]%N [c02_err [120;121]%N] with
  | ROk o1, ROk o2 => redact_b (o_bytes o1) = redact_b (o_bytes o2) /\ o_bytes o1 = [101;114;114;61;226;128;185;63;63;226;128;186;32;226;128;185;55;226;128;186]%N
  | _, _ => False
  end.
Proof. vm_compute. split; reflexivity. Qed.

(* byte slices ([]byte, named byte slices, byte arrays) whose bytes are related position by position:
   %v prints them as numbers, %s / %q as text, %x as hex digits - all inside envelopes *)
Definition c02_bytes (s : bytes) : list value := [VBytes (c02_t [91;93;117;105;110;116;56]%N) false s].
Lemma c02_bytes_related : Forall2 arel (c02_bytes [97;98;99]%N) (c02_bytes [120;98;122]%N).
Proof.
  constructor; [|constructor]. apply ar_v, vr_bytes; [reflexivity | reflexivity|].
  constructor; [right; repeat split; (reflexivity || discriminate)|].
  constructor; [left; reflexivity|].
  constructor; [right; repeat split; (reflexivity || discriminate) | constructor].
Qed.
Example C02_bytes_nonvacuous :
  let f := [37;118;124;37;115;124;37;91;49;93;120;124;37;35;91;49;93;118]%N in
  match sprintf 20 (mkEnv c02_orc None) f (c02_bytes [97;98;99]%N), sprintf 20 (mkEnv c02_orc None) f (c02_bytes [120;98;122]%N) with
  | ROk o1, ROk o2 => o_bytes o1 <> o_bytes o2 /\ redact_b (o_bytes o1) = redact_b (o_bytes o2)
  | _, _ => False
  end.
Proof. vm_compute. split; congruence. Qed.

(* Redact() depends on the shape only: the text outside envelopes and, per envelope, whether it is
   closed and whether it is empty *)
Theorem C02_redact_is_a_function_of_the_shape : forall x y,
  wf (lex x) = true -> wf (lex y) = true -> shape x = shape y -> redact_b x = redact_b y.
Proof. exact same_shape_same_redact. Qed.
Print Assumptions C02_redact_is_a_function_of_the_shape.

Theorem C02_safe_text_noninterference_partial : forall ops1 ops2,
  pub MUnsafe ops1 = pub MUnsafe ops2 ->
  rawok ops1 = true -> content_ok ops1 = true -> rawok ops2 = true -> content_ok ops2 = true ->
  del_env (lex (output ops1)) = del_env (lex (output ops2)).
Proof. exact safe_text_noninterference. Qed.
Print Assumptions C02_safe_text_noninterference_partial.

(* Redact() preserves the text outside envelopes and leaves nothing of their content. *)
Theorem C02_redact_keeps_only_public_text : forall s, wf (lex s) = true ->
  del_env (lex (redact_b s)) = del_env (lex s) /\
  forallb (fun t => match t with TB x => orb (N.eqb x 195) (N.eqb x 151) | _ => false end)
          (env_content_aux false (lex (redact_b s))) = true.
Proof.
  intros s H. split.
  - rewrite lex_redact_b by exact H. exact (redact_tok_del_env _ H).
  - rewrite lex_redact_b by exact H. unfold redact_tok.
    rewrite (proj1 (redact_aux_s (lex s)) H). exact (env_content_redact_s _ false).
Qed.
Print Assumptions C02_redact_keeps_only_public_text.

(* Under Unsafe(): every Buffer call is a write or SetMode(unsafe) ... *)
Theorem C02_unsafe_override_discipline : forall fuel env c s,
  povr s = OvrUnsafe -> lmode (pl s) = MUnsafe ->
  let s' := snd (ev fuel env c s) in
  povr s' = OvrUnsafe /\ lmode (pl s') = MUnsafe /\ ext op_u (pl s) (pl s').
Proof. exact D2. Qed.
Print Assumptions C02_unsafe_override_discipline.

(* ... and such a segment adds only line feeds to the text outside envelopes. *)
Theorem C02_unsafe_segment_only_line_feeds : forall d, Forall op_u d -> forall acc,
  exists L, all_lf L /\
    forall rest, spec_from safe_contrib MUnsafe acc (d ++ rest) = spec_from safe_contrib MUnsafe (acc ++ L) rest.
Proof. exact unsafe_segment_safe_text. Qed.
Print Assumptions C02_unsafe_segment_only_line_feeds.

(* Non-vacuity: two histories that differ in their unsafe payloads only. *)
Example C02_nonvacuous :
  let ops1 := [OMode MSafe; OWrite [97]; OMode MUnsafe; OWrite [115; 10; 101; 99]; OMode MSafe; OWrite [98]]%N in
  let ops2 := [OMode MSafe; OWrite [97]; OMode MUnsafe; OWrite [120; 10; 121]; OMode MSafe; OWrite [98]]%N in
  pub MUnsafe ops1 = pub MUnsafe ops2 /\ rawok ops1 = true /\ content_ok ops1 = true /\
  rawok ops2 = true /\ content_ok ops2 = true /\ output ops1 <> output ops2 /\
  redact_b (output ops1) = redact_b (output ops2).
Proof. vm_compute. repeat split; congruence. Qed.

(* ... and the hypotheses of the non-interference theorem on a history with markers, a partial
   marker and truncated UTF-8 in the unsafe data, an envelope merge and a line-feed split *)
Example C02_nonvacuous_ni :
  let ops1 := [OMode MSafe; OWrite [97]; OMode MUnsafe; OWrite [226;128;185; 115; 10; 226;128]; OWriteByte 200;
               OMode MSafe; OMode MUnsafe; OWrite [195]; OMode MSafe; OWrite [98]]%N in
  let ops2 := [OMode MSafe; OWrite [97]; OMode MUnsafe; OWrite [120; 10; 121; 122]; OWrite [119];
               OMode MSafe; OMode MUnsafe; OWriteRune 233%Z; OMode MSafe; OWrite [98]]%N in
  sim_ops MUnsafe ops1 ops2 /\
  ptail_ok_from init ops1 = true /\ ptail_ok_from init ops2 = true /\ output ops1 <> output ops2 /\
  redact_b (output ops1) = redact_b (output ops2).
Proof. vm_compute. repeat split; congruence. Qed.
