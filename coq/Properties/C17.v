(* C17 — A registered error hook renders every error operand, except under Unsafe.
   Proved on the model of the method dispatch, for every hook (a script over the SafePrinter),
   every error value, verb and state: with a hook installed and no Unsafe() around, an error
   operand that is neither a SafeFormatter nor a SafeMessager is handed to the hook alone, inside
   catchPanic (a hook panic is reported like any method panic), with the active verb - 'v' for a
   correctly used %w; under Unsafe() the dispatch does not depend on the hook at all, and
   everything it writes is enveloped (D2).  That error operands inside containers reach the
   dispatch is part of printValue (correspondence + black-box predicate). *)
From Redact Require Import Bytes Tokens Utf8 Buffer Ops BufInv LBuf Printer Api HookP Hoare Discipline.
From Coq Require Import String.
Import List ListNotations.
Open Scope Z_scope.

Theorem C17_hook_renders_error_operands : forall rec orc h verb0 s t i nr repr sc,
  erroring s = false -> povr s <> OvrUnsafe ->
  parg s = Some (VUser t i nr repr sc) ->
  iError i = true -> iSafeFormatter i = false -> iSafeMessager i = false ->
  verb0 <> 119 ->
  handleMethods rec (mkEnv orc (Some h)) verb0 s =
  (catch_panic rec (VUser t i nr repr sc) verb0 "SafeFormatter"%string
     (rec (CActs (VUser t i nr repr sc) verb0 h) ;;; ret tt) ;;; ret true) s.
Proof. exact hook_renders_error. Qed.
Print Assumptions C17_hook_renders_error_operands.

Theorem C17_hook_sees_v_for_w : forall rec orc h s t i nr repr sc,
  erroring s = false -> povr s <> OvrUnsafe ->
  parg s = Some (VUser t i nr repr sc) ->
  iError i = true -> iSafeFormatter i = false -> iSafeMessager i = false ->
  wrapErrs s = true -> wrappedErr s = None ->
  handleMethods rec (mkEnv orc (Some h)) 119 s =
  (catch_panic rec (VUser t i nr repr sc) 118 "SafeFormatter"%string
     (rec (CActs (VUser t i nr repr sc) 118 h) ;;; ret tt) ;;; ret true)
    (set_wrappedErr s (Some (VUser t i nr repr sc))).
Proof. exact hook_renders_wrapped_error. Qed.
Print Assumptions C17_hook_sees_v_for_w.

Theorem C17_hook_bypassed_under_unsafe : forall rec orc h1 h2 verb s,
  povr s = OvrUnsafe ->
  handleMethods rec (mkEnv orc h1) verb s = handleMethods rec (mkEnv orc h2) verb s.
Proof. exact hook_bypassed_under_unsafe. Qed.
Print Assumptions C17_hook_bypassed_under_unsafe.

Theorem C17_under_unsafe_fully_enveloped : forall fuel env c s,
  povr s = OvrUnsafe -> lmode (pl s) = MUnsafe ->
  let s' := snd (ev fuel env c s) in
  povr s' = OvrUnsafe /\ lmode (pl s') = MUnsafe /\ ext op_u (pl s) (pl s').
Proof. exact D2. Qed.
Print Assumptions C17_under_unsafe_fully_enveloped.

Example C17_nonvacuous :
  let t := mkT [69]%N false false in
  let e := VUser t (mkI false false true false false false) false (VStruct t []) [ARet [98;97;100]%N] in
  let h := [ASafeString [72]%N; AUnsafeString [117]%N] in
  (match Api.sprintf 20 (mkEnv [] (Some h)) [60;37;118;62]%N [e] with
   | ROk o => Api.o_bytes o = [60; 72; 226;128;185; 117; 226;128;186; 62]%N | _ => False end) /\
  (match Api.sprintf 20 (mkEnv [] (Some h)) [60;37;118;62]%N [VUnsafe e] with
   | ROk o => Api.o_bytes o = [60; 226;128;185; 98;97;100; 226;128;186; 62]%N | _ => False end).
Proof. vm_compute. repeat split. Qed.
