(* C04 — With markers stripped, output equals what fmt prints.
   Proved: for every entry point, format, operand list, script and fuel, the returned bytes with
   markers stripped are exactly the payloads of the Buffer writes the evaluator made, in order,
   with the marker characters of the data replaced by '?': mode switches add or remove marker
   bytes only.  Fprint(f) is Sprint(f).  That the sequence of payload writes is the one of the
   standard fmt package is NOT a theorem (fmt is not in the repository): it is decided by the
   correspondence (model = implementation) and by the black-box comparison with the real fmt. *)
From Redact Require Import Bytes Tokens Utf8 Markers Buffer Ops BufInv BufContent LBuf Printer Api.
From Redact Require Import BufContentP ApiP RoutesP.
Import List ListNotations.

Theorem C04_stripped_output_is_the_written_text_partial : forall fuel env f a o,
  (sprintf fuel env f a = ROk o \/ sprint fuel env a = ROk o) ->
  exists ops, o_log o = ops ++ [OTake] /\
    (rawok ops = true -> content_ok ops = true ->
     strip_tok (lex (o_bytes o)) = spec_strip ops).
Proof.
  intros fuel env f a o [H|H]; destruct (finish_content _ o H) as (ops & Hl & Hc);
    exists ops; (split; [exact Hl|]); intros Hr Hk; exact (proj1 (Hc Hr Hk)).
Qed.
Print Assumptions C04_stripped_output_is_the_written_text_partial.

Theorem C04_buffer_strip : forall ops, rawok ops = true -> content_ok ops = true ->
  strip_tok (lex (output ops)) = spec_strip ops.
Proof. intros ops Hr Hc. exact (proj1 (output_content ops Hr Hc)). Qed.
Print Assumptions C04_buffer_strip.

Theorem C04_fprint_is_sprint : fprint = sprint /\ fprintf = sprintf.
Proof. exact fprint_is_sprint. Qed.
Print Assumptions C04_fprint_is_sprint.

Example C04_nonvacuous :
  let ops := [OMode MSafe; OWrite [120; 61]; OMode MUnsafe; OWrite [226;128;185; 97]; OWriteByte 200; OMode MSafe; OWrite [33]]%N in
  rawok ops = true /\ content_ok ops = true /\ unlex (spec_strip ops) = [120; 61; 63; 97; 63; 33]%N.
Proof. vm_compute. repeat split. Qed.
