(* C15 — HelperForErrorf returns the %w operand and the Sprintf text.
   Proved on the model of the method dispatch: a correctly used %w (inside HelperForErrorf, error
   operand, nothing captured yet) records the operand and IS the v dispatch from there on; any
   other %w that reaches the dispatch is reported as a bad verb and cancels the capture;
   outside HelperForErrorf (Sprint, Sprintf, Sprintfn) nothing is ever captured, for any format,
   operands and scripts.  Known findings (known_findings.json): a %w whose operand is nil or of
   a basic kind is reported as a bad verb by printArg WITHOUT reaching the dispatch, so it does
   not cancel a capture made by another %w; %#w keeps '#' as the plain flag, so it prints the
   error text where %#v prints Go syntax. *)
From Redact Require Import Bytes Tokens Utf8 Buffer Ops BufInv LBuf Printer Api WrapP NestedWrapP.
Import List ListNotations.
Open Scope Z_scope.

Theorem C15_correct_w_is_the_v_dispatch : forall rec env s a,
  erroring s = false -> parg s = Some a -> is_error a = true ->
  wrapErrs s = true -> wrappedErr s = None ->
  handleMethods rec env 119 s = handleMethods rec env 118 (set_wrappedErr s (Some a)).
Proof. exact w_is_v_dispatch. Qed.
Print Assumptions C15_correct_w_is_the_v_dispatch.

Theorem C15_misused_w_is_a_bad_verb : forall rec env s a,
  erroring s = false -> parg s = Some a ->
  (is_error a = false \/ wrapErrs s = false \/ wrappedErr s <> None) ->
  handleMethods rec env 119 s =
  (modify (fun s => set_wrapErrs (set_wrappedErr s None) false) ;;; rec (CBadVerb 119) ;;; ret true) s.
Proof. exact w_misuse_is_bad_verb. Qed.
Print Assumptions C15_misused_w_is_a_bad_verb.

Theorem C15_no_capture_outside_errorf : forall fuel env f a acts o,
  (sprintf fuel env f a = ROk o \/ sprint fuel env a = ROk o \/ sprintfn fuel env acts = ROk o) -> o_err o = None.
Proof. exact no_capture_outside_errorf. Qed.
Print Assumptions C15_no_capture_outside_errorf.

(* nested printers (Print/Printf called from SafeFormat/Format methods, Sprintfn callbacks, the
   error hook): the enclosing printer's %w bookkeeping is untouched by the nested call whatever
   happens in it; the nested printer starts without the permission, a %w reaching its dispatch
   is a bad verb, and it ends - for the real evaluator, at any fuel - without a capture *)
Theorem C15_nested_call_keeps_the_capture : forall rec c s,
  wrapErrs (snd (nested rec c s)) = wrapErrs s /\ wrappedErr (snd (nested rec c s)) = wrappedErr s.
Proof. exact nested_keeps_capture. Qed.
Print Assumptions C15_nested_call_keeps_the_capture.

Theorem C15_w_in_a_nested_printer_is_a_bad_verb : forall rec env l o a,
  let s := set_arg (fresh_pp l o) (Some a) in
  handleMethods rec env 119 s =
  (modify (fun s => set_wrapErrs (set_wrappedErr s None) false) ;;; rec (CBadVerb 119) ;;; ret true) s.
Proof.
  intros rec env l o a s. apply (w_without_permission_is_bad_verb rec env s a); try reflexivity.
  split; reflexivity.
Qed.
Print Assumptions C15_w_in_a_nested_printer_is_a_bad_verb.

Theorem C15_nested_run_never_captures : forall fuel env c l o,
  let s' := snd (ev fuel env c (fresh_pp l o)) in wrapErrs s' = false /\ wrappedErr s' = None.
Proof. intros fuel env c l o. exact (nested_run_never_captures (ev fuel env) c l o (pw_ev fuel env)). Qed.
Print Assumptions C15_nested_run_never_captures.

(* Non-vacuity: HelperForErrorf("x %w", err) on the model returns err; with a second %w, nil. *)
Example C15_nonvacuous :
  let t := mkT [69]%N false false in
  let e := VUser t (mkI false false true false false false) false (VStruct t []) [ARet [98;97;100]%N] in
  (match errorf 20 (mkEnv [] None) [120;32;37;119]%N [e] with
   | ROk o => o_err o = Some e /\ o_bytes o = [120;32;226;128;185;98;97;100;226;128;186]%N | _ => False end) /\
  (match errorf 20 (mkEnv [] None) [37;119;37;119]%N [e; e] with ROk o => o_err o = None | _ => False end).
Proof. vm_compute. repeat split. Qed.

(* ... and a %w inside the Printf of a SafeFormat method: a bad verb there, while the outer %w's
   capture is kept *)
Example C15_nested_nonvacuous :
  let t := mkT [69]%N false false in
  let e := VUser t (mkI false false true false false false) false (VStruct t []) [ARet [98;97;100]%N] in
  let tf := mkT [70]%N false false in
  let sf := VUser tf (mkI true false false false false false) false (VStruct tf []) [APrintf [110;58;37;119]%N [e]] in
  (match errorf 30 (mkEnv [] None) [37;118]%N [sf] with
   | ROk o => o_err o = None /\ o_bytes o = [110;58;37;33;119;40;69;61;123;125;41]%N | _ => False end) /\
  (match errorf 30 (mkEnv [] None) [37;119;32;37;118]%N [e; sf] with ROk o => o_err o = Some e | _ => False end).
Proof. vm_compute. repeat split. Qed.
