(* C15 — HelperForErrorf returns the %w operand and the Sprintf text.
   Proved on the model of the method dispatch: a correctly used %w (inside HelperForErrorf, error
   operand, nothing captured yet) records the operand and IS the v dispatch from there on; any
   other %w that reaches the dispatch is reported as a bad verb and cancels the capture;
   outside HelperForErrorf (Sprint, Sprintf, Sprintfn) nothing is ever captured, for any format,
   operands and scripts.  Known findings (known_findings.json): a %w whose operand is nil or of
   a basic kind is reported as a bad verb by printArg WITHOUT reaching the dispatch, so it does
   not cancel a capture made by another %w; %#w keeps '#' as the plain flag, so it prints the
   error text where %#v prints Go syntax. *)
From Redact Require Import Bytes Tokens Utf8 Buffer Ops BufInv LBuf Printer Api WrapP.
Import List ListNotations.
Open Scope Z_scope.

Theorem C15_correct_w_is_the_v_dispatch : forall rec env s a,
  erroring s = false -> parg s = Some a -> is_error a = true ->
  wrapErrs s = true -> wrappedErr s = None ->
  handleMethods rec env 119 s = handleMethods rec env 118 (set_wrappedErr s (Some a)).
Proof. exact w_is_v_dispatch. Qed.
Print Assumptions C15_correct_w_is_the_v_dispatch.

Theorem C15_misused_w_is_a_bad_verb : forall rec env s a,
  erroring s = false -> parg s = Some a ->
  (is_error a = false \/ wrapErrs s = false \/ wrappedErr s <> None) ->
  handleMethods rec env 119 s =
  (modify (fun s => set_wrapErrs (set_wrappedErr s None) false) ;;; rec (CBadVerb 119) ;;; ret true) s.
Proof. exact w_misuse_is_bad_verb. Qed.
Print Assumptions C15_misused_w_is_a_bad_verb.

Theorem C15_no_capture_outside_errorf : forall fuel env f a acts o,
  (sprintf fuel env f a = ROk o \/ sprint fuel env a = ROk o \/ sprintfn fuel env acts = ROk o) -> o_err o = None.
Proof. exact no_capture_outside_errorf. Qed.
Print Assumptions C15_no_capture_outside_errorf.

(* Non-vacuity: HelperForErrorf("x %w", err) on the model returns err; with a second %w, nil. *)
Example C15_nonvacuous :
  let t := mkT [69]%N false false in
  let e := VUser t (mkI false false true false false false) false (VStruct t []) [ARet [98;97;100]%N] in
  (match errorf 20 (mkEnv [] None) [120;32;37;119]%N [e] with
   | ROk o => o_err o = Some e /\ o_bytes o = [120;32;226;128;185;98;97;100;226;128;186]%N | _ => False end) /\
  (match errorf 20 (mkEnv [] None) [37;119;37;119]%N [e; e] with ROk o => o_err o = None | _ => False end).
Proof. vm_compute. repeat split. Qed.
