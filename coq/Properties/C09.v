(* C09 — SafeWriter contract: each payload lands once, in order, on its own side.
   For EVERY finite sequence of Buffer calls (ManualBuffer; StringBuilder = SetMode + call; the
   printer's SafeWriter methods = bracketed calls) with payloads that do not end in a proper
   marker prefix and do not leave a dangling UTF-8 tail at a mode switch (all valid-UTF-8
   payloads and valid runes qualify; the condition is the decidable predicate content_ok):
     stripped result = payloads in call order, markers replaced by '?', a non-ASCII byte written
                       alone in unsafe mode replaced by '?';
     result without envelopes = safe payloads + line feeds of unsafe payloads;
   and the result is well-formed and line-safe (for arbitrary bytes and runes).  The same for
   the StringBuilder model and for every printer entry point (Sprintfn, SafeFormat) in terms of
   the calls they make.  Agreement of the three implementations up to merging is decided by the
   correspondence and the black-box predicate. *)
From Redact Require Import Bytes Tokens Utf8 Markers Buffer Ops BufInv BufContent LBuf Printer Api.
From Redact Require Import BufferThm BufContentP ApiP.
Import List ListNotations.

Theorem C09_manual_buffer : forall ops, rawok ops = true -> content_ok ops = true ->
  strip_tok (lex (output ops)) = spec_strip ops /\ del_env (lex (output ops)) = spec_safe ops.
Proof. exact output_content. Qed.
Print Assumptions C09_manual_buffer.

Theorem C09_well_formed : forall ops, rawok ops = true ->
  Redactable (output ops) /\ linesafe (lex (output ops)) = true.
Proof. exact buffer_output_ok. Qed.
Print Assumptions C09_well_formed.

Theorem C09_string_builder : forall fuel env acts o,
  builder fuel env acts = ROk o ->
  rawok (o_log o) = true ->
  (Redactable (o_bytes o) /\ linesafe (lex (o_bytes o)) = true) /\
  (content_ok (o_log o) = true ->
   strip_tok (lex (o_bytes o)) = spec_strip (o_log o) /\ del_env (lex (o_bytes o)) = spec_safe (o_log o)).
Proof.
  intros fuel env acts o H Hr. split; [exact (builder_redactable fuel env acts o H Hr)|].
  intros Hc. exact (builder_content fuel env acts o H Hr Hc).
Qed.
Print Assumptions C09_string_builder.

Theorem C09_safe_printer : forall fuel env acts o,
  sprintfn fuel env acts = ROk o ->
  exists ops, o_log o = ops ++ [OTake] /\
    (rawok ops = true -> content_ok ops = true ->
     strip_tok (lex (o_bytes o)) = spec_strip ops /\ del_env (lex (o_bytes o)) = spec_safe ops).
Proof. intros fuel env acts o H. exact (finish_content _ o H). Qed.
Print Assumptions C09_safe_printer.

Example C09_nonvacuous :
  let ops := [OMode MSafe; OWrite [226;128;185; 120]; OMode MUnsafe; OWrite [97; 10; 226;128;186]; OWriteByte 226;
              OWriteRune 8249; OMode MSafe; OWriteRune 233; OMode MUnsafe; OWrite []; OMode MSafe]%N%Z in
  rawok ops = true /\ content_ok ops = true /\
  unlex (spec_strip ops) = [63; 120; 97; 10; 63; 63; 63; 195; 169]%N /\ unlex (spec_safe ops) = [63; 120; 10; 195; 169]%N.
Proof. vm_compute. repeat split. Qed.
