(* C14 — Format forwarding reproduces the active directive exactly.
   Model of MakeFormat (internal/fmtforward) and of the directive syntax read by doPrintf.
   Proved: MakeFormat reports the bare %v case and only that case; THE ROUND TRIP, unbounded: for
   every flag subset (minus the pair '-','0' which no parser reports), every width in 1..10^6,
   every precision in 0..10^6 and every verb that is an ASCII letter or a valid rune beyond
   ASCII, reading the string MakeFormat returns back with doPrintf's directive parser yields
   exactly that state and verb (decimal print/parse, flag loop, UTF-8 encode/decode are each
   proved inverse).  The agreement of the model's MakeFormat and parser with the code and with
   the standard fmt is checked on the complete product named by the property. *)
From Redact Require Import Bytes Tokens Utf8 Fmt Value LBuf Printer Api Forward RoutesP FormatP DirectiveP.
Import List ListNotations.
From Coq Require Import Lia.
Open Scope Z_scope.

Theorem C14_justV : forall s verb,
  fst (make_format s verb) = true <->
  (verb = 118 /\ st_plus s = false /\ st_minus s = false /\ st_sharp s = false /\ st_space s = false /\
   st_zero s = false /\ st_wid s = None /\ st_prec s = None).
Proof. exact make_format_justV. Qed.
Print Assumptions C14_justV.

Theorem C14_roundtrip : forall s v, st_ok s -> verb_ok v ->
  parse_directive (snd (make_format s v)) = Some (s, v).
Proof. exact make_format_roundtrip. Qed.
Print Assumptions C14_roundtrip.

(* Non-vacuity: "%+-# 123456.654321" + U+1F6D1 satisfies the hypotheses and is what MakeFormat returns *)
Example C14_roundtrip_nonvacuous :
  let s := mkSt true true true true false (Some 123456) (Some 654321) in
  st_ok s /\ verb_ok 128721 /\
  snd (make_format s 128721) = [37;43;45;35;32;49;50;51;52;53;54;46;54;53;52;51;50;49;240;159;155;145]%N.
Proof. split; [|split]; [unfold st_ok; cbn; lia | right; split; [lia | reflexivity] | reflexivity]. Qed.

(* (a present width of 0 can only come from a '*' operand; MakeFormat re-emits it as the '0'
   flag, which renders identically; it is left out of the product)
   the round trip on the finite product of the property: 32 flag subsets (minus '-' with '0',
   which redact's parser normalises) x widths x precisions x the ASCII letter verbs *)
Definition c14_states : list fstate :=
  flat_map (fun p => flat_map (fun m => flat_map (fun sh => flat_map (fun sp => flat_map (fun z =>
  flat_map (fun w => map (fun pr => mkSt p m sh sp z w pr)
     [None; Some 0; Some 1; Some 5; Some 3]) [None; Some 1; Some 7; Some 12; Some 1000; Some 9])
  [true; false]) [true; false]) [true; false]) [true; false]) [true; false].
Definition c14_verbs : list Z :=
  map (fun n => Z.of_nat n + 97) (seq 0 26) ++ map (fun n => Z.of_nat n + 65) (seq 0 26) ++ [233; 9731; 128721].
Definition st_eqb (a b : fstate) : bool :=
  Bool.eqb (st_plus a) (st_plus b) && Bool.eqb (st_minus a) (st_minus b) && Bool.eqb (st_sharp a) (st_sharp b)
  && Bool.eqb (st_space a) (st_space b) && Bool.eqb (st_zero a) (st_zero b)
  && oz_eqb (st_wid a) (st_wid b) && oz_eqb (st_prec a) (st_prec b).
Definition roundtrip_ok (s : fstate) (v : Z) : bool :=
  if st_minus s && st_zero s then true else
  match parse_directive (snd (make_format s v)) with
  | Some (s', v') => st_eqb s s' && (v =? v')
  | None => false
  end.

Theorem C14_roundtrip_on_the_product :
  forallb (fun s => forallb (roundtrip_ok s) c14_verbs) c14_states = true.
Proof. vm_compute. reflexivity. Qed.
Print Assumptions C14_roundtrip_on_the_product.

(* The same statement about the PRINTER'S OWN parser (format_loop of doPrintf, with its fast path,
   argument-index and '*' handling), not the stand-alone parse_directive: run on the directive
   MakeFormat rebuilt from the state s with one operand, doPrintf switches to safe mode, installs
   exactly the state s (fmt_of: the nine flags of fmt.fmtFlags incl. the plusV/sharpV conversion
   for %v, width, precision) and prints the operand under the forwarded verb; it emits no
   diagnostic and changes nothing else.  For every s, verb, operand, evaluator and printer state. *)
Theorem C14_printer_installs_the_forwarded_state : forall s v a rec st, st_ok s -> verb_ok v ->
  doPrintf rec (snd (make_format s v)) [a] st =
  (enter_safe ;;; modify (fun s0 => set_pf (set_good (set_reordered s0 false) true) (fmt_of s v)) ;;;
   rec (CPrintArg a v) ;;; ret tt) st.
Proof. exact doPrintf_forwarded. Qed.
Print Assumptions C14_printer_installs_the_forwarded_state.

Example C14_fmt_of_example :
  fmt_of (mkSt true false true false true (Some 12) (Some 3)) 118 =
  mkF (mkFlags true true false false false false true true true) 12 3.
Proof. reflexivity. Qed.
