(* C14 — Format forwarding reproduces the active directive exactly.
   Model of MakeFormat (internal/fmtforward) and of the directive syntax read by doPrintf.
   Proved: MakeFormat reports the bare %v case and only that case.  The round trip
   (parse_directive (make_format st verb) = (st, verb) for all widths and precisions) is evaluated
   on the complete product named by the property, against the implementation's MakeFormat, the
   real printer and the model's parser (_partial: not yet an unbounded theorem). *)
From Redact Require Import Bytes Tokens Utf8 Fmt Value LBuf Printer Api Forward RoutesP.
Import List ListNotations.
Open Scope Z_scope.

Theorem C14_justV : forall s verb,
  fst (make_format s verb) = true <->
  (verb = 118 /\ st_plus s = false /\ st_minus s = false /\ st_sharp s = false /\ st_space s = false /\
   st_zero s = false /\ st_wid s = None /\ st_prec s = None).
Proof. exact make_format_justV. Qed.
Print Assumptions C14_justV.

(* (a present width of 0 can only come from a '*' operand; MakeFormat re-emits it as the '0'
   flag, which renders identically; it is left out of the product)
   the round trip on the finite product of the property: 32 flag subsets (minus '-' with '0',
   which redact's parser normalises) x widths x precisions x the ASCII letter verbs *)
Definition c14_states : list fstate :=
  flat_map (fun p => flat_map (fun m => flat_map (fun sh => flat_map (fun sp => flat_map (fun z =>
  flat_map (fun w => map (fun pr => mkSt p m sh sp z w pr)
     [None; Some 0; Some 1; Some 5; Some 3]) [None; Some 1; Some 7; Some 12; Some 1000; Some 9])
  [true; false]) [true; false]) [true; false]) [true; false]) [true; false].
Definition c14_verbs : list Z :=
  map (fun n => Z.of_nat n + 97) (seq 0 26) ++ map (fun n => Z.of_nat n + 65) (seq 0 26) ++ [233; 9731; 128721].
Definition st_eqb (a b : fstate) : bool :=
  Bool.eqb (st_plus a) (st_plus b) && Bool.eqb (st_minus a) (st_minus b) && Bool.eqb (st_sharp a) (st_sharp b)
  && Bool.eqb (st_space a) (st_space b) && Bool.eqb (st_zero a) (st_zero b)
  && oz_eqb (st_wid a) (st_wid b) && oz_eqb (st_prec a) (st_prec b).
Definition roundtrip_ok (s : fstate) (v : Z) : bool :=
  if st_minus s && st_zero s then true else
  match parse_directive (snd (make_format s v)) with
  | Some (s', v') => st_eqb s s' && (v =? v')
  | None => false
  end.

Theorem C14_roundtrip_on_the_product_partial :
  forallb (fun s => forallb (roundtrip_ok s) c14_verbs) c14_states = true.
Proof. vm_compute. reflexivity. Qed.
Print Assumptions C14_roundtrip_on_the_product_partial.
