(* C11 — Printing never fails: all inputs accepted, user-method panics contained.
   Proved on the model: every rune (negative, surrogate, beyond MaxRune) is written as a
   valid UTF-8 encoding and every Buffer call preserves the Buffer invariant (so any byte, rune
   or byte string is accepted in every reachable state); the deferred restorers hand back mode
   and override on EVERY outcome of the code they bracket, panics included, and so does every
   evaluator call (D1); a panic that leaves a nested printer cannot leave the caller's buffer
   behind (the model's nested printer returns the buffer on every outcome - the repaired
   behaviour; the correspondence compares it with the code).
   INDEX SAFETY (C11_no_slice_expression_out_of_range): on the memory-level model of buffer.go
   (BufMem.v: arrays with a capacity, checked slice expressions and indexed writes, grow /
   tryGrowByReslice / makeSlice as in the code) NO call sequence, with any payloads, runes, bytes
   and any capacity decisions of the runtime, evaluates a slice expression out of range.
   SCRATCH ARRAY OF fmtInteger (C11_integer_scratch_array_never_out_of_range): FmtMem.v models
   format.go's fmtInteger at the level of its scratch array (f.intbuf, 68 bytes, or a fresh array
   of 3 + wid + prec bytes): every "i--; buf[i] = c" is a checked write, the loops are the Go
   loops.  For EVERY 64-bit operand, base, sign, verb (O only with base 8, as fmtInteger
   dispatches it), flag subset, width and precision no index leaves the array, and the bytes
   handed to pad are exactly those of the list-level fmt_integer that the printer model (and the
   correspondence check) uses.  The octal case needs an argument: "%#.NO" has room only because
   the zero padding supplies the leading 0 that '#' would otherwise add.
   NOT a theorem: the exact shape of the PANIC= report (correspondence + black-box predicates);
   fmtUnicode has the same theorem (C11_unicode_scratch_array_never_out_of_range); fmtC, fmtQc
   and fmtFloat only append to their scratch slices (no index arithmetic). *)
From Redact Require Import Bytes Tokens Utf8 Buffer Ops BufInv LBuf Printer Api.
From Redact Require Import Utf8P BufInvP BufferThm Hoare Keeps BufMem BufMemP Fmt FmtNI FmtMem FmtMemP.
From Coq Require Import ZArith.
Import List ListNotations.

Theorem C11_every_rune_is_written_validly : forall r, valid_utf8 (encode_rune r) = true.
Proof. exact encode_rune_valid. Qed.
Print Assumptions C11_every_rune_is_written_validly.

Theorem C11_every_call_accepted_partial : forall b o, Inv b -> op_ok b o = true -> Inv (fst (step b o)).
Proof. exact buffer_inv_step. Qed.
Print Assumptions C11_every_call_accepted_partial.

Theorem C11_restorers_run_on_every_outcome : forall A (st : M restorer) (body : M A),
  start_ok st -> keeps (bracket st body).
Proof. intros A st body H. now apply keeps_bracket. Qed.
Print Assumptions C11_restorers_run_on_every_outcome.

Theorem C11_mode_and_override_survive_panics : forall fuel env c, is_inner c -> keeps (ev fuel env c).
Proof. exact keeps_ev. Qed.
Print Assumptions C11_mode_and_override_survive_panics.

Theorem C11_nested_printer_hands_the_buffer_back : forall rec c, keeps (nested rec c).
Proof. exact keeps_nested. Qed.
Print Assumptions C11_nested_printer_hands_the_buffer_back.

Theorem C11_no_slice_expression_out_of_range : forall ops h c, cinv h c ->
  exists h' c', crun h c ops = Some (h', c') /\ cabs h' c' = run_from (cabs h c) (map fst ops) /\ cinv h' c'.
Proof. exact crun_refines. Qed.
Print Assumptions C11_no_slice_expression_out_of_range.

Theorem C11_integer_scratch_array_never_out_of_range : forall f u0 base sg verb up,
  base_ok base -> (0 <= u0 < two64)%Z -> (verb = 79%Z -> base = 8%Z) -> (0 <= wid f)%Z -> (0 <= prec f)%Z ->
  fmt_integer_mem f u0 base sg verb up = Some (fmt_integer f u0 base sg verb up).
Proof. exact fmt_integer_mem_ok. Qed.
Print Assumptions C11_integer_scratch_array_never_out_of_range.

(* fmtUnicode (the other place of format.go that fills a scratch array right to left, here with the
   quoted character of %#U copied as a block): same statement.  The outer option is the index
   check, the inner one the IsPrint oracle of the list-level model. *)
Theorem C11_unicode_scratch_array_never_out_of_range : forall o f u,
  (0 <= u < two64)%Z -> (0 <= prec f)%Z -> fmt_unicode_mem o f u = Some (fmt_unicode o f u).
Proof. exact fmt_unicode_mem_ok. Qed.
Print Assumptions C11_unicode_scratch_array_never_out_of_range.

(* Non-vacuity: "%#+b" of MaxUint64 fills 67 of the 68 bytes; "%+#070.0b"-like settings enlarge the
   array; and the error value is real: were 'O' ever paired with base 2 (it is not: fmtInteger
   passes 8), "0b" + "0o" + sign + 64 digits would not fit and the model reports the overrun. *)
Example C11_scratch_nonvacuous :
  let fl0 := mkFlags false false false true true false false false false in
  let f := mkF fl0 0 0 in
  scratch_len f = 68%Z /\
  fmt_integer_mem f (two64 - 1) 2 false 98 false = Some (fmt_integer f (two64 - 1) 2 false 98 false) /\
  fmt_integer_mem f (two64 - 1) 2 false 79 false = None /\
  (let g := mkF (mkFlags true true false true true false true false false) 80 75 in
   scratch_len g = 158%Z /\ fmt_integer_mem g 5 8 true 79 false = Some (fmt_integer g 5 8 true 79 false)) /\
  (* "%#.60U" of U+1F600 with IsPrint = true: 2 + 60 + 2 + 4 + 1 = 69 bytes, all used *)
  (let h := mkF (mkFlags false true false false true false false false false) 0 60 in
   let o := [(KIsPrint 128512, [49%N])] in
   uscratch_len h = 69%Z /\ fmt_unicode_mem o h 128512 = Some (fmt_unicode o h 128512) /\ fmt_unicode o h 128512 <> None).
Proof. vm_compute. repeat split; try reflexivity. discriminate. Qed.

(* Non-vacuity: an invalid rune in an open envelope; a Stringer whose String panics while the
   operand is printed: the text before and after is intact and the payload is enveloped. *)
Example C11_nonvacuous :
  Inv (run [OWrite [97]%N; OWriteRune (-1)%Z; OWriteRune 55296%Z; OWriteRune 1114112%Z]) /\
  (let t := mkT [85]%N false false in
   let x := VUser t (mkI false false false false false true) false (VStruct t [])
              [APanic (VStr (mkT [] false false) [98;111;111;109]%N)] in
   match Api.sprintf 20 (mkEnv [] None) [60;37;118;62]%N [x] with
   | ROk o => Api.o_bytes o = ([60] ++ [37;33;118;40;80;65;78;73;67;61;83;116;114;105;110;103;32;109;101;116;104;111;100;58;32]
                              ++ [226;128;185;98;111;111;109;226;128;186;41] ++ [62])%N
   | _ => False
   end).
Proof. vm_compute. split; reflexivity. Qed.
