(* C05 — Exactly the unsafe arguments are enveloped; declared-safe data stays visible.
   Proved: (1) for every history / every entry point, the output with envelopes deleted is the
   concatenation of the payloads written in safe mode, the line feeds of the payloads written in
   unsafe mode and the safe text of raw payloads; (2) D1: every evaluator call other than
   doPrint/doPrintf hands back the mode and the override it found, on every outcome; (3) the
   operands Safe(x) / Unsafe(x) are bracketed by SetMode(safe/unsafe) ... SetMode(previous) with no
   switch to unsafe mode (resp. only unsafe writes) in between.  That each leaf which is not
   declared safe is written in unsafe mode by the (kind, verb) arm concerned is decided by the
   correspondence and the black-box predicate (_partial). *)
From Redact Require Import Bytes Tokens Utf8 Markers Buffer Ops BufInv BufContent LBuf Printer Api.
From Redact Require Import BufContentP ApiP Hoare Discipline Keeps.
Import List ListNotations.

Theorem C05_text_outside_envelopes_partial : forall fuel env f a o,
  (sprintf fuel env f a = ROk o \/ sprint fuel env a = ROk o) ->
  exists ops, o_log o = ops ++ [OTake] /\
    (rawok ops = true -> content_ok ops = true -> del_env (lex (o_bytes o)) = spec_safe ops).
Proof.
  intros fuel env f a o [H|H]; destruct (finish_content _ o H) as (ops & Hl & Hc);
    exists ops; (split; [exact Hl|]); intros Hr Hk; exact (proj2 (Hc Hr Hk)).
Qed.
Print Assumptions C05_text_outside_envelopes_partial.

Theorem C05_restorers : forall fuel env c, is_inner c -> keeps (ev fuel env c).
Proof. exact keeps_ev. Qed.
Print Assumptions C05_restorers.

Theorem C05_safe_operand : forall fuel env x msg verb s,
  povr s = NoOvr ->
  let s' := snd (printArg (ev fuel env) env (VSafe x msg) verb s) in
  povr s' = NoOvr /\
  exists d, Forall op_s d /\ rlog (pl s') = OMode (lmode (pl s)) :: d ++ OMode MSafe :: rlog (pl s).
Proof. exact safe_operand. Qed.
Print Assumptions C05_safe_operand.

Theorem C05_unsafe_operand : forall fuel env x verb s,
  povr s = NoOvr ->
  let s' := snd (printArg (ev fuel env) env (VUnsafe x) verb s) in
  povr s' = NoOvr /\
  exists d, Forall op_u d /\ rlog (pl s') = OMode (lmode (pl s)) :: d ++ OMode MUnsafe :: rlog (pl s).
Proof. exact unsafe_operand. Qed.
Print Assumptions C05_unsafe_operand.

Example C05_nonvacuous :
  let ops := [OMode MSafe; OWrite [120; 61]; OMode MUnsafe; OWrite [115; 10; 116]; OMode MSafe; OWrite [33]]%N in
  rawok ops = true /\ content_ok ops = true /\ unlex (spec_safe ops) = [120; 61; 10; 33]%N
  /\ del_env_b (output ops) = [120; 61; 10; 33]%N.
Proof. vm_compute. repeat split. Qed.
