(* C05 — Exactly the unsafe arguments are enveloped; declared-safe data stays visible.
   Proved: (1) for every history / every entry point, the output with envelopes deleted is the
   concatenation of the payloads written in safe mode, the line feeds of the payloads written in
   unsafe mode and the safe text of raw payloads; (2) D1: every evaluator call other than
   doPrint/doPrintf hands back the mode and the override it found, on every outcome; (3) the
   operands Safe(x) / Unsafe(x) are bracketed by SetMode(safe/unsafe) ... SetMode(previous) with no
   switch to unsafe mode (resp. only unsafe writes) in between; (4) D4, per leaf: an operand of a
   basic kind (bool, integer, float, string; named or unnamed type) that is not declared safe,
   printed with a verb valid for its kind under any flags, width and precision, at top level or
   as an element of a container, is rendered ENTIRELY between SetMode(unsafe) and
   SetMode(previous) - sign, padding, quotes and prefixes included; (5) an operand whose type is a
   SafeValue or registered, whatever it contains, is rendered between SetMode(safe) and
   SetMode(previous) with no switch to unsafe mode in between.  That the punctuation and type
   names of containers and the bad-verb reports are written outside unsafe brackets is decided by
   the correspondence and the black-box predicate (_partial). *)
From Redact Require Import Bytes Tokens Utf8 Markers Buffer Ops BufInv BufContent LBuf Printer Api.
From Redact Require Import BufContentP ApiP Hoare Discipline Keeps LeafP TokensP MarkersP RedactNI SegNI FmtNI LeafNI.
Import List ListNotations.

Theorem C05_text_outside_envelopes_partial : forall fuel env f a o,
  (sprintf fuel env f a = ROk o \/ sprint fuel env a = ROk o) ->
  exists ops, o_log o = ops ++ [OTake] /\
    (rawok ops = true -> content_ok ops = true -> del_env (lex (o_bytes o)) = spec_safe ops).
Proof.
  intros fuel env f a o [H|H]; destruct (finish_content _ o H) as (ops & Hl & Hc);
    exists ops; (split; [exact Hl|]); intros Hr Hk; exact (proj2 (Hc Hr Hk)).
Qed.
Print Assumptions C05_text_outside_envelopes_partial.

Theorem C05_restorers : forall fuel env c, is_inner c -> keeps (ev fuel env c).
Proof. exact keeps_ev. Qed.
Print Assumptions C05_restorers.

Theorem C05_safe_operand : forall fuel env x msg verb s,
  povr s = NoOvr ->
  let s' := snd (printArg (ev fuel env) env (VSafe x msg) verb s) in
  povr s' = NoOvr /\
  exists d, Forall op_s d /\ rlog (pl s') = OMode (lmode (pl s)) :: d ++ OMode MSafe :: rlog (pl s).
Proof. exact safe_operand. Qed.
Print Assumptions C05_safe_operand.

Theorem C05_unsafe_operand : forall fuel env x verb s,
  povr s = NoOvr ->
  let s' := snd (printArg (ev fuel env) env (VUnsafe x) verb s) in
  povr s' = NoOvr /\
  exists d, Forall op_u d /\ rlog (pl s') = OMode (lmode (pl s)) :: d ++ OMode MUnsafe :: rlog (pl s).
Proof. exact unsafe_operand. Qed.
Print Assumptions C05_unsafe_operand.

Theorem C05_unsafe_leaf_operand : forall fuel env v verb s,
  leaf_verb_ok v verb = true -> is_safe_value v = false -> is_registered v = false ->
  povr s = NoOvr ->
  let s' := snd (ev (S (S fuel)) env (CPrintArg v verb) s) in
  povr s' = NoOvr /\
  exists d, Forall is_write d /\ rlog (pl s') = OMode (lmode (pl s)) :: d ++ OMode MUnsafe :: rlog (pl s).
Proof. exact unsafe_leaf_operand. Qed.
Print Assumptions C05_unsafe_leaf_operand.

Theorem C05_unsafe_leaf_element : forall fuel env v verb depth ci s,
  leaf_verb_ok v verb = true -> is_safe_value v = false -> is_registered v = false ->
  povr s = NoOvr ->
  let s' := snd (ev (S (S fuel)) env (CPrintValue v verb (S depth) ci) s) in
  povr s' = NoOvr /\
  exists d, Forall is_write d /\ rlog (pl s') = OMode (lmode (pl s)) :: d ++ OMode MUnsafe :: rlog (pl s).
Proof. exact unsafe_leaf_element. Qed.
Print Assumptions C05_unsafe_leaf_element.

Theorem C05_declared_safe_operand : forall fuel env v verb s,
  (is_registered v || is_safe_value v) = true ->
  (forall x m, v <> VSafe x m) -> (forall x, v <> VUnsafe x) ->
  povr s = NoOvr ->
  let s' := snd (printArg (ev fuel env) env v verb s) in
  povr s' = NoOvr /\
  exists d, Forall op_s d /\ rlog (pl s') = OMode (lmode (pl s)) :: d ++ OMode MSafe :: rlog (pl s).
Proof. exact declared_safe_operand. Qed.
Print Assumptions C05_declared_safe_operand.

(* the same for a SafeValue / registered value held in an interface-typed slice or array element
   or map value, at any depth, whatever method renders it (after the repair of the registry
   look-up on the dynamic type: before it the statement was false of the model for registered
   types with a String/Error/Format method, and the implementation agreed with the model) *)
Theorem C05_declared_safe_element : forall fuel env tn d verb depth s,
  (is_registered d || is_safe_value d) = true ->
  povr s = NoOvr ->
  let s' := snd (ev (S (S fuel)) env (CPrintValue (VIface tn (Some d)) verb (S depth) true) s) in
  povr s' = NoOvr /\
  exists l, Forall op_s l /\ rlog (pl s') = OMode (lmode (pl s)) :: l ++ OMode MSafe :: rlog (pl s).
Proof. exact declared_safe_element. Qed.
Print Assumptions C05_declared_safe_element.

(* The text outside the envelopes does not depend on the unsafe operands: for leaf operands
   related as in C02 (same format, unsafe integers/strings/bools differing), the two outputs have
   the same text outside envelopes - literals, diagnostics, type names, declared-safe operands. *)
Theorem C05_sprintf_leaf_safe_text_is_public : forall fuel env f a1 a2 o1 o2,
  osane (orc env) -> hook_ok env -> no_star f = true -> Forall2 lrel a1 a2 ->
  sprintf fuel env f a1 = ROk o1 -> sprintf fuel env f a2 = ROk o2 ->
  forall ops1 ops2, o_log o1 = ops1 ++ [OTake] -> o_log o2 = ops2 ++ [OTake] ->
  rawok (o_log o1) = true -> rawok (o_log o2) = true ->
  ptail_ok_from init ops1 = true -> ptail_ok_from init ops2 = true ->
  del_env (lex (o_bytes o1)) = del_env (lex (o_bytes o2)).
Proof.
  intros fuel env f a1 a2 o1 o2 Ho Hhk Hns Ha H1 H2 ops1 ops2 E1 E2 R1 R2 T1 T2.
  assert (forall o, Redactable (o_bytes o) -> wf (lex (o_bytes o)) = true) as Hwf
    by (intros o Hr; unfold Redactable, redactableb in Hr; apply andb_prop in Hr; exact (proj1 Hr)).
  pose proof (Hwf o1 (proj1 (sprintf_redactable fuel env f a1 o1 H1 R1))) as W1.
  pose proof (Hwf o2 (proj1 (sprintf_redactable fuel env f a2 o2 H2 R2))) as W2.
  assert (rawok ops1 = true) as R1'.
  { rewrite E1 in R1. unfold rawok in *. clear - R1. revert R1. generalize init. induction ops1 as [|o r IH]; intros b H; [reflexivity|].
    cbn [app rawok_from] in *. apply andb_prop in H. destruct H as [Ha Hb]. rewrite Ha. cbn [andb]. now apply IH. }
  pose proof (sprintf_leaf_noninterference fuel env f a1 a2 o1 o2 Ho Hhk Hns Ha H1 H2 ops1 ops2 E1 E2 R1' T1 T2) as E.
  rewrite <- (redact_tok_del_env _ W1), <- (redact_tok_del_env _ W2), <- (lex_redact_b _ W1), <- (lex_redact_b _ W2). now rewrite E.
Qed.
Print Assumptions C05_sprintf_leaf_safe_text_is_public.

(* ... and for trees of slices, arrays, structs, maps and interface slots over such leaves:
   punctuation, field names and type names are public, every unsafe leaf is enveloped *)
Theorem C05_sprintf_tree_safe_text_is_public : forall fuel env f a1 a2 o1 o2,
  osane (orc env) -> hook_ok env -> star_ok f a1 a2 -> Forall2 arel a1 a2 ->
  sprintf fuel env f a1 = ROk o1 -> sprintf fuel env f a2 = ROk o2 ->
  forall ops1 ops2, o_log o1 = ops1 ++ [OTake] -> o_log o2 = ops2 ++ [OTake] ->
  rawok (o_log o1) = true -> rawok (o_log o2) = true ->
  ptail_ok_from init ops1 = true -> ptail_ok_from init ops2 = true ->
  del_env (lex (o_bytes o1)) = del_env (lex (o_bytes o2)).
Proof.
  intros fuel env f a1 a2 o1 o2 Ho Hhk Hns Ha H1 H2 ops1 ops2 E1 E2 R1 R2 T1 T2.
  assert (forall o, Redactable (o_bytes o) -> wf (lex (o_bytes o)) = true) as Hwf
    by (intros o Hr; unfold Redactable, redactableb in Hr; apply andb_prop in Hr; exact (proj1 Hr)).
  pose proof (Hwf o1 (proj1 (sprintf_redactable fuel env f a1 o1 H1 R1))) as W1.
  pose proof (Hwf o2 (proj1 (sprintf_redactable fuel env f a2 o2 H2 R2))) as W2.
  assert (rawok ops1 = true) as R1'.
  { rewrite E1 in R1. unfold rawok in *. clear - R1. revert R1. generalize init. induction ops1 as [|o r IH]; intros b H; [reflexivity|].
    cbn [app rawok_from] in *. apply andb_prop in H. destruct H as [Ha Hb]. rewrite Ha. cbn [andb]. now apply IH. }
  pose proof (sprintf_tree_noninterference fuel env f a1 a2 o1 o2 Ho Hhk Hns Ha H1 H2 ops1 ops2 E1 E2 R1' T1 T2) as E.
  rewrite <- (redact_tok_del_env _ W1), <- (redact_tok_del_env _ W2), <- (lex_redact_b _ W1), <- (lex_redact_b _ W2). now rewrite E.
Qed.
Print Assumptions C05_sprintf_tree_safe_text_is_public.

(* Non-vacuity of D4: "%+08.3d" applied to an int of a named type, and "%q" to a string with a
   marker and a line feed inside []interface{}: the whole rendering is inside envelopes. *)
Example C05_leaf_nonvacuous :
  let ti := mkT [109;97;105;110;46;73]%N false false in
  leaf_verb_ok (VInt ti 42%Z) 100%Z = true /\
  match Api.sprintf 20 (mkEnv [] None) [120;61;37;43;48;56;46;51;100;33]%N [VInt ti 42%Z] with
  | ROk o => del_env_b (Api.o_bytes o) = [120;61;33]%N /\ n_env (lex (Api.o_bytes o)) = 1%nat
  | _ => False
  end.
Proof. vm_compute. repeat split. Qed.

Example C05_nonvacuous :
  let ops := [OMode MSafe; OWrite [120; 61]; OMode MUnsafe; OWrite [115; 10; 116]; OMode MSafe; OWrite [33]]%N in
  rawok ops = true /\ content_ok ops = true /\ unlex (spec_safe ops) = [120; 61; 10; 33]%N
  /\ del_env_b (output ops) = [120; 61; 10; 33]%N.
Proof. vm_compute. repeat split. Qed.
