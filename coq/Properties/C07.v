(* C07 — Redact and StripMarkers are exact, idempotent projections.
   Statements about the token/byte-level models of internal/markers
   (Markers.v); the models are tied to the Go code by the exhaustive
   correspondence run of ./check C07. *)
From Redact Require Import Bytes Tokens Markers TokensP MarkersP.

(* On every well-formed redactable string, Redact yields a well-formed,
   line-safe string ... *)
Theorem C07_redact_wf : forall s, wf (lex s) = true ->
  wf (lex (redact_b s)) = true /\ linesafe (lex (redact_b s)) = true.
Proof.
  intros s H. rewrite lex_redact_b by exact H.
  split; [exact (redact_tok_wf _ H) | exact (redact_tok_linesafe _ H)].
Qed.
Print Assumptions C07_redact_wf.

(* ... with the same safe text in the same order and the same number of envelopes ... *)
Theorem C07_redact_safe_text : forall s, wf (lex s) = true ->
  del_env (lex (redact_b s)) = del_env (lex s) /\ n_env (lex (redact_b s)) = n_env (lex s).
Proof.
  intros s H. rewrite lex_redact_b by exact H.
  split; [exact (redact_tok_del_env _ H) | exact (redact_tok_n_env _ H)].
Qed.
Print Assumptions C07_redact_safe_text.

(* ... whose envelopes contain only the bytes of the cross (no byte of any
   envelope's content survives) ... *)
Theorem C07_redact_content : forall s, wf (lex s) = true ->
  forallb (fun t => match t with TB x => orb (N.eqb x 195) (N.eqb x 151) | _ => false end)
          (env_content_aux false (lex (redact_b s))) = true.
Proof.
  intros s H. rewrite lex_redact_b by exact H. unfold redact_tok.
  rewrite (proj1 (redact_aux_s (lex s)) H). exact (env_content_redact_s _ false).
Qed.
Print Assumptions C07_redact_content.

(* ... and redacting again changes nothing. *)
Theorem C07_redact_idempotent : forall s, wf (lex s) = true -> redact_b (redact_b s) = redact_b s.
Proof. exact redact_b_idem_wf. Qed.
Print Assumptions C07_redact_idempotent.

(* StripMarkers removes exactly the delimiters (by definition of strip_b:
   unlex (filter non-marker (lex s))), and leaves no marker whenever no marker
   of s is glued to a proper marker prefix. *)
Theorem C07_strip_exact : forall s, strip_b s = unlex (strip_tok (lex s)).
Proof. reflexivity. Qed.
Print Assumptions C07_strip_exact.

Theorem C07_strip_no_marker : forall s,
  canonical (strip_tok (lex s)) = true -> no_marker (lex (strip_b s)) = true.
Proof. exact strip_b_no_marker. Qed.
Print Assumptions C07_strip_no_marker.

(* The unrestricted claim "StripMarkers leaves no marker on arbitrary strings"
   is false of the model, and of the code (known finding C07-strip-reassembly). *)
Theorem C07_strip_arbitrary_refuted : exists s, no_marker (lex (strip_b s)) = false.
Proof. exact strip_arbitrary_refuted. Qed.
Print Assumptions C07_strip_arbitrary_refuted.

(* Non-vacuity: a well-formed string with two envelopes, a line feed and a
   cross inside an envelope. *)
Example C07_nonvacuous :
  let s := [97; 226;128;185; 98; 195;151; 226;128;186; 10; 226;128;185; 99; 226;128;186]%N in
  wf (lex s) = true /\ redact_b s <> s /\ n_env (lex s) = 2%nat.
Proof. vm_compute. repeat split; congruence. Qed.
