(* C16 — All entry points agree on what a given argument list prints as.
   Proved on the model: Fprint(f) is Sprint(f) (one evaluator, the bytes are handed over once);
   StringBuilder.Print(f) yields exactly the bytes of Sprint(f) (the inner printer's result is
   written in raw mode, which neither escapes nor envelopes).  SafePrinter.Print(f) inside Sprintfn yields exactly
   the bytes of Sprint(f) (C16_sprintfn_print_is_sprint).  The route through a SafeFormat method
   runs the same doPrint(f) on the caller's buffer and hands the mode back (D1); its equality
   with Sprint(f) up to merging of adjacent envelopes is decided by the correspondence and the
   black-box predicate, as are the single Write
   and the (n, err) pass-through of the F variants (glue outside the model). *)
From Redact Require Import Bytes Tokens Utf8 Buffer Ops BufInv LBuf Printer Api Forward.
From Redact Require Import RoutesP Hoare Keeps NestedRouteP.
Import List ListNotations.

Theorem C16_fprint_is_sprint : fprint = sprint /\ fprintf = sprintf.
Proof. exact fprint_is_sprint. Qed.
Print Assumptions C16_fprint_is_sprint.

Theorem C16_builder_print : forall fuel env a o o',
  sprint fuel env a = ROk o' -> builder fuel env [APrint a] = ROk o -> o_bytes o = o_bytes o'.
Proof. exact builder_print_route. Qed.
Print Assumptions C16_builder_print.

Theorem C16_builder_printf : forall fuel env f a o o',
  sprintf fuel env f a = ROk o' -> builder fuel env [APrintf f a] = ROk o -> o_bytes o = o_bytes o'.
Proof. exact builder_printf_route. Qed.
Print Assumptions C16_builder_printf.

Theorem C16_nested_route_hands_mode_back_partial : forall rec c, keeps (nested rec c).
Proof. exact keeps_nested. Qed.
Print Assumptions C16_nested_route_hands_mode_back_partial.

(* The nested-printer route inside Sprintfn: the same bytes as Sprint(f) - the Buffer history is
   Sprint(f)'s with one more SetMode before the final Take - whenever Sprint(f)'s text does not
   end inside a UTF-8 sequence. *)
Theorem C16_sprintfn_print_is_sprint : forall k env a o o',
  sprint (S k) env a = ROk o' -> sprintfn (S (S k)) env [APrint a] = ROk o ->
  rawok (o_log o') = true -> last_invalid (o_bytes o') = false ->
  o_bytes o = o_bytes o' /\ o_log o = removelast (o_log o') ++ [OMode MUnsafe; OTake].
Proof. exact sprintfn_print_route. Qed.
Print Assumptions C16_sprintfn_print_is_sprint.

Theorem C16_sprintfn_printf_is_sprintf : forall k env f a o o',
  sprintf (S k) env f a = ROk o' -> sprintfn (S (S k)) env [APrintf f a] = ROk o ->
  rawok (o_log o') = true -> last_invalid (o_bytes o') = false ->
  o_bytes o = o_bytes o' /\ o_log o = removelast (o_log o') ++ [OMode MUnsafe; OTake].
Proof. exact sprintfn_printf_route. Qed.
Print Assumptions C16_sprintfn_printf_is_sprintf.

Example C16_nonvacuous :
  let a := [VStr (mkT [] false false) [97]%N; VInt (mkT [105;110;116]%N false false) 7%Z] in
  match sprint 20 (mkEnv [] None) a, builder 20 (mkEnv [] None) [APrint a], sprintfn 20 (mkEnv [] None) [APrint a] with
  | ROk o1, ROk o2, ROk o3 => o_bytes o1 = o_bytes o2 /\ o_bytes o1 = o_bytes o3 /\ o_bytes o1 <> []
  | _, _, _ => False
  end.
Proof. vm_compute. repeat split; congruence. Qed.
