(* C10 — Escaping removes every marker from arbitrary bytes and nothing else.
   (First part: EscapeMarkers; the EscapeBytes / scanner part is added with
   EscapeP.v / RenderP.v.) *)
From Redact Require Import Bytes Tokens Markers TokensP MarkersP.

Theorem C10_markers_spec : forall b, escape_markers_b b = unlex (map esc_tok (lex b)).
Proof. reflexivity. Qed.
Print Assumptions C10_markers_spec.

Theorem C10_markers_none_left : forall b,
  lex (escape_markers_b b) = map esc_tok (lex b) /\ no_marker (lex (escape_markers_b b)) = true.
Proof. intros b. split; [exact (lex_escape_markers b) | exact (escape_markers_no_marker b)]. Qed.
Print Assumptions C10_markers_none_left.

Theorem C10_markers_idempotent : forall b, escape_markers_b (escape_markers_b b) = escape_markers_b b.
Proof. exact escape_markers_idem. Qed.
Print Assumptions C10_markers_idempotent.

Theorem C10_markers_identity_without_markers : forall b,
  no_marker (lex b) = true -> escape_markers_b b = b.
Proof. exact escape_markers_id. Qed.
Print Assumptions C10_markers_identity_without_markers.
