(* C10 — Escaping removes every marker from arbitrary bytes and nothing else. *)
From Redact Require Import Bytes Tokens Utf8 Markers Escape EscSpec Buffer Ops BufInv BufContent.
From Redact Require Import TokensP MarkersP EscapeP Utf8P BufInvP BufContentP EscBytesP.
Import List ListNotations.

(* EscapeMarkers *)
Theorem C10_markers_spec : forall b, escape_markers_b b = unlex (map esc_tok (lex b)).
Proof. reflexivity. Qed.
Print Assumptions C10_markers_spec.

Theorem C10_markers_none_left : forall b,
  lex (escape_markers_b b) = map esc_tok (lex b) /\ no_marker (lex (escape_markers_b b)) = true.
Proof. intros b. split; [exact (lex_escape_markers b) | exact (escape_markers_no_marker b)]. Qed.
Print Assumptions C10_markers_none_left.

Theorem C10_markers_idempotent : forall b, escape_markers_b (escape_markers_b b) = escape_markers_b b.
Proof. exact escape_markers_idem. Qed.
Print Assumptions C10_markers_idempotent.

Theorem C10_markers_identity_without_markers : forall b,
  no_marker (lex b) = true -> escape_markers_b b = b.
Proof. exact escape_markers_id. Qed.
Print Assumptions C10_markers_identity_without_markers.

(* The scanner of internal/escape (literal model of the loop: indices, look-ahead, copy on
   write) computes the list-level specification, for every prefix offset and both
   line-splitting settings. *)
Theorem C10_scanner_is_its_specification : forall bnl v p,
  escape (v ++ p) (length v) bnl false = esc_spec bnl v p.
Proof. exact escape_spec. Qed.
Print Assumptions C10_scanner_is_its_specification.

(* EscapeBytes: well-formed, line-safe; stripped = the escaped payload (+ one '?' exactly when
   the scanner finds a dangling tail); redacted = redacted markers and the line feeds of b. *)
Theorem C10_escape_bytes_redactable : forall b,
  Redactable (escape_bytes b) /\ linesafe (lex (escape_bytes b)) = true.
Proof. exact escape_bytes_redactable. Qed.
Print Assumptions C10_escape_bytes_redactable.

Theorem C10_escape_bytes_content : forall b,
  strip_tok (lex (escape_bytes b)) =
    escm_tok (lex b) ++ (if last_invalid (startB ++ b) then [TB 63%N] else []) /\
  del_env (lex (escape_bytes b)) = lf_toks (lex b).
Proof. exact escape_bytes_content. Qed.
Print Assumptions C10_escape_bytes_content.

Theorem C10_escape_bytes_redacted : forall b,
  del_env (lex (redact_b (escape_bytes b))) = lf_toks (lex b) /\
  forallb (fun t => match t with TB x => orb (N.eqb x 195) (N.eqb x 151) | _ => false end)
          (env_content_aux false (lex (redact_b (escape_bytes b)))) = true.
Proof. exact escape_bytes_redacted. Qed.
Print Assumptions C10_escape_bytes_redacted.

(* the '?' clause: required after a truncated sequence that could start a marker, absent
   after valid UTF-8 *)
Theorem C10_dangling_mark : forall v p : bytes,
  (pstb 0 (v ++ p) <> 0%N -> last_invalid (v ++ p) = true) /\
  (valid_utf8 p = true -> p <> [] -> last_invalid (v ++ p) = false).
Proof.
  intros v p. split; [apply partial_tail_invalid | apply valid_suffix_last_valid].
Qed.
Print Assumptions C10_dangling_mark.

(* insensitive to how a payload is split over successive writes in the same mode *)
Theorem C10_split_insensitive : forall b p1 p2, write (write b p1) p2 = write b (p1 ++ p2).
Proof. exact write_split. Qed.
Print Assumptions C10_split_insensitive.

Example C10_nonvacuous :
  let b := [97; 226;128;185; 10; 10; 226;128;186; 98; 226; 128]%N in
  escape_markers_b b = [97; 63; 10; 10; 63; 98; 226; 128]%N /\
  strip_b (escape_bytes b) = [97; 63; 10; 10; 63; 98; 226; 128; 63]%N /\
  redact_b (escape_bytes b) = [226;128;185;195;151;226;128;186; 10; 10; 226;128;185;195;151;226;128;186]%N.
Proof. vm_compute. repeat split. Qed.
