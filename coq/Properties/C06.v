(* C06 — Unsafe(x) envelopes all of x; Safe(x) envelopes none; outermost wins.
   For every value x (containers, SafeValues, registered types, nested wrappers, redactable
   strings, user methods that call back into the printer through Print/Printf/Safe*/Unsafe*/
   Write, the error hook), every verb, every flag, every fuel:
   D2: while the override is Unsafe the buffer stays in unsafe mode and only writes and
       SetMode(unsafe) reach it - in nested printers too (they inherit the override and do not
       switch to safe mode for literals);
   D3: while the override is Safe no call switches to unsafe mode;
   the operand Unsafe(x) / Safe(x) is exactly such a segment between SetMode(unsafe/safe) and
   SetMode(previous), and an unsafe segment contributes only line feeds to the text outside
   envelopes.  Outermost wins: start*Override does nothing when an override is active (this is
   how D2/D3 are invariants).  That the characters are those fmt prints is C04's matter. *)
From Redact Require Import Bytes Tokens Utf8 Markers Buffer Ops BufInv BufContent LBuf Printer Api.
From Redact Require Import Hoare Discipline.
Import List ListNotations.

Theorem C06_under_unsafe_everything_is_unsafe : forall fuel env c s,
  povr s = OvrUnsafe -> lmode (pl s) = MUnsafe ->
  let s' := snd (ev fuel env c s) in
  povr s' = OvrUnsafe /\ lmode (pl s') = MUnsafe /\ ext op_u (pl s) (pl s').
Proof. exact D2. Qed.
Print Assumptions C06_under_unsafe_everything_is_unsafe.

Theorem C06_under_safe_nothing_is_unsafe : forall fuel env c s,
  povr s = OvrSafe -> lmode (pl s) <> MUnsafe ->
  let s' := snd (ev fuel env c s) in
  povr s' = OvrSafe /\ lmode (pl s') <> MUnsafe /\ ext op_s (pl s) (pl s').
Proof. exact D3. Qed.
Print Assumptions C06_under_safe_nothing_is_unsafe.

Theorem C06_unsafe_operand : forall fuel env x verb s,
  povr s = NoOvr ->
  let s' := snd (printArg (ev fuel env) env (VUnsafe x) verb s) in
  povr s' = NoOvr /\
  exists d, Forall op_u d /\ rlog (pl s') = OMode (lmode (pl s)) :: d ++ OMode MUnsafe :: rlog (pl s).
Proof. exact unsafe_operand. Qed.
Print Assumptions C06_unsafe_operand.

Theorem C06_safe_operand : forall fuel env x msg verb s,
  povr s = NoOvr ->
  let s' := snd (printArg (ev fuel env) env (VSafe x msg) verb s) in
  povr s' = NoOvr /\
  exists d, Forall op_s d /\ rlog (pl s') = OMode (lmode (pl s)) :: d ++ OMode MSafe :: rlog (pl s).
Proof. exact safe_operand. Qed.
Print Assumptions C06_safe_operand.

Theorem C06_unsafe_segment_only_line_feeds : forall d, Forall op_u d -> forall acc,
  exists L, all_lf L /\
    forall rest, spec_from safe_contrib MUnsafe acc (d ++ rest) = spec_from safe_contrib MUnsafe (acc ++ L) rest.
Proof. exact unsafe_segment_safe_text. Qed.
Print Assumptions C06_unsafe_segment_only_line_feeds.

(* Non-vacuity: the evaluator run on Unsafe(x) where x is a SafeFormatter that calls
   Print(Safe("LEAK")) and Printf("lit %v", Safe 1) on the SafePrinter: one envelope, nothing outside. *)
Example C06_nonvacuous :
  let t := mkT [85]%N false false in
  let x := VUser t (mkI true false false false false false) false (VStruct t [])
             [APrint [VSafe (VStr (mkT [] false false) [76;69;65;75]%N) [76;69;65;75]%N];
              APrintf [108;105;116;32;37;118]%N [VSafe (VInt (mkT [105;110;116]%N false false) 1%Z) [49]%N]] in
  match Api.sprint 20 (mkEnv [] None) [VUnsafe x] with
  | ROk o => del_env_b (Api.o_bytes o) = [] /\ n_env (lex (Api.o_bytes o)) = 1%nat
  | _ => False
  end.
Proof. vm_compute. split; reflexivity. Qed.
