(* C03 — no envelope spans a line break. *)
From Redact Require Import Bytes Tokens Utf8 Buffer Ops BufInv LBuf Printer Api BufferThm ApiP.
Import List ListNotations.

Theorem C03_buffer : forall ops, rawok ops = true -> linesafe (lex (output ops)) = true.
Proof. intros ops H. exact (proj2 (buffer_output_ok ops H)). Qed.
Print Assumptions C03_buffer.

Theorem C03_buffer_observations : forall ops o r, rawok (ops ++ [o]) = true ->
  (o = ORS \/ o = ORB \/ o = OTake) -> snd (step (run ops) o) = ObR r -> linesafe (lex r) = true.
Proof. intros ops o r H Ho Hs. exact (proj2 (buffer_observations_ok ops o r H Ho Hs)). Qed.
Print Assumptions C03_buffer_observations.

Theorem C03_api : forall fuel env f a o,
  (sprintf fuel env f a = ROk o \/ sprint fuel env a = ROk o \/ errorf fuel env f a = ROk o) ->
  rawok (o_log o) = true -> linesafe (lex (o_bytes o)) = true.
Proof.
  intros fuel env f a o [H|[H|H]] Hr.
  - exact (proj2 (sprintf_redactable fuel env f a o H Hr)).
  - exact (proj2 (sprint_redactable fuel env a o H Hr)).
  - exact (proj2 (errorf_redactable fuel env f a o H Hr)).
Qed.
Print Assumptions C03_api.

Theorem C03_sprintfn_builder : forall fuel env acts o,
  (sprintfn fuel env acts = ROk o \/ builder fuel env acts = ROk o) ->
  rawok (o_log o) = true -> linesafe (lex (o_bytes o)) = true.
Proof.
  intros fuel env acts o [H|H] Hr.
  - exact (proj2 (sprintfn_redactable fuel env acts o H Hr)).
  - exact (proj2 (builder_redactable fuel env acts o H Hr)).
Qed.
Print Assumptions C03_sprintfn_builder.

Example C03_nonvacuous :
  let ops := [OWrite [10; 97; 10; 10; 98; 10]; OMode MSafe; OWrite [10]; OMode MUnsafe; OWrite [32; 10]]%N in
  rawok ops = true /\ linesafe (lex (output ops)) = true /\ n_env (lex (output ops)) = 3%nat.
Proof. vm_compute. repeat split. Qed.
