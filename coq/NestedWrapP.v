(* %w and nested printers (printer_adapter.go: pp.Print / pp.Printf create the nested printer
   with newPrinter's cleared wrapErrs / wrappedErr and hand back only the buffer):
   the enclosing printer's %w bookkeeping is untouched by ANY nested call, whatever its value,
   and the nested printer starts - and, by pw, stays - in a state in which every %w that
   reaches the method dispatch is reported as a bad verb. *)
From Redact Require Import Bytes Tokens Utf8 Buffer Ops BufInv LBuf Printer Api WrapP.
Import List ListNotations.
Open Scope Z_scope.

Theorem nested_keeps_capture rec c s :
  wrapErrs (snd (nested rec c s)) = wrapErrs s /\ wrappedErr (snd (nested rec c s)) = wrappedErr s.
Proof.
  unfold nested, bind, get_mode.
  destruct (rec c (fresh_pp (pl s) (povr s))) as [o ns'].
  unfold set_mode_m, bind, bop.
  destruct (l_step (pl (set_pl s (pl ns'))) (OMode (bmode (lb (pl s))))) as [l' ob].
  cbn [ret snd]. destruct o; cbn [snd]; destruct s; split; reflexivity.
Qed.

Theorem nested_starts_without_w l o : NW (fresh_pp l o).
Proof. split; reflexivity. Qed.

(* in a state without the permission, a %w that reaches the dispatch is a bad verb, whatever
   the operand is - an error value included *)
Theorem w_without_permission_is_bad_verb rec env s a :
  NW s -> erroring s = false -> parg s = Some a ->
  handleMethods rec env 119 s =
  (modify (fun s => set_wrapErrs (set_wrappedErr s None) false) ;;; rec (CBadVerb 119) ;;; ret true) s.
Proof.
  intros [Hw _] He Ha. apply (w_misuse_is_bad_verb rec env s a He Ha). right. left. exact Hw.
Qed.

(* the whole nested call, run by any evaluator that keeps NW (the real one does: ev_pw), ends
   with the nested printer still without a capture: nothing can flow back *)
Theorem nested_run_never_captures rec c l o : rec_pw rec -> NW (snd (rec c (fresh_pp l o))).
Proof. intros H. apply H. apply nested_starts_without_w. Qed.
