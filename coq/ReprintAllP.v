From Redact Require Import Bytes Tokens Utf8 Markers Buffer Ops BufInv LBuf Fmt Value Printer Api Forward Utf8RT FormatP TokensP MarkersP BufInvP BufContentP ComposeP RoutesP ApiP.
From Redact Require Import DirectiveP.
From Coq Require Import Lia ZArith List Bool.
Import ListNotations.
Open Scope Z_scope.

(* Sprintf(d, r) = r for EVERY directive d that MakeFormat can produce (all flag subsets, widths,
   precisions, verbs other than %T and %p) *)
Lemma sprintf_rs_log_all k env s v r : st_ok s -> verb_ok v -> v <> 84 -> v <> 112 ->
  exists o, sprintf (S (S (S k))) env (snd (make_format s v)) [VRS r] = ROk o /\
            o_log o = [OMode MSafe; OMode MRaw; OWrite r; OMode MSafe; OTake].
Proof.
  intros Hs Hv H84 H112. unfold sprintf.
  change (ev (S (S (S k))) env (CDoPrintf (snd (make_format s v)) [VRS r]))
    with (doPrintf (ev (S (S k)) env) (snd (make_format s v)) [VRS r] ;;; ret RU).
  unfold bind at 1. rewrite (doPrintf_forwarded s v (VRS r) _ _ Hs Hv).
  change (ev (S (S k)) env (CPrintArg (VRS r) v)) with (printArg (ev (S k) env) env (VRS r) v ;;; ret RU).
  unfold printArg, printArg_body, printArg_inner. cbn [is_registered is_safe_value tinfo_of treg tsv noT bracket_if].
  assert (v =? 84 = false) as E1 by lia. assert (v =? 112 = false) as E2 by lia.
  eexists. split.
  - unfold bind, enter_safe, modify, get, ret, newPrinter. cbn [fresh_pp povr ovr_eqb]. 
    rewrite E1, E2.
    vm_compute. reflexivity.
  - reflexivity.
Qed.

Theorem sprintf_redactable_identity_all k env s v r o : st_ok s -> verb_ok v -> v <> 84 -> v <> 112 ->
  last_invalid r = false ->
  sprintf (S (S (S k))) env (snd (make_format s v)) [VRS r] = ROk o -> o_bytes o = r.
Proof.
  intros Hs Hv H84 H112 Hr H.
  destruct (sprintf_rs_log_all k env s v r Hs Hv H84 H112) as (o' & E & L).
  rewrite E in H. injection H as <-. exact (raw_log_output o' r (finish_output _ o' E) L Hr).
Qed.
Print Assumptions sprintf_redactable_identity_all.
