From Redact Require Import Bytes Fmt OSane EscapeP FmtNI.
From Coq Require Import Lia ZArith.
Import List ListNotations.
Open Scope Z_scope.

Lemma lf_freeb_spec p : lf_freeb p = true -> lf_free p.
Proof.
  unfold lf_freeb, lf_free. intros H. apply Forall_forall. intros c Hc.
  rewrite forallb_forall in H. specialize (H c Hc). intros ->. discriminate.
Qed.

Lemma okey_eqb_eq a b : okey_eqb a b = true -> a = b.
Proof.
  destruct a, b; cbn [okey_eqb]; try discriminate; intros H.
  - repeat (apply andb_prop in H; destruct H as [H ?]). f_equal; lia.
  - f_equal. now apply beq_eq.
  - f_equal. now apply beq_eq.
  - f_equal. now apply beq_eq.
  - f_equal. lia.
  - f_equal. lia.
  - f_equal. lia.
Qed.

Theorem osaneb_sound o : osaneb o = true -> osane o.
Proof.
  intros H k v Hl. unfold osaneb in H. rewrite forallb_forall in H.
  assert (exists k', In (k', v) o /\ k = k') as (k' & Hin & <-).
  { induction o as [|[k0 v0] r IH]; [discriminate|]. cbn [olookup] in Hl.
    destruct (okey_eqb k k0) eqn:E.
    - injection Hl as <-. exists k0. split; [left; reflexivity | now apply okey_eqb_eq].
    - destruct (IH (fun x Hx => H x (or_intror Hx)) Hl) as (k' & Hin & E'). exists k'. split; [right; exact Hin | exact E']. }
  specialize (H _ Hin). cbn [osane_entry] in H.
  apply andb_prop in H. destruct H as [H H3]. apply andb_prop in H. destruct H as [H1 H2].
  split; [destruct v; [discriminate | discriminate]|]. split; [now apply lf_freeb_spec|]. split.
  - intros s -> ->. cbn in H3. now apply lf_freeb_spec.
  - intros u -> ->. cbn in H3. intros ->. discriminate.
Qed.
Print Assumptions osaneb_sound.
