(* EscapeBytes (internal/rfmt/helpers.go): start marker + escaped, line-split
   payload + end marker. *)
From Redact Require Import Bytes Tokens Utf8 Escape EscSpec Markers Buffer Ops BufInv BufContent.
From Redact Require Import TokensP MarkersP EscapeP Utf8P BufInvP BufContentP.
Import List ListNotations.
Open Scope N_scope.

Lemma good_startB : Good startB true 0.
Proof. repeat split. Qed.

Lemma escape_bytes_spec s : escape_bytes s = esc_spec true startB s ++ endB.
Proof. unfold escape_bytes. change 3%nat with (length startB). rewrite (escape_spec true startB s). reflexivity. Qed.

Theorem escape_bytes_good s : Good (escape_bytes s) false 0.
Proof.
  rewrite escape_bytes_spec. apply good_add_end.
  apply (esc_spec_good partial_tail_invalid). exact good_startB.
Qed.

Theorem escape_bytes_redactable s :
  Redactable (escape_bytes s) /\ linesafe (lex (escape_bytes s)) = true.
Proof.
  destruct (good_output _ (escape_bytes_good s)) as (Hw & Hm & Hl).
  unfold Redactable, redactableb. rewrite Hw, Hm. auto.
Qed.

(* stripped: the escaped payload, plus one '?' when the scanner found a dangling tail;
   envelopes deleted: exactly the line feeds of the payload *)
Theorem escape_bytes_content s :
  strip_tok (lex (escape_bytes s)) =
    escm_tok (lex s) ++ (if last_invalid (startB ++ s) then [TB 63] else []) /\
  del_env (lex (escape_bytes s)) = lf_toks (lex s).
Proof.
  rewrite escape_bytes_spec. unfold esc_spec.
  pose proof (esc_toks_inv true s startB 0 good_startB (nojoin_0 s)) as Hx.
  destruct (esc_toks_content true s startB 0 good_startB (nojoin_0 s)) as [C1 C2].
  revert Hx C1 C2. generalize (esc_toks true startB (lex s)). intros x Hx C1 C2.
  change (ST startB) with (@nil tok) in C1. change (DE startB) with (@nil tok) in C2.
  cbn [app] in C1, C2.
  fold (ST ((x ++ (if last_invalid (startB ++ s) then escB else [])) ++ endB)).
  fold (DE ((x ++ (if last_invalid (startB ++ s) then escB else [])) ++ endB)).
  destruct (last_invalid (startB ++ s)).
  - pose proof (good_add_q _ _ _ Hx) as Hq. unfold escB in *.
    rewrite ST_end, (DE_end _ _ Hq).
    rewrite (ST_app _ _ _ _ Hx (nojoin_q _ [])), (DE_app _ _ _ _ Hx (nojoin_q _ [])).
    rewrite C1, C2. cbn. rewrite app_nil_r. auto.
  - rewrite app_nil_r.
    assert (exists st, Good x true st) as [st Hst] by (eexists; exact Hx).
    rewrite ST_end, (DE_end _ _ Hst), C1, C2, app_nil_r. auto.
Qed.

(* hence the redacted form consists of redacted markers and the line feeds of the
   payload, in order: same safe text, and every envelope holds the cross only *)
Theorem escape_bytes_redacted s :
  del_env (lex (redact_b (escape_bytes s))) = lf_toks (lex s) /\
  forallb (fun t => match t with TB x => orb (N.eqb x 195) (N.eqb x 151) | _ => false end)
          (env_content_aux false (lex (redact_b (escape_bytes s)))) = true.
Proof.
  destruct (good_output _ (escape_bytes_good s)) as (Hw & _ & _).
  split.
  - rewrite lex_redact_b by exact Hw. rewrite (redact_tok_del_env _ Hw).
    exact (proj2 (escape_bytes_content s)).
  - rewrite lex_redact_b by exact Hw. unfold redact_tok.
    rewrite (proj1 (redact_aux_s (lex (escape_bytes s))) Hw). exact (env_content_redact_s _ false).
Qed.
