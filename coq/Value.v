(* Layer 4b: the value universe the printer is run on, including user types
   whose methods are scripts (programs the properties quantify over). *)
From Redact Require Export Fmt Ops.
Open Scope Z_scope.

Record tinfo := mkT {
  tname : bytes;      (* reflect.Type.String() *)
  tsv : bool;         (* the type implements SafeValue *)
  treg : bool         (* the type is in safeTypeRegistry for this case *)
}.

(* Interfaces implemented by a user type. *)
Record ifaces := mkI {
  iSafeFormatter : bool; iSafeMessager : bool; iError : bool;
  iFormatter : bool; iGoStringer : bool; iStringer : bool
}.

Inductive value :=
| VNil                                               (* nil interface{} *)
| VBool (t : tinfo) (b : bool)
| VInt (t : tinfo) (u : Z)                           (* signed kinds; u = uint64(v) bit pattern *)
| VUint (t : tinfo) (u : Z)                          (* unsigned kinds *)
| VFloat (t : tinfo) (size : Z) (bits : Z)           (* float32 / float64; bits identify the oracle entry *)
| VStr (t : tinfo) (s : bytes)
| VBytes (t : tinfo) (isnil : bool) (s : bytes)      (* []byte and named byte slices *)
| VSlice (t : tinfo) (isnil : bool) (es : list value)
| VArray (t : tinfo) (es : list value)
| VMap (t : tinfo) (isnil : bool) (kvs : list (value * value))   (* already in fmtsort order *)
| VStruct (t : tinfo) (fs : list (bytes * bool * value))         (* name, exported, value (interface fields already unwrapped by getField; nil interface field = VIface None) *)
| VPtr (t : tinfo) (addr : Z) (elem : option value)  (* addr = 0: nil pointer; elem: pointee (for & printing) *)
| VIface (tn : bytes) (e : option value)             (* a slot of interface type holding e *)
| VSafe (v : value) (msg : bytes)                    (* redact.Safe(v); msg = fmt.Sprintf("%v", v) (SafeMessage) *)
| VUnsafe (v : value)                                (* redact.Unsafe(v) *)
| VRS (s : bytes)                                    (* RedactableString *)
| VRB (s : bytes)                                    (* RedactableBytes *)
| VUser (t : tinfo) (ifs : ifaces) (nilrecv : bool) (repr : value) (sc : list action)
with action :=
| ARet (s : bytes)                 (* String/Error/GoString/SafeMessage: return s *)
| APanic (v : value)
| AWrite (s : bytes)               (* fmt.State.Write / io.WriteString *)
| ASafeString (s : bytes) | ASafeInt (u : Z) | ASafeUint (u : Z) | ASafeFloat (bits : Z)
| ASafeRune (r : Z) | ASafeByte (c : N) | ASafeBytes (s : bytes)
| AUnsafeString (s : bytes) | AUnsafeByte (c : N) | AUnsafeBytes (s : bytes) | AUnsafeRune (r : Z)
| APrint (args : list value)
| APrintf (f : bytes) (args : list value)
| ADump.                           (* write Width/Precision/Flag as seen by the method (unsafe Write) *)

Definition noT : tinfo := mkT [] false false.

(* reflect.TypeOf(v).String() for a non-nil dynamic value *)
Definition type_name (v : value) : bytes :=
  match v with
  | VNil => []
  | VBool t _ | VInt t _ | VUint t _ | VFloat t _ _ | VStr t _ | VBytes t _ _ | VSlice t _ _
  | VArray t _ | VMap t _ _ | VStruct t _ | VPtr t _ _ | VUser t _ _ _ _ => tname t
  | VIface tn _ => tn
  | VSafe _ _ => (* redact.safeWrapper *) [114;101;100;97;99;116;46;115;97;102;101;87;114;97;112;112;101;114]%N
  | VUnsafe _ => (* redact.unsafeWrap *) [114;101;100;97;99;116;46;117;110;115;97;102;101;87;114;97;112]%N
  | VRS _ => (* markers.RedactableString *)
    [109;97;114;107;101;114;115;46;82;101;100;97;99;116;97;98;108;101;83;116;114;105;110;103]%N
  | VRB _ => (* markers.RedactableBytes *)
    [109;97;114;107;101;114;115;46;82;101;100;97;99;116;97;98;108;101;66;121;116;101;115]%N
  end.

Definition tinfo_of (v : value) : tinfo :=
  match v with
  | VBool t _ | VInt t _ | VUint t _ | VFloat t _ _ | VStr t _ | VBytes t _ _ | VSlice t _ _
  | VArray t _ | VMap t _ _ | VStruct t _ | VPtr t _ _ | VUser t _ _ _ _ => t
  | _ => noT
  end.

(* safeTypeRegistry[reflect.TypeOf(v)] *)
Definition is_registered (v : value) : bool := treg (tinfo_of v).

(* _, ok := v.(SafeValue) *)
Definition is_safe_value (v : value) : bool :=
  match v with
  | VSafe _ _ => true
  | _ => tsv (tinfo_of v)
  end.

(* reflect.TypeOf(arg).Kind() == reflect.String (doPrint's spacing rule) *)
Definition is_string_kind (v : value) : bool :=
  match v with
  | VStr _ _ | VRS _ => true
  | _ => false
  end.

(* catchPanic: v.Kind() == reflect.Ptr && v.IsNil() *)
Definition is_nil_ptr (v : value) : bool :=
  match v with
  | VPtr _ a _ => a =? 0
  | VUser _ _ nr _ _ => nr
  | _ => false
  end.
