(* A Buffer together with the history of method calls that produced it.  The
   proof field makes "the printer's buffer is [run log]" hold by construction;
   it is erased by extraction.  The log is kept newest-first. *)
From Redact Require Export Ops.

Lemma run_snoc (ops : list op) (o : op) : run (ops ++ [o]) = fst (step (run ops) o).
Proof. unfold run, run_from. rewrite fold_left_app. reflexivity. Qed.

Record lbuf := mkL { lb : buffer; rlog : list op; lok : lb = run (rev rlog) }.

Definition llog (l : lbuf) : list op := rev (rlog l).

Lemma l_step_ok (l : lbuf) (o : op) : fst (step (lb l) o) = run (rev (o :: rlog l)).
Proof. cbn [rev]. rewrite run_snoc, <- (lok l). reflexivity. Qed.

Definition l_step (l : lbuf) (o : op) : lbuf * obs :=
  (mkL (fst (step (lb l) o)) (o :: rlog l) (l_step_ok l o), snd (step (lb l) o)).

Definition l_init : lbuf := mkL init [] eq_refl.
