(* Proofs about the scratch-array model of fmtInteger: no index ever leaves the array, and the
   bytes handed to pad are those of the list-level fmt_integer. *)
From Redact Require Import Bytes Fmt FmtNI FmtMem.
From Coq Require Import ZArith List Bool Lia.
Import ListNotations.
Open Scope Z_scope.

Lemma zlen_cons c (ds : bytes) : zlen (c :: ds) = zlen ds + 1.
Proof. unfold zlen. cbn [length]. lia. Qed.
Lemma zlen_nonneg (ds : bytes) : 0 <= zlen ds.
Proof. unfold zlen. lia. Qed.
Lemma zlen_app (a b : bytes) : zlen (a ++ b) = zlen a + zlen b.
Proof. unfold zlen. rewrite app_length. lia. Qed.
Lemma zlen_zeros n : zlen (zeros n) = Z.of_nat n.
Proof. unfold zlen. induction n; cbn [zeros length]; lia. Qed.

(* the array has room: the write succeeds and keeps "i + len(buf[i:]) = len(buf)" *)
Lemma put_ok n c ds : zlen ds < n -> put c (Some (n - zlen ds, ds)) = Some (n - zlen (c :: ds), c :: ds).
Proof.
  intros H. unfold put. destruct (0 <? n - zlen ds) eqn:E; [|apply Z.ltb_ge in E; lia].
  rewrite zlen_cons. f_equal. f_equal. lia.
Qed.

Lemma digits_mem_ok up base n : 2 <= base -> forall fuel k u acc, (1 <= k <= fuel)%nat -> 0 <= u < base ^ Z.of_nat k ->
  zlen acc + Z.of_nat k <= n ->
  digits_mem fuel up base u (Some (n - zlen acc, acc)) =
    Some (n - zlen (to_base fuel up base u acc), to_base fuel up base u acc) /\
  zlen (to_base fuel up base u acc) <= zlen acc + Z.of_nat k.
Proof.
  intros Hb. induction fuel as [|f IH]; intros k u acc Hk Hu Hn; [lia|].
  cbn [digits_mem to_base]. destruct (u <? base) eqn:E.
  - rewrite put_ok by lia. split; [reflexivity|]. rewrite zlen_cons. lia.
  - apply Z.ltb_ge in E.
    assert (2 <= k)%nat as K2.
    { destruct k as [|[|k]]; [lia| |lia]. cbn in Hu. lia. }
    rewrite put_ok by lia.
    destruct (IH (k - 1)%nat (u / base) (digit_char up (u mod base) :: acc)) as [E1 E2].
    + lia.
    + split; [apply Z.div_pos; lia|]. apply Z.div_lt_upper_bound; [lia|].
      replace (Z.of_nat k) with (Z.succ (Z.of_nat (k - 1))) in Hu by lia. rewrite Z.pow_succ_r in Hu by lia. lia.
    + rewrite zlen_cons. lia.
    + split; [exact E1|]. rewrite zlen_cons in E2. lia.
Qed.

Lemma zeros_snoc m (ds : bytes) : (zeros m ++ 48%N :: ds)%list = (48%N :: zeros m ++ ds)%list.
Proof. induction m as [|m IH]; [reflexivity|]. cbn [zeros app]. rewrite IH. reflexivity. Qed.

Lemma zeros_mem_ok n prec : prec <= n -> forall fuel ds, (Z.to_nat (prec - zlen ds) <= fuel)%nat -> zlen ds <= n ->
  zeros_mem fuel prec (Some (n - zlen ds, ds)) =
    Some (n - zlen (zeros (Z.to_nat (prec - zlen ds)) ++ ds), (zeros (Z.to_nat (prec - zlen ds)) ++ ds)%list).
Proof.
  intros Hp. induction fuel as [|f IH]; intros ds Hf Hn.
  - cbn [zeros_mem]. destruct (zlen ds <? prec) eqn:E.
    + apply Z.ltb_lt in E. lia.
    + rewrite andb_false_r. apply Z.ltb_ge in E. replace (Z.to_nat (prec - zlen ds)) with O by lia. reflexivity.
  - cbn [zeros_mem]. destruct (zlen ds <? prec) eqn:E.
    + apply Z.ltb_lt in E. destruct (0 <? n - zlen ds) eqn:E0; [|apply Z.ltb_ge in E0; lia].
      cbn [andb]. rewrite put_ok by lia. rewrite IH.
      * rewrite zlen_cons.
        replace (Z.to_nat (prec - zlen ds)) with (S (Z.to_nat (prec - (zlen ds + 1)))) by lia.
        cbn [zeros app]. rewrite zeros_snoc. reflexivity.
      * rewrite zlen_cons. lia.
      * rewrite zlen_cons. lia.
    + rewrite andb_false_r. apply Z.ltb_ge in E. replace (Z.to_nat (prec - zlen ds)) with O by lia. reflexivity.
Qed.

(* number of digits of a 64-bit value *)
Definition ndig (base : Z) : nat :=
  if base =? 2 then 64 else if base =? 8 then 22 else if base =? 10 then 20 else 16.
Lemma ndig_ok base u : base_ok base -> 0 <= u < two64 -> 0 <= u < base ^ Z.of_nat (ndig base).
Proof.
  intros [->|[->|[->| ->]]] [H0 H1]; unfold ndig; cbn [Z.eqb Pos.eqb]; unfold two64 in H1; split; try assumption.
  all: match goal with |- _ < ?b ^ ?e => let v := eval vm_compute in (b ^ e) in change (b ^ e) with v end; lia.
Qed.

Lemma head_zeros m (ds : bytes) : (1 <= m)%nat -> exists r, (zeros m ++ ds)%list = 48%N :: r.
Proof. destruct m as [|m]; [lia|]. intros _. cbn [zeros app]. eauto. Qed.

(* the digits, prefixes and sign: never out of the array, and equal to the list-level rendering *)
Theorem int_digits_mem_ok f u base verb up negative prec0 :
  base_ok base -> 0 <= u < two64 -> (verb = 79 -> base = 8) -> prec0 + 3 <= scratch_len f -> 68 <= scratch_len f ->
  int_digits_mem f u base verb up negative prec0 = Some (int_digits f u base verb up negative prec0).
Proof.
  intros Hb Hu HO Hp H68. unfold int_digits_mem, int_digits. cbn zeta.
  set (n := scratch_len f) in *.
  assert (2 <= base) as Hb2 by (destruct Hb as [->|[->|[->| ->]]]; lia).
  pose proof (ndig_ok base u Hb Hu) as Hnd.
  assert (1 <= ndig base <= 70)%nat as Hk by (unfold ndig; destruct (base =? 2), (base =? 8), (base =? 10); lia).
  assert (Z.of_nat (ndig base) <= 64) as Hk64 by (unfold ndig; destruct (base =? 2), (base =? 8), (base =? 10); lia).
  destruct (digits_mem_ok up base n Hb2 70%nat (ndig base) u [] Hk Hnd) as [E1 L1]; [change (zlen []) with 0; lia|].
  change (zlen []) with 0 in E1, L1. rewrite Z.sub_0_r in E1. rewrite E1.
  set (d0 := to_base 70 up base u []) in *.
  assert (1 <= zlen d0) as D1.
  { pose proof (to_base_nonempty 70 up base u [] (or_introl (Nat.lt_0_succ 69))) as Hne. fold d0 in Hne.
    destruct d0 as [|c0 r0]; [congruence|]. rewrite zlen_cons. pose proof (zlen_nonneg r0). lia. }
  rewrite (zeros_mem_ok n prec0) by lia.
  set (m := Z.to_nat (prec0 - zlen d0)).
  set (d1 := (zeros m ++ d0)%list).
  assert (zlen d1 = zlen d0 + Z.of_nat m) as Ld1 by (unfold d1; rewrite zlen_app, zlen_zeros; lia).
  (* the room left: either zeros were added (then prec0 + 3 <= n bounds everything and the text starts
     with '0'), or not (then the digit count bounds everything) *)
  assert (zlen d1 + 3 <= n \/ (m = O /\ d1 = d0)) as Hroom.
  { destruct m as [|m'] eqn:Em; [right; split; [reflexivity | reflexivity]|]. left. subst m. lia. }
  assert (base = 8 -> zlen d0 <= 22) as H8.
  { intros E. rewrite E in L1. change (ndig 8) with 22%nat in L1. lia. }
  assert (base = 16 -> zlen d0 <= 16) as H16.
  { intros E. rewrite E in L1. change (ndig 16) with 16%nat in L1. lia. }
  assert (forall c s, zlen s < n -> put c (Some (n - zlen s, s)) = Some (n - zlen (c :: s), c :: s)) as P by (intros; now apply put_ok).
  (* sharp *)
  set (d2 := if sharp (fl f) then if base =? 2 then 48%N :: 98%N :: d1 else if base =? 8 then match d1 with 48%N :: _ => d1 | _ => 48%N :: d1 end
             else if base =? 16 then 48%N :: (if up then 88%N else 120%N) :: d1 else d1 else d1).
  match goal with |- match (if negative then _ else _) with _ => _ end = _ => idtac | |- _ => idtac end.
  assert ((if sharp (fl f)
           then if base =? 2 then put 48%N (put 98%N (Some (n - zlen d1, d1)))
                else if base =? 8 then match Some (n - zlen d1, d1) with Some (_, 48%N :: _) => Some (n - zlen d1, d1) | _ => put 48%N (Some (n - zlen d1, d1)) end
                else if base =? 16 then put 48%N (put (if up then 88%N else 120%N) (Some (n - zlen d1, d1)))
                else Some (n - zlen d1, d1)
           else Some (n - zlen d1, d1)) = Some (n - zlen d2, d2)
          /\ zlen d2 <= zlen d1 + 2
          /\ (base = 8 -> zlen d2 <= zlen d1 + 1)
          /\ (base = 8 -> (1 <= m)%nat -> d2 = d1)
          /\ (base = 10 -> d2 = d1)) as (E2 & L2 & L28 & L28z & L210).
  { unfold d2. destruct (sharp (fl f)); [|repeat split; intros; (reflexivity || lia)].
    destruct (base =? 2) eqn:B2.
    { apply Z.eqb_eq in B2. subst base. rewrite P by (destruct Hroom as [?|[? ->]]; lia).
      rewrite P by (rewrite zlen_cons; destruct Hroom as [?|[? ->]]; lia).
      repeat split; intros; try lia. rewrite !zlen_cons. lia. }
    destruct (base =? 8) eqn:B8.
    { apply Z.eqb_eq in B8. subst base.
      assert (forall (c : N) (r : bytes), (match c with 48%N => c :: r | _ => 48%N :: c :: r end) = (if N.eqb c 48 then c :: r else 48%N :: c :: r)) as Hm.
      { intros c r. destruct c as [|p]; [reflexivity|]. do 6 (destruct p as [p|p|]; try reflexivity). }
      destruct d1 as [|c r] eqn:Ed1.
      - rewrite P by (change (zlen []) with 0; lia). repeat split; intros; try lia; try (rewrite !zlen_cons; lia).
        exfalso. destruct (head_zeros m d0 H0) as [r Hr]. fold d1 in Hr. congruence.
      - assert (match c with 48%N => Some (n - zlen (c :: r), c :: r) | _ => put 48%N (Some (n - zlen (c :: r), c :: r)) end
                = if N.eqb c 48 then Some (n - zlen (c :: r), c :: r) else put 48%N (Some (n - zlen (c :: r), c :: r))) as ->.
        { destruct c as [|p]; [reflexivity|]. do 6 (destruct p as [p|p|]; try reflexivity). }
        rewrite Hm. destruct (N.eqb c 48) eqn:Ec.
        + repeat split; intros; (reflexivity || lia).
        + rewrite P by (destruct Hroom as [?|[? Hd]]; [lia | rewrite Hd; specialize (H8 eq_refl); lia]).
          repeat split; intros; try lia; try (rewrite !zlen_cons; lia).
          exfalso. destruct (head_zeros m d0 H0) as [r' Hr]. fold d1 in Hr. rewrite Ed1 in Hr. inversion Hr; subst c. discriminate. }
    destruct (base =? 16) eqn:B16.
    { apply Z.eqb_eq in B16. subst base. rewrite P by (destruct Hroom as [?|[? ->]]; [lia | specialize (H16 eq_refl); lia]).
      rewrite P by (rewrite zlen_cons; destruct Hroom as [?|[? ->]]; [lia | specialize (H16 eq_refl); lia]).
      repeat split; intros; try lia. rewrite !zlen_cons. lia. }
    repeat split; intros; (reflexivity || lia). }
  rewrite E2. fold d2.
  (* %O *)
  set (d3 := if verb =? 79 then 48%N :: 111%N :: d2 else d2).
  assert ((if verb =? 79 then put 48%N (put 111%N (Some (n - zlen d2, d2))) else Some (n - zlen d2, d2)) = Some (n - zlen d3, d3)
          /\ zlen d3 + 1 <= n) as (E3 & L3).
  { unfold d3. destruct (verb =? 79) eqn:EO.
    - apply Z.eqb_eq in EO. specialize (HO EO). specialize (H8 HO). specialize (L28 HO). specialize (L28z HO).
      assert (zlen d2 + 3 <= n) as R.
      { destruct Hroom as [R|[Hm0 Hd]].
        - destruct m as [|m']; [lia|]. rewrite L28z by lia. lia.
        - rewrite Hd in *. lia. }
      rewrite P by lia. rewrite P by (rewrite zlen_cons; lia). split; [reflexivity|]. rewrite !zlen_cons. lia.
    - split; [reflexivity|].
      destruct Hroom as [R|[Hm0 Hd]]; [lia|]. rewrite Hd in *.
      destruct Hb as [->|[->|[->| ->]]].
      + lia.
      + specialize (L28 eq_refl). specialize (H8 eq_refl). lia.
      + rewrite (L210 eq_refl). lia.
      + specialize (H16 eq_refl). lia. }
  rewrite E3. fold d3.
  destruct negative; [rewrite P by lia; reflexivity|].
  destruct (plus (fl f)); [rewrite P by lia; reflexivity|].
  destruct (space (fl f)); [rewrite P by lia; reflexivity|].
  reflexivity.
Qed.

Lemma scratch_len_68 f : 68 <= scratch_len f.
Proof. unfold scratch_len. destruct (widPresent (fl f) || precPresent (fl f)); [|lia]. destruct (68 <? 3 + wid f + prec f) eqn:E; [apply Z.ltb_lt in E|]; lia. Qed.

Lemma scratch_len_room f : widPresent (fl f) || precPresent (fl f) = true -> 3 + wid f + prec f <= scratch_len f.
Proof. intros H. unfold scratch_len. rewrite H. destruct (68 <? 3 + wid f + prec f) eqn:E; [apply Z.ltb_lt in E | apply Z.ltb_ge in E]; lia. Qed.

(* fmtInteger: for every 64-bit operand, base, sign, flag set, width and precision the scratch
   array is never indexed out of range, and the result is the list-level one *)
Theorem fmt_integer_mem_ok f u0 base sg verb up :
  base_ok base -> 0 <= u0 < two64 -> (verb = 79 -> base = 8) -> 0 <= wid f -> 0 <= prec f ->
  fmt_integer_mem f u0 base sg verb up = Some (fmt_integer f u0 base sg verb up).
Proof.
  intros Hb Hu HO Hw Hp. rewrite fmt_integer_unfold. unfold fmt_integer_mem. cbn zeta.
  fold (iabs sg u0).
  assert (0 <= iabs sg u0 < two64) as Hu'.
  { unfold iabs. destruct (sg && (two63 <=? u0)) eqn:E; [|assumption].
    apply andb_prop in E. destruct E as [_ E]. apply Z.leb_le in E. unfold two63, two64 in *. lia. }
  pose proof (scratch_len_68 f) as H68.
  destruct (precPresent (fl f)) eqn:Epp.
  - destruct ((prec f =? 0) && (iabs sg u0 =? 0)); [reflexivity|].
    rewrite int_digits_mem_ok; try assumption; [reflexivity|].
    pose proof (scratch_len_room f). rewrite Epp, orb_true_r in H. specialize (H eq_refl). lia.
  - destruct (zero (fl f) && widPresent (fl f)) eqn:Ez.
    + apply andb_prop in Ez. destruct Ez as [_ Ew].
      rewrite int_digits_mem_ok; try assumption; [reflexivity|].
      pose proof (scratch_len_room f). rewrite Ew in H. specialize (H eq_refl).
      destruct (sg && (two63 <=? u0) || plus (fl f) || space (fl f)); lia.
    + rewrite int_digits_mem_ok; try assumption; [reflexivity | lia].
Qed.

(* ---------- fmtUnicode ---------- *)
Lemma to_base_acc up base : forall fuel u acc, to_base fuel up base u acc = (to_base fuel up base u [] ++ acc)%list.
Proof.
  induction fuel as [|k IH]; intros u acc; cbn [to_base]; [reflexivity|].
  destruct (u <? base); [reflexivity|].
  rewrite IH. rewrite (IH _ [_]). rewrite <- app_assoc. reflexivity.
Qed.

Lemma put_block_ok n cs ds : zlen ds + zlen cs <= n ->
  put_block cs (Some (n - zlen ds, ds)) = Some (n - zlen (cs ++ ds), (cs ++ ds)%list).
Proof.
  intros H. unfold put_block. destruct (zlen cs <=? n - zlen ds) eqn:E; [|apply Z.leb_gt in E; lia].
  rewrite zlen_app. f_equal. f_equal. lia.
Qed.

Lemma zeros_n_ok n : forall m ds, zlen ds + Z.of_nat m <= n ->
  zeros_n m (Some (n - zlen ds, ds)) = Some (n - zlen (zeros m ++ ds), (zeros m ++ ds)%list).
Proof.
  induction m as [|m IH]; intros ds H; [reflexivity|].
  cbn [zeros_n]. rewrite put_ok by lia. rewrite IH by (rewrite zlen_cons; lia).
  rewrite zeros_snoc. reflexivity.
Qed.

Lemma encode_rune_len r : 1 <= zlen (encode_rune r) <= 4.
Proof.
  unfold encode_rune.
  destruct ((0 <=? r) && (r <=? 127)); [cbv; split; discriminate|].
  destruct ((0 <=? r) && (r <=? 2047)); [cbv; split; discriminate|].
  destruct (negb (valid_rune r)); [cbv; split; discriminate|].
  destruct (r <=? 65535); cbv; split; discriminate.
Qed.

(* fmtUnicode: for every operand, flag set and precision no index leaves the scratch array, and the
   result is the list-level one (None inside = the IsPrint oracle has no entry, as in fmt_unicode) *)
Theorem fmt_unicode_mem_ok o f u : 0 <= u < two64 -> 0 <= prec f ->
  fmt_unicode_mem o f u = Some (fmt_unicode o f u).
Proof.
  intros Hu Hp. unfold fmt_unicode_mem, fmt_unicode. cbn zeta.
  set (n := uscratch_len f).
  set (prec0 := if precPresent (fl f) && (4 <? prec f) then prec f else 4).
  assert (68 <= n /\ prec0 + 9 <= n /\ 4 <= prec0) as (H68 & Hn & H4).
  { unfold n, uscratch_len, prec0. destruct (precPresent (fl f) && (4 <? prec f)) eqn:E.
    - apply andb_prop in E. destruct E as [_ E]. apply Z.ltb_lt in E.
      destruct (68 <? 2 + prec f + 2 + 4 + 1) eqn:E2; [apply Z.ltb_lt in E2 | apply Z.ltb_ge in E2]; lia.
    - lia. }
  assert (forall c s, zlen s < n -> put c (Some (n - zlen s, s)) = Some (n - zlen (c :: s), c :: s)) as P by (intros; now apply put_ok).
  (* the quoted character, if any *)
  set (tail := fun q : bool => (if q then ((32%N :: 39%N :: encode_rune u) ++ [39%N])%list else @nil N) : bytes).
  assert (forall q : bool,
            (if q then put 32%N (put 39%N (put_block (encode_rune u) (put 39%N (Some (@pair Z bytes n (@nil N)))))) else Some (@pair Z bytes n (@nil N)))
            = Some (n - zlen (tail q), tail q) /\ zlen (tail q) <= 7) as Htail.
  { intros [|]; unfold tail.
    - pose proof (encode_rune_len u) as [L1 L4].
      assert (Some (@pair Z bytes n (@nil N)) = Some (n - zlen (@nil N), @nil N)) as E0 by (change (zlen []) with 0; rewrite Z.sub_0_r; reflexivity).
      rewrite E0.
      rewrite P by (change (zlen []) with 0; lia).
      rewrite put_block_ok by (rewrite zlen_cons; change (zlen []) with 0; lia).
      rewrite P by (rewrite zlen_app, zlen_cons; change (zlen []) with 0; lia).
      rewrite P by (rewrite zlen_cons, zlen_app, zlen_cons; change (zlen []) with 0; lia).
      split; [reflexivity|]. cbn [app]. rewrite !zlen_cons, zlen_app, zlen_cons. change (zlen []) with 0. lia.
    - split; [change (zlen []) with 0; rewrite Z.sub_0_r; reflexivity | change (zlen []) with 0; lia]. }
  assert (forall q : bool,
    match
      (let s1 := if q then put 32%N (put 39%N (put_block (encode_rune u) (put 39%N (Some (@pair Z bytes n (@nil N)))))) else Some (@pair Z bytes n (@nil N)) in
       let before := match s1 with Some (_, ds) => zlen ds | None => 0 end in
       let s2 := digits_mem 70 true 16 u s1 in
       let written := match s2 with Some (_, ds) => zlen ds - before | None => 0 end in
       let s3 := zeros_n (Z.to_nat (prec0 - written)) s2 in
       put 85%N (put 43%N s3))
    with
    | Some (_, ds) => Some (Some (pad (set_zero f false) ds))
    | None => None
    end = Some (Some (pad (set_zero f false)
            ((85%N :: 43%N :: zeros (Z.to_nat (prec0 - zlen (to_base 70 true 16 u []))) ++ to_base 70 true 16 u []) ++ tail q)))) as Hmain.
  { intros q. cbn zeta. destruct (Htail q) as [E1 L7]. rewrite E1.
    assert (0 <= u < 16 ^ Z.of_nat 16) as Hu16 by (unfold two64 in Hu; change (16 ^ Z.of_nat 16) with 18446744073709551616; lia).
    destruct (digits_mem_ok true 16 n ltac:(lia) 70%nat 16%nat u (tail q) ltac:(lia) Hu16) as [E2 L2]; [lia|].
    rewrite E2. rewrite (to_base_acc true 16 70 u (tail q)) in *.
    set (d0 := to_base 70 true 16 u []) in *.
    rewrite zlen_app in L2.
    replace (zlen (d0 ++ tail q) - zlen (tail q)) with (zlen d0) by (rewrite zlen_app; lia).
    assert (1 <= zlen d0) as D1.
    { pose proof (to_base_nonempty 70 true 16 u [] (or_introl (Nat.lt_0_succ 69))) as Hne. fold d0 in Hne.
      destruct d0 as [|c0 r0]; [congruence|]. rewrite zlen_cons. pose proof (zlen_nonneg r0). lia. }
    rewrite zeros_n_ok by (rewrite zlen_app; lia).
    set (m := Z.to_nat (prec0 - zlen d0)).
    assert (zlen (zeros m ++ d0 ++ tail q) + 2 <= n) as Room.
    { rewrite !zlen_app, zlen_zeros. unfold m. lia. }
    rewrite P by lia. rewrite P by (rewrite zlen_cons; lia).
    cbn [app]. rewrite <- app_assoc. reflexivity. }
  destruct (sharp (fl f) && (u <=? MaxRune)).
  - destruct (olookup o (KIsPrint u)) as [v|]; [|reflexivity].
    assert (forall (b : bool), (match (if b then Some true else Some false) with Some q => Some q | None => None end) = Some b) as _ by (intros []; reflexivity).
    destruct v as [|c r]; [exact (Hmain false)|].
    destruct r as [|c2 r2].
    + destruct (N.eq_dec c 49) as [->|Hne].
      * exact (Hmain true).
      * assert (forall A (x y : A), match c with 49%N => x | _ => y end = y) as Hc.
        { intros A x y. destruct c as [|p]; [reflexivity|]. do 6 (destruct p as [p|p|]; try reflexivity). congruence. }
        rewrite !Hc. exact (Hmain false).
    + assert (forall A (x y : A), match c with 49%N => y | _ => y end = y) as Hc.
      { intros A x y. destruct c as [|p]; [reflexivity|]. do 6 (destruct p as [p|p|]; try reflexivity). }
      destruct c as [|p]; [exact (Hmain false)|]. do 6 (destruct p as [p|p|]; try exact (Hmain false)).
  - exact (Hmain false).
Qed.
