(* Properties of the unicode/utf8 model: DecodeLastRune on partial-marker tails
   and on valid suffixes; validity of encodings and of concatenations. *)
From Redact Require Import Bytes Tokens Utf8.
Open Scope N_scope.

(* ------------------------------------------------------------------ *)
(* Partial-marker automaton: what a non-zero state says about the tail *)
(* ------------------------------------------------------------------ *)

Lemma pstb_snoc : forall st x a, pstb st (x ++ [a]) = pnext (pstb st x) a.
Proof. intros. unfold pstb. rewrite fold_left_app. reflexivity. Qed.

Lemma pnext_1 : forall st a, pnext st a = 1 -> a = 226.
Proof.
  intros st a. unfold pnext.
  destruct (a =? 226) eqn:E.
  - intros _. apply N.eqb_eq. exact E.
  - destruct ((st =? 1) && (a =? 128)); discriminate.
Qed.

Lemma pnext_2 : forall st a, pnext st a = 2 -> st = 1 /\ a = 128.
Proof.
  intros st a. unfold pnext.
  destruct (a =? 226) eqn:E; [discriminate|].
  destruct (st =? 1) eqn:E1; destruct (a =? 128) eqn:E2; cbn [andb]; try discriminate.
  intros _. split; apply N.eqb_eq; assumption.
Qed.

Lemma pnext_012 : forall st a, pnext st a = 0 \/ pnext st a = 1 \/ pnext st a = 2.
Proof.
  intros. unfold pnext.
  destruct (a =? 226); [auto|]. destruct ((st =? 1) && (a =? 128)); auto.
Qed.

Lemma pstb_1 : forall st b, pstb st b = 1 -> (b = [] /\ st = 1) \/ exists x, b = x ++ [226].
Proof.
  intros st b. destruct b as [|a0 b0] using rev_ind.
  - cbn. auto.
  - rewrite pstb_snoc. intros H. apply pnext_1 in H. subst. right. eauto.
Qed.

Lemma pstb_2 : forall st b, pstb st b = 2 ->
  (b = [] /\ st = 2) \/ (b = [128] /\ st = 1) \/ exists x, b = x ++ [226; 128].
Proof.
  intros st b. destruct b as [|a0 b0] using rev_ind.
  - cbn. auto.
  - rewrite pstb_snoc. intros H. apply pnext_2 in H. destruct H as [H ->].
    apply pstb_1 in H. destruct H as [[-> ->]|[x ->]].
    + right. left. auto.
    + right. right. exists x. rewrite <- app_assoc. reflexivity.
Qed.

Lemma pstb_012 : forall b, pstb 0 b = 0 \/ pstb 0 b = 1 \/ pstb 0 b = 2.
Proof.
  intros b. destruct b as [|a0 b0] using rev_ind.
  - cbn. auto.
  - rewrite pstb_snoc. apply pnext_012.
Qed.

Lemma pstb_nonzero_tail : forall b, pstb 0 b <> 0 ->
  exists x, b = x ++ [226] \/ b = x ++ [226; 128].
Proof.
  intros b H. destruct (pstb_012 b) as [E|[E|E]]; [contradiction| |].
  - apply pstb_1 in E. destruct E as [[_ E]|[x ->]]; [discriminate|]. eauto.
  - apply pstb_2 in E. destruct E as [[_ E]|[[_ E]|[x ->]]]; try discriminate. eauto.
Qed.

(* ------------------------------------------------------------------ *)
(* Shape of decode_rune results                                        *)
(* ------------------------------------------------------------------ *)

Lemma rng_cont : forall (c1 c2 : bool) b1,
  in_rng (if c1 then 160 else 128) (if c2 then 159 else 191) b1 = true -> is_cont b1 = true.
Proof.
  intros c1 c2 b1. unfold is_cont, in_rng.
  rewrite !andb_true_iff, !N.leb_le. destruct c1, c2; lia.
Qed.

Lemma rng_cont4 : forall (c1 c2 : bool) b1,
  in_rng (if c1 then 144 else 128) (if c2 then 143 else 191) b1 = true -> is_cont b1 = true.
Proof.
  intros c1 c2 b1. unfold is_cont, in_rng.
  rewrite !andb_true_iff, !N.leb_le. destruct c1, c2; lia.
Qed.

Lemma lead_start : forall lo hi b0, 192 <= lo -> in_rng lo hi b0 = true -> rune_start b0 = true.
Proof.
  intros lo hi b0 Hlo. unfold rune_start, is_cont, in_rng.
  rewrite andb_true_iff, !N.leb_le. intros [H1 H2].
  destruct (128 <=? b0) eqn:E1; [|reflexivity].
  destruct (b0 <=? 191) eqn:E2; [|reflexivity].
  apply N.leb_le in E2. lia.
Qed.

(* The possible outcomes of DecodeRune, by size. *)
Inductive dr_shape (p : bytes) (r : Z) : nat -> Prop :=
| dr0 : p = [] -> r = RuneError -> dr_shape p r 0
| dr1a : forall b0 t, p = b0 :: t -> b0 <? 128 = true -> r = zb b0 -> dr_shape p r 1
| dr1e : forall b0 t, p = b0 :: t -> b0 <? 128 = false -> r = RuneError -> dr_shape p r 1
| dr2 : forall b0 b1 t, p = b0 :: b1 :: t -> b0 <? 128 = false -> rune_start b0 = true ->
        is_cont b1 = true -> dr_shape p r 2
| dr3 : forall b0 b1 b2 t, p = b0 :: b1 :: b2 :: t -> b0 <? 128 = false -> rune_start b0 = true ->
        is_cont b1 = true -> is_cont b2 = true -> dr_shape p r 3
| dr4 : forall b0 b1 b2 b3 t, p = b0 :: b1 :: b2 :: b3 :: t -> b0 <? 128 = false ->
        rune_start b0 = true ->
        is_cont b1 = true -> is_cont b2 = true -> is_cont b3 = true -> dr_shape p r 4.

Lemma decode_rune_shape : forall p r n, decode_rune p = (r, n) -> dr_shape p r n.
Proof.
  intros p r n. unfold decode_rune.
  destruct p as [|b0 t].
  { intros H. inversion H. constructor; reflexivity. }
  destruct (b0 <? 128) eqn:E0.
  { intros H. inversion H. eapply dr1a; eauto. }
  assert (ERR : (RuneError, 1%nat) = (r, n) -> dr_shape (b0 :: t) r n).
  { intros H. inversion H. eapply dr1e; eauto. }
  destruct (in_rng 194 223 b0) eqn:E2.
  { destruct t as [|b1 t]; [exact ERR|].
    destruct (is_cont b1) eqn:C1; [|exact ERR].
    intros H. inversion H. eapply dr2; eauto.
    eapply lead_start; [|exact E2]. lia. }
  destruct (in_rng 224 239 b0) eqn:E3.
  { destruct t as [|b1 [|b2 t]]; try exact ERR.
    destruct (in_rng _ _ b1) eqn:C1; cbn [andb]; [|exact ERR].
    destruct (is_cont b2) eqn:C2; [|exact ERR].
    intros H. inversion H. eapply dr3; eauto.
    - eapply lead_start; [|exact E3]. lia.
    - eapply rng_cont; exact C1. }
  destruct (in_rng 240 244 b0) eqn:E4.
  { destruct t as [|b1 [|b2 [|b3 t]]]; try exact ERR.
    destruct (in_rng _ _ b1) eqn:C1; cbn [andb]; [|exact ERR].
    destruct (is_cont b2) eqn:C2; cbn [andb]; [|exact ERR].
    destruct (is_cont b3) eqn:C3; [|exact ERR].
    intros H. inversion H. eapply dr4; eauto.
    - eapply lead_start; [|exact E4]. lia.
    - eapply rng_cont4; exact C1. }
  exact ERR.
Qed.

Lemma decode_rune_cont : forall p r n i, decode_rune p = (r, n) ->
  (1 <= i < n)%nat -> is_cont (nth i p 0) = true.
Proof.
  intros p r n i H Hi. apply decode_rune_shape in H.
  destruct H; subst p; try lia;
    destruct i as [|[|[|[|i]]]]; try lia; cbn [nth]; assumption.
Qed.

Lemma decode_rune_len : forall p r n, decode_rune p = (r, n) -> (n <= length p)%nat.
Proof.
  intros p r n H. apply decode_rune_shape in H.
  destruct H; subst p; cbn [length]; lia.
Qed.

(* ------------------------------------------------------------------ *)
(* DecodeLastRune: a list-level view                                   *)
(* ------------------------------------------------------------------ *)

Lemma scan_back_le : forall f p s lim, (scan_back f p s lim <= s)%Z.
Proof.
  induction f as [|f IH]; intros p s lim; cbn [scan_back]; [lia|].
  destruct (s <? lim)%Z; [lia|].
  destruct (rune_start _); [lia|].
  specialize (IH p (s - 1)%Z lim). lia.
Qed.

Lemma last_nth_Z : forall (x : bytes) a,
  nth (Z.to_nat (Z.of_nat (length (x ++ [a])) - 1)) (x ++ [a]) 0 = a.
Proof.
  intros x a. rewrite app_length. cbn [length].
  replace (Z.to_nat (Z.of_nat (length x + 1) - 1)) with (length x + 0)%nat by lia.
  rewrite app_nth2_plus. reflexivity.
Qed.

(* When the last byte is not ASCII, DecodeLastRune either fails, or decodes
   from an offset k at least two bytes before the end (or 0), and the rune
   decoded there reaches the end exactly. *)
Lemma decode_last_rune_hi : forall (x : bytes) a, a <? 128 = false ->
  decode_last_rune (x ++ [a]) = (RuneError, 1%nat) \/
  exists k r n, (k <= length x - 1)%nat /\ (k + n = length x + 1)%nat /\
                decode_rune (skipn k (x ++ [a])) = (r, n) /\
                decode_last_rune (x ++ [a]) = (r, n).
Proof.
  intros x a Ha. unfold decode_last_rune.
  rewrite last_nth_Z, Ha.
  set (p := x ++ [a]).
  assert (Hlen : length p = (length x + 1)%nat).
  { unfold p. rewrite app_length. reflexivity. }
  set (e := Z.of_nat (length p)).
  destruct (e =? 0)%Z eqn:E0; [apply Z.eqb_eq in E0; lia|].
  cbv zeta.
  pose proof (scan_back_le 5 p (e - 2) (Z.max 0 (e - 4))) as Hsb.
  set (st := Z.max 0 (scan_back 5 p (e - 2) (Z.max 0 (e - 4)))) in *.
  destruct (decode_rune (skipn (Z.to_nat st) p)) as [r n] eqn:D.
  destruct (st + Z.of_nat n =? e)%Z eqn:E; [|left; reflexivity].
  apply Z.eqb_eq in E. right. exists (Z.to_nat st), r, n.
  repeat split; try assumption; lia.
Qed.

Lemma nth_len_app : forall (y t : bytes), nth (length y) (y ++ t) 0 = nth 0 t 0.
Proof.
  intros y t. replace (length y) with (length y + 0)%nat at 1 by lia.
  apply app_nth2_plus.
Qed.

Lemma is_cont_226 : is_cont 226 = false.
Proof. reflexivity. Qed.

Lemma tail1_invalid : forall x : bytes, decode_last_rune (x ++ [226]) = (RuneError, 1%nat).
Proof.
  intros x. destruct (decode_last_rune_hi x 226 eq_refl) as [H|(k & r & n & Hk & Hn & D & H)];
    [exact H|]. rewrite H. clear H.
  rewrite skipn_app in D.
  replace (k - length x)%nat with 0%nat in D by lia. cbn [skipn] in D.
  pose proof (skipn_length k x) as Hy. set (y := skipn k x) in *.
  destruct (Nat.eq_dec n 1) as [->|Hn1].
  - destruct y; [|cbn [length] in Hy; lia]. cbn in D. symmetry. exact D.
  - pose proof (decode_rune_cont _ _ _ (length y) D) as C.
    rewrite nth_len_app in C. cbn [nth] in C. rewrite is_cont_226 in C.
    assert (1 <= length y < n)%nat by lia. intuition discriminate.
Qed.

Lemma tail2_invalid : forall x : bytes, decode_last_rune (x ++ [226; 128]) = (RuneError, 1%nat).
Proof.
  intros x. change [226; 128] with ([226] ++ [128]). rewrite app_assoc.
  destruct (decode_last_rune_hi (x ++ [226]) 128 eq_refl) as [H|(k & r & n & Hk & Hn & D & H)];
    [exact H|]. exfalso. clear H.
  rewrite app_length in Hk, Hn. cbn [length] in Hk, Hn.
  rewrite <- app_assoc in D. cbn [app] in D.
  rewrite skipn_app in D.
  replace (k - length x)%nat with 0%nat in D by lia. cbn [skipn] in D.
  pose proof (skipn_length k x) as Hy. set (y := skipn k x) in *.
  destruct (Nat.eq_dec n 2) as [->|Hn1].
  - destruct y; [|cbn [length] in Hy; lia]. cbn in D. discriminate.
  - pose proof (decode_rune_cont _ _ _ (length y) D) as C.
    rewrite nth_len_app in C. cbn [nth] in C. rewrite is_cont_226 in C.
    assert (1 <= length y < n)%nat by lia. intuition discriminate.
Qed.

Theorem partial_tail_invalid : forall b : bytes, pstb 0 b <> 0%N -> last_invalid b = true.
Proof.
  intros b H. apply pstb_nonzero_tail in H. destruct H as [x [-> | ->]]; unfold last_invalid.
  - rewrite tail1_invalid. reflexivity.
  - rewrite tail2_invalid. reflexivity.
Qed.

(* ------------------------------------------------------------------ *)
(* DecodeLastRune on a buffer that ends with a complete rune           *)
(* ------------------------------------------------------------------ *)

Lemma scan_back_stop : forall f p s lim b, (lim <= s)%Z ->
  nth (Z.to_nat s) p 0 = b -> rune_start b = true -> scan_back (S f) p s lim = s.
Proof.
  intros f p s lim b Hl Hn Hb. cbn [scan_back].
  destruct (s <? lim)%Z eqn:E; [apply Z.ltb_lt in E; lia|].
  rewrite Hn, Hb. reflexivity.
Qed.

Lemma scan_back_step : forall f p s lim b, (lim <= s)%Z ->
  nth (Z.to_nat s) p 0 = b -> rune_start b = false ->
  scan_back (S f) p s lim = scan_back f p (s - 1) lim.
Proof.
  intros f p s lim b Hl Hn Hb. cbn [scan_back].
  destruct (s <? lim)%Z eqn:E; [apply Z.ltb_lt in E; lia|].
  rewrite Hn, Hb. reflexivity.
Qed.

Lemma nth_Z_app : forall (v t : bytes) k j, Z.to_nat k = (length v + j)%nat ->
  nth (Z.to_nat k) (v ++ t) 0 = nth j t 0.
Proof. intros v t k j ->. apply app_nth2_plus. Qed.

Lemma skipn_Z_app : forall (v t : bytes) k, Z.to_nat k = length v ->
  skipn (Z.to_nat k) (v ++ t) = t.
Proof.
  intros v t k ->. rewrite skipn_app, skipn_all, Nat.sub_diag. reflexivity.
Qed.

Lemma cont_not_start : forall b, is_cont b = true -> rune_start b = false.
Proof. intros b H. unfold rune_start. rewrite H. reflexivity. Qed.

Lemma cont_hi : forall b, is_cont b = true -> b <? 128 = false.
Proof.
  intros b. unfold is_cont, in_rng. rewrite andb_true_iff, !N.leb_le.
  intros [H _]. apply N.ltb_ge. exact H.
Qed.

Lemma dlr_2 : forall (v : bytes) b0 b1 r, rune_start b0 = true -> is_cont b1 = true ->
  decode_rune [b0; b1] = (r, 2%nat) -> decode_last_rune (v ++ [b0; b1]) = (r, 2%nat).
Proof.
  intros v b0 b1 r S0 C1 D. unfold decode_last_rune.
  set (p := v ++ [b0; b1]).
  assert (Hlen : length p = (length v + 2)%nat) by (unfold p; rewrite app_length; reflexivity).
  set (e := Z.of_nat (length p)).
  destruct (e =? 0)%Z eqn:E0; [apply Z.eqb_eq in E0; lia|].
  unfold p at 1. rewrite (nth_Z_app v _ _ 1%nat) by lia. cbn [nth].
  rewrite (cont_hi _ C1). cbv zeta.
  rewrite (scan_back_stop _ _ _ _ b0); [| lia | unfold p; rewrite (nth_Z_app v _ _ 0%nat) by lia; reflexivity | exact S0].
  unfold p at 1. rewrite skipn_Z_app by lia. rewrite D.
  destruct (_ =? e)%Z eqn:E; [reflexivity|]. apply Z.eqb_neq in E. lia.
Qed.

Lemma dlr_3 : forall (v : bytes) b0 b1 b2 r, rune_start b0 = true ->
  is_cont b1 = true -> is_cont b2 = true ->
  decode_rune [b0; b1; b2] = (r, 3%nat) -> decode_last_rune (v ++ [b0; b1; b2]) = (r, 3%nat).
Proof.
  intros v b0 b1 b2 r S0 C1 C2 D. unfold decode_last_rune.
  set (p := v ++ [b0; b1; b2]).
  assert (Hlen : length p = (length v + 3)%nat) by (unfold p; rewrite app_length; reflexivity).
  set (e := Z.of_nat (length p)).
  destruct (e =? 0)%Z eqn:E0; [apply Z.eqb_eq in E0; lia|].
  unfold p at 1. rewrite (nth_Z_app v _ _ 2%nat) by lia. cbn [nth].
  rewrite (cont_hi _ C2). cbv zeta.
  rewrite (scan_back_step _ _ _ _ b1);
    [| lia | unfold p; rewrite (nth_Z_app v _ _ 1%nat) by lia; reflexivity
     | apply cont_not_start; exact C1].
  rewrite (scan_back_stop _ _ _ _ b0);
    [| lia | unfold p; rewrite (nth_Z_app v _ _ 0%nat) by lia; reflexivity | exact S0].
  unfold p at 1. rewrite skipn_Z_app by lia. rewrite D.
  destruct (_ =? e)%Z eqn:E; [reflexivity|]. apply Z.eqb_neq in E. lia.
Qed.

Lemma dlr_4 : forall (v : bytes) b0 b1 b2 b3 r, rune_start b0 = true ->
  is_cont b1 = true -> is_cont b2 = true -> is_cont b3 = true ->
  decode_rune [b0; b1; b2; b3] = (r, 4%nat) ->
  decode_last_rune (v ++ [b0; b1; b2; b3]) = (r, 4%nat).
Proof.
  intros v b0 b1 b2 b3 r S0 C1 C2 C3 D. unfold decode_last_rune.
  set (p := v ++ [b0; b1; b2; b3]).
  assert (Hlen : length p = (length v + 4)%nat) by (unfold p; rewrite app_length; reflexivity).
  set (e := Z.of_nat (length p)).
  destruct (e =? 0)%Z eqn:E0; [apply Z.eqb_eq in E0; lia|].
  unfold p at 1. rewrite (nth_Z_app v _ _ 3%nat) by lia. cbn [nth].
  rewrite (cont_hi _ C3). cbv zeta.
  rewrite (scan_back_step _ _ _ _ b2);
    [| lia | unfold p; rewrite (nth_Z_app v _ _ 2%nat) by lia; reflexivity
     | apply cont_not_start; exact C2].
  rewrite (scan_back_step _ _ _ _ b1);
    [| lia | unfold p; rewrite (nth_Z_app v _ _ 1%nat) by lia; reflexivity
     | apply cont_not_start; exact C1].
  rewrite (scan_back_stop _ _ _ _ b0);
    [| lia | unfold p; rewrite (nth_Z_app v _ _ 0%nat) by lia; reflexivity | exact S0].
  unfold p at 1. rewrite skipn_Z_app by lia. rewrite D.
  destruct (_ =? e)%Z eqn:E; [reflexivity|]. apply Z.eqb_neq in E. lia.
Qed.

Lemma dlr_1 : forall (v : bytes) b0, b0 <? 128 = true ->
  decode_last_rune (v ++ [b0]) = (zb b0, 1%nat).
Proof.
  intros v b0 H. unfold decode_last_rune. rewrite last_nth_Z, H.
  destruct (_ =? 0)%Z eqn:E0; [|reflexivity].
  apply Z.eqb_eq in E0. rewrite app_length in E0. cbn [length] in E0. lia.
Qed.

(* e is a complete, successfully decoded rune *)
Definition complete_rune (e : bytes) : Prop :=
  exists r, decode_rune e = (r, length e) /\ e <> [] /\ ~ (length e = 1%nat /\ r = RuneError).

Lemma complete_last_valid : forall v e, complete_rune e -> last_invalid (v ++ e) = false.
Proof.
  intros v e (r & D & Hne & Hok). unfold last_invalid.
  pose proof (decode_rune_shape _ _ _ D) as S.
  remember (length e) as n eqn:Hn.
  destruct S as [ | b0 t -> H0 Hr | b0 t -> H0 Hr | b0 b1 t -> H0 S0 C1
                | b0 b1 b2 t -> H0 S0 C1 C2 | b0 b1 b2 b3 t -> H0 S0 C1 C2 C3 ].
  - contradiction.
  - destruct t; [|discriminate]. rewrite dlr_1 by exact H0.
    cbn [Nat.eqb andb]. apply Z.eqb_neq. apply N.ltb_lt in H0. unfold zb, RuneError. lia.
  - exfalso. apply Hok. auto.
  - destruct t; [|discriminate]. rewrite (dlr_2 v b0 b1 r); auto.
  - destruct t; [|discriminate]. rewrite (dlr_3 v b0 b1 b2 r); auto.
  - destruct t; [|discriminate]. rewrite (dlr_4 v b0 b1 b2 b3 r); auto.
Qed.

Lemma decode_rune_nonempty : forall p r n, decode_rune p = (r, n) -> p <> [] -> (1 <= n)%nat.
Proof.
  intros p r n H Hp. apply decode_rune_shape in H. destruct H; try lia. contradiction.
Qed.

Lemma valid_aux_last : forall f p, (length p <= f)%nat -> valid_utf8_aux f p = true -> p <> [] ->
  exists q e, p = q ++ e /\ complete_rune e.
Proof.
  induction f as [|f IH]; intros p Hl Hv Hp.
  { destruct p; [contradiction|]. cbn [length] in Hl. lia. }
  cbn [valid_utf8_aux] in Hv.
  destruct p as [|b0 t]; [contradiction|].
  set (p := b0 :: t) in *.
  destruct (decode_rune p) as [r n] eqn:D.
  destruct (Nat.eqb n 1 && (r =? RuneError)%Z) eqn:F; [discriminate|].
  pose proof (decode_rune_nonempty _ _ _ D Hp) as Hn1.
  pose proof (decode_rune_len _ _ _ D) as Hn2.
  pose proof (skipn_length n p) as Hs.
  destruct (skipn n p) as [|c s] eqn:Es.
  - exists [], p. split; [reflexivity|]. cbn [length] in Hs.
    assert (n = length p) by lia. subst n.
    exists r. repeat split; auto.
    intros [H1 H2]. rewrite H1, H2 in F. discriminate.
  - destruct (IH (c :: s)) as (q & e & Hq & He); [lia|exact Hv|discriminate|].
    exists (firstn n p ++ q), e. split; [|exact He].
    rewrite <- app_assoc, <- Hq, <- Es. symmetry. apply firstn_skipn.
Qed.

Theorem valid_suffix_last_valid : forall v p : bytes,
  valid_utf8 p = true -> p <> [] -> last_invalid (v ++ p) = false.
Proof.
  intros v p Hv Hp. unfold valid_utf8 in Hv.
  destruct (valid_aux_last (length p) p (le_n _) Hv Hp) as (q & e & -> & He).
  rewrite app_assoc. apply complete_last_valid. exact He.
Qed.

(* ------------------------------------------------------------------ *)
(* Validity of concatenations                                          *)
(* ------------------------------------------------------------------ *)

Lemma valid_aux_fuel : forall f1 f2 p, (length p <= f1)%nat -> (length p <= f2)%nat ->
  valid_utf8_aux f1 p = valid_utf8_aux f2 p.
Proof.
  induction f1 as [|f1 IH]; intros f2 p H1 H2.
  { destruct p; [|cbn [length] in H1; lia]. destruct f2; reflexivity. }
  destruct f2 as [|f2].
  { destruct p; [reflexivity|cbn [length] in H2; lia]. }
  cbn [valid_utf8_aux]. destruct p as [|b0 t]; [reflexivity|].
  set (p := b0 :: t) in *.
  destruct (decode_rune p) as [r n] eqn:D.
  destruct (Nat.eqb n 1 && (r =? RuneError)%Z); [reflexivity|].
  assert (p <> []) as Hp by discriminate.
  pose proof (decode_rune_nonempty _ _ _ D Hp).
  pose proof (skipn_length n p).
  apply IH; lia.
Qed.

Lemma valid_aux_ge : forall f p, (length p <= f)%nat -> valid_utf8_aux f p = valid_utf8 p.
Proof. intros. unfold valid_utf8. apply valid_aux_fuel; lia. Qed.

(* A successful decode only looks at the bytes it consumes. *)
Lemma decode_rune_app : forall a b r n, decode_rune a = (r, n) -> a <> [] ->
  ~ (n = 1%nat /\ r = RuneError) -> decode_rune (a ++ b) = (r, n).
Proof.
  intros a b r n D Ha Hok.
  assert (ERR : (RuneError, 1%nat) = (r, n) -> forall X, X = (r, n)).
  { intros H. inversion H. subst. exfalso. apply Hok. auto. }
  destruct a as [|b0 t]; [contradiction|].
  cbn [app]. unfold decode_rune in *.
  destruct (b0 <? 128); [exact D|].
  destruct (in_rng 194 223 b0).
  { destruct t as [|b1 t]; [apply ERR; exact D|]. exact D. }
  destruct (in_rng 224 239 b0).
  { destruct t as [|b1 [|b2 t]]; try (apply ERR; exact D). exact D. }
  destruct (in_rng 240 244 b0).
  { destruct t as [|b1 [|b2 [|b3 t]]]; try (apply ERR; exact D). exact D. }
  exact D.
Qed.

Lemma valid_aux_app : forall f a b, (length a <= f)%nat ->
  valid_utf8_aux f a = true -> valid_utf8 b = true ->
  valid_utf8_aux (f + length b) (a ++ b) = true.
Proof.
  induction f as [|f IH]; intros a b Hl Ha Hb.
  { destruct a; [|cbn [length] in Hl; lia]. exact Hb. }
  destruct a as [|b0 t].
  { cbn [app]. rewrite valid_aux_ge by lia. exact Hb. }
  set (a := b0 :: t) in *.
  change (S f + length b)%nat with (S (f + length b)).
  cbn [valid_utf8_aux] in *.
  assert (a <> []) as Hne by discriminate.
  destruct (decode_rune a) as [r n] eqn:D.
  destruct (Nat.eqb n 1 && (r =? RuneError)%Z) eqn:F; [discriminate|].
  assert (Hok : ~ (n = 1%nat /\ r = RuneError)).
  { intros [-> ->]. discriminate. }
  pose proof (decode_rune_app a b r n D Hne Hok) as D'.
  pose proof (decode_rune_nonempty _ _ _ D Hne) as Hn1.
  pose proof (decode_rune_len _ _ _ D) as Hn2.
  unfold a at 1. cbn [app]. fold a. change (b0 :: t ++ b) with (a ++ b).
  rewrite D', F.
  rewrite skipn_app. replace (n - length a)%nat with 0%nat by lia. cbn [skipn].
  apply IH; [|exact Ha|exact Hb].
  rewrite skipn_length. unfold a in *. cbn [length] in *. lia.
Qed.

Lemma valid_utf8_app : forall a b, valid_utf8 a = true -> valid_utf8 b = true ->
  valid_utf8 (a ++ b) = true.
Proof.
  intros a b Ha Hb. unfold valid_utf8 at 1. rewrite app_length.
  apply valid_aux_app; [lia|exact Ha|exact Hb].
Qed.

(* ------------------------------------------------------------------ *)
(* Encodings are valid                                                 *)
(* ------------------------------------------------------------------ *)

Lemma valid_1 : forall b0, b0 <? 128 = true -> valid_utf8 [b0] = true.
Proof.
  intros b0 H. unfold valid_utf8. cbn [length valid_utf8_aux decode_rune]. rewrite H.
  cbn [Nat.eqb andb].
  destruct (zb b0 =? RuneError)%Z eqn:E; [|reflexivity].
  apply Z.eqb_eq in E. apply N.ltb_lt in H. unfold zb, RuneError in E. lia.
Qed.

Lemma rng_hi : forall lo hi b0, 128 <= lo -> in_rng lo hi b0 = true -> b0 <? 128 = false.
Proof.
  intros lo hi b0 Hlo. unfold in_rng. rewrite andb_true_iff, !N.leb_le.
  intros [H _]. apply N.ltb_ge. lia.
Qed.

Lemma rng_excl : forall lo hi lo' hi' b0, hi < lo' -> in_rng lo' hi' b0 = true ->
  in_rng lo hi b0 = false.
Proof.
  intros lo hi lo' hi' b0 Hlt. unfold in_rng. rewrite andb_true_iff, !N.leb_le.
  intros [H _]. apply andb_false_iff. right. apply N.leb_gt. lia.
Qed.

Lemma valid_2 : forall b0 b1, in_rng 194 223 b0 = true -> is_cont b1 = true ->
  valid_utf8 [b0; b1] = true.
Proof.
  intros b0 b1 H0 H1. unfold valid_utf8. cbn [length valid_utf8_aux decode_rune].
  rewrite (rng_hi 194 223 b0 ltac:(lia) H0), H0, H1. reflexivity.
Qed.

Lemma valid_3 : forall b0 b1 b2, in_rng 224 239 b0 = true ->
  in_rng (if b0 =? 224 then 160 else 128) (if b0 =? 237 then 159 else 191) b1 = true ->
  is_cont b2 = true -> valid_utf8 [b0; b1; b2] = true.
Proof.
  intros b0 b1 b2 H0 H1 H2. unfold valid_utf8. cbn [length valid_utf8_aux decode_rune].
  rewrite (rng_hi 224 239 b0 ltac:(lia) H0), (rng_excl 194 223 224 239 b0 ltac:(lia) H0), H0.
  cbv zeta. rewrite H1, H2. reflexivity.
Qed.

Lemma valid_4 : forall b0 b1 b2 b3, in_rng 240 244 b0 = true ->
  in_rng (if b0 =? 240 then 144 else 128) (if b0 =? 244 then 143 else 191) b1 = true ->
  is_cont b2 = true -> is_cont b3 = true -> valid_utf8 [b0; b1; b2; b3] = true.
Proof.
  intros b0 b1 b2 b3 H0 H1 H2 H3. unfold valid_utf8. cbn [length valid_utf8_aux decode_rune].
  rewrite (rng_hi 240 244 b0 ltac:(lia) H0), (rng_excl 194 223 240 244 b0 ltac:(lia) H0),
    (rng_excl 224 239 240 244 b0 ltac:(lia) H0), H0.
  cbv zeta. rewrite H1, H2, H3. reflexivity.
Qed.

Lemma in_rng_intro : forall lo hi x, lo <= x -> x <= hi -> in_rng lo hi x = true.
Proof.
  intros. unfold in_rng. apply andb_true_iff. split; apply N.leb_le; assumption.
Qed.

Lemma encode_rune_valid : forall r, valid_utf8 (encode_rune r) = true.
Proof.
  intros r. unfold encode_rune, valid_rune, MaxRune, nz.
  destruct ((0 <=? r) && (r <=? 127))%Z eqn:E1.
  { apply andb_true_iff in E1. destruct E1 as [A B]. apply Z.leb_le in A, B.
    apply valid_1. apply N.ltb_lt. lia. }
  destruct ((0 <=? r) && (r <=? 2047))%Z eqn:E2.
  { apply andb_true_iff in E2. destruct E2 as [A B]. apply Z.leb_le in A, B.
    apply andb_false_iff in E1. rewrite !Z.leb_gt in E1.
    apply valid_2; apply in_rng_intro;
      (let Hq := fresh in let Hm := fresh in
       pose proof (Z.div_mod r 64 ltac:(lia)) as Hq;
       pose proof (Z.mod_pos_bound r 64 ltac:(lia)) as Hm; lia). }
  destruct (negb _) eqn:E3.
  { reflexivity. }
  apply negb_false_iff in E3.
  apply andb_false_iff in E1, E2. rewrite !Z.leb_gt in E1, E2.
  apply orb_true_iff in E3. rewrite !andb_true_iff, !Z.leb_le, !Z.ltb_lt in E3.
  pose proof (Z.div_mod r 64 ltac:(lia)) as Hq1.
  pose proof (Z.mod_pos_bound r 64 ltac:(lia)) as Hm1.
  pose proof (Z.div_mod (r / 64) 64 ltac:(lia)) as Hq2.
  pose proof (Z.mod_pos_bound (r / 64) 64 ltac:(lia)) as Hm2.
  assert (Hd2 : (r / 4096 = r / 64 / 64)%Z) by (rewrite Z.div_div by lia; reflexivity).
  destruct (r <=? 65535)%Z eqn:E4.
  { apply Z.leb_le in E4.
    apply valid_3.
    - apply in_rng_intro; lia.
    - destruct (_ =? 224) eqn:F1; destruct (_ =? 237) eqn:F2;
        try apply N.eqb_eq in F1; try apply N.eqb_eq in F2;
        apply in_rng_intro; lia.
    - apply in_rng_intro; lia. }
  apply Z.leb_gt in E4.
  pose proof (Z.div_mod (r / 4096) 64 ltac:(lia)) as Hq3.
  pose proof (Z.mod_pos_bound (r / 4096) 64 ltac:(lia)) as Hm3.
  assert (Hd3 : (r / 262144 = r / 4096 / 64)%Z) by (rewrite Z.div_div by lia; reflexivity).
  apply valid_4.
  - apply in_rng_intro; lia.
  - destruct (_ =? 240) eqn:F1; destruct (_ =? 244) eqn:F2;
      try apply N.eqb_eq in F1; try apply N.eqb_eq in F2;
      apply in_rng_intro; lia.
  - apply in_rng_intro; lia.
  - apply in_rng_intro; lia.
Qed.

Print Assumptions partial_tail_invalid.
Print Assumptions valid_suffix_last_valid.
Print Assumptions valid_utf8_app.
Print Assumptions encode_rune_valid.
