(* Layer 0: model of the parts of Go's unicode/utf8 used by the library.
   This is standard-library code, not repository code: modelled and validated
   by differential testing (see DESIGN.md §7).  Runes are Z. *)
From Redact Require Export Bytes.
Open Scope N_scope.

Definition RuneError : Z := 65533%Z.
Definition MaxRune : Z := 1114111%Z.

Definition in_rng (lo hi x : N) : bool := (lo <=? x) && (x <=? hi).
Definition is_cont (x : N) : bool := in_rng 128 191 x.

(* utf8.RuneStart *)
Definition rune_start (b : N) : bool := negb (is_cont b).

Definition zb (x : N) : Z := Z.of_N x.

(* utf8.DecodeRune: (rune, size).  Empty input: (RuneError, 0). *)
Definition decode_rune (p : bytes) : Z * nat :=
  match p with
  | [] => (RuneError, 0%nat)
  | b0 :: r =>
    if b0 <? 128 then (zb b0, 1%nat)
    else if in_rng 194 223 b0 then
      match r with
      | b1 :: _ => if is_cont b1 then (zb (N.land b0 31) * 64 + zb (N.land b1 63), 2%nat)%Z
                   else (RuneError, 1%nat)
      | _ => (RuneError, 1%nat)
      end
    else if in_rng 224 239 b0 then
      let lo := if b0 =? 224 then 160 else 128 in
      let hi := if b0 =? 237 then 159 else 191 in
      match r with
      | b1 :: b2 :: _ =>
        if in_rng lo hi b1 && is_cont b2
        then ((zb (N.land b0 15) * 64 + zb (N.land b1 63)) * 64 + zb (N.land b2 63), 3%nat)%Z
        else (RuneError, 1%nat)
      | _ => (RuneError, 1%nat)
      end
    else if in_rng 240 244 b0 then
      let lo := if b0 =? 240 then 144 else 128 in
      let hi := if b0 =? 244 then 143 else 191 in
      match r with
      | b1 :: b2 :: b3 :: _ =>
        if in_rng lo hi b1 && is_cont b2 && is_cont b3
        then (((zb (N.land b0 7) * 64 + zb (N.land b1 63)) * 64 + zb (N.land b2 63)) * 64
              + zb (N.land b3 63), 4%nat)%Z
        else (RuneError, 1%nat)
      | _ => (RuneError, 1%nat)
      end
    else (RuneError, 1%nat)
  end.

(* Backward scan of DecodeLastRune: starting at index start (as Z), go down to
   lim looking for a rune start. Returns the index found, or lim-1. *)
Fixpoint scan_back (fuel : nat) (p : bytes) (start lim : Z) : Z :=
  match fuel with
  | O => start
  | S f =>
    if (start <? lim)%Z then start
    else if rune_start (nth (Z.to_nat start) p 0) then start
    else scan_back f p (start - 1) lim
  end.

(* utf8.DecodeLastRune *)
Definition decode_last_rune (p : bytes) : Z * nat :=
  let e := Z.of_nat (length p) in
  if (e =? 0)%Z then (RuneError, 0%nat) else
  let last := nth (Z.to_nat (e - 1)) p 0 in
  if last <? 128 then (zb last, 1%nat) else
  let lim := Z.max 0 (e - 4) in
  let st := scan_back 5 p (e - 2) lim in
  let st := Z.max 0 st in
  let '(r, size) := decode_rune (skipn (Z.to_nat st) p) in
  if (st + Z.of_nat size =? e)%Z then (r, size) else (RuneError, 1%nat).

(* The test at the end of InternalEscapeBytes. *)
Definition last_invalid (p : bytes) : bool :=
  let '(r, s) := decode_last_rune p in Nat.eqb s 1 && (r =? RuneError)%Z.

(* utf8.ValidRune *)
Definition valid_rune (r : Z) : bool :=
  ((0 <=? r) && (r <? 55296) || (57343 <? r) && (r <=? MaxRune))%Z.

(* utf8.RuneLen: -1 for invalid runes *)
Definition rune_len (r : Z) : Z :=
  (if r <? 0 then -1
   else if r <=? 127 then 1
   else if r <=? 2047 then 2
   else if (55296 <=? r) && (r <=? 57343) then -1
   else if r <=? 65535 then 3
   else if r <=? MaxRune then 4
   else -1)%Z.

Definition nz (z : Z) : N := Z.to_N z.

(* utf8.EncodeRune / AppendRune: invalid runes encode as U+FFFD. *)
Definition encode_rune (r : Z) : bytes :=
  (if (0 <=? r) && (r <=? 127) then [nz r]
   else if (0 <=? r) && (r <=? 2047) then [nz (192 + r / 64); nz (128 + r mod 64)]
   else if negb (valid_rune r) then [239; 191; 189]%N
   else if r <=? 65535 then [nz (224 + r / 4096); nz (128 + (r / 64) mod 64); nz (128 + r mod 64)]
   else [nz (240 + r / 262144); nz (128 + (r / 4096) mod 64); nz (128 + (r / 64) mod 64);
         nz (128 + r mod 64)])%Z.

(* utf8.RuneCount *)
Fixpoint rune_count_aux (fuel : nat) (p : bytes) : nat :=
  match fuel with
  | O => 0%nat
  | S f =>
    match p with
    | [] => 0%nat
    | _ => let '(_, n) := decode_rune p in S (rune_count_aux f (skipn n p))
    end
  end.
Definition rune_count (p : bytes) : nat := rune_count_aux (length p) p.

(* utf8.Valid *)
Fixpoint valid_utf8_aux (fuel : nat) (p : bytes) : bool :=
  match fuel with
  | O => true
  | S f =>
    match p with
    | [] => true
    | _ => let '(r, n) := decode_rune p in
           if Nat.eqb n 1 && (r =? RuneError)%Z then false else valid_utf8_aux f (skipn n p)
    end
  end.
Definition valid_utf8 (p : bytes) : bool := valid_utf8_aux (length p) p.
