(* Layer 2: the invariant of reachable Buffer states (definitions only; the
   proofs are in BufInvP.v).  The boolean form is extracted and evaluated on
   every state the implementation goes through in the correspondence runs. *)
From Redact Require Export Ops.
Open Scope N_scope.

(* The validated prefix V is good with envelope state opn. *)
Definition goodv (V : bytes) (opn : bool) : bool :=
  match wf_st false (lex V) with
  | Some o => Bool.eqb o opn
  | None => false
  end
  && mcl (lex V) && linesafe (lex V).

Definition invb (b : buffer) : bool :=
  (validUntil b <=? length (buf b))%nat &&
  let V := firstn (validUntil b) (buf b) in
  let P := skipn (validUntil b) (buf b) in
  match bmode b, markerOpen b with
  | MUnsafe, true => goodv V true
  | MUnsafe, false => match P with [] => goodv V false | _ => false end
  | MSafe, false => goodv V false
  | MRaw, false => goodv (buf b) false
  | _, true => false
  end.

(* Raw-mode payloads must be well-formed, marker-closed and line-safe. *)
Definition raw_payload_ok (p : bytes) : bool := redactableb p && linesafe (lex p).

Definition op_ok (b : buffer) (o : op) : bool :=
  match bmode b with
  | MRaw =>
    match o with
    | OWrite p => raw_payload_ok p
    | OWriteByte c => raw_payload_ok [c]
    | OWriteRune r => raw_payload_ok (encode_rune r)
    | _ => true
    end
  | _ => true
  end.

Fixpoint rawok_from (b : buffer) (ops : list op) : bool :=
  match ops with
  | [] => true
  | o :: r => op_ok b o && rawok_from (fst (step b o)) r
  end.
Definition rawok (ops : list op) : bool := rawok_from init ops.
