(* Layer 4 proofs: D4, the per-leaf guard.  A leaf operand (bool, integer, float,
   string of any named or unnamed type) that is not declared safe (not a
   SafeValue, not of a registered type, no Safe() around it) and is printed
   without an override with a verb that is valid for its kind makes exactly these
   Buffer calls: SetMode(unsafe), then writes only - the digits, the sign, the
   padding, the quotes, the 0x prefix: everything -, then SetMode(previous mode).
   This holds at top level (printArg) and for elements of containers
   (printValue at depth > 0), for every flag, width and precision.
   Dually an operand that IS declared safe (SafeValue, registered type) is
   bracketed by SetMode(safe) ... SetMode(previous) and nothing in between
   switches to unsafe mode, whatever the operand is (containers, user methods
   that call back into the printer). *)
From Redact Require Import Bytes Tokens Utf8 Buffer Ops BufInv Fmt Value LBuf Printer BufInvP Hoare Discipline Keeps.
From Coq Require Import String.
Import List ListNotations.
Open Scope Z_scope.

(* computations that only write (and touch neither the override nor the mode) *)
Definition wonly {A} (m : M A) : Prop :=
  forall s, exists d, Forall is_write d /\ rlog (pl (snd (m s))) = d ++ rlog (pl s) /\ povr (snd (m s)) = povr s.

Lemma wonly_ret {A} (a : A) : wonly (ret a).
Proof. intros s. exists []. cbn. auto. Qed.
Lemma wonly_const {A} (r : res A) : wonly (fun s => (r, s)).
Proof. intros s. exists []. cbn. auto. Qed.
Lemma wonly_bind {A B} (m : M A) (k : A -> M B) : wonly m -> (forall a, wonly (k a)) -> wonly (bind m k).
Proof.
  intros Hm Hk s. unfold bind. destruct (Hm s) as (d1 & F1 & E1 & O1).
  destruct (m s) as [[a|v| |w] s1]; cbn [snd] in *; try (exists d1; split; [|split]; assumption).
  destruct (Hk a s1) as (d2 & F2 & E2 & O2). exists (d2 ++ d1). split; [apply Forall_app; auto|].
  split; [rewrite E2, E1, app_assoc; reflexivity | congruence].
Qed.
Lemma wonly_getf : wonly getf. Proof. intros s. exists []. cbn. auto. Qed.
Lemma wonly_get : wonly Printer.get. Proof. intros s. exists []. cbn. auto. Qed.
Lemma wonly_of_opt {A} (o : option A) : wonly (of_opt o).
Proof. destruct o; [apply wonly_ret | apply wonly_const]. Qed.
Lemma wonly_modify (f : pst -> pst) : (forall s, pl (f s) = pl s /\ povr (f s) = povr s) -> wonly (modify f).
Proof. intros Hf s. exists []. unfold modify. cbn [snd]. destruct (Hf s) as [-> ->]. cbn. auto. Qed.
Lemma wonly_bop o : is_write o -> wonly (bop o).
Proof.
  intros Ho s. exists [o]. unfold bop. destruct (l_step (pl s) o) as [l' ob] eqn:E. cbn [snd].
  assert (l' = lset (pl s) o) as -> by (unfold lset; rewrite E; reflexivity).
  destruct s; cbn. repeat split. repeat constructor. exact Ho.
Qed.
Lemma wonly_w1 w : wonly (w1 w).
Proof. destruct w; cbn [w1]; (apply wonly_bind; [apply wonly_bop; exact Logic.I | intros; apply wonly_ret]). Qed.
Lemma wonly_wr ws : wonly (wr ws).
Proof. induction ws as [|w r IH]; cbn [wr]; [apply wonly_ret|]. apply wonly_bind; [apply wonly_w1 | intros; exact IH]. Qed.

Ltac wo1 :=
  match goal with
  | |- wonly (ret _) => apply wonly_ret
  | |- wonly (wr _) => apply wonly_wr
  | |- wonly (w1 _) => apply wonly_w1
  | |- wonly getf => apply wonly_getf
  | |- wonly Printer.get => apply wonly_get
  | |- wonly (of_opt _) => apply wonly_of_opt
  | |- wonly (bind _ _) => apply wonly_bind; [ | intros ?]
  | |- wonly (modify _) => apply wonly_modify; intros ?; split; reflexivity
  | |- wonly (if ?c then _ else _) => destruct c
  end.
Ltac wo := repeat wo1.

(* The shape of  defer p.startUnsafe().restore()  around a write-only body, no override active *)
Definition unsafe_bracketed (s s' : pst) : Prop :=
  povr s' = NoOvr /\
  exists d, Forall is_write d /\ rlog (pl s') = OMode (lmode (pl s)) :: d ++ OMode MUnsafe :: rlog (pl s).

Lemma bracket_unsafe_shape {A} (body : M A) s :
  wonly body -> povr s = NoOvr -> unsafe_bracketed s (snd (bracket start_unsafe body s)).
Proof.
  intros Hb Hv. unfold bracket, start_unsafe, bind, get_mode, Printer.get. rewrite Hv. cbn [ovr_eqb].
  rewrite setmode_state. unfold ret. cbn [fst snd].
  set (s1 := set_pl s (lset (pl s) (OMode MUnsafe))).
  destruct (Hb s1) as (d & Fd & Ed & Od).
  destruct (body s1) as [o s2]. cbn [snd] in *.
  rewrite restore_state. cbn [fst snd].
  split; [destruct s2; reflexivity|].
  exists d. split; [exact Fd|].
  destruct s2 as [l2 ? ? ? ? ? ? ? ? ? ?]; cbn in *. rewrite Ed.
  unfold s1. destruct s; cbn. reflexivity.
Qed.

(* flag updates in front of the bracket do not matter *)
Lemma shape_after_modify (f : pst -> pst) (m : M unit) s :
  (forall s, pl (f s) = pl s /\ povr (f s) = povr s) ->
  unsafe_bracketed (f s) (snd (m (f s))) -> unsafe_bracketed s (snd ((modify f ;;; m) s)).
Proof.
  intros Hf H. unfold bind, modify. cbn. destruct (Hf s) as [E1 E2].
  unfold unsafe_bracketed in *. rewrite E1 in H. exact H.
Qed.

Lemma isv_In verb str : isv verb str = true -> In verb (map Z.of_N (bs str)).
Proof.
  unfold isv. intros H. apply existsb_exists in H. destruct H as (c & Hc & E).
  apply Z.eqb_eq in E. subst verb. now apply in_map.
Qed.

(* closes a goal whose hypotheses say that verb is in a list of letters and differs from each of them *)
Ltac verb_cases Hk :=
  exfalso; apply isv_In in Hk; cbn in Hk;
  repeat (destruct Hk as [Hk|Hk]; [subst;
    repeat match goal with E : _ = false |- _ => vm_compute in E; try discriminate E; clear E end|]);
  exact Hk.

Section Leaf.
  Variable rec : recT.
  Variable env : env.

  Lemma fmt0x64_shape v l s : povr s = NoOvr -> unsafe_bracketed s (snd (fmt0x64 v l s)).
  Proof.
    intros Hv. unfold fmt0x64.
    change (unsafe_bracketed s (snd ((f <- getf ;; (modify (fun s0 => set_pf s0 (set_sharp (pf s0) l)) ;;;
              bracket start_unsafe (f0 <- getf ;; wr (fmt_integer f0 v 16 false 118 false) ;;;
                 modify (fun s0 => set_pf s0 (set_sharp (pf s0) (sharp (fl f))))))) s))).
    unfold bind at 1. unfold getf at 1. cbn iota beta.
    apply shape_after_modify; [intros; split; reflexivity|].
    apply bracket_unsafe_shape; [wo | destruct s; exact Hv].
  Qed.

  Definition int_verb (verb : Z) : bool := isv verb "vdboOxXcqU".
  Definition float_verb (verb : Z) : bool := isv verb "vbgGxXfeEF".
  Definition str_verb (verb : Z) : bool := isv verb "vsxXq".
  Definition bool_verb (verb : Z) : bool := isv verb "tv".

  Lemma fmtBool_shape b verb s : bool_verb verb = true -> povr s = NoOvr ->
    unsafe_bracketed s (snd (fmtBool rec b verb s)).
  Proof.
    intros Hk Hv. unfold fmtBool. unfold bool_verb in Hk. rewrite Hk.
    apply bracket_unsafe_shape; [wo | exact Hv].
  Qed.

  Lemma isv_cons verb a r : isv verb (String a r) = (Z.of_N (Ascii.N_of_ascii a) =? verb) || isv verb r.
  Proof. reflexivity. Qed.

  Lemma fmtInteger_shape v sg verb s : int_verb verb = true -> povr s = NoOvr ->
    unsafe_bracketed s (snd (fmtInteger rec env v sg verb s)).
  Proof.
    intros Hk Hv. unfold fmtInteger.
    assert (forall base up, unsafe_bracketed s (snd (bracket start_unsafe (f <- getf ;; wr (fmt_integer f v base sg verb up)) s))) as Hgo
      by (intros; apply bracket_unsafe_shape; [wo | exact Hv]).
    destruct (verb =? 118) eqn:E1.
    { unfold bind at 1. unfold getf at 1. cbn iota beta.
      destruct (sharpV (fl (pf s)) && negb sg); [apply fmt0x64_shape; exact Hv | apply Hgo]. }
    destruct (verb =? 100) eqn:E2; [apply Hgo|].
    destruct (verb =? 98) eqn:E3; [apply Hgo|].
    destruct (isv verb "oO") eqn:E4; [apply Hgo|].
    destruct (verb =? 120) eqn:E5; [apply Hgo|].
    destruct (verb =? 88) eqn:E6; [apply Hgo|].
    destruct (verb =? 99) eqn:E7; [apply bracket_unsafe_shape; [wo | exact Hv]|].
    destruct (verb =? 113) eqn:E8; [apply bracket_unsafe_shape; [wo | exact Hv]|].
    destruct (verb =? 85) eqn:E9; [apply bracket_unsafe_shape; [wo | exact Hv]|].
    unfold int_verb in Hk. verb_cases Hk.
  Qed.

  Lemma fmtFloat_shape bits size verb s : float_verb verb = true -> povr s = NoOvr ->
    unsafe_bracketed s (snd (fmtFloat rec env bits size verb s)).
  Proof.
    intros Hk Hv. unfold fmtFloat.
    assert (forall fc pr, unsafe_bracketed s (snd (bracket start_unsafe (f <- getf ;; ws <- of_opt (fmt_float (orc env) f bits size fc pr) ;; wr ws) s))) as Hgo
      by (intros; apply bracket_unsafe_shape; [wo | exact Hv]).
    destruct (verb =? 118) eqn:E1; [apply Hgo|].
    destruct (isv verb "bgGxX") eqn:E2; [apply Hgo|].
    destruct (isv verb "feE") eqn:E3; [apply Hgo|].
    destruct (verb =? 70) eqn:E4; [apply Hgo|].
    unfold float_verb in Hk. verb_cases Hk.
  Qed.

  Lemma fmtString_shape v verb s : str_verb verb = true -> povr s = NoOvr ->
    unsafe_bracketed s (snd (fmtString rec env v verb s)).
  Proof.
    intros Hk Hv. unfold fmtString.
    destruct (verb =? 118) eqn:E1; [apply bracket_unsafe_shape; [wo | exact Hv]|].
    destruct (verb =? 115) eqn:E2; [apply bracket_unsafe_shape; [wo | exact Hv]|].
    destruct (verb =? 120) eqn:E3; [apply bracket_unsafe_shape; [wo | exact Hv]|].
    destruct (verb =? 88) eqn:E4; [apply bracket_unsafe_shape; [wo | exact Hv]|].
    destruct (verb =? 113) eqn:E5; [apply bracket_unsafe_shape; [wo | exact Hv]|].
    unfold str_verb in Hk. verb_cases Hk.
  Qed.
End Leaf.

(* leaves: values of a basic kind (any type name, named or not) *)
Definition leaf_verb_ok (v : value) (verb : Z) : bool :=
  match v with
  | VBool _ _ => bool_verb verb
  | VInt _ _ | VUint _ _ => int_verb verb
  | VFloat _ _ _ => float_verb verb
  | VStr _ _ => str_verb verb
  | _ => false
  end.

Lemma leaf_print_kind_shape fuel rec env v verb depth ci s :
  leaf_verb_ok v verb = true -> povr s = NoOvr ->
  unsafe_bracketed s (snd (print_kind fuel rec env v verb depth ci s)).
Proof.
  intros Hk Hv. destruct v; try discriminate; destruct fuel; cbn [print_kind leaf_verb_ok] in *;
    first [ now apply fmtBool_shape | now apply fmtInteger_shape | now apply fmtFloat_shape | now apply fmtString_shape ].
Qed.

(* ---------- through printArg / printValue ---------- *)
Lemma snd_bind_ret {A B} (m : M A) (b : B) s0 : snd ((m ;;; ret b) s0) = snd (m s0).
Proof. unfold bind, ret. destruct (m s0) as [[a|x| |w] s1]; reflexivity. Qed.
Lemma leaf_verb_not_special v verb : leaf_verb_ok v verb = true ->
  (verb =? 84) = false /\ (verb =? 112) = false /\ (verb =? 119) = false.
Proof.
  intros H. destruct v; cbn [leaf_verb_ok] in H; try discriminate;
    unfold bool_verb, int_verb, float_verb, str_verb in H; apply isv_In in H; cbn in H;
    repeat (destruct H as [<-|H]; [repeat split; reflexivity|]); contradiction.
Qed.

(* a leaf has no methods: handleMethods declines without touching the state *)
Lemma handleMethods_leaf rec env v verb s :
  leaf_verb_ok v verb = true -> parg s = Some v -> handleMethods rec env verb s = (ROk false, s).
Proof.
  intros Hk Ha. destruct (leaf_verb_not_special v verb Hk) as (_ & _ & Hw).
  unfold handleMethods. unfold bind at 1. unfold Printer.get at 1. cbn iota beta.
  destruct (erroring s); [reflexivity|]. rewrite Ha, Hw. cbn [andb].
  unfold bind at 1. unfold ret at 1. cbn iota beta.
  destruct v; cbn [leaf_verb_ok] in Hk; try discriminate; destruct (negb (ovr_eqb (povr s) OvrUnsafe)); reflexivity.
Qed.

Lemma is_leaf_dyn v verb : leaf_verb_ok v verb = true -> v <> VNil /\ (forall tn e, v <> VIface tn e).
Proof. intros H. destruct v; try discriminate; split; intros; discriminate. Qed.

(* top level: p.printArg(v, verb) *)
Theorem unsafe_leaf_operand fuel env v verb s :
  leaf_verb_ok v verb = true -> is_safe_value v = false -> is_registered v = false ->
  povr s = NoOvr ->
  unsafe_bracketed s (snd (ev (S (S fuel)) env (CPrintArg v verb) s)).
Proof.
  intros Hk Hsv Hreg Hv. destruct (leaf_verb_not_special v verb Hk) as (HT & Hp & _).
  change (ev (S (S fuel)) env (CPrintArg v verb)) with (printArg (ev (S fuel) env) env v verb ;;; ret RU).
  set (rec := ev (S fuel) env).
  rewrite snd_bind_ret. unfold printArg. rewrite Hreg.
  assert ((match v with VSafe v0 _ => v0 | VUnsafe v0 => v0 | _ => v end) = v) as -> by (destruct v; try discriminate; reflexivity).
  assert ((match v with
           | VSafe _ _ => bracket start_safe_ovr (printArg_body rec env v verb)
           | VUnsafe _ => bracket start_unsafe_ovr (printArg_body rec env v verb)
           | _ => printArg_body rec env v verb end) = printArg_body rec env v verb) as -> by (destruct v; try discriminate; reflexivity).
  unfold printArg_body. rewrite Hsv. cbn [bracket_if]. unfold printArg_inner.
  apply shape_after_modify; [intros; split; reflexivity|].
  set (s1 := set_val (set_arg s (match v with VNil => None | _ => Some v end)) None).
  assert (povr s1 = NoOvr) as Hv1 by (unfold s1; destruct s; exact Hv).
  assert (lmode (pl s1) = lmode (pl s) /\ rlog (pl s1) = rlog (pl s)) as [Em El] by (unfold s1; destruct s; split; reflexivity).
  assert (parg s1 = Some v) as Ha by (unfold s1; destruct s; destruct v; try discriminate; reflexivity).
  cut (unsafe_bracketed s1 (snd ((if is_basic v then
            match v with
            | VBool _ b => fmtBool rec b verb
            | VInt _ u => fmtInteger rec env u true verb
            | VUint _ u => fmtInteger rec env u false verb
            | VFloat _ size bits => fmtFloat rec env bits size verb
            | VStr _ s0 => fmtString rec env s0 verb
            | VBytes t isnil s0 => fmtBytes rec env v s0 isnil verb (bs "[]byte")
            | _ => ret tt
            end
          else h <- rec (CHandleMethods verb) ;; if rbool h then ret tt else rec (CPrintValue v verb 0%nat true) ;;; ret tt) s1))).
  { intros H. unfold unsafe_bracketed in *. rewrite Em, El in H.
    destruct v; try discriminate; rewrite HT, Hp; exact H. }
  destruct (is_basic v).
  - destruct v; cbn [leaf_verb_ok] in Hk; try discriminate;
      first [ now apply fmtBool_shape | now apply fmtInteger_shape | now apply fmtFloat_shape | now apply fmtString_shape ].
  - unfold bind at 1. unfold rec at 1.
    change (ev (S fuel) env (CHandleMethods verb)) with (b <- handleMethods (ev fuel env) env verb ;; ret (RBo b)).
    unfold bind at 1.
    rewrite (handleMethods_leaf _ _ v verb s1 Hk Ha). unfold ret at 1. cbn iota beta. cbn [rbool].
    rewrite !snd_bind_ret. unfold rec.
    change (ev (S fuel) env (CPrintValue v verb 0%nat true)) with (printValue (ev fuel env) env v verb 0%nat true ;;; ret RU).
    rewrite !snd_bind_ret. unfold printValue.
    assert ((match v with VSafe _ _ | VUnsafe _ | VRS _ | VRB _ => missc 3
             | _ => modify (fun s0 => set_val (set_arg s0 None) (Some (v, true))) ;;; print_kind 8 (ev fuel env) env v verb 0 true end)
            = (modify (fun s0 => set_val (set_arg s0 None) (Some (v, true))) ;;; print_kind 8 (ev fuel env) env v verb 0 true)) as ->
      by (destruct v; try discriminate; reflexivity).
    apply shape_after_modify; [intros; split; reflexivity|].
    apply leaf_print_kind_shape; [exact Hk | destruct s1; exact Hv1].
Qed.

(* inside a container: p.printValue(v, verb, depth > 0), interfaceable or not *)
Theorem unsafe_leaf_element fuel env v verb depth ci s :
  leaf_verb_ok v verb = true -> is_safe_value v = false -> is_registered v = false ->
  povr s = NoOvr ->
  unsafe_bracketed s (snd (ev (S (S fuel)) env (CPrintValue v verb (S depth) ci) s)).
Proof.
  intros Hk Hsv Hreg Hv.
  change (ev (S (S fuel)) env (CPrintValue v verb (S depth) ci)) with (printValue (ev (S fuel) env) env v verb (S depth) ci ;;; ret RU).
  set (rec := ev (S fuel) env).
  rewrite snd_bind_ret. unfold printValue.
  set (kind_part := modify (fun s0 => set_val (set_arg s0 None) (Some (v, ci))) ;;; print_kind 8 rec env v verb (S depth) ci).
  assert (forall s0, povr s0 = NoOvr -> unsafe_bracketed s0 (snd (kind_part s0))) as Hkp.
  { intros s0 H0. unfold kind_part. apply shape_after_modify; [intros; split; reflexivity|].
    apply leaf_print_kind_shape; [exact Hk | destruct s0; exact H0]. }
  cut (unsafe_bracketed s (snd (bracket_if (is_registered v) start_safe_ovr
         (if ci then
            modify (fun s0 => set_arg s0 (Some v)) ;;;
            bracket_if (is_safe_value v || is_registered v) start_safe_ovr (h <- rec (CHandleMethods verb) ;; if rbool h then ret tt else kind_part)
          else kind_part) s))).
  { intros H. destruct v; try discriminate; exact H. }
  rewrite Hreg, Hsv. cbn [bracket_if orb]. destruct ci; [|apply Hkp; exact Hv].
  apply shape_after_modify; [intros; split; reflexivity|].
  set (s1 := set_arg s (Some v)).
  assert (parg s1 = Some v) as Ha by (unfold s1; destruct s; reflexivity).
  unfold bind at 1. unfold rec at 1.
  change (ev (S fuel) env (CHandleMethods verb)) with (b <- handleMethods (ev fuel env) env verb ;; ret (RBo b)).
  unfold bind at 1.
  rewrite (handleMethods_leaf _ _ v verb s1 Hk Ha). unfold ret at 1. cbn iota beta. cbn [rbool].
  apply Hkp. unfold s1. destruct s; exact Hv.
Qed.

(* ---------- operands that ARE declared safe ---------- *)
Lemma printArg_inner_stable_s fuel env arg verb : stable_s (printArg_inner (ev fuel env) env arg verb).
Proof.
  unfold stable_s. apply stable_printArg_inner;
    first [ exact (ext_refl _) | exact (ext_trans _) | exact HS_ovr | exact HS_write | exact HS_unsafe
          | exact HS_raw | exact HS_safe | exact HS_restore | (intros c; apply ev_stable_s) ].
Qed.

Definition safe_bracketed (s s' : pst) : Prop :=
  povr s' = NoOvr /\
  exists d, Forall op_s d /\ rlog (pl s') = OMode (lmode (pl s)) :: d ++ OMode MSafe :: rlog (pl s).

Lemma bracket_safe_ovr_shape (body : M unit) s :
  stable_s body -> povr s = NoOvr -> safe_bracketed s (snd (bracket start_safe_ovr body s)).
Proof.
  intros Hb Hv. unfold bracket, start_safe_ovr, bind, get_mode, Printer.get. rewrite Hv. cbn [ovr_eqb].
  rewrite setmode_state. unfold modify, ret. cbn [fst snd].
  set (s1 := set_ovr (set_pl s (lset (pl s) (OMode MSafe))) OvrSafe).
  assert (IS (pl s1) (povr s1)) as H1.
  { unfold s1. destruct s as [l0 ? ? ? ? ? ? ? ? ? ?]. unfold set_ovr, set_pl. split; [reflexivity|].
    change (lmode (lset l0 (OMode MSafe)) <> MUnsafe). rewrite lmode_setmode. discriminate. }
  destruct (Hb s1 H1) as [[H2 H3] (d & Hd & Fd)].
  destruct (body s1) as [o s2]. cbn [snd] in *.
  rewrite restore_state. cbn [fst snd].
  split; [destruct s2; reflexivity|].
  exists d. split; [exact Fd|].
  destruct s2 as [l2 ? ? ? ? ? ? ? ? ? ?]; cbn in *. rewrite Hd.
  unfold s1. destruct s; cbn. reflexivity.
Qed.

(* a value whose type implements SafeValue or is registered as safe, whatever it contains *)
Theorem declared_safe_operand fuel env v verb s :
  (is_registered v || is_safe_value v) = true ->
  (forall x m, v <> VSafe x m) -> (forall x, v <> VUnsafe x) ->
  povr s = NoOvr ->
  safe_bracketed s (snd (printArg (ev fuel env) env v verb s)).
Proof.
  intros Hd Hns Hnu Hv. unfold printArg.
  destruct (is_registered v) eqn:Hreg.
  - apply bracket_safe_ovr_shape; [|exact Hv]. apply printArg_body_stable_s.
  - cbn [orb] in Hd.
    assert ((match v with VSafe v0 _ => v0 | VUnsafe v0 => v0 | _ => v end) = v) as -> by (destruct v; try reflexivity; [destruct (Hns _ _ eq_refl) | destruct (Hnu _ eq_refl)]).
    assert ((match v with
             | VSafe _ _ => bracket start_safe_ovr (printArg_body (ev fuel env) env v verb)
             | VUnsafe _ => bracket start_unsafe_ovr (printArg_body (ev fuel env) env v verb)
             | _ => printArg_body (ev fuel env) env v verb end) = printArg_body (ev fuel env) env v verb) as ->
      by (destruct v; try reflexivity; [destruct (Hns _ _ eq_refl) | destruct (Hnu _ eq_refl)]).
    unfold printArg_body. rewrite Hd. cbn [bracket_if].
    apply bracket_safe_ovr_shape; [|exact Hv]. apply printArg_inner_stable_s.
Qed.

(* the same value held in an interface-typed slice element / map value / array element:
   printValue consults SafeValue and the registry on the DYNAMIC value *)
Theorem declared_safe_element fuel env tn d verb depth s :
  (is_registered d || is_safe_value d) = true ->
  povr s = NoOvr ->
  safe_bracketed s (snd (ev (S (S fuel)) env (CPrintValue (VIface tn (Some d)) verb (S depth) true) s)).
Proof.
  intros Hd Hv.
  change (ev (S (S fuel)) env (CPrintValue (VIface tn (Some d)) verb (S depth) true))
    with (printValue (ev (S fuel) env) env (VIface tn (Some d)) verb (S depth) true ;;; ret RU).
  rewrite snd_bind_ret. unfold printValue. cbn [is_registered tinfo_of treg noT bracket_if].
  rewrite (Bool.orb_comm (is_safe_value d)), Hd. cbn [bracket_if].
  unfold bind at 1, modify at 1. cbn [fst snd].
  set (s1 := set_arg s (Some d)).
  assert (safe_bracketed s1 (snd (bracket start_safe_ovr
            (h <- ev (S fuel) env (CHandleMethods verb) ;;
             if rbool h then ret tt
             else (modify (fun s0 => set_val (set_arg s0 None) (Some (VIface tn (Some d), true))) ;;;
                   print_kind 8 (ev (S fuel) env) env (VIface tn (Some d)) verb (S depth) true)) s1))) as H.
  { apply bracket_safe_ovr_shape; [|unfold s1; destruct s; exact Hv].
    unfold stable_s. apply stable_value_body;
      first [ exact (ext_refl _) | exact (ext_trans _) | exact HS_ovr | exact HS_write | exact HS_unsafe
            | exact HS_raw | exact HS_safe | exact HS_restore | (intros c; apply ev_stable_s) ]. }
  unfold safe_bracketed in *. unfold s1 in H at 1 2. destruct s; exact H.
Qed.

Print Assumptions unsafe_leaf_operand.
Print Assumptions declared_safe_element.
Print Assumptions unsafe_leaf_element.
Print Assumptions declared_safe_operand.
