(* Layer 4 proofs: the frame property behind C12.  A printer taken from the pool differs from a
   new one only in two fields that newPrinter/free do not reset: reordered and goodArgNum
   (free clears buf, arg, value, wrappedErr; newPrinter clears panicking, erroring, wrapErrs and
   the fmt flags with width and precision; the override is back to none when a call ends - D1).
   No call of the evaluator reads these two fields before doPrintf has written them: every
   computation maps states that agree on all other fields to equal results and states that agree
   on all other fields; doPrintf makes the states equal.  Hence a call's result does not depend
   on which recycled printer it got. *)
From Redact Require Import Bytes Tokens Utf8 Buffer Ops BufInv Fmt Value LBuf Printer Api BufInvP Hoare Keeps.
From Coq Require Import String.
Import List ListNotations.
Open Scope Z_scope.

Definition jrel (s1 s2 : pst) : Prop :=
  pl s1 = pl s2 /\ povr s1 = povr s2 /\ parg s1 = parg s2 /\ pval s1 = pval s2 /\ pf s1 = pf s2 /\
  panicking s1 = panicking s2 /\ erroring s1 = erroring s2 /\ wrapErrs s1 = wrapErrs s2 /\ wrappedErr s1 = wrappedErr s2.

Definition jr {A} (m1 m2 : M A) : Prop :=
  forall s1 s2, jrel s1 s2 -> fst (m1 s1) = fst (m2 s2) /\ jrel (snd (m1 s1)) (snd (m2 s2)).
Notation jins m := (jr m m).

Lemma jrel_refl s : jrel s s.
Proof. repeat split. Qed.

Lemma jr_ret {A} (a : A) : jins (ret a).
Proof. intros s1 s2 H. split; [reflexivity | exact H]. Qed.
Lemma jr_const {A} (r : res A) : jins (fun s => (r, s)).
Proof. intros s1 s2 H. split; [reflexivity | exact H]. Qed.
Lemma jr_bind {A B} (m1 m2 : M A) (k1 k2 : A -> M B) :
  jr m1 m2 -> (forall a, jr (k1 a) (k2 a)) -> jr (bind m1 k1) (bind m2 k2).
Proof.
  intros Hm Hk s1 s2 H. unfold bind. destruct (Hm s1 s2 H) as [E R].
  destruct (m1 s1) as [r1 x1], (m2 s2) as [r2 x2]. cbn [fst snd] in *. subst r2.
  destruct r1 as [a|v| |w]; try (split; [reflexivity | exact R]). exact (Hk a x1 x2 R).
Qed.
Lemma jr_getf : jins getf.
Proof. intros s1 s2 H. split; [cbn; f_equal; apply H | exact H]. Qed.
Lemma jr_get_mode : jins get_mode.
Proof. intros s1 s2 H. split; [cbn; destruct H as (E & _); now rewrite E | exact H]. Qed.
Lemma jr_panic {A} v : jins (@panic A v). Proof. apply jr_const. Qed.
Lemma jr_missc {A} w : jins (@missc A w). Proof. apply jr_const. Qed.
Lemma jr_miss {A} : jins (@miss A). Proof. apply jr_const. Qed.
Lemma jr_of_opt {A} (o : option A) : jins (of_opt o).
Proof. destruct o; [apply jr_ret | apply jr_miss]. Qed.

Lemma jr_modify (f : pst -> pst) : (forall s1 s2, jrel s1 s2 -> jrel (f s1) (f s2)) -> jins (modify f).
Proof. intros Hf s1 s2 H. split; [reflexivity | now apply Hf]. Qed.

(* reading the state: the continuation must not depend on the two fields *)
Lemma jr_get_bind {B} (k1 k2 : pst -> M B) :
  (forall a b, jrel a b -> jr (k1 a) (k2 b)) -> jr (bind Printer.get k1) (bind Printer.get k2).
Proof. intros Hk s1 s2 H. unfold bind, Printer.get. exact (Hk s1 s2 H s1 s2 H). Qed.

Lemma jr_bop o : jins (bop o).
Proof.
  intros s1 s2 H. unfold bop. destruct H as (E & H). rewrite E.
  destruct (l_step (pl s2) o) as [l' ob]. split; [reflexivity|].
  unfold jrel in *. cbn. intuition congruence.
Qed.
Lemma jr_w1 w : jins (w1 w).
Proof. destruct w; cbn [w1]; (apply jr_bind; [apply jr_bop | intros; apply jr_ret]). Qed.
Lemma jr_wr ws : jins (wr ws).
Proof. induction ws as [|w r IH]; cbn [wr]; [apply jr_ret|]. apply jr_bind; [apply jr_w1 | intros; exact IH]. Qed.
Lemma jr_wstr str : jins (wstr str). Proof. apply jr_w1. Qed.
Lemma jr_wbyte c : jins (wbyte c). Proof. apply jr_w1. Qed.
Lemma jr_set_mode m : jins (set_mode_m m).
Proof. unfold set_mode_m. apply jr_bind; [apply jr_bop | intros; apply jr_ret]. Qed.

Ltac jfields H :=
  let E1 := fresh in let E2 := fresh in let E3 := fresh in let E4 := fresh in let E5 := fresh in
  let E6 := fresh in let E7 := fresh in let E8 := fresh in let E9 := fresh in
  destruct H as (E1 & E2 & E3 & E4 & E5 & E6 & E7 & E8 & E9);
  rewrite <- ?E1, <- ?E2, <- ?E3, <- ?E4, <- ?E5, <- ?E6, <- ?E7, <- ?E8, <- ?E9.

Ltac jmod := apply jr_modify; let s1 := fresh in let s2 := fresh in let H := fresh in
  intros s1 s2 H; unfold jrel in *; cbn; intuition congruence.

Lemma jr_start_unsafe : jins start_unsafe.
Proof.
  unfold start_unsafe. apply jr_bind; [apply jr_get_mode | intros pm]. apply jr_get_bind. intros a b H.
  jfields H. apply jr_bind; [destruct (ovr_eqb (povr a) OvrSafe); [apply jr_ret | apply jr_set_mode] | intros; apply jr_ret].
Qed.
Lemma jr_start_prered : jins start_prered.
Proof.
  unfold start_prered. apply jr_bind; [apply jr_get_mode | intros pm]. apply jr_get_bind. intros a b H.
  jfields H. apply jr_bind; [destruct (ovr_eqb (povr a) OvrUnsafe); [apply jr_ret | apply jr_set_mode] | intros; apply jr_ret].
Qed.
Lemma jr_start_safe_ovr : jins start_safe_ovr.
Proof.
  unfold start_safe_ovr. apply jr_bind; [apply jr_get_mode | intros pm]. apply jr_get_bind. intros a b H.
  jfields H. apply jr_bind; [|intros; apply jr_ret].
  destruct (ovr_eqb (povr a) NoOvr); [|apply jr_ret]. apply jr_bind; [apply jr_set_mode | intros; jmod].
Qed.
Lemma jr_start_unsafe_ovr : jins start_unsafe_ovr.
Proof.
  unfold start_unsafe_ovr. apply jr_bind; [apply jr_get_mode | intros pm]. apply jr_get_bind. intros a b H.
  jfields H. apply jr_bind; [|intros; apply jr_ret].
  destruct (ovr_eqb (povr a) NoOvr); [|apply jr_ret]. apply jr_bind; [apply jr_set_mode | intros; jmod].
Qed.
Lemma jr_restore r : jins (restore r).
Proof. unfold restore. apply jr_bind; [apply jr_set_mode | intros; jmod]. Qed.

Lemma jr_bracket {A} (st : M restorer) (b1 b2 : M A) : jins st -> jr b1 b2 -> jr (bracket st b1) (bracket st b2).
Proof.
  intros Hst Hb s1 s2 H. unfold bracket. destruct (Hst s1 s2 H) as [E R].
  destruct (st s1) as [r1 x1], (st s2) as [r2 x2]. cbn [fst snd] in *. subst r2.
  destruct r1 as [r|v| |w]; try (split; [reflexivity | exact R]).
  destruct (Hb x1 x2 R) as [E2 R2]. destruct (b1 x1) as [o1 y1], (b2 x2) as [o2 y2]. cbn [fst snd] in *. subst o2.
  destruct (jr_restore r y1 y2 R2) as [_ R3]. destruct (restore r y1) as [? z1], (restore r y2) as [? z2]. cbn [fst snd] in *.
  split; [reflexivity | exact R3].
Qed.
Lemma jr_bracket_if {A} c (st : M restorer) (b1 b2 : M A) : jins st -> jr b1 b2 -> jr (bracket_if c st b1) (bracket_if c st b2).
Proof. intros. unfold bracket_if. destruct c; [now apply jr_bracket | assumption]. Qed.

Lemma jr_enter_safe : jins enter_safe.
Proof.
  unfold enter_safe. apply jr_get_bind. intros a b H. jfields H.
  destruct (ovr_eqb (povr a) OvrUnsafe); [apply jr_ret | apply jr_set_mode].
Qed.

(* the nested printer starts from a new state: it sees nothing of the caller but buffer and override *)
Lemma jr_nested rec c : jins (nested rec c).
Proof.
  intros s1 s2 H. unfold nested, bind, get_mode.
  assert (fresh_pp (pl s1) (povr s1) = fresh_pp (pl s2) (povr s2)) as E by (destruct H as (-> & -> & _); reflexivity).
  assert (bmode (lb (pl s1)) = bmode (lb (pl s2))) as Em by (destruct H as (-> & _); reflexivity).
  rewrite E, Em. destruct (rec c (fresh_pp (pl s2) (povr s2))) as [o ns'].
  rewrite !setmode_state. cbn [fst snd].
  split; [reflexivity|]. unfold jrel in *. cbn. intuition congruence.
Qed.

Definition rec_jins (rec : recT) : Prop := forall c, jins (rec c).

Ltac jstarts := first [apply jr_start_unsafe | apply jr_start_prered | apply jr_start_safe_ovr | apply jr_start_unsafe_ovr].
Ltac jp1 :=
  match goal with
  | |- jr (ret _) (ret _) => apply jr_ret
  | |- jr (wr _) (wr _) => apply jr_wr
  | |- jr (w1 _) (w1 _) => apply jr_w1
  | |- jr (wstr _) (wstr _) => apply jr_wstr
  | |- jr (wbyte _) (wbyte _) => apply jr_wbyte
  | |- jr getf getf => apply jr_getf
  | |- jr get_mode get_mode => apply jr_get_mode
  | |- jr (of_opt _) (of_opt _) => apply jr_of_opt
  | |- jr miss miss => apply jr_miss
  | |- jr (missc _) (missc _) => apply jr_missc
  | |- jr (panic _) (panic _) => apply jr_panic
  | |- jr (nested _ _) (nested _ _) => apply jr_nested
  | |- jr enter_safe enter_safe => apply jr_enter_safe
  | H : rec_jins ?rec |- jr (?rec _) (?rec _) => apply H
  | |- jr (bracket _ _) (bracket _ _) => apply jr_bracket; [jstarts | ]
  | |- jr (bracket_if _ _ _) (bracket_if _ _ _) => apply jr_bracket_if; [ jstarts | ]
  | |- jr (bind Printer.get _) (bind Printer.get _) => apply jr_get_bind; let a := fresh "a" in let b := fresh "b" in let H := fresh "Hab" in intros a b H; jfields H
  | |- jr (bind _ _) (bind _ _) => apply jr_bind; [ | intros ?]
  | |- jr (modify _) (modify _) => jmod
  | |- jr (fun s => (RFuel, s)) (fun s => (RFuel, s)) => apply jr_const
  | |- jr (if ?c then _ else _) (if ?c then _ else _) => destruct c
  | |- jr (match ?x with _ => _ end) (match ?x with _ => _ end) => destruct x
  | |- _ => assumption
  end.
Ltac jp := repeat jp1.

Section Rec.
  Variable rec : recT.
  Variable env : env.
  Hypothesis Hrec : rec_jins rec.

  Lemma jr_fmtBool v verb : jins (fmtBool rec v verb). Proof. unfold fmtBool. jp. Qed.
  Lemma jr_fmt0x64 v l : jins (fmt0x64 v l). Proof. unfold fmt0x64. jp. Qed.
  Lemma jr_fmtInteger v sg verb : jins (fmtInteger rec env v sg verb).
  Proof. unfold fmtInteger. jp; apply jr_fmt0x64. Qed.
  Lemma jr_fmtFloat b sz verb : jins (fmtFloat rec env b sz verb). Proof. unfold fmtFloat. jp. Qed.
  Lemma jr_fmtString v verb : jins (fmtString rec env v verb). Proof. unfold fmtString. jp. Qed.
  Lemma jr_bytes_sharp v : forall first, jins (bytes_sharp first v).
  Proof. induction v as [|c r IH]; intros first; cbn [bytes_sharp]; [apply jr_ret|]. jp; first [apply jr_fmt0x64 | apply IH]. Qed.
  Lemma jr_bytes_plain verb v : forall first, jins (bytes_plain first verb v).
  Proof. induction v as [|c r IH]; intros first; cbn [bytes_plain]; [apply jr_ret|]. jp. apply IH. Qed.
  Lemma jr_fmtBytes self v isnil verb ts : jins (fmtBytes rec env self v isnil verb ts).
  Proof. unfold fmtBytes. jp; first [apply jr_bytes_sharp | apply jr_bytes_plain]. Qed.
  Lemma jr_fmtPointer v verb : jins (fmtPointer rec env v verb).
  Proof. unfold fmtPointer. jp; first [apply jr_fmt0x64 | apply jr_fmtInteger]. Qed.
  Lemma jr_badVerb verb : jins (badVerb rec verb). Proof. unfold badVerb. jp. Qed.

  Lemma jr_catch_panic arg verb method b1 b2 : jr b1 b2 -> jr (catch_panic rec arg verb method b1) (catch_panic rec arg verb method b2).
  Proof.
    intros Hb s1 s2 H. unfold catch_panic. destruct (Hb s1 s2 H) as [E R].
    destruct (b1 s1) as [r1 x1], (b2 s2) as [r2 x2]. cbn [fst snd] in *. subst r2.
    destruct r1 as [a|v| |w]; try (split; [reflexivity | exact R]).
    destruct (is_nil_ptr arg); [apply jr_wstr; exact R|].
    assert (panicking x1 = panicking x2 /\ pf x1 = pf x2) as [<- <-] by (destruct R as (_ & _ & _ & _ & ? & ? & _); auto).
    destruct (panicking x1); [split; [reflexivity | exact R]|].
    match goal with |- fst (?m x1) = _ /\ _ => assert (jins m) as Hm by jp end.
    exact (Hm x1 x2 R).
  Qed.

  Lemma jr_string_method acts : jins (string_method acts).
  Proof. induction acts as [|a r IH]; cbn [string_method]; [apply jr_ret|]. destruct a; jp. Qed.
  Lemma jr_user_string self : jins (user_string self).
  Proof. unfold user_string. destruct self; jp; apply jr_string_method. Qed.

  Lemma jr_handleMethods verb : jins (handleMethods rec env verb).
  Proof.
    unfold handleMethods.
    repeat first [ jp1 | apply jr_catch_panic | apply jr_fmtString | apply jr_user_string ].
  Qed.

  Lemma jr_for_elems sep es verb depth ci : jins sep -> forall first, jins (for_elems rec sep first es verb depth ci).
  Proof. intros Hs. induction es as [|e r IH]; intros first; cbn [for_elems]; [apply jr_ret|]. jp. apply IH. Qed.
  Lemma jr_for_kvs sep kvs verb depth ci : jins sep -> forall first, jins (for_kvs rec sep first kvs verb depth ci).
  Proof. intros Hs. induction kvs as [|[k v] r IH]; intros first; cbn [for_kvs]; [apply jr_ret|]. jp. apply IH. Qed.
  Lemma jr_for_fields sep names fs verb depth ci : jins sep -> forall first, jins (for_fields rec sep names first fs verb depth ci).
  Proof. intros Hs. induction fs as [|[[n e] v] r IH]; intros first; cbn [for_fields]; [apply jr_ret|]. jp. apply IH. Qed.

  Ltac jp2 :=
    repeat first [ jp1 | apply jr_catch_panic
                 | apply jr_fmtBool | apply jr_fmtInteger | apply jr_fmtFloat
                 | apply jr_fmtString | apply jr_fmtBytes | apply jr_fmtPointer
                 | apply jr_badVerb | apply jr_user_string | apply jr_handleMethods
                 | apply jr_for_elems | apply jr_for_kvs | apply jr_for_fields ].

  Lemma jr_print_kind fuel : forall value verb depth ci, jins (print_kind fuel rec env value verb depth ci).
  Proof. induction fuel as [|k IH]; intros value verb depth ci; destruct value; cbn [print_kind]; jp2. apply IH. Qed.
  Lemma jr_printValue value verb depth ci : jins (printValue rec env value verb depth ci).
  Proof. unfold printValue. destruct depth; destruct value; jp2; try apply jr_print_kind. Qed.
  Lemma jr_printArg_body arg verb : jins (printArg_body rec env arg verb).
  Proof. unfold printArg_body, printArg_inner. jp2. Qed.
  Lemma jr_printArg arg verb : jins (printArg rec env arg verb).
  Proof. unfold printArg. jp2; apply jr_printArg_body. Qed.

  Lemma jr_run_action self verb a : jins (run_action rec env self verb a).
  Proof. destruct a; cbn [run_action]; jp2. Qed.
  Lemma jr_run_acts self verb acts : jins (run_acts rec env self verb acts).
  Proof. induction acts as [|a r IH]; cbn [run_acts]; [apply jr_ret|]. jp; first [apply jr_run_action | apply IH]. Qed.

  Lemma jr_doPrint_loop a : forall argNum prev, jins (doPrint_loop rec argNum prev a).
  Proof. induction a as [|x r IH]; intros argNum prev; cbn [doPrint_loop]; [apply jr_ret|]. jp. apply IH. Qed.
  Lemma jr_doPrint a : jins (doPrint rec a).
  Proof. unfold doPrint. jp. apply jr_doPrint_loop. Qed.

  Lemma jr_clearflags : jins clearflags. Proof. unfold clearflags. jp. Qed.
  Lemma jr_extra_args a : forall first, jins (extra_args rec first a).
  Proof. induction a as [|x r IH]; intros first; cbn [extra_args]; [apply jr_ret|]. jp. apply IH. Qed.

  (* doPrintf writes the two fields before it reads them *)
  Lemma pst_eq s1 s2 : jrel s1 s2 -> reordered s1 = reordered s2 -> goodArgNum s1 = goodArgNum s2 -> s1 = s2.
  Proof.
    intros (E1 & E2 & E3 & E4 & E5 & E6 & E7 & E8 & E9) Er Eg. destruct s1, s2; cbn in *. congruence.
  Qed.

  Lemma format_loop_frame fuel f a i argNum ai s1 s2 : jrel s1 s2 -> reordered s1 = reordered s2 ->
    fst (format_loop fuel rec f a i argNum ai s1) = fst (format_loop fuel rec f a i argNum ai s2) /\
    jrel (snd (format_loop fuel rec f a i argNum ai s1)) (snd (format_loop fuel rec f a i argNum ai s2)) /\
    reordered (snd (format_loop fuel rec f a i argNum ai s1)) = reordered (snd (format_loop fuel rec f a i argNum ai s2)).
  Proof.
    intros H Er. destruct fuel as [|k]; cbn [format_loop]; [cbn [fst snd]; split; [reflexivity|]; split; [exact H | exact Er]|].
    destruct (negb (i <? length f)%nat); [unfold ret; cbn [fst snd]; split; [reflexivity|]; split; [exact H | exact Er]|].
    match goal with |- context [bind (modify ?g) ?k0] => set (K := k0) end.
    unfold bind, modify. cbn iota beta.
    assert (set_good s1 true = set_good s2 true) as ->.
    { apply pst_eq; [unfold jrel in *; cbn; intuition congruence | destruct s1, s2; exact Er | destruct s1, s2; reflexivity]. }
    split; [reflexivity|]. split; [apply jrel_refl | reflexivity].
  Qed.

  Definition jrel2 (s1 s2 : pst) : Prop := jrel s1 s2 /\ reordered s1 = reordered s2.
  Definition jrQ (P Q : pst -> pst -> Prop) {A} (m1 m2 : M A) : Prop :=
    forall s1 s2, P s1 s2 -> fst (m1 s1) = fst (m2 s2) /\ Q (snd (m1 s1)) (snd (m2 s2)).

  Lemma jrQ_bind (P Q R : pst -> pst -> Prop) {A B} (m1 m2 : M A) (k1 k2 : A -> M B) :
    (forall s1 s2, Q s1 s2 -> R s1 s2) ->
    jrQ P Q m1 m2 -> (forall a, jrQ Q R (k1 a) (k2 a)) -> jrQ P R (bind m1 k1) (bind m2 k2).
  Proof.
    intros HQR Hm Hk s1 s2 H. unfold bind. destruct (Hm s1 s2 H) as [E Rr].
    destruct (m1 s1) as [r1 x1], (m2 s2) as [r2 x2]. cbn [fst snd] in *. subst r2.
    destruct r1 as [a|v| |w]; try (split; [reflexivity | now apply HQR]). exact (Hk a x1 x2 Rr).
  Qed.

  Lemma jrQ_get_bind (P R : pst -> pst -> Prop) {B} (k1 k2 : pst -> M B) :
    (forall a b, P a b -> jrQ (fun s1 s2 => s1 = a /\ s2 = b) R (k1 a) (k2 b)) ->
    jrQ P R (bind Printer.get k1) (bind Printer.get k2).
  Proof. intros Hk s1 s2 H. unfold bind, Printer.get. apply (Hk s1 s2 H s1 s2). auto. Qed.

  Lemma jr_doPrintf f a : jins (doPrintf rec f a).
  Proof.
    unfold doPrintf.
    apply (jrQ_bind jrel jrel jrel); [auto | apply jr_enter_safe | intros _].
    apply (jrQ_bind jrel jrel2 jrel); [intros ? ? [H _]; exact H | | intros _].
    { intros s1 s2 H. unfold modify. cbn [fst snd]. split; [reflexivity|].
      split; [unfold jrel in *; cbn; intuition congruence | destruct s1, s2; reflexivity]. }
    apply (jrQ_bind jrel2 jrel2 jrel); [intros ? ? [H _]; exact H | | intros argNum].
    { intros s1 s2 [H Er]. destruct (format_loop_frame (S (length f)) f a 0%nat 0 false s1 s2 H Er) as (E & R & Er').
      split; [exact E | split; assumption]. }
    apply jrQ_get_bind. intros x y [H Er] s1 s2 [-> ->]. rewrite <- Er.
    destruct (negb (reordered x) && (argNum <? Z.of_nat (length a))); [|split; [reflexivity | exact H]].
    assert (jins (clearflags ;;; wstr "%!(EXTRA " ;;; extra_args rec true (skipn (Z.to_nat argNum) a) ;;; wbyte 41)) as Hk
      by (jp; first [apply jr_clearflags | apply jr_extra_args]).
    exact (Hk x y H).
  Qed.
End Rec.

(* every call of the evaluator *)
Theorem jins_ev fuel env : forall c, jins (ev fuel env c).
Proof.
  induction fuel as [|k IH]; intros c; cbn [ev]; [apply jr_const|].
  destruct c; jp;
    first [ apply jr_printArg | apply jr_printValue | apply jr_badVerb | apply jr_handleMethods
          | apply jr_doPrintf | apply jr_doPrint | apply jr_run_acts ]; exact IH.
Qed.

(* ---------- the pool ---------- *)
(* what free() followed by newPrinter() make of a printer whose call has ended *)
Definition recycle (s : pst) : pst :=
  mkP l_init (povr s) None None (mkF noflags 0 0) (reordered s) (goodArgNum s) false false false None.

Lemma recycle_new s : povr s = NoOvr -> jrel (recycle s) newPrinter.
Proof. intros H. unfold recycle, newPrinter, fresh_pp, jrel. cbn. rewrite H. repeat split. Qed.

(* a call that runs on a recycled printer returns what it returns on a new one *)
Theorem recycled_printer_frame fuel env c s0 :
  povr s0 = NoOvr ->
  finish (ev fuel env c (recycle s0)) = finish (ev fuel env c newPrinter).
Proof.
  intros H. destruct (jins_ev fuel env c _ _ (recycle_new s0 H)) as [E R].
  destruct (ev fuel env c (recycle s0)) as [r1 x1], (ev fuel env c newPrinter) as [r2 x2]. cbn [fst snd] in *. subst r2.
  unfold finish. destruct r1; try reflexivity.
  destruct R as (-> & _ & _ & _ & _ & _ & _ & _ & ->). reflexivity.
Qed.

(* ... and the printer a call hands back is again one that recycles to such a state: histories *)
Theorem override_none_after_call fuel env c s : povr s = NoOvr -> povr (snd (ev fuel env c s)) = NoOvr.
Proof. intros H. rewrite (kovr_ev fuel env c s). exact H. Qed.

(* any history of calls on one recycled printer: the last call's result is that of a fresh printer *)
Fixpoint run_history (fuel : nat) (env : env) (cs : list call) (s : pst) : pst :=
  match cs with
  | [] => s
  | c :: r => run_history fuel env r (recycle (snd (ev fuel env c s)))
  end.

Lemma run_history_novr fuel env cs : forall s, povr s = NoOvr -> povr (run_history fuel env cs s) = NoOvr.
Proof.
  induction cs as [|c r IH]; intros s H; [exact H|]. cbn [run_history]. apply IH.
  unfold recycle. cbn. now apply override_none_after_call.
Qed.

Theorem history_independence fuel env cs c :
  finish (ev fuel env c (recycle (run_history fuel env cs newPrinter))) = finish (ev fuel env c newPrinter).
Proof. apply recycled_printer_frame. apply run_history_novr. reflexivity. Qed.

Print Assumptions history_independence.
