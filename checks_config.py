# Per-property configuration of ./check: generators (harness -gen ...), which
# driver failure tags decide the property, evidence texts.

TRUSTED_BASE = [
    "Coq 8.16.1 kernel (coqc; vm_compute used for closed computations; no native_compute); coqchk re-check in the thorough tier",
    "No axioms: Print Assumptions under every property theorem must print 'Closed under the global context'",
    "Extraction to OCaml with ExtrOcamlBasic only (bool/option/list/prod/unit/sumbool to natives; N, Z, positive, nat stay Coq datatypes; no Extract Constant / Extract Inductive of our own); OCaml 4.13.1",
    "Unverified glue: Go harness (/verif/harness: generators, observation of the implementation, the standard fmt package as reference where the property names it), OCaml driver (/verif/ocaml: S-expression reader, comparison, predicates evaluated with extracted Coq definitions), ./check",
    "Modelled, not verified (outside /repo): Go's unicode/utf8, regexp semantics of the two fixed patterns, strconv (oracle tables computed by the harness with the real strconv), reflect type names/addresses (data of the case), fmtsort order (keys arrive sorted), sync.Pool, slices/defer/recover semantics; validated by the differential correspondence on every run",
]

LOW = [
    {"gen": "escape", "quick": "-depth 4 -n 3000", "thorough": "-depth 6 -n 50000"},
    {"gen": "escbytes", "quick": "-depth 4 -n 3000", "thorough": "-depth 6 -n 50000"},
]
BUF = [
    {"gen": "buffer", "quick": "-depth 2 -n 30000", "thorough": "-depth 3 -n 300000", "shards": 8},
]
BUFINV = [
    {"gen": "buffer-invalid-runes", "quick": "-depth 1 -n 20000", "thorough": "-depth 2 -n 200000", "shards": 8},
]
MARKERS = [
    {"gen": "markers", "quick": "-depth 5 -n 5000", "thorough": "-depth 8 -n 100000"},
]


# the directive grid (deterministic; partitioned over exactly 8 shards by the low bits of the shard seed)
GRID = [{"gen": "grid", "quick": "-depth 2 -n 8", "thorough": "-depth 3 -n 8", "shards": 8}]
GRIDRULE = "; the DIRECTIVE GRID: every verb (24 incl. bad ones) x every subset of the flags '+-# 0' x 135 fixed operands (boundary values of every basic kind incl. surrogates and > MaxRune, floats with short hexadecimal mantissas, named/SafeValue/registered types, byte slices and arrays, containers incl. maps keyed by declared-safe string types, a registered struct by value and behind a pointer, wrappers nested both ways, pre-redactables, every scripted user kind by value / by pointer / as nil pointer, panicking methods) in a single-directive Sprintf with one of six width/precision settings (thorough: all six), and Sprint of ordered pairs of these operands (quick: a quarter, thorough: all)"


def Q(name, quick_n, thorough_n, depth=2, shards=8, tdepth=3):
    return {"gen": name, "quick": "-depth %d -n %d" % (depth, quick_n), "thorough": "-depth %d -n %d" % (tdepth, thorough_n),
            "shards": shards}


BUFRULE = "memory-level model (heap of arrays, checked slice expressions) run alongside: capacity after every call compared with cap(b.buf); all ManualBuffer call sequences over a 68-op alphabet (SetMode x3, Write of 20 hostile payloads incl. markers, their neighbour runes, partial markers, LF and CR LF, raw fragments, WriteString of 8 single bytes and short pieces, WriteByte x9, WriteRune x8, accessors, Take, Reset, Grow; partitioned over 8 shards), fixed shapes around Grow(70000) up to the depth, plus random sequences of length 2-15; the hidden state (buf, validUntil, mode, markerOpen) is compared with the model after EVERY call; non-trivial = at least 2 calls"
PRINTRULE = "random printer cases from one seeded PRNG (sharded): entry points Sprint/Sprintf/Fprintf/HelperForErrorf/Sprintfn/StringBuilder; operands from the value zoo (basic and named kinds, SafeValue and registered types, []byte, slices/arrays/maps/structs with exported and unexported interface fields, pointers, Safe/Unsafe wrappers up to depth 3, RedactableString/Bytes, 12 scripted user kinds with value/pointer/nil receivers whose methods write, call every SafeWriter method, Print/Printf recursively, dump the fmt.State, panic); formats with all flags, widths, precisions, '*' forms, argument indexes, bad verbs, EXTRA/MISSING/NOVERB; hostile payloads (markers, partial markers, LF, invalid UTF-8); error hook on/off; registry on/off. Each case is run on the implementation and on the extracted model (bytes compared), and the property predicates are evaluated on the implementation's output"

PROPS = {
    "C01": {
        "gens": BUF + LOW[1:] + [Q("q01", 9600, 80000)] + GRID,
        "qtags": ["Q:C01", "Q:closure", "Q:C11"],
        "rule": BUFRULE + "; EscapeBytes on all strings over the escape alphabet; " + PRINTRULE + "; Join/EscapeBytes results" + GRIDRULE,
        "exhaustive": True,
        "assumptions": ["raw (pre-redactable) writes are of well-formed, marker-closed fragments (hypothesis rawok of the theorems; enforced by the driver with the same extracted predicate)"],
    },
    "C02": {
        "gens": [Q("q02", 9600, 80000)] + GRID,
        "qtags": ["Q:C02", "Q:C11"],
        "rule": "for each generated shape (format + operand tree), three instantiations of the leaves not declared safe (strings/byte slices: same rune count, line feeds at the same rune positions; integers: zero stays zero; floats, bools arbitrary; strings returned/written by user methods likewise; map keys, '*' operands, declared-safe values, literals shared): Redact() of the three outputs must be byte-identical; " + PRINTRULE + GRIDRULE,
        "assumptions": ["the instantiation relation is the reading of 'same shape, same emptiness, same line-break positions' given in DESIGN.md"],
    },
    "C03": {
        "gens": BUF + LOW[1:] + [Q("q01", 9600, 80000)],
        "qtags": ["Q:C03", "Q:C11"],
        "rule": BUFRULE + "; EscapeBytes on all strings over the escape alphabet; " + PRINTRULE + "; per-line redaction/stripping compared with whole-string redaction/stripping",
        "exhaustive": True,
        "assumptions": ["raw writes are line-safe fragments (rawok)"],
    },
    "C04": {
        "gens": [Q("q04", 12800, 100000)] + GRID,
        "qtags": ["Q:C04", "Q:C11"],
        "rule": "fmt-compatible cases (valid UTF-8; no redact-specific types; no %w; no '0' with '-'): StripMarkers(redact.Sprint/Sprintf/Fprint/Fprintf) = fmt.Sprint/Sprintf with markers replaced by '?', and the two panic together; Stringer/error/Formatter/GoStringer scripts incl. panicking and nil receivers; " + PRINTRULE + GRIDRULE,
        "assumptions": ["reference = the standard fmt of the installed toolchain (go1.23)"],
    },
    "C05": {
        "gens": [Q("q05", 12800, 100000)] + GRID,
        "qtags": ["Q:C05", "Q:C11"],
        "rule": "formats with verbs valid for their operands, flags, width, precision; operands mixing declared-safe leaves (SafeValue types, registered types in the configurations that register them, Safe()-wrapped) and unsafe leaves at top level and inside []interface{}, [2]interface{} and exported interface struct fields; reference text = fmt.Sprintf on the same tree in which every unsafe leaf is replaced by a Formatter that prints only the line feeds of the leaf's rendering under the active directive; both registry configurations" + GRIDRULE,
        "assumptions": ["map keys cannot be blanked in the reference (string-typed keys) and are exercised by the correspondence only"],
    },
    "C06": {
        "gens": [Q("q06", 12800, 100000)] + GRID,
        "qtags": ["Q:C06", "Q:C11"],
        "rule": "x from the full value zoo incl. user methods that call back through Print/Printf/Safe*/Unsafe*/Write, error hook on/off, registry on/off, every verb and flag subset; wrappers nested up to depth 3; Unsafe(x): nothing but line feeds outside envelopes; Safe(x) for x without own classification: no envelope; characters = fmt's for fmt-compatible x" + GRIDRULE,
    },
    "C07": {
        "gens": MARKERS,
        "qtags": ["Q:C07", "Q:C11"],
        "rule": "all strings over the 9-letter alphabet {‹,›,×,LF,a,E2,80,B9,BA} up to the depth, plus random hostile strings; non-trivial = Redact or StripMarkers changes the string",
        "exhaustive": True,
        "assumptions": ["regexp engine semantics for the two fixed patterns modelled at token level (validated here exhaustively up to the bound)"],
    },
    "C08": {
        "gens": [Q("q08", 6400, 60000)],
        "qtags": ["Q:C08", "Q:C11"],
        "rule": "redactables obtained from the library by iterating Sprint/Sprintf/Join/StringBuilder from hostile seeds up to the depth; every directive other than %T/%p with flags/width/precision; containers (slice, map value, exported and unexported struct fields, pointer to struct); Sprintf concatenation; Join/JoinTo with redactable delimiters; Redact/StripMarkers distribute",
    },
    "C09": {
        "gens": [Q("q09", 6400, 60000)] + BUF,
        "qtags": ["Q:C09", "Q:C11"],
        "rule": "random sequences (1-6, sometimes 10-40) of the 17 SafeWriter/io.Writer calls incl. nested Print/Printf with valid-UTF-8 hostile payloads, run through StringBuilder, the Sprintfn printer and a SafeFormat printer; the three results are compared with the payload concatenations (stripped / envelopes deleted) and with each other up to merging; ManualBuffer: " + BUFRULE,
    },
    "C10": {
        "gens": LOW + BUF,
        "qtags": ["Q:C10", "Q:C11"],
        "rule": "all byte strings over the 10-piece alphabet {a,space,LF,?,E2,80,B9,BA,C3,97} up to the depth, every startLoc, 4 flag settings (escape); same strings through EscapeBytes/EscapeMarkers; plus random longer hostile strings; non-trivial = output differs from input; split-insensitivity across Write/WriteString calls: " + BUFRULE,
        "exhaustive": True,
        "assumptions": ["regexp engine semantics for [‹›] modelled at token level (validated here)"],
    },
    "C11": {
        "gens": [Q("q11", 6400, 60000)] + BUFINV + [Q("printer", 6400, 60000)] + GRID,
        "qtags": ["Q:C11"],
        "rule": "every rune class (negative, surrogates incl. both ends, > MaxRune, boundaries) and all 256 bytes through SafeRune/UnsafeRune/SafeByte/UnsafeByte/WriteRune/WriteByte on StringBuilder, SafePrinter and ManualBuffer in 5 buffer states; JoinTo with 14 non-slice/nil/typed-nil/slice operands; user methods made to panic at every position of their script (plain and nested payloads), at top level and inside slices/structs, with and without hook: text before and after intact; ManualBuffer histories with invalid runes (state compared with the model); " + PRINTRULE + GRIDRULE,
        "assumptions": ["Grow(n<0) and memory exhaustion are outside the claim", "a panic raised while a panic payload is printed, or by the Sprintfn callback itself, propagates (as in fmt)"],
    },
    "C12": {
        "gens": [Q("q12", 60, 600, shards=4), Q("printer", 6400, 60000)],
        "qtags": ["Q:C12", "Q:C11"],
        "rule": "histories of 1-6 prior calls (outputs > 64 KiB, nested panics incl. inside nested printers, %w and misused %w, argument indexes with '*', Safe/Unsafe around nested printers, panicking Sprintfn callback, bad verbs, random printer cases) followed by 16 fixed probes whose results are compared with those of a freshly started process (the harness re-executes itself); pool allocation counter proves the probes ran on recycled printers; then 16 goroutines x 40 mixed calls compared with the same baseline; after EVERY random printer case: three unrelated calls on the recycled printers must give the results taken at process start, and the string already returned to the caller must still read the same (it shares the printer's backing array); " + PRINTRULE,
        "assumptions": ["schedules and data races: runtime evidence only (16 goroutines, results compared); not a theorem"],
    },
    "C13": {
        "gens": BUF + [Q("q09", 6400, 60000)],
        "qtags": ["Q:C13", "Q:C11"],
        "rule": BUFRULE + "; accessors/Take/Reset occur at every position; strings handed out earlier are re-read at the end; StringBuilder sequences re-run with accessors inserted between the calls",
        "exhaustive": True,
        "assumptions": ["memory-level model BufMem.v: the capacity of a slice grown by append inside InternalEscapeBytes is a parameter of each step (proved for all values; the driver takes the observed capacity)"],
    },
    "C14": {
        "gens": [{"gen": "q14", "quick": "-depth 2 -n 1", "thorough": "-depth 4 -n 1"}],
        "qtags": ["Q:C14", "Q:C11"],
        "rule": "the product 32 flag subsets x widths {absent,0,1,7,12,1000,*} x precisions {absent,0,1,5,*,'.'} x 52 ASCII letter verbs + 4 multi-byte verbs (quick: a stratified slice, thorough: all of it), under the standard fmt.State and under redact's printer as fmt.State: MakeFormat's result is compared with the Coq model's, re-parsed by the real printer (state read back by a probing Formatter) and by the model's parser; Safe(x)/Unsafe(x)/forwarding Formatter printed with fmt and with redact for operands of 14 basic kinds",
        "exhaustive": True,
    },
    "C15": {
        "gens": [Q("q15", 12800, 100000)],
        "qtags": ["Q:C15", "Q:C11"],
        "rule": "formats with 1-4 directives of which each is %w or %v with flags/width/precision, operands: pointer errors, wrapping errors, Safe/Unsafe-wrapped errors, nil, int, string, struct; hook on/off; returned error identity against the property's prescription; text against Sprintf with the correct %w read as %v; against fmt.Errorf (message and Unwrap) for at most one %w",
        "assumptions": ["%w carrying a + or # flag is not compared with fmt.Errorf: the standard library changed how it sets these flags up for w after the fork was taken (Go 1.20)"],
    },
    "C16": {
        "gens": [Q("q16", 6400, 60000)],
        "qtags": ["Q:C16", "Q:C11"],
        "rule": "each random argument list / format is printed through Sprint(f), Fprint(f) (writers that succeed, fail, write short), StringBuilder.Print(f), SafePrinter.Print(f) inside Sprintfn and inside a SafeFormat method; identical bytes for the S/F pair, equality up to merging of adjacent envelopes for the others, one Write, (n, err) passthrough; " + PRINTRULE,
    },
    "C17": {
        "gens": [Q("q17", 1600, 8000)],
        "qtags": ["Q:C17", "Q:C11"],
        "rule": "6 error kinds (plain, wrapping, also Stringer, also Formatter, nil receiver, one making the hook panic) x 9 directives x hook on/off x 5 positions (top level, []interface{}, map value, exported error field, interface field behind a pointer) + Unsafe() + self-classifying errors + %w through HelperForErrorf; the hook records (error, verb); plus scripted hooks compared with the model",
    },
}
