# Per-property configuration of ./check: generators (harness -gen ...), which
# driver failure tags decide the property, evidence texts.

TRUSTED_BASE = [
    "Coq 8.16.1 kernel (coqc; vm_compute used for closed computations; no native_compute); coqchk re-check in the thorough tier",
    "No axioms: Print Assumptions under every property theorem must print 'Closed under the global context'",
    "Extraction to OCaml with ExtrOcamlBasic only (bool/option/list/prod/unit/sumbool to natives; N, Z, positive, nat stay Coq datatypes; no Extract Constant / Extract Inductive of our own); OCaml 4.13.1",
    "Unverified glue: Go harness (/verif/harness: generators, observation of the implementation), OCaml driver (/verif/ocaml: S-expression reader, comparison, predicates evaluated with extracted Coq definitions), ./check",
    "Modelled, not verified (outside /repo): Go's unicode/utf8, regexp semantics of the two fixed patterns, slices/defer/recover semantics; validated by the differential correspondence on every run",
]

LOW = [
    {"gen": "escape", "quick": "-depth 4 -n 3000", "thorough": "-depth 6 -n 50000"},
    {"gen": "escbytes", "quick": "-depth 4 -n 3000", "thorough": "-depth 6 -n 50000"},
]
BUF = [
    {"gen": "buffer", "quick": "-depth 2 -n 30000", "thorough": "-depth 3 -n 300000"},
]
BUFINV = [
    {"gen": "buffer-invalid-runes", "quick": "-depth 2 -n 20000", "thorough": "-depth 3 -n 200000"},
]
MARKERS = [
    {"gen": "markers", "quick": "-depth 5 -n 5000", "thorough": "-depth 8 -n 100000"},
]

BUFRULE = "all ManualBuffer call sequences over a 50-op alphabet (SetMode x3, Write of 17 hostile payloads incl. markers/partial markers/LF, raw fragments, WriteByte x9, WriteRune x8, accessors, Take, Reset, Grow) up to the depth, plus random sequences of length 2-15; the hidden state (buf, validUntil, mode, markerOpen) is compared with the model after EVERY call; non-trivial = at least 2 calls"

PROPS = {
    "C01": {
        "gens": BUF + LOW[1:],
        "qtags": ["Q:C01", "Q:C11"],
        "rule": BUFRULE + "; EscapeBytes on all strings over the escape alphabet",
        "exhaustive": True,
        "assumptions": ["raw (pre-redactable) writes are of well-formed, marker-closed fragments (hypothesis rawok of the theorems; enforced by the driver with the same extracted predicate)"],
    },
    "C03": {
        "gens": BUF + LOW[1:],
        "qtags": ["Q:C03", "Q:C11"],
        "rule": BUFRULE + "; EscapeBytes on all strings over the escape alphabet",
        "exhaustive": True,
        "assumptions": ["raw writes are line-safe fragments (rawok)"],
    },
    "C13": {
        "gens": BUF,
        "qtags": ["Q:C13", "Q:C11"],
        "rule": BUFRULE + "; accessors/Take/Reset occur at every position; strings handed out earlier are re-read at the end",
        "exhaustive": True,
        "assumptions": ["abstract list-level model: aliasing of the backing array by struct copies is covered by the state comparison only"],
    },
    "C10": {
        "gens": LOW,
        "qtags": ["Q:C10", "Q:C11"],
        "rule": "all byte strings over the 10-piece alphabet {a,space,LF,?,E2,80,B9,BA,C3,97} up to the depth, every startLoc, 4 flag settings (escape); same strings through EscapeBytes/EscapeMarkers; plus random longer hostile strings; non-trivial = output differs from input",
        "exhaustive": True,
        "assumptions": ["regexp engine semantics for [‹›] modelled at token level (validated here)"],
    },
    "C07": {
        "gens": MARKERS,
        "qtags": ["Q:C07", "Q:C11"],
        "rule": "all strings over the 9-letter alphabet {‹,›,×,LF,a,E2,80,B9,BA} up to the depth, plus random hostile strings; non-trivial = Redact or StripMarkers changes the string",
        "exhaustive": True,
        "assumptions": ["regexp engine semantics for the two fixed patterns modelled at token level (validated here exhaustively up to the bound)"],
    },
}
