(* Printer cases: parse the shared case language into the Coq value universe,
   run the extracted evaluator, compare with the implementation's output and
   evaluate the black-box predicates. *)
open Model
open Conv
open Sexp
open Common
type string = Stdlib.String.t

let zat x = z_of_string (atom x)

let tinfo_of_sexp = function
  | L [A "t"; n; sv; rg] -> { tname = bts n; tsv = bool_atom sv; treg = bool_atom rg }
  | s -> failwith ("bad tinfo " ^ Sexp.to_string s)

let rec value_of_sexp (s : Sexp.t) : value =
  match s with
  | A "nil" -> VNil
  | L [A "b"; t; b] -> VBool (tinfo_of_sexp t, bool_atom b)
  | L [A "i"; t; u] -> VInt (tinfo_of_sexp t, zat u)
  | L [A "u"; t; u] -> VUint (tinfo_of_sexp t, zat u)
  | L [A "f"; t; size; bits] -> VFloat (tinfo_of_sexp t, zat size, zat bits)
  | L [A "s"; t; x] -> VStr (tinfo_of_sexp t, bts x)
  | L [A "bs"; t; isnil; x] -> VBytes (tinfo_of_sexp t, bool_atom isnil, bts x)
  | L (A "sl" :: t :: isnil :: es) -> VSlice (tinfo_of_sexp t, bool_atom isnil, List.map value_of_sexp es)
  | L (A "ar" :: t :: es) -> VArray (tinfo_of_sexp t, List.map value_of_sexp es)
  | L (A "mp" :: t :: isnil :: kvs) ->
    VMap (tinfo_of_sexp t, bool_atom isnil,
          List.map (function L [k; v] -> (value_of_sexp k, value_of_sexp v) | _ -> failwith "bad map entry") kvs)
  | L (A "st" :: t :: fs) ->
    VStruct (tinfo_of_sexp t,
             List.map (function L [n; e; v] -> ((bts n, bool_atom e), value_of_sexp v) | _ -> failwith "bad field") fs)
  | L [A "ptr"; t; addr] -> VPtr (tinfo_of_sexp t, zat addr, None)
  | L [A "ptr"; t; addr; e] -> VPtr (tinfo_of_sexp t, zat addr, Some (value_of_sexp e))
  | L [A "if"; tn] -> VIface (bts tn, None)
  | L [A "if"; tn; e] -> VIface (bts tn, Some (value_of_sexp e))
  | L [A "safe"; v; msg] -> VSafe (value_of_sexp v, bts msg)
  | L [A "unsafe"; v] -> VUnsafe (value_of_sexp v)
  | L [A "rs"; x] -> VRS (bts x)
  | L [A "rb"; x] -> VRB (bts x)
  | L [A "usr"; t; L (A "ifs" :: fl); nr; repr; L acts] ->
    let b i = bool_atom (List.nth fl i) in
    VUser (tinfo_of_sexp t,
           { iSafeFormatter = b 0; iSafeMessager = b 1; iError = b 2; iFormatter = b 3; iGoStringer = b 4; iStringer = b 5 },
           bool_atom nr, value_of_sexp repr, List.map action_of_sexp acts)
  | _ -> failwith ("bad value " ^ Sexp.to_string s)

and action_of_sexp (s : Sexp.t) : action =
  match s with
  | L [A "ret"; x] -> ARet (bts x)
  | L [A "panic"; v] -> APanic (value_of_sexp v)
  | L [A "write"; x] | L [A "wstr"; x] -> AWrite (bts x)
  | L [A "ss"; x] -> ASafeString (bts x)
  | L [A "si"; u] -> ASafeInt (zat u)
  | L [A "su"; u] -> ASafeUint (zat u)
  | L [A "sf"; b] -> ASafeFloat (zat b)
  | L [A "sr"; r] -> ASafeRune (zat r)
  | L [A "sb"; c] -> ASafeByte (n_of_int (int_atom c land 255))
  | L [A "sbs"; x] -> ASafeBytes (bts x)
  | L [A "us"; x] -> AUnsafeString (bts x)
  | L [A "ub"; c] -> AUnsafeByte (n_of_int (int_atom c land 255))
  | L [A "ubs"; x] -> AUnsafeBytes (bts x)
  | L [A "ur"; r] -> AUnsafeRune (zat r)
  | L (A "print" :: vs) -> APrint (List.map value_of_sexp vs)
  | L (A "printf" :: f :: vs) -> APrintf (bts f, List.map value_of_sexp vs)
  | L [A "dump"] -> ADump
  | _ -> failwith ("bad action " ^ Sexp.to_string s)

let okey_of_sexp (s : Sexp.t) : okey =
  match s with
  | L [A "fl"; b; fc; p; sz] -> KFloat (zat b, zat fc, zat p, zat sz)
  | L [A "q"; x] -> KQuote (bts x)
  | L [A "qa"; x] -> KQuoteAscii (bts x)
  | L [A "bq"; x] -> KBackquote (bts x)
  | L [A "qr"; r] -> KQuoteRune (zat r)
  | L [A "qra"; r] -> KQuoteRuneAscii (zat r)
  | L [A "ip"; r] -> KIsPrint (zat r)
  | _ -> failwith ("bad oracle key " ^ Sexp.to_string s)

let fuel = nat_of_int 40

let user_id (v : value) : int =
  let rec idof = function
    | VStruct (_, [(_, VInt (_, u))]) -> int_of_z u
    | VPtr (_, _, Some x) -> idof x
    | VPtr (_, _, None) -> -2
    | _ -> -3 in
  match v with VUser (_, _, _, repr, _) -> idof repr | _ -> -3

let miss_reasons : (string, int) Hashtbl.t = Hashtbl.create 8
let unmodelled = ref 0
let outfuel = ref 0
let rawok_false = ref 0

(* does any raw input of the case fail the theorems' hypothesis?  (then the Q predicates on the
   output are not demanded) *)
let rec raw_inputs_ok (v : value) : bool =
  match v with
  | VRS s | VRB s -> raw_payload_ok s
  | VSlice (_, _, es) | VArray (_, es) -> List.for_all raw_inputs_ok es
  | VMap (_, _, kvs) -> List.for_all (fun (k, v) -> raw_inputs_ok k && raw_inputs_ok v) kvs
  | VStruct (_, fs) -> List.for_all (fun (_, v) -> raw_inputs_ok v) fs
  | VPtr (_, _, Some e) | VIface (_, Some e) | VSafe (e, _) | VUnsafe e -> raw_inputs_ok e
  | VUser (_, _, _, _, sc) -> List.for_all act_raw_ok sc
  | _ -> true
and act_raw_ok (a : action) : bool =
  match a with
  | APanic v -> raw_inputs_ok v
  | APrint vs | APrintf (_, vs) -> List.for_all raw_inputs_ok vs
  | _ -> true

let h_pcase args : fail list =
  match args with
  | [entry; envs; L (A "oracle" :: orc); obs] ->
    let oracle = List.map (function L [k; v] -> (okey_of_sexp k, bts v) | _ -> failwith "bad oracle entry") orc in
    let hook = match envs with
      | L [A "nohook"] -> None
      | L (A "hook" :: acts) -> Some (List.map action_of_sexp acts)
      | _ -> failwith "bad env" in
    let env = { orc = oracle; hook = hook } in
    (* the hypothesis of the non-interference theorem about the strconv tables (Coq: osaneb) *)
    let osane_fail = k "oracle" (osaneb oracle) (fun () -> "a strconv table of the case is not sane (empty or with a line feed; backquotable string with a line feed; IsPrint('\\n'))") in
    let inputs_ok = ref true in
    let chk vs = if not (List.for_all raw_inputs_ok vs) then inputs_ok := false in
    let chka acts = if not (List.for_all act_raw_ok acts) then inputs_ok := false in
    (match hook with Some h -> chka h | None -> ());
    let kind, r =
      match entry with
      | L (A "sprint" :: vs) -> let vs = List.map value_of_sexp vs in chk vs; "sprint", sprint fuel env vs
      | L (A "fprint" :: vs) -> let vs = List.map value_of_sexp vs in chk vs; "fprint", sprint fuel env vs
      | L (A "sprintf" :: f :: vs) -> let vs = List.map value_of_sexp vs in chk vs; "sprintf", sprintf fuel env (bts f) vs
      | L (A "fprintf" :: f :: vs) -> let vs = List.map value_of_sexp vs in chk vs; "fprintf", sprintf fuel env (bts f) vs
      | L (A "errorf" :: f :: vs) -> let vs = List.map value_of_sexp vs in chk vs; "errorf", errorf fuel env (bts f) vs
      | L (A "sprintfn" :: acts) -> let acts = List.map action_of_sexp acts in chka acts; "sprintfn", sprintfn fuel env acts
      | L (A "builder" :: acts) -> let acts = List.map action_of_sexp acts in chka acts; "builder", builder fuel env acts
      | _ -> failwith "bad entry" in
    incr nontrivial;
    osane_fail @
    let qout (o : bytes) =
      if !inputs_ok then q_redactable kind o else [] in
    (match r, obs with
     | RMiss w, _ -> incr unmodelled; bump miss_reasons (string_of_int (int_of_nat w));
       if int_of_nat w = 0 && Sys.getenv_opt "VERIF_DEBUG_MISS" <> None then prerr_endline ("MISS0 " ^ Sexp.to_string entry);
       (* the model does not cover the case: only the black-box predicates apply; a panic is
          accepted only where the harness found a panic raised while printing a panic payload
          (or by the Sprintfn callback itself), which propagates as in fmt *)
       (match obs with
        | L (A "out" :: o :: _) -> qout (bts o)
        | L [A "panic"; allowed] when bool_atom allowed -> []
        | _ -> [ { tag = "Q:C11"; msg = "panic escaped from " ^ kind } ])
     | RFuel, _ -> incr outfuel; [ { tag = "K:fuel"; msg = "model out of fuel" } ]
     | RPanic _, L [A "panic"; _] -> []    (* nested panic propagates on both sides *)
     | RPanic _, _ -> [ { tag = "K:printer"; msg = "model panics, implementation does not" } ]
     | ROk _, L [A "panic"; _] ->
       [ { tag = "K:printer"; msg = "implementation panics, model does not" };
         { tag = "Q:C11"; msg = "panic escaped from " ^ kind } ]
     | ROk mo, L (A "out" :: o :: rest) ->
       let o = bts o in
       let rk = rawok mo.o_log in
       if not rk && !inputs_ok then incr rawok_false;
       k "printer" (mo.o_bytes = o) (fun () -> Printf.sprintf "%s: model=%s impl=%s" kind (hb mo.o_bytes) (hb o))
       @ (if !inputs_ok then k "rawok" rk (fun () -> "log of the model run is not rawok although all raw inputs are well-formed") else [])
       @ qout o
       @ (match kind, rest with
          | "errorf", [eid] ->
            let mid = match mo.o_err with None -> -1 | Some v -> user_id v in
            k "errorf" (mid = int_atom eid) (fun () -> Printf.sprintf "returned error: model id=%d impl id=%s" mid (atom eid))
          | ("fprint" | "fprintf"), [nw; n; ok] ->
            q "C16" (int_atom nw = 1) (fun () -> "Fprint(f) did not deliver the text in a single Write: " ^ atom nw)
            @ q "C16" (int_atom n = List.length o && bool_atom ok) (fun () -> "Fprint(f) did not return the writer's n/err")
          | _ -> [])
     | _ -> [ { tag = "K:driver"; msg = "unexpected observation" } ])
  | _ -> failwith "pcase: bad case"

let () =
  Hashtbl.replace handlers "pcase" h_pcase;
  at_exit (fun () ->
      if !unmodelled + !outfuel + !rawok_false > 0 then
        (Printf.printf "PRINTERSTATS unmodelled=%d outfuel=%d rawok_false=%d" !unmodelled !outfuel !rawok_false;
         Hashtbl.iter (fun kd v -> Printf.printf " miss[%s]=%d" kd v) miss_reasons; print_newline ()))
