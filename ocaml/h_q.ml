(* Generic black-box obligations written by the harness (gen_q.go): the
   functions and predicates applied here are the ones extracted from the Coq
   development, i.e. the very definitions the theorems are stated with. *)
open Model
open Conv
open Sexp
open Common
type string = Stdlib.String.t

let lf = n_of_int 10

let rec eval (e : Sexp.t) : bytes =
  match e with
  | A a -> bytes_of_atom a
  | L (A "cat" :: es) -> List.concat (List.map eval es)
  | L [A "strip"; x] -> strip_b (eval x)
  | L [A "redact"; x] -> redact_b (eval x)
  | L [A "delenv"; x] -> del_env_b (eval x)
  | L [A "escm"; x] | L [A "safelit"; x] -> escape_markers_b (eval x)
  | L [A "norm"; x] -> unlex (norm (lex (eval x)))
  | L [A "lfonly"; x] -> List.filter (fun c -> c = lf) (eval x)
  | _ -> failwith ("bad expression " ^ Sexp.to_string e)

let text x = string_of_bytes (bts x)

let h_qeq args : fail list =
  match args with
  | [A prop; msg; e1; e2; info] ->
    incr nontrivial;
    let v1 = eval e1 and v2 = eval e2 in
    q prop (v1 = v2) (fun () -> Printf.sprintf "%s [left=%s right=%s] input: %s" (text msg) (hb v1) (hb v2) (text info))
  | _ -> failwith "qeq: bad line"

let h_qpred args : fail list =
  match args with
  | [A prop; msg; A pred; e; info] ->
    incr nontrivial;
    let v = eval e in
    let ok = match pred with
      | "redactable" -> is_wf v && mcl (lex v)
      | "wf" -> is_wf v
      | "linesafe" -> is_linesafe v
      | "nomarker" -> has_no_marker v
      | "noenv" -> n_env (lex v) = O && has_no_marker v
      | "delenvlf" -> is_wf v && List.for_all (fun c -> c = lf) (del_env_b v)
      | _ -> failwith ("unknown predicate " ^ pred) in
    q prop ok (fun () -> Printf.sprintf "%s [%s fails on %s] input: %s" (text msg) pred (hb v) (text info))
  | _ -> failwith "qpred: bad line"

let h_qtrue args : fail list =
  match args with
  | [A prop; msg; b; info] ->
    incr nontrivial;
    q prop (bool_atom b) (fun () -> Printf.sprintf "%s input: %s" (text msg) (text info))
  | _ -> failwith "qtrue: bad line"

(* MakeFormat: the model's reproduction of the directive against the implementation's *)
let h_mkfmt args : fail list =
  match args with
  | [plus; minus; sharp; space; zero; wok; wid; pok; prec; verb; justv; out] ->
    incr nontrivial;
    let st = { st_plus = bool_atom plus; st_minus = bool_atom minus; st_sharp = bool_atom sharp;
               st_space = bool_atom space; st_zero = bool_atom zero;
               st_wid = (if bool_atom wok then Some (z_of_string (atom wid)) else None);
               st_prec = (if bool_atom pok then Some (z_of_string (atom prec)) else None) } in
    let (jv, f) = make_format st (z_of_string (atom verb)) in
    k "makeformat" (jv = bool_atom justv && f = bts out)
      (fun () -> Printf.sprintf "MakeFormat: model=(%b,%s) impl=(%s,%s)" jv (hb f) (atom justv) (atom out))
    @ (if st.st_minus && st.st_zero then []   (* only Go >= 1.22's own parser reports '-' and '0' together *)
       else match parse_directive f with
       | Some (st', v') ->
         q "C14" (st' = st && v' = z_of_string (atom verb))
           (fun () -> "the model's parser does not read back the state from " ^ hb (bts out))
       | None -> q "C14" false (fun () -> "the reproduced format does not parse as one directive: " ^ hb (bts out)))
  | _ -> failwith "mkfmt: bad line"

(* util.go Join: the model's join (builder + one Print per element and delimiter, the function
   JoinP.join_is_concatenation is about) against the implementation's result *)
let h_kjoin args : fail list =
  match args with
  | [d; L es; out; info] ->
    incr nontrivial;
    (match join (nat_of_int 40) { orc = []; hook = None } (bts d) (List.map bts es) with
     | ROk o ->
       k "join" (o.o_bytes = bts out)
         (fun () -> Printf.sprintf "Join: model=%s impl=%s input: %s" (hb o.o_bytes) (hb (bts out)) (text info))
     | _ -> k "join" false (fun () -> "Join: the model does not return a value on " ^ text info))
  | _ -> failwith "kjoin: bad line"

let () =
  Hashtbl.replace handlers "kjoin" h_kjoin;
  Hashtbl.replace handlers "qeq" h_qeq;
  Hashtbl.replace handlers "qpred" h_qpred;
  Hashtbl.replace handlers "qtrue" h_qtrue;
  Hashtbl.replace handlers "mkfmt" h_mkfmt
