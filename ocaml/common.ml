(* Correspondence driver: reads cases written by the Go harness (one
   S-expression per line), runs the extracted Coq model on the same input,
   compares projected observables (K failures) and evaluates the black-box
   property predicates on the implementation's outputs (Q failures). *)
open Model
open Conv
open Sexp
type string = Stdlib.String.t

type fail = { tag : string; msg : string }

let fails : (string, int) Hashtbl.t = Hashtbl.create 16
let counts : (string, int) Hashtbl.t = Hashtbl.create 16
let bump tbl k = Hashtbl.replace tbl k (1 + (try Hashtbl.find tbl k with Not_found -> 0))
let max_report = ref 8
let reported : (string, int) Hashtbl.t = Hashtbl.create 16
let nontrivial = ref 0
let handlers : (string, Sexp.t list -> fail list) Hashtbl.t = Hashtbl.create 16

let report lineno line (f : fail) =
  bump fails f.tag;
  (* the report limit applies per kind of failure (tag + beginning of the message), so that a
     frequent known finding cannot hide a different failure of the same property *)
  let key = f.tag ^ "|" ^ (if String.length f.msg > 90 then String.sub f.msg 0 90 else f.msg) in
  let c = try Hashtbl.find reported key with Not_found -> 0 in
  if c < !max_report then begin
    Hashtbl.replace reported key (c + 1);
    let line = if String.length line > 1500 then String.sub line 0 1500 ^ "..." else line in
    let one_line m = String.concat "\\n" (String.split_on_char '\n' m) in
    Printf.printf "FAIL %s line=%d %s :: %s\n" f.tag lineno (one_line f.msg) line
  end

let k tag cond msg = if cond then [] else [ { tag = "K:" ^ tag; msg = msg () } ]
let q tag cond msg = if cond then [] else [ { tag = "Q:" ^ tag; msg = msg () } ]

let hb = hex_of_bytes
let atom = function A a -> a | L _ -> failwith "atom expected"
let int_atom x = int_of_string (atom x)
let bool_atom x = atom x = "1"
let bts x = bytes_of_atom (atom x)

(* ---------- predicates used by several handlers ---------- *)
let is_wf (s : bytes) = wf (lex s)
let is_closed (s : bytes) = closedb s
let is_linesafe (s : bytes) = linesafe (lex s)
let has_no_marker (s : bytes) = no_marker (lex s)

let rec split_lf (s : bytes) : bytes list =
  let rec go cur acc = function
    | [] -> List.rev (List.rev cur :: acc)
    | x :: r -> if int_of_n x = 10 then go [] (List.rev cur :: acc) r else go (x :: cur) acc r in
  go [] [] s
let join_lf (ls : bytes list) : bytes =
  let lf = n_of_int 10 in
  let rec go = function [] -> [] | [x] -> x | x :: r -> x @ (lf :: go r) in go ls

(* Q for C01/C03 on any produced redactable; ls = whether raw inputs were line-safe *)
let q_redactable0 (what : string) (s : bytes) (ls : bool) : fail list =
  q "C01" (is_wf s) (fun () -> what ^ " not well-formed: " ^ hb s)
  @ q "closure" (mcl (lex s)) (fun () -> what ^ " a marker follows a proper marker prefix (not marker-closed): " ^ hb s)
  @ (if ls then q "C03" (is_linesafe s) (fun () -> what ^ " envelope spans a line feed: " ^ hb s) else [])
  @ (if ls && is_wf s && is_linesafe s then
       let lines = split_lf s in
       q "C03" (List.for_all is_wf lines) (fun () -> what ^ " a line is not well-formed: " ^ hb s)
       @ q "C03" (join_lf (List.map redact_b lines) = redact_b s)
           (fun () -> what ^ " per-line redact differs: " ^ hb s)
       @ q "C03" (join_lf (List.map strip_b lines) = strip_b s)
           (fun () -> what ^ " per-line strip differs: " ^ hb s)
     else [])
let q_redactable what s = q_redactable0 what s true

