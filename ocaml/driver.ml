open Sexp
open Common

let () =
  let file = Sys.argv.(1) in
  let ic = if file = "-" then stdin else open_in file in
  let lineno = ref 0 in
  let distinct = Hashtbl.create 100000 in
  (try
     while true do
       let line = input_line ic in
       incr lineno;
       if String.length line > 0 then begin
         Hashtbl.replace distinct (Hashtbl.hash line, String.length line) ();
         match parse line with
         | L (A kind :: args) ->
           bump counts kind;
           let h = try Hashtbl.find handlers kind with Not_found -> failwith ("no handler for " ^ kind) in
           let fs = (try h args with e -> [ { tag = "K:driver"; msg = "exception " ^ Printexc.to_string e } ]) in
           List.iter (report !lineno line) fs
         | _ -> failwith "bad line"
       end
     done
   with End_of_file -> ());
  let total = Hashtbl.fold (fun _ v a -> v + a) counts 0 in
  Printf.printf "SUMMARY cases=%d distinct=%d nontrivial=%d" total (Hashtbl.length distinct) !nontrivial;
  Hashtbl.iter (fun kd v -> Printf.printf " n_%s=%d" kd v) counts;
  Hashtbl.iter (fun tg v -> Printf.printf " fail[%s]=%d" tg v) fails;
  print_newline ()
