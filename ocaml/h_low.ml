open Model
open Conv
open Sexp
open Common
type string = Stdlib.String.t

(* ---------- handlers ---------- *)

let h_escape args : fail list =
  match args with
  | [b; sl; bnl; strip; obs] ->
    let b = bts b and sl = int_atom sl and bnl = bool_atom bnl and strip = bool_atom strip in
    let m = escape b (nat_of_int sl) bnl strip in
    (match obs with
     | L [A "out"; o] ->
       let o = bts o in
       if o <> b then incr nontrivial;
       k "escape" (m = o) (fun () -> Printf.sprintf "model=%s impl=%s" (hb m) (hb o))
       @ (if strip then [] else
            let v = firstn (nat_of_int sl) b and p = skipn (nat_of_int sl) b in
            let sp = esc_spec bnl v p in
            k "esc_spec" (sp = o) (fun () -> Printf.sprintf "spec=%s impl=%s" (hb sp) (hb o)))
     | _ -> [ { tag = "Q:C11"; msg = "InternalEscapeBytes panicked" } ])
  | _ -> failwith "escape: bad case"

let ends_with (s : bytes) (suf : bytes) = has_suffix s suf

(* only redacted markers and line feeds *)
let rec only_redacted_and_lf (ts : tok list) : bool =
  match ts with
  | [] -> true
  | TB b :: r when int_of_n b = 10 -> only_redacted_and_lf r
  | TS :: TB a :: TB b :: TE :: r when int_of_n a = 195 && int_of_n b = 151 -> only_redacted_and_lf r
  | _ -> false
let lfs_of (s : bytes) = List.filter (fun x -> int_of_n x = 10) s

let h_escbytes args : fail list =
  match args with
  | [b; L [A "out"; o]] ->
    let b = bts b and o = bts o in
    incr nontrivial;
    let m = escape_bytes b in
    let esc = escape_markers_b b in
    let stripped = strip_b o in
    let li = last_invalid b in
    k "escape_bytes" (m = o) (fun () -> Printf.sprintf "model=%s impl=%s" (hb m) (hb o))
    @ q_redactable "EscapeBytes" o
    @ q "C10" (stripped = esc || stripped = esc @ escB)
        (fun () -> "strip(EscapeBytes b) is not the escaped text (+?): " ^ hb o)
    @ q "C10" ((not (valid_utf8 b)) || stripped = esc)
        (fun () -> "valid UTF-8 input got a trailing '?': " ^ hb o)
    @ q "C10" ((not li) || stripped = esc @ escB)
        (fun () -> "input ending in an invalid sequence got no trailing '?': " ^ hb o)
    @ q "C10" (let r = redact_b o in only_redacted_and_lf (lex r) && lfs_of r = lfs_of b)
        (fun () -> "redact(EscapeBytes b) is not redacted markers + line feeds of b: " ^ hb o)
  | [_; _] -> [ { tag = "Q:C11"; msg = "EscapeBytes panicked" } ]
  | _ -> failwith "escbytes: bad case"

let h_escmarkers args : fail list =
  match args with
  | [b; L [A "out"; o]] ->
    let b = bts b and o = bts o in
    if o <> b then incr nontrivial;
    let m = escape_markers_b b in
    k "escape_markers" (m = o) (fun () -> Printf.sprintf "model=%s impl=%s" (hb m) (hb o))
    @ q "C10" (has_no_marker o) (fun () -> "EscapeMarkers output contains a marker: " ^ hb o)
    @ q "C10" (escape_markers_b o = o) (fun () -> "EscapeMarkers not idempotent (model re-run)")
  | [_; _] -> [ { tag = "Q:C11"; msg = "EscapeMarkers panicked" } ]
  | _ -> failwith "escmarkers: bad case"

let h_markers args : fail list =
  match args with
  | [s; L [A "out"; red; str; redb; strb; tob; tos; red2]] ->
    let s = bts s and red = bts red and str = bts str and redb = bts redb and strb = bts strb
    and tob = bts tob and tos = bts tos and red2 = bts red2 in
    if red <> s || str <> s then incr nontrivial;
    let wfs = is_wf s in
    k "redact" (redact_b s = red) (fun () -> Printf.sprintf "model=%s impl=%s" (hb (redact_b s)) (hb red))
    @ k "strip" (strip_b s = str) (fun () -> Printf.sprintf "model=%s impl=%s" (hb (strip_b s)) (hb str))
    @ q "C07" (red = redb && str = strb) (fun () -> "string and bytes variants differ")
    @ q "C07" (tob = s && tos = s) (fun () -> "ToBytes/ToString not identity")
    @ q "C07" (red2 = red) (fun () -> "Redact not idempotent")
    @ q "C07" (has_no_marker str) (fun () ->
        (* classification used by known_findings.json: the re-assembly needs ill-formed UTF-8
           (a marker glued to a proper marker prefix) and is predicted by the model *)
        (if (not (valid_utf8 s)) && not (has_no_marker (strip_b s))
         then "StripMarkers left a marker [reassembly from partial-marker bytes on invalid UTF-8 input]: "
         else "StripMarkers left a marker: ") ^ hb s ^ " -> " ^ hb str)
    @ (if wfs then
         q "C07" (is_wf red) (fun () -> "Redact of well-formed is not well-formed")
         @ q "C07" (del_env (lex red) = del_env (lex s)) (fun () -> "Redact changed the safe text")
         @ q "C07" (n_env (lex red) = n_env (lex s)) (fun () -> "Redact changed the number of envelopes")
         @ q "C07" (str = unlex (strip_tok (lex s))) (fun () -> "StripMarkers removed more than the delimiters")
       else [])
  | [_; _] -> [ { tag = "Q:C11"; msg = "markers op panicked" } ]
  | _ -> failwith "markers: bad case"


let () =
  Hashtbl.replace handlers "escape" h_escape;
  Hashtbl.replace handlers "escbytes" h_escbytes;
  Hashtbl.replace handlers "escmarkers" h_escmarkers;
  Hashtbl.replace handlers "markers" h_markers
