#!/bin/sh
# Extract the model and build the driver. Run from /verif/ocaml.
set -e
cd "$(dirname "$0")"
coqc -Q ../coq Redact ../coq/Extract.v
rm -f ../coq/Extract.vo ../coq/Extract.glob ../coq/.Extract.aux ../coq/Extract.vos ../coq/Extract.vok
ocamlfind ocamlopt -O2 -w -a model.mli model.ml sexp.ml conv.ml common.ml h_low.ml h_buffer.ml h_printer.ml h_q.ml driver.ml -o driver
