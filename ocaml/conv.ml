(* Conversions between OCaml natives and the extracted Coq datatypes. *)
open Model
type string = Stdlib.String.t

let rec pos_of_int (i : int) : positive =
  if i = 1 then XH else if i land 1 = 0 then XO (pos_of_int (i lsr 1)) else XI (pos_of_int (i lsr 1))
let n_of_int (i : int) : n = if i = 0 then N0 else Npos (pos_of_int i)
let rec int_of_pos = function XH -> 1 | XO p -> 2 * int_of_pos p | XI p -> 2 * int_of_pos p + 1
let int_of_n = function N0 -> 0 | Npos p -> int_of_pos p
let rec nat_of_int (i : int) : nat = if i <= 0 then O else S (nat_of_int (i - 1))
let rec int_of_nat = function O -> 0 | S k -> 1 + int_of_nat k

(* Z from a decimal string of arbitrary size (via Int64 when it fits, else by digits). *)
let z_of_int (i : int) : z = if i = 0 then Z0 else if i > 0 then Zpos (pos_of_int i) else Zneg (pos_of_int (-i))
let int_of_z = function Z0 -> 0 | Zpos p -> int_of_pos p | Zneg p -> - (int_of_pos p)

let z_of_string (s : string) : z =
  (* decimal, optional leading '-', arbitrary precision through repeated *10 + d on Coq Z *)
  let neg = String.length s > 0 && s.[0] = '-' in
  let st = if neg then 1 else 0 in
  let ten = z_of_int 10 in
  let acc = ref Z0 in
  for k = st to String.length s - 1 do
    acc := Z.add (Z.mul !acc ten) (z_of_int (Char.code s.[k] - 48))
  done;
  if neg then Z.opp !acc else !acc

let hexval c = match c with
  | '0'..'9' -> Char.code c - 48 | 'a'..'f' -> Char.code c - 87 | 'A'..'F' -> Char.code c - 55
  | _ -> failwith "hexval"

(* atom "x6162" -> bytes *)
let bytes_of_atom (a : string) : bytes =
  if String.length a = 0 || a.[0] <> 'x' then failwith ("not a hex atom: " ^ a);
  let l = (String.length a - 1) / 2 in
  List.init l (fun k -> n_of_int (hexval a.[1 + 2*k] * 16 + hexval a.[2 + 2*k]))

let hex_of_bytes (b : bytes) : string =
  let buf = Buffer.create 16 in
  Buffer.add_char buf 'x';
  List.iter (fun x -> Buffer.add_string buf (Printf.sprintf "%02x" (int_of_n x))) b;
  Buffer.contents buf

let string_of_bytes (b : bytes) : string =
  String.concat "" (List.map (fun x -> String.make 1 (Char.chr (int_of_n x land 255))) b)
