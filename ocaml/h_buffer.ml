(* Buffer histories: step-by-step comparison of the hidden state with the
   model's state machine (Ops.step), plus black-box predicates. *)
open Model
open Conv
open Sexp
open Common
type string = Stdlib.String.t

let mode_of_int = function 0 -> MUnsafe | 1 -> MSafe | _ -> MRaw
let int_of_mode = function MUnsafe -> 0 | MSafe -> 1 | MRaw -> 2

let op_of_sexp (s : Sexp.t) : op =
  match s with
  | L [A "m"; n] -> OMode (mode_of_int (int_atom n))
  | L [A ("w" | "ws"); p] -> OWrite (bts p)
  | L [A "wb"; n] -> OWriteByte (n_of_int (int_atom n))
  | L [A "wr"; n] -> OWriteRune (z_of_string (atom n))
  | L [A "grow"; n] -> OGrow (nat_of_int (int_atom n))
  | L [A "len"] -> OLen | L [A "cap"] -> OCap | L [A "str"] -> OStr
  | L [A "rs"] -> ORS | L [A "rb"] -> ORB | L [A "getmode"] -> OGetMode
  | L [A ("take" | "takeb")] -> OTake
  | L [A "reset"] -> OReset
  | _ -> failwith ("bad op " ^ Sexp.to_string s)

let state_str (b : buffer) =
  Printf.sprintf "(st %s %d %d %s)" (hb b.buf) (int_of_nat b.validUntil) (int_of_mode b.bmode)
    (if b.markerOpen then "1" else "0")


let h_buffer args : fail list =
  match args with
  | A _kind :: rest ->
    let st = ref init in
    (* the memory-level model (BufMem.v): heap of arrays + the struct; the capacity chosen by the
       Go runtime for a slice grown by append inside the scanner is taken from the observation *)
    let mh = ref [] and mc = ref cinit and mem_ok = ref true in
    let out = ref [] in
    let rawok = ref true and rawls = ref true in
    let stop = ref false in
    let add fs = out := !out @ fs in
    let nsteps = ref 0 in
    List.iter (fun item ->
      match item with
      | L [A "step"; o; res; L (A "st" :: ibuf :: ivu :: imode :: iopen :: icap)] when not !stop ->
        incr nsteps;
        let o' = op_of_sexp o in
        (* RawOK bookkeeping (same predicate as the theorems' hypothesis) *)
        if not (op_ok !st o') then begin rawok := false; rawls := false end;
        let (st', ob) = step !st o' in
        (match res with
         | L [A "panic"] ->
           (match o' with
            | OGrow _ -> ()   (* documented panic: negative count / too large; generator never asks *)
            | _ -> ());
           add [ { tag = "Q:C11"; msg = "panic in buffer op " ^ Sexp.to_string o } ];
           add [ { tag = "K:buffer"; msg = "impl panicked, model does not: " ^ Sexp.to_string o } ];
           stop := true
         | _ ->
           (* result *)
           (match res, ob with
            | L [A "none"], _ -> ()
            | L [A "n"; n; ok], ObN m ->
              add (k "buffer" (int_atom n = int_of_nat m && bool_atom ok)
                     (fun () -> Printf.sprintf "result of %s: model=%d impl=%s" (Sexp.to_string o) (int_of_nat m) (atom n)))
            | L [A "n"; n; _], ObMode m ->
              add (k "buffer" (int_atom n = int_of_mode m) (fun () -> "GetMode differs"))
            | L [A "n"; _; ok], ObNone -> add (k "buffer" (bool_atom ok) (fun () -> "error returned"))
            | L [A "r"; r], ObR m ->
              let r = bts r in
              add (k "buffer" (r = m)
                     (fun () -> Printf.sprintf "result of %s: model=%s impl=%s" (Sexp.to_string o) (hb m) (hb r)));
              (match o' with
               | ORS | ORB | OTake when !rawok ->
                 add (q_redactable0 (Sexp.to_string o) r !rawls);
                 (* C13: Len equals the length of RedactableString *)
                 ()
               | OStr -> add (q "C13" (r = strip_b (redactable_bytes !st)) (fun () -> "String() <> strip(RedactableString())"))
               | _ -> ())
            | _ -> add [ { tag = "K:buffer"; msg = "observation shape mismatch at " ^ Sexp.to_string o } ]);
           (* C13: Len law, black box on the implementation's own numbers is done by the harness
              (len vs rs); here: model law *)
           (* state *)
           let ib = bts ibuf in
           let same = ib = st'.buf && int_atom ivu = int_of_nat st'.validUntil
                      && int_atom imode = int_of_mode st'.bmode && bool_atom iopen = st'.markerOpen in
           add (k "buffer" same (fun () ->
               Printf.sprintf "state after %s (step %d): model=%s impl=(st %s %s %s %s)" (Sexp.to_string o) !nsteps
                 (state_str st') (atom ibuf) (atom ivu) (atom imode) (atom iopen)));
           if not same then stop := true;
           (* memory level: no out-of-range slice expression, same bytes as the list-level model, same capacity *)
           (match icap with
            | [cp] when !mem_ok && same ->
              let ecap = nat_of_int (int_atom cp) in
              (match cstep ecap !mh !mc o' with
               | None ->
                 mem_ok := false;
                 add [ { tag = "K:bufmem"; msg = "memory-level model: slice expression out of range at " ^ Sexp.to_string o } ]
               | Some ((h', c'), _) ->
                 let ab = cabs h' c' in
                 let okm = ab.buf = st'.buf && ab.validUntil = st'.validUntil && ab.bmode = st'.bmode && ab.markerOpen = st'.markerOpen in
                 let okc = int_of_nat (ccap h' c') = int_atom cp in
                 add (k "bufmem" okm (fun () -> "memory-level model disagrees with the list-level model after " ^ Sexp.to_string o));
                 add (k "bufmem" okc (fun () -> Printf.sprintf "capacity after %s (step %d): model=%d impl=%s" (Sexp.to_string o) !nsteps (int_of_nat (ccap h' c')) (atom cp)));
                 if not (okm && okc) then mem_ok := false;
                 mh := h'; mc := c')
            | _ -> ());
           (* the invariant the C01/C03 theorems rest on, evaluated on the model state
              (= the implementation state when same) *)
           if !rawok then add (k "inv" (invb st') (fun () -> "invariant invb false after " ^ Sexp.to_string o ^ ": " ^ state_str st'));
           (* C13: accessors are pure *)
           (match o' with
            | OLen | OCap | OStr | ORS | ORB | OGetMode ->
              add (q "C13" (ib = !st.buf || not same) (fun () -> "accessor changed the buffer"))
            | _ -> ());
           st := st')
      | L [A "kept-mutated"; n] ->
        add (q "C13" (int_atom n = 0) (fun () -> "a string obtained earlier was modified by later writes"))
      | _ -> ()) rest;
    if !nsteps >= 2 then incr nontrivial;
    !out
  | _ -> failwith "buffer: bad case"

let () = Hashtbl.replace handlers "buffer" h_buffer
