(* Minimal S-expression reader: atoms and lists, one expression per line. *)
type t = A of string | L of t list

exception Parse_error of string

let parse (s : string) : t =
  let n = String.length s in
  let pos = ref 0 in
  let rec skip () = if !pos < n && (s.[!pos] = ' ' || s.[!pos] = '\t') then (incr pos; skip ()) in
  let rec expr () =
    skip ();
    if !pos >= n then raise (Parse_error "eof")
    else if s.[!pos] = '(' then begin
      incr pos;
      let items = ref [] in
      let rec loop () =
        skip ();
        if !pos >= n then raise (Parse_error "unclosed")
        else if s.[!pos] = ')' then incr pos
        else (items := expr () :: !items; loop ()) in
      loop ();
      L (List.rev !items)
    end else begin
      let st = !pos in
      while !pos < n && s.[!pos] <> ' ' && s.[!pos] <> '(' && s.[!pos] <> ')' do incr pos done;
      A (String.sub s st (!pos - st))
    end in
  expr ()

let rec to_string = function
  | A a -> a
  | L l -> "(" ^ String.concat " " (List.map to_string l) ^ ")"
