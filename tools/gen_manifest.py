#!/usr/bin/env python3
"""Regenerates /verif/MANIFEST.json from the table below (kept in one place so that it stays valid)."""
import json, os
ROOT = os.path.dirname(os.path.dirname(os.path.abspath(__file__)))
TB = "Trusted: Coq 8.16.1 kernel (no axioms: Print Assumptions closed under every theorem), extraction (ExtrOcamlBasic only), Go harness + OCaml driver glue; modelled and validated by the correspondence on every run, not verified: Go's utf8/regexp/strconv/reflect/sort/sync.Pool semantics and the standard fmt used as reference"
L = {
 "C01": "Coq theorem for ALL Buffer call sequences (invariant by induction over operations; the scanner loop is proved equal to its list-level specification) lifted to every entry point of the printer model by construction (the evaluator reaches its buffer only through logged Buffer calls); state-by-state correspondence of the Buffer model and output correspondence of the printer model with the Go code; well-formedness predicate on every implementation output",
 "C02": "Partial proof + correspondence: Coq theorems that the text outside envelopes of any Buffer history is a function of its public view (unsafe payloads reduced to their line feeds), that Redact keeps only that text, that under Unsafe() everything is written in unsafe mode (D2, whole evaluator, all scripts); envelope placement and the per-leaf unsafe guard are decided by the model/implementation correspondence and by the black-box non-interference predicate (three instantiations per shape, Redact() byte-identical)",
 "C03": "The Buffer invariant carries line-safety: Coq theorem for all call sequences and all entry points of the printer model; per-line predicates (each line well-formed, per-line redact/strip = whole) evaluated on every implementation output",
 "C04": "Partial proof + differential validation: Coq theorem that the stripped output of every entry point is exactly the concatenation of the payloads written (mode switches add/remove marker bytes only) and Fprint(f)=Sprint(f); that the payload sequence is fmt's is decided by model/implementation correspondence and by black-box comparison with the real fmt package on fmt-compatible cases",
 "C05": "Partial proof + correspondence: Coq theorems for the text outside envelopes (= safe payloads + line feeds of unsafe payloads, every history and entry point), D1 (every evaluator call hands back mode and override on every outcome), the bracket structure of Safe(x)/Unsafe(x) operands; per-leaf classification decided by correspondence and by the black-box predicate against fmt with unsafe leaves blanked",
 "C06": "Coq theorems over the whole evaluator (all values, scripts re-entering through Print/Printf/Safe*/Unsafe*/Write, nested printers, hook, all verbs/flags/fuel): D2 (under Unsafe only unsafe-mode writes), D3 (under Safe never unsafe mode), operand bracket structure, unsafe segments contribute only line feeds outside envelopes; correspondence + black-box predicates on wrapper nestings up to depth 3",
 "C07": "Coq theorems on the token-level model of Redact/StripMarkers (well-formedness, safe text, envelope count, content, idempotence; exact strip; refutation of the unrestricted no-marker claim) + exhaustive differential validation of the regexp model against the Go code over the 9-letter alphabet",
 "C08": "Partial proof + correspondence: Coq theorems that raw mode copies a redactable unchanged, StringBuilder.Print inlines the inner result unchanged, the class of well-formed line-safe redactables is closed under concatenation and Redact/StripMarkers distribute over it; the evaluator's handling of redactable operands under every directive and in containers is decided by correspondence and black-box equalities on library-produced redactables",
 "C09": "Coq theorem for ALL Buffer call sequences: stripped result = payloads in order with markers replaced, result without envelopes = safe payloads + line feeds of unsafe ones (side condition content_ok: satisfied by valid UTF-8), well-formed and line-safe for arbitrary bytes; same for the StringBuilder model and the printer entry points in terms of their call logs; agreement of the three implementations up to merging by correspondence + black-box predicate",
 "C10": "Coq theorems on EscapeMarkers, on the literal model of the InternalEscapeBytes scanner loop (= list-level specification for every prefix offset and flag), on EscapeBytes (well-formed, line-safe, stripped/redacted form, the '?' clause), split-insensitivity; exhaustive differential validation against the Go code for every startLoc and flag setting",
 "C11": "Partial proof + correspondence: Coq theorems that every rune is written as valid UTF-8 and every Buffer call preserves the invariant, that restorers run on every outcome and mode/override survive panics (D1), that nested printers hand the buffer back on every outcome; Go-level slice safety, the PANIC= report and containment are decided by state-by-state/output correspondence (incl. invalid runes, panics at every script position) and black-box predicates",
 "C12": "Partial proof + runtime evidence: Coq theorems that a printer is handed back with no override, nothing captured for %w, a pristine buffer, and that nested printers leak no state; histories on recycled printers (pool counter) compared with a fresh process; schedules/data races: 16-goroutine runs compared with the baseline (not a theorem)",
 "C13": "Coq theorems on the Buffer state machine (accessors leave the state unchanged, Len law, Take/Reset give the initial state in every reachable state) + state comparison before/after every accessor on the implementation and re-reading of strings handed out earlier",
 "C14": "Partial proof + complete enumeration: Coq model of MakeFormat and of the directive syntax, theorem for the bare-%v report, kernel-checked round trip on the property's finite product (vm_compute); the implementation's MakeFormat compared with the model and re-parsed by the real printers on the whole product; wrapper/forwarder equalities against fmt",
 "C15": "Partial proof + correspondence: Coq theorems on the %w branch of the method dispatch (correct use = the v dispatch + capture, misuse = bad verb + cancel) and that nothing is captured outside HelperForErrorf (whole evaluator); returned error identity and text compared black-box with the property's prescription, Sprintf and fmt.Errorf",
 "C16": "Partial proof + correspondence: Coq theorems Fprint(f)=Sprint(f), StringBuilder.Print(f) = Sprint(f) byte for byte, nested route hands the mode back; the nested routes' equality up to merging, single Write and (n, err) pass-through by correspondence + black-box predicates over five routes and three writer behaviours",
 "C17": "Coq theorems on the method dispatch for every hook script, error value, verb and state (hook alone renders error operands, inside catchPanic, verb v for %w; bypassed under Unsafe where D2 envelopes everything); positions/depths and both configurations by correspondence (scripted hooks) + black-box predicates with a recording hook",
}
REF = {p: "DESIGN.md §6 %s" % p for p in L}
checks = []
for p in sorted(L):
    partial = "Partial" in L[p][:8]
    checks.append({
        "property_id": p, "quick_cmd": "./check %s --tier quick" % p, "thorough_cmd": "./check %s --tier thorough" % p,
        "evidence_file": "/verif/evidence/%s.json" % p, "replay_cmd_template": "./check %s --replay {path}" % p,
        "engine": "coq-model",
        "level_claimed": {"category": "proof", "text": L[p], "design_ref": REF[p]},
        "level_note": TB + ("; the parts named _partial in coq/Properties/%s.v are decided by correspondence and black-box predicates, not by a theorem" % p if partial else ""),
        "technique": "machine-checked proof in Coq + model/implementation correspondence",
    })
m = {
 "version": 1, "setup_cmd": "make -C /verif setup",
 "hooks": {"guard": "verif", "enable": "go build -tags verif (harness module /verif/harness with replace => /repo)",
           "baseline_off_cmd": "cd /repo && GOFLAGS=-mod=mod GOPROXY=off GOSUMDB=off GOTOOLCHAIN=local go test -vet=off -count=1 ./...",
           "source_commits": ["bfa07f7"], "add_only": True},
 "engines": [
  {"name": "coq-model", "path": "/verif/coq", "serves_properties": sorted(L),
   "kind_free_text": "hand-written executable Gallina model of the library (bytes/tokens/utf8, markers, escape scanner, buffer, fmt helpers, value universe with scripted user methods, printer evaluator, entry points, MakeFormat), theorems per property under coq/Properties, Coq 8.16.1"},
  {"name": "correspondence", "path": "/verif/harness + /verif/ocaml", "serves_properties": sorted(L),
   "kind_free_text": "Go harness runs the implementation (and the standard fmt where the property names it), OCaml driver runs the extracted model on the same inputs and evaluates the property predicates with extracted Coq definitions"}],
 "checks": checks, "not_applicable": [],
 "notes": "Every property is claimed. C12's schedule/data-race half is runtime evidence only (see level text). Known findings: known_findings.json.",
}
json.dump(m, open(os.path.join(ROOT, "MANIFEST.json"), "w"), indent=1)
print("wrote MANIFEST.json with", len(checks), "checks")
