#!/usr/bin/env python3
# pretty-print FAIL lines: decode x<hex> atoms
import sys,re
def dec(m):
    try: return '"'+bytes.fromhex(m.group(1)).decode('utf-8','backslashreplace').replace('\n','\\n')+'"'
    except Exception: return m.group(0)
for l in sys.stdin:
    if not l.startswith('FAIL'): continue
    l=re.sub(r'\bx((?:[0-9a-f]{2})*)\b',dec,l)
    print(l.strip()[:int(sys.argv[1]) if len(sys.argv)>1 else 1500]); print()
