#!/bin/sh
# usage: regen_diff.sh <file.go> <old-version-of-file.go>   (run in /repo/internal/rfmt)
# Recovers the upstream base by reverse-applying the shipped diff to the OLD version of the
# file, then rewrites <file>.diff as the diff between that base and the current file.
set -e
f=$1; old=$2
t=$(mktemp -d)
cp "$old" "$t/$f"
(cd "$t" && patch -s -R -p0 < "$OLDPWD/$f.diff")
cp "$t/$f" "$t/$f.orig"
cp "$f" "$t/$f"
(cd "$t" && diff -u "$f.orig" "$f" > "$f.diff.new" || true)
cp "$t/$f.diff.new" "$f.diff"
# check: reverse-applying the new diff to the new file gives the base again
cp "$f" "$t/chk.go"; (cd "$t" && cp chk.go "$f" && patch -s -R -p0 < "$OLDPWD/$f.diff" && cmp "$f" "$f.orig")
rm -rf "$t"
echo "regenerated $f.diff"
