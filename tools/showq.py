#!/usr/bin/env python3
import sys,re
def dec(m):
    try: return '"'+bytes.fromhex(m.group(1)).decode('utf-8','backslashreplace').replace('\n','\\n')+'"'
    except Exception: return m.group(0)
n=int(sys.argv[1]) if len(sys.argv)>1 else 900
for l in sys.stdin:
    if not l.startswith('FAIL'): continue
    l=l.split(' :: ')[0]
    for _ in range(3):
        l=re.sub(r'\bx((?:[0-9a-f]{2})+)\b',dec,l)
    print(l.strip()[:n]); print()
