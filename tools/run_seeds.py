#!/usr/bin/env python3
"""Evaluate seeded changes: for each seed directory /verif/seeded/<Cxx><v>/ (patch.diff, demo_test.go, notes.md) make a
scratch worktree of /repo, apply the change, confirm it (builds, suite passes, demo fails with / passes without),
run the checks against the worktree (VERIF_REPO), record which checks report a violation, remove the worktree,
and write <seed>/meta.json.
usage: run_seeds.py <seed-root> <out.json> [--only-target] [ids...]"""
import sys, os, re, json, subprocess, shutil, concurrent.futures, tempfile
ROOT = os.path.dirname(os.path.dirname(os.path.abspath(__file__)))
ENV = dict(os.environ, GOFLAGS="-mod=mod", GOPROXY="off", GOSUMDB="off", GOTOOLCHAIN="local")
ALL = ["C%02d" % i for i in range(1, 18)]
PKGDIR = {"redact": ".", "redact_test": ".", "buffer": "internal/buffer", "buffer_test": "internal/buffer", "escape": "internal/escape",
          "rfmt": "internal/rfmt", "markers": "internal/markers", "builder": "builder", "builder_test": "builder",
          "fmtforward": "internal/fmtforward", "escape_test": "internal/escape", "rfmt_test": "internal/rfmt"}


def sh(cmd, cwd=None, env=None, timeout=3600):
    p = subprocess.run(cmd, shell=True, cwd=cwd, env=env or ENV, stdout=subprocess.PIPE, stderr=subprocess.STDOUT, text=True, errors="replace", timeout=timeout)
    return p.returncode, p.stdout


def evaluate(seed_dir, sid, target):
    res = {"id": sid, "target": target}
    wt = "/tmp/seedeval/wt-" + sid
    bd = "/tmp/seedeval/build-" + sid
    shutil.rmtree(bd, ignore_errors=True)
    sh("git -C /repo worktree remove --force %s" % wt)
    shutil.rmtree(wt, ignore_errors=True)
    os.makedirs("/tmp/seedeval", exist_ok=True)
    rc, out = sh("git -C /repo worktree add -q --detach %s HEAD" % wt)
    try:
        demo = os.path.join(seed_dir, "demo_test.go")
        pkg = re.search(r"^package\s+(\w+)", open(demo).read(), re.M).group(1)
        md = re.match(r"//\s*dir:\s*(\S+)", open(demo).read())
        ddir = os.path.join(wt, md.group(1) if md else PKGDIR.get(pkg, "."))
        m = re.search(r"func (Test\w+)", open(demo).read())
        tname = m.group(1) if m else "Test"
        # demo on the unmodified tree
        shutil.copy(demo, os.path.join(ddir, "zz_seed_demo_test.go"))
        rc0, out0 = sh("go test -vet=off -count=1 -run '^%s' ." % tname, cwd=ddir)
        res["demo_passes_without"] = rc0 == 0
        os.remove(os.path.join(ddir, "zz_seed_demo_test.go"))
        rc, out = sh("git apply %s" % os.path.join(seed_dir, "patch.diff"), cwd=wt)
        if rc != 0:
            rc, out = sh("git apply -3 %s" % os.path.join(seed_dir, "patch.diff"), cwd=wt)
        res["applies"] = rc == 0
        if rc != 0:
            res["apply_error"] = out[-500:]
            return res
        rc, out = sh("go build ./... && go test -vet=off -count=1 ./...", cwd=wt)
        res["suite_passes_with"] = rc == 0
        if rc != 0:
            res["suite_out"] = out[-800:]
        shutil.copy(demo, os.path.join(ddir, "zz_seed_demo_test.go"))
        rc1, out1 = sh("go test -vet=off -count=1 -run '^%s' ." % tname, cwd=ddir)
        res["demo_fails_with"] = rc1 != 0
        os.remove(os.path.join(ddir, "zz_seed_demo_test.go"))
        env = dict(ENV, VERIF_REPO=wt, VERIF_BUILD=bd, VERIF_NO_SEARCH="1")
        res["checks"] = {}
        order = [target] + ([] if ONLY_TARGET else [p for p in ALL if p != target])
        for p in order:
            e = dict(env)
            if p == target:
                e.pop("VERIF_NO_SEARCH")
            rc, out = sh("./check %s --tier quick" % p, cwd=ROOT, env=e, timeout=3000)
            viol = [l for l in out.splitlines() if l.startswith("VIOLATION")]
            last = out.strip().splitlines()[-1] if out.strip() else ""
            res["checks"][p] = {"rc": rc, "violation": viol[0] if viol else "", "summary": last[-160:]}
            if rc != 0 and not viol:
                res["checks"][p]["broken"] = out[-400:]
            if viol:
                mm = re.search(r"replay=(\S+)", viol[0])
                if mm and os.path.exists(mm.group(1)) and p == target:
                    try:
                        r = json.load(open(mm.group(1)))
                        res["replay"] = {k: (str(v)[:600]) for k, v in r.items() if k in ("kind", "predicate", "what", "correspondence", "no_longer_checks")}
                    except Exception:
                        pass
        res["detected_by_target"] = bool(res["checks"][target]["violation"])
        res["detected_by"] = [p for p in order if res["checks"][p]["violation"]]
        res["broken_checks"] = [p for p in order if res["checks"][p].get("broken")]
    finally:
        sh("git -C /repo worktree remove --force %s" % wt)
        shutil.rmtree(wt, ignore_errors=True)
        shutil.rmtree(bd, ignore_errors=True)
    return res


ONLY_TARGET = False


def write_meta(sd, r):
    notes = ""
    if os.path.exists(os.path.join(sd, "notes.md")):
        notes = open(os.path.join(sd, "notes.md")).read()
    old = {}
    mp = os.path.join(sd, "meta.json")
    if os.path.exists(mp):
        old = json.load(open(mp))
    meta = {
        "id": r["id"], "breaks_property": r["target"],
        "needs_to_manifest": old.get("needs_to_manifest") or notes[:1500],
        "source": "independent sub-agent given only the property text and a scratch worktree",
        "confirmed": {k: r.get(k) for k in ("applies", "suite_passes_with", "demo_fails_with", "demo_passes_without")},
        "what_was_run": ["git worktree add --detach <scratch> HEAD; go test -run <TestSeed...> (demo on the unchanged tree)",
                         "git apply patch.diff; go build ./... && go test -vet=off -count=1 ./... (suite with the change)",
                         "go test -run <TestSeed...> (demo with the change)",
                         "VERIF_REPO=<scratch> VERIF_BUILD=<scratch build> ./check <ID> --tier quick for every property"],
        "detected_by_target_check": r.get("detected_by_target"),
        "detected_by": r.get("detected_by", old.get("detected_by", [])),
        "broken_checks": r.get("broken_checks", []),
        "target_replay": r.get("replay"),
    }
    if ONLY_TARGET and old.get("detected_by"):
        meta["detected_by"] = sorted(set(old["detected_by"]) | set(meta["detected_by"])) if r.get("detected_by_target") else [p for p in old["detected_by"] if p != r["target"]]
    json.dump(meta, open(mp, "w"), indent=1)


def main():
    global ONLY_TARGET
    root, outp = sys.argv[1], sys.argv[2]
    args = sys.argv[3:]
    if "--only-target" in args:
        ONLY_TARGET = True
        args.remove("--only-target")
    want = set(args)
    jobs = []
    for sid in sorted(os.listdir(root)):
        sd = os.path.join(root, sid)
        m = re.match(r"^(C\d\d)\w+$", sid)
        if not (os.path.isdir(sd) and m and os.path.exists(os.path.join(sd, "patch.diff"))):
            continue
        prop = m.group(1)
        if not want or sid in want or prop in want:
            jobs.append((sd, sid, prop))
    results = {}
    if os.path.exists(outp):
        results = json.load(open(outp))
    with concurrent.futures.ThreadPoolExecutor(max_workers=4) as ex:
        futs = {ex.submit(evaluate, *j): j for j in jobs}
        for f in concurrent.futures.as_completed(futs):
            j = futs[f]
            try:
                r = f.result()
            except Exception as e:
                r = {"id": j[1], "error": repr(e)}
            results[j[1]] = r
            json.dump(results, open(outp, "w"), indent=1)
            if "applies" in r:
                write_meta(j[0], r)
            print(j[1], "applies=%s suite=%s demo_fails=%s demo_ok_without=%s target_detects=%s by=%s" % (
                r.get("applies"), r.get("suite_passes_with"), r.get("demo_fails_with"), r.get("demo_passes_without"),
                r.get("detected_by_target"), ",".join(r.get("detected_by", []))), flush=True)


if __name__ == "__main__":
    main()
