# /verif top-level: `make setup` builds everything from files on disk (offline).
SHELL := /bin/bash
export GOFLAGS := -mod=mod
export GOPROXY := off
export GOSUMDB := off
export GOTOOLCHAIN := local

.PHONY: setup coq driver harness clean
setup: coq driver harness

coq:
	cd coq && coq_makefile -f _CoqProject -o Makefile >/dev/null && timeout 3000 $(MAKE) -j16 2>&1 | tail -5

driver: coq
	./ocaml/build.sh

harness:
	mkdir -p .build && cd harness && go build -tags verif -o ../.build/harness .

clean:
	-cd coq && $(MAKE) clean
	rm -rf .build ocaml/driver ocaml/model.ml ocaml/model.mli ocaml/*.cm* ocaml/*.o
