package main

import (
	"encoding/hex"
	"strconv"
	"strings"
)

// hx renders a byte string as an atom: 'x' followed by hex digits.
func hx(b []byte) string  { return "x" + hex.EncodeToString(b) }
func hxs(s string) string { return "x" + hex.EncodeToString([]byte(s)) }
func b01(b bool) string {
	if b {
		return "1"
	}
	return "0"
}
func itoa(i int) string         { return strconv.Itoa(i) }
func i64(i int64) string        { return strconv.FormatInt(i, 10) }
func u64(i uint64) string       { return strconv.FormatUint(i, 10) }
func sx(parts ...string) string { return "(" + strings.Join(parts, " ") + ")" }
